/-
  Proofs.C19Hist — histories that CONTINUE after a crash: NewDBExt re-establishes the invariants on every directory
  a crash can leave (also when `loadlog` discards the log: empty log left between os.Create and the header write,
  or the previous version's log left by a crash inside defrag), including crashes inside NewDBExt itself.
-/
import GocoinV.Proofs.C19Run3
namespace GocoinV.Proofs.C19
open GocoinV GocoinV.Qdb GocoinV.QdbSpec

variable {eg : Bool}

/-! ### opening a directory whose log is discarded -/

def noLog (F : FS) : FS := { F with log := none }

theorem pickIdx_noLog (F : FS) : pickIdx (noLog F) = pickIdx F := rfl
theorem snapVer_noLog (F : FS) : snapVer (noLog F) = snapVer F := rfl
theorem snapBase_noLog (F : FS) : snapBase (noLog F) = snapBase F := rfl

theorem logEntries_discarded (F : FS) (hd : LogDiscarded F) : logEntries F = [] := by
  obtain ⟨f, h1, h2⟩ := hd
  unfold logEntries
  rw [h1]
  simp only [h2]

theorem diskIndex_noLog (F : FS) (hd : LogDiscarded F) : diskIndex (noLog F) = diskIndex F := by
  unfold diskIndex
  rw [logEntries_discarded F hd, snapBase_noLog]
  rfl

theorem diskIndex_noLog_base (F : FS) : diskIndex (noLog F) = snapBase F := by
  unfold diskIndex
  rw [snapBase_noLog]
  rfl

/-- `NewDBidx` on a directory whose log is discarded leaves what it would leave on the directory without the log -/
theorem open_state_discard (F : FS) (vol : Bool) (opts : Opts) (hd : LogDiscarded F) :
    OpenState (noLog F) vol (openIndex { fs := F, volatile := vol, opts := opts, eager := eg }) := by
  have A := loaddat_state (eg := eg) F vol opts
  obtain ⟨f, hf1, hf2⟩ := hd
  unfold openIndex
  dsimp only
  have hB : loadlog (loaddat { fs := F, volatile := vol, opts := opts, eager := eg }).1
        (loaddat { fs := F, volatile := vol, opts := opts, eager := eg }).2 =
      (emit (loaddat { fs := F, volatile := vol, opts := opts, eager := eg }).1 "qdb.loadlog:removed" .removeLog,
       (loaddat { fs := F, volatile := vol, opts := opts, eager := eg }).2) := by
    unfold loadlog
    rw [A.log, hf1]
    simp only [A.verSeq, hf2]
  rw [hB]
  dsimp only
  generalize (loaddat { fs := F, volatile := vol, opts := opts, eager := eg }).1 = a at A
  generalize (loaddat { fs := F, volatile := vol, opts := opts, eager := eg }).2 = used at A
  let b := emit a "qdb.loadlog:removed" .removeLog
  have b_fs0 : b.fs.idx0 = a.fs.idx0 := rfl
  have b_fs1 : b.fs.idx1 = a.fs.idx1 := rfl
  have b_dats : b.fs.dats = a.fs.dats := rfl
  have b_log : b.fs.log = none := rfl
  have hfr := frame_cleanupold b used
  have hbook := book_cleanupold b used
  unfold book at hbook
  simp only [Prod.mk.injEq] at hbook
  have hck := cleanupold_keeps b used b.dataSeq (Or.inl rfl)
  unfold cleanKeeps at hck
  simp only [Prod.mk.injEq] at hck
  obtain ⟨c0, c1, c2, _, _, _, _, cdi, cvs, cmx, _⟩ := hck
  have hidxf : ∀ j, idxFile (cleanupold b used).fs j = idxFile a.fs j := by
    intro j; unfold idxFile; rw [c0, c1, b_fs0, b_fs1]
  have hoth : ∀ j, otherIdx (cleanupold b used).fs j = otherIdx a.fs j := by
    intro j; unfold otherIdx; rw [c0, c1, b_fs0, b_fs1]
  have hDI : diskIndex (noLog F) = snapBase F := diskIndex_noLog_base F
  show OpenState (noLog F) vol (cleanupold b used)
  constructor
  · rw [hDI]; exact hfr.index.trans A.index
  · exact hfr.failed.trans A.failed
  · exact hfr.pending.trans A.pending
  · exact hbook.1.trans A.datOpen
  · exact hfr.volatile.trans A.volatile
  · rw [snapVer_noLog]; exact cvs.trans A.verSeq
  · rw [c2]; rfl
  · rw [logOpen_cleanupold]
    show a.logOpen = true ↔ (noLog F).log ≠ none
    rw [A.logOpen]; simp [noLog]
  · have : pickIdx (cleanupold b used).fs = pickIdx a.fs := by unfold pickIdx; rw [c0, c1, b_fs0, b_fs1]
    rw [this, pickIdx_noLog]; exact A.pick
  · rw [hidxf, cdi]; exact A.free
  · rw [hoth, cdi, cvs]; exact A.otherSlot
  · intro kr hkr; rw [cmx]; rw [hDI] at hkr; exact A.maxSeq kr hkr
  · intro kr hkr
    rw [hDI] at hkr
    have hk := cleanupold_keeps b used kr.2.seq (Or.inr (by simpa using A.used kr hkr))
    unfold cleanKeeps at hk
    simp only [Prod.mk.injEq] at hk
    rw [hk.2.2.2.1, b_dats, A.dats]
    rfl

/-- NewDBExt (non-volatile, LoadData) on ANY openable directory — in particular on every directory a crash can
    leave — satisfies the invariants, and nothing is pending -/
theorem open_inv3g (F : FS) (opts : Opts) (h : OpenOK eg F)
    (hmax : (openIndex { fs := F, volatile := false, opts := opts, eager := eg }).maxSeq + 1 < 2^32) :
    Inv3 (openDB F false true opts eg) ∧ (openDB F false true opts eg).pending = [] := by
  have key : ∀ (F' : FS) (S : OpenState F' false (openIndex { fs := F, volatile := false, opts := opts, eager := eg }))
      (E : List LogEntry) (hE : ∀ e ∈ E, EntryFits e) (hlog : LogState F' (snapVer F') E) (hsv : snapVer F' < 2^32)
      (hR : DirReadable eg F'), Inv3 (openDB F false true opts eg) ∧ (openDB F false true opts eg).pending = [] := by
    intro F' S E hE hlog hsv hR
    obtain ⟨hload, h3⟩ := inv3_of_openState F' _ S E hE hlog hsv hR hmax (openIndex_eager F false opts)
    have hopen : openDB F false true opts eg =
        { openIndex { fs := F, volatile := false, opts := opts, eager := eg } with
          index := mapV (loadedRec (openIndex { fs := F, volatile := false, opts := opts, eager := eg }).fs) (diskIndex F'),
          dataSeq := u32 ((openIndex { fs := F, volatile := false, opts := opts, eager := eg }).maxSeq + 1) } := by
      unfold openDB
      simp only [↓reduceIte]
      rw [hload]
    rw [hopen]
    exact ⟨h3, S.pending⟩
  rcases h.log with ⟨E, hE, hlog⟩ | hd
  · exact key F (open_state F false opts E hE hlog h.ver) E hE hlog h.ver h.readable
  · have hR : DirReadable eg (noLog F) := by
      intro kr hkr
      rw [diskIndex_noLog F hd] at hkr
      exact h.readable kr hkr
    exact key (noLog F) (open_state_discard F false opts hd) [] (fun e he => by cases he) (Or.inl ⟨rfl, rfl⟩)
      (by rw [snapVer_noLog]; exact h.ver) hR

/-- values after NewDBExt on an openable directory -/
theorem open_vals (F : FS) (opts : Opts) (h : OpenOK eg F) (k : Key) :
    vals (openDB F false true opts eg) k = diskValue F k := by
  rw [vals_eq]
  exact (open_readable F h.readable false opts).2 k

/-! ### crashes inside NewDBExt: its own file operations are removals that change nothing a reopen looks at -/

/-- the removals NewDBExt performs on directory `F`: the index slot that was not picked, a log that is discarded,
    data files no record of the disk index refers to -/
def TrimEff (F : FS) (e : Effect) : Prop :=
  (∃ i s d, pickIdx F = some (i, s, d) ∧ e = .removeIdx (1 - i)) ∨
  (LogDiscarded F ∧ e = .removeLog) ∨
  (∃ t, (∀ kr ∈ diskIndex F, kr.2.seq ≠ t) ∧ e = .removeDat t)

/-- `G` is `F` after some of these removals -/
structure Trim (F G : FS) : Prop where
  pick : pickIdx G = pickIdx F
  log : G.log = F.log ∨ (G.log = none ∧ LogDiscarded F)
  dats : ∀ kr ∈ diskIndex F, dlookup kr.2.seq G.dats = dlookup kr.2.seq F.dats

theorem Trim.refl (F : FS) : Trim F F := ⟨rfl, Or.inl rfl, fun _ _ => rfl⟩

theorem Trim.step {F G : FS} (h : Trim F G) (e : Effect) (he : TrimEff F e) : Trim F (G.apply e) := by
  rcases he with ⟨i, sv, d, hp, rfl⟩ | ⟨hd, rfl⟩ | ⟨t, ht, rfl⟩
  · have hpG : pickIdx G = some (i, sv, d) := h.pick.trans hp
    have : pickIdx (G.apply (.removeIdx (1 - i))) = pickIdx G ∧ (G.apply (.removeIdx (1 - i))).log = G.log ∧
        (G.apply (.removeIdx (1 - i))).dats = G.dats := by
      rcases pickIdx_cases G i sv d hpG with ⟨rfl, hc⟩ | ⟨rfl, hc⟩
      · have hf : G.apply (.removeIdx (1 - 0)) = { G with idx1 := none } := by unfold FS.apply; simp
        rw [hf, hpG]
        refine ⟨?_, rfl, rfl⟩
        unfold pickIdx; simp only [hc]; rfl
      · have hf : G.apply (.removeIdx (1 - 1)) = { G with idx0 := none } := by unfold FS.apply; simp
        rw [hf, hpG]
        refine ⟨?_, rfl, rfl⟩
        unfold pickIdx; simp only [hc]; rfl
    obtain ⟨a, b, c⟩ := this
    exact ⟨a.trans h.pick, by rw [b]; exact h.log, fun kr hkr => by rw [c]; exact h.dats kr hkr⟩
  · exact ⟨h.pick, Or.inr ⟨rfl, hd⟩, h.dats⟩
  · refine ⟨h.pick, h.log, fun kr hkr => ?_⟩
    show dlookup kr.2.seq (derase t G.dats) = _
    rw [dlookup_derase_other _ _ _ (ht kr hkr)]
    exact h.dats kr hkr

theorem Trim.applyAll {F G : FS} (h : Trim F G) (l : List Effect) (hl : ∀ e ∈ l, TrimEff F e) :
    Trim F (G.applyAll l) := by
  induction l generalizing G with
  | nil => exact h
  | cons e t ih =>
    exact ih (h.step e (hl e List.mem_cons_self)) (fun x hx => hl x (List.mem_cons_of_mem _ hx))

/-- a trimmed directory is as openable as the original and every key has the same disk value -/
theorem Trim.ok {F G : FS} (h : Trim F G) (h0 : OpenOK eg F) : OpenOK eg G ∧ ∀ k, diskValue G k = diskValue F k := by
  have hsv : snapVer G = snapVer F := by unfold snapVer; rw [h.pick]
  have hle : logEntries G = logEntries F := by
    rcases h.log with hl | ⟨hl, hd⟩
    · unfold logEntries; rw [hl, hsv]
    · rw [logEntries_discarded F hd]; unfold logEntries; rw [hl]
  obtain ⟨r1, r2⟩ := same_disk_readable F G h.pick hle h.dats h0.readable
  refine ⟨⟨?_, by rw [hsv]; exact h0.ver, r1⟩, r2⟩
  rw [hsv]
  rcases h.log with hl | ⟨hl, _⟩
  · rcases h0.log with ⟨E, hE, hs⟩ | ⟨f, hf1, hf2⟩
    · refine Or.inl ⟨E, hE, ?_⟩
      unfold LogState at hs ⊢
      rw [hl]; exact hs
    · exact Or.inr ⟨f, hl.trans hf1, by rw [hsv]; exact hf2⟩
  · exact Or.inl ⟨[], (fun e he => by cases he), Or.inl ⟨hl, rfl⟩⟩

/-! #### the file operations of NewDBExt are such removals -/

theorem memput_effs (db : DB) (k : Key) (r : Rec) : (memput db k r).effs = db.effs := by
  unfold memput
  cases ilookup k db.index <;> dsimp only <;> (repeat' split) <;> rfl

theorem memdel_effs (db : DB) (k : Key) : (memdel db k).effs = db.effs := by
  unfold memdel
  cases ilookup k db.index <;> dsimp only <;> (repeat' split) <;> rfl

theorem memputAll_effs (recs : List (Key × Rec)) (db : DB) : (memputAll db recs).effs = db.effs := by
  unfold memputAll
  induction recs generalizing db with
  | nil => rfl
  | cons x t ih => simp only [List.foldl_cons]; exact (ih _).trans (memput_effs db x.1 x.2)

theorem applyLog_effs (es : List LogEntry) (db : DB) : (applyLog db es).effs = db.effs := by
  unfold applyLog
  induction es generalizing db with
  | nil => rfl
  | cons e t ih =>
    simp only [List.foldl_cons]
    refine (ih _).trans ?_
    cases e with
    | put k r => exact memput_effs db k r
    | del k => exact memdel_effs db k

theorem fail_effs (db : DB) (w : String) : (fail db w).effs = db.effs := by
  unfold fail; split <;> rfl

theorem loadOne_effs (st : DB × List (Key × Rec)) (kr : Key × Rec) : (loadOne st kr).1.effs = st.1.effs := by
  unfold loadOne
  repeat' split
  all_goals first | rfl | exact fail_effs _ _

theorem loadAll_effs (db : DB) : (loadAll db).effs = db.effs := by
  unfold loadAll
  have : ∀ (l : List (Key × Rec)) (st : DB × List (Key × Rec)), (l.foldl loadOne st).1.effs = st.1.effs := by
    intro l
    induction l with
    | nil => intro st; rfl
    | cons x t ih => intro st; simp only [List.foldl_cons]; exact (ih _).trans (loadOne_effs st x)
  have h := this db.index (db, [])
  dsimp only
  split <;> exact h

theorem cleanupold_effs (db : DB) (used : List Nat) :
    ∃ es, (cleanupold db used).effs = db.effs ++ es ∧ ∀ e ∈ es, ∃ t, used.contains t = false ∧ e.2 = .removeDat t := by
  unfold cleanupold
  have : ∀ (l : List Nat) (d : DB), ∃ es, (l.foldl (fun db s =>
      if s ≠ db.dataSeq ∧ ¬ used.contains s then emit db "qdb.cleanupold:removed" (.removeDat s) else db) d).effs = d.effs ++ es ∧
      ∀ e ∈ es, ∃ t, used.contains t = false ∧ e.2 = .removeDat t := by
    intro l
    induction l with
    | nil => intro d; exact ⟨[], by simp, by intro e he; cases he⟩
    | cons x t ih =>
      intro d
      simp only [List.foldl_cons]
      split
      · rename_i hx
        obtain ⟨es, h1, h2⟩ := ih (emit d "qdb.cleanupold:removed" (.removeDat x))
        refine ⟨("qdb.cleanupold:removed", .removeDat x) :: es, by rw [h1]; simp [emit], ?_⟩
        intro e he
        rcases List.mem_cons.mp he with rfl | he
        · exact ⟨x, by simpa using hx.2, rfl⟩
        · exact h2 e he
      · exact ih d
  exact this _ db

/-- every file operation of NewDBExt on `F` is one of the removals `TrimEff F` -/
theorem open_effs_trim (F : FS) (vol load : Bool) (opts : Opts) :
    ∀ e ∈ (openDB F vol load opts eg).effs, TrimEff F e.2 := by
  have A := loaddat_state (eg := eg) F vol opts
  -- loaddat
  have ha : ∀ e ∈ (loaddat { fs := F, volatile := vol, opts := opts, eager := eg }).1.effs, TrimEff F e.2 := by
    unfold loaddat
    cases hp : pickIdx F with
    | none =>
      simp only [show ({ fs := F, volatile := vol, opts := opts, eager := eg } : DB).fs = F from rfl, hp]
      intro e he; cases he
    | some t =>
      obtain ⟨i, sv, d⟩ := t
      simp only [show ({ fs := F, volatile := vol, opts := opts, eager := eg } : DB).fs = F from rfl, hp]
      rw [memputAll_effs]
      intro e he
      have : e = ("qdb.loadneweridx:removed", Effect.removeIdx (1 - i)) := by simpa [emit] using he
      rw [this]
      exact Or.inl ⟨i, sv, d, hp, rfl⟩
  -- cleanupold, load
  have hopen : (openDB F vol load opts eg).effs =
      (cleanupold (loadlog (loaddat { fs := F, volatile := vol, opts := opts, eager := eg }).1
        (loaddat { fs := F, volatile := vol, opts := opts, eager := eg }).2).1
        (loadlog (loaddat { fs := F, volatile := vol, opts := opts, eager := eg }).1
        (loaddat { fs := F, volatile := vol, opts := opts, eager := eg }).2).2).effs := by
    unfold openDB openIndex
    cases load
    · rfl
    · simp only [↓reduceIte]
      exact loadAll_effs _
  generalize (loaddat { fs := F, volatile := vol, opts := opts, eager := eg }).1 = a at A ha hopen
  generalize (loaddat { fs := F, volatile := vol, opts := opts, eager := eg }).2 = useda at A hopen
  -- loadlog
  have hb : (∀ e ∈ (loadlog a useda).1.effs, TrimEff F e.2) ∧
      ∀ kr ∈ diskIndex F, (loadlog a useda).2.contains kr.2.seq = true := by
    unfold loadlog
    rw [A.log]
    cases hl : F.log with
    | none =>
      refine ⟨ha, fun kr hkr => ?_⟩
      have hD : diskIndex F = snapBase F := by unfold diskIndex logEntries; rw [hl]; rfl
      rw [hD] at hkr
      simpa using A.used kr hkr
    | some f =>
      simp only [A.verSeq]
      cases hbody : logBody f (snapVer F) with
      | none =>
        refine ⟨?_, fun kr hkr => ?_⟩
        · intro e he
          have : e ∈ a.effs ∨ e = ("qdb.loadlog:removed", Effect.removeLog) := by simpa [emit] using he
          rcases this with h | h
          · exact ha e h
          · rw [h]; exact Or.inr (Or.inl ⟨⟨f, hl, hbody⟩, rfl⟩)
        · have hD : diskIndex F = snapBase F := by unfold diskIndex logEntries; rw [hl]; simp only [hbody]; rfl
          rw [hD] at hkr
          simpa using A.used kr hkr
      | some body =>
        refine ⟨?_, fun kr hkr => ?_⟩
        · intro e he
          have he' : e ∈ (applyLog a (parseLog body.length body)).effs := he
          rw [applyLog_effs] at he'
          exact ha e he'
        · have hD : diskIndex F = applyEntriesL (snapBase F) (parseLog body.length body) := by
            unfold diskIndex logEntries; rw [hl]; simp only [hbody]
          rw [hD] at hkr
          simp only [List.contains_iff_mem, List.mem_append]
          rcases mem_applyEntriesL _ _ kr hkr with h | h
          · exact Or.inl (A.used kr h)
          · exact Or.inr (logSeqs_mem _ _ _ h)
  obtain ⟨hb1, hb2⟩ := hb
  rw [hopen]
  obtain ⟨es, h1, h2⟩ := cleanupold_effs (loadlog a useda).1 (loadlog a useda).2
  rw [h1]
  intro e he
  rcases List.mem_append.mp he with h | h
  · exact hb1 e h
  · obtain ⟨t, ht1, ht2⟩ := h2 e h
    refine Or.inr (Or.inr ⟨t, fun kr hkr hEq => ?_, ht2⟩)
    have := hb2 kr hkr
    rw [hEq, ht1] at this
    cases this

/-! ### crash points of one operation: all-old or all-new, and always openable -/

/-- every prefix of the file operations `es`, applied to `F0`, leaves an openable directory that holds, for all keys
    at once, either the content of `F0` or the content `new` -/
def Atomic (eg : Bool) (F0 : FS) (es : List Effect) (new : Key → Option Bytes) : Prop :=
  ∀ n, OpenOK eg (F0.applyAll (es.take n)) ∧
    ((∀ k, diskValue (F0.applyAll (es.take n)) k = diskValue F0 k) ∨
     (∀ k, diskValue (F0.applyAll (es.take n)) k = new k))

theorem atomic_nil (F0 : FS) (new : Key → Option Bytes) (h : OpenOK eg F0) : Atomic eg F0 [] new := by
  intro n
  rw [List.take_nil]
  exact ⟨h, Or.inl (fun _ => rfl)⟩

theorem atomic_append {F0 : FS} {a b : List Effect} {new : Key → Option Bytes} (ha : Atomic eg F0 a new)
    (hb : Atomic eg (F0.applyAll a) b new) : Atomic eg F0 (a ++ b) new := by
  intro n
  by_cases hn : n ≤ a.length
  · rw [List.take_append_of_le_length hn]; exact ha n
  · have : (a ++ b).take n = a ++ b.take (n - a.length) := by
      rw [List.take_append, List.take_of_length_le (by omega)]
    rw [this, applyAll_append]
    obtain ⟨o, v⟩ := hb (n - a.length)
    refine ⟨o, ?_⟩
    have hmid := (ha a.length).2
    rw [List.take_length] at hmid
    rcases v with v | v
    · rcases hmid with m | m
      · exact Or.inl (fun k => (v k).trans (m k))
      · exact Or.inr (fun k => (v k).trans (m k))
    · exact Or.inr v

theorem Atomic.congr {F0 : FS} {es : List Effect} {new new' : Key → Option Bytes} (h : Atomic eg F0 es new)
    (e : ∀ k, new k = new' k) : Atomic eg F0 es new' := by
  intro n
  obtain ⟨o, v⟩ := h n
  refine ⟨o, ?_⟩
  rcases v with v | v
  · exact Or.inl v
  · exact Or.inr (fun k => (v k).trans (e k))

/-- with nothing pending the directory holds exactly the in-memory content -/
theorem diskValue_of_inv (L : DB) (inv : DiskInv L) (hp : L.pending = []) (k : Key) : diskValue L.fs k = vals L k := by
  have h1 := (open_readable L.fs (openOK_of_inv L inv).readable false {}).2 k
  have h2 := (open_of_inv L inv hp false {}).2 k
  rw [vals_eq, ← h2, h1]

/-- sync() up to its log write, with both invariants -/
theorem sync_logWritten3 (db : DB) (h : Inv3 db) (hp : db.pending.isEmpty = false) (hs : SizeOK db) :
    ∃ L, sync db = (if L.extra > mul64 L.opts.forcedPerc L.need / 100 then defrag L else L) ∧
      Inv3 L ∧ absv L = absv db ∧ L.pending = [] ∧
      (∃ es, L.effs = db.effs ++ es ∧ es.map (·.2) = syncEffs db) ∧
      L.fs = db.fs.applyAll (syncEffs db) ∧ L.dataSeq = db.dataSeq ∧
      L = logWritten (db.pending.foldl syncKey (checkDat db, [])).1 (db.pending.foldl syncKey (checkDat db, [])).2 ∧
      L.eager = db.eager := by
  have inv := h.inv
  have i2 := h.i2
  obtain ⟨L, hL, invL, absL, pL, _, hes, _, hfs, b1, b2, b3, b4, b5, b6, b7⟩ := sync_logWritten db inv hp hs.1
  have hLe : L.eager = db.eager := by
    rw [b7, logWritten_eager]
    exact (syncFold_cached db.pending (checkDat db, [])
      (Cached.of_frame (frame_checkDat db) inv.cached)).eager.trans (frame_checkDat db).eager
  refine ⟨L, hL, ⟨invL, ?_⟩, absL, pL, hes, hfs, b3, b7, hLe⟩
  constructor
  · unfold idxFile; rw [b1, b4, b5]; exact i2.free
  · unfold otherIdx; rw [b1, b2, b4, b5]; exact i2.other
  · intro kr hkr
    rw [b6] at hkr
    rw [b3]
    rcases mem_applyEntriesL _ _ kr hkr with h | h
    · exact i2.seqs kr h
    · obtain ⟨e, he, hee⟩ := List.mem_map.mp h
      cases e with
      | del k => simp [stripE] at hee
      | put k r =>
        simp only [stripE, LogEntry.put.injEq] at hee
        have := plan_puts_seq db.dataSeq db.pending db.index (checkDat db).lastPos k r he
        rw [← hee.2]
        show r.seq ≤ _
        omega

theorem sync_part_atomic (db : DB) (h : Inv3 db) (hp : db.pending.isEmpty = false) (hs : SizeOK db) :
    Atomic db.eager db.fs (syncEffs db) (vals db) := by
  intro n
  by_cases hn : n < (syncEffs db).length
  · exact ⟨sync_prefix_ok db h.inv n hn, Or.inl (sync_prefix db h.inv n hn).2⟩
  · rw [List.take_of_length_le (by omega)]
    obtain ⟨L, _, h3L, absL, pL, _, hfs, _, _, hLe⟩ := sync_logWritten3 db h hp hs
    rw [← hfs, ← hLe]
    refine ⟨openOK_of_inv L h3L.inv, Or.inr (fun k => ?_)⟩
    rw [diskValue_of_inv L h3L.inv pL k]; unfold vals; rw [absL]

/-- side conditions of the crash analysis of a defrag of `db`'s content: the data-file sequence number does not wrap
    and the index snapshot (16 + 24 bytes per record) fits the 1 MiB bufio buffer -/
structure DFits (db : DB) : Prop where
  seq : db.dataSeq + 1 < 2^32
  small : 16 + 24 * db.index.length ≤ bufSize

theorem dFits_iff (db : DB) : DFits db ↔ (db.dataSeq + 1 < 2^32 ∧ 16 + 24 * db.index.length ≤ bufSize) :=
  ⟨fun h => ⟨h.seq, h.small⟩, fun h => ⟨h.1, h.2⟩⟩

theorem defragReady_of (L : DB) (h : Inv3 L) (hsm : 4 + (valsOf L.index).flatten.length < 2^32) (hd : DFits L) :
    DefragReady L := by
  obtain ⟨E, hEf, hE⟩ := h.inv.logst
  refine ⟨h.inv.cached, ⟨h.inv.cached.2, h.inv.wf, h.inv.nodup, hsm⟩, h.i2.free, ⟨h.i2.other, E, hE⟩, h.inv.verlt,
    fun kr hkr => ⟨h.inv.dflags kr hkr, h.inv.dreads kr hkr⟩, ?_, ⟨E, hEf, hE⟩, h.inv.ver, ?_⟩
  · intro kr hkr
    have := h.i2.seqs kr hkr
    have hu : u32 (L.dataSeq + 1) = L.dataSeq + 1 := Nat.mod_eq_of_lt hd.seq
    rw [hu]; omega
  · rw [snapBytes_length, layout_length]; exact hd.small

theorem defrag_atomic' (L : DB) (hready : DefragReady L) :
    ∃ es, (defrag L).effs = L.effs ++ es ∧ Atomic L.eager L.fs (es.map (·.2)) (vals L) := by
  obtain ⟨es, he, hall⟩ := defrag_prefix L hready
  refine ⟨es, he, fun n => ?_⟩
  obtain ⟨o, v⟩ := hall n
  refine ⟨o, ?_⟩
  rcases v with v | v
  · exact Or.inl v
  · exact Or.inr (fun k => by rw [v k, vals_eq])

theorem defrag_atomic (L : DB) (h : Inv3 L) (hsm : 4 + (valsOf L.index).flatten.length < 2^32) (hd : DFits L) :
    ∃ es, (defrag L).effs = L.effs ++ es ∧ Atomic L.eager L.fs (es.map (·.2)) (vals L) :=
  defrag_atomic' L (defragReady_of L h hsm hd)

/-- all crash points of sync() (log write and a possible forced defrag included) -/
theorem sync_atomic (db : DB) (h : Inv3 db) (hs : SizeOK db) (hd : DFits db) :
    ∃ es, (sync db).effs = db.effs ++ es ∧ (sync db).fs = db.fs.applyAll (es.map (·.2)) ∧
      Atomic db.eager db.fs (es.map (·.2)) (vals db) := by
  obtain ⟨es, he1, he2⟩ := replays_sync db
  refine ⟨es, he1, he2, ?_⟩
  cases hp : db.pending.isEmpty with
  | true =>
    have hsame : sync db = db := by unfold sync; simp [h.inv.nv, hp]
    rw [hsame] at he1
    have : es = [] := by
      have := congrArg List.length he1
      simp only [List.length_append] at this
      exact List.eq_nil_of_length_eq_zero (by omega)
    rw [this]
    exact atomic_nil _ _ (openOK_of_inv db h.inv)
  | false =>
    obtain ⟨L, hL, h3L, absL, pL, ⟨es1, hes1, hes1m⟩, hfs, hds, _, hLe⟩ := sync_logWritten3 db h hp hs
    have hA := sync_part_atomic db h hp hs
    by_cases hc : L.extra > mul64 L.opts.forcedPerc L.need / 100
    · rw [if_pos hc] at hL
      have hlen : L.index.length = db.index.length := by
        have := congrArg List.length absL
        simpa [absv] using this
      obtain ⟨es2, hes2, hA2⟩ := defrag_atomic L h3L (by rw [valsOf_of_absv L db absL]; exact hs.2)
        ⟨by rw [hds]; exact hd.seq, by rw [hlen]; exact hd.small⟩
      have hes : es = es1 ++ es2 := by
        apply List.append_cancel_left (as := db.effs)
        rw [← he1, hL, hes2, hes1, List.append_assoc]
      rw [hes, List.map_append, hes1m]
      apply atomic_append hA
      rw [← hfs, ← hLe]
      exact hA2.congr (fun k => by unfold vals; rw [absL])
    · rw [if_neg hc] at hL
      have hes : es = es1 := by
        apply List.append_cancel_left (as := db.effs)
        rw [← he1, hL, hes1]
      rw [hes, hes1m]
      exact hA

/-! ### every operation of the sub-language -/

/-- the state on which the operation calls sync() / defrag() -/
def preSync (db : DB) : Op → DB
  | .put k v => addPending (memput db k (newRec v 0)) k
  | .putExt k v f => addPending (memput db k (newRec v f)) k
  | .del k => addPending (memdel db k) k
  | .sync => { db with noSync := false }
  | _ => db

theorem afterChange_crash (M : DB) (k : Key) (hM : Inv3 (addPending M k)) (hs : SizeOK (addPending M k))
    (hv : M.volatile = false) (hd : DFits (addPending M k)) :
    ∃ es, (afterChange M k).effs = (addPending M k).effs ++ es ∧
      Atomic (addPending M k).eager (addPending M k).fs (es.map (·.2)) (vals (afterChange M k)) := by
  unfold afterChange
  rw [if_neg (by simp [hv])]
  split
  · obtain ⟨es, a, _, c⟩ := sync_atomic _ hM hs hd
    exact ⟨es, a, c.congr (fun j => by unfold vals; rw [(sync_inv _ hM.inv hs).2.1])⟩
  · exact ⟨[], by simp, atomic_nil _ _ (openOK_of_inv _ hM.inv)⟩

/-- All crash points of one operation. The file operations `es` of `op` are such that after ANY number of them the
    directory is openable and holds, for all keys at once, either what it held before `op` or the complete in-memory
    content after `op`. -/
theorem step_crash (db : DB) (h : Inv3 db) (op : Op) (ok : OpOK2 db.eager op) (fits : OpFits2 db op)
    (hd : DFits (preSync db op)) :
    ∃ es, (step db op).effs = db.effs ++ es ∧ (step db op).fs = db.fs.applyAll (es.map (·.2)) ∧
      Atomic db.eager db.fs (es.map (·.2)) (vals (step db op)) := by
  obtain ⟨es, he1, he2⟩ := replays_step db op
  refine ⟨es, he1, he2, ?_⟩
  suffices hsuff : ∃ es', (step db op).effs = db.effs ++ es' ∧ Atomic db.eager db.fs (es'.map (·.2)) (vals (step db op)) by
    obtain ⟨es', h1, h2⟩ := hsuff
    have : es = es' := List.append_cancel_left (he1.symm.trans h1)
    rw [this]; exact h2
  have inv := h.inv
  have i2 := h.i2
  have hnil : Atomic db.eager db.fs (([] : List (String × Effect)).map (·.2)) (vals (step db op)) :=
    atomic_nil _ _ (openOK_of_inv db inv)
  cases op with
  | put k v =>
    obtain ⟨a, b, c⟩ := fits
    show ∃ es', (putExt db k v 0).effs = _ ∧ Atomic db.eager db.fs _ (vals (putExt db k v 0))
    unfold putExt
    rw [if_neg (notFailed inv.cached)]
    obtain ⟨e, n, m, hmp⟩ := memput_same db k (newRec v 0)
    have hM := putExt_addPending_inv db inv k v 0 a b (by decide) (zeroFlags_ok _)
    have hM2 : Inv2 (addPending (memput db k (newRec v 0)) k) := by
      rw [addPending_same, hmp]; exact inv2_same i2 rfl rfl rfl rfl
    obtain ⟨es', x, z⟩ := afterChange_crash _ k ⟨hM, hM2⟩ c (by rw [hmp]; exact inv.nv) hd
    have e1 : (addPending (memput db k (newRec v 0)) k).effs = db.effs := by rw [addPending_same, hmp]
    have e2 : (addPending (memput db k (newRec v 0)) k).fs = db.fs := by rw [addPending_same, hmp]
    have e3 : (addPending (memput db k (newRec v 0)) k).eager = db.eager := (addPending_eager _ _).trans (memput_eager _ _ _)
    rw [e1] at x; rw [e2, e3] at z
    exact ⟨es', x, z⟩
  | putExt k v f =>
    obtain ⟨a, b, c, d⟩ := fits
    show ∃ es', (putExt db k v f).effs = _ ∧ Atomic db.eager db.fs _ (vals (putExt db k v f))
    unfold putExt
    rw [if_neg (notFailed inv.cached)]
    obtain ⟨e, n, m, hmp⟩ := memput_same db k (newRec v f)
    have hM := putExt_addPending_inv db inv k v f a b c ok
    have hM2 : Inv2 (addPending (memput db k (newRec v f)) k) := by
      rw [addPending_same, hmp]; exact inv2_same i2 rfl rfl rfl rfl
    obtain ⟨es', x, z⟩ := afterChange_crash _ k ⟨hM, hM2⟩ d (by rw [hmp]; exact inv.nv) hd
    have e1 : (addPending (memput db k (newRec v f)) k).effs = db.effs := by rw [addPending_same, hmp]
    have e2 : (addPending (memput db k (newRec v f)) k).fs = db.fs := by rw [addPending_same, hmp]
    have e3 : (addPending (memput db k (newRec v f)) k).eager = db.eager := (addPending_eager _ _).trans (memput_eager _ _ _)
    rw [e1] at x; rw [e2, e3] at z
    exact ⟨es', x, z⟩
  | del k =>
    show ∃ es', (del db k).effs = _ ∧ Atomic db.eager db.fs _ (vals (del db k))
    unfold del
    rw [if_neg (notFailed inv.cached)]
    obtain ⟨e, n, hmd⟩ := memdel_same db k
    have hM := del_addPending_inv db inv k fits.1
    have hM2 : Inv2 (addPending (memdel db k) k) := by
      rw [addPending_same, hmd]; exact inv2_same i2 rfl rfl rfl rfl
    obtain ⟨es', x, z⟩ := afterChange_crash _ k ⟨hM, hM2⟩ fits.2 (by rw [hmd]; exact inv.nv) hd
    have e1 : (addPending (memdel db k) k).effs = db.effs := by rw [addPending_same, hmd]
    have e2 : (addPending (memdel db k) k).fs = db.fs := by rw [addPending_same, hmd]
    have e3 : (addPending (memdel db k) k).eager = db.eager := (addPending_eager _ _).trans (memdel_eager _ _)
    rw [e1] at x; rw [e2, e3] at z
    exact ⟨es', x, z⟩
  | get k =>
    refine ⟨[], ?_, hnil⟩
    show (Qdb.get db k).1.effs = _
    unfold Qdb.get
    rw [if_neg (notFailed inv.cached)]
    cases hl : ilookup k db.index with
    | none => simp
    | some r =>
      simp only [loadrec_cached db.fs r (allCached_lookup inv.cached.2 k r hl)]
      simp
  | browse w =>
    refine ⟨[], ?_, hnil⟩
    show (browse db w).1.effs = _
    obtain ⟨h1, _⟩ := browseGen_cached false db w inv.cached ok
    unfold browse
    rw [h1]
    simp
  | applyFlags k fl =>
    refine ⟨[], ?_, hnil⟩
    show (applyFlags db k fl).effs = _
    unfold applyFlags
    rw [if_neg (notFailed inv.cached)]
    cases hl : ilookup k db.index with
    | none => simp
    | some r => simp
  | defrag f =>
    show ∃ es', (defragOp db f).1.effs = _ ∧ Atomic db.eager db.fs _ (vals (defragOp db f).1)
    unfold defragOp
    rw [if_neg (notFailed inv.cached), if_neg (by simp [inv.nv])]
    dsimp only
    split
    · obtain ⟨es', x, y⟩ := defrag_atomic db h fits.2 hd
      refine ⟨es', x, y.congr (fun j => ?_)⟩
      unfold vals
      rw [(defrag_inv db inv.cached inv.nv ⟨inv.cached.2, inv.wf, inv.nodup, fits.2⟩).2.1]
    · exact ⟨[], by simp, atomic_nil _ _ (openOK_of_inv db inv)⟩
  | sync =>
    show ∃ es', (syncOp db).effs = _ ∧ Atomic db.eager db.fs _ (vals (syncOp db))
    unfold syncOp
    rw [if_neg (notFailed inv.cached), if_neg (by simp [inv.nv])]
    have h3' : Inv3 { db with noSync := false } := ⟨inv_noSync db inv false, inv2_same i2 rfl rfl rfl rfl⟩
    obtain ⟨es', x, _, z⟩ := sync_atomic _ h3' fits hd
    exact ⟨es', x, z.congr (fun j => by unfold vals; rw [(sync_inv _ h3'.inv fits).2.1])⟩
  | noSync =>
    refine ⟨[], ?_, hnil⟩
    show (noSyncOp db).effs = _
    unfold noSyncOp
    rw [if_neg (notFailed inv.cached), if_neg (by simp [inv.nv])]
    simp
  | reopen vol load opts =>
    obtain ⟨rfl, rfl⟩ := ok
    obtain ⟨sinv, sabs, spe, _⟩ := sync_inv db inv fits.1
    have hclose : (close db).failed = none ∧ (close db).fs = (sync db).fs ∧ (close db).effs = (sync db).effs := by
      unfold close
      rw [if_neg (notFailed inv.cached)]
      simp only [inv.nv, Bool.false_eq_true, ↓reduceIte, sinv.cached.1]
      exact ⟨trivial, trivial, trivial⟩
    have hstep : (step db (.reopen false true opts)).effs =
        (sync db).effs ++ (openDB (sync db).fs false true opts db.eager).effs := by
      show (match (close db).failed with
        | some _ => close db
        | none => { openDB (close db).fs false true opts (close db).eager with
                    effs := (close db).effs ++ (openDB (close db).fs false true opts (close db).eager).effs }).effs = _
      rw [hclose.1, hclose.2.1, hclose.2.2, close_eager db inv.cached]
    have hr := (reopen_inv3 db h opts fits.1 fits.2).2
    obtain ⟨es1, x1, y1, z1⟩ := sync_atomic db h fits.1 hd
    refine ⟨es1 ++ (openDB (sync db).fs false true opts db.eager).effs, by rw [hstep, x1, List.append_assoc], ?_⟩
    rw [List.map_append]
    apply atomic_append (z1.congr (fun j => (hr j).symm))
    rw [← y1]
    intro n
    have T := (Trim.refl (sync db).fs).applyAll (((openDB (sync db).fs false true opts db.eager).effs.map (·.2)).take n)
      (fun e he => by
        obtain ⟨x, hx, rfl⟩ := List.mem_map.mp (List.mem_of_mem_take he)
        exact open_effs_trim _ _ _ _ x hx)
    obtain ⟨o, v⟩ := T.ok (openOK_of_inv (sync db) sinv)
    rw [(sync_cached db inv.cached).eager] at o
    exact ⟨o, Or.inl v⟩

/-- crashes inside recovery attempts change nothing a later NewDBExt looks at -/
theorem recrash_ok (opts : Opts) (ms : List Nat) (F : FS) (h : OpenOK eg F) :
    OpenOK eg (recrash opts F ms) ∧ ∀ k, diskValue (recrash opts F ms) k = diskValue F k := by
  induction ms generalizing F with
  | nil => exact ⟨h, fun _ => rfl⟩
  | cons m t ih =>
    have T := (Trim.refl F).applyAll (((openDB F false true opts).effs.map (·.2)).take m)
      (fun e he => by
        obtain ⟨x, hx, rfl⟩ := List.mem_map.mp (List.mem_of_mem_take he)
        exact open_effs_trim (eg := false) _ _ _ _ x hx)
    obtain ⟨o, v⟩ := T.ok h
    obtain ⟨o2, v2⟩ := ih _ o
    exact ⟨o2, fun k => (v2 k).trans (v k)⟩

/-! ### histories with crashes against the durable-map specification -/

/-- operations after which everything written so far must be durable -/
def mustSync : Op → Bool
  | .sync => true
  | .defrag true => true
  | .reopen _ _ _ => true
  | _ => false

/-- after Sync, Defrag(true) and Close+reopen nothing is pending -/
theorem mustSync_pending (db : DB) (h : Inv3 db) (op : Op) (ok : OpOK2 db.eager op) (fits : OpFits2 db op)
    (hm : mustSync op = true) : (step db op).pending = [] := by
  have inv := h.inv
  cases op with
  | sync =>
    show (syncOp db).pending = []
    unfold syncOp
    rw [if_neg (notFailed inv.cached), if_neg (by simp [inv.nv])]
    exact (sync_inv _ (inv_noSync db inv false) fits).2.2.1
  | defrag f =>
    cases f with
    | false => simp [mustSync] at hm
    | true =>
      show (defragOp db true).1.pending = []
      unfold defragOp
      rw [if_neg (notFailed inv.cached), if_neg (by simp [inv.nv])]
      simp only [Bool.true_or, ↓reduceIte]
      exact (defrag_inv db inv.cached inv.nv ⟨inv.cached.2, inv.wf, inv.nodup, fits.2⟩).2.2
  | reopen vol load opts =>
    obtain ⟨rfl, rfl⟩ := ok
    obtain ⟨sinv, _, _, _⟩ := sync_inv db inv fits.1
    have hclose : (close db).failed = none ∧ (close db).fs = (sync db).fs := by
      unfold close
      rw [if_neg (notFailed inv.cached)]
      simp only [inv.nv, Bool.false_eq_true, ↓reduceIte, sinv.cached.1]
      exact ⟨trivial, trivial⟩
    show (match (close db).failed with
      | some _ => close db
      | none => { openDB (close db).fs false true opts (close db).eager with
                  effs := (close db).effs ++ (openDB (close db).fs false true opts (close db).eager).effs }).pending = []
    rw [hclose.1, hclose.2, close_eager db inv.cached]
    have hok := openOK_of_inv _ sinv
    rw [(sync_cached db inv.cached).eager] at hok
    exact (open_inv3g (sync db).fs opts hok fits.2).2
  | put k v => simp [mustSync] at hm
  | putExt k v f => simp [mustSync] at hm
  | del k => simp [mustSync] at hm
  | get k => simp [mustSync] at hm
  | browse w => simp [mustSync] at hm
  | applyFlags k fl => simp [mustSync] at hm
  | noSync => simp [mustSync] at hm

/-! #### what the specification means: no value is ever invented -/

def writes (o : Op) (k : Key) (v : Bytes) : Prop := o = .put k v ∨ ∃ f, o = .putExt k v f

def itemOp : HItem → Op
  | .op o => o
  | .crash o _ _ _ _ => o

theorem vstep_origin (m : Key → Option Bytes) (o : Op) (k : Key) (v : Bytes) (h : vstep m o k = some v) :
    m k = some v ∨ writes o k v := by
  cases o with
  | put j x =>
    simp only [vstep] at h
    split at h
    · rename_i hj; subst hj; cases h; exact Or.inr (Or.inl rfl)
    · exact Or.inl h
  | putExt j x f =>
    simp only [vstep] at h
    split at h
    · rename_i hj; subst hj; cases h; exact Or.inr (Or.inr ⟨f, rfl⟩)
    · exact Or.inl h
  | del j =>
    simp only [vstep] at h
    split at h
    · cases h
    · exact Or.inl h
  | get _ => exact Or.inl h
  | browse _ => exact Or.inl h
  | applyFlags _ _ => exact Or.inl h
  | defrag _ => exact Or.inl h
  | sync => exact Or.inl h
  | noSync => exact Or.inl h
  | reopen _ _ _ => exact Or.inl h

end GocoinV.Proofs.C19
