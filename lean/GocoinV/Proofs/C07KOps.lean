/-
  Proofs.C07KOps — on well-formed block universes, as long as no undo file of another block is read, no operation of
  Model/Persist.lean panics: `K0` (no error; every index record is a tree node; every tree node has its block data in the cache
  or the data file; the undo files undo/1 … undo/<LastBlockHeight> exist) is kept by CommitBlockTxs, UndoLastBlock,
  ParseTillBlock, MoveToBlock (FindFirstFather and FindPathTo succeed), CommitBlock and AcceptBlock; and where the tip ends up.
  Core Lean only.
-/
import GocoinV.Proofs.C07K
namespace GocoinV.Proofs.C07
open GocoinV.Persist

variable {bs : List Block} {s : St}

def HasData (s : St) (id : BlockId) : Prop := (∃ b ∈ s.n.mem, b.id = id) ∨ (∃ b ∈ s.d.dat, b.id = id)

theorem blockData_some {s : St} {id : BlockId} (h : HasData s id) : ∃ b, blockData s id = some b := by
  unfold blockData
  cases hm : s.n.mem.find? (·.id == id) with
  | some b => exact ⟨b, rfl⟩
  | none =>
    simp only []
    rcases h with ⟨b, hb, e⟩ | ⟨b, hb, e⟩
    · rw [List.find?_eq_none] at hm; exact absurd (by simp [e]) (hm b hb)
    · cases hd : s.d.dat.find? (·.id == id) with
      | some x => exact ⟨x, rfl⟩
      | none => rw [List.find?_eq_none] at hd; exact absurd (by simp [e]) (hd b hb)

theorem HasData.mono {s s' : St} {id : BlockId} (h : HasData s id) (hf : Fr s s') : HasData s' id :=
  h.imp (fun ⟨b, hb, e⟩ => ⟨b, hf.memM b hb, e⟩) (fun ⟨b, hb, e⟩ => ⟨b, hf.ext.dat hb, e⟩)

structure K0 (s : St) : Prop where
  err : s.err = none
  recT : ∀ r ∈ s.n.recs, InT s.n.tree r.id
  data : ∀ t ∈ s.n.tree, HasData s t.id
  undo : UndoUpTo s.d s.n.lastHeight

theorem K0.step' {s s' : St} (hk : K0 s) (hf : Fr s s') (he : s'.err = none) (ht : s'.n.tree = s.n.tree)
    (hu : UndoUpTo s'.d s'.n.lastHeight) : K0 s' :=
  ⟨he, hf.recT hk.recT, fun t ht' => (hk.data t (ht ▸ ht')).mono hf, hu⟩

theorem K0.step {s s' : St} (hk : K0 s) (hf : Fr s s') (he : s'.err = none) (ht : s'.n.tree = s.n.tree)
    (hl : s'.n.lastHeight ≤ s.n.lastHeight) : K0 s' :=
  hk.step' hf he ht (fun h h1 h2 => hf.ext.undo hk.undo h h1 (by omega))

theorem K0.dataOf {s : St} (hk : K0 s) {id : BlockId} (hin : InT s.n.tree id) : HasData s id := by
  obtain ⟨t, ht, e⟩ := hin
  exact e ▸ hk.data t ht

/-- a step that is `Neutral` (tip, set, heights, tree, error unchanged) and satisfies the frame relation -/
theorem K0.neutral {s s' : St} (hk : K0 s) (hn : Neutral bs s s') (hf : Fr s s') : K0 s' :=
  hk.step hf (hn.err.trans hk.err) hn.tree (Nat.le_of_eq hn.lastH)

/-! ### CommitBlockTxs -/

theorem commitBlockTxs_fr (s : St) (b : Block) : Fr s (commitBlockTxs s b) := by
  unfold commitBlockTxs
  exact (((((((abortSave_fr s).then_emit .nop .undoBeforeWrite trivial).then_emit (.writeUndoTmp { blk := b.id, coins := b.spends }) .undoTmpWritten
    trivial).then_emit (.renameUndoTmp b.height) .undoRenamed trivial).then_emit .nop .beforeCommit trivial).then_set _ rfl rfl rfl).then_emit
    .nop .afterCommit trivial).then_set _ rfl rfl rfl

theorem commitBlockTxs_undoSet (s : St) (b : Block) :
    (commitBlockTxs s b).d.undo = setUndo (abortSave s).d.undo b.height { blk := b.id, coins := b.spends } := rfl

theorem commitBlockTxs_lastH (s : St) (b : Block) : (commitBlockTxs s b).n.lastHeight = b.height := rfl

theorem commitBlockTxs_undo (s : St) (b : Block) (hu : UndoUpTo s.d s.n.lastHeight) (hb : b.height ≤ s.n.lastHeight + 1) :
    UndoUpTo (commitBlockTxs s b).d (commitBlockTxs s b).n.lastHeight := by
  intro h h1 h2
  rw [commitBlockTxs_lastH] at h2
  by_cases e : h = b.height
  · subst e; rw [commitBlockTxs_undoSet, getUndo_setUndo_same]; rfl
  · exact (commitBlockTxs_fr s b).ext.undo hu h h1 (by omega)

/-! ### UndoLastBlock -/

theorem undoLast_K (_hwf : WF bs) (_hj : JD bs s) {path : List Block} (hc : Chain bs s.n path) (hne : path ≠ []) (hk : K0 s) :
    (undoLastBlock s).err = none ∧ Fr s (undoLastBlock s) ∧ (undoLastBlock s).n.lastHeight ≤ s.n.lastHeight := by
  obtain ⟨b0, rest, rfl⟩ : ∃ b0 rest, path = b0 :: rest := by
    cases path with
    | nil => exact absurd rfl hne
    | cons x r => exact ⟨x, r, rfl⟩
  have htip : s.n.tip = b0.id := hc.tip
  obtain ⟨bd, hbd⟩ := blockData_some (hk.dataOf (htip ▸ hc.inT b0 (by simp)))
  have hN : Neutral bs s (abortSave (s.emit .nop .undoBeforeUtxo)) :=
    (Neutral.emit s .nop .undoBeforeUtxo trivial).trans (abortSave_neutral _)
  have hF : Fr s (abortSave (s.emit .nop .undoBeforeUtxo)) := (Fr.emit s .nop .undoBeforeUtxo trivial).trans (abortSave_fr _)
  have hl1 : 1 ≤ s.n.lastHeight := by rw [hc.lastH]; simp
  have hus : (getUndo (abortSave (s.emit .nop .undoBeforeUtxo)).d.undo (abortSave (s.emit .nop .undoBeforeUtxo)).n.lastHeight).isSome = true := by
    rw [hN.lastH]; exact hF.ext.undo hk.undo _ hl1 (Nat.le_refl _)
  unfold undoLastBlock
  split
  · rename_i he; rw [hk.err] at he; cases he
  · split
    · rename_i hx; rw [hbd] at hx; cases hx
    · rename_i b hb
      simp only []
      split
      · rename_i hx; rw [hx] at hus; cases hus
      · rename_i uf huf
        refine ⟨hN.err.trans hk.err, ?_, ?_⟩
        · exact (hF.then_emit .nop .undoAfterUtxo trivial).congr rfl rfl rfl rfl rfl
        · show (abortSave (s.emit .nop .undoBeforeUtxo)).n.lastHeight - 1 ≤ s.n.lastHeight
          rw [hN.lastH]; omega

theorem undoN_K (hwf : WF bs) : ∀ (k : Nat) (s : St) (path : List Block), JD bs s → Chain bs s.n path → K0 s → k ≤ path.length →
    (undoN s k).foreign = false →
    (undoN s k).err = none ∧ Fr s (undoN s k) ∧ (undoN s k).n.lastHeight ≤ s.n.lastHeight
  | 0, s, _, _, _, hk, _, _ => ⟨hk.err, Fr.refl s, Nat.le_refl _⟩
  | k + 1, s, path, hj, hc, hk, hkl, hf => by
    have hne : path ≠ [] := by intro e; subst e; simp at hkl
    have hf1 : (undoLastBlock s).foreign = false := undoN_mono k _ hf
    obtain ⟨j1, t1, path1, hc1, e1⟩ := undoLast_spec hwf hj hc hf1
    obtain ⟨a1, a2, a3⟩ := undoLast_K hwf hj hc hne hk
    obtain ⟨_, hp1, _⟩ := e1 a1
    have hk1 : K0 (undoLastBlock s) := hk.step a2 a1 t1 a3
    obtain ⟨b1, b2, b3⟩ := undoN_K hwf k (undoLastBlock s) path1 j1 hc1 hk1 (by rw [hp1]; simp; omega) hf
    exact ⟨b1, a2.trans b2, Nat.le_trans b3 a3⟩

/-! ### ParseTillBlock -/

theorem parsePath_err : ∀ (p : List BlockId) (s : St), s.err.isSome = true → parsePath s p = s
  | [], _, _ => rfl
  | _ :: _, s, h => by unfold parsePath; rw [if_pos h]

theorem parsePath_cons (s : St) (id : BlockId) (rest : List BlockId) (b : Block) (he : s.err = none)
    (hb : blockData s id = some b) (hv : validOn s.n.utxo b = true) :
    parsePath s (id :: rest) = parsePath (parsePath s [id]) rest := by
  simp [parsePath, he, hb, hv]

/-- what ParseTillBlock finds for the next block of a path that continues the active chain -/
theorem parse_pre (hwf : WF bs) (hj : JD bs s) {path : List Block} (hc : Chain bs s.n path) (hk : K0 s) (id : BlockId)
    (hd : Down s.n.tree (headId path) [id]) :
    ∃ bd, blockData s id = some bd ∧ bd ∈ bs ∧ validOn s.n.utxo bd = true ∧ bd.height = path.length + 1 := by
  obtain ⟨hin, hpar, _⟩ := hd
  obtain ⟨bd, hbd⟩ := blockData_some (hk.dataOf hin)
  obtain ⟨hbs, hbid⟩ := blockData_in hj hbd
  have hbp : bd.parent = headId path := by
    rw [← hpar, ← hbid]
    exact (par_block hwf hj hbs (hbid ▸ hin)).1.symm
  refine ⟨bd, hbd, hbs, ?_, height_on hwf hc.ok hbs hbp⟩
  rw [validOn_congr hc.utxo bd]; exact valid_on hwf hc.ok hbs hbp

theorem parseOne_K (hwf : WF bs) (hj : JD bs s) {path : List Block} (hc : Chain bs s.n path) (hk : K0 s) (id : BlockId)
    (hd : Down s.n.tree (headId path) [id]) :
    (parsePath s [id]).err = none ∧ Fr s (parsePath s [id]) ∧
      UndoUpTo (parsePath s [id]).d (parsePath s [id]).n.lastHeight := by
  obtain ⟨bd, hbd, hbs, hval, hh⟩ := parse_pre hwf hj hc hk id hd
  unfold parsePath
  rw [if_neg (by simp [hk.err])]
  split
  · rename_i hx; rw [hbd] at hx; cases hx
  · rename_i b hb
    have : b = bd := by rw [hbd] at hb; exact (Option.some.inj hb).symm
    subst this
    rw [if_neg (by simp [hval])]
    have hN1 : Neutral bs s ((blockTrusted s id).emit .nop .parseBeforeUtxo) :=
      (blockTrusted_neutral s id).then_emit .nop .parseBeforeUtxo trivial
    have hF1 : Fr s ((blockTrusted s id).emit .nop .parseBeforeUtxo) := (blockTrusted_fr s id).then_emit .nop .parseBeforeUtxo trivial
    simp only [parsePath]
    refine ⟨?_, ?_, ?_⟩
    · show (commitBlockTxs ((blockTrusted s id).emit .nop .parseBeforeUtxo) b).err = none
      rw [commitBlockTxs_err, hN1.err]; exact hk.err
    · exact ((hF1.trans (commitBlockTxs_fr _ b)).then_emit .nop .parseAfterUtxo trivial).then_set _ rfl rfl rfl
    · show UndoUpTo (commitBlockTxs ((blockTrusted s id).emit .nop .parseBeforeUtxo) b).d
        (commitBlockTxs ((blockTrusted s id).emit .nop .parseBeforeUtxo) b).n.lastHeight
      apply commitBlockTxs_undo
      · rw [hN1.lastH]; exact hF1.ext.undo hk.undo
      · rw [hN1.lastH, hc.lastH, hh]; omega

theorem parsePath_K (hwf : WF bs) : ∀ (p : List BlockId) (s : St) (path : List Block), JD bs s → Chain bs s.n path → K0 s →
    Down s.n.tree (headId path) p →
    (parsePath s p).err = none ∧ Fr s (parsePath s p) ∧ UndoUpTo (parsePath s p).d (parsePath s p).n.lastHeight
  | [], s, _, _, _, hk, _ => ⟨hk.err, Fr.refl s, hk.undo⟩
  | id :: rest, s, path, hj, hc, hk, hd => by
    have hd1 : Down s.n.tree (headId path) [id] := ⟨hd.1, hd.2.1, trivial⟩
    obtain ⟨a1, a2, a3⟩ := parseOne_K hwf hj hc hk id hd1
    obtain ⟨j1, t1, path1, hc1, e1⟩ := parsePath_spec hwf [id] s path hj hc hd1 hk.err
    have hk1 : K0 (parsePath s [id]) := hk.step' a2 a1 t1 a3
    have hh : headId path1 = id := e1 a1
    obtain ⟨b1, b2, b3⟩ := parsePath_K hwf rest (parsePath s [id]) path1 j1 hc1 hk1 (by rw [t1, hh]; exact hd.2.2)
    obtain ⟨bd, hbd, _, hval, _⟩ := parse_pre hwf hj hc hk id hd1
    rw [parsePath_cons s id rest bd hk.err hbd hval]
    exact ⟨b1, a2.trans b2, b3⟩

/-! ### MoveToBlock -/

theorem moveToBlock_K (hwf : WF bs) (hj : JD bs s) {path : List Block} (hc : Chain bs s.n path) (hk : K0 s)
    (dst : BlockId) (hdst : InT s.n.tree dst) (hf : (moveToBlock s dst).foreign = false) :
    (moveToBlock s dst).err = none ∧ Fr s (moveToBlock s dst) ∧
      UndoUpTo (moveToBlock s dst).d (moveToBlock s dst).n.lastHeight := by
  obtain ⟨pd, hpd, hpdh⟩ := tchain_of_inT hwf hj hdst
  have hfuel : (path.length - 0) + (pd.length - 0) < 2 * fuelOf s.n := by
    have := tchain_len hwf hc.toT
    have := tchain_len hwf hpd
    unfold fuelOf; omega
  obtain ⟨i', j', _, _, hff, hcom⟩ := firstFather_spec hwf hj hc.toT hpd (2 * fuelOf s.n) 0 0 hfuel
  have htip0 : headId (path.drop 0) = s.n.tip := hc.tip.symm
  have hdst0 : headId (pd.drop 0) = dst := hpdh
  rw [htip0, hdst0] at hff
  have hdown : s.n.tipHeight - (heightOf s.n (firstFather s.n (2 * fuelOf s.n) s.n.tip dst)).getD 0 = min i' path.length := by
    rw [hff, twalk_height hwf hj hc.toT i', hc.tipH]; simp; omega
  have hanc : firstFather s.n (2 * fuelOf s.n) s.n.tip dst = headId (path.drop (min i' path.length)) := by
    rw [hff]
    by_cases hjl : i' ≤ path.length
    · rw [Nat.min_eq_left hjl]
    · rw [Nat.min_eq_right (by omega), List.drop_of_length_le (by omega), List.drop_of_length_le (Nat.le_refl _)]
  have hancd : firstFather s.n (2 * fuelOf s.n) s.n.tip dst = headId (pd.drop j') := hff.trans hcom
  unfold moveToBlock at hf ⊢
  simp only [] at hf ⊢
  rw [hdown] at hf ⊢
  have hfu : (undoN s (min i' path.length)).foreign = false := by
    split at hf
    · exact hf
    · split at hf
      · rwa [(fail_frame _ _).2.2.2] at hf
      · split at hf
        · rwa [parsePath_foreign] at hf
        · have : (parsePath _ _).foreign = false := hf
          rwa [parsePath_foreign] at this
  obtain ⟨j1, t1, path1, hc1, e1⟩ := undoN_spec hwf (min i' path.length) s path hj hc hfu
  obtain ⟨a1, a2, a3⟩ := undoN_K hwf (min i' path.length) s path hj hc hk (Nat.min_le_right _ _) hfu
  obtain ⟨_, hp1, _⟩ := e1 a1
  have hk1 : K0 (undoN s (min i' path.length)) := hk.step a2 a1 t1 a3
  have hN : Neutral bs (undoN s (min i' path.length)) ((undoN s (min i' path.length)).emit .nop .moveUndone) :=
    Neutral.emit _ .nop .moveUndone trivial
  have hF : Fr (undoN s (min i' path.length)) ((undoN s (min i' path.length)).emit .nop .moveUndone) :=
    Fr.emit _ .nop .moveUndone trivial
  have j2 := j1.neutral hN
  have hc2 := hc1.neutral hN
  have hk2 : K0 ((undoN s (min i' path.length)).emit .nop .moveUndone) := hk1.neutral hN hF
  have hpd2 : TChain bs ((undoN s (min i' path.length)).emit .nop .moveUndone).n.tree pd := by
    rw [hN.tree, t1]; exact hpd
  have hfuel2 : min j' pd.length - 0 < fuelOf s.n := by
    have := tchain_len hwf hpd
    unfold fuelOf; omega
  obtain ⟨p, hp⟩ := pathUp_some hwf j2 hpd2 j' (fuelOf s.n) 0 [] (Nat.zero_le _) hfuel2
  rw [hdst0, ← hancd] at hp
  rw [if_neg (by simp [a1])]
  simp only [hp]
  have hdn := pathUp_down j2 _ _ _ [] p (Or.inr (by show InT (undoN s (min i' path.length)).n.tree dst; rw [t1]; exact hdst)) trivial hp
  have hD : Down ((undoN s (min i' path.length)).emit .nop .moveUndone).n.tree (headId path1) p := by
    rw [hp1, ← hanc]; exact hdn.1
  obtain ⟨b1, b2, b3⟩ := parsePath_K hwf p _ path1 j2 hc2 hk2 hD
  rw [if_neg (by simp [b1])]
  exact ⟨b1, ((a2.trans hF).trans b2).then_emit .nop .moveDone trivial, b3⟩

/-! ### Chain.CommitBlock -/

/-- the height field of the tip is the tip block's height -/
theorem Chain.tipHeight_eq (hwf : WF bs) {n : Node} {path : List Block} (hc : Chain bs n path) {b : Block} (hb : b ∈ bs)
    (e : n.tip = b.id) : n.tipHeight = b.height := by
  cases path with
  | nil => exact absurd (e.symm.trans hc.tip) (hwf.idNZ b hb)
  | cons x rest =>
    have : x = b := hwf.uniq x hc.ok.1 b hb (hc.tip.symm.trans e)
    subst this
    rw [hc.tipH, hc.ok.2.2.1]; rfl

theorem commitTail_K (s2 : St) (b : Block) :
    (commitTail s2 b).err = s2.err ∧ Fr s2 (commitTail s2 b) ∧ (commitTail s2 b).n.tip = b.id ∧
    (UndoUpTo s2.d s2.n.lastHeight → b.height ≤ s2.n.lastHeight + 1 →
      UndoUpTo (commitTail s2 b).d (commitTail s2 b).n.lastHeight) := by
  unfold commitTail
  refine ⟨?_, ?_, rfl, ?_⟩
  · show (commitBlockTxs (s2.emit .nop .cAfterBlockAdd) b).err = s2.err
    rw [commitBlockTxs_err]; rfl
  · exact (((Fr.emit s2 .nop .cAfterBlockAdd trivial).trans (commitBlockTxs_fr _ b)).then_emit .nop .cAfterUtxo trivial).then_set _ rfl rfl rfl
  · intro hu hb
    show UndoUpTo (commitBlockTxs (s2.emit .nop .cAfterBlockAdd) b).d (commitBlockTxs (s2.emit .nop .cAfterBlockAdd) b).n.lastHeight
    exact commitBlockTxs_undo _ b hu hb

/-- CommitBlock of a tree node: no panic, and where the tip ends up -/
theorem commitBlock_K (hwf : WF bs) (hj : J bs s) (hk : K0 s) (b : Block) (hb : b ∈ bs) (hin : InT s.n.tree b.id)
    (hf : (commitBlock s b).foreign = false) :
    K0 (commitBlock s b) ∧ Fr s (commitBlock s b) ∧
    ((s.n.tip = b.parent ∨ b.height > s.n.tipHeight) → (commitBlock s b).n.tip = b.id) ∧
    (s.n.tip ≠ b.parent → ¬ b.height > s.n.tipHeight →
      (commitBlock s b).n.tip = s.n.tip ∧ (commitBlock s b).n.tipHeight = s.n.tipHeight) := by
  obtain ⟨_, htree⟩ := commitBlock_J hwf hj b hb hin hf
  obtain ⟨path, hc⟩ := hj.chain
  suffices h : (commitBlock s b).err = none ∧ Fr s (commitBlock s b) ∧ UndoUpTo (commitBlock s b).d (commitBlock s b).n.lastHeight ∧
      ((s.n.tip = b.parent ∨ b.height > s.n.tipHeight) → (commitBlock s b).n.tip = b.id) ∧
      (s.n.tip ≠ b.parent → ¬ b.height > s.n.tipHeight →
        (commitBlock s b).n.tip = s.n.tip ∧ (commitBlock s b).n.tipHeight = s.n.tipHeight) from
    ⟨hk.step' h.2.1 h.1 htree h.2.2.1, h.2.1, h.2.2.2⟩
  revert hf
  unfold commitBlock
  rw [if_neg (by simp [hk.err])]
  split
  · rename_i htp
    have htp : s.n.tip = b.parent := by simpa using htp
    have hval : validOn s.n.utxo b = true := by
      rw [validOn_congr hc.utxo b]; exact valid_on hwf hc.ok hb (htp.symm.trans hc.tip)
    have hh : b.height = path.length + 1 := height_on hwf hc.ok hb (htp.symm.trans hc.tip)
    rw [if_neg (by simp [hval])]
    intro _
    have key : ∀ (C : Bool), Neutral bs s (if C = true then blockTrusted (s.emit .nop .cBeforeBlockAdd) b.id
        else { (s.emit .nop .cBeforeBlockAdd) with n := blockAdd (s.emit .nop .cBeforeBlockAdd).n b true }) ∧
        Fr s (if C = true then blockTrusted (s.emit .nop .cBeforeBlockAdd) b.id
        else { (s.emit .nop .cBeforeBlockAdd) with n := blockAdd (s.emit .nop .cBeforeBlockAdd).n b true }) := by
      intro C
      cases C
      · exact ⟨(Neutral.emit s .nop .cBeforeBlockAdd trivial).trans (blockAdd_neutral _ b true hb),
          (Fr.emit s .nop .cBeforeBlockAdd trivial).trans (blockAdd_fr _ b true hin)⟩
      · exact ⟨(Neutral.emit s .nop .cBeforeBlockAdd trivial).trans (blockTrusted_neutral _ _),
          (Fr.emit s .nop .cBeforeBlockAdd trivial).trans (blockTrusted_fr _ _)⟩
    have tail : ∀ (C : Bool), (commitTail (if C = true then blockTrusted (s.emit .nop .cBeforeBlockAdd) b.id
        else { (s.emit .nop .cBeforeBlockAdd) with n := blockAdd (s.emit .nop .cBeforeBlockAdd).n b true }) b).err = none ∧
        Fr s (commitTail (if C = true then blockTrusted (s.emit .nop .cBeforeBlockAdd) b.id
        else { (s.emit .nop .cBeforeBlockAdd) with n := blockAdd (s.emit .nop .cBeforeBlockAdd).n b true }) b) ∧
        UndoUpTo (commitTail (if C = true then blockTrusted (s.emit .nop .cBeforeBlockAdd) b.id
        else { (s.emit .nop .cBeforeBlockAdd) with n := blockAdd (s.emit .nop .cBeforeBlockAdd).n b true }) b).d
          (commitTail (if C = true then blockTrusted (s.emit .nop .cBeforeBlockAdd) b.id
        else { (s.emit .nop .cBeforeBlockAdd) with n := blockAdd (s.emit .nop .cBeforeBlockAdd).n b true }) b).n.lastHeight ∧
        (commitTail (if C = true then blockTrusted (s.emit .nop .cBeforeBlockAdd) b.id
        else { (s.emit .nop .cBeforeBlockAdd) with n := blockAdd (s.emit .nop .cBeforeBlockAdd).n b true }) b).n.tip = b.id := by
      intro C
      obtain ⟨hN, hF⟩ := key C
      obtain ⟨c1, c2, c3, c4⟩ := commitTail_K (if C = true then blockTrusted (s.emit .nop .cBeforeBlockAdd) b.id
        else { (s.emit .nop .cBeforeBlockAdd) with n := blockAdd (s.emit .nop .cBeforeBlockAdd).n b true }) b
      refine ⟨c1.trans (hN.err.trans hk.err), hF.trans c2, c4 ?_ ?_, c3⟩
      · rw [hN.lastH]; exact hF.ext.undo hk.undo
      · rw [hN.lastH, hc.lastH, hh]; omega
    obtain ⟨t1, t2, t3, t4⟩ := tail (match (s.emit .nop .cBeforeBlockAdd).n.recs.find? (·.id == b.id) with
        | some r => !r.trusted && r.onDisk
        | none => false)
    exact ⟨t1, t2, t3, fun _ => t4, fun hne => absurd htp hne⟩
  · rename_i htp
    have htp : s.n.tip ≠ b.parent := by simpa using htp
    simp only []
    have hN : Neutral bs s (({ s with n := blockAdd s.n b false } : St).emit .nop .cSideStored) :=
      (blockAdd_neutral s b false hb).then_emit .nop .cSideStored trivial
    have hF : Fr s (({ s with n := blockAdd s.n b false } : St).emit .nop .cSideStored) :=
      (blockAdd_fr s b false hin).then_emit .nop .cSideStored trivial
    have hk1 : K0 (({ s with n := blockAdd s.n b false } : St).emit .nop .cSideStored) := hk.neutral hN hF
    split
    · rename_i hhi
      intro hf
      have hhi : b.height > s.n.tipHeight := by rw [← hN.tipH]; exact hhi
      obtain ⟨r1, r2, path', r3, r4⟩ := moveToBlock_spec hwf (hj.jd.neutral hN) (hc.neutral hN) (by rw [hN.err]; exact hk.err) b.id
        (by rw [hN.tree]; exact hin) hf
      obtain ⟨m1, m2, m3⟩ := moveToBlock_K hwf (hj.jd.neutral hN) (hc.neutral hN) hk1 b.id (by rw [hN.tree]; exact hin) hf
      refine ⟨m1, hF.trans m2, m3, fun _ => ?_, fun _ hn => absurd hhi hn⟩
      rw [r3.tip]; exact r4 m1
    · rename_i hhi
      intro _
      have hhi : ¬ b.height > s.n.tipHeight := by rw [← hN.tipH]; exact hhi
      refine ⟨hN.err.trans hk.err, hF, hk1.undo, fun h => ?_, fun _ _ => ⟨hN.tip, hN.tipH⟩⟩
      rcases h with h | h
      · exact absurd h htp
      · exact absurd h hhi

end GocoinV.Proofs.C07
