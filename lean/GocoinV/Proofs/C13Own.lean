/-
  Proofs.C13Own — what the wallet recognises as its own IS one of its four own scripts (core only).
  Since the fix of the cross-template aliases (pkscr_to_key_idx matches every template against its own hash only and the
  P2SH test reads the push-length byte) the shape hypothesis `hshape` of `change_is_own_address` and the hypothesis
  `hown` of `signatures_verify` follow from ownership: `owned_is_own_script`.
-/
import GocoinV.Proofs.C13Sig
namespace GocoinV.WalletTx
open GocoinV.WalletSpec

theorem findIdx?_some_getElem? {α} (p : α → Bool) : ∀ (l : List α) (j : Nat), l.findIdx? p = some j →
    ∃ y, l[j]? = some y ∧ p y = true := by
  intro l
  induction l with
  | nil => intro j h; simp at h
  | cons a l ih =>
    intro j h
    rw [List.findIdx?_cons] at h
    by_cases ha : p a = true
    · simp [ha] at h; subst h; exact ⟨a, by simp, ha⟩
    · simp only [ha, Bool.false_eq_true, ↓reduceIte, Option.map_eq_some_iff] at h
      obtain ⟨j', hj', rfl⟩ := h
      obtain ⟨y, h1, h2⟩ := ih j' hj'
      exact ⟨y, by simpa using h1, h2⟩

theorem shape25 (scr : Bytes) (hl : scr.length = 25) (h0 : scr.getD 0 0 = 0x76) (h1 : scr.getD 1 0 = 0xa9)
    (h2 : scr.getD 2 0 = 0x14) (h23 : scr.getD 23 0 = 0x88) (h24 : scr.getD 24 0 = 0xac) :
    scr = p2pkhScript ((scr.drop 3).take 20) := by
  match scr, hl with
  | [x0, x1, x2, x3, x4, x5, x6, x7, x8, x9, x10, x11, x12, x13, x14, x15, x16, x17, x18, x19, x20, x21, x22, x23, x24], _ =>
    simp at h0 h1 h2 h23 h24
    subst h0 h1 h2 h23 h24
    rfl

theorem shape23 (scr : Bytes) (hl : scr.length = 23) (h0 : scr.getD 0 0 = 0xa9) (h1 : scr.getD 1 0 = 0x14)
    (h22 : scr.getD 22 0 = 0x87) : scr = p2shScript ((scr.drop 2).take 20) := by
  match scr, hl with
  | [x0, x1, x2, x3, x4, x5, x6, x7, x8, x9, x10, x11, x12, x13, x14, x15, x16, x17, x18, x19, x20, x21, x22], _ =>
    simp at h0 h1 h22
    subst h0 h1 h22
    rfl

theorem shape22 (scr : Bytes) (hl : scr.length = 22) (h0 : scr.getD 0 0 = 0x00) (h1 : scr.getD 1 0 = 0x14) :
    scr = p2wpkhScript (scr.drop 2) := by
  match scr, hl with
  | x0 :: x1 :: rest, _ =>
    simp at h0 h1
    subst h0 h1
    rfl

theorem shape34 (scr : Bytes) (hl : scr.length = 34) (h0 : scr.getD 0 0 = 0x51) (h1 : scr.getD 1 0 = 32) :
    scr = p2trScript (scr.drop 2) := by
  match scr, hl with
  | x0 :: x1 :: rest, _ =>
    simp at h0 h1
    subst h0 h1
    rfl

/-- a record of the table whose P2SH slot is filled belongs to a wallet that is not in bech32 mode -/
theorem seg_ne_nil_not_bech32 (H : Addr.Hashes) (b : Bool) (pubs : List Bytes) (k : Nat) (kr : KeyRec)
    (hk : (keyTable H b pubs)[k]? = some kr) (hne : kr.segH160 ≠ []) : b = false := by
  obtain ⟨p, _, rfl⟩ := keyTable_getElem? H b pubs k kr hk
  cases b with
  | false => rfl
  | true => exfalso; apply hne; unfold mkKey; by_cases h : p.length = 33 <;> simp [h]

/-- **owned ⇒ own shape.** Whatever script `pkscr_to_key` attributes to a key of the wallet's table is EXACTLY one of the
    four own scripts of a key of the table: P2PKH / P2WPKH of its public-key hash, P2SH of its 00 14 <key hash> script hash
    (only when the wallet is not in bech32 mode), P2TR of its x-only key. No hypothesis on the keys or the hash function. -/
theorem owned_is_own_script (H : Addr.Hashes) (c : Cfg) (pubs : List Bytes) (scr : Bytes)
    (h : (pkscrToKey (keyTable H c.bech32 pubs) scr).isSome = true) :
    OwnScript c (keyTable H c.bech32 pubs) scr := by
  unfold pkscrToKey at h
  simp only [] at h
  split at h
  · rename_i hc
    obtain ⟨hl, h0, h1, h2, h23, h24⟩ := hc
    obtain ⟨j, hj⟩ := Option.isSome_iff_exists.mp h
    obtain ⟨kr, hk, hp⟩ := findIdx?_some_getElem? _ _ j hj
    have e : kr.h160 = (scr.drop 3).take 20 := by simpa using hp
    rw [shape25 scr hl h0 h1 h2 h23 h24, ← e]
    exact OwnScript.p2pkh j kr hk
  · split at h
    · rename_i hc
      obtain ⟨hl, h0, h1, h22⟩ := hc
      obtain ⟨j, hj⟩ := Option.isSome_iff_exists.mp h
      obtain ⟨kr, hk, hp⟩ := findIdx?_some_getElem? _ _ j hj
      simp only [Bool.and_eq_true, bne_iff_ne, ne_eq, beq_iff_eq] at hp
      rw [shape23 scr hl h0 h1 h22, ← hp.2]
      exact OwnScript.p2sh j kr hk (seg_ne_nil_not_bech32 H c.bech32 pubs j kr hk hp.1)
    · split at h
      · rename_i hc
        obtain ⟨hl, h0, h1⟩ := hc
        obtain ⟨j, hj⟩ := Option.isSome_iff_exists.mp h
        obtain ⟨kr, hk, hp⟩ := findIdx?_some_getElem? _ _ j hj
        have e : kr.h160 = scr.drop 2 := by simpa using hp
        rw [shape22 scr hl h0 h1, ← e]
        exact OwnScript.p2wpkh j kr hk
      · split at h
        · rename_i hc
          obtain ⟨hl, h0, h1⟩ := hc
          obtain ⟨j, hj⟩ := Option.isSome_iff_exists.mp h
          obtain ⟨kr, hk, hp⟩ := findIdx?_some_getElem? _ _ j hj
          have e : (kr.pub.drop 1).take 32 = scr.drop 2 := by simpa using hp
          rw [shape34 scr hl h0 h1, ← e]
          exact OwnScript.p2tr j kr hk
        · simp at h

/-- conversely every own script of a key of the table is recognised (HASH160 yields 20 bytes; compressed keys - the
    `OwnScript.p2sh` constructor does not itself exclude a key without SegWit form): with `owned_is_own_script`
    ownership is EXACTLY the four templates -/
theorem own_script_is_owned (H : Addr.Hashes) (c : Cfg) (pubs : List Bytes) (scr : Bytes)
    (hash_len : ∀ b, (H.hash160 b).length = 20) (pub_len : ∀ p ∈ pubs, p.length = 33)
    (h : OwnScript c (keyTable H c.bech32 pubs) scr) :
    (pkscrToKey (keyTable H c.bech32 pubs) scr).isSome = true := by
  cases h with
  | p2pkh k kr hk =>
    obtain ⟨p, hp, rfl⟩ := keyTable_getElem? H c.bech32 pubs k kr hk
    have hl : (mkKey H c.bech32 p).h160.length = 20 := hash_len _
    obtain ⟨j, krj, h1, _, _⟩ := lookup_h160 _ k _ hk
    obtain ⟨x0, x1, x2, x3, x4, x5, x6, x7, x8, x9, x10, x11, x12, x13, x14, x15, x16, x17, x18, x19, e⟩ := len20 _ hl
    rw [e] at h1 ⊢
    simp [pkscrToKey, p2pkhScript, h1]
  | p2wpkh k kr hk =>
    obtain ⟨p, hp, rfl⟩ := keyTable_getElem? H c.bech32 pubs k kr hk
    have hl : (mkKey H c.bech32 p).h160.length = 20 := hash_len _
    obtain ⟨j, krj, h1, _, _⟩ := lookup_h160 _ k _ hk
    obtain ⟨x0, x1, x2, x3, x4, x5, x6, x7, x8, x9, x10, x11, x12, x13, x14, x15, x16, x17, x18, x19, e⟩ := len20 _ hl
    rw [e] at h1 ⊢
    simp [pkscrToKey, p2wpkhScript, h1]
  | p2sh k kr hk hb =>
    obtain ⟨p, hp, rfl⟩ := keyTable_getElem? H c.bech32 pubs k kr hk
    have h33 : p.length = 33 := pub_len p (List.mem_of_getElem? hp)
    have hs : (mkKey H c.bech32 p).segH160 = H.hash160 ([0, 20] ++ H.hash160 p) := by
      rw [mkKey_seg_of_33 H _ p h33]; simp [hb]
    have hl : (mkKey H c.bech32 p).segH160.length = 20 := by rw [hs]; exact hash_len _
    have hne : (mkKey H c.bech32 p).segH160 ≠ [] := by intro e; rw [e] at hl; simp at hl
    obtain ⟨j, krj, h1, _, _⟩ := lookup_seg _ k _ hk hne
    obtain ⟨x0, x1, x2, x3, x4, x5, x6, x7, x8, x9, x10, x11, x12, x13, x14, x15, x16, x17, x18, x19, e⟩ := len20 _ hl
    rw [e] at h1 ⊢
    simp [pkscrToKey, p2shScript, h1]
  | p2tr k kr hk =>
    obtain ⟨p, hp, rfl⟩ := keyTable_getElem? H c.bech32 pubs k kr hk
    have hpl := pub_len p (List.mem_of_getElem? hp)
    have hl : (((mkKey H c.bech32 p).pub.drop 1).take 32).length = 32 := by simp [mkKey]; omega
    obtain ⟨j, krj, h1, _, _⟩ := lookup_xo _ k _ hk
    obtain ⟨x0, x1, x2, x3, x4, x5, x6, x7, x8, x9, x10, x11, x12, x13, x14, x15, x16, x17, x18, x19, x20, x21, x22, x23, x24, x25, x26, x27, x28, x29, x30, x31, e⟩ := len32 _ hl
    rw [e] at h1 ⊢
    simp [pkscrToKey, p2trScript, h1]

/-- the spent outputs of a built transaction as make_signed_tx hands them to sign_tx (`tx.Spent_outputs`) -/
def spentOuts (b : Built) : List TxOut := b.spent.map fun u => { value := u.value, script := u.script }

theorem spentOuts_some (b : Built) :
    b.spent.map (fun u => some ({ value := u.value, script := u.script } : TxOut)) = (spentOuts b).map some := by
  simp [spentOuts, List.map_map, Function.comp_def]

/-- what a successful `-send` run wrote is sign_tx applied to the built transaction -/
theorem runSend_tx (H : Addr.Hashes) (c : Cfg) (ks : List KeyRec) (a2b : Bool) (coins : List Coin)
    (send : Option Bytes) (batch : Option (List Bytes)) (sig : Skeleton → SigFn) (req : Req) (b : Built) (w : Written)
    (hreq : sendRequest H c send batch = .ok req) (hb : build H c ks coins req = .ok b)
    (hrun : runSend H c ks a2b coins send batch sig = .ok (some w)) :
    w.tx = (runRaw H c ks b.tx ((spentOuts b).map some) sig (fun _ => none)).1 := by
  unfold runSend at hrun
  simp only [hreq] at hrun
  split at hrun
  · simp at hrun
  · simp only [hb, Except.ok.injEq, Option.some.injEq] at hrun
    subst hrun
    simp [runRaw, spentOuts_some]

end GocoinV.WalletTx
