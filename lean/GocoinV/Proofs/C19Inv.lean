/-
  Proofs.C19Inv — the disk invariant of a non-volatile cached store ("snapshot + log describe every key
  that is not pending, and its bytes are in the data files") and what sync() does to it.
-/
import GocoinV.Proofs.C19Sync
namespace GocoinV.Proofs.C19
open GocoinV GocoinV.Qdb GocoinV.QdbSpec

/-- where a record lives on disk -/
def core (r : Rec) : Nat × Nat × Nat := (r.seq, r.pos, r.len)

/-! ### the disk index has distinct keys, whatever the files contain -/

theorem nodup_isetAll (recs l : List (Key × Rec)) (h : (Keys l).Nodup) : (Keys (isetAll l recs)).Nodup := by
  unfold isetAll
  induction recs generalizing l with
  | nil => exact h
  | cons kr t ih => exact ih _ (nodup_iset kr.1 kr.2 l h)

theorem nodup_applyEntriesL (es : List LogEntry) (l : List (Key × Rec)) (h : (Keys l).Nodup) :
    (Keys (applyEntriesL l es)).Nodup := by
  unfold applyEntriesL
  induction es generalizing l with
  | nil => exact h
  | cons e t ih => exact ih _ (nodup_applyEntryL l e h)

theorem nodup_diskIndex (fs : FS) : (Keys (diskIndex fs)).Nodup := by
  unfold diskIndex
  apply nodup_applyEntriesL
  unfold snapBase
  split
  · simp [Keys]
  · exact nodup_isetAll _ _ (by simp [Keys])

/-! ### checkDat / the end of sync, on the directory -/

theorem checkDat_post (db : DB) :
    (checkDat db).datOpen = true ∧
    (db.datOpen = true → checkDat db = db) ∧
    (db.datOpen = false →
      dlookup db.dataSeq (checkDat db).fs.dats = some (le32 db.dataSeq) ∧ (checkDat db).lastPos = 4 ∧
      (∀ t, t ≠ db.dataSeq → dlookup t (checkDat db).fs.dats = dlookup t db.fs.dats)) ∧
    (checkDat db).fs.idx0 = db.fs.idx0 ∧ (checkDat db).fs.idx1 = db.fs.idx1 ∧ (checkDat db).fs.log = db.fs.log ∧
    (checkDat db).dataSeq = db.dataSeq ∧ (checkDat db).verSeq = db.verSeq ∧ (checkDat db).logOpen = db.logOpen ∧
    (checkDat db).pending = db.pending ∧ (checkDat db).index = db.index := by
  cases h : db.datOpen with
  | true =>
    have e : checkDat db = db := by unfold checkDat; simp [h]
    rw [e]
    exact ⟨h, fun _ => rfl, fun h' => by simp at h', rfl, rfl, rfl, rfl, rfl, rfl, rfl, rfl⟩
  | false =>
    have e : checkDat db = { emit (emit db "qdb.checklogfile:created" (.createDat db.dataSeq)) "qdb.checklogfile:header"
          (.writeDat db.dataSeq 0 (le32 db.dataSeq)) with datOpen := true, lastPos := 4 } := by
      unfold checkDat; rw [if_neg (by simp [h])]; rfl
    have hfs : (checkDat db).fs =
        { db.fs with dats := dset db.dataSeq (le32 db.dataSeq) (dset db.dataSeq [] db.fs.dats) } := by
      rw [e]
      show (db.fs.apply (.createDat db.dataSeq)).apply (.writeDat db.dataSeq 0 (le32 db.dataSeq)) = _
      unfold FS.apply
      simp [dlookup_dset_same, writeAt]
    refine ⟨by rw [e], fun h' => by simp at h', fun _ => ⟨?_, by rw [e], ?_⟩, by rw [hfs], by rw [hfs], by rw [hfs],
      by rw [e]; rfl, by rw [e]; rfl, by rw [e]; rfl, by rw [e]; rfl, by rw [e]; rfl⟩
    · rw [hfs]; simp [dlookup_dset_same]
    · intro t ht
      rw [hfs]; simp [dlookup_dset_other _ _ _ _ ht]

/-- the state after `checklogfile` + the one Write of the collected entries -/
def logWritten (d : DB) (bidx : Bytes) : DB :=
  { emit (checkLog d) "qdb.sync:log-written" (.appendLog bidx) with pending := [] }

theorem logWritten_post (d : DB) (bidx : Bytes) (E : List LogEntry) (hs : LogState d.fs d.verSeq E)
    (h1 : d.logOpen = false → d.fs.log = none) (h2 : d.logOpen = true → d.fs.log ≠ none) :
    (logWritten d bidx).fs.log = some (le32 d.verSeq ++ (encLog E ++ bidx)) ∧
    (logWritten d bidx).fs.idx0 = d.fs.idx0 ∧ (logWritten d bidx).fs.idx1 = d.fs.idx1 ∧
    (logWritten d bidx).fs.dats = d.fs.dats ∧ (logWritten d bidx).logOpen = true ∧
    (logWritten d bidx).pending = [] ∧ (logWritten d bidx).index = d.index ∧
    (logWritten d bidx).dataSeq = d.dataSeq ∧ (logWritten d bidx).verSeq = d.verSeq ∧
    (logWritten d bidx).lastPos = d.lastPos ∧ (logWritten d bidx).datOpen = d.datOpen ∧
    (logWritten d bidx).failed = d.failed ∧ (logWritten d bidx).volatile = d.volatile := by
  cases ho : d.logOpen with
  | true =>
    have e : checkLog d = d := by unfold checkLog; simp [ho]
    have hl : d.fs.log = some (le32 d.verSeq ++ encLog E) := by
      rcases hs with ⟨a, _⟩ | a
      · exact absurd a (h2 ho)
      · exact a
    unfold logWritten
    rw [e]
    refine ⟨?_, rfl, rfl, rfl, ho, rfl, rfl, rfl, rfl, rfl, rfl, rfl, rfl⟩
    show (d.fs.apply (.appendLog bidx)).log = _
    unfold FS.apply
    simp [hl, List.append_assoc]
  | false =>
    have hl := h1 ho
    have hE : E = [] := by
      rcases hs with ⟨_, b⟩ | a
      · exact b
      · rw [hl] at a; cases a
    have e : checkLog d = { emit (emit d "qdb.idx.checklogfile:created" .createLog) "qdb.idx.checklogfile:header"
        (.appendLog (le32 d.verSeq)) with logOpen := true } := by
      unfold checkLog; rw [if_neg (by simp [ho])]; rfl
    unfold logWritten
    rw [e]
    refine ⟨?_, rfl, rfl, rfl, rfl, rfl, rfl, rfl, rfl, rfl, rfl, rfl, rfl⟩
    show (((d.fs.apply .createLog).apply (.appendLog (le32 d.verSeq))).apply (.appendLog bidx)).log = _
    unfold FS.apply
    simp [hE, encLog]

/-! ### the invariant -/

structure DiskInv (db : DB) : Prop where
  cached : Cached db
  nv : db.volatile = false
  wf : ∀ kr ∈ db.index, RecWF kr
  nodup : (Keys db.index).Nodup
  pnodup : db.pending.Nodup
  pkeys : ∀ k ∈ db.pending, k < 2^64
  ver : snapVer db.fs = db.verSeq
  verlt : db.verSeq < 2^32
  dseq : db.dataSeq < 2^32
  logst : ∃ E, (∀ e ∈ E, EntryFits e) ∧ LogState db.fs db.verSeq E
  log1 : db.logOpen = false → db.fs.log = none
  log2 : db.logOpen = true → db.fs.log ≠ none
  clean : ∀ k, k ∉ db.pending → (ilookup k (diskIndex db.fs)).map core = (ilookup k db.index).map core
  files : ∀ k r, k ∉ db.pending → ilookup k db.index = some r →
    ∃ f, dlookup r.seq db.fs.dats = some f ∧ ReadsBack f r (r.data.getD [])
  dflags : ∀ kr ∈ diskIndex db.fs, hasFlag kr.2.flags NO_CACHE = false
  dat1 : db.datOpen = true → ∃ f, dlookup db.dataSeq db.fs.dats = some f ∧ db.lastPos = f.length ∧ 4 ≤ f.length
  dat2 : db.datOpen = false → ∀ k ∈ Keys db.index, k ∈ db.pending

theorem plan_wf (seq : Nat) (ks : List Key) (hks : ∀ k ∈ ks, k < 2^64) (idx : List (Key × Rec))
    (hwf : ∀ kr ∈ idx, RecWF kr) (pos : Nat) : ∀ kr ∈ (syncPlan seq idx ks pos).1, RecWF kr := by
  induction ks generalizing idx pos with
  | nil => simpa [syncPlan] using hwf
  | cons j t ih =>
    have hkt : ∀ k ∈ t, k < 2^64 := fun k hk => hks k (List.mem_cons_of_mem _ hk)
    cases hl : ilookup j idx with
    | none => simp only [syncPlan, hl]; exact ih hkt idx hwf pos
    | some rc =>
      simp only [syncPlan, hl]
      apply ih hkt
      intro kr hkr
      rcases mem_iset j _ idx kr hkr with h | h
      · obtain ⟨j', hm⟩ := ilookup_mem j rc idx hl
        obtain ⟨_, hfl, hlen⟩ := hwf (j', rc) hm
        rw [h]; exact ⟨hks j List.mem_cons_self, hfl, hlen⟩
      · exact hwf kr h

theorem mem_applyEntriesL (es : List LogEntry) (D : List (Key × Rec)) (kr : Key × Rec)
    (h : kr ∈ applyEntriesL D es) : kr ∈ D ∨ LogEntry.put kr.1 kr.2 ∈ es := by
  unfold applyEntriesL at h
  induction es generalizing D with
  | nil => exact Or.inl h
  | cons e t ih =>
    simp only [List.foldl_cons] at h
    rcases ih _ h with h1 | h1
    · cases e with
      | put k r =>
        rcases mem_iset k r D kr h1 with h2 | h2
        · exact Or.inr (by rw [h2]; exact List.mem_cons_self)
        · exact Or.inl h2
      | del k => exact Or.inl (mem_ierase k D kr h1)
    · exact Or.inr (List.mem_cons_of_mem _ h1)

theorem plan_puts_cached (seq : Nat) (ks : List Key) (idx : List (Key × Rec)) (hc : AllCached idx) (pos : Nat) :
    ∀ k r, LogEntry.put k r ∈ (syncPlan seq idx ks pos).2.1 → hasFlag r.flags NO_CACHE = false := by
  induction ks generalizing idx pos with
  | nil => intro k r h; simp [syncPlan] at h
  | cons j t ih =>
    cases hl : ilookup j idx with
    | none =>
      simp only [syncPlan, hl]
      intro k r h
      simp only [List.mem_cons] at h
      rcases h with h | h
      · cases h
      · exact ih idx hc pos k r h
    | some rc =>
      simp only [syncPlan, hl]
      have hrc := allCached_lookup hc j rc hl
      intro k r h
      simp only [List.mem_cons, LogEntry.put.injEq] at h
      rcases h with ⟨_, h⟩ | h
      · rw [h]; exact hrc.2
      · exact ih _ (allCached_iset hc j { rc with pos := u32 pos, seq := seq } ⟨hrc.1, hrc.2⟩) _ k r h

theorem core_strip (r : Rec) : core (strip r) = core r := rfl

end GocoinV.Proofs.C19
