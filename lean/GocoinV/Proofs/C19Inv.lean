/-
  Proofs.C19Inv — the disk invariant of a non-volatile cached store ("snapshot + log describe every key
  that is not pending, and its bytes are in the data files") and what sync() does to it.
-/
import GocoinV.Proofs.C19Sync
import GocoinV.Proofs.C19Effects
namespace GocoinV.Proofs.C19
open GocoinV GocoinV.Qdb GocoinV.QdbSpec

variable {eg : Bool}

/-- where a record lives on disk -/
def core (r : Rec) : Nat × Nat × Nat := (r.seq, r.pos, r.len)

/-! ### the disk index has distinct keys, whatever the files contain -/

theorem nodup_isetAll (recs l : List (Key × Rec)) (h : (Keys l).Nodup) : (Keys (isetAll l recs)).Nodup := by
  unfold isetAll
  induction recs generalizing l with
  | nil => exact h
  | cons kr t ih => exact ih _ (nodup_iset kr.1 kr.2 l h)

theorem nodup_applyEntriesL (es : List LogEntry) (l : List (Key × Rec)) (h : (Keys l).Nodup) :
    (Keys (applyEntriesL l es)).Nodup := by
  unfold applyEntriesL
  induction es generalizing l with
  | nil => exact h
  | cons e t ih => exact ih _ (nodup_applyEntryL l e h)

theorem nodup_diskIndex (fs : FS) : (Keys (diskIndex fs)).Nodup := by
  unfold diskIndex
  apply nodup_applyEntriesL
  unfold snapBase
  split
  · simp [Keys]
  · exact nodup_isetAll _ _ (by simp [Keys])

/-! ### checkDat / the end of sync, on the directory -/

theorem checkDat_post (db : DB) :
    (checkDat db).datOpen = true ∧
    (db.datOpen = true → checkDat db = db) ∧
    (db.datOpen = false →
      dlookup db.dataSeq (checkDat db).fs.dats = some (le32 db.dataSeq) ∧ (checkDat db).lastPos = 4 ∧
      (∀ t, t ≠ db.dataSeq → dlookup t (checkDat db).fs.dats = dlookup t db.fs.dats)) ∧
    (checkDat db).fs.idx0 = db.fs.idx0 ∧ (checkDat db).fs.idx1 = db.fs.idx1 ∧ (checkDat db).fs.log = db.fs.log ∧
    (checkDat db).dataSeq = db.dataSeq ∧ (checkDat db).verSeq = db.verSeq ∧ (checkDat db).logOpen = db.logOpen ∧
    (checkDat db).pending = db.pending ∧ (checkDat db).index = db.index ∧ (checkDat db).datIdx = db.datIdx := by
  cases h : db.datOpen with
  | true =>
    have e : checkDat db = db := by unfold checkDat; simp [h]
    rw [e]
    exact ⟨h, fun _ => rfl, fun h' => by simp at h', rfl, rfl, rfl, rfl, rfl, rfl, rfl, rfl, rfl⟩
  | false =>
    have e : checkDat db = { emit (emit db "qdb.checklogfile:created" (.createDat db.dataSeq)) "qdb.checklogfile:header"
          (.writeDat db.dataSeq 0 (le32 db.dataSeq)) with datOpen := true, lastPos := 4 } := by
      unfold checkDat; rw [if_neg (by simp [h])]; rfl
    have hfs : (checkDat db).fs =
        { db.fs with dats := dset db.dataSeq (le32 db.dataSeq) (dset db.dataSeq [] db.fs.dats) } := by
      rw [e]
      show (db.fs.apply (.createDat db.dataSeq)).apply (.writeDat db.dataSeq 0 (le32 db.dataSeq)) = _
      unfold FS.apply
      simp [dlookup_dset_same, writeAt]
    refine ⟨by rw [e], fun h' => by simp at h', fun _ => ⟨?_, by rw [e], ?_⟩, by rw [hfs], by rw [hfs], by rw [hfs],
      by rw [e]; rfl, by rw [e]; rfl, by rw [e]; rfl, by rw [e]; rfl, by rw [e]; rfl, by rw [e]; rfl⟩
    · rw [hfs]; simp [dlookup_dset_same]
    · intro t ht
      rw [hfs]; simp [dlookup_dset_other _ _ _ _ ht]

/-- the state after `checklogfile` + the one Write of the collected entries -/
def logWritten (d : DB) (bidx : Bytes) : DB :=
  { emit (checkLog d) "qdb.sync:log-written" (.appendLog bidx) with pending := [] }

theorem logWritten_eager (d : DB) (bidx : Bytes) : (logWritten d bidx).eager = d.eager := by
  unfold logWritten checkLog
  split <;> rfl

theorem logWritten_post (d : DB) (bidx : Bytes) (E : List LogEntry) (hs : LogState d.fs d.verSeq E)
    (h1 : d.logOpen = false → d.fs.log = none) (h2 : d.logOpen = true → d.fs.log ≠ none) :
    (logWritten d bidx).fs.log = some (le32 d.verSeq ++ (encLog E ++ bidx)) ∧
    (logWritten d bidx).fs.idx0 = d.fs.idx0 ∧ (logWritten d bidx).fs.idx1 = d.fs.idx1 ∧
    (logWritten d bidx).fs.dats = d.fs.dats ∧ (logWritten d bidx).logOpen = true ∧
    (logWritten d bidx).pending = [] ∧ (logWritten d bidx).index = d.index ∧
    (logWritten d bidx).dataSeq = d.dataSeq ∧ (logWritten d bidx).verSeq = d.verSeq ∧
    (logWritten d bidx).lastPos = d.lastPos ∧ (logWritten d bidx).datOpen = d.datOpen ∧
    (logWritten d bidx).failed = d.failed ∧ (logWritten d bidx).volatile = d.volatile ∧
    (logWritten d bidx).opts = d.opts ∧ (logWritten d bidx).datIdx = d.datIdx := by
  cases ho : d.logOpen with
  | true =>
    have e : checkLog d = d := by unfold checkLog; simp [ho]
    have hl : d.fs.log = some (le32 d.verSeq ++ encLog E) := by
      rcases hs with ⟨a, _⟩ | a
      · exact absurd a (h2 ho)
      · exact a
    unfold logWritten
    rw [e]
    refine ⟨?_, rfl, rfl, rfl, ho, rfl, rfl, rfl, rfl, rfl, rfl, rfl, rfl, rfl, rfl⟩
    show (d.fs.apply (.appendLog bidx)).log = _
    unfold FS.apply
    simp [hl, List.append_assoc]
  | false =>
    have hl := h1 ho
    have hE : E = [] := by
      rcases hs with ⟨_, b⟩ | a
      · exact b
      · rw [hl] at a; cases a
    have e : checkLog d = { emit (emit d "qdb.idx.checklogfile:created" .createLog) "qdb.idx.checklogfile:header"
        (.appendLog (le32 d.verSeq)) with logOpen := true } := by
      unfold checkLog; rw [if_neg (by simp [ho])]; rfl
    unfold logWritten
    rw [e]
    refine ⟨?_, rfl, rfl, rfl, rfl, rfl, rfl, rfl, rfl, rfl, rfl, rfl, rfl, rfl, rfl⟩
    show (((d.fs.apply .createLog).apply (.appendLog (le32 d.verSeq))).apply (.appendLog bidx)).log = _
    unfold FS.apply
    simp [hE, encLog]

/-! ### the effects of sync(), as a list -/

def cdEffs (db : DB) : List Effect :=
  if db.datOpen then [] else [.createDat db.dataSeq, .writeDat db.dataSeq 0 (le32 db.dataSeq)]

def clEffs (db : DB) : List Effect :=
  if db.logOpen then [] else [.createLog, .appendLog (le32 db.verSeq)]

/-- all effects of sync() up to and including the Write to the index log -/
def syncEffs (db : DB) : List Effect :=
  cdEffs db ++ (planW db.dataSeq db.index db.pending (checkDat db).lastPos ++
    (clEffs db ++ [.appendLog (encLog (syncPlan db.dataSeq db.index db.pending (checkDat db).lastPos).2.1)]))

theorem checkDat_effs (db : DB) : ∃ es, (checkDat db).effs = db.effs ++ es ∧ es.map (·.2) = cdEffs db := by
  unfold checkDat cdEffs
  cases h : db.datOpen with
  | true => exact ⟨[], by simp, by simp⟩
  | false =>
    simp only [Bool.false_eq_true, ↓reduceIte]
    exact ⟨[("qdb.checklogfile:created", .createDat db.dataSeq),
      ("qdb.checklogfile:header", .writeDat db.dataSeq 0 (le32 db.dataSeq))], by simp [emit], rfl⟩

theorem logWritten_effs (d : DB) (bidx : Bytes) :
    ∃ es, (logWritten d bidx).effs = d.effs ++ es ∧ es.map (·.2) = clEffs d ++ [.appendLog bidx] := by
  unfold logWritten checkLog clEffs
  cases h : d.logOpen with
  | true => exact ⟨[("qdb.sync:log-written", .appendLog bidx)], by simp [emit], by simp⟩
  | false =>
    simp only [Bool.false_eq_true, ↓reduceIte]
    exact ⟨[("qdb.idx.checklogfile:created", .createLog), ("qdb.idx.checklogfile:header", .appendLog (le32 d.verSeq)),
      ("qdb.sync:log-written", .appendLog bidx)], by simp [emit], rfl⟩

/-! ### the invariant -/

structure DiskInv (db : DB) : Prop where
  cached : Cached db
  nv : db.volatile = false
  wf : ∀ kr ∈ db.index, RecWF kr
  nodup : (Keys db.index).Nodup
  pnodup : db.pending.Nodup
  pkeys : ∀ k ∈ db.pending, k < 2^64
  ver : snapVer db.fs = db.verSeq
  verlt : db.verSeq < 2^32
  dseq : db.dataSeq < 2^32
  logst : ∃ E, (∀ e ∈ E, EntryFits e) ∧ LogState db.fs db.verSeq E
  log1 : db.logOpen = false → db.fs.log = none
  log2 : db.logOpen = true → db.fs.log ≠ none
  clean : ∀ k, k ∉ db.pending → (ilookup k (diskIndex db.fs)).map core = (ilookup k db.index).map core
  files : ∀ k r, k ∉ db.pending → ilookup k db.index = some r →
    ∃ f, dlookup r.seq db.fs.dats = some f ∧ ReadsBack f r (r.data.getD [])
  dflags : ∀ kr ∈ diskIndex db.fs, hasFlag kr.2.flags (ncOf db.eager) = false
  dat1 : db.datOpen = true → ∃ f, dlookup db.dataSeq db.fs.dats = some f ∧ db.lastPos = f.length ∧ 4 ≤ f.length
  /-- while no data file is open for writing, the next one (`DataSeq`) is referenced by nothing on disk -/
  dat2 : db.datOpen = false → ∀ kr ∈ diskIndex db.fs, kr.2.seq ≠ db.dataSeq
  /-- every record of the disk index (also of keys that are pending now) can be read back -/
  dreads : ∀ kr ∈ diskIndex db.fs, ∃ f v, dlookup kr.2.seq db.fs.dats = some f ∧ ReadsBack f kr.2 v

theorem plan_wf (seq : Nat) (ks : List Key) (hks : ∀ k ∈ ks, k < 2^64) (idx : List (Key × Rec))
    (hwf : ∀ kr ∈ idx, RecWF kr) (pos : Nat) : ∀ kr ∈ (syncPlan seq idx ks pos).1, RecWF kr := by
  induction ks generalizing idx pos with
  | nil => simpa [syncPlan] using hwf
  | cons j t ih =>
    have hkt : ∀ k ∈ t, k < 2^64 := fun k hk => hks k (List.mem_cons_of_mem _ hk)
    cases hl : ilookup j idx with
    | none => simp only [syncPlan, hl]; exact ih hkt idx hwf pos
    | some rc =>
      simp only [syncPlan, hl]
      apply ih hkt
      intro kr hkr
      rcases mem_iset j _ idx kr hkr with h | h
      · obtain ⟨j', hm⟩ := ilookup_mem j rc idx hl
        obtain ⟨_, hfl, hlen⟩ := hwf (j', rc) hm
        rw [h]; exact ⟨hks j List.mem_cons_self, hfl, hlen⟩
      · exact hwf kr h

theorem mem_applyEntriesL (es : List LogEntry) (D : List (Key × Rec)) (kr : Key × Rec)
    (h : kr ∈ applyEntriesL D es) : kr ∈ D ∨ LogEntry.put kr.1 kr.2 ∈ es := by
  unfold applyEntriesL at h
  induction es generalizing D with
  | nil => exact Or.inl h
  | cons e t ih =>
    simp only [List.foldl_cons] at h
    rcases ih _ h with h1 | h1
    · cases e with
      | put k r =>
        rcases mem_iset k r D kr h1 with h2 | h2
        · exact Or.inr (by rw [h2]; exact List.mem_cons_self)
        · exact Or.inl h2
      | del k => exact Or.inl (mem_ierase k D kr h1)
    · exact Or.inr (List.mem_cons_of_mem _ h1)

theorem plan_puts_cached (seq : Nat) (ks : List Key) (idx : List (Key × Rec)) (hc : AllCached eg idx) (pos : Nat) :
    ∀ k r, LogEntry.put k r ∈ (syncPlan seq idx ks pos).2.1 → hasFlag r.flags (ncOf eg) = false := by
  induction ks generalizing idx pos with
  | nil => intro k r h; simp [syncPlan] at h
  | cons j t ih =>
    cases hl : ilookup j idx with
    | none =>
      simp only [syncPlan, hl]
      intro k r h
      simp only [List.mem_cons] at h
      rcases h with h | h
      · cases h
      · exact ih idx hc pos k r h
    | some rc =>
      simp only [syncPlan, hl]
      have hrc := allCached_lookup hc j rc hl
      intro k r h
      simp only [List.mem_cons, LogEntry.put.injEq] at h
      rcases h with ⟨_, h⟩ | h
      · rw [h]; exact hrc.2
      · exact ih _ (allCached_iset hc j { rc with pos := u32 pos, seq := seq } ⟨hrc.1, hrc.2⟩) _ k r h

theorem core_strip (r : Rec) : core (strip r) = core r := rfl

theorem ilookup_of_mem_nodup' {α : Type} (l : List (Key × α)) (h : (Keys l).Nodup) (k : Key) (x : α)
    (hm : (k, x) ∈ l) : ilookup k l = some x := by
  induction l with
  | nil => cases hm
  | cons hd t ih =>
    obtain ⟨j, q⟩ := hd
    simp only [Keys, List.map_cons, List.nodup_cons] at h
    rcases List.mem_cons.mp hm with h1 | h1
    · cases h1; simp [ilookup]
    · have hj : j ≠ k := by
        intro e
        subst e
        exact h.1 (List.mem_map.mpr ⟨(j, x), h1, rfl⟩)
      simp only [ilookup, hj, ↓reduceIte]
      exact ih h.2 h1

theorem ilookup_key_pair' {α : Type} (k : Key) (x : α) (l : List (Key × α)) (h : ilookup k l = some x) : (k, x) ∈ l := by
  induction l with
  | nil => simp [ilookup] at h
  | cons hd t ih =>
    obtain ⟨j, q⟩ := hd
    by_cases hj : j = k
    · simp only [ilookup, hj, ↓reduceIte, Option.some.injEq] at h
      simp [hj, h]
    · simp only [ilookup, hj, ↓reduceIte] at h
      exact List.mem_cons_of_mem _ (ih h)

theorem ilookup_key_mem {α : Type} (k : Key) (x : α) (l : List (Key × α)) (h : ilookup k l = some x) : k ∈ Keys l := by
  induction l with
  | nil => simp [ilookup] at h
  | cons hd t ih =>
    obtain ⟨j, q⟩ := hd
    by_cases hj : j = k
    · simp [Keys, hj]
    · simp only [ilookup, hj, ↓reduceIte] at h
      have := ih h
      simp only [Keys, List.map_cons, List.mem_cons] at this ⊢
      exact Or.inr this

theorem keys_of_absv (db : DB) : Keys db.index = (absv db).map (·.1) := by
  simp [Keys, absv, absE, List.map_map]

/-- sync() with pending records: the state after the log write (before the possible forced defrag)
    satisfies the invariant, holds the same content, and nothing is pending. -/
theorem sync_logWritten (db : DB) (inv : DiskInv db) (hp : db.pending.isEmpty = false)
    (hsmall : (checkDat db).lastPos +
      (syncPlan db.dataSeq db.index db.pending (checkDat db).lastPos).2.2.length < 2^32) :
    ∃ L, sync db = (if L.extra > mul64 L.opts.forcedPerc L.need / 100 then defrag L else L) ∧
      DiskInv L ∧ absv L = absv db ∧ L.pending = [] ∧ L.opts = db.opts ∧
      (∃ es, L.effs = db.effs ++ es ∧ es.map (·.2) = syncEffs db) ∧ L.index = 
        (syncPlan db.dataSeq db.index db.pending (checkDat db).lastPos).1 ∧
      L.fs = db.fs.applyAll (syncEffs db) ∧
      (L.datIdx = db.datIdx ∧ L.verSeq = db.verSeq ∧ L.dataSeq = db.dataSeq ∧ L.fs.idx0 = db.fs.idx0 ∧
        L.fs.idx1 = db.fs.idx1 ∧
        diskIndex L.fs = applyEntriesL (diskIndex db.fs)
          ((syncPlan db.dataSeq db.index db.pending (checkDat db).lastPos).2.1.map stripE) ∧
        L = logWritten (db.pending.foldl syncKey (checkDat db, [])).1 (db.pending.foldl syncKey (checkDat db, [])).2) := by
  obtain ⟨c_open, c_same, c_new, c_i0, c_i1, c_log, c_ds, c_vs, c_lo, c_pe, c_ix, c_di⟩ := checkDat_post db
  -- the data file after checklogfile
  have hfile0 : ∃ f0, dlookup db.dataSeq (checkDat db).fs.dats = some f0 ∧ (checkDat db).lastPos = f0.length ∧
      4 ≤ f0.length ∧ (db.datOpen = true → dlookup db.dataSeq db.fs.dats = some f0) := by
    cases ho : db.datOpen with
    | true =>
      obtain ⟨f, h1, h2, h3⟩ := inv.dat1 ho
      rw [c_same ho]
      exact ⟨f, h1, h2, h3, fun _ => h1⟩
    | false =>
      obtain ⟨h1, h2, _⟩ := c_new ho
      exact ⟨le32 db.dataSeq, h1, by rw [h2]; simp, by simp, fun h => by simp at h⟩
  obtain ⟨f0, hf0, hlp0, hf0len, hf0old⟩ := hfile0
  have hc0 : Cached (checkDat db) := Cached.of_frame (frame_checkDat db) inv.cached
  obtain ⟨d', hfold, hidx', hfile', hlp', hrest, ws, hws1, hws2⟩ :=
    syncFold_plan db.pending (checkDat db) [] f0 hc0 (by rw [c_ds]; exact hf0) hlp0
  rw [c_ds, c_ix] at hfold hidx' hfile' hlp' hws2
  rw [c_ds] at hrest
  obtain ⟨es1, he1a, he1b⟩ := checkDat_effs db
  have hEffs : ∃ es, (logWritten d' (encLog (syncPlan db.dataSeq db.index db.pending (checkDat db).lastPos).2.1)).effs
      = db.effs ++ es ∧ es.map (·.2) = syncEffs db := by
    obtain ⟨es3, he3a, he3b⟩ := logWritten_effs d' (encLog (syncPlan db.dataSeq db.index db.pending (checkDat db).lastPos).2.1)
    refine ⟨es1 ++ (ws ++ es3), by rw [he3a, hws1, he1a]; simp [List.append_assoc], ?_⟩
    have hcl : clEffs d' = clEffs db := by
      unfold syncRest at hrest
      simp only [Prod.mk.injEq] at hrest
      unfold clEffs
      rw [hrest.2.2.2.2.2.2.2.2.1, hrest.2.2.2.2.2.2.2.1, c_lo, c_vs]
    unfold syncEffs
    rw [List.map_append, List.map_append, he1b, hws2, he3b, hcl]
  have hIdxL : d'.index = (syncPlan db.dataSeq db.index db.pending (checkDat db).lastPos).1 := hidx'
  have hFsL : (logWritten d' (encLog (syncPlan db.dataSeq db.index db.pending (checkDat db).lastPos).2.1)).fs =
      db.fs.applyAll (syncEffs db) := by
    have r1 := replays_checkDat db
    have r2 := replays_syncFold db.pending (checkDat db, [])
    rw [hfold] at r2
    have r3 : Replays (logWritten d' (encLog (syncPlan db.dataSeq db.index db.pending (checkDat db).lastPos).2.1)) d' :=
      Replays.trans (Replays.of_eq rfl rfl) ((replays_emit _ _ _).trans (replays_checkLog d'))
    obtain ⟨es', h1, h2⟩ := (r3.trans r2).trans r1
    obtain ⟨es, h3, h4⟩ := hEffs
    have : es' = es := List.append_cancel_left (h1.symm.trans h3)
    rw [h2, this, h4]
  simp only [List.nil_append] at hfold
  -- name the plan
  generalize hplan : syncPlan db.dataSeq db.index db.pending (checkDat db).lastPos = plan at *
  have hkeep := syncFold_cached db.pending (checkDat db, []) hc0
  rw [hfold] at hkeep
  have hc' : Cached d' := hkeep.cached
  have habs' : absv d' = absv db := hkeep.abs.trans (by unfold absv; rw [c_ix])
  -- unpack what the loop left alone
  unfold syncRest at hrest
  simp only [Prod.mk.injEq] at hrest
  obtain ⟨r_i0, r_i1, r_log, r_dats, r_ds, r_f, r_di, r_vs, r_lo, r_do, r_vol, r_opts, r_pe, r_ex, r_nd, r_ns⟩ := hrest
  obtain ⟨E, hEfit, hEst⟩ := inv.logst
  have hlogd' : d'.fs.log = db.fs.log := r_log.trans c_log
  have hvs' : d'.verSeq = db.verSeq := r_vs.trans c_vs
  have hst' : LogState d'.fs d'.verSeq E := by
    unfold LogState at hEst ⊢
    rw [hlogd', hvs']; exact hEst
  have hlo' : d'.logOpen = db.logOpen := r_lo.trans c_lo
  obtain ⟨l_log, l_i0, l_i1, l_dats, l_lo, l_pe, l_ix, l_ds, l_vs, l_lp, l_do, l_f, l_vol, l_opts, l_di⟩ :=
    logWritten_post d' (encLog plan.2.1) E hst'
      (by rw [hlo', hlogd']; exact inv.log1) (by rw [hlo', hlogd']; exact inv.log2)
  refine ⟨logWritten d' (encLog plan.2.1), ?_, ?_, ?_, l_pe, ?_, hEffs, l_ix.trans hIdxL, hFsL, ?_⟩
  rotate_right
  · -- bookkeeping that is used by the crash analysis of defrag
    have hidx0' : (logWritten d' (encLog plan.2.1)).fs.idx0 = db.fs.idx0 := l_i0.trans (r_i0.trans c_i0)
    have hidx1' : (logWritten d' (encLog plan.2.1)).fs.idx1 = db.fs.idx1 := l_i1.trans (r_i1.trans c_i1)
    have hfits2' : ∀ e ∈ plan.2.1, EntryFits e := by
      rw [← hplan]
      exact plan_fits db.dataSeq inv.dseq db.pending inv.pkeys db.index inv.wf _ (by rw [hlp0]; exact hf0len)
        (by rw [hplan]; exact hsmall)
    have hlogL' : (logWritten d' (encLog plan.2.1)).fs.log = some (le32 db.verSeq ++ encLog (E ++ plan.2.1)) := by
      rw [l_log, hvs', encLog_append]
    exact ⟨l_di.trans (r_di.trans c_di), l_vs.trans hvs', l_ds.trans (r_ds.trans c_ds), hidx0', hidx1',
      (diskIndex_log_append db.fs (logWritten d' (encLog plan.2.1)).fs db.verSeq E plan.2.1
        hEst inv.ver inv.verlt hEfit hfits2' hidx0' hidx1' hlogL').1, by rw [hfold]⟩
  · -- sync db unfolds to this
    unfold sync
    rw [if_neg (by simp [inv.nv]), if_neg (by simp [hp])]
    simp only [hfold, hc'.1]
    rfl
  rotate_left
  · unfold absv; rw [l_ix]; exact habs'
  · rw [l_opts, r_opts]
    exact (frame_checkDat db).opts
  -- the invariant
  have hfits2 : ∀ e ∈ plan.2.1, EntryFits e := by
    rw [← hplan]
    exact plan_fits db.dataSeq inv.dseq db.pending inv.pkeys db.index inv.wf _ (by rw [hlp0]; exact hf0len)
      (by rw [hplan]; exact hsmall)
  have hidx0 : (logWritten d' (encLog plan.2.1)).fs.idx0 = db.fs.idx0 := l_i0.trans (r_i0.trans c_i0)
  have hidx1 : (logWritten d' (encLog plan.2.1)).fs.idx1 = db.fs.idx1 := l_i1.trans (r_i1.trans c_i1)
  have hlogL : (logWritten d' (encLog plan.2.1)).fs.log = some (le32 db.verSeq ++ encLog (E ++ plan.2.1)) := by
    rw [l_log, hvs', encLog_append]
  obtain ⟨hDI, hSV⟩ := diskIndex_log_append db.fs (logWritten d' (encLog plan.2.1)).fs db.verSeq E plan.2.1
    hEst inv.ver inv.verlt hEfit hfits2 hidx0 hidx1 hlogL
  have hlook := fun k => plan_lookup db.dataSeq db.pending inv.pnodup db.index (checkDat db).lastPos
    (diskIndex db.fs) (nodup_diskIndex db.fs) k
  rw [hplan] at hlook
  have hdatL : dlookup db.dataSeq (logWritten d' (encLog plan.2.1)).fs.dats = some (f0 ++ plan.2.2) := by
    rw [l_dats]; exact hfile'
  have hother : ∀ t, t ≠ db.dataSeq → dlookup t (logWritten d' (encLog plan.2.1)).fs.dats = dlookup t db.fs.dats := by
    intro t ht
    rw [l_dats]
    have h1 := congrFun r_dats t
    simp only [ht, ↓reduceIte] at h1
    rw [h1]
    cases ho : db.datOpen with
    | true => rw [c_same ho]
    | false => exact (c_new ho).2.2 t ht
  have hEag : (logWritten d' (encLog plan.2.1)).eager = db.eager :=
    (logWritten_eager d' _).trans (hkeep.eager.trans (frame_checkDat db).eager)
  constructor
  · exact ⟨l_f.trans hc'.1, by rw [logWritten_eager, AllCached, l_ix]; exact hc'.2⟩
  · rw [l_vol, r_vol]; exact (frame_checkDat db).volatile.trans inv.nv
  · rw [l_ix, hidx', ← hplan]; exact plan_wf db.dataSeq db.pending inv.pkeys db.index inv.wf _
  · rw [keys_of_absv, show absv (logWritten d' (encLog plan.2.1)) = absv db from by unfold absv; rw [l_ix]; exact habs',
      ← keys_of_absv]
    exact inv.nodup
  · rw [l_pe]; exact List.nodup_nil
  · rw [l_pe]; intro k hk; cases hk
  · rw [hSV, l_vs, hvs']
  · rw [l_vs, hvs']; exact inv.verlt
  · rw [l_ds, r_ds, c_ds]; exact inv.dseq
  · refine ⟨E ++ plan.2.1, ?_, Or.inr (by rw [l_vs, hvs']; exact hlogL)⟩
    intro e he
    rcases List.mem_append.mp he with h | h
    · exact hEfit e h
    · exact hfits2 e h
  · intro h; rw [l_lo] at h; cases h
  · intro _; rw [hlogL]; simp
  · -- clean: every key
    intro k _
    rw [hDI, (hlook k).1, l_ix, hidx']
    by_cases hk : k ∈ db.pending
    · simp only [hk, ↓reduceIte, Option.map_map]
      congr 1
    · simp only [hk, ↓reduceIte]
      rw [(hlook k).2 hk]
      exact inv.clean k hk
  · -- files
    intro k r _ hr
    rw [l_ix, hidx'] at hr
    by_cases hk : k ∈ db.pending
    · have := plan_reads db.dataSeq db.pending inv.pnodup db.index f0 (fun kr hkr => (inv.wf kr hkr).2.2)
        (by rw [← hlp0, hplan]; exact hsmall) k hk r (by rw [← hlp0, hplan]; exact hr)
      rw [← hlp0, hplan] at this
      exact ⟨f0 ++ plan.2.2, by rw [this.1]; exact hdatL, this.2⟩
    · rw [(hlook k).2 hk] at hr
      obtain ⟨f, h1, h2⟩ := inv.files k r hk hr
      by_cases hs : r.seq = db.dataSeq
      · cases ho : db.datOpen with
        | true =>
          have : f = f0 := by
            have := hf0old ho
            rw [hs] at h1
            rw [h1] at this
            exact Option.some.inj this
          subst this
          exact ⟨f ++ plan.2.2, by rw [hs]; exact hdatL, h2.append _⟩
        | false =>
          -- a clean key has the same place on disk in the disk index, which does not use the next data file
          have hcl := inv.clean k hk
          rw [hr] at hcl
          cases hD : ilookup k (diskIndex db.fs) with
          | none => rw [hD] at hcl; simp at hcl
          | some rd =>
            rw [hD] at hcl
            simp only [Option.map_some, Option.some.injEq, core, Prod.mk.injEq] at hcl
            have hmem := ilookup_key_pair' k rd _ hD
            exact absurd (hcl.1.trans hs) (inv.dat2 ho (k, rd) hmem)
      · exact ⟨f, by rw [hother _ hs]; exact h1, h2⟩
  · -- flags of the disk records
    intro kr hkr
    rw [hEag]
    rw [hDI] at hkr
    rcases mem_applyEntriesL _ _ kr hkr with h | h
    · exact inv.dflags kr h
    · obtain ⟨e, he, hee⟩ := List.mem_map.mp h
      cases e with
      | del k => simp [stripE] at hee
      | put k r =>
        simp only [stripE, LogEntry.put.injEq] at hee
        have := plan_puts_cached db.dataSeq db.pending db.index inv.cached.2 (checkDat db).lastPos k r
          (by rw [hplan]; exact he)
        rw [← hee.2]; exact this
  · intro _
    refine ⟨f0 ++ plan.2.2, by rw [l_ds, r_ds, c_ds]; exact hdatL, ?_, by simp only [List.length_append]; omega⟩
    rw [l_lp, hlp', hlp0]; simp
  · intro h
    rw [l_do, r_do, c_open] at h; cases h
  · -- every disk record is readable
    intro kr hkr
    have hnd' : (Keys (diskIndex (logWritten d' (encLog plan.2.1)).fs)).Nodup := nodup_diskIndex _
    have hlk := ilookup_of_mem_nodup' _ hnd' kr.1 kr.2 hkr
    rw [hDI, (hlook kr.1).1] at hlk
    by_cases hk : kr.1 ∈ db.pending
    · simp only [hk, ↓reduceIte] at hlk
      cases hm : ilookup kr.1 plan.1 with
      | none => rw [hm] at hlk; simp at hlk
      | some r =>
        rw [hm] at hlk
        simp only [Option.map_some, Option.some.injEq] at hlk
        have := plan_reads db.dataSeq db.pending inv.pnodup db.index f0 (fun kr hkr => (inv.wf kr hkr).2.2)
          (by rw [← hlp0, hplan]; exact hsmall) kr.1 hk r (by rw [← hlp0, hplan]; exact hm)
        rw [← hlp0, hplan] at this
        refine ⟨f0 ++ plan.2.2, r.data.getD [], ?_, ?_⟩
        · rw [← hlk]; show dlookup r.seq _ = _; rw [this.1]; exact hdatL
        · rw [← hlk]; exact this.2.2 |> fun h3 => ⟨this.2.1, this.2.2.1, h3.2⟩
    · simp only [hk, ↓reduceIte] at hlk
      have hmem := ilookup_key_pair' kr.1 kr.2 _ hlk
      obtain ⟨f, v, h1, h2⟩ := inv.dreads (kr.1, kr.2) hmem
      by_cases hs : kr.2.seq = db.dataSeq
      · cases ho : db.datOpen with
        | true =>
          have : f = f0 := by
            have := hf0old ho
            rw [hs] at h1
            rw [h1] at this
            exact Option.some.inj this
          subst this
          exact ⟨f ++ plan.2.2, v, by rw [hs]; exact hdatL, h2.append _⟩
        | false => exact absurd hs (inv.dat2 ho (kr.1, kr.2) hmem)
      · exact ⟨f, v, by rw [hother _ hs]; exact h1, h2⟩

end GocoinV.Proofs.C19
