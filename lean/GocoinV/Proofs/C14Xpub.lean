/-
  Proofs.C14Xpub — lemmas for the theorems about extended PUBLIC keys whose key bytes are (not) a curve
  point (finding `xpub-noncanonical-x`, fixed): what `StringWallet` lets in, what `Child` does with the rest,
  and that the child of an importable xpub is importable again.
-/
import GocoinV.Proofs.C14Curve
import GocoinV.Proofs.C14Wallet
import GocoinV.Proofs.C03Recover
namespace GocoinV.Proofs.C14
open GocoinV GocoinV.Secp GocoinV.Model GocoinV.Model.Sig GocoinV.Proofs.C03 HD

/-- strict SEC1 parsing of 33 bytes only ever yields a point of the curve -/
theorem parse33_onCurve (b : Bytes) (P : Nat × Nat) (hl : b.length = 33)
    (h : Secp.parsePubkey b = some P) : onCurve (some P) = true := by
  rw [← parsePubkey_eq b (not_exceptional b)] at h
  cases b with
  | nil => simp at hl
  | cons hd t =>
    unfold Sig.parsePubkey at h
    have h65 : ¬ ((hd :: t).length = 65 ∧ (hd = 0x04 ∨ hd = 0x06 ∨ hd = 0x07)) := by
      intro ⟨a, _⟩; omega
    simp only [hl, true_and, ↓reduceIte] at h
    have n65 : ¬ ((33 : Nat) = 65 ∧ (hd = 4 ∨ hd = 6 ∨ hd = 7)) := by intro ⟨a, _⟩; omega
    by_cases h23 : hd = 2 ∨ hd = 3
    · rw [if_pos h23] at h
      by_cases hx : beVal t ≥ p
      · rw [if_pos hx] at h; cases h
      · rw [if_neg hx] at h
        by_cases hv : isValid (beVal t) (setXO (beVal t) (hd == 3)) = true
        · rw [if_pos hv] at h
          simp only [Option.some.injEq] at h
          rw [← h, ← isValid_eq_onCurve _ _ (by omega) (setXO_lt _ _)]
          exact hv
        · rw [if_neg hv] at h; cases h
    · rw [if_neg h23, if_neg n65] at h; cases h

/-- the version sets are disjoint -/
theorem public_not_private (p : Nat) (h : isPublicPfx p = true) : isPrivatePfx p = false := by
  have : p ∈ Gen.HDConsts.setIsPublicHDPrefix := by simpa [isPublicPfx] using h
  simp only [Gen.HDConsts.setIsPublicHDPrefix, List.mem_cons, List.not_mem_nil, or_false] at this
  rcases this with h | h | h | h | h | h <;> rw [h] <;> decide

/-- what the public branch of `Child` returns, exactly -/
theorem child_pub_cases (C : WalletCrypto) (w : HDWallet) (i : Nat)
    (hpub : isPublicPfx w.pfx = true) (hnpriv : isPrivatePfx w.pfx = false)
    (hlen : w.key.length = 33) (hi : i < 2 ^ 31) :
    child C w i =
      match Secp.parsePubkey w.key with
      | none => .error .panic
      | some P =>
        match Secp.add (Secp.mul (beVal ((C.hmac512 w.chCode (w.key ++ beBytes 4 i)).take 32)) Secp.G) (some P) with
        | none => .error .panic
        | some Q => .ok { pfx := w.pfx, depth := (w.depth + 1) % 256, checksum := (C.hash160 w.key).take 4, idx := i,
                          chCode := (C.hmac512 w.chCode (w.key ++ beBytes 4 i)).drop 32, key := Secp.ser33 (some Q) } := by
  unfold child
  have c1 : ¬ (w.key.length ≠ 33 ∨ i ≥ 2 ^ 32) := by omega
  have c2 : ¬ (i ≥ 2 ^ 31) := by omega
  have c3 : ¬ (i ≥ 2 ^ 32) := by omega
  simp only [↓reduceIte, hnpriv, hpub, hardenedFrom_eq, c2, c3, baseMultiplyAdd, hlen, ne_eq, not_true_eq_false,
    Bool.false_eq_true, or_self]
  cases Secp.parsePubkey w.key with
  | none => rfl
  | some P =>
    simp only []
    cases Secp.add (Secp.mul (beVal ((C.hmac512 w.chCode (w.key ++ beBytes 4 i)).take 32)) Secp.G) (some P) with
    | none => simp [serPoint]
    | some Q => simp [serPoint]

/-- `ByteCheck` passed and the version is public ⇒ the key bytes parse -/
theorem parseBytes_pub_point (C : WalletCrypto) (dbin : Bytes) (w : HDWallet)
    (h : HD.parseBytes C dbin = .ok w) (hpub : isPublicPfx w.pfx = true) :
    w.key.length = 33 ∧ ∃ P, Secp.parsePubkey w.key = some P := by
  unfold HD.parseBytes at h
  split at h
  · simp at h
  · rename_i hbc
    split at h
    · simp at h
    · simp only [Except.ok.injEq] at h
      unfold byteCheck at hbc
      split at hbc
      · simp at hbc
      · rename_i hlen
        simp only at hbc
        split at hbc
        · simp at hbc
        · split at hbc
          · simp at hbc
          · rename_i hk
            rw [← h] at hpub ⊢
            simp only at hpub ⊢
            have hl : ((dbin.drop 45).take 33).length = 33 := by
              simp only [List.length_take, List.length_drop]; omega
            refine ⟨hl, ?_⟩
            cases hp : Secp.parsePubkey ((dbin.drop 45).take 33) with
            | none => exact absurd ⟨hpub, hp⟩ hk
            | some P => exact ⟨P, rfl⟩

end GocoinV.Proofs.C14
