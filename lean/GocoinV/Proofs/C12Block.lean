/-
  Proofs.C12Block — BlockMined and BlockUndone keep the full pool invariant, given the chain-side facts of a valid
  block connection / disconnection (helper lemmas for Props/C12 `pool_inv`).  Core Lean only.
-/
import GocoinV.Proofs.C12Flags
namespace GocoinV.Mempool

def createdBy (txs : List Tx) (o : OutPoint) : Prop := ∃ t ∈ txs, o.1 = t.id ∧ o.2 < t.outs.length
def spentBy (txs : List Tx) (o : OutPoint) : Prop := ∃ t ∈ txs, ∃ i ∈ t.ins, (i.prev, i.vout) = o

/-- the pool's transactions under their keys (flags aside) come from `s` -/
def TxBack (s s' : State) : Prop := ∀ b x, s'.pool.get? b = some x → ∃ x0, s.pool.get? b = some x0 ∧ x0.tx = x.tx

theorem TxBack.refl (s : State) : TxBack s s := fun _ x h => ⟨x, h, rfl⟩
theorem TxBack.trans {a b c : State} (h1 : TxBack a b) (h2 : TxBack b c) : TxBack a c := by
  intro k x hx
  obtain ⟨x1, hx1, e1⟩ := h2 k x hx
  obtain ⟨x0, hx0, e0⟩ := h1 k x1 hx1
  exact ⟨x0, hx0, e0.trans e1⟩

theorem TxBack.of_set {s s' : State} {val : Nat} {r r' : T2S} (hr : s.pool.get? val = some r)
    (e : s'.pool = s.pool.set val r') (htx : r'.tx = r.tx) : TxBack s s' := by
  intro b x hx
  rw [e] at hx
  by_cases eb : b = val
  · rw [eb, AList.get?_set_self] at hx; cases hx; exact ⟨r, by rw [eb]; exact hr, htx.symm⟩
  · rw [AList.get?_set_other _ _ _ _ eb] at hx; exact ⟨x, hx, rfl⟩

theorem foldl_txback {α : Type} (f : State → α → State) (hf : ∀ s a, TxBack s (f s a)) :
    ∀ (l : List α) (s : State), TxBack s (l.foldl f s) := by
  intro l
  induction l with
  | nil => intro s; exact TxBack.refl s
  | cons a r ih => intro s; exact (hf s a).trans (ih _)

theorem minedFlags_back (K : Keys) (s : State) (t : T2S) : TxBack s (minedFlags K s t) := by
  rw [minedFlags_eq]
  apply foldl_txback
  intro s v
  unfold minedStep
  dsimp only
  repeat' split
  all_goals first
    | exact TxBack.refl s
    | (have hh := ‹s.pool.get? _ = some _›; exact TxBack.of_set hh rfl rfl)

theorem unminedFlags_back (K : Keys) (s : State) (t : T2S) : TxBack s (unminedFlags K s t) := by
  rw [unminedFlags_eq]
  apply foldl_txback
  intro s v
  unfold unminedStep
  dsimp only
  repeat' split
  all_goals first
    | exact TxBack.refl s
    | (have hh := ‹s.pool.get? _ = some _›; exact TxBack.of_set hh rfl rfl)

/-! ### the pool part of txMined for a transaction that is not pooled: remove the conflicting records -/

def minedConf (K : Keys) (s : State) (i : TxIn) : State :=
  match s.spent.get? (K.uidx i.prev i.vout) with
  | none => s
  | some val => match s.pool.get? val with
    | some r => delWithChildren K 0 (s.pool.length + 1) s r
    | none => { s with spent := s.spent.del (K.uidx i.prev i.vout) }

theorem txMinedStep_frame (K : Keys) (W : Tx → Prop) (b : Nat) (wasIn : Bool) (acc : Bool × State) (i : TxIn) :
    Frame W (if wasIn then acc.2 else minedConf K acc.2 i) (txMinedStep K b wasIn acc i).2 ∧
    Env (if wasIn then acc.2 else minedConf K acc.2 i) (txMinedStep K b wasIn acc i).2 := by
  unfold txMinedStep minedConf
  dsimp only
  generalize (if wasIn then acc.2 else
      match acc.2.spent.get? (K.uidx i.prev i.vout) with
      | none => acc.2
      | some val => match acc.2.pool.get? val with
        | some r => delWithChildren K 0 (acc.2.pool.length + 1) acc.2 r
        | none => { acc.2 with spent := acc.2.spent.del (K.uidx i.prev i.vout) }) = s1
  split
  · exact ⟨Frame.refl W s1, Env.refl s1⟩
  · rename_i lst _
    have h2 := foldl_pair_inv (fun st => Frame W s1 st ∧ Env s1 st) (fun (acc : Bool × State) rb =>
      match acc.2.rej.get? rb with
      | some txr => (acc.1 || rb = b, rejDelete K acc.2 txr)
      | none => (acc.1, acc.2)) (by
        intro a rb ha
        split
        · exact ⟨ha.1.trans (rejDelete_frame K W _ _), ha.2.trans (rejDelete_env K _ _)⟩
        · exact ha) lst (acc.1, s1) ⟨Frame.refl W s1, Env.refl s1⟩
    exact ⟨h2.1.trans (Frame.of_eq rfl rfl rfl rfl rfl rfl), h2.2.trans ⟨rfl, rfl, id⟩⟩

structure ConfInv (K : Keys) (W : Tx → Prop) (ν : OutPoint → Nat) (A : OutPoint → Prop) (Cf : TxId → Prop)
    (cur : State) (done : List TxIn) (st : State) : Prop where
  post : DelPost K W ν A Cf cur st
  free : ∀ j ∈ done, st.spent.get? (K.uidx j.prev j.vout) = none

theorem minedConf_ok {K : Keys} {W : Tx → Prop} {rank : TxId → Nat} {u0 : UT} {ν : OutPoint → Nat}
    {A : OutPoint → Prop} {Cf : TxId → Prop} (U : Univ2 K W rank u0 ν) (cur : State) (done : List TxIn)
    (st : State) (i : TxIn) (h : ConfInv K W ν A Cf cur done st) (hp : (minedConf K st i).panicked = false) :
    ConfInv K W ν A Cf cur (done ++ [i]) (minedConf K st i) := by
  have hb := h.post.ok.w.base
  unfold minedConf at hp ⊢
  split
  · rename_i hnone
    refine ⟨h.post, ?_⟩
    intro j hj
    rcases List.mem_append.mp hj with h1 | h1
    · exact h.free j h1
    · simp only [List.mem_singleton] at h1; rw [h1]; exact hnone
  · rename_i val hval
    split
    · rename_i r hr
      rw [hval] at hp
      simp only [hr] at hp
      have hin : st.pool.get? (K.bidx r.tx.id) = some r := by rw [hb.str.key _ _ hr]; exact hr
      obtain ⟨p1, p2⟩ := delWC_ok U 0 _ st r h.post.ok hin hp
      refine ⟨h.post.trans p1, ?_⟩
      intro j hj
      cases hx : (delWithChildren K 0 (st.pool.length + 1) st r).spent.get? (K.uidx j.prev j.vout) with
      | none => rfl
      | some x =>
        exfalso
        have hx0 := p1.subS _ x hx
        rcases List.mem_append.mp hj with h1 | h1
        · rw [h.free j h1] at hx0; cases hx0
        · simp only [List.mem_singleton] at h1
          rw [h1, hval] at hx0
          cases hx0
          obtain ⟨y, hy, _⟩ := p1.ok.w.base.str.sound _ _ hx
          rw [← hb.str.key _ _ hr, p2] at hy
          cases hy
    · rename_i hnone
      obtain ⟨x, hx, _⟩ := hb.str.sound _ _ hval
      rw [hnone] at hx; cases hx

theorem minedConf_env (K : Keys) (s : State) (i : TxIn) : Env s (minedConf K s i) := by
  unfold minedConf
  split
  · exact Env.refl s
  · split
    · exact delWithChildren_env K 0 _ _ _
    · exact ⟨rfl, rfl, id⟩

theorem ConfInv.frame {K : Keys} {W : Tx → Prop} {ν : OutPoint → Nat} {A : OutPoint → Prop} {Cf : TxId → Prop}
    {cur st st' : State} {done : List TxIn} (h : ConfInv K W ν A Cf cur done st) (f : Frame W st st') :
    ConfInv K W ν A Cf cur done st' :=
  ⟨⟨h.post.ok.frame f, by rw [f.core.1]; exact h.post.subP, by rw [f.core.2.1]; exact h.post.subS⟩,
   by rw [f.core.2.1]; exact h.free⟩

/-- the loop of txMined over the inputs of a transaction that was not in the pool -/
theorem conf_fold {K : Keys} {W : Tx → Prop} {rank : TxId → Nat} {u0 : UT} {ν : OutPoint → Nat}
    {A : OutPoint → Prop} {Cf : TxId → Prop} (U : Univ2 K W rank u0 ν) (b : Nat) (cur : State) :
    ∀ (ins done : List TxIn) (acc : Bool × State), Env cur acc.2 →
    (acc.2.panicked = false → ConfInv K W ν A Cf cur done acc.2) →
    Env cur (ins.foldl (txMinedStep K b false) acc).2 ∧
    ((ins.foldl (txMinedStep K b false) acc).2.panicked = false →
      ConfInv K W ν A Cf cur (done ++ ins) (ins.foldl (txMinedStep K b false) acc).2) := by
  intro ins
  induction ins with
  | nil => intro done acc e h; exact ⟨e, by simpa using h⟩
  | cons i r ih =>
    intro done acc e h
    simp only [List.foldl_cons]
    obtain ⟨f1, e1⟩ := txMinedStep_frame K W b false acc i
    simp only [Bool.false_eq_true, if_false] at f1 e1
    have e0 := minedConf_env K acc.2 i
    have := ih (done ++ [i]) (txMinedStep K b false acc i) ((e.trans e0).trans e1) (by
      intro hp
      have hp1 := alive_of_env e1 hp
      exact (minedConf_ok U cur done acc.2 i (h (alive_of_env e0 hp1)) hp1).frame f1)
    simpa using this

/-! ### txMined while a block is being processed (last transaction first) -/

def ADone (s : State) (D : List Tx) (o : OutPoint) : Prop := inU s o ∨ createdBy D o
def CfDone (u0 : UT) (s : State) (D : List Tx) (id : TxId) : Prop := Conf u0 s.undo id ∨ ∃ Y ∈ D, Y.id = id
def NoSpend (D : List Tx) (cur : State) : Prop :=
  ∀ b x, cur.pool.get? b = some x → ∀ i ∈ x.tx.ins, ¬ spentBy D (i.prev, i.vout)

/-- the invariant between two txMined calls: `s` = the state before the block, `D` = the block transactions already
    processed (a suffix of the block) -/
structure Mid (K : Keys) (W : Tx → Prop) (u0 : UT) (ν : OutPoint → Nat) (s : State) (D : List Tx) (cur : State) :
    Prop where
  ok : PoolOK K W ν (ADone s D) (CfDone u0 s D) cur
  ns : NoSpend D cur

theorem Mid.frame {K : Keys} {W : Tx → Prop} {u0 : UT} {ν : OutPoint → Nat} {s cur cur' : State} {D : List Tx}
    (h : Mid K W u0 ν s D cur) (f : Frame W cur cur') : Mid K W u0 ν s D cur' :=
  ⟨h.ok.frame f, by unfold NoSpend; rw [f.core.1]; exact h.ns⟩

theorem createdBy_cons (X : Tx) (D : List Tx) (o : OutPoint) :
    createdBy (X :: D) o ↔ (o.1 = X.id ∧ o.2 < X.outs.length) ∨ createdBy D o := by
  unfold createdBy
  constructor
  · rintro ⟨t, ht, h⟩
    rcases List.mem_cons.mp ht with e | e
    · rw [e] at h; exact Or.inl h
    · exact Or.inr ⟨t, e, h⟩
  · rintro (h | ⟨t, ht, h⟩)
    · exact ⟨X, List.mem_cons_self, h⟩
    · exact ⟨t, List.mem_cons_of_mem _ ht, h⟩

theorem pooled_tx_eq {K : Keys} {W : Tx → Prop} {rank : TxId → Nat} {u0 : UT} {ν : OutPoint → Nat}
    (U : Univ2 K W rank u0 ν) {cur : State} (hb : InvR K W cur) {X : Tx} (hX : W X) {r : T2S}
    (hr : cur.pool.get? (K.bidx X.id) = some r) : r.tx = X :=
  U.base.id_fun _ _ (hb.poolW _ _ hr) hX (U.base.bidx_inj _ _ (hb.poolW _ _ hr) hX (hb.str.key _ _ hr))

/-- two pooled records with an input naming the same outpoint are under the same key -/
theorem same_input_same_key {K : Keys} {W : Tx → Prop} {cur : State} (hb : InvR K W cur) {b1 b2 : Nat} {x1 x2 : T2S}
    (h1 : cur.pool.get? b1 = some x1) (h2 : cur.pool.get? b2 = some x2) {i j : TxIn} (hi : i ∈ x1.tx.ins)
    (hj : j ∈ x2.tx.ins) (e : (j.prev, j.vout) = (i.prev, i.vout)) : b1 = b2 := by
  have c1 := hb.str.complete b1 x1 h1 _ (List.mem_map.mpr ⟨i, hi, rfl⟩)
  have c2 := hb.str.complete b2 x2 h2 _ (List.mem_map.mpr ⟨j, hj, rfl⟩)
  simp only [Prod.mk.injEq] at e
  rw [e.1, e.2, c1] at c2
  exact Option.some.inj c2

theorem mined_in_fold (K : Keys) (W : Tx → Prop) (b : Nat) : ∀ (ins : List TxIn) (acc : Bool × State),
    Frame W acc.2 (ins.foldl (txMinedStep K b true) acc).2 ∧ Env acc.2 (ins.foldl (txMinedStep K b true) acc).2 := by
  intro ins
  induction ins with
  | nil => intro acc; exact ⟨Frame.refl W _, Env.refl _⟩
  | cons i r ih =>
    intro acc
    simp only [List.foldl_cons]
    obtain ⟨f1, e1⟩ := txMinedStep_frame K W b true acc i
    simp only [if_true] at f1 e1
    obtain ⟨f2, e2⟩ := ih (txMinedStep K b true acc i)
    exact ⟨f1.trans f2, e1.trans e2⟩

/-- the mined transaction was pooled: clear the flags of its children, remove it -/
theorem mined_pooled {K : Keys} {W : Tx → Prop} {rank : TxId → Nat} {u0 : UT} {ν : OutPoint → Nat}
    (U : Univ2 K W rank u0 ν) (s : State) (hc3 : ∀ o, inU s o → Conf u0 s.undo o.1) (D : List Tx) (X : Tx) (hX : W X)
    (cur : State) (h : Mid K W u0 ν s D cur) (r : T2S) (hr : cur.pool.get? (K.bidx X.id) = some r)
    (hp : (delOne K (minedFlags K cur r) r 0).panicked = false) :
    Mid K W u0 ν s (X :: D) (delOne K (minedFlags K cur r) r 0) := by
  have hb := h.ok.w.base
  have hrx : r.tx = X := pooled_tx_eq U hb hX hr
  have hin : cur.pool.get? (K.bidx r.tx.id) = some r := by rw [hrx]; exact hr
  have hAC : ∀ o, ADone s D o → CfDone u0 s D o.1 := by
    rintro o (ho | ⟨Y, hY, e, _⟩)
    · exact Or.inl (hc3 o ho)
    · exact Or.inr ⟨Y, hY, e.symm⟩
  have hp1 := alive_of_env (delOne_env K (minedFlags K cur r) r 0) hp
  have mi := minedFlags_ok U hAC r cur h.ok hin hp1
  obtain ⟨r', hr', etx⟩ := mi.self
  rw [delOne_congr K _ r r' 0 etx.symm] at hp ⊢
  have hin' : (minedFlags K cur r).pool.get? (K.bidx r'.tx.id) = some r' := by rw [etx]; exact hr'
  have hb1 := mi.ok.w.base
  have ok2 := delOne_ok (minedFlags K cur r) r' 0 mi.ok hin' (by
    intro b' x hx _ k i hk hf e
    obtain ⟨p, hp1', hp2, hp3⟩ := mi.ok.par b' x hx k i hk hf
    rw [e, hin'] at hp1'
    cases hp1'
    have := mi.prog b' x hx k i hk hf (by rw [← hp2, etx])
    rw [etx] at hp3
    omega)
  obtain ⟨s1, _⟩ := delOne_sub K (minedFlags K cur r) r' 0
  have gone : (delOne K (minedFlags K cur r) r' 0).pool.get? (K.bidx X.id) = none := by
    rw [(delOne_pool_spent K _ r' 0).1, etx, hrx]
    exact AList.get?_del_self _ _
  refine ⟨⟨ok2.w.mono ?_ ?_, ok2.par⟩, ?_⟩
  · intro _ _ _ _ i _ _ ha
    rcases ha with (ha | ha) | ⟨h1, h2⟩
    · exact Or.inl ha
    · exact Or.inr ((createdBy_cons X D _).mpr (Or.inr ha))
    · exact Or.inr ((createdBy_cons X D _).mpr (Or.inl ⟨by rw [h1, hrx], by rw [← hrx]; exact h2⟩))
  · intro b' x hx hc
    rcases hc with hc | ⟨Y, hY, e⟩
    · exact Or.inl hc
    · rcases List.mem_cons.mp hY with e2 | e2
      · exfalso
        have k := ok2.w.base.str.key b' x hx
        rw [← e, e2] at k
        rw [← k, gone] at hx
        cases hx
      · exact Or.inr ⟨Y, e2, e⟩
  · intro b' x hx i hi hsp
    obtain ⟨Y, hY, j, hj, e⟩ := hsp
    have hx1 := s1 b' x hx
    rcases List.mem_cons.mp hY with e2 | e2
    · have hj' : j ∈ r'.tx.ins := by rw [etx, hrx, ← e2]; exact hj
      have := same_input_same_key hb1 hx1 hr' hi hj' e
      rw [this, hrx, gone] at hx
      cases hx
    · obtain ⟨x0, hx0, e0⟩ := minedFlags_back K cur r b' x hx1
      exact h.ns b' x0 hx0 i (by rw [e0]; exact hi) ⟨Y, e2, j, hj, e⟩

theorem txMined_mid {K : Keys} {W : Tx → Prop} {rank : TxId → Nat} {u0 : UT} {ν : OutPoint → Nat}
    (U : Univ2 K W rank u0 ν) (s : State) (hc3 : ∀ o, inU s o → Conf u0 s.undo o.1) (D : List Tx) (X : Tx) (hX : W X)
    (cur : State) (h : Mid K W u0 ν s D cur) (hp : (txMined K cur X).panicked = false) :
    Mid K W u0 ν s (X :: D) (txMined K cur X) := by
  rw [txMined_eq] at hp ⊢
  unfold txMined' at hp ⊢
  dsimp only at hp ⊢
  cases hg : cur.pool.get? (K.bidx X.id) with
  | some r =>
    simp only [hg] at hp ⊢
    obtain ⟨f1, e1⟩ := mined_in_fold K W (K.bidx X.id) X.ins (false, delOne K (minedFlags K cur r) r 0)
    simp only [Bool.or_true, if_true] at hp ⊢
    exact (mined_pooled U s hc3 D X hX cur h r hg (alive_of_env e1 hp)).frame f1
  | none =>
    simp only [hg] at hp ⊢
    obtain ⟨e1, c1⟩ := conf_fold (A := ADone s D) (Cf := CfDone u0 s D) (ν := ν) (W := W) U (K.bidx X.id) cur X.ins []
      (false, cur) (Env.refl cur) (fun _ => ⟨DelPost.refl h.ok, by simp⟩)
    have fin : ∀ st : State, Frame W (X.ins.foldl (txMinedStep K (K.bidx X.id) false) (false, cur)).2 st →
        Env (X.ins.foldl (txMinedStep K (K.bidx X.id) false) (false, cur)).2 st → st.panicked = false →
        Mid K W u0 ν s (X :: D) st := by
      intro st f e hp'
      have ci := (c1 (alive_of_env e hp')).frame f
      simp only [List.nil_append] at ci
      refine ⟨⟨ci.post.ok.w.mono ?_ ?_, ci.post.ok.par⟩, ?_⟩
      · intro _ _ _ _ i _ _ ha
        rcases ha with ha | ha
        · exact Or.inl ha
        · exact Or.inr ((createdBy_cons X D _).mpr (Or.inr ha))
      · intro b' x hx hc
        rcases hc with hc | ⟨Y, hY, e⟩
        · exact Or.inl hc
        · rcases List.mem_cons.mp hY with e2 | e2
          · exfalso
            have k := ci.post.ok.w.base.str.key b' x hx
            rw [← e, e2] at k
            have := ci.post.subP b' x hx
            rw [← k, hg] at this
            cases this
          · exact Or.inr ⟨Y, e2, e⟩
      · intro b' x hx i hi hsp
        obtain ⟨Y, hY, j, hj, e⟩ := hsp
        rcases List.mem_cons.mp hY with e2 | e2
        · have c := ci.post.ok.w.base.str.complete b' x hx _ (List.mem_map.mpr ⟨i, hi, rfl⟩)
          simp only [Prod.mk.injEq] at e
          rw [← e.1, ← e.2, ci.free j (by rw [← e2]; exact hj)] at c
          cases c
        · exact h.ns b' x (ci.post.subP b' x hx) i hi ⟨Y, e2, j, hj, e⟩
    simp only [Bool.or_false] at hp ⊢
    split
    · rename_i hq
      simp only [hq, if_true] at hp
      exact fin _ (Frame.refl W _) (Env.refl _) hp
    · rename_i hq
      simp only [hq] at hp
      exact fin _ (rejDeleteByIdx_frame K W _ _) (rejDeleteByIdx_env K _ _) hp

/-! ### BlockMined -/

/-- C04 `connect_sound`, in the form the pool needs it: the chain side `s1` after connecting the block `txs` on
    `s` is consistent again; what was unspent and is not spent by the block stays, what the block creates and
    does not spend itself is unspent; the block's txids were not confirmed before and are pairwise different -/
structure ConnectSound (u0 : UT) (ν : OutPoint → Nat) (s s1 : State) (txs : List Tx) : Prop where
  chain : ChainOK u0 ν s1
  keep : ∀ o, inU s o → ¬ spentBy txs o → inU s1 o
  made : ∀ o, createdBy txs o → ¬ spentBy txs o → inU s1 o
  fresh : ∀ t ∈ txs, ¬ Conf u0 s.undo t.id
  ids : txs.Pairwise (fun a b => a.id ≠ b.id)

theorem connectUtxo_fields (s : State) (h : Nat) (txs : List Tx) :
    (connectUtxo s h txs).pool = s.pool ∧ (connectUtxo s h txs).spent = s.spent ∧
    (connectUtxo s h txs).weightTotal = s.weightTotal ∧ (connectUtxo s h txs).panicked = s.panicked ∧
    ∃ sc, (connectUtxo s h txs).undo = (txs, sc) :: s.undo := by
  unfold connectUtxo
  split
  rename_i u sc _
  exact ⟨rfl, rfl, rfl, rfl, sc, rfl⟩

theorem PoolOK.of_pool_eq {K : Keys} {W : Tx → Prop} {ν : OutPoint → Nat} {A : OutPoint → Prop} {Cf : TxId → Prop}
    {s s' : State} (h : PoolOK K W ν A Cf s) (hb : InvR K W s') (e1 : s'.pool = s.pool)
    (e3 : s'.weightTotal = s.weightTotal) : PoolOK K W ν A Cf s' :=
  ⟨⟨hb, by rw [e1]; exact h.w.loc, by rw [e1]; exact h.w.unf, by rw [e1]; exact h.w.ncf, by rw [e1, e3]; exact h.w.wt⟩,
   by unfold ParOK; rw [e1]; exact h.par⟩

theorem mid_fold {K : Keys} {W : Tx → Prop} {rank : TxId → Nat} {u0 : UT} {ν : OutPoint → Nat}
    (U : Univ2 K W rank u0 ν) (s : State) (hc3 : ∀ o, inU s o → Conf u0 s.undo o.1) :
    ∀ (l D : List Tx) (cur : State), (∀ X ∈ l, W X) →
    (cur.panicked = false → Mid K W u0 ν s D cur) →
    ((l.foldl (txMined K) cur).panicked = false → Mid K W u0 ν s (l.reverse ++ D) (l.foldl (txMined K) cur)) := by
  intro l
  induction l with
  | nil => intro D cur _ h; simpa using h
  | cons X r ih =>
    intro D cur hW h
    simp only [List.foldl_cons, List.reverse_cons, List.append_assoc, List.singleton_append]
    apply ih (X :: D) (txMined K cur X) (fun Y hY => hW Y (List.mem_cons_of_mem _ hY))
    intro hp
    exact txMined_mid U s hc3 D X (hW X List.mem_cons_self) cur (h (alive_of_env (txMined_env K cur X) hp)) hp

theorem blockMined_good {K : Keys} {W : Tx → Prop} {rank : TxId → Nat} {u0 : UT} {ν : OutPoint → Nat}
    (U : Univ2 K W rank u0 ν) (mf : Nat) (s : State) (hh : Nat) (txs : List Tx) (hW : ∀ t ∈ txs, W t)
    (hc : ChainOK u0 ν s) (g : PGoodP K W u0 ν s) (hI : InvR K W s)
    (cs : ConnectSound u0 ν s (connectUtxo s hh txs) txs) :
    PGoodP K W u0 ν (blockMined K mf (connectUtxo s hh txs) txs) := by
  obtain ⟨e1, _, e3, e4, sc, e5⟩ := connectUtxo_fields s hh txs
  have hb1 := connectUtxo_InvR s hh txs hI hW
  -- the invariant at the start of the txMined loop
  have start : (connectUtxo s hh txs).panicked = false → Mid K W u0 ν s [] (connectUtxo s hh txs) := by
    intro hp
    rw [e4] at hp
    have g0 := g hp
    have : PoolOK K W ν (ADone s []) (CfDone u0 s []) s :=
      ⟨g0.w.mono (fun _ _ _ _ _ _ _ ha => Or.inl ha) (fun _ _ _ hcf => by
        rcases hcf with hcf | ⟨Y, hY, _⟩
        · exact hcf
        · simp at hY), g0.par⟩
    exact ⟨this.of_pool_eq hb1 e1 e3, by intro b x _ i _ ⟨Y, hY, _⟩; simp at hY⟩
  -- from the end of the loop to the invariant against the new chain side
  have finish : ∀ cur, Env (connectUtxo s hh txs) cur → (cur.panicked = false → Mid K W u0 ν s txs cur) →
      PGoodP K W u0 ν cur := by
    intro cur e hm hp
    have m := hm hp
    apply PGood.of_env _ e
    refine ⟨m.ok.w.mono ?_ ?_, m.ok.par⟩
    · intro b x hx k i hk _ ha
      have hns := m.ns b x hx i (List.mem_of_getElem? hk)
      rcases ha with ha | ha
      · exact cs.keep _ ha hns
      · exact cs.made _ ha hns
    · intro b x _ hcf
      rcases hcf with hcf | ⟨e', he', Y, hY, hid⟩
      · exact Or.inl (Or.inl hcf)
      · rw [e5] at he'
        rcases List.mem_cons.mp he' with e2 | e2
        · rw [e2] at hY; exact Or.inr ⟨Y, hY, hid⟩
        · exact Or.inl (Or.inr ⟨e', e2, Y, hY, hid⟩)
  unfold blockMined
  split
  · rename_i hemp
    have : txs = [] := by simpa using hemp
    apply finish _ (Env.refl _)
    rw [this] at start ⊢
    exact start
  · dsimp only
    have e6 := foldl_env (txMined K) (fun s t => txMined_env K s t) txs.reverse (connectUtxo s hh txs)
    have g1 : PGoodP K W u0 ν (txs.reverse.foldl (txMined K) (connectUtxo s hh txs)) := by
      apply finish _ e6
      have hc3 : ∀ o, inU s o → Conf u0 s.undo o.1 := by
        intro o ho
        unfold inU at ho
        cases hx : s.utxo.get? o with
        | none => rw [hx] at ho; cases ho
        | some c => exact hc.c3 o c hx
      have := mid_fold U s hc3 txs.reverse [] (connectUtxo s hh txs)
        (fun X hX => hW X (List.mem_reverse.mp hX)) start
      simpa using this
    have c1 := cs.chain.of_env e6
    have gen : ∀ (l : List Tx) (cur : State), ChainOK u0 ν cur → PGoodP K W u0 ν cur →
        PGoodP K W u0 ν (l.foldl (fun s t => txAccepted K mf s (K.bidx t.id)) cur) := by
      intro l
      induction l with
      | nil => intro cur _ h; exact h
      | cons t r ih =>
        intro cur hcc h
        simp only [List.foldl_cons]
        exact ih _ (hcc.of_env (txAccepted_env K mf cur _)) (txAccepted_good U mf cur _ hcc h)
    exact gen txs _ c1 g1

/-! ### BlockUndone -/

/-- C06 `undo_commitTxs`, in the form the pool needs it: the chain side `s'` after disconnecting the block `txs`
    from `s` is consistent again; what the block created is gone, what was unspent and was not created by the
    block stays unspent -/
structure UndoCommitTxs (u0 : UT) (ν : OutPoint → Nat) (s s' : State) (txs : List Tx) : Prop where
  chain : ChainOK u0 ν s'
  gone : ∀ o, createdBy txs o → ¬ inU s' o
  keep : ∀ o, inU s o → ¬ createdBy txs o → inU s' o

def BRem (s' : State) (R : List Tx) (o : OutPoint) : Prop := inU s' o ∨ createdBy R o

theorem disconnectUtxo_fields (s s' : State) (txs : List Tx) (h : disconnectUtxo s = some (s', txs)) :
    s'.pool = s.pool ∧ s'.weightTotal = s.weightTotal ∧ s'.panicked = s.panicked ∧
    ∃ sc, s.undo = (txs, sc) :: s'.undo := by
  unfold disconnectUtxo at h
  split at h
  · cases h
  · rename_i txs0 sc rest hu
    simp only [Option.some.injEq, Prod.mk.injEq] at h
    obtain ⟨rfl, rfl⟩ := h
    exact ⟨rfl, rfl, rfl, sc, hu⟩

theorem undoneStep_ok {K : Keys} {W : Tx → Prop} {rank : TxId → Nat} {u0 : UT} {ν : OutPoint → Nat}
    (U : Univ2 K W rank u0 ν) (mf : Nat) (s' : State) (hc : ChainOK u0 ν s') (X : Tx) (R : List Tx) (hX : W X)
    (hnd : X.inOps.Nodup) (cur : State) (e : Env s' cur)
    (h : PoolOK K W ν (BRem s' (X :: R)) (Conf u0 s'.undo) cur)
    (hp : (undoneStep K mf cur X).panicked = false) :
    PoolOK K W ν (BRem s' R) (Conf u0 s'.undo) (undoneStep K mf cur X) := by
  unfold undoneStep at hp ⊢
  dsimp only at hp ⊢
  have e1 := rejDeleteByIdx_env K cur (K.bidx X.id)
  have h1 := h.frame (rejDeleteByIdx_frame K W cur (K.bidx X.id))
  have e2 := processTx_env K mf (rejDeleteByIdx K cur (K.bidx X.id)) X { trusted := true, unmined := true }
  have e12 := (e.trans e1)
  have hc1 := hc.of_env e12
  have h2 := processTx_ok U mf _ X { trusted := true, unmined := true } h1 hX
    (fun o ho => Or.inl (by unfold inU; rw [e12.utxo] at ho; exact ho))
    hc1.val (fun _ => hnd) (by
      have := conf_hcf U _ hc1 h1.w.base.undoW X hX
      rw [e12.undo] at this
      exact this)
  split
  · rename_i hres
    simp only [hres, if_true] at hp
    split
    · rename_i r hr
      simp only [hr] at hp
      have hrx : r.tx = X := pooled_tx_eq U h2.w.base hX hr
      apply unminedFlags_ok U r _ _ (by rw [hrx]; exact hr) hp
      refine ⟨h2.w.mono ?_ (fun _ _ _ hcf => hcf), h2.par⟩
      intro _ _ _ _ i _ _ ha
      rcases ha with ha | ha
      · exact Or.inl (Or.inl ha)
      · rcases (createdBy_cons X R _).mp ha with ⟨a1, a2⟩ | a
        · exact Or.inr ⟨by rw [hrx]; exact a1, Nat.zero_le _, by rw [hrx]; exact a2⟩
        · exact Or.inl (Or.inr a)
    · rename_i hnone
      simp [hnone] at hp
  · rename_i hres
    simp [hres] at hp

theorem blockUndone_good {K : Keys} {W : Tx → Prop} {rank : TxId → Nat} {u0 : UT} {ν : OutPoint → Nat}
    (U : Univ2 K W rank u0 ν) (mf : Nat) (s s' : State) (txs : List Tx) (hd : disconnectUtxo s = some (s', txs))
    (hc : ChainOK u0 ν s) (g : PGoodP K W u0 ν s) (hI : InvR K W s)
    (uc : UndoCommitTxs u0 ν s s' txs) : PGoodP K W u0 ν (blockUndone K mf s' txs) := by
  obtain ⟨e1, e3, e4, sc, e5⟩ := disconnectUtxo_fields s s' txs hd
  obtain ⟨hb1, hW⟩ := disconnectUtxo_InvR s s' txs hI hd
  have hnd : ∀ X ∈ txs, X.inOps.Nodup := fun X hX => hc.nd (txs, sc) (by rw [e5]; exact List.mem_cons_self) X hX
  have start : s'.panicked = false → PoolOK K W ν (BRem s' txs) (Conf u0 s'.undo) s' := by
    intro hp
    rw [e4] at hp
    have g0 := g hp
    have : PoolOK K W ν (BRem s' txs) (Conf u0 s'.undo) s := by
      refine ⟨g0.w.mono ?_ ?_, g0.par⟩
      · intro _ _ _ _ i _ _ ha
        by_cases hcr : createdBy txs (i.prev, i.vout)
        · exact Or.inr hcr
        · exact Or.inl (uc.keep _ ha hcr)
      · intro _ _ _ hcf
        rcases hcf with hcf | ⟨e', he', Y, hY, hid⟩
        · exact Or.inl hcf
        · exact Or.inr ⟨e', by rw [e5]; exact List.mem_cons_of_mem _ he', Y, hY, hid⟩
    exact this.of_pool_eq hb1 e1 e3
  have gen : ∀ (l : List Tx) (cur : State), (∀ X ∈ l, W X ∧ X.inOps.Nodup) → Env s' cur →
      (cur.panicked = false → PoolOK K W ν (BRem s' l) (Conf u0 s'.undo) cur) →
      Env s' (l.foldl (undoneStep K mf) cur) ∧
      ((l.foldl (undoneStep K mf) cur).panicked = false →
        PoolOK K W ν (BRem s' []) (Conf u0 s'.undo) (l.foldl (undoneStep K mf) cur)) := by
    intro l
    induction l with
    | nil => intro cur _ e h; exact ⟨e, h⟩
    | cons X r ih =>
      intro cur hl e h
      simp only [List.foldl_cons]
      have e2 := undoneStep_env K mf cur X
      apply ih _ (fun Y hY => hl Y (List.mem_cons_of_mem _ hY)) (e.trans e2)
      intro hp
      obtain ⟨hXW, hXn⟩ := hl X List.mem_cons_self
      exact undoneStep_ok U mf s' uc.chain X r hXW hXn cur e (h (alive_of_env e2 hp)) hp
  have fin : ∀ cur, Env s' cur → (cur.panicked = false → PoolOK K W ν (BRem s' []) (Conf u0 s'.undo) cur) →
      PGoodP K W u0 ν cur := by
    intro cur e h hp
    apply PGood.of_env _ e
    have := h hp
    refine ⟨this.w.mono ?_ (fun _ _ _ hcf => hcf), this.par⟩
    intro _ _ _ _ i _ _ ha
    rcases ha with ha | ⟨Y, hY, _⟩
    · exact ha
    · simp at hY
  rw [blockUndone_eq]
  split
  · rename_i hemp
    have : txs = [] := by simpa using hemp
    apply fin _ (Env.refl _)
    rw [this] at start
    exact start
  · obtain ⟨ge, gp⟩ := gen txs s' (fun X hX => ⟨hW X hX, hnd X hX⟩) (Env.refl _) start
    exact fin _ ge gp

theorem expire_good {K : Keys} {W : Tx → Prop} {rank : TxId → Nat} {u0 : UT} {ν : OutPoint → Nat}
    (U : Univ2 K W rank u0 ν) (old : List Nat) (s : State) (g : PGoodP K W u0 ν s) :
    PGoodP K W u0 ν (expire K s old) := by
  intro hp
  exact PGood.of_env (expire_ok U old s (fun hp0 => g hp0) hp) (expire_env K s old)

/-- BlockUndone followed by removeUnspendableCoinbaseSpends (4th `fix:` commit) -/
theorem blockUndoneAt_good {K : Keys} {W : Tx → Prop} {rank : TxId → Nat} {u0 : UT} {ν : OutPoint → Nat}
    (U : Univ2 K W rank u0 ν) (mf : Nat) (s s' : State) (uh : Nat) (txs : List Tx)
    (hd : disconnectUtxo s = some (s', txs))
    (hc : ChainOK u0 ν s) (g : PGoodP K W u0 ν s) (hI : InvR K W s)
    (uc : UndoCommitTxs u0 ν s s' txs) : PGoodP K W u0 ν (blockUndoneAt K mf s' uh txs) :=
  expire_good U _ _ (blockUndone_good U mf s s' txs hd hc g hI uc)

end GocoinV.Mempool
