/-
  Proofs.C15Bech32b — feeding the six checksum symbols back through the decoder's polymod returns the
  final constant (`feed_checksum`), plus the table facts about charset / charset_rev that the round trip
  needs. All table facts are `decide`d over the GENERATED tables.
-/
import GocoinV.Proofs.C15Bech32
namespace GocoinV.Bech32
open Gen.Bech32Consts

theorem and31_hi (x : UInt32) : hi30 (x &&& 31) := by
  unfold hi30
  rw [UInt32.toNat_and]
  exact Nat.and_lt_two_pow _ (by decide)

/-- the decoder's view of the six checksum symbols, unrolled -/
def feed6 (c P : UInt32) : UInt32 :=
  let d1 := polymodStep c ^^^ ((P >>> UInt32.ofNat (5 * 5)) &&& 31)
  let d2 := polymodStep d1 ^^^ ((P >>> UInt32.ofNat (5 * 4)) &&& 31)
  let d3 := polymodStep d2 ^^^ ((P >>> UInt32.ofNat (5 * 3)) &&& 31)
  let d4 := polymodStep d3 ^^^ ((P >>> UInt32.ofNat (5 * 2)) &&& 31)
  let d5 := polymodStep d4 ^^^ ((P >>> UInt32.ofNat (5 * 1)) &&& 31)
  polymodStep d5 ^^^ ((P >>> UInt32.ofNat (5 * 0)) &&& 31)

theorem xor_cancel_left (a b : UInt32) : a ^^^ (a ^^^ b) = b := by
  rw [← UInt32.xor_assoc]; simp

/-- for EVERY 30-bit `P`: feeding the six 5-bit groups of `P` to the decoder's polymod from state `c`
    ends in `six c ^^^ P` (GF(2)-linearity, step by step) -/
theorem feed6_xor_six (c P : UInt32) (hc : hi30 c) (hP : hi30 P) : feed6 c P ^^^ six c = P := by
  have e1 := ps_hi c
  have e2 := ps_hi (polymodStep c)
  have e3 := ps_hi (polymodStep (polymodStep c))
  have e4 := ps_hi (polymodStep (polymodStep (polymodStep c)))
  have e5 := ps_hi (polymodStep (polymodStep (polymodStep (polymodStep c))))
  -- Δ₀ = c ^^^ c = 0 = P >>> 30
  have h0 : c ^^^ c = P >>> UInt32.ofNat (5 * (5 + 1)) := by
    rw [UInt32.xor_self]
    apply UInt32.toNat_inj.1
    rw [shr_toNat _ _ (by omega)]
    have : P.toNat / 2 ^ (5 * (5 + 1)) = 0 := Nat.div_eq_of_lt hP
    simpa using this.symm
  have s1 := delta_step c c P 5 (by omega) hc hc hP h0
  have hd1 := xor_hi (ps_hi c) (and31_hi (P >>> UInt32.ofNat (5 * 5)))
  have s2 := delta_step _ _ P 4 (by omega) hd1 e1 hP s1
  have hd2 := xor_hi (ps_hi (polymodStep c ^^^ ((P >>> UInt32.ofNat (5 * 5)) &&& 31))) (and31_hi (P >>> UInt32.ofNat (5 * 4)))
  have s3 := delta_step _ _ P 3 (by omega) hd2 e2 hP s2
  have hd3 := xor_hi (ps_hi (polymodStep (polymodStep c ^^^ ((P >>> UInt32.ofNat (5 * 5)) &&& 31)) ^^^ ((P >>> UInt32.ofNat (5 * 4)) &&& 31))) (and31_hi (P >>> UInt32.ofNat (5 * 3)))
  have s4 := delta_step _ _ P 2 (by omega) hd3 e3 hP s3
  have hd4 := xor_hi (ps_hi (polymodStep (polymodStep (polymodStep c ^^^ ((P >>> UInt32.ofNat (5 * 5)) &&& 31)) ^^^ ((P >>> UInt32.ofNat (5 * 4)) &&& 31)) ^^^ ((P >>> UInt32.ofNat (5 * 3)) &&& 31))) (and31_hi (P >>> UInt32.ofNat (5 * 2)))
  have s5 := delta_step _ _ P 1 (by omega) hd4 e4 hP s4
  have hd5 := xor_hi (ps_hi (polymodStep (polymodStep (polymodStep (polymodStep c ^^^ ((P >>> UInt32.ofNat (5 * 5)) &&& 31)) ^^^ ((P >>> UInt32.ofNat (5 * 4)) &&& 31)) ^^^ ((P >>> UInt32.ofNat (5 * 3)) &&& 31)) ^^^ ((P >>> UInt32.ofNat (5 * 2)) &&& 31))) (and31_hi (P >>> UInt32.ofNat (5 * 1)))
  have s6 := delta_step _ _ P 0 (by omega) hd5 e5 hP s5
  have hP0 : P >>> UInt32.ofNat (5 * 0) = P := by
    apply UInt32.toNat_inj.1
    rw [shr_toNat _ _ (by omega)]; simp
  rw [hP0] at s6
  exact s6

/-- the heart of "create then verify": with `P = six c ^^^ K` the decoder ends in state `K` -/
theorem feed_checksum (c K : UInt32) (hc : hi30 c) (hK : hi30 K) :
    feed6 c (six c ^^^ K) = K := by
  have hP : hi30 (six c ^^^ K) := xor_hi (ps_hi _) hK
  have s6 := feed6_xor_six c (six c ^^^ K) hc hP
  have : feed6 c (six c ^^^ K) = (feed6 c (six c ^^^ K) ^^^ six c) ^^^ six c := by
    rw [UInt32.xor_assoc]; simp
  rw [this, s6, UInt32.xor_comm, xor_cancel_left]

/-- converse: if the decoder ends in `K` after the six groups of `P`, then `P` is the checksum the
    encoder computes -/
theorem checksum_unique (c K P : UInt32) (hc : hi30 c) (hP : hi30 P) (h : feed6 c P = K) :
    P = six c ^^^ K := by
  have s6 := feed6_xor_six c P hc hP
  rw [h] at s6
  rw [← s6, UInt32.xor_comm K]

/- table facts over the generated charset / charset_rev ------------------------------------------- -/

theorem forall_uint8 (P : UInt8 → Prop) (h : ∀ i : Fin 256, P (UInt8.ofNat i.val)) : ∀ v, P v := by
  intro v
  have := h ⟨v.toNat, v.toNat_lt⟩
  simpa using this

theorem charsetAt_ne_sep : ∀ v : UInt8, charsetAt v ≠ 49 := forall_uint8 _ (by decide +kernel)
theorem charsetAt_lo7 : ∀ v : UInt8, charsetAt v &&& 0x80 = 0 := forall_uint8 _ (by decide +kernel)
theorem charsetAt_not_upper : ∀ v : UInt8, isUpper (charsetAt v) = false := forall_uint8 _ (by decide +kernel)
theorem charsetRev_charsetAt : ∀ v : UInt8, v >>> 5 = 0 → charsetRev (charsetAt v) = v := forall_uint8 _ (by decide +kernel)
theorem shr5_toUInt32 : ∀ ch : UInt8, (ch >>> 5).toUInt32 = ch.toUInt32 >>> 5 := forall_uint8 _ (by decide +kernel)
theorem lt32_of_shr5 : ∀ v : UInt8, v >>> 5 = 0 → v.toNat ≤ 31 := forall_uint8 _ (by decide +kernel)
theorem final_ne : finalM ≠ final1 := by decide
theorem final1_hi : hi30 final1 := by unfold hi30; decide
theorem finalM_hi : hi30 finalM := by unfold hi30; decide

end GocoinV.Bech32
