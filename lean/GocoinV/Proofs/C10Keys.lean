/-
  Proofs.C10Keys — `mathKeys` (the arithmetic rendering of ParsePubkey/IsValid/SetXO/GetPublicKey) satisfies
  `KeyOps.Sound` when the field modulus is prime. Mathlib: ZMod, Fermat's little theorem.
-/
import Mathlib.FieldTheory.Finite.Basic
import GocoinV.Proofs.C10Script
open GocoinV GocoinV.ScriptCompress

namespace GocoinV.ScriptCompress

theorem powModGo_spec (m : Nat) : ∀ (f b e acc : Nat), e < 2 ^ f →
    ((powModGo m f b e acc : Nat) : ZMod m) = (acc : ZMod m) * (b : ZMod m) ^ e := by
  intro f
  induction f with
  | zero => intro b e acc he; have : e = 0 := by omega
            subst this; simp [powModGo]
  | succ f ih =>
    intro b e acc he
    rw [powModGo]
    split
    · rename_i h0; subst h0; simp
    · rename_i h0
      rw [ih _ _ _ (by omega)]
      have he2 : e = 2 * (e / 2) + e % 2 := by omega
      conv_rhs => rw [he2, pow_add, pow_mul]
      simp only [ZMod.natCast_mod, Nat.cast_mul, Nat.cast_ite]
      rcases Nat.mod_two_eq_zero_or_one e with h | h
      · simp [h]; ring
      · simp [h]; ring

theorem powMod_spec (b e m : Nat) (he : e < 2 ^ 256) :
    ((powMod b e m : Nat) : ZMod m) = (b : ZMod m) ^ e := by
  unfold powMod
  rw [powModGo_spec m 256 _ _ _ he]
  simp


theorem P_arith : (P + 1) / 4 < 2 ^ 256 ∧ P % 2 = 1 ∧ P < 2 ^ 256 := by decide

theorem sqrt_sq (hp : Fact (Nat.Prime P)) (y : ZMod P) :
    ((y ^ 2) ^ ((P + 1) / 4)) ^ 2 = y ^ 2 := by
  by_cases hy : y = 0
  · subst hy
    have : (P + 1) / 4 ≠ 0 := by decide
    simp [this]
  · have hf := ZMod.pow_card_sub_one_eq_one hy
    rw [← pow_mul, ← pow_mul]
    have e : 2 * ((P + 1) / 4 * 2) = (P - 1) + 2 := by decide
    rw [e, pow_add, hf, one_mul]


theorem powModGo_lt (m : Nat) (hm : 0 < m) : ∀ (f b e acc : Nat), acc < m → powModGo m f b e acc < m := by
  intro f
  induction f with
  | zero => intro b e acc h; simpa [powModGo]
  | succ f ih =>
    intro b e acc h
    rw [powModGo]; split
    · exact h
    · apply ih; split
      · exact Nat.mod_lt _ hm
      · exact h

theorem powMod_lt (b e m : Nat) (hm : 1 < m) : powMod b e m < m := by
  unfold powMod
  exact powModGo_lt m (by omega) _ _ _ _ (Nat.mod_lt _ (by omega))

/-- the recomputed Y: `c^((p+1)/4)`, negated when its parity is not the requested one -/
def ySel (c : Nat) (odd : Bool) : Nat :=
  let y0 := powMod c ((P + 1) / 4) P
  if (y0 % 2 == 1) != odd then (P - y0) % P else y0

theorem ySel_eq (hp : Nat.Prime P) (x y : Nat) (hy : y < P)
    (hcurve : (y * y) % P = (x * x * x + 7) % P) :
    ySel ((x * x * x + 7) % P) (y % 2 == 1) = y := by
  have : Fact (Nat.Prime P) := ⟨hp⟩
  have hP1 : 1 < P := hp.one_lt
  unfold ySel
  generalize hy0 : powMod ((x * x * x + 7) % P) ((P + 1) / 4) P = y0
  have hlt : y0 < P := by rw [← hy0]; exact powMod_lt _ _ _ hP1
  have hc : (((x * x * x + 7) % P : ℕ) : ZMod P) = (y : ZMod P) ^ 2 := by
    rw [← hcurve, ZMod.natCast_mod]; push_cast; ring
  have hz : (y0 : ZMod P) ^ 2 = (y : ZMod P) ^ 2 := by
    rw [← hy0, powMod_spec _ _ _ P_arith.1, hc]
    exact sqrt_sq ⟨hp⟩ _
  have hodd : P % 2 = 1 := P_arith.2.1
  rcases sq_eq_sq_iff_eq_or_eq_neg.mp hz with h | h
  · have : y0 = y := by
      have := (ZMod.natCast_eq_natCast_iff' y0 y P).mp h
      rwa [Nat.mod_eq_of_lt hlt, Nat.mod_eq_of_lt hy] at this
    subst this
    simp
  · have hsum : ((y0 + y : ℕ) : ZMod P) = 0 := by push_cast; rw [h]; ring
    have hdvd : P ∣ y0 + y := (ZMod.natCast_eq_zero_iff _ _).mp hsum
    obtain ⟨k, hk⟩ := hdvd
    have hk01 : k = 0 ∨ k = 1 := by
      rcases k with _ | _ | k
      · left; rfl
      · right; rfl
      · exfalso
        have : P * (k + 1 + 1) ≥ P * 2 := Nat.mul_le_mul_left _ (by omega)
        omega
    rcases hk01 with rfl | rfl
    · have h0 : y0 = 0 := by omega
      have h1 : y = 0 := by omega
      subst h0; subst h1; simp
    · have hs : y0 + y = P := by omega
      have hpar : (y0 % 2 == 1) != (y % 2 == 1) := by
        have : (y0 + y) % 2 = 1 := by rw [hs]; exact hodd
        rcases Nat.mod_two_eq_zero_or_one y0 with a | a <;> rcases Nat.mod_two_eq_zero_or_one y with b | b <;>
          simp [a, b] <;> omega
      simp only [hpar, ↓reduceIte]
      have : P - y0 = y := by omega
      rw [this, Nat.mod_eq_of_lt hy]


theorem beBytes_beVal (l : Bytes) : beBytes l.length (beVal l) = l := by
  unfold beBytes beVal
  have := leBytes_leVal l.reverse
  rw [List.length_reverse] at this
  rw [this, List.reverse_reverse]

theorem leVal_mod2 (b : UInt8) (t : Bytes) : leVal (b :: t) % 2 = b.toNat % 2 := by
  simp only [leVal]; omega

theorem last_split (l : Bytes) (n : Nat) (h : l.length = n + 1) : l = l.take n ++ [at' l n] := by
  have h1 := (List.take_append_drop n l).symm
  have h2 : l.drop n = [at' l n] := by
    rw [eq_of_len1 (l.drop n) (by simp; omega), at_drop]; simp
  rw [h2] at h1; exact h1

theorem beVal_mod2 (l : Bytes) (n : Nat) (h : l.length = n + 1) : beVal l % 2 = (at' l n).toNat % 2 := by
  unfold beVal
  rw [last_split l n h, List.reverse_append]
  simp only [List.reverse_cons, List.reverse_nil, List.nil_append, List.cons_append, leVal_mod2]
  congr 2
  simp [at', List.getD, h]

/-- `mathKeys` has the one property the round trip needs, provided the field modulus is prime. -/
theorem mathKeys_sound (hp : Nat.Prime P) : mathKeys.Sound := by
  intro pk hlen h0 hv
  simp only [mathKeys, mathValid65, Bool.and_eq_true, decide_eq_true_eq, beq_iff_eq] at hv
  obtain ⟨⟨hx, hy⟩, hcurve⟩ := hv
  -- shape of pk
  have hform : pk = [4] ++ ((pk.drop 1).take 32 ++ pk.drop 33) := by
    have ht : pk.take 1 = [4] := by
      rw [eq_of_len1 (pk.take 1) (by simp; omega), at_take _ _ _ (by omega), h0]
    have := split3 pk 1 32
    rw [ht] at this; exact this
  have hYall : (pk.drop 33).take 32 = pk.drop 33 := List.take_of_length_le (by simp; omega)
  rw [hYall] at hy hcurve
  have hXlen : ((pk.drop 1).take 32).length = 32 := by simp; omega
  have hYlen : (pk.drop 33).length = 31 + 1 := by simp; omega
  -- parity of Y = low bit of pk[64]
  have hpar : beVal (pk.drop 33) % 2 = (at' pk 64).toNat % 2 := by
    rw [beVal_mod2 _ 31 hYlen, at_drop]
  generalize hb : at' pk 64 = b at *
  have hband : (b &&& 1).toNat = b.toNat % 2 := by
    rw [UInt8.toNat_and]; exact Nat.and_one_is_mod _
  simp only [mathKeys, mathExpand33]
  have hvX : ((((4 ||| (b &&& 1)) - 2) :: (pk.drop 1).take 32).drop 1).take 32 = (pk.drop 1).take 32 := by
    simp only [List.drop_succ_cons, List.drop_zero]
    exact List.take_of_length_le (by omega)
  rw [hvX]
  have hsel := ySel_eq hp (beVal ((pk.drop 1).take 32)) (beVal (pk.drop 33)) hy hcurve
  unfold ySel at hsel
  have hodd : (at' (((4 ||| (b &&& 1)) - 2) :: (pk.drop 1).take 32) 0 == 0x03)
      = (beVal (pk.drop 33) % 2 == 1) := by
    simp only [at', List.getD, List.getElem?_cons_zero, Option.getD_some]
    rcases and_one_cases b with hb0 | hb1
    · rw [hb0] at hband ⊢
      have : beVal (pk.drop 33) % 2 = 0 := by rw [hpar, ← hband]; rfl
      rw [this]; decide
    · rw [hb1] at hband ⊢
      have : beVal (pk.drop 33) % 2 = 1 := by rw [hpar, ← hband]; rfl
      rw [this]; decide
  rw [hodd]
  simp only at hsel ⊢
  rw [hsel, Nat.mod_eq_of_lt hx]
  have e1 := beBytes_beVal ((pk.drop 1).take 32)
  have e2 := beBytes_beVal (pk.drop 33)
  rw [hXlen] at e1
  rw [hYlen] at e2
  rw [e1, e2]
  simpa using hform.symm

end GocoinV.ScriptCompress
