/-
  Proofs.C18State — lemmas for the two mechanisms of Model/NetParseState.lean.
-/
import GocoinV.Model.NetParseState
namespace GocoinV.NetParse.State
open GocoinV

theorem states_keep (kinds : List String) (hk : ∀ k ∈ kinds, keeps k = true) (exec : List Bool) :
    ∀ s ∈ states kinds exec true, s = true := by
  induction kinds generalizing exec with
  | nil => intro s hs; simpa [states] using hs
  | cons k ks ih =>
    have hks : ∀ k' ∈ ks, keeps k' = true := fun k' h => hk k' (List.mem_cons_of_mem _ h)
    cases exec with
    | nil =>
      intro s hs
      simp only [states, List.mem_cons] at hs
      rcases hs with h | h
      · exact h
      · exact ih hks [] s h
    | cons e es =>
      intro s hs
      simp only [states, List.mem_cons] at hs
      rcases hs with h | h
      · exact h
      · have : (if e then keeps k else true) = true := by
          cases e
          · rfl
          · simpa using hk k (List.mem_cons_self ..)
        rw [this] at h
        exact ih hks es s h

theorem final_keep (kinds : List String) (hk : ∀ k ∈ kinds, keeps k = true) (exec : List Bool) :
    final kinds exec true = true := by
  induction kinds generalizing exec with
  | nil => simp [final]
  | cons k ks ih =>
    have hks : ∀ k' ∈ ks, keeps k' = true := fun k' h => hk k' (List.mem_cons_of_mem _ h)
    cases exec with
    | nil => simpa [final] using ih hks []
    | cons e es =>
      have : (if e then keeps k else true) = true := by
        cases e
        · rfl
        · simpa using hk k (List.mem_cons_self ..)
      simp only [final, this]
      exact ih hks es

theorem runFn_keep (kinds : List String) (hk : ∀ k ∈ kinds, keeps k = true) (w : Bool) (exec : List Bool) :
    runFn kinds w exec true = some true := by
  have hall : (states kinds exec true).all id = true := by
    rw [List.all_eq_true]
    intro s hs
    simpa using states_keep kinds hk exec s hs
  simp [runFn, hall, final_keep kinds hk exec]

theorem assignsOf_keep (A : Assigns) (hA : ∀ a ∈ A, keeps a.2.2 = true) (fn field : String) :
    ∀ k ∈ assignsOf A fn field, keeps k = true := by
  intro k hk
  simp only [assignsOf, List.mem_map, List.mem_filter] at hk
  obtain ⟨a, ⟨ha, _⟩, rfl⟩ := hk
  exact hA a ha

/-- every assignment stores a map ⇒ no history of function runs meets a nil map, and the map is still there -/
theorem runHist_keep (A : Assigns) (W : Writes) (field : String) (hA : ∀ a ∈ A, keeps a.2.2 = true) (h : Hist) :
    runHist A W field h true = some true := by
  induction h with
  | nil => rfl
  | cons e h ih =>
    obtain ⟨fn, exec⟩ := e
    simp only [runHist, runFn_keep _ (assignsOf_keep A hA fn field)]
    exact ih

/-- a field that no function stores entries into cannot meet the nil-map panic, whatever state it is in -/
theorem runHist_unwritten (A : Assigns) (W : Writes) (field : String) (hw : written W field = false) (h : Hist) (cur : Bool) :
    (runHist A W field h cur).isSome = true := by
  induction h generalizing cur with
  | nil => rfl
  | cons e h ih =>
    obtain ⟨fn, exec⟩ := e
    have : writesTo W fn field = false := by
      unfold writesTo
      cases hc : W.contains (fn, field) with
      | false => rfl
      | true =>
        have hm : (fn, field) ∈ W := by simpa using hc
        have : written W field = true := by
          unfold written
          rw [List.any_eq_true]
          exact ⟨(fn, field), hm, by simp⟩
        rw [this] at hw
        cases hw
    simp only [runHist, runFn, this, Bool.false_and, Bool.false_eq_true, ↓reduceIte]
    exact ih _

theorem written_mem (W : Writes) (field : String) (hw : written W field = true) : ∃ w ∈ W, w.2 = field := by
  unfold written at hw
  rw [List.any_eq_true] at hw
  obtain ⟨w, hm, he⟩ := hw
  exact ⟨w, hm, by simpa using he⟩

/-! ### B -/

/-- a decoder that never reports more bytes than it was given -/
def Within (newTx : Bytes → Option Nat) : Prop := ∀ b n, newTx b = some n → n ≤ b.length

theorem txLoop_noPanic (newTx : Bytes → Option Nat) (hw : Within newTx) (k : Nat) (rest : Bytes) :
    ∀ s, txLoop newTx k rest ≠ .panic s := by
  induction k generalizing rest with
  | zero => intro s h; simp [txLoop] at h
  | succ k ih =>
    intro s h
    unfold txLoop at h
    cases hn : newTx rest with
    | none => simp [hn] at h
    | some n =>
      simp only [hn] at h
      by_cases h0 : (n == 0) = true
      · simp [h0] at h
      · have hle := hw rest n hn
        have : ¬ n > rest.length := by omega
        simp only [h0, this, Bool.false_eq_true, ↓reduceIte] at h
        exact ih _ s h

theorem buildTxList_pos (newTx : Bytes → Option Nat) (raw : Bytes) (n : Nat)
    (h : buildTxList true newTx raw = .ok n) : 1 ≤ n := by
  unfold buildTxList txCountHead at h
  cases hv : Wire.vlenWire (raw.drop 80) with
  | none => simp [hv] at h
  | some p =>
    obtain ⟨cnt, rest⟩ := p
    simp only [hv] at h
    by_cases hc : cnt = 0
    · simp [hc] at h
    · have : (true && cnt == 0) = false := by simp [hc]
      simp only [this] at h
      cases hl : txLoop newTx cnt rest with
      | done => simp [hl] at h; omega
      | failed => simp [hl] at h
      | panic s => simp [hl] at h

theorem buildTxList_noPanic (g : Bool) (newTx : Bytes → Option Nat) (hw : Within newTx) (raw : Bytes) :
    ∀ s, buildTxList g newTx raw ≠ .panic s := by
  intro s h
  unfold buildTxList at h
  cases ht : txCountHead g raw with
  | error e => simp [ht] at h
  | ok p =>
    obtain ⟨cnt, rest⟩ := p
    simp only [ht] at h
    cases hl : txLoop newTx cnt rest with
    | done => simp [hl] at h
    | failed => simp [hl] at h
    | panic s' => exact txLoop_noPanic newTx hw cnt rest s' hl

theorem postCheck_total (newTx : Bytes → Option Nat) (hw : Within newTx) (trusted : Bool) (raw : Bytes) (cbOk merkleOk : Bool) :
    (postCheck true newTx trusted raw cbOk merkleOk).isPanic = false := by
  unfold postCheck
  split
  · rfl
  · cases hb : buildTxList true newTx raw with
    | error e => rfl
    | panic s => exact absurd hb (buildTxList_noPanic true newTx hw raw s)
    | ok n =>
      have hn := buildTxList_pos newTx raw n hb
      simp only []
      split
      · rfl
      · have : merkleLast n = some () := by
          unfold merkleLast
          have : (n == 0) = false := by simp; omega
          simp [this]
        simp only [this]
        split <;> rfl

end GocoinV.NetParse.State
