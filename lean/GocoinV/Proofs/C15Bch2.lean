/-
  Proofs.C15Bch2 — from the syndrome lemma (`pf_detect2`, Proofs/C15Bch.lean) to strings: two strings
  accepted by `bech32.Decode` with the same human-readable part and the same checksum variant, of equal
  length, that differ (case-insensitively) in at most 2 characters, are equal up to case.
-/
import GocoinV.Proofs.C15Bch
namespace GocoinV.Bech32
open Gen.Bech32Consts Addr

/-- number of positions at which two strings differ (positions beyond the shorter one are ignored;
    all uses below are on strings of equal length) -/
def hamming (a b : Bytes) : Nat := ((List.zip a b).filter (fun p => p.1 != p.2)).length

theorem hamming_cons (x y : UInt8) (a b : Bytes) :
    hamming (x :: a) (y :: b) = (if x = y then 0 else 1) + hamming a b := by
  unfold hamming
  simp only [List.zip_cons_cons, List.filter_cons]
  by_cases hxy : x = y
  · simp [hxy]
  · simp [hxy]; omega

theorem hamming_prefix (p a b : Bytes) : hamming (p ++ a) (p ++ b) = hamming a b := by
  induction p with
  | nil => rfl
  | cons x t ih => simp only [List.cons_append, hamming_cons, ↓reduceIte, ih, Nat.zero_add]

theorem hamming_map_ge (f : UInt8 → UInt8) (a : Bytes) : ∀ b : Bytes,
    (∀ x ∈ a, ∀ y ∈ b, f x = f y → x = y) → hamming a b ≤ hamming (a.map f) (b.map f) := by
  induction a with
  | nil => intro b _; simp [hamming]
  | cons x t ih =>
    intro b hinj
    cases b with
    | nil => simp [hamming]
    | cons y t' =>
      simp only [List.map_cons, hamming_cons]
      have := ih t' (fun p hp q hq => hinj p (by simp [hp]) q (by simp [hq]))
      by_cases hxy : x = y
      · simp [hxy]; exact this
      · have hf : f x ≠ f y := fun h => hxy (hinj x (by simp) y (by simp) h)
        simp [hxy, hf]; exact this

theorem weight_cons (x : UInt8) (t : Bytes) : weight (x :: t) = (if x = 0 then 0 else 1) + weight t := by
  unfold weight
  by_cases hx : x = 0
  · simp [hx]
  · simp [hx]; omega

theorem weight_xor (a : Bytes) : ∀ b : Bytes, weight (List.zipWith (· ^^^ ·) a b) = hamming a b := by
  induction a with
  | nil => intro b; simp [weight, hamming]
  | cons x t ih =>
    intro b
    cases b with
    | nil => simp [weight, hamming]
    | cons y t' =>
      simp only [List.zipWith_cons_cons, weight_cons, hamming_cons, ih t', UInt8.xor_eq_zero_iff]

theorem eq_of_xor_zero (a : Bytes) : ∀ b : Bytes, a.length = b.length →
    (∀ z ∈ List.zipWith (· ^^^ ·) a b, z = 0) → a = b := by
  induction a with
  | nil => intro b hl _; cases b with
    | nil => rfl
    | cons _ _ => simp at hl
  | cons x t ih =>
    intro b hl hz
    cases b with
    | nil => simp at hl
    | cons y t' =>
      simp only [List.zipWith_cons_cons, List.mem_cons, forall_eq_or_imp, UInt8.xor_eq_zero_iff] at hz
      rw [hz.1, ih t' (by simpa using hl) hz.2]

theorem xor_le31 (a b : UInt8) (ha : a.toNat ≤ 31) (hb : b.toNat ≤ 31) : (a ^^^ b).toNat ≤ 31 := by
  rw [UInt8.toNat_xor]
  have := Nat.xor_lt_two_pow (n := 5) (by omega : a.toNat < 2 ^ 5) (by omega : b.toNat < 2 ^ 5)
  omega

theorem zip_sym (a : Bytes) : ∀ b : Bytes, (∀ x ∈ a, x.toNat ≤ 31) → (∀ y ∈ b, y.toNat ≤ 31) →
    ∀ z ∈ List.zipWith (· ^^^ ·) a b, z.toNat ≤ 31 := by
  induction a with
  | nil => intro b _ _ z hz; simp at hz
  | cons x t ih =>
    intro b ha hb z hz
    cases b with
    | nil => simp at hz
    | cons y t' =>
      simp only [List.zipWith_cons_cons, List.mem_cons] at hz
      rcases hz with rfl | hz
      · exact xor_le31 x y (ha x (by simp)) (hb y (by simp))
      · exact ih t' (fun p hp => ha p (by simp [hp])) (fun q hq => hb q (by simp [hq])) z hz

theorem finalConstant_hi (m : Bool) : hi30 (finalConstant m) := by
  cases m
  · exact final1_hi
  · exact finalM_hi

theorem checksumSyms_le31 (P : UInt32) : ∀ x ∈ checksumSyms P, x.toNat ≤ 31 := by
  rw [checksumSyms_eq]
  intro x hx
  simp only [List.mem_cons, List.not_mem_nil, or_false] at hx
  rcases hx with rfl | rfl | rfl | rfl | rfl | rfl <;> exact lt32_of_shr5 _ (sym_props _).1

/-- what `Encode` outputs, as a code word: hrp ‖ '1' ‖ charset image of a symbol word `w` of |data|+6
    symbols whose polymod fold from the hrp state is the final constant of the variant -/
theorem encode_word {hrp d s : Bytes} {m : Bool} (h : encode hrp d m = some s) :
    ∃ h1 w, hrpHigh? hrp 1 = some h1 ∧ s = hrp ++ [49] ++ w.map charsetAt ∧ w.length = d.length + 6 ∧
      hrp.length + 7 + d.length ≤ 90 ∧ (∀ x ∈ w, x.toNat ≤ 31) ∧
      pf (hrpLow hrp (polymodStep h1)) w = finalConstant m := by
  obtain ⟨h1, c1, hh, hcap, hfold, hs⟩ := encode_some h
  have hc0 : hi30 (hrpLow hrp (polymodStep h1)) := hrpLow_hi hrp _ (ps_hi _)
  have hc1 : hi30 c1 := dataFold_hi d _ _ hc0 hfold
  refine ⟨h1, d ++ checksumSyms (six c1 ^^^ finalConstant m), hh, ?_, ?_, hcap, ?_, ?_⟩
  · rw [hs]; simp [List.map_append, List.append_assoc]
  · rw [checksumSyms_eq]; simp
  · intro x hx
    rcases List.mem_append.mp hx with hx | hx
    · exact dataFold_lt d _ _ hfold x hx
    · exact checksumSyms_le31 _ x hx
  · rw [pf_append, pf_of_dataFold d _ _ hfold, pf_checksum]
    exact feed_checksum c1 _ hc1 (finalConstant_hi m)

theorem charsetAt_inj (x y : UInt8) (hx : x.toNat ≤ 31) (hy : y.toNat ≤ 31) (h : charsetAt x = charsetAt y) : x = y := by
  have a := charsetRev_charsetAt x (shr5_of_le31 x hx)
  have b := charsetRev_charsetAt y (shr5_of_le31 y hy)
  rw [← a, ← b, h]

/-- generic step from a syndrome lemma for weight ≤ n to strings: two accepted strings (same hrp, same variant,
    same length) at case-insensitive Hamming distance ≤ n are equal up to case -/
theorem detect_gen (n : Nat)
    (H : ∀ e : Bytes, (∀ x ∈ e, x.toNat ≤ 31) → e.length ≤ 89 → weight e ≤ n → pf 0 e = 0 →
      e = List.replicate e.length 0)
    (s s' hrp d d' : Bytes) (m : Bool)
    (h : decode s = some (hrp, d, m)) (h' : decode s' = some (hrp, d', m))
    (hlen : s.length = s'.length) (hd : hamming (s.map asciiLower) (s'.map asciiLower) ≤ n) :
    s.map asciiLower = s'.map asciiLower := by
  obtain ⟨h1, w, hh1, hs, hwl, hcap, hsym, hpf⟩ := encode_word (encode_decode s hrp d m h)
  obtain ⟨h1', w', hh1', hs', hwl', hcap', hsym', hpf'⟩ := encode_word (encode_decode s' hrp d' m h')
  rw [hh1] at hh1'
  obtain rfl := Option.some.inj hh1'
  have hww : w.length = w'.length := by
    have a := congrArg List.length hs
    have b := congrArg List.length hs'
    simp only [List.length_map, List.length_append, List.length_cons, List.length_nil] at a b
    omega
  rw [hs, hs', hamming_prefix] at hd
  have hdw : hamming w w' ≤ n :=
    Nat.le_trans (hamming_map_ge charsetAt w w' (fun x hx y hy => charsetAt_inj x y (hsym x hx) (hsym' y hy))) hd
  have hc0 : hi30 (hrpLow hrp (polymodStep h1)) := hrpLow_hi hrp _ (ps_hi _)
  have hsyn : pf 0 (List.zipWith (· ^^^ ·) w w') = 0 := by
    have := pf_xor w w' _ _ hc0 hc0 hww
    rw [hpf, hpf', UInt32.xor_self, UInt32.xor_self] at this
    exact this.symm
  have hz := H _ (zip_sym w w' hsym hsym') (by simp; omega) (by rw [weight_xor]; exact hdw) hsyn
  have hall : ∀ z ∈ List.zipWith (· ^^^ ·) w w', z = 0 := by
    intro z hz'; rw [hz] at hz'; exact List.eq_of_mem_replicate hz'
  rw [hs, hs', eq_of_xor_zero w w' hww hall]

/-- distance ≤ 2 -/
theorem detect_le2 (s s' hrp d d' : Bytes) (m : Bool)
    (h : decode s = some (hrp, d, m)) (h' : decode s' = some (hrp, d', m))
    (hlen : s.length = s'.length) (hd : hamming (s.map asciiLower) (s'.map asciiLower) ≤ 2) :
    s.map asciiLower = s'.map asciiLower :=
  detect_gen 2 pf_detect2 s s' hrp d d' m h h' hlen hd

end GocoinV.Bech32
