/-
  Proofs.C10Prime — the field modulus of the C10 model (`ScriptCompress.P`) is prime: C08's Pratt certificate
  (`GocoinV.C08.secp_p_prime`, Proofs/C08_Primes.lean — imported, not copied), hence `mathKeys.Sound` without hypothesis.
-/
import GocoinV.Proofs.C08_Primes
import GocoinV.Proofs.C10Keys
namespace GocoinV.ScriptCompress

theorem P_prime : Nat.Prime P := by
  unfold P
  exact GocoinV.C08.secp_p_prime

theorem mathKeys_sound_holds : mathKeys.Sound := mathKeys_sound P_prime

end GocoinV.ScriptCompress
