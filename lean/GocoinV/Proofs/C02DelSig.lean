/-
  Proofs.C02DelSig — signature removal: gocoin's `delSig` (Model.SigHash.delSig, the code after fix
  acaf95d6: canonical push PUSHDATA1/2/4) equals the specification's FindAndDelete on every script
  that decodes into operations, for every signature length.
-/
import GocoinV.Proofs.C02Legacy
set_option linter.unusedSimpArgs false
namespace GocoinV.SigHash
open GocoinV.Spec.SigHash (nextOp parseOps)

/-- the pattern `delSig` searches for is the canonical push of the signature (`CScript() << sig`) -/
theorem sigPush_eq_pushOf (sig : Bytes) : sigPushPrefix sig.length ++ sig = Spec.SigHash.pushOf sig := by
  unfold sigPushPrefix Spec.SigHash.pushOf
  split
  · rfl
  · split
    · rfl
    · split <;> rfl

/-- on a script that decodes, the loop of `delSig` drops exactly the operations equal to the pattern and
    counts them -/
theorem delSigAux_eq (pat : Bytes) : ∀ (fuel : Nat) (s : Bytes) (ops : List Bytes), parseOps fuel s = some ops →
    ∀ fuel', s.length ≤ fuel' →
      delSigAux pat fuel' s = ((ops.filter (· ≠ pat)).flatten, (ops.filter (· = pat)).length) := by
  intro fuel
  induction fuel with
  | zero =>
    intro s ops h fuel' _
    cases s with
    | nil =>
      simp only [parseOps, Option.some.injEq] at h; subst h
      cases fuel' <;> simp [delSigAux]
    | cons b t => simp [parseOps] at h
  | succ f ih =>
    intro s ops h fuel' hf
    cases s with
    | nil =>
      simp only [parseOps, Option.some.injEq] at h; subst h
      cases fuel' <;> simp [delSigAux]
    | cons b t =>
      simp only [parseOps] at h
      cases hn : nextOp (b :: t) with
      | none => simp [hn] at h
      | some pr =>
        obtain ⟨op, rest⟩ := pr
        simp only [hn] at h
        cases hp : parseOps f rest with
        | none => simp [hp] at h
        | some ops' =>
          simp only [hp, Option.some.injEq] at h
          subst h
          obtain ⟨opc, n, hg, hop, hrest, hn1, _⟩ := getOpcode_of_nextOp (b :: t) op rest hn
          cases fuel' with
          | zero => simp at hf
          | succ f' =>
            have hlen : rest.length ≤ f' := by
              rw [hrest, List.length_drop]; simp only [List.length_cons] at hf ⊢; omega
            have ih' := ih rest ops' hp f' hlen
            simp only [delSigAux, List.isEmpty_cons, Bool.false_eq_true, ↓reduceIte, hg]
            rw [← hrest, ih', ← hop]
            by_cases hc : op = pat
            · simp [hc]
            · simp [hc]

theorem delSig_eq (wh sig : Bytes) (ops : List Bytes) (h : Spec.SigHash.parse wh = some ops) :
    delSig wh sig = ((ops.filter (· ≠ Spec.SigHash.pushOf sig)).flatten, (ops.filter (· = Spec.SigHash.pushOf sig)).length) := by
  unfold delSig
  rw [sigPush_eq_pushOf]
  exact delSigAux_eq _ wh.length wh ops h wh.length (Nat.le_refl _)

end GocoinV.SigHash
