/-
  Proofs.C06CommitNode — the block of a KNOWN HEADER arrives (`commitNode`: the client's HandleNetBlock / LocalAcceptBlock =
  HasAllParents + CommitBlock(bl, node) on a node that AcceptHeader created earlier and that has no data yet, possibly with
  header-only descendants) keeps the whole invariant and never panics: connected on the tip; refused on the tip (the block
  is unlinked, its header-only descendants become unreachable: `sweep` moves them to `limbo`); stored aside; reorganised to,
  completely or with a failure and the fall-back.
-/
import GocoinV.Proofs.C06Deliver
import GocoinV.Proofs.C06HasAll
namespace GocoinV.ChainTree
open GocoinV.UtxoOps

/-- the chain after `cur.TxCount = …` of CommitBlock on the existing node of `b` -/
def filled (c : Chain) (b : Block) : Chain := modNode c b.id (fun n => { n with txCount := b.txs.length })

theorem getNode_filled {c : Chain} {b : Block} {n : Node} (hn : getNode c b.id = some n) (x : Nat) :
    getNode (filled c b) x = if x = b.id then some { n with txCount := b.txs.length } else getNode c x := by
  unfold filled
  rw [getNode_modNode_eq c b.id x (fun n => { n with txCount := b.txs.length }) (fun _ => rfl)]
  by_cases hx : x = b.id
  · subst hx
    have hid := getNode_id hn
    simp only [hn, Option.map_some, hid, beq_self_eq_true, if_true]
  · rw [if_neg hx]
    cases hg : getNode c x with
    | none => rfl
    | some m =>
      have hid := getNode_id hg
      have : (m.id == b.id) = false := by rw [hid]; simpa using hx
      simp only [Option.map_some, this, Bool.false_eq_true, if_false]

section Filled
variable {U : List Block} {c c' : Chain} {b : Block} {n : Node}

/-- `c'` shows the tree of `c` with the node `n` of `b` given its data -/
def ShowsFilled (c c' : Chain) (b : Block) (n : Node) : Prop :=
  c'.root = c.root ∧ ∀ x, getNode c' x = if x = b.id then some { n with txCount := b.txs.length } else getNode c x

theorem fl_old (hn : getNode c b.id = some n) (sf : ShowsFilled c c' b n) :
    ∀ x m, getNode c x = some m → ∃ m', getNode c' x = some m' ∧ m'.parent = m.parent ∧ m'.height = m.height ∧
      m'.bits = m.bits ∧ (x ≠ b.id → m'.txCount = m.txCount) := by
  intro x m h
  rw [sf.2]
  by_cases hx : x = b.id
  · rw [if_pos hx]; rw [hx, hn] at h; cases h
    exact ⟨_, rfl, rfl, rfl, rfl, fun e => absurd hx e⟩
  · rw [if_neg hx]; exact ⟨m, h, rfl, rfl, rfl, fun _ => rfl⟩

theorem fl_back (hn : getNode c b.id = some n) (sf : ShowsFilled c c' b n) :
    ∀ x m', getNode c' x = some m' → ∃ m, getNode c x = some m ∧
      ((x = b.id ∧ m'.txCount = b.txs.length) ∨ (x ≠ b.id ∧ m'.txCount = m.txCount)) := by
  intro x m' h
  rw [sf.2] at h
  by_cases hx : x = b.id
  · rw [if_pos hx] at h; cases h
    exact ⟨n, by rw [hx]; exact hn, Or.inl ⟨hx, rfl⟩⟩
  · rw [if_neg hx] at h; exact ⟨m', h, Or.inr ⟨hx, rfl⟩⟩

theorem fl_new (sf : ShowsFilled c c' b n) : getNode c' b.id = some { n with txCount := b.txs.length } := by
  rw [sf.2, if_pos rfl]

theorem fl_W (w : TreeWF U c) (hn : getNode c b.id = some n) (sf : ShowsFilled c c' b n) {x : Nat} {m m' : Node}
    (hm : getNode c x = some m) (hm' : getNode c' x = some m') : W c' m' = W c m := by
  unfold W
  rw [workOf_congr w sf.1 (fun x m h => by
    obtain ⟨m', a1, a2, a3, a4, _⟩ := fl_old hn sf x m h
    exact ⟨m', a1, a2, a3, a4⟩) m.height x m m' hm hm' rfl]

theorem fl_nodesFrom (hn : getNode c b.id = some n) (sf : ShowsFilled c c' b n) : NodesFrom c b c' := by
  intro x m' h
  obtain ⟨m, g1, g2⟩ := fl_back hn sf x m' h
  rcases g2 with ⟨e1, e2⟩ | ⟨_, e2⟩
  · exact Or.inl ⟨e1, e2⟩
  · exact Or.inr ⟨m, g1, e2⟩

/-- the block that got its data did not take the lead: the old tip is still a maximum-work node -/
theorem maxW_keepF (w : TreeWF U c) (hn : getNode c b.id = some n) (sf : ShowsFilled c c' b n) (hm : MaxW c)
    (htip : c'.tip = c.tip)
    (hle : ∀ t', getNode c' c.tip = some t' → W c' { n with txCount := b.txs.length } ≤ W c' t') : MaxW c' := by
  obtain ⟨t, ht, hmax⟩ := hm
  obtain ⟨t', ht', _⟩ := fl_old hn sf _ _ ht
  refine ⟨t', by rw [htip]; exact ht', ?_⟩
  intro x m' hm' hd'
  by_cases hx : x = b.id
  · rw [hx, fl_new sf] at hm'; cases hm'; exact hle t' ht'
  · obtain ⟨m, hmm, hcase⟩ := fl_back hn sf x m' hm'
    rcases hcase with ⟨e, _⟩ | ⟨_, htx⟩
    · exact absurd e hx
    rw [fl_W w hn sf hmm hm', fl_W w hn sf ht ht']
    exact hmax x m hmm (by unfold HasData at hd' ⊢; rw [← sf.1, ← htx]; exact hd')

/-- the block that got its data became the tip and has at least the work of the old tip -/
theorem maxW_newF (w : TreeWF U c) (hn : getNode c b.id = some n) (sf : ShowsFilled c c' b n) (hm : MaxW c)
    (htip : c'.tip = b.id)
    (hge : ∀ t', getNode c' c.tip = some t' → W c' t' ≤ W c' { n with txCount := b.txs.length }) : MaxW c' := by
  obtain ⟨t, ht, hmax⟩ := hm
  obtain ⟨t', ht', _⟩ := fl_old hn sf _ _ ht
  refine ⟨_, by rw [htip]; exact fl_new sf, ?_⟩
  intro x m' hm' hd'
  by_cases hx : x = b.id
  · rw [hx, fl_new sf] at hm'; cases hm'; exact le_refl _
  · obtain ⟨m, hmm, hcase⟩ := fl_back hn sf x m' hm'
    rcases hcase with ⟨e, _⟩ | ⟨_, htx⟩
    · exact absurd e hx
    have h1 := hmax x m hmm (by unfold HasData at hd' ⊢; rw [← sf.1, ← htx]; exact hd')
    rw [← fl_W w hn sf hmm hm', ← fl_W w hn sf ht ht'] at h1
    exact le_trans h1 (hge t' ht')

end Filled

-- ------------------------------------------------------------------------------------------ equations of CommitBlock on an existing node

/-- the chain after the block of an existing node was stored aside (not on the tip) -/
def storedF (c : Chain) (b : Block) : Chain :=
  { filled c b with store := aset b.id { txs := b.txs, trusted := false } c.store }

theorem commitBlock_sideF (c : Chain) (b : Block) (h : Nat) (hside : c.tip ≠ b.parent)
    (hns : alookup b.id c.store = none) :
    commitBlock c b h =
      match getNode (storedF c b) b.id, getNode (storedF c b) c.tip with
      | some cur, some tipN =>
        if morePOW (storedF c b) cur tipN then
          match moveTo (fuelOf (storedF c b)) (storedF c b) b.id with
          | .error s => (storedF c b, .panic s)
          | .ok c2 => (c2, if c2.tip == b.id then .ok else .moveFailed)
        else (storedF c b, .ok)
      | _, _ => (storedF c b, .panic "panic:nil-node") := by
  have h1 : (c.tip == b.parent) = false := by simpa using hside
  unfold commitBlock
  have e1 : (modNode c b.id (fun n => { n with txCount := b.txs.length })).tip = c.tip := rfl
  have e2 : (modNode c b.id (fun n => { n with txCount := b.txs.length })).store = c.store := rfl
  simp only [e1, h1, Bool.false_eq_true, if_false, e2, hns, Option.isSome_none]
  rfl

/-- the block of a node without data, in a well-formed tree: the node's parent field is the block's, the block is not
    stored, the node is not the root and not on the active branch -/
theorem hdrNode_facts {U : List Block} {c : Chain} (w : TreeWF U c) (hU : BlockTree c.root U) {b : Block} (hbU : b ∈ U)
    {n : Node} (hn : getNode c b.id = some n) (h0 : n.txCount = 0) (hbr : b.id ≠ c.root) :
    n.parent = b.parent ∧ n.bits = b.bits ∧ alookup b.id c.store = none := by
  obtain ⟨b', hb', h1, h2, h3, _⟩ := w.blk b.id n hn hbr
  have : b' = b := hU.ids b' hb' b hbU h1
  subst this
  exact ⟨h2.symm, h3.symm, w.hdr b'.id n hn h0⟩

/-- **the block of a known header on a side branch**: stored aside, or — with more work than the tip — reorganised to -/
theorem commitAt_side {U : List Block} {c : Chain} (w : TreeWF U c) {path : List PE} (hpo : PathOKH c 0 path)
    (hx : Ext c path) (hm : MaxW c) (hU : BlockTree c.root U) (b : Block) (hbU : b ∈ U) (n : Node)
    (hn : getNode c b.id = some n) (h0 : n.txCount = 0) (hbr : b.id ≠ c.root)
    (hpd : ∃ p, getNode c n.parent = some p ∧ HasData c n.parent p)
    (hside : c.tip ≠ b.parent) (h : Nat) :
    Inv U (commitBlock c b h).1 ∧ (commitBlock c b h).1.root = c.root ∧
    (∀ s, (commitBlock c b h).2 ≠ Outcome.panic s) ∧
    ((commitBlock c b h).1.tip = c.tip ∨ (commitBlock c b h).1.tip = b.id ∨ (commitBlock c b h).2 = Outcome.moveFailed) ∧
    DeliveryComplete U c b (commitBlock c b h) ∧ NodesFrom c b (commitBlock c b h).1 ∧
    (∃ e, (commitBlock c b h).2 = Outcome.rejected e) = False ∧
    (∀ n', getNode (commitBlock c b h).1 b.id = some n' → n'.txCount = b.txs.length) := by
  obtain ⟨hnp, _, hns⟩ := hdrNode_facts w hU hbU hn h0 hbr
  have hlen : b.txs.length ≠ 0 := fun h0 => hU.txs b hbU (List.eq_nil_of_length_eq_zero h0)
  have sf : ShowsFilled c (storedF c b) b n :=
    ⟨rfl, fun x => (getNode_nodes (c := filled c b) (c' := storedF c b) rfl x).trans (getNode_filled hn x)⟩
  have w1 : TreeWF U (storedF c b) := by
    refine TreeWF_filled w hU b hbU n hn hbr hpd sf.1 sf.2 ?_
    intro k
    show Option.map (·.txs) (alookup k (aset b.id { txs := b.txs, trusted := false } c.store)) = _
    rw [alookup_aset_eq]
    by_cases hk : b.id = k
    · subst hk; simp
    · have : ¬ k = b.id := fun e => hk e.symm
      simp [hk, this]
  obtain ⟨hpath, t, ht, hth⟩ := hpo
  obtain ⟨t', ht', _, hth', _⟩ := fl_old hn sf _ _ ht
  have hp1 : PathOKH (storedF c b) 0 path := by
    refine ⟨PathOK_mono hpath rfl rfl rfl rfl rfl ?_ ?_, t', ht', hth'.trans hth⟩
    · intro e _ m hm
      obtain ⟨m', g1, g2, g3, _⟩ := fl_old hn sf _ _ hm
      exact ⟨m', g1, g2, g3⟩
    · intro e he b0 hb0
      have hne : e.id ≠ b.id := by intro e1; rw [e1, hns] at hb0; cases hb0
      exact ⟨b0, by show alookup e.id (aset b.id _ c.store) = some b0; rw [alookup_aset_ne _ _ _ _ hne]; exact hb0, rfl⟩
  have hU1 : BlockTree (storedF c b).root U := hU
  have hx1 : Ext (storedF c b) path := hx.store_aside b.id b.txs (fun e he heq => by
    obtain ⟨s0, h0, _⟩ := hx.onPath e he
    rw [heq, hns] at h0; cases h0) rfl
  have hlost1 : Lost U c.root c (storedF c b) := by
    intro x hxs hnone
    cases hg : getNode c x with
    | none => rw [hg] at hxs; cases hxs
    | some m => obtain ⟨m', g1, _⟩ := fl_old hn sf x m hg; rw [g1] at hnone; cases hnone
  have hfrom1 : NodesFrom c b (storedF c b) := fl_nodesFrom hn sf
  have hnewd : HasData (storedF c b) b.id { n with txCount := b.txs.length } := Or.inr hlen
  have hmp := morePOW_spec w1 hU1 (fl_new sf) ht'
  rw [commitBlock_sideF c b h hside hns, fl_new sf, ht']
  simp only
  cases hmo : morePOW (storedF c b) { n with txCount := b.txs.length } t' with
  | false =>
    simp only [Bool.false_eq_true, if_false]
    refine ⟨⟨w1, ⟨path, hp1, hx1⟩, ?_⟩, rfl, (fun s hs => by cases hs), Or.inl rfl,
      ⟨hlost1, fun hnone => by rw [fl_new sf] at hnone; cases hnone⟩, hfrom1, ?_⟩
    · refine maxW_keepF w hn sf hm rfl ?_
      intro t2 ht2
      rw [ht'] at ht2; cases ht2
      have : ¬ W (storedF c b) { n with txCount := b.txs.length } > W (storedF c b) t' := by
        rw [← hmp, hmo]; simp
      exact not_lt.mp this
    · exact ⟨eq_false (fun ⟨e, he⟩ => by cases he), fun n' hn' => by rw [fl_new sf] at hn'; cases hn'; rfl⟩
  | true =>
    simp only [if_true]
    have hgt : W (storedF c b) { n with txCount := b.txs.length } > W (storedF c b) t' := hmp.mp hmo
    obtain ⟨c2, path2, g1, g2, g3, g4, g5, g6, g7, g8⟩ := (reorg_specs U (fuelOf (storedF c b))).2.2 (storedF c b) b.id
      { n with txCount := b.txs.length } path w1 hp1 hx1 hU1 (fl_new sf) hnewd (fuelOf_enough _)
    rw [g1]
    simp only
    have g7' : Lost U c.root (storedF c b) c2 := g7
    have hfrom2 : NodesFrom c b c2 := by
      intro x n2 hn2
      obtain ⟨n1, k1, k2⟩ := g8 x n2 hn2
      rcases hfrom1 x n1 k1 with ⟨e1, e2⟩ | ⟨m, e1, e2⟩
      · exact Or.inl ⟨e1, k2.trans e2⟩
      · exact Or.inr ⟨m, e1, k2.trans e2⟩
    refine ⟨⟨g2, ⟨path2, g3, g6⟩, ?_⟩, g4, (fun s hs => by split at hs <;> cases hs), ?_,
      ⟨hlost1.trans g7', fun hnone => Or.inr (Or.inr (g7' b.id (by rw [fl_new sf]; rfl) hnone))⟩, hfrom2, ?_⟩
    · rcases g5 with ⟨a1, a2⟩ | g5
      · have hg2 : ∀ x, getNode c2 x = getNode (storedF c b) x := fun x => getNode_nodes a2 x
        have sf2 : ShowsFilled c c2 b n := ⟨g4, fun x => (hg2 x).trans (sf.2 x)⟩
        refine maxW_newF w hn sf2 hm a1 ?_
        intro t2 ht2
        rw [hg2, ht'] at ht2; cases ht2
        rw [W_same g4 hg2, W_same g4 hg2]
        exact le_of_lt hgt
      · exact g5
    · by_cases hc2 : c2.tip = b.id
      · exact Or.inr (Or.inl hc2)
      · have : (c2.tip == b.id) = false := by simpa using hc2
        exact Or.inr (Or.inr (by simp only [this]; rfl))
    · exact ⟨eq_false (fun ⟨e, he⟩ => by split at he <;> cases he), fun n' hn' => by
        obtain ⟨n1, k1, k2⟩ := g8 b.id n' hn'
        rw [fl_new sf] at k1; cases k1; exact k2⟩

-- ------------------------------------------------------------------------------------------ work of the survivors of a deletion

/-- `workOf_congr` for a part of the tree that is closed under "parent" and kept by `c'` -/
theorem workOf_congr_sub {U : List Block} {c c' : Chain} (w : TreeWF U c) (hr : c'.root = c.root) (S : Nat → Prop)
    (hS : ∀ x n, getNode c x = some n → S x → x ≠ c.root → S n.parent)
    (hNP : ∀ x n, getNode c x = some n → S x → ∃ n', getNode c' x = some n' ∧ n'.parent = n.parent ∧ n'.height = n.height ∧
      n'.bits = n.bits) :
    ∀ (h x : Nat) (n n' : Node), getNode c x = some n → getNode c' x = some n' → S x → n.height = h →
      workOf c' n' = workOf c n := by
  intro h
  induction h with
  | zero =>
    intro x n n' hn hn' hs h0
    obtain ⟨m, hm, _, hmh, _⟩ := hNP x n hn hs
    rw [hn'] at hm; cases hm
    unfold workOf
    rw [hmh, h0]; rfl
  | succ h ih =>
    intro x n n' hn hn' hs hh
    obtain ⟨m, hm, hmp, hmh, hmb⟩ := hNP x n hn hs
    rw [hn'] at hm; cases hm
    have hx : x ≠ c.root := by
      intro e
      obtain ⟨r, hr, h0, _⟩ := w.root
      rw [e, hr] at hn; cases hn; omega
    obtain ⟨p, hp, hph, _⟩ := w.par x n hn hx
    have hsp := hS x n hn hs hx
    obtain ⟨p', hp', _, hq2, _⟩ := hNP n.parent p hp hsp
    have hid : n.id = x := getNode_id hn
    have hid' : n'.id = x := getNode_id hn'
    have e1 : (n'.id == c'.root) = false := by rw [hid', hr]; simpa using hx
    have e2 : (n.id == c.root) = false := by rw [hid]; simpa using hx
    have ihp := ih n.parent p p' hp hp' hsp (by omega)
    unfold workOf at ihp ⊢
    rw [hmh, hph]
    simp only [cumWorkN, e1, e2, Bool.false_eq_true, if_false, hmp, hp, hp', hmb]
    rw [hq2] at ihp
    rw [ihp]

/-- deleting a subtree none of whose nodes has data keeps "the tip is a maximum-work node among those with data" -/
theorem MaxW_after_delete {U : List Block} {c c' : Chain} (w : TreeWF U c) (hm : MaxW c) {nx : Nat}
    (hr : c'.root = c.root) (htip : c'.tip = c.tip) (hta : ¬ Desc c nx c.tip)
    (hold : ∀ x n, getNode c x = some n → ¬ Desc c nx x →
      ∃ n', getNode c' x = some n' ∧ n'.parent = n.parent ∧ n'.height = n.height ∧ n'.bits = n.bits)
    (hback : ∀ x n', getNode c' x = some n' → ¬ Desc c nx x ∧ ∃ n, getNode c x = some n ∧ n'.txCount = n.txCount) :
    MaxW c' := by
  obtain ⟨t, ht, hmax⟩ := hm
  have hS : ∀ x n, getNode c x = some n → ¬ Desc c nx x → x ≠ c.root → ¬ Desc c nx n.parent :=
    fun x n hn ha hx hd => ha (Desc.step hn hx hd)
  obtain ⟨t', ht', _⟩ := hold _ _ ht hta
  refine ⟨t', by rw [htip]; exact ht', ?_⟩
  intro x n' hn' hd'
  obtain ⟨ha, n, hn, htx⟩ := hback x n' hn'
  unfold W
  rw [workOf_congr_sub w hr (fun x => ¬ Desc c nx x) hS hold n.height x n n' hn hn' ha rfl,
    workOf_congr_sub w hr (fun x => ¬ Desc c nx x) hS hold t.height c.tip t t' ht ht' hta rfl]
  exact hmax x n hn (by unfold HasData at hd' ⊢; rw [← hr, ← htx]; exact hd')

-- ------------------------------------------------------------------------------------------ refused on the tip: unlink + sweep

/-- what `commitAt` leaves when CommitBlock refuses the block of an existing node on the tip: the block is unlinked and
    its own index entry deleted (`rejectedChain`), its header-only descendants are moved to `limbo` (`sweep`) -/
def rejectSwept (c : Chain) (b : Block) : Chain :=
  sweep (rejectedChain c b) ((subtree c (c.nodes.length + 1) b.id).filter (· != b.id))

theorem rejectSwept_fields (c : Chain) (b : Block) :
    (rejectSwept c b).root = c.root ∧ (rejectSwept c b).tip = b.parent ∧ (rejectSwept c b).utxo = c.utxo ∧
    (rejectSwept c b).store = c.store ∧ (rejectSwept c b).undoFiles = c.undoFiles ∧
    (rejectSwept c b).lastHeight = c.lastHeight := ⟨rfl, rfl, rfl, rfl, rfl, rfl⟩

/-- as a tree, the result is DeleteBranch of the refused block -/
theorem getNode_rejectSwept {U : List Block} {c : Chain} (w : TreeWF U c) {b : Block} {n : Node}
    (hn : getNode c b.id = some n) (hnp : n.parent = b.parent) (x : Nat) :
    getNode (rejectSwept c b) x = getNode (deleteBranch c b.id) x := by
  have hmem : ∀ y, y ∈ (subtree c (c.nodes.length + 1) b.id).filter (· != b.id) ↔ (Desc c b.id y ∧ y ≠ b.id) := by
    intro y
    rw [List.mem_filter, mem_subtree_iff w hn y]
    simp
  -- the two filters and the two maps, one at a time
  have e1 : getNode (rejectSwept c b) x =
      if (fun i => !((subtree c (c.nodes.length + 1) b.id).filter (· != b.id)).contains i) x then
        getNode (rejectedChain c b) x else none := by
    rw [← getNode_filter_eq (rejectedChain c b)
      (fun i => !((subtree c (c.nodes.length + 1) b.id).filter (· != b.id)).contains i) x]
    exact getNode_nodes (c' := rejectSwept c b) rfl x
  have e2 : getNode (rejectedChain c b) x =
      if (fun i => i != b.id) x then
        getNode (modNode (filled c b) b.parent (fun m => { m with childs := m.childs.filter (fun z => z != b.id) })) x
      else none := by
    rw [← getNode_filter_eq (modNode (filled c b) b.parent (fun m => { m with childs := m.childs.filter (fun z => z != b.id) }))
      (fun i => i != b.id) x]
    exact getNode_nodes (c' := rejectedChain c b) rfl x
  have e3 := getNode_modNode_eq (filled c b) b.parent x
    (fun m => { m with childs := m.childs.filter (fun z => z != b.id) }) (fun _ => rfl)
  by_cases hd : Desc c b.id x
  · rw [getNode_deleteBranch_dead w hn x hd, e1]
    by_cases hxb : x = b.id
    · have : ¬ ((fun i => i != b.id) x = true) := by simp [hxb]
      rw [e2, if_neg this]; simp
    · have hin : x ∈ (subtree c (c.nodes.length + 1) b.id).filter (· != b.id) := (hmem x).mpr ⟨hd, hxb⟩
      have : ((subtree c (c.nodes.length + 1) b.id).filter (· != b.id)).contains x = true := by simpa using hin
      simp only [this, Bool.not_true, Bool.false_eq_true, if_false]
  · have hxb : x ≠ b.id := fun e => hd (e ▸ Desc.refl)
    have hnin : ¬ x ∈ (subtree c (c.nodes.length + 1) b.id).filter (· != b.id) := fun h => hd ((hmem x).mp h).1
    have h1 : ((subtree c (c.nodes.length + 1) b.id).filter (· != b.id)).contains x = false := by simpa using hnin
    have h2 : (x != b.id) = true := by simpa using hxb
    rw [getNode_deleteBranch_alive w hn x hd, e1]
    simp only [h1, Bool.not_false, if_true]
    rw [e2]
    simp only [h2, if_true]
    rw [e3, getNode_filled hn x, if_neg hxb, hnp]
    rfl

/-- **the block of a known header on the tip**: connected (the branch grows; header-only descendants stay below it), or
    refused and unlinked — whatever hangs below it leaves the tree (to `limbo`) -/
theorem commitAt_tip {U : List Block} {c : Chain} (w : TreeWF U c) {path : List PE} (hpath : PathOK c 0 path)
    (hx : Ext c path) (t : Node) (ht : getNode c c.tip = some t) (hth : t.height = path.length)
    (hm : MaxW c) (hU : BlockTree c.root U) (b : Block) (hbU : b ∈ U) (n : Node)
    (hn : getNode c b.id = some n) (h0 : n.txCount = 0) (hbr : b.id ≠ c.root) (htip : c.tip = b.parent) :
    n.height = path.length + 1 ∧
    ((∃ ch, commitTxs c.utxo (path.length + 1) (reward (path.length + 1)) false b.txs = .ok ch ∧
        (commitBlock c b (path.length + 1)).2 = Outcome.ok ∧ Inv U (commitBlock c b (path.length + 1)).1 ∧
        (commitBlock c b (path.length + 1)).1.root = c.root ∧ (commitBlock c b (path.length + 1)).1.tip = b.id ∧
        Lost U c.root c (commitBlock c b (path.length + 1)).1 ∧ NodesFrom c b (commitBlock c b (path.length + 1)).1 ∧
        (getNode (commitBlock c b (path.length + 1)).1 b.id).isSome = true ∧
        (∀ n', getNode (commitBlock c b (path.length + 1)).1 b.id = some n' → n'.txCount = b.txs.length)) ∨
     (∃ e, commitBlock c b (path.length + 1) = (rejectedChain c b, Outcome.rejected e) ∧ Inv U (rejectSwept c b) ∧
        Lost U c.root c (rejectSwept c b) ∧ NodesFrom c b (rejectSwept c b) ∧ Excused U c.root b.id ∧
        getNode (rejectSwept c b) b.id = none)) := by
  obtain ⟨hnp, _, hns⟩ := hdrNode_facts w hU hbU hn h0 hbr
  have hlen : b.txs.length ≠ 0 := fun h0 => hU.txs b hbU (List.eq_nil_of_length_eq_zero h0)
  obtain ⟨p, hp, hph, _⟩ := w.par b.id n hn hbr
  rw [hnp, ← htip, ht] at hp; cases hp
  have hnh : n.height = path.length + 1 := by omega
  refine ⟨hnh, ?_⟩
  have htd : HasData c c.tip t := tip_has_data w hpath ht
  have hnew : ∀ e ∈ path, e.id ≠ b.id := by
    intro e he heq
    obtain ⟨m, hm'⟩ := Linked_ids hpath.linked e he
    have := Linked_has_data w hpath.linked e he m hm'
    rw [heq, hn] at hm'; cases hm'
    exact this h0
  have huc : UChain U c.root (⟨b.id, b.txs⟩ :: path) :=
    ⟨⟨b, hbU, rfl, rfl, by rw [← headId_eq, ← hpath.tip, htip]⟩, Linked_UChain w hpath.linked⟩
  have hdep := hU.depth _ huc
  simp only [List.length_cons] at hdep
  obtain ⟨u, hru, heq⟩ := hpath.utxo
  have hfresh : ∀ x ∈ b.txs.map (·.txid), c.utxo.get x = none := fun x hx => by
    rw [heq x]; exact (hU.fresh _ huc).1 u hru x hx
  cases hct : commitTxs c.utxo (path.length + 1) (reward (path.length + 1)) false b.txs with
  | ok ch =>
    left
    refine ⟨ch, rfl, ?_⟩
    have hok := hct
    rw [commitBlock_tip_ok c b _ ch htip hok]
    have hf := cbt_fields (preCommit c b) (path.length + 1) true (b.txs.map (·.txid)) ch
    have hrt := cbt_root (preCommit c b) (path.length + 1) true (b.txs.map (·.txid)) ch
    have hst := cbt_store (preCommit c b) (path.length + 1) true (b.txs.map (·.txid)) ch
    have sf : ShowsFilled c { commitBlockTxs (preCommit c b) (path.length + 1) true (b.txs.map (·.txid)) ch with tip := b.id } b n :=
      ⟨hrt, fun x => (getNode_nodes (c := filled c b) hf.2.2.2 x).trans (getNode_filled hn x)⟩
    have w1 : TreeWF U { commitBlockTxs (preCommit c b) (path.length + 1) true (b.txs.map (·.txid)) ch with tip := b.id } := by
      refine TreeWF_filled w hU b hbU n hn hbr ⟨t, by rw [hnp, ← htip]; exact ht, by rw [hnp, ← htip]; exact htd⟩ sf.1 sf.2 ?_
      intro k
      show Option.map (·.txs) (alookup k (commitBlockTxs (preCommit c b) (path.length + 1) true
        (b.txs.map (·.txid)) ch).store) = _
      rw [hst]
      show Option.map (·.txs) (alookup k (aset b.id { txs := b.txs, trusted := true } c.store)) = _
      rw [alookup_aset_eq]
      by_cases hk : b.id = k
      · subst hk; simp
      · have : ¬ k = b.id := fun e => hk e.symm
        simp [hk, this]
    have hcp := commitBlock_path c 0 path hpath b ch htip ⟨n, hn, hnp⟩ hnew hok hfresh
    rw [commitBlock_ok_eq _ b _ ch htip hok] at hcp
    have hfl : max 0 (path.length + 1 - UnwindBufLen) = 0 := by omega
    rw [hfl] at hcp
    have hx1 : Ext { commitBlockTxs (preCommit c b) (path.length + 1) true (b.txs.map (·.txid)) ch with tip := b.id }
        (⟨b.id, b.txs⟩ :: path) :=
      hx.extend b _ _ ch _ hct (by
        show (commitBlockTxs (preCommit c b) (path.length + 1) true (b.txs.map (·.txid)) ch).store = _
        rw [hst]; rfl)
    have hlost1 : Lost U c.root c { commitBlockTxs (preCommit c b) (path.length + 1) true (b.txs.map (·.txid)) ch with tip := b.id } := by
      intro x hxs hnone
      cases hg : getNode c x with
      | none => rw [hg] at hxs; cases hxs
      | some m => obtain ⟨m', g1, _⟩ := fl_old hn sf x m hg; rw [g1] at hnone; cases hnone
    refine ⟨rfl, ⟨w1, ⟨_, ⟨hcp, _, fl_new sf, by simp only [List.length_cons]; exact hnh⟩, hx1⟩, ?_⟩,
      hrt, rfl, hlost1, fl_nodesFrom hn sf, by rw [fl_new sf]; rfl,
      fun n' hn' => by rw [fl_new sf] at hn'; cases hn'; rfl⟩
    refine maxW_newF w hn sf hm rfl ?_
    intro t2 ht2
    have hW := W_step w hU hn hbr (by rw [hnp, ← htip]; exact ht)
    rw [fl_W w hn sf ht ht2, fl_W w hn sf hn (fl_new sf), hW.1]
    linarith [hW.2]
  | error e =>
    right
    refine ⟨e, commitBlock_tip_err c b _ e htip hct, ?_⟩
    have hg : ∀ x, getNode (rejectSwept c b) x = getNode (deleteBranch c b.id) x := getNode_rejectSwept w hn hnp
    obtain ⟨hr, htp, hut, hsto, hund, hlh⟩ := rejectSwept_fields c b
    -- nothing below the refused block has data, so nothing below it is stored
    have hdead : ∀ k, Desc c b.id k → alookup k c.store = none := by
      intro k hd
      cases hk : getNode c k with
      | none =>
        cases hs : alookup k c.store with
        | none => rfl
        | some s0 => have := (w.store k s0 hs).2; rw [hk] at this; cases this
      | some m =>
        apply w.hdr k m hk
        apply Classical.byContradiction
        intro hne
        have := Desc.has_data w hd m hk (Or.inr hne) n hn
        exact (this.resolve_left hbr) h0
    have w2 : TreeWF U (rejectSwept c b) := by
      refine TreeWF_same (deleteBranch_wf w hn hbr) (hr.trans (deleteBranch_root hn).symm) hg ?_
      intro k
      rw [hsto]
      by_cases hd : Desc c b.id k
      · rw [store_deleteBranch_dead w hn k hd, hdead k hd]
      · rw [store_deleteBranch_alive w hn k hd]
    have alive : ∀ x m, getNode c x = some m → m.height ≤ path.length → ¬ Desc c b.id x := by
      intro x m hm' hle hdd
      obtain ⟨na, hna, hle2, _⟩ := Desc.height w hdd m hm'
      rw [hn] at hna; cases hna; omega
    have hold : ∀ x m, getNode c x = some m → ¬ Desc c b.id x →
        ∃ m', getNode (rejectSwept c b) x = some m' ∧ m'.parent = m.parent ∧ m'.height = m.height ∧ m'.bits = m.bits := by
      intro x m hm' ha
      obtain ⟨m', g1, g2, g3, g4, _⟩ := deleteBranch_old w hn x m hm' ha
      exact ⟨m', by rw [hg]; exact g1, g2, g3, g4⟩
    have hback : ∀ x m', getNode (rejectSwept c b) x = some m' →
        ¬ Desc c b.id x ∧ ∃ m, getNode c x = some m ∧ m'.txCount = m.txCount := by
      intro x m' hm'
      rw [hg] at hm'
      obtain ⟨ha, m, g1, _, _, _, g5, _⟩ := deleteBranch_back w hn x m' hm'
      exact ⟨ha, m, g1, g5⟩
    have hp1 : PathOK (rejectSwept c b) 0 path := by
      refine PathOK_mono hpath hr (htp.trans htip.symm) hut hund hlh ?_ ?_
      · intro e he m hm'
        obtain ⟨m0, hm0, hmh⟩ := Linked_mem_height w hpath.linked e he
        rw [hm'] at hm0; cases hm0
        obtain ⟨m', g1, g2, g3, _⟩ := hold e.id m hm' (alive _ _ hm' hmh)
        exact ⟨m', g1, g2, g3⟩
      · intro e _ b0 hb0
        exact ⟨b0, by rw [hsto]; exact hb0, rfl⟩
    have hta : ¬ Desc c b.id c.tip := alive _ _ ht (by omega)
    obtain ⟨t', ht', _, hth', _⟩ := hold _ _ ht hta
    have hinv : InvalidOnReplay U c.root b := invalidOnReplay_on_path w hpath b htip.symm false e hct
    have hexc : ∀ x, Desc c b.id x → Excused U c.root x := fun x hd => ⟨b, hbU, hd.toUAnc w, hinv⟩
    refine ⟨⟨w2, ⟨path, ⟨hp1, t', by rw [htp, ← htip]; exact ht', hth'.trans hth⟩, hx.of_store_eq hsto⟩,
        MaxW_after_delete w hm hr (htp.trans htip.symm) hta hold hback⟩, ?_, ?_, hexc b.id Desc.refl,
        by rw [hg]; exact getNode_deleteBranch_dead w hn b.id Desc.refl⟩
    · intro x hxs hnone
      by_cases hd : Desc c b.id x
      · exact hexc x hd
      · cases hgx : getNode c x with
        | none => rw [hgx] at hxs; cases hxs
        | some m => obtain ⟨m', g1, _⟩ := hold x m hgx hd; rw [g1] at hnone; cases hnone
    · intro x m' hm'
      obtain ⟨_, m, g1, g2⟩ := hback x m' hm'
      exact Or.inr ⟨m, g1, g2⟩

-- ------------------------------------------------------------------------------------------ commitNode

theorem commitAt_dup (c : Chain) (b : Block) (n : Node) (h : n.txCount ≠ 0) : commitAt c b n = (c, Outcome.dup) := by
  have e0 : (n.txCount != 0) = true := by simpa using h
  unfold commitAt; simp only [e0, if_true]

theorem commitAt_notLinking (c : Chain) (b : Block) (n : Node) (h0 : n.txCount = 0)
    (hv : hasAllParents c (n.height + 1) n = .ok false) : commitAt c b n = (c, Outcome.notLinking) := by
  have e0 : (n.txCount != 0) = false := by simp [h0]
  unfold commitAt; simp only [e0, Bool.false_eq_true, if_false, hv]

theorem commitAt_other (c : Chain) (b : Block) (n : Node) (h0 : n.txCount = 0)
    (hv : hasAllParents c (n.height + 1) n = .ok true) (h : ∀ e, (commitBlock c b n.height).2 ≠ Outcome.rejected e) :
    commitAt c b n = commitBlock c b n.height := by
  have e0 : (n.txCount != 0) = false := by simp [h0]
  unfold commitAt
  simp only [e0, Bool.false_eq_true, if_false, hv]   -- the match's fall-through equation is discharged with `h`

theorem commitAt_rejected (c : Chain) (b : Block) (n : Node) (h0 : n.txCount = 0)
    (hv : hasAllParents c (n.height + 1) n = .ok true) (e : Err)
    (h : commitBlock c b n.height = (rejectedChain c b, Outcome.rejected e)) :
    commitAt c b n = (rejectSwept c b, Outcome.rejected e) := by
  have e0 : (n.txCount != 0) = false := by simp [h0]
  unfold commitAt; simp only [e0, Bool.false_eq_true, if_false, hv, h]
  rfl

/-- what one `commit` may lose, and what becomes of the block: every node that disappears is excused, and when the
    block was judged (`admitted`: connected, stored aside, reorganised to or not, or refused on the tip) it is a node
    afterwards or excused -/
def CommitComplete (U : List Block) (c : Chain) (b : Block) (r : Chain × Outcome) : Prop :=
  Lost U c.root c r.1 ∧ (r.2.admitted = true → getNode r.1 b.id = none → Excused U c.root b.id)

/-- **the block of a known header keeps the whole invariant and does not panic** — whatever the answer: no such header /
    the entry is unreachable from the root / data already there / a parent without data (nothing changes), connected on the
    tip, refused on the tip (unlinked; its header-only descendants leave the tree), stored aside, reorganised to (completely,
    or with a failure and the fall-back to the best remaining node that has its data). -/
theorem commitNode_inv {U : List Block} {c : Chain} (hi : Inv U c) (hU : BlockTree c.root U) (b : Block) (hbU : b ∈ U)
    (hbr : b.id ≠ c.root) :
    Inv U (commitNode c b).1 ∧ (commitNode c b).1.root = c.root ∧ (∀ s, (commitNode c b).2 ≠ Outcome.panic s) ∧
    ((commitNode c b).1.tip = c.tip ∨ (commitNode c b).1.tip = b.id ∨ (commitNode c b).2 = Outcome.moveFailed) ∧
    CommitComplete U c b (commitNode c b) ∧ NodesFrom c b (commitNode c b).1 ∧
    ((commitNode c b).2.admitted = true → ∀ n', getNode (commitNode c b).1 b.id = some n' → n'.txCount = b.txs.length) := by
  have same : Lost U c.root c c := Lost.of_getNode (fun _ => rfl)
  have sameN : NodesFrom c b c := fun x n' hn' => Or.inr ⟨n', hn', rfl⟩
  have noop : ∀ o : Outcome, (∀ s, o ≠ Outcome.panic s) → o.admitted = false →
      Inv U ((c, o) : Chain × Outcome).1 ∧ ((c, o) : Chain × Outcome).1.root = c.root ∧
      (∀ s, ((c, o) : Chain × Outcome).2 ≠ Outcome.panic s) ∧
      (((c, o) : Chain × Outcome).1.tip = c.tip ∨ ((c, o) : Chain × Outcome).1.tip = b.id ∨
        ((c, o) : Chain × Outcome).2 = Outcome.moveFailed) ∧
      CommitComplete U c b (c, o) ∧ NodesFrom c b ((c, o) : Chain × Outcome).1 ∧
      (((c, o) : Chain × Outcome).2.admitted = true →
        ∀ n', getNode ((c, o) : Chain × Outcome).1 b.id = some n' → n'.txCount = b.txs.length) :=
    fun o h1 h2 => ⟨hi, rfl, h1, Or.inl rfl, ⟨same, fun ha => by rw [h2] at ha; cases ha⟩, sameN,
      fun ha => by rw [h2] at ha; cases ha⟩
  obtain ⟨w, ⟨path, hpo, hx⟩, hm⟩ := hi
  unfold commitNode
  cases hn : getNode c b.id with
  | none =>
    simp only
    split
    · exact noop _ (fun s hs => by cases hs) rfl
    · exact noop _ (fun s hs => by cases hs) rfl
  | some n =>
    simp only
    by_cases h0 : n.txCount = 0
    · obtain ⟨v, hv, hvt⟩ := hasAllParents_spec w hpo (n.height + 1) b.id n hn hbr (by omega)
      cases v with
      | false => rw [commitAt_notLinking c b n h0 hv]; exact noop _ (fun s hs => by cases hs) rfl
      | true =>
        obtain ⟨hpath, t, ht, hth⟩ := hpo
        obtain ⟨hnp, _, _⟩ := hdrNode_facts w hU hbU hn h0 hbr
        by_cases htip : c.tip = b.parent
        · obtain ⟨hnh, hcase⟩ := commitAt_tip w hpath hx t ht hth hm hU b hbU n hn h0 hbr htip
          rw [← hnh] at hcase
          rcases hcase with ⟨ch, _, g2, g3, g4, g5, g6, g7, g8, g9⟩ | ⟨e, g1, g2, g3, g4, g5, g6⟩
          · rw [commitAt_other c b n h0 hv (fun e he => by rw [g2] at he; cases he)]
            exact ⟨g3, g4, (fun s hs => by rw [g2] at hs; cases hs), Or.inr (Or.inl g5),
              ⟨g6, fun _ hnone => by rw [hnone] at g8; cases g8⟩, g7, fun _ => g9⟩
          · rw [commitAt_rejected c b n h0 hv e g1]
            exact ⟨g2, rfl, (fun s hs => by cases hs), Or.inl htip.symm, ⟨g3, fun _ _ => g5⟩, g4,
              fun _ n' hn' => by rw [g6] at hn'; cases hn'⟩
        · obtain ⟨g1, g2, g3, g4, g5, g6, g7, g9⟩ := commitAt_side w ⟨hpath, t, ht, hth⟩ hx hm hU b hbU n hn h0 hbr (hvt rfl)
            htip n.height
          rw [commitAt_other c b n h0 hv (fun e he => by rw [← g7]; exact ⟨e, he⟩)]
          exact ⟨g1, g2, g3, g4, ⟨g5.1, fun _ hnone => by
            rcases g5.2 hnone with h | h | h
            · exact absurd h (by
                intro hl
                have := g3
                cases hc : (commitBlock c b n.height).2 <;> simp_all [Outcome.admitted])
            · exact absurd h (by
                intro hl
                cases hc : (commitBlock c b n.height).2 <;> simp_all [Outcome.admitted])
            · exact h⟩, g6, fun _ => g9⟩
    · rw [commitAt_dup c b n h0]
      exact noop _ (fun s hs => by cases hs) rfl

end GocoinV.ChainTree
