/-
  Proofs.C12Resync — the two "resync" edits of the correspondence oracle (Model/MempoolResync: `ringorder`, `setorder`)
  change the model state outside `Mempool.step`.  Both preserve every invariant the C12 theorems carry:

    Full      (InvR + ChainOK + PGoodP, Proofs/C12Run)      ringorder_full    setorder_full
    RejInv    (Proofs/C12RejInv)                            ringorder_rejInv  setorder_rejInv
    SortInvP  (Proofs/C12SortDef)                           ringorder_sort    setorder_sort (with setorder_sortOK)

  so `step_full` / `step_rejInv` / `step_sort` extend to trajectories in which `step`s, accepted resync edits and
  refused loads of mempool.dmp / InitMempool() (Model/MempoolLoad `loadRefused`, Proofs/C12Load `loadRefused_inv`)
  alternate (`rstep_inv`, `rrun_inv` at the end).  Core Lean only.
-/
import GocoinV.Model.MempoolResync
import GocoinV.Proofs.C12RejInv
import GocoinV.Proofs.C12SortRun
import GocoinV.Proofs.C12Load
namespace GocoinV.Mempool

theorem isPerm_perm {a b : List Nat} (h : isPerm a b = true) : a.Perm b := List.isPerm_iff.mp h

/-! ### what an accepted command did -/

theorem ringorder_spec {s s' : State} {ks : List Nat} (h : ringorder s ks = some s') :
    (s.ring.filterMap id).Perm ks ∧ s' = { s with ring := refill s.ring ks } := by
  unfold ringorder at h
  split at h
  · next hp => exact ⟨isPerm_perm hp, (Option.some.inj h).symm⟩
  · cases h

theorem setorder_spec {K : Keys} {s s' : State} {ks : List Nat} (h : setorder K s ks = some s') :
    s.sortDirty = false ∧ (s.pool.map Prod.fst).Perm ks ∧ parentsFirstKeys K s ks = true ∧
    s' = { s with sorted := ks, ranks := rankFrom s.sortStep SORT_START ks,
                  rankWrap := s.rankWrap || !rankRoom s.sortStep ks.length } := by
  unfold setorder at h
  split at h
  · next hp =>
    simp only [Bool.and_eq_true, Bool.not_eq_true'] at hp
    exact ⟨hp.1.1, isPerm_perm hp.1.2, hp.2, (Option.some.inj h).symm⟩
  · cases h

/-! ### refill -/

/-- with as many keys as occupied slots, the occupied slots of the refilled ring read exactly the given keys -/
theorem refill_keys : ∀ (r : List (Option Nat)) (ks : List Nat), ks.length = (r.filterMap id).length →
    (refill r ks).filterMap id = ks := by
  intro r
  induction r with
  | nil =>
    intro ks h
    cases ks with
    | nil => rfl
    | cons k t => simp at h
  | cons o r ih =>
    intro ks h
    cases o with
    | none =>
      simp only [List.filterMap_cons, id] at h
      simp only [refill, List.filterMap_cons, id]
      exact ih ks h
    | some x =>
      cases ks with
      | nil => simp at h
      | cons k t =>
        simp only [List.filterMap_cons, id, List.length_cons, Nat.add_right_cancel_iff] at h
        simp only [refill, List.filterMap_cons, id]
        rw [ih t h]

/-- the zeroed slots stay where they are (same length, same none/some pattern) -/
theorem refill_shape : ∀ (r : List (Option Nat)) (ks : List Nat),
    (refill r ks).map Option.isSome = r.map Option.isSome := by
  intro r
  induction r with
  | nil => intro ks; rfl
  | cons o r ih =>
    intro ks
    cases o with
    | none => simp only [refill, List.map_cons]; rw [ih ks]
    | some x =>
      cases ks with
      | nil => simp only [refill, List.map_cons]; rw [ih []]
      | cons k t => simp only [refill, List.map_cons, Option.isSome_some]; rw [ih t]

/-! ### ringorder -/

theorem ringorder_full {K : Keys} {W : Tx → Prop} {u0 : UT} {ν : OutPoint → Nat} {s s' : State} {ks : List Nat}
    (h : ringorder s ks = some s') (f : Full K W u0 ν s) : Full K W u0 ν s' := by
  obtain ⟨_, rfl⟩ := ringorder_spec h
  exact ⟨InvR_of_frame f.inv (Frame.of_eq rfl rfl rfl rfl rfl rfl), f.chain.of_env ⟨rfl, rfl, id⟩,
    PGoodP.lift (s := s) ⟨rfl, rfl, id⟩ (fun g => g.frame (Frame.of_eq rfl rfl rfl rfl rfl rfl)) f.good⟩

theorem ringorder_sort {K : Keys} {s s' : State} {ks : List Nat}
    (h : ringorder s ks = some s') (q : SortInvP K s) : SortInvP K s' := by
  obtain ⟨_, rfl⟩ := ringorder_spec h
  exact SortInvP.lift (s := s) ⟨rfl, rfl, id⟩ (fun x => SortInv.of_same (s := s) (SortSame.of_eq rfl rfl rfl rfl rfl) x) q

theorem ringorder_rejInv {K : Keys} {s s' : State} {ks : List Nat}
    (h : ringorder s ks = some s') (q : RejInv K s) : RejInv K s' := by
  obtain ⟨hperm, rfl⟩ := ringorder_spec h
  have hk : (refill s.ring ks).filterMap id = ks := refill_keys _ _ hperm.length_eq.symm
  have hmem : ∀ b, some b ∈ refill s.ring ks ↔ some b ∈ s.ring := by
    intro b
    rw [← mem_ringKeys, ← mem_ringKeys]
    unfold ringKeys
    rw [hk]
    exact hperm.mem_iff.symm
  refine ⟨q.cap, q.rej_nodup, ?_, ?_, ?_, q.shape, q.spent_sound, q.spent_complete, q.waiting_sound,
    q.waiting_complete, q.disjoint⟩
  · show ((refill s.ring ks).filterMap id).Nodup
    rw [hk]
    exact hperm.nodup_iff.mp q.ring_nodup
  · intro b hb
    exact q.ring_rej b ((hmem b).mp hb)
  · intro b r hr
    obtain ⟨e, hm⟩ := q.rej_ring b r hr
    exact ⟨e, (hmem b).mpr hm⟩

/-! ### setorder -/

theorem setorder_full {K : Keys} {W : Tx → Prop} {u0 : UT} {ν : OutPoint → Nat} {s s' : State} {ks : List Nat}
    (h : setorder K s ks = some s') (f : Full K W u0 ν s) : Full K W u0 ν s' := by
  obtain ⟨_, _, _, rfl⟩ := setorder_spec h
  exact ⟨InvR_of_frame f.inv (Frame.of_eq rfl rfl rfl rfl rfl rfl), f.chain.of_env ⟨rfl, rfl, id⟩,
    PGoodP.lift (s := s) ⟨rfl, rfl, id⟩ (fun g => g.frame (Frame.of_eq rfl rfl rfl rfl rfl rfl)) f.good⟩

theorem setorder_rejInv {K : Keys} {s s' : State} {ks : List Nat}
    (h : setorder K s ks = some s') (q : RejInv K s) : RejInv K s' := by
  obtain ⟨_, _, _, rfl⟩ := setorder_spec h
  exact ⟨q.cap, q.rej_nodup, q.ring_nodup, q.ring_rej, q.rej_ring, q.shape, q.spent_sound, q.spent_complete,
    q.waiting_sound, q.waiting_complete, q.disjoint⟩

/-- the oracle's test gives the Prop form `PfFrom` once every flagged parent of a listed record is in the list -/
theorem PfFrom_of_parentsFirstGo (K : Keys) (s : State) (l : List Nat) : ∀ (r seen : List Nat),
    parentsFirstGo K s l seen r = true →
    (∀ b ∈ r, ∀ t, s.pool.get? b = some t → ∀ p ∈ memParents K t, p ∈ l) → PfFrom K s seen r := by
  intro r
  induction r with
  | nil => intro _ _ _; trivial
  | cons b r ih =>
    intro seen h hin
    simp only [parentsFirstGo, Bool.and_eq_true] at h
    obtain ⟨h1, h2⟩ := h
    refine ⟨?_, ih (b :: seen) h2 (fun x hx => hin x (List.mem_cons_of_mem _ hx))⟩
    cases hx : s.pool.get? b with
    | none => rw [hx] at h1; cases h1
    | some t =>
      rw [hx] at h1
      refine ⟨t, rfl, ?_⟩
      intro p hp
      have h3 := List.all_eq_true.mp h1 p hp
      have hl : l.contains p = true := List.contains_iff_mem.mpr (hin b List.mem_cons_self t hx p hp)
      rw [hl] at h3
      simp only [Bool.not_true, Bool.or_false] at h3
      exact List.contains_iff_mem.mp h3

/-- an adopted list with ranks that fit is a good sorted list (the statement of `buildSorted_sort` for the observed
    listing instead of GetSortedMempoolSlow's) -/
theorem setorder_sortOK {K : Keys} {W : Tx → Prop} {rank : TxId → Nat} {u0 : UT} {ν : OutPoint → Nat}
    (U : Univ2 K W rank u0 ν) {s s' : State} {ks : List Nat} (h : setorder K s ks = some s')
    (g : PGood K W u0 ν s) (hroom : rankRoom s.sortStep ks.length = true) : SortOK K s' := by
  obtain ⟨_, hperm, hpf, rfl⟩ := setorder_spec h
  have hnd : ks.Nodup := hperm.nodup_iff.mp g.w.base.nodup
  have hsync : ∀ b, b ∈ ks ↔ (s.pool.get? b).isSome = true := by
    intro b
    constructor
    · intro hb
      obtain ⟨y, hy, e⟩ := List.mem_map.mp (hperm.mem_iff.mpr hb)
      obtain ⟨y1, y2⟩ := y
      have := AList.get?_of_mem _ _ _ g.w.base.nodup hy
      cases e
      rw [this]; rfl
    · intro hb
      cases hx : s.pool.get? b with
      | none => rw [hx] at hb; cases hb
      | some t => exact hperm.mem_iff.mp (List.mem_map.mpr ⟨(b, t), AList.mem_of_get? _ _ _ hx, rfl⟩)
  obtain ⟨r1, r2⟩ := rankRoom_spec _ _ hroom
  obtain ⟨a1, a2⟩ := rankFrom_asc _ r1 ks SORT_START hnd (by omega)
  refine ⟨a1, fun x hx => (a2 x hx).2, hsync, ?_, ?_⟩
  · refine pairwise_of_PfFrom K s ks [] ?_ hnd (by simp)
    apply PfFrom_of_parentsFirstGo K s ks ks [] hpf
    intro b _ t hb p hp
    exact (hsync p).mpr (good_parents U s g b t hb p hp).2
  · intro b t hb hm
    exact (good_parents U s g b t hb b hm).1 rfl

theorem setorder_sort {K : Keys} {W : Tx → Prop} {rank : TxId → Nat} {u0 : UT} {ν : OutPoint → Nat}
    (U : Univ2 K W rank u0 ν) {s s' : State} {ks : List Nat} (h : setorder K s ks = some s')
    (g : PGoodP K W u0 ν s) : SortInvP K s' := by
  obtain ⟨_, _, _, e⟩ := setorder_spec h
  intro hp _ hw
  have hp0 : s.panicked = false := by rw [e] at hp; exact hp
  have hroom : rankRoom s.sortStep ks.length = true := by
    rw [e] at hw
    cases hr : rankRoom s.sortStep ks.length with
    | true => rfl
    | false =>
      have hw' : (s.rankWrap || !rankRoom s.sortStep ks.length) = false := hw
      rw [hr] at hw'; simp at hw'
  exact setorder_sortOK U h (g hp0) hroom

/-! ### trajectories with resync edits

  One move of the oracle: an operation of the model, a `ringorder` / `setorder` edit (a refused edit leaves the
  state as it is, as in the oracle), or a refused MempoolLoad / InitMempool (`loadfail`: the pool is re-initialised;
  `k`, `j` say where the file written from the current state was cut — the result depends on them only through the
  sticky panic flag, `loadRefused_eq`; `j = none` is also InitMempool() alone, the text-UI `mempool purge`). -/

inductive Move where
  | op (o : Op)
  | ring (ks : List Nat)
  | sort (ks : List Nat)
  /-- a refused MempoolLoad (file cut after `k` pool records / after the pool section and `j` rejected records,
      damaged, written for another tip, or missing) or a bare InitMempool() -/
  | init (k : Nat) (j : Option Nat)

def rstep (K : Keys) (s : State) : Move → State
  | .op o => step K s o
  | .ring ks => (ringorder s ks).getD s
  | .sort ks => (setorder K s ks).getD s
  | .init k j => loadRefused K s k j

/-- a history of operations with resync edits in between -/
def rrun (K : Keys) (s : State) (ms : List Move) : State := ms.foldl (rstep K) s

/-- the hypotheses of `step_full` / `step_rejInv` / `step_sort` for the operations of the history, each in the state
    it is applied to; the resync edits and the refused loads need none -/
def RAdm (K : Keys) (W : Tx → Prop) (u0 : UT) (ν : OutPoint → Nat) : State → List Move → Prop
  | _, [] => True
  | s, m :: r =>
    (match m with
     | .op o => (∀ t ∈ o.txs, W t) ∧ AdmOp u0 ν s o ∧ UndoOK K s o
     | _ => True) ∧ RAdm K W u0 ν (rstep K s m) r

/-- the three invariants survive every move … -/
theorem rstep_inv {K : Keys} {W : Tx → Prop} {rank : TxId → Nat} {u0 : UT} {ν : OutPoint → Nat}
    (U : Univ2 K W rank u0 ν) (s : State) (m : Move)
    (ha : match m with
      | .op o => (∀ t ∈ o.txs, W t) ∧ AdmOp u0 ν s o ∧ UndoOK K s o
      | _ => True)
    (f : Full K W u0 ν s) (r : RejInv K s) (q : SortInvP K s) :
    Full K W u0 ν (rstep K s m) ∧ RejInv K (rstep K s m) ∧ SortInvP K (rstep K s m) := by
  cases m with
  | op o =>
    obtain ⟨hW, hadm, hu⟩ := ha
    exact ⟨step_full U s o f hW hadm, step_rejInv U.base s o f.inv r hW hu, step_sort U s o f hW hadm q⟩
  | ring ks =>
    simp only [rstep]
    cases h : ringorder s ks with
    | none => exact ⟨f, r, q⟩
    | some s' => exact ⟨ringorder_full h f, ringorder_rejInv h r, ringorder_sort h q⟩
  | sort ks =>
    simp only [rstep]
    cases h : setorder K s ks with
    | none => exact ⟨f, r, q⟩
    | some s' => exact ⟨setorder_full h f, setorder_rejInv h r, setorder_sort U h f.good⟩
  | init k j => exact loadRefused_inv s k j f r

/-- … hence every history with resync edits (`run_full`, `run_rejInv`, `run_sort` for resynced trajectories) -/
theorem rrun_inv {K : Keys} {W : Tx → Prop} {rank : TxId → Nat} {u0 : UT} {ν : OutPoint → Nat}
    (U : Univ2 K W rank u0 ν) : ∀ (ms : List Move) (s : State), RAdm K W u0 ν s ms →
    Full K W u0 ν s → RejInv K s → SortInvP K s →
    Full K W u0 ν (rrun K s ms) ∧ RejInv K (rrun K s ms) ∧ SortInvP K (rrun K s ms) := by
  intro ms
  induction ms with
  | nil => intro s _ f r q; exact ⟨f, r, q⟩
  | cons m t ih =>
    intro s ha f r q
    obtain ⟨f', r', q'⟩ := rstep_inv U s m ha.1 f r q
    unfold rrun
    simp only [List.foldl_cons]
    exact ih _ ha.2 f' r' q'

/-- a history without resync edits is a `run` -/
theorem rrun_ops (K : Keys) : ∀ (ops : List Op) (s : State), rrun K s (ops.map Move.op) = run K s ops := by
  intro ops
  induction ops with
  | nil => intro s; rfl
  | cons o t ih =>
    intro s
    unfold rrun run
    simp only [List.map_cons, List.foldl_cons]
    exact ih (step K s o)

end GocoinV.Mempool
