/-
  Proofs.C12Inv — the structural pool invariant carried through EVERY operation of Model/Mempool.lean
  (helper lemmas for Props/C12 `pool_inv_struct`).  Core Lean only.
-/
import GocoinV.Proofs.C12
namespace GocoinV.Mempool

/-! ### association lists: keys -/

namespace AList
variable {κ ν : Type} [DecidableEq κ]

theorem keys_del (m : AList κ ν) (k : κ) : (del m k).map Prod.fst = (m.map Prod.fst).filter (fun x => !decide (x = k)) := by
  induction m with
  | nil => rfl
  | cons p r ih =>
    rw [del_cons]
    by_cases h : p.1 = k
    · simp [h, ih]
    · simp [h, ih]

theorem nodup_del (m : AList κ ν) (k : κ) (h : (m.map Prod.fst).Nodup) : ((del m k).map Prod.fst).Nodup := by
  rw [keys_del]; exact h.filter _

theorem not_mem_keys_del (m : AList κ ν) (k : κ) : k ∉ (del m k).map Prod.fst := by
  rw [keys_del]; simp

theorem nodup_set (m : AList κ ν) (k : κ) (v : ν) (h : (m.map Prod.fst).Nodup) :
    ((set m k v).map Prod.fst).Nodup := by
  simp only [set, List.map_cons, List.nodup_cons]
  exact ⟨not_mem_keys_del m k, nodup_del m k h⟩

theorem mem_of_get? : ∀ (m : AList κ ν) (k : κ) (v : ν), m.get? k = some v → (k, v) ∈ m := by
  intro m
  induction m with
  | nil => intro k v h; simp [get?] at h
  | cons p r ih =>
    intro k v h
    obtain ⟨a, w⟩ := p
    simp only [get?] at h
    by_cases e : a = k
    · simp only [e, if_true, Option.some.injEq] at h
      simp [e, h]
    · simp only [e, if_false] at h
      exact List.mem_cons_of_mem _ (ih k v h)

theorem get?_of_mem : ∀ (m : AList κ ν) (k : κ) (v : ν), (m.map Prod.fst).Nodup → (k, v) ∈ m → m.get? k = some v := by
  intro m
  induction m with
  | nil => intro k v _ h; simp at h
  | cons p r ih =>
    intro k v hn h
    obtain ⟨a, w⟩ := p
    simp only [List.map_cons, List.nodup_cons] at hn
    simp only [get?]
    rcases List.mem_cons.mp h with e | e
    · cases e; simp
    · have : a ≠ k := by
        intro ea; subst ea
        exact hn.1 (List.mem_map.mpr ⟨(a, v), e, rfl⟩)
      simp only [this, if_false]
      exact ih k v hn.2 e

theorem get?_map (f : κ → ν → ν) : ∀ (m : AList κ ν) (k : κ),
    get? (List.map (fun p => (p.1, f p.1 p.2)) m : AList κ ν) k = (get? m k).map (f k) := by
  intro m
  induction m with
  | nil => intro k; rfl
  | cons p r ih =>
    intro k
    obtain ⟨a, w⟩ := p
    simp only [List.map_cons, get?]
    by_cases e : a = k
    · simp [e]
    · simp only [e, if_false]; exact ih k

end AList

/-! ### frames: operations that leave pool / SpentOutputs / chain alone and keep the stored reject txs in `W` -/

/-- every transaction stored in the rejected list belongs to the universe `W` -/
def RejOK (W : Tx → Prop) (s : State) : Prop := ∀ b r t, s.rej.get? b = some r → r.tx = some t → W t

structure Frame (W : Tx → Prop) (s s' : State) : Prop where
  core : SameCore s s'
  undo : s'.undo = s.undo
  rej : RejOK W s → RejOK W s'

theorem Frame.refl (W : Tx → Prop) (s : State) : Frame W s s := ⟨SameCore.refl s, rfl, id⟩

theorem Frame.trans {W : Tx → Prop} {a b c : State} (h1 : Frame W a b) (h2 : Frame W b c) : Frame W a c :=
  ⟨h1.core.trans h2.core, h2.undo.trans h1.undo, fun h => h2.rej (h1.rej h)⟩

/-- a state that differs only in fields other than pool/spent/utxo/weight/undo/rej -/
theorem Frame.of_eq {W : Tx → Prop} {s s' : State} (h1 : s'.pool = s.pool) (h2 : s'.spent = s.spent)
    (h3 : s'.utxo = s.utxo) (h4 : s'.weightTotal = s.weightTotal) (h5 : s'.undo = s.undo) (h6 : s'.rej = s.rej) :
    Frame W s s' :=
  ⟨⟨h1, h2, h3, h4⟩, h5, fun h b r t hb ht => h b r t (by rw [← h6]; exact hb) ht⟩

theorem RejOK_del {W : Tx → Prop} {s s' : State} (b : Nat) (h : RejOK W s) (he : s'.rej = s.rej.del b) : RejOK W s' := by
  intro b' r t hb ht
  rw [he] at hb
  by_cases e : b' = b
  · rw [e, AList.get?_del_self] at hb; cases hb
  · rw [AList.get?_del_other _ _ _ e] at hb; exact h b' r t hb ht

theorem RejOK_set {W : Tx → Prop} {s s' : State} (b : Nat) (r0 : Rej) (h : RejOK W s) (he : s'.rej = s.rej.set b r0)
    (hr : ∀ t, r0.tx = some t → W t) : RejOK W s' := by
  intro b' r t hb ht
  rw [he] at hb
  by_cases e : b' = b
  · rw [e, AList.get?_set_self] at hb; cases hb; exact hr t ht
  · rw [AList.get?_set_other _ _ _ _ e] at hb; exact h b' r t hb ht

theorem rejDelete_frame (K : Keys) (W : Tx → Prop) (s : State) (r : Rej) : Frame W s (rejDelete K s r) := by
  refine ⟨rejDelete_core K s r, ?_, ?_⟩
  · unfold rejDelete; cases r.tx <;> rfl
  · intro h
    apply RejOK_del (K.bidx r.id) h
    unfold rejDelete; cases r.tx <;> rfl

theorem rejDeleteByIdx_frame (K : Keys) (W : Tx → Prop) (s : State) (b : Nat) : Frame W s (rejDeleteByIdx K s b) := by
  unfold rejDeleteByIdx
  split
  · exact rejDelete_frame K W s _
  · exact Frame.refl W s

theorem rejEvictOldest_frame (K : Keys) (W : Tx → Prop) (s : State) : Frame W s (rejEvictOldest K s) := by
  unfold rejEvictOldest
  split
  · split
    · split
      · exact rejDelete_frame K W s _
      · exact Frame.of_eq rfl rfl rfl rfl rfl rfl
    · exact Frame.of_eq rfl rfl rfl rfl rfl rfl
  · exact Frame.refl W s

theorem rejAddRefs_frame (K : Keys) (W : Tx → Prop) (s : State) (r : Rej) : Frame W s (rejAddRefs K s r) := by
  unfold rejAddRefs
  cases r.tx with
  | none => exact Frame.refl W s
  | some t => exact Frame.of_eq rfl rfl rfl rfl rfl rfl

theorem rejAdd_frame (K : Keys) (W : Tx → Prop) (s : State) (r : Rej) (hr : ∀ t, r.tx = some t → W t) :
    Frame W s (rejAdd K s r) := by
  unfold rejAdd
  have h0 : Frame W s { s with ring := s.ring ++ [some (K.bidx r.id)], rej := s.rej.set (K.bidx r.id) r } :=
    ⟨⟨rfl, rfl, rfl, rfl⟩, rfl, fun h => RejOK_set (K.bidx r.id) r h rfl hr⟩
  exact (h0.trans (rejEvictOldest_frame K W _)).trans (rejAddRefs_frame K W _ r)

theorem rejectTx_frame (K : Keys) (W : Tx → Prop) (s : State) (t : Tx) (why : Nat) (m : Option TxId) (ht : W t) :
    Frame W s (rejectTx K s t why m) := by
  unfold rejectTx
  apply rejAdd_frame
  intro t' h
  simp only at h
  split at h
  · cases h; exact ht
  · cases h

theorem addToSort_frame (K : Keys) (W : Tx → Prop) (s : State) (b : Nat) (t : T2S) : Frame W s (addToSort K s b t) :=
  have h := addToSort_sortOnly K s b t
  Frame.of_eq h.pool h.spent h.utxo h.wt h.undo h.rej

theorem delFromSort_frame (W : Tx → Prop) (s : State) (b : Nat) : Frame W s (delFromSort s b) := by
  unfold delFromSort
  split
  · exact Frame.refl W s
  · split <;> exact Frame.of_eq rfl rfl rfl rfl rfl rfl

/-! ### the invariant carried through every operation -/

/-- hypotheses on the universe `W` of transactions that occur in a history: the code's two index functions do not
    collide on them (BIDX separates their txids; the UIdx of an input equals the UIdx of an output of a
    transaction only if the input names that transaction), a txid determines the transaction, every transaction
    has an input, and the spending relation is acyclic (`rank`: a txid is a hash over the txids it spends) -/
structure Univ (K : Keys) (W : Tx → Prop) (rank : TxId → Nat) : Prop where
  bidx_inj : ∀ a b, W a → W b → K.bidx a.id = K.bidx b.id → a.id = b.id
  uidx_inj : ∀ c t, W c → W t → ∀ i ∈ c.ins, ∀ v, K.uidx i.prev i.vout = K.uidx t.id v → i.prev = t.id
  id_fun : ∀ a b, W a → W b → a.id = b.id → a = b
  ins_ne : ∀ a, W a → a.ins ≠ []
  acyclic : ∀ a, W a → ∀ i ∈ a.ins, rank i.prev < rank a.id

structure InvR (K : Keys) (W : Tx → Prop) (s : State) : Prop where
  str : InvS K s
  nodup : (s.pool.map Prod.fst).Nodup
  poolW : ∀ b t, s.pool.get? b = some t → W t.tx
  rejW : RejOK W s
  undoW : ∀ e ∈ s.undo, ∀ t ∈ e.1, W t

theorem InvR_of_frame {K : Keys} {W : Tx → Prop} {s s' : State} (h : InvR K W s) (f : Frame W s s') : InvR K W s' :=
  ⟨InvS_of_core h.str f.core, by rw [f.core.1]; exact h.nodup, by rw [f.core.1]; exact h.poolW, f.rej h.rejW,
   by rw [f.undo]; exact h.undoW⟩

theorem delOne_congr (K : Keys) (s : State) (t t' : T2S) (reason : Nat) (h : t.tx = t'.tx) :
    delOne K s t reason = delOne K s t' reason := by
  unfold delOne
  simp only [h]

/-- delOne = a change of pool/spent/weight followed by a frame -/
theorem delOne_aux (K : Keys) (W : Tx → Prop) (s : State) (t : T2S) (reason : Nat) (ht : W t.tx) :
    (delOne K s t reason).undo = s.undo ∧ (RejOK W s → RejOK W (delOne K s t reason)) := by
  unfold delOne
  simp only
  generalize hs1 : ({ s with spent := t.tx.ins.foldl (fun (m : AList Nat Nat) i => m.del (K.uidx i.prev i.vout)) s.spent,
                             pool := s.pool.del (K.bidx t.tx.id) } : State) = s1
  have c1 := delFromSort_frame W s1 (K.bidx t.tx.id)
  have hu : s1.undo = s.undo := by rw [← hs1]
  have hr : s1.rej = s.rej := by rw [← hs1]
  have r1 : RejOK W s → RejOK W s1 := fun h b r t' hb ht' => h b r t' (by rw [← hr]; exact hb) ht'
  split
  · have c2 := rejectTx_frame K W { delFromSort s1 (K.bidx t.tx.id) with weightTotal := (delFromSort s1 (K.bidx t.tx.id)).weightTotal - t.tx.weight } t.tx reason none ht
    refine ⟨by rw [c2.undo]; simp only; rw [c1.undo, hu], fun h => c2.rej ?_⟩
    exact c1.rej (r1 h)
  · exact ⟨by simp only; rw [c1.undo, hu], fun h => c1.rej (r1 h)⟩

theorem delOne_InvR (K : Keys) (W : Tx → Prop) (s : State) (t : T2S) (reason : Nat) (h : InvR K W s)
    (hin : s.pool.get? (K.bidx t.tx.id) = some t) : InvR K W (delOne K s t reason) := by
  have ht := h.poolW _ _ hin
  obtain ⟨hp, _⟩ := delOne_pool_spent K s t reason
  obtain ⟨hu, hr⟩ := delOne_aux K W s t reason ht
  refine ⟨delOne_InvS K s t reason h.str hin, ?_, ?_, hr h.rejW, by rw [hu]; exact h.undoW⟩
  · rw [hp]; exact AList.nodup_del _ _ h.nodup
  · intro b t' hb
    rw [hp] at hb
    by_cases e : b = K.bidx t.tx.id
    · rw [e, AList.get?_del_self] at hb; cases hb
    · rw [AList.get?_del_other _ _ _ e] at hb; exact h.poolW b t' hb

theorem addT2S_aux (K : Keys) (W : Tx → Prop) (s : State) (t : T2S) :
    (addT2S K s t).undo = s.undo ∧ (RejOK W s → RejOK W (addT2S K s t)) := by
  unfold addT2S
  simp only
  generalize hs1 : ({ s with spent := t.tx.ins.foldl (fun (m : AList Nat Nat) i => m.set (K.uidx i.prev i.vout) (K.bidx t.tx.id)) s.spent,
                             pool := s.pool.set (K.bidx t.tx.id) t,
                             weightTotal := s.weightTotal + t.tx.weight } : State) = s1
  have c1 := addToSort_frame K W s1 (K.bidx t.tx.id) t
  have hu : s1.undo = s.undo := by rw [← hs1]
  have hr : s1.rej = s.rej := by rw [← hs1]
  exact ⟨by rw [c1.undo, hu], fun h => c1.rej (fun b r t' hb ht' => h b r t' (by rw [← hr]; exact hb) ht')⟩

theorem addT2S_InvR (K : Keys) (W : Tx → Prop) (s : State) (t : T2S) (h : InvR K W s) (ht : W t.tx)
    (hfresh : s.pool.get? (K.bidx t.tx.id) = none)
    (hfree : ∀ u ∈ uidxs K t.tx, s.spent.get? u = none) : InvR K W (addT2S K s t) := by
  obtain ⟨hp, _⟩ := addT2S_pool_spent K s t
  obtain ⟨hu, hr⟩ := addT2S_aux K W s t
  refine ⟨addT2S_InvS K s t h.str hfresh hfree, ?_, ?_, hr h.rejW, by rw [hu]; exact h.undoW⟩
  · rw [hp]; exact AList.nodup_set _ _ _ h.nodup
  · intro b t' hb
    rw [hp] at hb
    by_cases e : b = K.bidx t.tx.id
    · rw [e, AList.get?_set_self] at hb; cases hb; exact ht
    · rw [AList.get?_set_other _ _ _ _ e] at hb; exact h.poolW b t' hb

/-! ### deleting a list of pooled keys (replacement) -/

theorem delOne_spent_get (K : Keys) (s : State) (t : T2S) (reason : Nat) (u : Nat) :
    (delOne K s t reason).spent.get? u = if u ∈ uidxs K t.tx then none else s.spent.get? u := by
  rw [(delOne_pool_spent K s t reason).2]
  exact get?_foldl_del (fun i => K.uidx i.prev i.vout) t.tx.ins s.spent u

/-- delete the pooled records under the keys of `l`, one by one -/
def delKeys (K : Keys) (reason : Nat) (s : State) (l : List Nat) : State :=
  l.foldl (fun s b => match s.pool.get? b with
    | some t => delOne K s t reason
    | none => s) s

theorem delKeys_cons (K : Keys) (reason : Nat) (s : State) (b : Nat) (r : List Nat) :
    delKeys K reason s (b :: r) = delKeys K reason (match s.pool.get? b with
      | some t => delOne K s t reason
      | none => s) r := rfl

theorem delList_spec (K : Keys) (W : Tx → Prop) (reason : Nat) : ∀ (l : List Nat) (s : State), InvR K W s →
    InvR K W (delKeys K reason s l) ∧
    (∀ b, b ∈ l → (delKeys K reason s l).pool.get? b = none) ∧
    (∀ b, b ∉ l → (delKeys K reason s l).pool.get? b = s.pool.get? b) ∧
    (∀ u x, (delKeys K reason s l).spent.get? u = some x → s.spent.get? u = some x) := by
  intro l
  induction l with
  | nil => intro s h; exact ⟨h, by simp, by simp [delKeys], by simp [delKeys]⟩
  | cons b r ih =>
    intro s h
    rw [delKeys_cons]
    cases hb : s.pool.get? b with
    | none =>
      simp only []
      obtain ⟨i1, i2, i3, i4⟩ := ih s h
      refine ⟨i1, ?_, ?_, i4⟩
      · intro b' hb'
        by_cases e : b' ∈ r
        · exact i2 b' e
        · rw [i3 b' e]
          rcases List.mem_cons.mp hb' with e2 | e2
          · rw [e2]; exact hb
          · exact absurd e2 e
      · intro b' hb'
        exact i3 b' (fun e => hb' (List.mem_cons_of_mem _ e))
    | some t =>
      simp only []
      have hk := h.str.key b t hb
      have hin : s.pool.get? (K.bidx t.tx.id) = some t := by rw [hk]; exact hb
      have h1 := delOne_InvR K W s t reason h hin
      have hp := (delOne_pool_spent K s t reason).1
      obtain ⟨i1, i2, i3, i4⟩ := ih _ h1
      refine ⟨i1, ?_, ?_, ?_⟩
      · intro b' hb'
        by_cases e : b' ∈ r
        · exact i2 b' e
        · rw [i3 b' e]
          rcases List.mem_cons.mp hb' with e2 | e2
          · rw [e2, hp, hk]; exact AList.get?_del_self _ _
          · exact absurd e2 e
      · intro b' hb'
        rw [i3 b' (fun e => hb' (List.mem_cons_of_mem _ e)), hp, hk]
        exact AList.get?_del_other _ _ _ (fun e => hb' (by rw [e]; exact List.mem_cons_self))
      · intro u x hx
        have := i4 u x hx
        rw [delOne_spent_get] at this
        split at this
        · cases this
        · exact this

/-- after `deleteRbf`, an outpoint index whose pooled spender was on the list is free -/
theorem deleteRbf_spec (K : Keys) (W : Tx → Prop) (s : State) (rbf : List Nat) (h : InvR K W s) :
    InvR K W (deleteRbf K s rbf) ∧
    (∀ u x, (deleteRbf K s rbf).spent.get? u = some x → s.spent.get? u = some x ∧ x ∉ rbf) ∧
    (∀ b x, (deleteRbf K s rbf).pool.get? b = some x → s.pool.get? b = some x) := by
  have e : deleteRbf K s rbf = delKeys K R_REPLACED s rbf.reverse := rfl
  rw [e]
  obtain ⟨i1, i2, i3, i4⟩ := delList_spec K W R_REPLACED rbf.reverse s h
  refine ⟨i1, ?_, ?_⟩
  · intro u x hx
    refine ⟨i4 u x hx, ?_⟩
    intro hm
    obtain ⟨t, ht, _⟩ := i1.str.sound u x hx
    rw [i2 x (List.mem_reverse.mpr hm)] at ht
    cases ht
  · intro b x hx
    by_cases e : b ∈ rbf.reverse
    · rw [i2 b e] at hx; cases hx
    · rw [i3 b e] at hx; exact hx

/-! ### the rbf list of processTx covers every pooled spender of the new transaction's inputs -/

theorem mem_addRbf (l : List Nat) (b x : Nat) : x ∈ addRbf l b ↔ x ∈ l ∨ x = b := by
  unfold addRbf
  split
  · rename_i h
    constructor
    · exact Or.inl
    · rintro (h1 | h1)
      · exact h1
      · rw [h1]; simpa using h
  · simp

theorem foldlM_except_inv {α β ε : Type} (f : β → α → Except ε β) (P : β → Prop)
    (hstep : ∀ b a b', P b → f b a = .ok b' → P b') :
    ∀ (l : List α) (b r : β), P b → l.foldlM f b = .ok r → P r := by
  intro l
  induction l with
  | nil => intro b r hb h; simp [List.foldlM, pure, Except.pure] at h; rw [← h]; exact hb
  | cons a l ih =>
    intro b r hb h
    simp only [List.foldlM_cons, bind, Except.bind] at h
    cases hf : f b a with
    | error e => rw [hf] at h; cases h
    | ok b' => rw [hf] at h; exact ih b' r (hstep b a b' hb hf) h

theorem rbfStep_ok (K : Keys) (s : State) (fl : Flags) (so : Nat) (rbf r : List Nat)
    (h : rbfStep K s fl so rbf = .ok r) : (∀ x ∈ rbf, x ∈ r) ∧ so ∈ r := by
  unfold rbfStep at h
  split at h
  · cases h
  · dsimp only at h
    split at h
    · cases h
    · split at h
      · cases h
      · refine foldlM_except_inv _ (fun r => (∀ x ∈ rbf, x ∈ r) ∧ so ∈ r) ?_ _ _ r ?_ h
        · intro b a b' hb hf
          split at hf
          · cases hf
          · split at hf
            · cases hf
            · split at hf
              · cases hf
              · cases hf
                exact ⟨fun x hx => (mem_addRbf _ _ _).mpr (Or.inl (hb.1 x hx)), (mem_addRbf _ _ _).mpr (Or.inl hb.2)⟩
        · exact ⟨fun x hx => (mem_addRbf _ _ _).mpr (Or.inl hx), (mem_addRbf _ _ _).mpr (Or.inr rfl)⟩

theorem inputStep_rbf (K : Keys) (s : State) (fl : Flags) (a a1 : Acc) (i : TxIn)
    (h : inputStep K s fl a i = .ok a1) :
    (∀ x ∈ a.rbf, x ∈ a1.rbf) ∧ (∀ so, s.spent.get? (K.uidx i.prev i.vout) = some so → so ∈ a1.rbf) := by
  unfold inputStep at h
  simp only [bind, Except.bind, pure, Except.pure] at h
  cases hsp : s.spent.get? (K.uidx i.prev i.vout) with
  | none =>
    rw [hsp] at h
    simp only at h
    have e : a1.rbf = a.rbf := by
      repeat' split at h
      all_goals first | (cases h; rfl) | (simp [throw, throwThe, MonadExcept.throw] at h)
    rw [e]
    exact ⟨fun x hx => hx, fun so hso => by cases hso⟩
  | some so =>
    rw [hsp] at h
    simp only at h
    cases hr : rbfStep K s fl so a.rbf with
    | error e => rw [hr] at h; cases h
    | ok v =>
      rw [hr] at h
      simp only at h
      have e : a1.rbf = v := by
        repeat' split at h
        all_goals first | (cases h; rfl) | (simp [throw, throwThe, MonadExcept.throw] at h)
      rw [e]
      have := rbfStep_ok K s fl so a.rbf v hr
      exact ⟨this.1, fun so' hso => by cases hso; exact this.2⟩

theorem inputs_rbf_cover (K : Keys) (s : State) (fl : Flags) : ∀ (ins : List TxIn) (a a' : Acc),
    ins.foldlM (inputStep K s fl) a = .ok a' →
    (∀ x ∈ a.rbf, x ∈ a'.rbf) ∧
    (∀ i ∈ ins, ∀ so, s.spent.get? (K.uidx i.prev i.vout) = some so → so ∈ a'.rbf) := by
  intro ins
  induction ins with
  | nil => intro a a' h; simp [List.foldlM, pure, Except.pure] at h; rw [← h]; exact ⟨fun x hx => hx, by simp⟩
  | cons i r ih =>
    intro a a' h
    simp only [List.foldlM_cons, bind, Except.bind] at h
    cases hf : inputStep K s fl a i with
    | error e => rw [hf] at h; cases h
    | ok a1 =>
      rw [hf] at h
      obtain ⟨m1, c1⟩ := inputStep_rbf K s fl a a1 i hf
      obtain ⟨m2, c2⟩ := ih a1 a' h
      refine ⟨fun x hx => m2 x (m1 x hx), ?_⟩
      intro j hj so hso
      rcases List.mem_cons.mp hj with e | e
      · rw [e] at hso; exact m2 so (c1 so hso)
      · exact c2 j e so hso

theorem processTx_InvR {K : Keys} {W : Tx → Prop} {rank : TxId → Nat} (U : Univ K W rank) (mf : Nat) (s : State)
    (t : Tx) (fl : Flags) (h : InvR K W s) (ht : W t) : InvR K W (processTx K mf s t fl).2 := by
  have fr : ∀ (c why : Nat) m, InvR K W (c, rejectTx K s t why m).2 := fun _ why m => InvR_of_frame h (rejectTx_frame K W s t why m ht)
  unfold processTx
  split
  · exact fr _ _ _
  · split
    · exact fr _ _ _
    · split
      · dsimp only
        split
        · exact fr 0 _ _
        · split
          · exact InvR_of_frame h (Frame.of_eq rfl rfl rfl rfl rfl rfl)
          · exact h
      · rename_i a ha
        dsimp only
        split
        · exact fr _ _ _
        · split
          · exact fr _ _ _
          · split
            · exact h
            · split
              · exact fr _ _ _
              · split
                · exact h
                · show InvR K W (addT2S K (deleteRbf K s a.rbf) _)
                  obtain ⟨d1, d2, d3⟩ := deleteRbf_spec K W s a.rbf h
                  obtain ⟨_, cov⟩ := inputs_rbf_cover K s fl t.ins _ a ha
                  have hfree : ∀ u ∈ uidxs K t, (deleteRbf K s a.rbf).spent.get? u = none := by
                    intro u hu
                    obtain ⟨i, hi, rfl⟩ := List.mem_map.mp hu
                    cases hx : (deleteRbf K s a.rbf).spent.get? (K.uidx i.prev i.vout) with
                    | none => rfl
                    | some x =>
                      obtain ⟨e1, e2⟩ := d2 _ x hx
                      exact absurd (cov i hi x e1) e2
                  apply addT2S_InvR K W _ _ d1 ht
                  · show (deleteRbf K s a.rbf).pool.get? (K.bidx t.id) = none
                    cases hx : (deleteRbf K s a.rbf).pool.get? (K.bidx t.id) with
                    | none => rfl
                    | some old =>
                      exfalso
                      have k := d1.str.key _ old hx
                      have e : old.tx = t := U.id_fun _ _ (d1.poolW _ old hx) ht (U.bidx_inj _ _ (d1.poolW _ old hx) ht k)
                      have hne := U.ins_ne t ht
                      cases hi : t.ins with
                      | nil => exact hne hi
                      | cons i r =>
                        have hu : K.uidx i.prev i.vout ∈ uidxs K t := by
                          unfold uidxs; rw [hi]; simp
                        have c := d1.str.complete _ old hx (K.uidx i.prev i.vout) (by rw [e]; exact hu)
                        rw [hfree _ hu] at c
                        cases c
                  · exact hfree

theorem txAcceptedAux_InvR {K : Keys} {W : Tx → Prop} {rank : TxId → Nat} (U : Univ K W rank) (mf : Nat) :
    ∀ (fuel : Nat) (s : State) (recs : List Nat) (d : Nat), InvR K W s →
    InvR K W (txAcceptedAux K mf fuel s recs d) := by
  intro fuel
  induction fuel with
  | zero => intro s recs d h; exact InvR_of_frame h (Frame.of_eq rfl rfl rfl rfl rfl rfl)
  | succ n ih =>
    intro s recs d h
    unfold txAcceptedAux
    split
    · exact h
    · split
      · exact ih _ _ _ h
      · split
        · exact InvR_of_frame h (Frame.of_eq rfl rfl rfl rfl rfl rfl)
        · split
          · exact InvR_of_frame h (Frame.of_eq rfl rfl rfl rfl rfl rfl)
          · rename_i txr htxr
            have h1 := InvR_of_frame h (rejDelete_frame K W s txr)
            dsimp only
            split
            · exact InvR_of_frame h1 (Frame.of_eq rfl rfl rfl rfl rfl rfl)
            · rename_i t htx
              have ht : W t := h.rejW _ txr t htxr htx
              have h2 := processTx_InvR U mf _ t {} h1 ht
              apply ih
              split
              · split
                · split
                  · exact InvR_of_frame h2 ((rejDeleteByIdx_frame K W _ _).trans (rejectTx_frame K W _ t _ _ ht))
                  · exact h2
                · exact h2
              · exact h2

theorem txAccepted_InvR {K : Keys} {W : Tx → Prop} {rank : TxId → Nat} (U : Univ K W rank) (mf : Nat) (s : State)
    (b : Nat) (h : InvR K W s) : InvR K W (txAccepted K mf s b) :=
  txAcceptedAux_InvR U mf _ s _ _ h

theorem submitNet_InvR {K : Keys} {W : Tx → Prop} {rank : TxId → Nat} (U : Univ K W rank) (mf : Nat) (s : State)
    (t : Tx) (tr : Bool) (h : InvR K W s) (ht : W t) : InvR K W (submitNet K mf s t tr).2 := by
  unfold submitNet
  dsimp only
  split
  · exact h
  · have h2 := processTx_InvR U mf s t { trusted := tr } h ht
    split
    · exact txAccepted_InvR U mf _ _ h2
    · exact h2



/-- a pooled spender of an output of `t` has a higher rank than `t` -/
theorem child_rank {K : Keys} {W : Tx → Prop} {rank : TxId → Nat} (U : Univ K W rank) (s : State) (h : InvR K W s)
    (t : Tx) (ht : W t) (vout so : Nat) (c : T2S) (hs : s.spent.get? (K.uidx t.id vout) = some so)
    (hc : s.pool.get? so = some c) : rank t.id < rank c.tx.id ∧ K.bidx c.tx.id = so := by
  obtain ⟨c', hc', hu⟩ := h.str.sound _ _ hs
  rw [hc] at hc'; cases hc'
  obtain ⟨i, hi, e⟩ := List.mem_map.mp hu
  have hcW := h.poolW _ _ hc
  have := U.uidx_inj c.tx t hcW ht i hi vout e
  rw [← this]
  exact ⟨U.acyclic c.tx hcW i hi, h.str.key _ _ hc⟩

theorem delWC_spec {K : Keys} {W : Tx → Prop} {rank : TxId → Nat} (U : Univ K W rank) (reason : Nat) :
    ∀ (fuel : Nat) (s : State) (t : T2S), InvR K W s → s.pool.get? (K.bidx t.tx.id) = some t →
    InvR K W (delWithChildren K reason fuel s t) ∧
    (∀ b x, s.pool.get? b = some x → rank x.tx.id < rank t.tx.id →
      (delWithChildren K reason fuel s t).pool.get? b = some x) := by
  intro fuel
  induction fuel with
  | zero =>
    intro s t h _
    exact ⟨InvR_of_frame h (Frame.of_eq rfl rfl rfl rfl rfl rfl), fun b x hx _ => hx⟩
  | succ n ih =>
    intro s t h hin
    unfold delWithChildren
    dsimp only
    -- the fold over the outputs keeps the invariant and every record ranked ≤ t
    have fold : ∀ (l : List Nat) (cur : State),
        (InvR K W cur ∧ ∀ b x, s.pool.get? b = some x → rank x.tx.id ≤ rank t.tx.id → cur.pool.get? b = some x) →
        (InvR K W (l.foldl (fun s vout =>
          match s.spent.get? (K.uidx t.tx.id vout) with
          | none => s
          | some so => match s.pool.get? so with
            | none => s
            | some child => delWithChildren K reason n s child) cur) ∧
         ∀ b x, s.pool.get? b = some x → rank x.tx.id ≤ rank t.tx.id →
          (l.foldl (fun s vout =>
          match s.spent.get? (K.uidx t.tx.id vout) with
          | none => s
          | some so => match s.pool.get? so with
            | none => s
            | some child => delWithChildren K reason n s child) cur).pool.get? b = some x) := by
      intro l
      induction l with
      | nil => intro cur hc; exact hc
      | cons v r ihl =>
        intro cur hc
        simp only [List.foldl_cons]
        apply ihl
        split
        · exact hc
        · split
          · exact hc
          · rename_i so hso _ c hcc
            obtain ⟨rk, kk⟩ := child_rank U cur hc.1 t.tx (h.poolW _ _ hin) v so c hso hcc
            obtain ⟨p1, p2⟩ := ih cur c hc.1 (by rw [kk]; exact hcc)
            exact ⟨p1, fun b x hx hr => p2 b x (hc.2 b x hx hr) (Nat.lt_of_le_of_lt hr rk)⟩
    obtain ⟨f1, f2⟩ := fold (iota t.tx.outs.length) s ⟨h, fun b x hx _ => hx⟩
    have hin' := f2 _ t hin (Nat.le_refl _)
    refine ⟨delOne_InvR K W _ t reason f1 hin', ?_⟩
    intro b x hx hr
    rw [(delOne_pool_spent K _ t reason).1]
    have hb := f2 b x hx (Nat.le_of_lt hr)
    have : b ≠ K.bidx t.tx.id := by
      intro e
      rw [e, hin'] at hb
      cases hb
      exact Nat.lt_irrefl _ hr
    rw [AList.get?_del_other _ _ _ this]
    exact hb



theorem expire_InvR {K : Keys} {W : Tx → Prop} {rank : TxId → Nat} (U : Univ K W rank) :
    ∀ (old : List Nat) (s : State), InvR K W s → InvR K W (expire K s old) := by
  intro old
  induction old with
  | nil => intro s h; exact h
  | cons b r ih =>
    intro s h
    unfold expire
    simp only [List.foldl_cons]
    apply ih
    split
    · rename_i t ht
      exact (delWC_spec U 0 _ s t h (by rw [h.str.key _ _ ht]; exact ht)).1
    · exact h

/-- replacing a pooled record by one carrying the same transaction (MemInputs flags change) -/
theorem setRec_InvR {K : Keys} {W : Tx → Prop} {s s' : State} (h : InvR K W s) (b : Nat) (r' : T2S)
    (e1 : s'.pool = s.pool.set b r') (hb' : (s.pool.get? b).map T2S.tx = some r'.tx)
    (e2 : s'.spent = s.spent) (e3 : s'.rej = s.rej) (e4 : s'.undo = s.undo) :
    InvR K W s' ∧ ∀ b0 x, s.pool.get? b0 = some x → ∃ x', s'.pool.get? b0 = some x' ∧ x'.tx = x.tx := by
  obtain ⟨r, hb, htx⟩ : ∃ r, s.pool.get? b = some r ∧ r'.tx = r.tx := by
    cases hr : s.pool.get? b with
    | none => rw [hr] at hb'; cases hb'
    | some r => rw [hr] at hb'; exact ⟨r, rfl, (Option.some.inj hb').symm⟩
  have look : ∀ b0 x, s.pool.get? b0 = some x → ∃ x', s'.pool.get? b0 = some x' ∧ x'.tx = x.tx := by
    intro b0 x hx
    rw [e1]
    by_cases e : b0 = b
    · rw [e, AList.get?_set_self]; rw [e, hb] at hx; cases hx; exact ⟨r', rfl, htx⟩
    · rw [AList.get?_set_other _ _ _ _ e]; exact ⟨x, hx, rfl⟩
  have back : ∀ b0 x', s'.pool.get? b0 = some x' → ∃ x, s.pool.get? b0 = some x ∧ x'.tx = x.tx := by
    intro b0 x' hx
    rw [e1] at hx
    by_cases e : b0 = b
    · rw [e, AList.get?_set_self] at hx; cases hx; exact ⟨r, by rw [e]; exact hb, htx⟩
    · rw [AList.get?_set_other _ _ _ _ e] at hx; exact ⟨x', hx, rfl⟩
  refine ⟨⟨⟨?_, ?_, ?_⟩, ?_, ?_, ?_, ?_⟩, look⟩
  · intro b0 x' hx
    obtain ⟨x, hx0, e⟩ := back b0 x' hx
    rw [e]; exact h.str.key b0 x hx0
  · intro u b0 hu
    rw [e2] at hu
    obtain ⟨x, hx, hm⟩ := h.str.sound u b0 hu
    obtain ⟨x', hx', e⟩ := look b0 x hx
    exact ⟨x', hx', by rw [e]; exact hm⟩
  · intro b0 x' hx u hu
    obtain ⟨x, hx0, e⟩ := back b0 x' hx
    rw [e2]
    exact h.str.complete b0 x hx0 u (by rw [← e]; exact hu)
  · rw [e1]; exact AList.nodup_set _ _ _ h.nodup
  · intro b0 x' hx
    obtain ⟨x, hx0, e⟩ := back b0 x' hx
    rw [e]; exact h.poolW b0 x hx0
  · intro b0 r0 t hb0 ht
    exact h.rejW b0 r0 t (by rw [← e3]; exact hb0) ht
  · rw [e4]; exact h.undoW

/-- LoadRawTx's "make as own": the record keeps its transaction, only `loc` changes -/
theorem markLocal_same {K : Keys} {W : Tx → Prop} (s : State) (id : TxId) (h : InvR K W s) :
    InvR K W (markLocal K s id) ∧
    ∀ b0 x, s.pool.get? b0 = some x → ∃ x', (markLocal K s id).pool.get? b0 = some x' ∧ x'.tx = x.tx := by
  unfold markLocal
  split
  · rename_i r hr
    exact setRec_InvR h (K.bidx id) { r with loc := true } rfl (by rw [hr]; rfl) rfl rfl rfl
  · exact ⟨h, fun b0 x hx => ⟨x, hx, rfl⟩⟩

theorem markLocal_InvR (K : Keys) {W : Tx → Prop} (s : State) (id : TxId) (h : InvR K W s) :
    InvR K W (markLocal K s id) := (markLocal_same s id h).1

theorem submitLocal_InvR {K : Keys} {W : Tx → Prop} {rank : TxId → Nat} (U : Univ K W rank) (mf : Nat) (s : State)
    (t : Tx) (h : InvR K W s) (ht : W t) : InvR K W (submitLocal K mf s t).2 := by
  unfold submitLocal
  dsimp only
  have h1 := InvR_of_frame h (rejDeleteByIdx_frame K W s (K.bidx t.id))
  split
  · exact markLocal_InvR K _ t.id h1
  · have h2 := processTx_InvR U mf _ t { trusted := true, loc := true } h1 ht
    split
    · exact txAccepted_InvR U mf _ _ h2
    · exact h2

/-- `s'` satisfies the invariant and holds the same transactions under the same keys as `s` (flags may differ) -/
def SameTxs (K : Keys) (W : Tx → Prop) (s s' : State) : Prop :=
  InvR K W s' ∧ ∀ b x, s.pool.get? b = some x → ∃ x', s'.pool.get? b = some x' ∧ x'.tx = x.tx

theorem SameTxs.trans {K : Keys} {W : Tx → Prop} {a b c : State} (h1 : SameTxs K W a b) (h2 : SameTxs K W b c) :
    SameTxs K W a c :=
  ⟨h2.1, fun k x hx => by
    obtain ⟨x1, hx1, e1⟩ := h1.2 k x hx
    obtain ⟨x2, hx2, e2⟩ := h2.2 k x1 hx1
    exact ⟨x2, hx2, e2.trans e1⟩⟩

theorem foldl_SameTxs {K : Keys} {W : Tx → Prop} (f : State → Nat → State)
    (hf : ∀ s v, InvR K W s → SameTxs K W s (f s v)) :
    ∀ (l : List Nat) (s : State), InvR K W s → SameTxs K W s (l.foldl f s) := by
  intro l
  induction l with
  | nil => intro s h; exact ⟨h, fun b x hx => ⟨x, hx, rfl⟩⟩
  | cons v r ih =>
    intro s h
    simp only [List.foldl_cons]
    have h1 := hf s v h
    exact h1.trans (ih _ h1.1)

theorem minedFlags_spec {K : Keys} {W : Tx → Prop} (s : State) (t : T2S) (h : InvR K W s) :
    SameTxs K W s (minedFlags K s t) := by
  unfold minedFlags
  apply foldl_SameTxs _ _ _ s h
  intro s v h
  have same : SameTxs K W s s := ⟨h, fun b x hx => ⟨x, hx, rfl⟩⟩
  dsimp only
  repeat' split
  all_goals first
    | exact same
    | exact ⟨InvR_of_frame h (Frame.of_eq rfl rfl rfl rfl rfl rfl), same.2⟩
    | exact setRec_InvR h _ _ rfl (by rw [‹s.pool.get? _ = some _›]; rfl) rfl rfl rfl

theorem unminedFlags_spec {K : Keys} {W : Tx → Prop} (s : State) (t : T2S) (h : InvR K W s) :
    SameTxs K W s (unminedFlags K s t) := by
  unfold unminedFlags
  apply foldl_SameTxs _ _ _ s h
  intro s v h
  have same : SameTxs K W s s := ⟨h, fun b x hx => ⟨x, hx, rfl⟩⟩
  dsimp only
  repeat' split
  all_goals first
    | exact same
    | exact ⟨InvR_of_frame h (Frame.of_eq rfl rfl rfl rfl rfl rfl), same.2⟩
    | exact setRec_InvR h _ _ rfl (by rw [‹s.pool.get? _ = some _›]; rfl) rfl rfl rfl



theorem foldl_pair_inv {α : Type} (P : State → Prop) (f : Bool × State → α → Bool × State)
    (hf : ∀ acc a, P acc.2 → P (f acc a).2) : ∀ (l : List α) (acc : Bool × State), P acc.2 → P (l.foldl f acc).2 := by
  intro l
  induction l with
  | nil => intro acc h; exact h
  | cons a r ih => intro acc h; exact ih _ (hf acc a h)

/-- the loop body of txMined over the inputs, named -/
def txMinedStep (K : Keys) (b : Nat) (wasIn : Bool) (acc : Bool × State) (i : TxIn) : Bool × State :=
  let u := K.uidx i.prev i.vout
  let s1 := if wasIn then acc.2 else
    match acc.2.spent.get? u with
    | none => acc.2
    | some val => match acc.2.pool.get? val with
      | some r => delWithChildren K 0 (acc.2.pool.length + 1) acc.2 r
      | none => { acc.2 with spent := acc.2.spent.del u }
  match s1.rejSpent.get? u with
  | none => (acc.1, s1)
  | some lst =>
    let q := lst.foldl (fun (acc : Bool × State) rb =>
      match acc.2.rej.get? rb with
      | some txr => (acc.1 || rb = b, rejDelete K acc.2 txr)
      | none => (acc.1, acc.2)) (acc.1, s1)
    (q.1, { q.2 with rejSpent := q.2.rejSpent.del u })

def txMined' (K : Keys) (s : State) (t : Tx) : State :=
  let b := K.bidx t.id
  let p : Bool × State := match s.pool.get? b with
    | some r => (true, delOne K (minedFlags K s r) r 0)
    | none => (false, s)
  let q := t.ins.foldl (txMinedStep K b p.1) (false, p.2)
  if q.1 || p.1 then q.2 else rejDeleteByIdx K q.2 b

theorem txMined_eq (K : Keys) (s : State) (t : Tx) : txMined K s t = txMined' K s t := rfl

theorem txMinedStep_InvR {K : Keys} {W : Tx → Prop} {rank : TxId → Nat} (U : Univ K W rank) (b : Nat) (wasIn : Bool)
    (acc : Bool × State) (i : TxIn) (h : InvR K W acc.2) : InvR K W (txMinedStep K b wasIn acc i).2 := by
  unfold txMinedStep
  dsimp only
  -- the pool part
  have h1 : InvR K W (if wasIn then acc.2 else
      match acc.2.spent.get? (K.uidx i.prev i.vout) with
      | none => acc.2
      | some val => match acc.2.pool.get? val with
        | some r => delWithChildren K 0 (acc.2.pool.length + 1) acc.2 r
        | none => { acc.2 with spent := acc.2.spent.del (K.uidx i.prev i.vout) }) := by
    split
    · exact h
    · split
      · exact h
      · split
        · rename_i r hr
          exact (delWC_spec U 0 _ acc.2 r h (by rw [h.str.key _ _ hr]; exact hr)).1
        · rename_i val hval _ hnone
          obtain ⟨t', ht', _⟩ := h.str.sound _ _ hval
          rw [hnone] at ht'; cases ht'
  generalize (if wasIn then acc.2 else
      match acc.2.spent.get? (K.uidx i.prev i.vout) with
      | none => acc.2
      | some val => match acc.2.pool.get? val with
        | some r => delWithChildren K 0 (acc.2.pool.length + 1) acc.2 r
        | none => { acc.2 with spent := acc.2.spent.del (K.uidx i.prev i.vout) }) = s1 at h1 ⊢
  split
  · exact h1
  · rename_i lst _
    have h2 := foldl_pair_inv (InvR K W) (fun (acc : Bool × State) rb =>
      match acc.2.rej.get? rb with
      | some txr => (acc.1 || rb = b, rejDelete K acc.2 txr)
      | none => (acc.1, acc.2)) (by
        intro a rb ha
        split
        · exact InvR_of_frame ha (rejDelete_frame K W _ _)
        · exact ha) lst (acc.1, s1) h1
    exact InvR_of_frame h2 (Frame.of_eq rfl rfl rfl rfl rfl rfl)

theorem txMined_InvR {K : Keys} {W : Tx → Prop} {rank : TxId → Nat} (U : Univ K W rank) (s : State) (t : Tx)
    (h : InvR K W s) : InvR K W (txMined K s t) := by
  rw [txMined_eq]
  unfold txMined'
  dsimp only
  have hp : InvR K W (match s.pool.get? (K.bidx t.id) with
    | some r => (true, delOne K (minedFlags K s r) r 0)
    | none => (false, s) : Bool × State).2 := by
    split
    · rename_i r hr
      obtain ⟨m1, m2⟩ := minedFlags_spec (K := K) (W := W) s r h
      obtain ⟨r', hr', e⟩ := m2 _ r hr
      rw [delOne_congr K _ r r' 0 e.symm]
      have k : K.bidx r'.tx.id = K.bidx t.id := by rw [e]; exact h.str.key _ _ hr
      exact delOne_InvR K W _ r' 0 m1 (by rw [k]; exact hr')
    · exact h
  generalize (match s.pool.get? (K.bidx t.id) with
    | some r => (true, delOne K (minedFlags K s r) r 0)
    | none => (false, s) : Bool × State) = p at hp ⊢
  have hq := foldl_pair_inv (InvR K W) (txMinedStep K (K.bidx t.id) p.1)
    (fun acc i ha => txMinedStep_InvR U _ _ acc i ha) t.ins (false, p.2) hp
  split
  · exact hq
  · exact InvR_of_frame hq (rejDeleteByIdx_frame K W _ _)

theorem foldl_inv {α : Type} (P : State → Prop) (f : State → α → State)
    (hf : ∀ s a, P s → P (f s a)) : ∀ (l : List α) (s : State), P s → P (l.foldl f s) := by
  intro l
  induction l with
  | nil => intro s h; exact h
  | cons a r ih => intro s h; exact ih _ (hf s a h)

theorem blockMined_InvR {K : Keys} {W : Tx → Prop} {rank : TxId → Nat} (U : Univ K W rank) (mf : Nat) (s : State)
    (txs : List Tx) (h : InvR K W s) : InvR K W (blockMined K mf s txs) := by
  unfold blockMined
  split
  · exact h
  · dsimp only
    apply foldl_inv (InvR K W) _ (fun s t hs => txAccepted_InvR U mf s _ hs)
    exact foldl_inv (InvR K W) _ (fun s t hs => txMined_InvR U s t hs) _ s h

theorem connectUtxo_InvR {K : Keys} {W : Tx → Prop} (s : State) (hh : Nat) (txs : List Tx) (h : InvR K W s)
    (hW : ∀ t ∈ txs, W t) : InvR K W (connectUtxo s hh txs) := by
  unfold connectUtxo
  split
  rename_i u sc _
  refine ⟨⟨h.str.key, h.str.sound, h.str.complete⟩, h.nodup, h.poolW, h.rejW, ?_⟩
  intro e he t ht
  simp only [List.mem_cons] at he
  rcases he with rfl | he
  · exact hW t ht
  · exact h.undoW e he t ht

theorem disconnectUtxo_InvR {K : Keys} {W : Tx → Prop} (s s' : State) (txs : List Tx) (h : InvR K W s)
    (hd : disconnectUtxo s = some (s', txs)) : InvR K W s' ∧ ∀ t ∈ txs, W t := by
  unfold disconnectUtxo at hd
  split at hd
  · cases hd
  · rename_i txs0 sc rest hu
    simp only [Option.some.injEq, Prod.mk.injEq] at hd
    obtain ⟨rfl, rfl⟩ := hd
    refine ⟨⟨⟨h.str.key, h.str.sound, h.str.complete⟩, h.nodup, h.poolW, h.rejW, ?_⟩, ?_⟩
    · intro e he t ht
      exact h.undoW e (by rw [hu]; exact List.mem_cons_of_mem _ he) t ht
    · intro t ht
      exact h.undoW (txs0, sc) (by rw [hu]; exact List.mem_cons_self) t ht

theorem blockUndone_InvR {K : Keys} {W : Tx → Prop} {rank : TxId → Nat} (U : Univ K W rank) (mf : Nat) (s : State)
    (txs : List Tx) (h : InvR K W s) (hW : ∀ t ∈ txs, W t) : InvR K W (blockUndone K mf s txs) := by
  unfold blockUndone
  split
  · exact h
  · have gen : ∀ (l : List Tx) (s : State), (∀ t ∈ l, W t) → InvR K W s →
        InvR K W (l.foldl (fun s t =>
          let s := rejDeleteByIdx K s (K.bidx t.id)
          let (res, s) := processTx K mf s t { trusted := true, unmined := true }
          if res = 0 then
            match s.pool.get? (K.bidx t.id) with
            | some r => unminedFlags K s r
            | none => { s with panicked := true }
          else { s with panicked := true }) s) := by
      intro l
      induction l with
      | nil => intro s _ hs; exact hs
      | cons t r ih =>
        intro s hl hs
        simp only [List.foldl_cons]
        apply ih _ (fun t' ht' => hl t' (List.mem_cons_of_mem _ ht'))
        have h1 := InvR_of_frame hs (rejDeleteByIdx_frame K W s (K.bidx t.id))
        have h2 := processTx_InvR U mf _ t { trusted := true, unmined := true } h1 (hl t List.mem_cons_self)
        split
        · split
          · exact (unminedFlags_spec _ _ h2).1
          · exact InvR_of_frame h2 (Frame.of_eq rfl rfl rfl rfl rfl rfl)
        · exact InvR_of_frame h2 (Frame.of_eq rfl rfl rfl rfl rfl rfl)
    exact gen txs s hW h



theorem evict_InvR (K : Keys) (W : Tx → Prop) : ∀ (l : List Nat) (s s' : State), InvR K W s → evict K s l = some s' →
    InvR K W s' := by
  intro l
  induction l with
  | nil => intro s s' h he; simp [evict] at he; rw [← he]; exact h
  | cons b r ih =>
    intro s s' h he
    simp only [evict, List.foldlM_cons] at he
    cases hb : s.pool.get? b with
    | none => simp [hb] at he
    | some t =>
      simp only [hb] at he
      by_cases hc : hasNoChildren K s t = true
      · simp only [hc, if_true, Option.bind_eq_bind, Option.bind_some] at he
        have hk := h.str.key b t hb
        exact ih _ s' (delOne_InvR K W s t 0 h (by rw [hk]; exact hb)) he
      · simp [hc] at he

/-- the SpentOutputs map rebuilt by MempoolLoad from a list of records -/
def rebuildSpent (K : Keys) (L : List (Nat × T2S)) (m0 : AList Nat Nat) : AList Nat Nat :=
  L.foldl (fun (m : AList Nat Nat) p => p.2.tx.ins.foldl (fun m i => m.set (K.uidx i.prev i.vout) p.1) m) m0

theorem rebuildSpent_cons (K : Keys) (p : Nat × T2S) (L : List (Nat × T2S)) (m0 : AList Nat Nat) :
    rebuildSpent K (p :: L) m0 =
      rebuildSpent K L (p.2.tx.ins.foldl (fun m i => m.set (K.uidx i.prev i.vout) p.1) m0) := rfl

theorem rebuildSpent_sound (K : Keys) : ∀ (L : List (Nat × T2S)) (m0 : AList Nat Nat) (u x : Nat),
    (rebuildSpent K L m0).get? u = some x →
    (∃ p ∈ L, p.1 = x ∧ u ∈ uidxs K p.2.tx) ∨ m0.get? u = some x := by
  intro L
  induction L with
  | nil => intro m0 u x h; exact Or.inr h
  | cons p r ih =>
    intro m0 u x h
    rw [rebuildSpent_cons] at h
    rcases ih _ u x h with ⟨q, hq, e⟩ | h2
    · exact Or.inl ⟨q, List.mem_cons_of_mem _ hq, e⟩
    · rw [get?_foldl_set (fun i => K.uidx i.prev i.vout) p.1 p.2.tx.ins m0 u] at h2
      split at h2
      · rename_i hm
        cases h2
        exact Or.inl ⟨p, List.mem_cons_self, rfl, hm⟩
      · exact Or.inr h2

theorem rebuildSpent_complete (K : Keys) (u b : Nat) : ∀ (L : List (Nat × T2S)) (m0 : AList Nat Nat),
    (∀ p ∈ L, u ∈ uidxs K p.2.tx → p.1 = b) →
    ((∃ p ∈ L, u ∈ uidxs K p.2.tx) ∨ m0.get? u = some b) →
    (rebuildSpent K L m0).get? u = some b := by
  intro L
  induction L with
  | nil =>
    intro m0 _ h
    rcases h with ⟨p, hp, _⟩ | h
    · simp at hp
    · exact h
  | cons p r ih =>
    intro m0 hall h
    rw [rebuildSpent_cons]
    apply ih _ (fun q hq => hall q (List.mem_cons_of_mem _ hq))
    rw [get?_foldl_set (fun i => K.uidx i.prev i.vout) p.1 p.2.tx.ins m0 u]
    by_cases hm : u ∈ uidxs K p.2.tx
    · right
      have : u ∈ List.map (fun i => K.uidx i.prev i.vout) p.2.tx.ins := hm
      simp only [this, if_true]
      rw [hall p List.mem_cons_self hm]
    · have : ¬ u ∈ List.map (fun i => K.uidx i.prev i.vout) p.2.tx.ins := hm
      simp only [this, if_false]
      rcases h with ⟨q, hq, hu⟩ | h
      · rcases List.mem_cons.mp hq with e | e
        · rw [e] at hu; exact absurd hu hm
        · exact Or.inl ⟨q, e, hu⟩
      · exact Or.inr h



/-- the record rewrite of MempoolLoad (MemInputs recomputed against the loaded pool) -/
def reloadRec (K : Keys) (s : State) (_b : Nat) (t : T2S) : T2S :=
  if t.mem.isEmpty then t
  else { t with mem := if ((t.tx.ins.map fun i => s.pool.has (K.bidx i.prev)).filter id).length = 0 then []
                       else t.tx.ins.map fun i => s.pool.has (K.bidx i.prev),
                memCnt := ((t.tx.ins.map fun i => s.pool.has (K.bidx i.prev)).filter id).length }

theorem reloadRec_tx (K : Keys) (s : State) (b : Nat) (t : T2S) : (reloadRec K s b t).tx = t.tx := by
  unfold reloadRec; split <;> rfl

def reloadPool (K : Keys) (s : State) : AList Nat T2S := s.pool.map fun p => (p.1, reloadRec K s p.1 p.2)

def reloadBase (K : Keys) (s : State) : State :=
  { cfg := s.cfg, pool := reloadPool K s, spent := rebuildSpent K (reloadPool K s) [],
    weightTotal := (reloadPool K s).foldl (fun n p => n + p.2.tx.weight) 0, sorted := [], sortDirty := true,
    sortDisabled := s.sortDisabled, utxo := s.utxo, height := s.height, undo := s.undo, panicked := s.panicked }

def reloadRej (K : Keys) (s : State) (st : State) (slot : Option Nat) : State :=
  match slot with
  | none => st
  | some b => match s.rej.get? b with
    | none => st
    | some r => rejAdd K st (if r.tx.isNone then { r with waiting4 := none } else r)

theorem reload_eq (K : Keys) (s : State) : reload K s = s.ring.foldl (reloadRej K s) (reloadBase K s) := by
  have e : (fun (x : Nat × T2S) => match x with
      | (b, t) => if t.mem.isEmpty then (b, t) else
        let mem := t.tx.ins.map fun i => s.pool.has (K.bidx i.prev)
        let cnt := (mem.filter id).length
        (b, { t with mem := if cnt = 0 then [] else mem, memCnt := cnt })) =
      (fun p => (p.1, reloadRec K s p.1 p.2)) := by
    funext x
    obtain ⟨b, t⟩ := x
    unfold reloadRec
    dsimp only
    split <;> rfl
  unfold reload reloadBase reloadPool rebuildSpent
  dsimp only
  rw [e]
  rfl

theorem reloadPool_get (K : Keys) (s : State) (b : Nat) :
    (reloadPool K s).get? b = (s.pool.get? b).map (reloadRec K s b) :=
  AList.get?_map (reloadRec K s) s.pool b

theorem reloadPool_keys (K : Keys) (s : State) : (reloadPool K s).map Prod.fst = s.pool.map Prod.fst := by
  unfold reloadPool
  rw [List.map_map]
  rfl

theorem reloadBase_InvR {K : Keys} {W : Tx → Prop} (s : State) (h : InvR K W s) : InvR K W (reloadBase K s) := by
  have nd : ((reloadPool K s).map Prod.fst).Nodup := by rw [reloadPool_keys]; exact h.nodup
  -- a record of the reloaded pool comes from a record of the old pool with the same transaction
  have back : ∀ b t', (reloadPool K s).get? b = some t' → ∃ t, s.pool.get? b = some t ∧ t'.tx = t.tx := by
    intro b t' ht'
    rw [reloadPool_get] at ht'
    cases hb : s.pool.get? b with
    | none => rw [hb] at ht'; cases ht'
    | some t => rw [hb] at ht'; cases ht'; exact ⟨t, rfl, reloadRec_tx K s b t⟩
  refine ⟨⟨?_, ?_, ?_⟩, nd, ?_, ?_, h.undoW⟩
  · intro b t' ht'
    obtain ⟨t, ht, e⟩ := back b t' ht'
    rw [e]; exact h.str.key b t ht
  · intro u x hu
    rcases rebuildSpent_sound K (reloadPool K s) [] u x hu with ⟨p, hp, e, hm⟩ | h0
    · refine ⟨p.2, ?_, hm⟩
      rw [← e]
      exact AList.get?_of_mem _ _ _ nd hp
    · simp [AList.get?] at h0
  · intro b t' ht' u hu
    apply rebuildSpent_complete K u b (reloadPool K s) []
    · intro p hp hpu
      have hp' : (reloadPool K s).get? p.1 = some p.2 := AList.get?_of_mem _ _ _ nd hp
      obtain ⟨t1, ht1, e1⟩ := back p.1 p.2 hp'
      obtain ⟨t2, ht2, e2⟩ := back b t' ht'
      have c1 := h.str.complete p.1 t1 ht1 u (by rw [← e1]; exact hpu)
      have c2 := h.str.complete b t2 ht2 u (by rw [← e2]; exact hu)
      rw [c1] at c2
      exact Option.some.inj c2
    · exact Or.inl ⟨(b, t'), AList.mem_of_get? _ _ _ ht', hu⟩
  · intro b t' ht'
    obtain ⟨t, ht, e⟩ := back b t' ht'
    rw [e]; exact h.poolW b t ht
  · intro b r t hb _
    simp [reloadBase, AList.get?] at hb

theorem reload_InvR {K : Keys} {W : Tx → Prop} (s : State) (h : InvR K W s) : InvR K W (reload K s) := by
  rw [reload_eq]
  apply foldl_inv (InvR K W) (reloadRej K s) _ s.ring _ (reloadBase_InvR s h)
  intro st slot hst
  unfold reloadRej
  split
  · exact hst
  · split
    · exact hst
    · rename_i b _ r hr
      apply InvR_of_frame hst
      apply rejAdd_frame
      intro t ht
      apply h.rejW b r t hr
      split at ht
      · exact ht
      · exact ht

theorem buildSorted_InvR {K : Keys} {W : Tx → Prop} (s : State) (h : InvR K W s) : InvR K W (buildSorted K s) := by
  unfold buildSorted
  split
  · exact InvR_of_frame h (Frame.of_eq rfl rfl rfl rfl rfl rfl)
  · exact h

/-! ### all operations, all histories -/

/-- the transactions an operation brings in -/
def Op.txs : Op → List Tx
  | .submitNet t _ _ => [t]
  | .submitLocal t _ => [t]
  | .block _ txs _ => txs
  | _ => []

theorem step_InvR {K : Keys} {W : Tx → Prop} {rank : TxId → Nat} (U : Univ K W rank) (s : State) (op : Op)
    (h : InvR K W s) (hW : ∀ t ∈ op.txs, W t) : InvR K W (step K s op) := by
  cases op with
  | submitNet t tr mf => exact submitNet_InvR U mf s t tr h (hW t (by simp [Op.txs]))
  | submitLocal t mf => exact submitLocal_InvR U mf s t h (hW t (by simp [Op.txs]))
  | block hh txs mf => exact blockMined_InvR U mf _ txs (connectUtxo_InvR s hh txs h hW)
  | undo uh mf =>
    simp only [step]
    cases hd : disconnectUtxo s with
    | none => exact h
    | some p =>
      obtain ⟨s', txs⟩ := p
      obtain ⟨h1, h2⟩ := disconnectUtxo_InvR s s' txs h hd
      exact expire_InvR U _ _ (blockUndone_InvR U mf s' txs h1 h2)
  | tip hh => exact InvR_of_frame h (Frame.of_eq rfl rfl rfl rfl rfl rfl)
  | expire old => exact expire_InvR U old s h
  | evict v =>
    simp only [step]
    cases he : evict K s v with
    | none => simpa using h
    | some s' => simpa using evict_InvR K W v s s' h he
  | resort => exact buildSorted_InvR s h
  | commitFlag y => exact InvR_of_frame h (Frame.of_eq rfl rfl rfl rfl rfl rfl)
  | reload => exact reload_InvR s h

theorem run_InvR {K : Keys} {W : Tx → Prop} {rank : TxId → Nat} (U : Univ K W rank) :
    ∀ (ops : List Op) (s : State), InvR K W s → (∀ op ∈ ops, ∀ t ∈ op.txs, W t) → InvR K W (run K s ops) := by
  intro ops
  induction ops with
  | nil => intro s h _; exact h
  | cons op r ih =>
    intro s h hW
    unfold run
    simp only [List.foldl_cons]
    exact ih _ (step_InvR U s op h (hW op List.mem_cons_self)) (fun o ho => hW o (List.mem_cons_of_mem _ ho))

theorem InvR_init (K : Keys) (W : Tx → Prop) : InvR K W {} := by
  refine ⟨⟨?_, ?_, ?_⟩, by simp, ?_, ?_, ?_⟩
  · intro b t h; simp [AList.get?] at h
  · intro u b h; simp [AList.get?] at h
  · intro b t h; simp [AList.get?] at h
  · intro b t h; simp [AList.get?] at h
  · intro b r t h; simp [AList.get?] at h
  · intro e he; simp at he


end GocoinV.Mempool
