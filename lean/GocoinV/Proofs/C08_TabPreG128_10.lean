/- C08 table proof chunk (written once by Proofs/mk_c08_tab.py; static). -/
import GocoinV.Proofs.C08_TabDefs
import GocoinV.Gen.TablesPreG12810
import GocoinV.Gen.TablesPreG12809
namespace GocoinV.C08
open GocoinV.Gen

theorem preG128_10 : chainOK (Secp.dbl g128) ((pts Tables.preG12809).getLastD none :: pts Tables.preG12810) = true := by
  decide +kernel
theorem preG128_10_ne : pts Tables.preG12810 ≠ [] := by decide +kernel

end GocoinV.C08
