/-
  Proofs.C15Conv2 — the two directions of `convert_bits` used by SegwitEncode / SegwitDecode and their
  round trip, from the invariant of Proofs/C15Conv.lean.
-/
import GocoinV.Proofs.C15Conv
namespace GocoinV.Bech32

theorem maxv5 : ((1 : UInt32) <<< UInt32.ofNat 5) - 1 = 31 := by decide
theorem maxv8 : ((1 : UInt32) <<< UInt32.ofNat 8) - 1 = 255 := by decide

theorem Inv_init (o : Nat) : Inv o ⟨0, 0, []⟩ 0 := ⟨by simp, by simp, by simp [Vr]⟩

theorem u8_lt (x : UInt8) : x.toNat < 2 ^ 8 := x.toNat_lt

/-- the final state of the outer loop, 8 → 5 -/
def st85 (prog : Bytes) : CB :=
  prog.foldl (fun (s : CB) (x : UInt8) =>
      cbStep 5 8 31 8 { s with val := (s.val <<< UInt32.ofNat 8) ||| x.toUInt32, bits := s.bits + 8 }) ⟨0, 0, []⟩

/-- the final state of the outer loop, 5 → 8 -/
def st58 (d : Bytes) : CB :=
  d.foldl (fun (s : CB) (x : UInt8) =>
      cbStep 8 5 255 8 { s with val := (s.val <<< UInt32.ofNat 5) ||| x.toUInt32, bits := s.bits + 5 }) ⟨0, 0, []⟩

theorem st85_spec (prog : Bytes) :
    Inv 5 (st85 prog) (VN 8 prog 0) ∧ (st85 prog).bits < 5 ∧
      (st85 prog).bits + 5 * (st85 prog).out.length = 8 * prog.length := by
  have := fold_spec 5 8 31 (by decide) (by omega) (by omega) (by omega) prog ⟨0, 0, []⟩ 0
    (fun x _ => u8_lt x) (Inv_init 5) (by decide)
  simpa [st85] using this

theorem st58_spec (d : Bytes) (hd : ∀ x ∈ d, x.toNat < 2 ^ 5) :
    Inv 8 (st58 d) (VN 5 d 0) ∧ (st58 d).bits < 8 ∧
      (st58 d).bits + 8 * (st58 d).out.length = 5 * d.length := by
  have := fold_spec 8 5 255 (by decide) (by omega) (by omega) (by omega) d ⟨0, 0, []⟩ 0
    hd (Inv_init 8) (by decide)
  simpa [st58] using this

theorem convertBits_85 (prog : Bytes) : convertBits 5 prog 8 true =
    some (if (st85 prog).bits ≠ 0
      then (st85 prog).out ++ [(((st85 prog).val <<< UInt32.ofNat (5 - (st85 prog).bits)) &&& 31).toUInt8]
      else (st85 prog).out) := by
  unfold convertBits st85
  simp only [maxv5, ↓reduceIte]
  split <;> rfl

theorem convertBits_58 (d : Bytes) : convertBits 8 d 5 false =
    if (((st58 d).val <<< UInt32.ofNat (8 - (st58 d).bits)) &&& 255) ≠ 0 ∨ (st58 d).bits ≥ 5 then none
    else some (st58 d).out := by
  unfold convertBits st58
  simp only [maxv8, Bool.false_eq_true, ↓reduceIte]

/-- the padding symbol of the 8 → 5 direction -/
theorem pad_sym (val : UInt32) (vN b : Nat) (hv : val.toNat = vN % 2 ^ 32) (hb : b ≤ 5) :
    (((val <<< UInt32.ofNat (5 - b)) &&& 31).toUInt8).toNat = (vN * 2 ^ (5 - b)) % 32 := by
  rw [UInt32.toNat_toUInt8, UInt32.toNat_and, shl_toNat _ _ (by omega), hv]
  have : (31 : UInt32).toNat = 2 ^ 5 - 1 := by decide
  rw [this, Nat.and_two_pow_sub_one_eq_mod]
  have h1 : (vN % 2 ^ 32 * 2 ^ (5 - b)) % 2 ^ 32 = (vN * 2 ^ (5 - b)) % 2 ^ 32 := by
    rw [Nat.mul_mod, Nat.mod_mod, ← Nat.mul_mod]
  rw [h1]
  have : (vN * 2 ^ (5 - b)) % 2 ^ 32 % 2 ^ 5 = (vN * 2 ^ (5 - b)) % 2 ^ 5 :=
    Nat.mod_mod_of_dvd _ (Nat.pow_dvd_pow 2 (by omega))
  omega

/-- 8 → 5 with padding: every symbol is a 5-bit value, the number of padding bits `p` is < 5, and the
    output read as a base-32 number is the input read as a base-256 number times 2^p (i.e. the padding
    bits are zero). -/
theorem convertBits_85_spec (prog d : Bytes) (h : convertBits 5 prog 8 true = some d) :
    (∀ x ∈ d, x.toNat < 2 ^ 5) ∧ ∃ p, p < 5 ∧ 5 * d.length = 8 * prog.length + p ∧
      Vr 5 d.reverse = Vr 8 prog.reverse * 2 ^ p := by
  rw [convertBits_85] at h
  obtain ⟨hI, hb, hl⟩ := st85_spec prog
  rw [VN_zero_eq_Vr] at hI
  generalize st85 prog = s at *
  generalize Vr 8 prog.reverse = N at *
  have hdig := hI.dig
  by_cases h0 : s.bits ≠ 0
  · rw [if_pos h0, Option.some.injEq] at h
    subst h
    have hs := pad_sym s.val N s.bits hI.val (by omega)
    refine ⟨?_, 5 - s.bits, by omega, ?_, ?_⟩
    · intro x hx
      simp only [List.mem_append, List.mem_singleton] at hx
      rcases hx with hx | rfl
      · exact hI.lt x hx
      · rw [hs]; exact Nat.mod_lt _ (by omega)
    · simp only [List.length_append, List.length_cons, List.length_nil]; omega
    · rw [Vr_reverse_snoc, hs, hdig]
      have hb' : s.bits = 1 ∨ s.bits = 2 ∨ s.bits = 3 ∨ s.bits = 4 := by omega
      rcases hb' with e | e | e | e <;> rw [e] <;> simp <;> omega
  · have h0' : s.bits = 0 := by omega
    rw [if_neg h0, Option.some.injEq] at h
    subst h
    refine ⟨hI.lt, 0, by omega, by omega, ?_⟩
    rw [hdig, h0']; simp

/-- 5 → 8 without padding on a string that is `N·2^p` in base 32 (p < 5 padding bits, all zero):
    the result is the n-digit base-256 string of N. -/
theorem convertBits_58_spec (d prog : Bytes) (p : Nat) (hd : ∀ x ∈ d, x.toNat < 2 ^ 5) (hp : p < 5)
    (hl : 5 * d.length = 8 * prog.length + p) (hv : Vr 5 d.reverse = Vr 8 prog.reverse * 2 ^ p) :
    convertBits 8 d 5 false = some prog := by
  rw [convertBits_58]
  obtain ⟨hI, hb, hl'⟩ := st58_spec d hd
  rw [VN_zero_eq_Vr, hv] at hI
  generalize st58 d = s at *
  generalize hN : Vr 8 prog.reverse = N at *
  have hbp : s.bits = p := by omega
  have hlen : s.out.length = prog.length := by omega
  have hdig := hI.dig
  rw [hbp, Nat.mul_div_cancel _ (Nat.two_pow_pos _)] at hdig
  have hout : s.out = prog := by
    have := Vr_inj 8 s.out.reverse prog.reverse (by simpa using hlen)
      (fun x _ => u8_lt x) (fun x _ => u8_lt x) (by rw [hdig, hN])
    simpa using this
  have hz : ((s.val <<< UInt32.ofNat (8 - s.bits)) &&& 255) = 0 := by
    apply UInt32.toNat_inj.1
    rw [UInt32.toNat_and, shl_toNat _ _ (by omega), hI.val, hbp]
    have : (255 : UInt32).toNat = 2 ^ 8 - 1 := by decide
    rw [this, Nat.and_two_pow_sub_one_eq_mod]
    have h1 : (N * 2 ^ p % 2 ^ 32 * 2 ^ (8 - p)) % 2 ^ 32 = (N * 2 ^ p * 2 ^ (8 - p)) % 2 ^ 32 := by
      rw [Nat.mul_mod, Nat.mod_mod, ← Nat.mul_mod]
    rw [h1, Nat.mul_assoc, ← Nat.pow_add]
    have : p + (8 - p) = 8 := by omega
    rw [this, Nat.mod_mod_of_dvd _ (Nat.pow_dvd_pow 2 (by omega))]
    simp
  have hnot : ¬ (((s.val <<< UInt32.ofNat (8 - s.bits)) &&& 255) ≠ 0 ∨ s.bits ≥ 5) := by
    rw [hz]; simp; omega
  simp only [hnot, ↓reduceIte, hout]

/-- `convert_bits` round trip: regrouping 8→5 with padding and then 5→8 without returns the input -/
theorem convertBits_roundtrip (prog d : Bytes) (h : convertBits 5 prog 8 true = some d) :
    convertBits 8 d 5 false = some prog := by
  obtain ⟨hd, p, hp, hl, hv⟩ := convertBits_85_spec prog d h
  exact convertBits_58_spec d prog p hd hp hl hv

theorem convertBits_85_total (prog : Bytes) : ∃ d, convertBits 5 prog 8 true = some d :=
  ⟨_, convertBits_85 prog⟩

end GocoinV.Bech32
