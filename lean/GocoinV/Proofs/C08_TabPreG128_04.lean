/- C08 table proof chunk (written once by Proofs/mk_c08_tab.py; static). -/
import GocoinV.Proofs.C08_TabDefs
import GocoinV.Gen.TablesPreG12804
import GocoinV.Gen.TablesPreG12803
namespace GocoinV.C08
open GocoinV.Gen

theorem preG128_04 : chainOK (Secp.dbl g128) ((pts Tables.preG12803).getLastD none :: pts Tables.preG12804) = true := by
  decide +kernel
theorem preG128_04_ne : pts Tables.preG12804 ≠ [] := by decide +kernel

end GocoinV.C08
