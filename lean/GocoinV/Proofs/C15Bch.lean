/-
  Proofs.C15Bch — error DETECTION of the Bech32 / Bech32m checksum as a distance property of the
  GENERATED polymod step (Gen/Bech32Consts.lean), by GF(2)-linearity (`ps_lin`, proved in C15Bech32)
  plus kernel computation on the orbits of the 31 non-zero symbols.

  `pf c l` is the plain polymod fold both `Encode` and `Decode` run over the 5-bit symbols.
  * `pf_xor`      : pf is XOR-linear (state and symbols) on 30-bit states;
  * `ps_inj0`     : the step has trivial kernel on 30-bit states (so trailing correct symbols never
                    cancel an error);
  * `orbit_tab`   : for every non-zero symbol u and 1 ≤ k ≤ 89, x^k·u mod g has a non-zero high part
                    (`decide +kernel`, 31 × 89 steps of the generated function);
  * `pf_detect2`  : an error word of ≤ 89 symbols with 1 or 2 non-zero symbols has non-zero syndrome.
-/
import GocoinV.Proofs.C15Bech32Inv
namespace GocoinV.Bech32
open Gen.Bech32Consts

/-- the polymod fold over 5-bit symbols -/
def pf (c : UInt32) (l : Bytes) : UInt32 := l.foldl (fun c d => polymodStep c ^^^ d.toUInt32) c

theorem pf_cons (c : UInt32) (x : UInt8) (t : Bytes) : pf c (x :: t) = pf (polymodStep c ^^^ x.toUInt32) t := rfl
theorem pf_append (c : UInt32) (a b : Bytes) : pf c (a ++ b) = pf (pf c a) b := List.foldl_append

theorem sym_hi (d : UInt8) : hi30 d.toUInt32 := by
  unfold hi30; simp only [UInt8.toNat_toUInt32]; have := d.toNat_lt; omega

theorem pf_of_dataFold (d : Bytes) : ∀ c c1, dataFold? d c = some c1 → pf c d = c1 := by
  induction d with
  | nil => intro c c1 h; simp [dataFold?] at h; exact h
  | cons x t ih =>
    intro c c1 h
    unfold dataFold? at h
    by_cases hd : x >>> 5 ≠ 0
    · simp [hd] at h
    · simp only [hd, ↓reduceIte] at h
      exact ih _ _ h

theorem pf_checksum (c P : UInt32) : pf c (checksumSyms P) = feed6 c P := by
  rw [checksumSyms_eq]
  simp only [pf, List.foldl_cons, List.foldl_nil, (sym_props _).2, feed6]

theorem pf_hi (l : Bytes) : ∀ c, hi30 c → hi30 (pf c l) := by
  induction l with
  | nil => intro c h; exact h
  | cons x t ih => intro c _; exact ih _ (xor_hi (ps_hi _) (sym_hi _))

/-- XOR-linearity of the fold, in the state and in the symbols -/
theorem pf_xor (x : Bytes) : ∀ (y : Bytes) (c c' : UInt32), hi30 c → hi30 c' → x.length = y.length →
    pf c x ^^^ pf c' y = pf (c ^^^ c') (List.zipWith (· ^^^ ·) x y) := by
  induction x with
  | nil => intro y c c' _ _ hl; cases y with
    | nil => rfl
    | cons _ _ => simp at hl
  | cons a t ih =>
    intro y c c' hc hc' hl
    cases y with
    | nil => simp at hl
    | cons b t' =>
      simp only [List.zipWith_cons_cons, pf_cons]
      rw [ih t' _ _ (xor_hi (ps_hi _) (sym_hi _)) (xor_hi (ps_hi _) (sym_hi _)) (by simpa using hl)]
      congr 1
      rw [ps_lin hc hc', UInt8.toUInt32_xor]
      ac_rfl

/-! ### iterating the step -/

def iter : Nat → UInt32 → UInt32
  | 0, x => x
  | k+1, x => iter k (polymodStep x)

theorem iter_succ' (k : Nat) : ∀ x, iter (k + 1) x = polymodStep (iter k x) := by
  induction k with
  | zero => intro x; rfl
  | succ k ih => intro x; exact ih (polymodStep x)

theorem iter_add (a b : Nat) : ∀ x, iter (a + b) x = iter a (iter b x) := by
  induction b with
  | zero => intro x; rfl
  | succ b ih => intro x; exact ih (polymodStep x)

theorem ps_zero : polymodStep 0 = 0 := by decide +kernel

theorem iter_zero (k : Nat) : iter k 0 = 0 := by
  induction k with
  | zero => rfl
  | succ k ih => simp only [iter, ps_zero, ih]

theorem hi30_zero : hi30 0 := by unfold hi30; decide

theorem iter_hi (k : Nat) : ∀ x, hi30 x → hi30 (iter k x) := by
  induction k with
  | zero => intro x h; exact h
  | succ k ih => intro x _; exact ih _ (ps_hi x)

theorem iter_xor (k : Nat) : ∀ a b, hi30 a → hi30 b → iter k (a ^^^ b) = iter k a ^^^ iter k b := by
  induction k with
  | zero => intro a b _ _; rfl
  | succ k ih => intro a b ha hb; simp only [iter, ps_lin ha hb]; exact ih _ _ (ps_hi a) (ps_hi b)

theorem shl5_and31 (y : UInt32) : (y <<< 5) &&& 31 = 0 := by
  apply UInt32.toNat_inj.1
  rw [UInt32.toNat_and, UInt32.toNat_shiftLeft]
  have h5 : (5 : UInt32).toNat % 32 = 5 := by decide
  have h31 : (31 : UInt32).toNat = 2 ^ 5 - 1 := by decide
  rw [h5, h31, Nat.and_two_pow_sub_one_eq_mod, Nat.shiftLeft_eq]
  simp only [UInt32.toNat_zero]
  omega

theorem Gsel_low_tab : ∀ t : Fin 32, Gsel (UInt32.ofNat t.val) &&& 31 = 0 → t.val = 0 := by decide +kernel

/-- the step has trivial kernel on 30-bit states -/
theorem ps_inj0 {x : UInt32} (hx : hi30 x) (h : polymodStep x = 0) : x = 0 := by
  have ht := top_lt32 hx
  have h31 : polymodStep x &&& 31 = 0 := by rw [h]; decide
  rw [ps_eq, and_xor_r, shl5_and31, UInt32.zero_xor] at h31
  have := Gsel_low_tab ⟨(x >>> 25).toNat, ht⟩ (by simp only [UInt32.ofNat_toNat]; exact h31)
  simp only at this
  have hsm : x.toNat < 2 ^ 25 := by
    rw [UInt32.toNat_shiftRight] at this
    have h25 : (25 : UInt32).toNat % 32 = 25 := by decide
    rw [h25, Nat.shiftRight_eq_div_pow] at this
    omega
  rw [ps_small hsm] at h
  apply UInt32.toNat_inj.1
  have h2 := congrArg UInt32.toNat h
  rw [UInt32.toNat_shiftLeft] at h2
  have h5 : (5 : UInt32).toNat % 32 = 5 := by decide
  rw [h5, Nat.shiftLeft_eq] at h2
  simp only [UInt32.toNat_zero] at h2 ⊢
  omega

theorem iter_inj0 (k : Nat) : ∀ x, hi30 x → iter k x = 0 → x = 0 := by
  induction k with
  | zero => intro x _ h; exact h
  | succ k ih => intro x hx h; exact ps_inj0 hx (ih _ (ps_hi x) h)

theorem pf_zeros (b : Nat) : ∀ (c : UInt32) (t : Bytes), pf c (List.replicate b 0 ++ t) = pf (iter b c) t := by
  induction b with
  | zero => intro c t; rfl
  | succ b ih =>
    intro c t
    simp only [List.replicate_succ, List.cons_append, pf_cons]
    have : polymodStep c ^^^ (0 : UInt8).toUInt32 = polymodStep c := by
      have : (0 : UInt8).toUInt32 = 0 := rfl
      rw [this]; simp
    rw [this, ih]; rfl

/-! ### the orbit table (kernel computation on the generated step) -/

def orbitOK : Nat → UInt32 → Bool
  | 0, _ => true
  | n+1, x => let y := polymodStep x; decide (32 ≤ y.toNat) && orbitOK n y

theorem orbitOK_sound (n : Nat) : ∀ x, orbitOK n x = true → ∀ j, 1 ≤ j → j ≤ n → 32 ≤ (iter j x).toNat := by
  induction n with
  | zero => intro x _ j h1 h2; omega
  | succ n ih =>
    intro x h j h1 h2
    simp only [orbitOK, Bool.and_eq_true, decide_eq_true_eq] at h
    cases j with
    | zero => omega
    | succ j =>
      cases j with
      | zero => exact h.1
      | succ j => exact ih _ h.2 (j + 1) (by omega) (by omega)

set_option maxRecDepth 100000 in
theorem orbit_tab : ∀ u : Fin 32, u.val ≠ 0 → orbitOK 89 (UInt32.ofNat u.val) = true := by decide +kernel

theorem ofNat_toNat8 (u : UInt8) : UInt32.ofNat u.toNat = u.toUInt32 := by
  apply UInt32.toNat_inj.1; simp

/-- x^j·u mod g is not a constant for 1 ≤ j ≤ 89 and a non-zero symbol u -/
theorem orbit_ge32 (u : UInt8) (hu : u ≠ 0) (h31 : u.toNat ≤ 31) (j : Nat) (h1 : 1 ≤ j) (h2 : j ≤ 89) :
    32 ≤ (iter j u.toUInt32).toNat := by
  have hne : u.toNat ≠ 0 := fun h => hu (UInt8.toNat_inj.mp (by simpa using h))
  have := orbitOK_sound 89 _ (orbit_tab ⟨u.toNat, by omega⟩ hne) j h1 h2
  simpa [ofNat_toNat8] using this

/-! ### error words -/

def weight (e : Bytes) : Nat := (e.filter (· != 0)).length

theorem split_nz (e : Bytes) : e = List.replicate e.length 0 ∨
    ∃ a v t, e = List.replicate a 0 ++ v :: t ∧ v ≠ 0 ∧ weight e = weight t + 1 ∧ e.length = a + 1 + t.length := by
  induction e with
  | nil => left; rfl
  | cons x r ih =>
    by_cases hx : x = 0
    · subst hx
      rcases ih with h | ⟨a, v, t, h1, h2, h3, h4⟩
      · left; simp only [List.length_cons, List.replicate_succ]; rw [← h]
      · right
        refine ⟨a + 1, v, t, by rw [List.replicate_succ, List.cons_append, ← h1], h2, ?_, by simp [h4]; omega⟩
        simpa [weight] using h3
    · right
      refine ⟨0, x, r, rfl, hx, ?_, by simp; omega⟩
      simp [weight, hx]

theorem mem_of_split {e : Bytes} {a : Nat} {v : UInt8} {t : Bytes} (h : e = List.replicate a 0 ++ v :: t) :
    v ∈ e ∧ ∀ x ∈ t, x ∈ e := by
  subst h; constructor
  · simp
  · intro x hx; simp [hx]

theorem u8_ne_zero_toUInt32 (u : UInt8) (hu : u ≠ 0) : u.toUInt32 ≠ 0 := by
  intro h
  apply hu
  apply UInt8.toNat_inj.1
  have := congrArg UInt32.toNat h
  simpa using this

/-- an error word of at most 89 symbols with one or two non-zero symbols has a non-zero syndrome -/
theorem pf_detect2 (e : Bytes) (hsym : ∀ x ∈ e, x.toNat ≤ 31) (hlen : e.length ≤ 89) (hw : weight e ≤ 2)
    (h : pf 0 e = 0) : e = List.replicate e.length 0 := by
  rcases split_nz e with h0 | ⟨a, u, t1, he, hu, hwe, hle⟩
  · exact h0
  exfalso
  obtain ⟨hum, ht1m⟩ := mem_of_split he
  rw [he, pf_zeros, iter_zero, pf_cons, ps_zero, UInt32.zero_xor] at h
  rcases split_nz t1 with h1 | ⟨b, v, t2, ht1, hv, hwt1, hlt1⟩
  · -- weight 1
    rw [h1, ← List.append_nil (List.replicate _ _), pf_zeros] at h
    exact u8_ne_zero_toUInt32 u hu (iter_inj0 _ _ (sym_hi u) h)
  · obtain ⟨hvm, ht2m⟩ := mem_of_split ht1
    rw [ht1, pf_zeros, pf_cons, ← iter_succ'] at h
    rcases split_nz t2 with h2 | ⟨c, w, t3, _, _, hwt2, _⟩
    · -- weight 2
      rw [h2, ← List.append_nil (List.replicate _ _), pf_zeros] at h
      have hz := iter_inj0 _ _ (xor_hi (iter_hi _ _ (sym_hi u)) (sym_hi v)) h
      have heq : iter (b + 1) u.toUInt32 = v.toUInt32 := UInt32.xor_eq_zero_iff.mp hz
      have hge := orbit_ge32 u hu (hsym u hum) (b + 1) (by omega) (by omega)
      rw [heq] at hge
      have := hsym v (ht1m v hvm)
      simp only [UInt8.toNat_toUInt32] at hge
      omega
    · omega

end GocoinV.Bech32
