/-
  Proofs.C07Run — Chain.CommitBlock / AcceptBlock, BlockDB.writeAll, Chain.Idle / Close, the restart
  (NewUnspentDb + LoadBlockIndex + the client's recovery loop) and whole histories keep the invariant.
  Core Lean only.
-/
import GocoinV.Proofs.C07Ops
namespace GocoinV.Proofs.C07
open GocoinV.Persist

local macro "rf[" n:term ", " id:term "]" : term => `(List.find? (fun (x : BRec) => x.id == $id) (Node.recs $n))

variable {P : Snap → Prop} {base : Disk} {X : BlockId → Prop} {T : List BlockId} {Q Qn : List Block} {s : St}

theorem InvQ.ghostMono (h : InvQ ⟨P, base, X, T, Q, Qn⟩ s) (T' : List BlockId) (hs : ∀ id ∈ T', id ∈ T) :
    InvQ ⟨P, base, X, T', Q, Qn⟩ s :=
  ⟨h.hist, h.pref, ⟨h.node.recDisk, h.node.recQueue, h.node.queueRec, h.node.idxRec, h.node.tipRec, h.node.treeRec,
    h.node.treePar, h.node.memParent, fun id hid => h.node.ghost id (hs id hid), h.node.queueOK⟩, h.snap, h.qeq⟩

theorem InvQ.narrowGhost (h : InvQ ⟨P, base, X, T, Q, Qn⟩ s) (bid : BlockId) (hX : ∀ i, X i → i = 0 ∨ i = bid)
    (hsome : (rf[s.n, bid]).isSome) : InvQ ⟨P, base, (· = 0), bid :: T, Q, Qn⟩ s := by
  refine ⟨h.hist, h.pref, ⟨h.node.recDisk, h.node.recQueue, h.node.queueRec, h.node.idxRec, h.node.tipRec, ?_,
    h.node.treePar, h.node.memParent, ?_, h.node.queueOK⟩, h.snap, h.qeq⟩
  · intro t ht
    rcases h.node.treeRec t ht with hx | hx
    · rcases hX _ hx with h0 | h0
      · exact Or.inl h0
      · rw [h0]; exact Or.inr hsome
    · exact Or.inr hx
  · intro id hid
    rcases List.mem_cons.1 hid with hid | hid
    · subst hid; exact Or.inr hsome
    · exact h.node.ghost id hid

theorem InvQ.filterTree (h : InvQ ⟨P, base, X, T, Q, Qn⟩ s) (bid : BlockId) (hX : ∀ i, X i → i = 0 ∨ i = bid) :
    InvQ ⟨P, base, (· = 0), T, Q, Qn⟩ { s with n := { s.n with tree := s.n.tree.filter (·.id != bid) } } := by
  refine ⟨h.hist, h.pref, ⟨h.node.recDisk, h.node.recQueue, h.node.queueRec, h.node.idxRec, h.node.tipRec, ?_,
    ?_, h.node.memParent, h.node.ghost, h.node.queueOK⟩, ⟨h.snap.savingOK, h.snap.cleanOK⟩, h.qeq⟩
  · intro t ht
    simp only [List.mem_filter, bne_iff_ne, ne_eq] at ht
    rcases h.node.treeRec t ht.1 with hx | hx
    · rcases hX _ hx with h0 | h0
      · exact Or.inl h0
      · exact absurd h0 ht.2
    · exact Or.inr hx
  · intro t ht
    simp only [List.mem_filter] at ht
    exact h.node.treePar t ht.1

/-- the tail of CommitBlock on the active branch once the block has a record -/
theorem commit_tail (b : Block) {q : List Block} {s2 : St} (h2 : InvQ ⟨P, base, (· = 0), b.id :: T, q, q⟩ s2) :
    InvQ ⟨P, base, (· = 0), T, q, q⟩
      { ((commitBlockTxs (s2.emit .nop .cAfterBlockAdd) b).emit .nop .cAfterUtxo) with
        n := { ((commitBlockTxs (s2.emit .nop .cAfterBlockAdd) b).emit .nop .cAfterUtxo).n with tip := b.id, tipHeight := b.height } } := by
  obtain ⟨h4, hs4, hd4⟩ := commitBlockTxs_inv (h2.emit_nop .cAfterBlockAdd) b
  have h5 := h4.emit_nop .cAfterUtxo
  have h6 := h5.setTip hs4 hd4 b.id b.height (h5.node.ghost b.id (by simp))
  exact h6.ghostMono T (fun id hid => List.mem_cons_of_mem _ hid)

theorem commitBlock_inv (h : InvQ ⟨P, base, X, T, Q, Q⟩ s) (b : Block) (herr : s.err = none)
    (hp : b.parent = 0 ∨ (rf[s.n, b.parent]).isSome) (hX : ∀ i, X i → i = 0 ∨ i = b.id) :
    ∃ q, InvQ ⟨P, base, (· = 0), T, q, q⟩ (commitBlock s b) := by
  unfold commitBlock
  rw [if_neg (by simp [herr])]
  split
  · split
    · exact ⟨Q, h.filterTree b.id hX⟩
    · have h1 := h.emit_nop .cBeforeBlockAdd
      simp only []
      have key : ∀ (C : Bool), (C = true → (rf[(s.emit .nop .cBeforeBlockAdd).n, b.id]).isSome) →
          ∃ q, InvQ ⟨P, base, (· = 0), b.id :: T, q, q⟩
            (if C = true then blockTrusted (s.emit .nop .cBeforeBlockAdd) b.id
             else { (s.emit .nop .cBeforeBlockAdd) with n := blockAdd (s.emit .nop .cBeforeBlockAdd).n b true }) := by
        intro C hC
        cases C with
        | true => exact ⟨Q, by simpa using blockTrusted_inv (h1.narrowGhost b.id hX (hC rfl)) b.id⟩
        | false => simpa using blockAdd_step h1 b true hp hX
      have tail : ∀ s2 : St, (∃ q, InvQ ⟨P, base, (· = 0), b.id :: T, q, q⟩ s2) → ∃ q, InvQ ⟨P, base, (· = 0), T, q, q⟩
          { ((commitBlockTxs (s2.emit .nop .cAfterBlockAdd) b).emit .nop .cAfterUtxo) with
            n := { ((commitBlockTxs (s2.emit .nop .cAfterBlockAdd) b).emit .nop .cAfterUtxo).n with tip := b.id, tipHeight := b.height } } :=
        fun s2 ⟨q, h2⟩ => ⟨q, commit_tail b h2⟩
      refine tail _ (key _ ?_)
      intro hv
      split at hv
      · rename_i r hr; rw [hr]; rfl
      · cases hv
  · obtain ⟨q, h1⟩ := blockAdd_step h b false hp hX
    have h2 := h1.emit_nop .cSideStored
    simp only []
    split
    · exact ⟨q, (moveToBlock_inv h2 b.id (h2.node.ghost b.id (by simp))).ghostMono T (fun id hid => List.mem_cons_of_mem _ hid)⟩
    · exact ⟨q, h2.ghostMono T (fun id hid => List.mem_cons_of_mem _ hid)⟩

theorem submit_inv (h : InvQ ⟨P, base, (· = 0), T, Q, Q⟩ s) (b : Block) :
    ∃ q, InvQ ⟨P, base, (· = 0), T, q, q⟩ (submit s b) := by
  unfold submit
  split
  · exact ⟨Q, h⟩
  · rename_i herr
    split
    · exact ⟨Q, h⟩
    · split
      · exact ⟨Q, h⟩
      · rename_i hpar
        have herr' : s.err = none := by
          cases hx : s.err with
          | none => rfl
          | some v => simp [hx] at herr
        have hp : b.parent = 0 ∨ (rf[s.n, b.parent]).isSome := by
          have hin : inTree s.n b.parent = true := by simpa using hpar
          unfold inTree at hin
          simp only [Bool.or_eq_true, beq_iff_eq, List.any_eq_true] at hin
          rcases hin with h0 | ⟨t, ht, e⟩
          · exact Or.inl h0
          · rcases h.node.treeRec t ht with h1 | h1
            · exact Or.inl (by rw [← e]; exact h1)
            · exact Or.inr (by rw [← e]; exact h1)
        refine commitBlock_inv (X := fun i => i = 0 ∨ i = b.id) (Q := Q) ?_ b herr' hp (fun i hi => hi)
        refine ⟨h.hist, h.pref, ⟨h.node.recDisk, h.node.recQueue, h.node.queueRec, h.node.idxRec, h.node.tipRec, ?_,
          ?_, ?_, h.node.ghost, h.node.queueOK⟩, ⟨h.snap.savingOK, h.snap.cleanOK⟩, h.qeq⟩
        · intro t ht
          rcases List.mem_append.1 ht with ht | ht
          · exact (h.node.treeRec t ht).imp (fun hx => Or.inl hx) (fun x => x)
          · simp only [List.mem_singleton] at ht; subst ht; exact Or.inl (Or.inr rfl)
        · intro t ht
          rcases List.mem_append.1 ht with ht | ht
          · exact h.node.treePar t ht
          · simp only [List.mem_singleton] at ht; subst ht; exact hp
        · intro x hx
          have hx' : x ∈ s.n.mem ∨ x = b := by
            split at hx
            · exact Or.inl hx
            · rcases List.mem_append.1 hx with hx | hx
              · exact Or.inl hx
              · exact Or.inr (by simpa using hx)
          rcases hx' with hx' | hx'
          · exact h.node.memParent x hx'
          · subst hx'; exact hp

/-! ### BlockDB.writeAll -/

theorem writeOne_frame (s : St) (b : Block) :
    (writeOne s b).n.tip = s.n.tip ∧ (writeOne s b).n.utxo = s.n.utxo ∧ (writeOne s b).err = s.err ∧
    (writeOne s b).n.dirty = s.n.dirty ∧ (writeOne s b).n.saving = s.n.saving ∧ (writeOne s b).n.lastHeight = s.n.lastHeight ∧
    (writeOne s b).n.skip = s.n.skip := by
  unfold writeOne
  split
  · exact ⟨rfl, rfl, rfl, rfl, rfl, rfl, rfl⟩
  · split <;> exact ⟨rfl, rfl, rfl, rfl, rfl, rfl, rfl⟩

theorem writeOne_inv (b : Block) (rest : List Block) (h : InvQ ⟨P, base, X, T, b :: rest, []⟩ s) :
    InvQ ⟨P, base, X, T, rest, []⟩ (writeOne s b) := by
  have hn : NodeInv s.n (ids s.d) (b :: rest) X T := h.node
  have hq : QOK (· ∈ ids s.d) (b :: rest) := hn.queueOK
  unfold writeOne
  split
  · rename_i hnone
    have := hn.queueRec b (by simp)
    rw [hnone] at this; cases this
  · rename_i r hr
    split
    · rename_i ho
      -- already on disk: nothing is written, the queue entry is dropped
      have hin : b.id ∈ ids s.d := hn.recDisk b.id r hr ho
      refine ⟨h.hist, h.pref, ⟨hn.recDisk, ?_, fun x hx => hn.queueRec x (List.mem_cons_of_mem _ hx), hn.idxRec, hn.tipRec,
        hn.treeRec, hn.treePar, hn.memParent, hn.ghost, ?_⟩, h.snap, h.qeq⟩
      · intro id r' hr' ho'
        obtain ⟨x, hx, e⟩ := hn.recQueue id r' hr' ho'
        rcases List.mem_cons.1 hx with hx | hx
        · subst hx
          rw [e] at hr; rw [hr] at hr'; cases hr'
          rw [ho] at ho'; cases ho'
        · exact ⟨x, hx, e⟩
      · exact hq.2.mono (fun x hx => hx.elim (fun e => e ▸ hin) (fun x => x))
    · rename_i ho
      have ho : r.onDisk = false := by simpa using ho
      have hpar : b.parent = 0 ∨ b.parent ∈ ids s.d := hq.1
      have h2 := (h.emit_nop .wrBeforeDat).emit_appendDat b .wrDatWritten hpar
      have hH := ((h2.toHist.emit (.appendIdx { id := b.id, parent := b.parent, height := b.height, trusted := r.trusted, invalid := false }) .wrIdxWritten
        ⟨rfl, hpar, b, by simp [emit_d, apply], rfl⟩).emit .nop .wrBeforePublish trivial)
      have hids : ids ((((s.emit .nop .wrBeforeDat).emit (.appendDat b) .wrDatWritten).emit
          (.appendIdx { id := b.id, parent := b.parent, height := b.height, trusted := r.trusted, invalid := false }) .wrIdxWritten).emit .nop .wrBeforePublish).d
          = ids s.d ++ [b.id] := by
        simp [emit_d, ids, apply]
      let f : BRec → BRec := fun x => if x.id == b.id then { x with onDisk := true } else x
      have key : ∀ id, List.find? (fun (x : BRec) => x.id == id) (s.n.recs.map f) = (rf[s.n, id]).map f :=
        fun id => find_map_brec _ id f (by intro x; simp only [f]; split <;> rfl)
      refine ⟨hH.hist, hH.pref, ?_, ?_, h.qeq⟩
      · show NodeInv { s.n with recs := s.n.recs.map f } _ rest X T
        rw [hids]
        constructor
        · intro id r' hr' ho'
          simp only [key, Option.map_eq_some_iff] at hr'
          obtain ⟨r0, h0, rfl⟩ := hr'
          have hid0 : r0.id = id := by simpa using List.find?_some h0
          by_cases hb : r0.id = b.id
          · exact List.mem_append_right _ (by simp [← hid0, hb])
          · have : f r0 = r0 := by simp [f, hb]
            rw [this] at ho'
            exact List.mem_append_left _ (hn.recDisk id r0 h0 ho')
        · intro id r' hr' ho'
          simp only [key, Option.map_eq_some_iff] at hr'
          obtain ⟨r0, h0, rfl⟩ := hr'
          have hid0 : r0.id = id := by simpa using List.find?_some h0
          by_cases hb : r0.id = b.id
          · simp [f, hb] at ho'
          · have : f r0 = r0 := by simp [f, hb]
            rw [this] at ho'
            obtain ⟨x, hx, e⟩ := hn.recQueue id r0 h0 ho'
            rcases List.mem_cons.1 hx with hx | hx
            · subst hx; exact absurd (hid0.trans e.symm) hb
            · exact ⟨x, hx, e⟩
        · intro x hx; simp only [key, Option.isSome_map]; exact hn.queueRec x (List.mem_cons_of_mem _ hx)
        · intro id hid
          simp only [key, Option.isSome_map]
          rcases List.mem_append.1 hid with hid | hid
          · exact hn.idxRec id hid
          · simp only [List.mem_singleton] at hid; subst hid; rw [hr]; rfl
        · simp only [key, Option.isSome_map]; exact hn.tipRec
        · intro t ht; simp only [key, Option.isSome_map]; exact hn.treeRec t ht
        · intro t ht; simp only [key, Option.isSome_map]; exact hn.treePar t ht
        · intro x hx; simp only [key, Option.isSome_map]; exact hn.memParent x hx
        · intro id hid; simp only [key, Option.isSome_map]; exact hn.ghost id hid
        · exact hq.2.mono (fun x hx => by
            rcases hx with hx | hx
            · exact List.mem_append_right _ (by simp [hx])
            · exact List.mem_append_left _ hx)
      · refine ⟨fun sn k hs => ⟨(h.snap.savingOK sn k hs).1, hasTmp_of_tmps rfl sn (h.snap.savingOK sn k hs).2⟩, ?_⟩
        intro hd
        have : loadSnap ((((s.emit .nop .wrBeforeDat).emit (.appendDat b) .wrDatWritten).emit
          (.appendIdx { id := b.id, parent := b.parent, height := b.height, trusted := r.trusted, invalid := false }) .wrIdxWritten).emit .nop .wrBeforePublish).d
          = loadSnap s.d := loadSnap_of _ _ rfl rfl
        rw [this]; exact h.snap.cleanOK hd

theorem foldl_writeOne_inv : ∀ (q : List Block) (s : St), InvQ ⟨P, base, X, T, q, []⟩ s →
    InvQ ⟨P, base, X, T, [], []⟩ (q.foldl writeOne s)
  | [], _, h => h
  | b :: rest, _, h => foldl_writeOne_inv rest _ (writeOne_inv b rest h)

theorem foldl_writeOne_frame : ∀ (q : List Block) (s : St),
    (q.foldl writeOne s).n.tip = s.n.tip ∧ (q.foldl writeOne s).n.utxo = s.n.utxo ∧ (q.foldl writeOne s).err = s.err ∧
    (q.foldl writeOne s).n.dirty = s.n.dirty ∧ (q.foldl writeOne s).n.saving = s.n.saving ∧
    (q.foldl writeOne s).n.lastHeight = s.n.lastHeight ∧ (q.foldl writeOne s).n.skip = s.n.skip
  | [], _ => ⟨rfl, rfl, rfl, rfl, rfl, rfl, rfl⟩
  | b :: rest, s => by
    obtain ⟨a1, a2, a3, a4, a5, a6, a7⟩ := foldl_writeOne_frame rest (writeOne s b)
    obtain ⟨b1, b2, b3, b4, b5, b6, b7⟩ := writeOne_frame s b
    exact ⟨a1.trans b1, a2.trans b2, a3.trans b3, a4.trans b4, a5.trans b5, a6.trans b6, a7.trans b7⟩

theorem writeAll_inv (h : InvQ ⟨P, base, X, T, Q, Q⟩ s) : InvQ ⟨P, base, X, T, [], []⟩ (writeAll s) := by
  unfold writeAll
  have hq : s.n.queue = Q := h.qeq
  rw [hq]
  apply foldl_writeOne_inv
  exact ⟨h.hist, h.pref, ⟨h.node.recDisk, h.node.recQueue, h.node.queueRec, h.node.idxRec, h.node.tipRec, h.node.treeRec,
    h.node.treePar, h.node.memParent, h.node.ghost, h.node.queueOK⟩, ⟨h.snap.savingOK, h.snap.cleanOK⟩, rfl⟩

theorem writeAll_frame (s : St) :
    (writeAll s).n.tip = s.n.tip ∧ (writeAll s).n.utxo = s.n.utxo ∧ (writeAll s).err = s.err ∧
    (writeAll s).n.dirty = s.n.dirty ∧ (writeAll s).n.saving = s.n.saving ∧ (writeAll s).n.lastHeight = s.n.lastHeight ∧
    (writeAll s).n.skip = s.n.skip := by
  unfold writeAll
  exact foldl_writeOne_frame _ _

/-- once the queue is empty the tip's record is in the index file -/
theorem tip_on_disk (h : InvQ ⟨P, base, X, T, [], Qn⟩ s) : s.n.tip = 0 ∨ s.n.tip ∈ ids s.d := by
  rcases h.node.tipRec with h0 | h0
  · exact Or.inl h0
  · right
    cases hr : List.find? (fun (x : BRec) => x.id == s.n.tip) s.n.recs with
    | none => rw [hr] at h0; cases h0
    | some r =>
      cases ho : r.onDisk with
      | true => exact h.node.recDisk _ r hr ho
      | false =>
        obtain ⟨x, hx, _⟩ := h.node.recQueue _ r hr ho
        cases hx

/-! ### Chain.Idle, Chain.Close -/

theorem idle_inv (h : InvQ ⟨P, base, X, T, Q, Q⟩ s) (hP : P ⟨s.n.tip, s.n.lastHeight, s.n.utxo⟩) :
    ∃ q, InvQ ⟨P, base, X, T, q, q⟩ (idle s) := by
  unfold idle
  split
  · exact ⟨Q, h⟩
  · have h1 := writeAll_inv h
    obtain ⟨f1, f2, _, _, _, f6, _⟩ := writeAll_frame s
    simp only []
    split
    · exact ⟨[], startSave_inv h1 false (by rw [f1, f2, f6]; exact hP) (tip_on_disk h1)⟩
    · exact ⟨[], h1⟩

theorem close_inv (h : InvQ ⟨P, base, X, T, Q, Q⟩ s) (hP : P ⟨s.n.tip, s.n.lastHeight, s.n.utxo⟩) :
    ∃ q, InvQ ⟨P, base, X, T, q, q⟩ (close s) := by
  unfold close
  split
  · exact ⟨Q, h⟩
  · have h1 := writeAll_inv h
    obtain ⟨f1, f2, _, _, _, f6, _⟩ := writeAll_frame s
    simp only []
    split
    · split
      · exact ⟨[], hurrySave_inv h1⟩
      · exact ⟨[], startSave_inv h1 true (by rw [f1, f2, f6]; exact hP) (tip_on_disk h1)⟩
    · exact ⟨[], h1⟩

end GocoinV.Proofs.C07
