/- Proofs.C15Payout — lemmas about Model.AddrPayout (multi-step payout-address histories). -/
import GocoinV.Model.AddrPayout
import GocoinV.Proofs.C15Addr
namespace GocoinV.Addr.Payout
open GocoinV.Addr

theorem inForce_nil (H : Hashes) (c : Bytes) : inForce H c [] = c := by simp [inForce]

theorem inForce_cons (H : Hashes) (c s : Bytes) (r : List Bytes) :
    inForce H c (s :: r) = inForce H (minadr H c s) r := by
  unfold inForce minadr
  simp only [List.reverse_cons, List.find?_append]
  cases hr : r.reverse.find? (fun s => decide (s ≠ [] ∧ accepted H s = true)) with
  | some x => simp
  | none =>
    by_cases h1 : s = []
    · simp [h1]
    · by_cases h2 : accepted H s = true
      · simp [h1, h2]
      · simp [h1, h2]

theorem cfgAfter_eq_inForce (H : Hashes) (steps : List Step) (c : Bytes) :
    cfgAfter H steps c = inForce H c (typedOf steps) := by
  induction steps generalizing c with
  | nil => simp [cfgAfter, typedOf, inForce_nil]
  | cons st r ih =>
    cases st with
    | typed s => simp only [cfgAfter, typedOf, inForce_cons]; exact ih _
    | template => simp only [cfgAfter, typedOf]; exact ih _
    | validate s => simp only [cfgAfter, typedOf]; exact ih _

theorem run_append (H : Hashes) (a b : List Step) (c : Bytes) :
    run H (a ++ b) c = run H a c ++ run H b (cfgAfter H a c) := by
  induction a generalizing c with
  | nil => simp [run, cfgAfter]
  | cons st r ih =>
    cases st with
    | typed s => simp only [List.cons_append, run, cfgAfter, ih]
    | template => simp only [List.cons_append, run, cfgAfter, ih]
    | validate s => simp only [List.cons_append, run, cfgAfter, ih]

theorem run_length (H : Hashes) (a : List Step) (c : Bytes) : (run H a c).length = a.length := by
  induction a generalizing c with
  | nil => simp [run]
  | cons st r ih => cases st <;> simp [run, ih]

theorem inForce_snoc (H : Hashes) (c s : Bytes) (r : List Bytes) :
    inForce H c (r ++ [s]) = minadr H (inForce H c r) s := by
  induction r generalizing c with
  | nil => simp [inForce_cons, inForce_nil]
  | cons x r ih => simp only [List.cons_append, inForce_cons]; exact ih _

end GocoinV.Addr.Payout
