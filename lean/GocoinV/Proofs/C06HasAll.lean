/-
  Proofs.C06HasAll — the two loops of the header-first delivery of the chain model, `onActive` (ch.OnActiveBranch) and
  `hasAllParents` (ch.HasAllParents), in a well-formed tree: they never panic, OnActiveBranch answers true only for
  the start node or one of its ancestors, and HasAllParents answers true only when the parent has its data.
-/
import GocoinV.Proofs.C06Reorg
namespace GocoinV.ChainTree
open GocoinV.UtxoOps

/-- OnActiveBranch in a well-formed tree: from a node `top` (id `y`) the walk never panics, and answers true only for a
    node whose id is `y` or the id of an ancestor of `y` -/
theorem onActive_spec {U : List Block} {c : Chain} (w : TreeWF U c) (d : Node) :
    ∀ (f : Nat) (y : Nat) (top : Node), getNode c y = some top → f > top.height →
      ∃ v, onActive c d f top = .ok v ∧ (v = true → Desc c d.id y) := by
  intro f
  induction f with
  | zero => intro _ _ _ hf; omega
  | succ f ih =>
    intro y top ht hf
    have hid := getNode_id ht
    rw [onActive]
    by_cases he : d.id = top.id
    · refine ⟨true, ?_, fun _ => by rw [he, hid]; exact Desc.refl⟩
      simp only [he, beq_self_eq_true, if_true, pure, Except.pure]
    · have he' : (d.id == top.id) = false := by simpa using he
      by_cases hh : d.height ≥ top.height
      · refine ⟨false, ?_, fun h => by cases h⟩
        simp only [he', Bool.false_eq_true, if_false, hh, if_true, pure, Except.pure]
      · have hyr : y ≠ c.root := not_root_of_height_pos w ht (by omega)
        obtain ⟨q, hq, hqh, _⟩ := w.par y top ht hyr
        obtain ⟨v, hv, hvd⟩ := ih top.parent q hq (by omega)
        refine ⟨v, ?_, fun h => Desc.trans (hvd h) (Desc.parent ht hyr)⟩
        simp only [he', Bool.false_eq_true, if_false, hh, node!, hq, bind, Except.bind, pure, Except.pure, hv]

/-- OnActiveBranch finds the root from every node: the walk down always ends on it -/
theorem onActive_root {U : List Block} {c : Chain} (w : TreeWF U c) {r : Node} (hr : getNode c c.root = some r) :
    ∀ (f : Nat) (y : Nat) (top : Node), getNode c y = some top → f > top.height →
      onActive c r f top = .ok true := by
  intro f
  induction f with
  | zero => intro _ _ _ hf; omega
  | succ f ih =>
    intro y top ht hf
    have hid := getNode_id ht
    have hrid := getNode_id hr
    have hr0 : r.height = 0 := by
      obtain ⟨r', hr', h0, _⟩ := w.root
      rw [hr] at hr'; cases hr'; exact h0
    rw [onActive]
    by_cases he : r.id = top.id
    · simp only [he, beq_self_eq_true, if_true, pure, Except.pure]
    · have he' : (r.id == top.id) = false := by simpa using he
      have hyr : y ≠ c.root := by omega
      have hpos := w.height_pos ht hyr
      have hh : ¬ (r.height ≥ top.height) := by omega
      obtain ⟨q, hq, hqh, _⟩ := w.par y top ht hyr
      have := ih top.parent q hq (by omega)
      simp only [he', Bool.false_eq_true, if_false, hh, node!, hq, bind, Except.bind, pure, Except.pure, this]

/-- **HasAllParents never panics, and answers true only when the parent has its data** (or is the root): for a non-root
    node `n` (id `x`) of a well-formed tree whose tip has its data (`PathOKH`), `hasAllParents` returns a Boolean, and
    when that is `true` the parent of `n` is a node that has its data — what the client relies on when it calls
    CommitBlock on `n` -/
theorem hasAllParents_spec {U : List Block} {c : Chain} (w : TreeWF U c) {path : List PE} (hp : PathOKH c 0 path) :
    ∀ (f x : Nat) (n : Node), getNode c x = some n → x ≠ c.root → f > n.height →
      ∃ v, hasAllParents c f n = .ok v ∧
        (v = true → ∃ p, getNode c n.parent = some p ∧ HasData c n.parent p) := by
  obtain ⟨hpo, t, ht, _⟩ := hp
  have htd := tip_has_data w hpo ht
  intro f
  induction f with
  | zero => intro _ _ _ _ hf; omega
  | succ f ih =>
    intro x n hn hx hf
    obtain ⟨p, hpn, hph, _⟩ := w.par x n hn hx
    have hpid := getNode_id hpn
    obtain ⟨v1, hv1, hd1⟩ := onActive_spec w p (t.height + 1) c.tip t ht (by omega)
    rw [hasAllParents]
    cases v1 with
    | true =>
      have hdesc : Desc c n.parent c.tip := by rw [← hpid]; exact hd1 rfl
      refine ⟨true, ?_, fun _ => ⟨p, hpn, Desc.has_data w hdesc t ht htd p hpn⟩⟩
      simp only [node!, hpn, ht, bind, Except.bind, pure, Except.pure, hv1, if_true]
    | false =>
      by_cases h0 : p.txCount = 0
      · refine ⟨false, ?_, fun h => by cases h⟩
        simp only [node!, hpn, ht, bind, Except.bind, pure, Except.pure, hv1, Bool.false_eq_true, if_false, h0,
          beq_self_eq_true, if_true]
      · have h0' : (p.txCount == 0) = false := by simpa using h0
        have hpr : n.parent ≠ c.root := by
          intro e
          rw [e] at hpn
          have := onActive_root w hpn (t.height + 1) c.tip t ht (by omega)
          rw [this] at hv1; cases hv1
        obtain ⟨v, hv, _⟩ := ih n.parent p hpn hpr (by omega)
        refine ⟨v, ?_, fun _ => ⟨p, hpn, Or.inr h0⟩⟩
        simp only [node!, hpn, ht, bind, Except.bind, pure, Except.pure, hv1, Bool.false_eq_true, if_false, h0', hv]

end GocoinV.ChainTree
