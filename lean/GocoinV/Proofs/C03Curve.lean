/-
  Proofs.C03Curve — `SecpGroupLaw` holds: the reference addition `Secp.add` (Nat arithmetic with
  explicit `% p`, Fermat inversion) IS the addition of Mathlib's group of nonsingular points
  `WeierstrassCurve.Affine.Point` of the curve y² = x³ + 7 over `ZMod p`, so closure, commutativity
  and associativity are inherited from Mathlib's `AddCommGroup` instance.
-/
import GocoinV.Proofs.C03Group
import Mathlib.AlgebraicGeometry.EllipticCurve.Affine.Point
namespace GocoinV.Proofs.C03
open GocoinV GocoinV.Secp

/-- secp256k1 over the prime field: y² = x³ + 7 -/
def W : WeierstrassCurve.Affine (ZMod p) := ⟨0, 0, 0, 0, 7⟩

open WeierstrassCurve.Affine

theorem W_equation (X Y : ZMod p) : W.Equation X Y ↔ Y ^ 2 = X ^ 3 + 7 := by
  rw [equation_iff]; simp [W]

theorem W_negY (X Y : ZMod p) : W.negY X Y = -Y := by simp [negY, W]

theorem two_ne_zero_p : (2 : ZMod p) ≠ 0 := by
  intro h
  have h2 : ((2 : Nat) : ZMod p) = 0 := by exact_mod_cast h
  rw [ZMod.natCast_eq_zero_iff] at h2
  exact absurd (Nat.le_of_dvd (by decide) h2) (by decide)

theorem ne_neg_self (Y : ZMod p) (hY : Y ≠ 0) : Y ≠ -Y := by
  intro h
  have : 2 * Y = 0 := by linear_combination h
  rcases mul_eq_zero.mp this with h2 | h2
  · exact two_ne_zero_p h2
  · exact hY h2

theorem W_nonsingular (X Y : ZMod p) (h : Y ^ 2 = X ^ 3 + 7) (hY : Y ≠ 0) : W.Nonsingular X Y := by
  rw [nonsingular_iff]
  refine ⟨(W_equation X Y).mpr h, Or.inr ?_⟩
  have : -Y - W.a₁ * X - W.a₃ = -Y := by simp [W]
  rw [this]; exact ne_neg_self Y hY

theorem cast_ne_zero_p (y : Nat) (h0 : y ≠ 0) (hl : y < p) : (y : ZMod p) ≠ 0 := by
  rw [Ne, ZMod.natCast_eq_zero_iff]
  intro hd
  exact absurd (Nat.le_of_dvd (Nat.pos_of_ne_zero h0) hd) (by omega)

/-- a reference point and a Mathlib point denote the same point -/
def Rep : Point → W.Point → Prop
  | none, .zero => True
  | some (x, y), .some X Y _ => x < p ∧ y < p ∧ (x : ZMod p) = X ∧ (y : ZMod p) = Y
  | _, _ => False

theorem rep_exists (P : Point) (h : OnC P) : ∃ M, Rep P M := by
  cases P with
  | none => exact ⟨.zero, trivial⟩
  | some q =>
    obtain ⟨x, y⟩ := q
    obtain ⟨hx, hy, heq⟩ := (onCurve_iff x y).mp h
    have hy0 := cast_ne_zero_p y (onCurve_y_ne_zero x y h) hy
    exact ⟨.some _ _ (W_nonsingular _ _ heq hy0), hx, hy, rfl, rfl⟩

theorem rep_onC (P : Point) (M : W.Point) (h : Rep P M) : OnC P := by
  cases P with
  | none => rfl
  | some q =>
    obtain ⟨x, y⟩ := q
    cases M with
    | zero => exact h.elim
    | some X Y hns =>
      obtain ⟨hx, hy, rfl, rfl⟩ := h
      exact (onCurve_iff x y).mpr ⟨hx, hy, (W_equation _ _).mp hns.1⟩

theorem rep_inj (P P' : Point) (M : W.Point) (h : Rep P M) (h' : Rep P' M) : P = P' := by
  cases M with
  | zero =>
    cases P with
    | none => cases P' with
      | none => rfl
      | some q => exact h'.elim
    | some q => exact h.elim
  | some X Y hns =>
    cases P with
    | none => exact h.elim
    | some q =>
      cases P' with
      | none => exact h'.elim
      | some q' =>
        obtain ⟨x, y⟩ := q
        obtain ⟨x', y'⟩ := q'
        obtain ⟨hx, hy, ex, ey⟩ := h
        obtain ⟨hx', hy', ex', ey'⟩ := h'
        have e1 := cast_inj_of_lt p x x' hx hx' (ex.trans ex'.symm)
        have e2 := cast_inj_of_lt p y y' hy hy' (ey.trans ey'.symm)
        rw [e1, e2]

theorem mulmod_cast (a b : Nat) : ((a * b % p : Nat) : ZMod p) = (a : ZMod p) * b := by
  rw [ZMod.natCast_mod, Nat.cast_mul]

/-- doubling formula of `Secp.dbl` in the field -/
theorem dbl_cast (x y : Nat) :
    let l := (3 * x % p * x) % p * invMod (2 * y % p) p % p
    let x3 := subMod (l * l % p) (2 * x % p) p
    let y3 := subMod (l * subMod x x3 p % p) y p
    let ℓ : ZMod p := (3 * (x : ZMod p) ^ 2) / ((y : ZMod p) - -(y : ZMod p))
    (x3 : ZMod p) = ℓ ^ 2 - x - x ∧ (y3 : ZMod p) = -(ℓ * ((ℓ ^ 2 - x - x) - x) + y) := by
  intro l x3 y3 ℓ
  have hl : (l : ZMod p) = ℓ := by
    simp only [l, ℓ, mulmod_cast, invP_cast, Nat.cast_ofNat]
    rw [div_eq_mul_inv]; congr 1
    · ring
    · congr 1; ring
  have hx3 : (x3 : ZMod p) = ℓ ^ 2 - x - x := by
    simp only [x3, subMod_cast p _ _ p_pos, mulmod_cast, hl, Nat.cast_ofNat]; ring
  refine ⟨hx3, ?_⟩
  simp only [y3, subMod_cast p _ _ p_pos, mulmod_cast, hl, hx3]; ring

/-- chord formula of `Secp.add` in the field -/
theorem chord_cast (x1 y1 x2 y2 : Nat) :
    let l := subMod y2 y1 p * invMod (subMod x2 x1 p) p % p
    let x3 := subMod (subMod (l * l % p) x1 p) x2 p
    let y3 := subMod (l * subMod x1 x3 p % p) y1 p
    let ℓ : ZMod p := ((y1 : ZMod p) - y2) / ((x1 : ZMod p) - x2)
    (x3 : ZMod p) = ℓ ^ 2 - x1 - x2 ∧ (y3 : ZMod p) = -(ℓ * ((ℓ ^ 2 - x1 - x2) - x1) + y1) := by
  intro l x3 y3 ℓ
  have hl : (l : ZMod p) = ℓ := by
    simp only [l, ℓ, mulmod_cast, invP_cast, subMod_cast p _ _ p_pos]
    rw [div_eq_mul_inv, ← neg_sub (y1 : ZMod p), ← neg_sub (x1 : ZMod p), inv_neg]; ring
  have hx3 : (x3 : ZMod p) = ℓ ^ 2 - x1 - x2 := by
    simp only [x3, subMod_cast p _ _ p_pos, mulmod_cast, hl]; ring
  refine ⟨hx3, ?_⟩
  simp only [y3, subMod_cast p _ _ p_pos, mulmod_cast, hl, hx3]; ring

theorem W_addX (X1 X2 ℓ : ZMod p) : W.addX X1 X2 ℓ = ℓ ^ 2 - X1 - X2 := by
  simp [addX, W]

theorem W_addY (X1 X2 Y1 ℓ : ZMod p) :
    W.addY X1 X2 Y1 ℓ = -(ℓ * ((ℓ ^ 2 - X1 - X2) - X1) + Y1) := by
  simp [addY, negAddY, negY, addX, W]

/-- `Secp.add` is Mathlib's addition of nonsingular points -/
theorem rep_add (P Q : Point) (M N : W.Point) (hP : Rep P M) (hQ : Rep Q N) :
    Rep (add P Q) (M + N) := by
  cases P with
  | none =>
    cases M with
    | zero => rw [← Point.zero_def, zero_add]; exact hQ
    | some _ _ _ => exact hP.elim
  | some q1 =>
    cases M with
    | zero => exact hP.elim
    | some X1 Y1 h1 =>
      cases Q with
      | none =>
        cases N with
        | zero => rw [← Point.zero_def, add_zero]; exact hP
        | some _ _ _ => exact hQ.elim
      | some q2 =>
        cases N with
        | zero => exact hQ.elim
        | some X2 Y2 h2 =>
          obtain ⟨x1, y1⟩ := q1
          obtain ⟨x2, y2⟩ := q2
          obtain ⟨hx1, hy1, rfl, rfl⟩ := hP
          obtain ⟨hx2, hy2, rfl, rfl⟩ := hQ
          have e1 := (W_equation _ _).mp h1.1
          have e2 := (W_equation _ _).mp h2.1
          by_cases hx : x1 = x2
          · subst hx
            by_cases hy : y1 = y2
            · subst hy
              -- doubling
              have hon : onCurve (some (x1, y1)) = true := (onCurve_iff x1 y1).mpr ⟨hx1, hy1, e1⟩
              have hy0 : y1 ≠ 0 := onCurve_y_ne_zero x1 y1 hon
              have hY0 := cast_ne_zero_p y1 hy0 hy1
              have hne : (y1 : ZMod p) ≠ W.negY (x1 : ZMod p) (y1 : ZMod p) := by
                rw [W_negY]; exact ne_neg_self _ hY0
              rw [Point.add_self_of_Y_ne hne]
              have hs : W.slope (x1 : ZMod p) x1 y1 y1 = (3 * (x1 : ZMod p) ^ 2) / ((y1 : ZMod p) - -(y1 : ZMod p)) := by
                rw [slope_of_Y_ne rfl hne, W_negY]; simp [W]
              have hc := dbl_cast x1 y1
              simp only [add, ↓reduceIte, dbl, hy0]
              refine ⟨subMod_lt _ _, subMod_lt _ _, ?_, ?_⟩
              · rw [W_addX, hs]; exact hc.1
              · rw [W_addY, hs]; exact hc.2
            · -- opposite points
              have hYne : (y1 : ZMod p) ≠ y2 := fun h => hy (cast_inj_of_lt p y1 y2 hy1 hy2 h)
              have hneg : (y1 : ZMod p) = W.negY (x1 : ZMod p) (y2 : ZMod p) :=
                (Y_eq_of_X_eq h1.1 h2.1 rfl).resolve_left hYne
              rw [Point.add_of_Y_eq rfl hneg]
              simp only [add, ↓reduceIte, hy]
              trivial
          · have hXne : (x1 : ZMod p) ≠ x2 := fun h => hx (cast_inj_of_lt p x1 x2 hx1 hx2 h)
            rw [Point.add_of_X_ne hXne]
            have hs : W.slope (x1 : ZMod p) x2 y1 y2 = ((y1 : ZMod p) - y2) / ((x1 : ZMod p) - x2) :=
              slope_of_X_ne hXne
            have hc := chord_cast x1 y1 x2 y2
            simp only [add, hx, ↓reduceIte]
            refine ⟨subMod_lt _ _, subMod_lt _ _, ?_, ?_⟩
            · rw [W_addX, hs]; exact hc.1
            · rw [W_addY, hs]; exact hc.2

/-- The group law of the reference curve, from Mathlib's. -/
instance secpGroupLaw : SecpGroupLaw where
  add_closed P Q hP hQ := by
    obtain ⟨M, hM⟩ := rep_exists P hP
    obtain ⟨N, hN⟩ := rep_exists Q hQ
    exact rep_onC _ _ (rep_add P Q M N hM hN)
  add_comm P Q hP hQ := by
    obtain ⟨M, hM⟩ := rep_exists P hP
    obtain ⟨N, hN⟩ := rep_exists Q hQ
    refine rep_inj _ _ (M + N) (rep_add P Q M N hM hN) ?_
    rw [add_comm]; exact rep_add Q P N M hN hM
  add_assoc P Q R hP hQ hR := by
    obtain ⟨M, hM⟩ := rep_exists P hP
    obtain ⟨N, hN⟩ := rep_exists Q hQ
    obtain ⟨O, hO⟩ := rep_exists R hR
    refine rep_inj _ _ (M + N + O) (rep_add _ _ _ _ (rep_add P Q M N hM hN) hO) ?_
    rw [add_assoc]; exact rep_add _ _ _ _ hM (rep_add Q R N O hN hO)

end GocoinV.Proofs.C03
