/-
  Proofs.C12PanicUndo — the two panic branches of `blockUndone` (os.Exit(1): processTx with flags {trusted, unmined}
  returned a code ≠ 0; and: the record just added is not in the map), one iteration (`undoneStep`).

  Proved here (per iteration, in terms of the state `cur` at the iteration for the undone transaction `X`): if
    (ns)  no pooled record spends an input of `X`                       [SpentOutputs has no entry for its UIdxs],
    (in)  every input of `X` names an existing output of a pooled record, or — no record being pooled under the BIDX of
          its previous txid — an unspent output of the rolled-back confirmed set,
    (val) `X` does not overspend by the value oracle: Σ outs ≤ Σ ν(inputs) in uint64 arithmetic,
  then processTx returns 0, the record is in the map, and the iteration is `unminedFlags` after `addT2S`; its panic flag is
  the one `addT2S` (AddToSort, see C12PanicSort) leaves.
  (ns), (in), (val) are NOT consequences of `Full` + `UndoCommitTxs` as these are stated in Proofs/C12Block: see the
  `-- OPEN:` note at the end of the file.  Core Lean only.
-/
import GocoinV.Proofs.C12PanicUnmined
import GocoinV.Proofs.C12SortRun
namespace GocoinV.Mempool

/-- the flags with which BlockUndone calls processTx -/
abbrev undoFl : Flags := { trusted := true, unmined := true }

/-- (in) for one input -/
def InAvail (K : Keys) (s : State) (i : TxIn) : Prop :=
  (∃ par, s.pool.get? (K.bidx i.prev) = some par ∧ i.vout < par.tx.outs.length) ∨
  (s.pool.get? (K.bidx i.prev) = none ∧ ∃ c, s.utxo.get? (i.prev, i.vout) = some c)

theorem inputStep_unmined_ok (K : Keys) (s : State) (a : Acc) (i : TxIn)
    (hns : s.spent.get? (K.uidx i.prev i.vout) = none) (hin : InAvail K s i) :
    ∃ a1, inputStep K s undoFl a i = .ok a1 ∧ a1.rbf = a.rbf := by
  unfold inputStep
  simp only [bind, Except.bind, pure, Except.pure, hns]
  rcases hin with ⟨par, hp, hlt⟩ | ⟨hp, c, hc⟩
  · simp only [hp]
    rw [if_neg (by omega)]
    exact ⟨_, rfl, rfl⟩
  · simp only [hp, hc]
    exact ⟨_, rfl, rfl⟩

theorem inputs_unmined_ok (K : Keys) (s : State) : ∀ (ins : List TxIn) (a : Acc),
    (∀ i ∈ ins, s.spent.get? (K.uidx i.prev i.vout) = none) → (∀ i ∈ ins, InAvail K s i) →
    ∃ a', ins.foldlM (inputStep K s undoFl) a = .ok a' ∧ a'.rbf = a.rbf := by
  intro ins
  induction ins with
  | nil => intro a _ _; exact ⟨a, rfl, rfl⟩
  | cons i r ih =>
    intro a hns hin
    obtain ⟨a1, h1, e1⟩ := inputStep_unmined_ok K s a i (hns i List.mem_cons_self) (hin i List.mem_cons_self)
    obtain ⟨a', h2, e2⟩ := ih a1 (fun j hj => hns j (List.mem_cons_of_mem _ hj))
      (fun j hj => hin j (List.mem_cons_of_mem _ hj))
    refine ⟨a', ?_, e2.trans e1⟩
    simp only [List.foldlM_cons, bind, Except.bind, h1]
    exact h2

theorem spendsReplaced_nil (K : Keys) (ins : List TxIn) (fm : List Bool) : spendsReplaced K ins fm [] = false := by
  unfold spendsReplaced
  rw [List.any_eq_false]
  intro p _
  simp

/-- under (ns), (in), (val) processTx on the unmined path accepts: it returns 0 and adds the record, replacing nothing -/
theorem processTx_unmined_accept {K : Keys} {W : Tx → Prop} {rank : TxId → Nat} {u0 : UT} {ν : OutPoint → Nat}
    (U : Univ2 K W rank u0 ν) (mf : Nat) (s : State) (X : Tx) (hX : W X) (hb : InvR K W s)
    (hV : ∀ o c, s.utxo.get? o = some c → c.value = ν o)
    (hns : ∀ i ∈ X.ins, s.spent.get? (K.uidx i.prev i.vout) = none)
    (hin : ∀ i ∈ X.ins, InAvail K s i)
    (hval : sumU64 X.outs ≤ sumν ν X.ins 0) :
    ∃ a, processTx K mf s X undoFl = (0, addT2S K s (newRec X a false)) := by
  obtain ⟨a, ha, hrbf⟩ := inputs_unmined_ok K s X.ins {} hns hin
  have hrbf' : a.rbf = [] := hrbf
  have hres : ∀ i ∈ X.ins, ∀ m v, Res K s i m v → v = ν (i.prev, i.vout) := by
    intro i hi m v hr
    rcases hr with ⟨_, par, hp, _, e⟩ | ⟨_, c, hc, e⟩
    · rw [e, ← parent_id U hb hX hi hp]
      exact (U.val_tx _ (hb.poolW _ _ hp) _).symm
    · rw [e]; exact hV _ c hc
  obtain ⟨_, _, _, f3, _⟩ := inputs_res K s undoFl ν X.ins {} a hres ha
  have hov : ¬ sumU64 X.outs > a.totinp := by
    rw [f3]
    show ¬ sumU64 X.outs > sumν ν X.ins 0
    omega
  refine ⟨a, ?_⟩
  unfold processTx
  rw [if_neg (by simp), if_neg (by simp)]
  simp only [ha]
  rw [hrbf', spendsReplaced_nil, if_neg (by simp), if_neg hov, if_neg (by simp), if_neg (by simp), if_neg (by simp)]
  rfl

/-- the key of an undone transaction whose inputs nobody in the pool spends is free -/
theorem fresh_of_unspent {K : Keys} {W : Tx → Prop} {rank : TxId → Nat} (U : Univ K W rank) (s : State) (X : Tx)
    (hX : W X) (hb : InvR K W s) (hns : ∀ i ∈ X.ins, s.spent.get? (K.uidx i.prev i.vout) = none) :
    s.pool.get? (K.bidx X.id) = none := by
  cases hx : s.pool.get? (K.bidx X.id) with
  | none => rfl
  | some old =>
    exfalso
    have k := hb.str.key _ old hx
    have e : old.tx = X := U.id_fun _ _ (hb.poolW _ old hx) hX (U.bidx_inj _ _ (hb.poolW _ old hx) hX k)
    have hne := U.ins_ne X hX
    cases hi : X.ins with
    | nil => exact hne hi
    | cons i r =>
      have hm : i ∈ X.ins := by rw [hi]; exact List.mem_cons_self
      have c := hb.str.complete _ old hx (K.uidx i.prev i.vout)
        (by rw [e]; exact List.mem_map.mpr ⟨i, hm, rfl⟩)
      rw [hns i hm] at c
      cases c

/-- target (3), one iteration: in a state `cur` with the structural invariant `InvR`, under (ns), (in), (val) for the
    undone transaction `X`, neither panic branch of BlockUndone is taken: processTx returns 0 and the record is in the
    map, the iteration is `unmined` of the record `Add` just put in; its panic flag is the one `Add` leaves
    (C12PanicSort `addT2S_panicked`: unchanged, unless AddToSort runs into the fall-through of `fixIndex`). -/
theorem undoneStep_no_exit {K : Keys} {W : Tx → Prop} {rank : TxId → Nat} {u0 : UT} {ν : OutPoint → Nat}
    (U : Univ2 K W rank u0 ν) (mf : Nat) (cur : State) (X : Tx) (hX : W X) (hb : InvR K W cur)
    (hV : ∀ o c, cur.utxo.get? o = some c → c.value = ν o)
    (hns : ∀ i ∈ X.ins, cur.spent.get? (K.uidx i.prev i.vout) = none)
    (hin : ∀ i ∈ X.ins, InAvail K cur i)
    (hval : sumU64 X.outs ≤ sumν ν X.ins 0) :
    ∃ a, (processTx K mf (rejDeleteByIdx K cur (K.bidx X.id)) X undoFl).1 = 0 ∧
      (processTx K mf (rejDeleteByIdx K cur (K.bidx X.id)) X undoFl).2.pool.get? (K.bidx X.id)
        = some (newRec X a false) ∧
      undoneStep K mf cur X = unminedFlags K (addT2S K (rejDeleteByIdx K cur (K.bidx X.id)) (newRec X a false))
        (newRec X a false) ∧
      (undoneStep K mf cur X).panicked
        = (addT2S K (rejDeleteByIdx K cur (K.bidx X.id)) (newRec X a false)).panicked := by
  have c := rejDeleteByIdx_core K cur (K.bidx X.id)
  have hb1 : InvR K W (rejDeleteByIdx K cur (K.bidx X.id)) := InvR_of_frame hb (rejDeleteByIdx_frame K W cur _)
  have hns1 : ∀ i ∈ X.ins, (rejDeleteByIdx K cur (K.bidx X.id)).spent.get? (K.uidx i.prev i.vout) = none := by
    rw [c.2.1]; exact hns
  have hin1 : ∀ i ∈ X.ins, InAvail K (rejDeleteByIdx K cur (K.bidx X.id)) i := by
    unfold InAvail; rw [c.1, c.2.2.1]; exact hin
  obtain ⟨a, hacc⟩ := processTx_unmined_accept U mf _ X hX hb1 (by rw [c.2.2.1]; exact hV) hns1 hin1 hval
  have hpool : (addT2S K (rejDeleteByIdx K cur (K.bidx X.id)) (newRec X a false)).pool.get? (K.bidx X.id)
      = some (newRec X a false) := by
    rw [(addT2S_pool_spent K _ _).1]
    exact AList.get?_set_self _ _ _
  have hstep : undoneStep K mf cur X
      = unminedFlags K (addT2S K (rejDeleteByIdx K cur (K.bidx X.id)) (newRec X a false)) (newRec X a false) := by
    unfold undoneStep
    dsimp only
    have hacc' : processTx K mf (rejDeleteByIdx K cur (K.bidx X.id)) X { trusted := true, unmined := true }
        = (0, addT2S K (rejDeleteByIdx K cur (K.bidx X.id)) (newRec X a false)) := hacc
    rw [hacc']
    simp only [if_true, hpool]
  refine ⟨a, by rw [hacc], by rw [hacc]; exact hpool, hstep, ?_⟩
  rw [hstep]
  have hI : InvS K (addT2S K (rejDeleteByIdx K cur (K.bidx X.id)) (newRec X a false)) :=
    addT2S_InvS K _ _ hb1.str (fresh_of_unspent U.base _ X hX hb1 hns1) (by
      intro u hu
      obtain ⟨i, hi, rfl⟩ := List.mem_map.mp hu
      exact hns1 i hi)
  exact (unminedFlags_panicked hI _).1

/-
-- OPEN: the statement over the whole loop,
--   theorem blockUndone_no_exit … (hd : disconnectUtxo s = some (s', txs)) (F : Full K W u0 ν s)
--     (uc : UndoCommitTxs u0 ν s s' txs) : (blockUndone K mf s' txs).panicked = s'.panicked
-- is NOT provable from `Full` + `UndoCommitTxs` as stated in Proofs/C12Block / C12Run: three facts of a VALID block
-- that are used by (ns), (in), (val) above are not among their conjuncts and would have to be added as hypotheses:
--   (H1) restored:  ∀ pre X post, txs = pre ++ X :: post → ∀ i ∈ X.ins,
--                     inU s' (i.prev, i.vout) ∨ ∃ Y ∈ pre, i.prev = Y.id ∧ i.vout < Y.outs.length
--        (`UndoCommitTxs` has `gone` and `keep` only: nothing says that what the block spent is unspent again, nor that
--         an in-block parent stands BEFORE its child and has that output — without it: R_NO_TXOU resp. R_BAD_INPUT);
--   (H2) no double spend inside the block: txs.Pairwise (fun Y X => ∀ o ∈ Y.inOps, o ∉ X.inOps)
--        (`ChainOK.nd` is per transaction; with a double spend the later transaction replaces the earlier one on the
--         unmined path — rbfStep is not strict there — and a child of the replaced one then fails with R_NO_TXOU);
--   (H3) value-validity: ∀ X ∈ txs, sumU64 X.outs ≤ sumν ν X.ins 0      (not part of ChainOK; without it: R_OVERSPEND).
-- With H1–H3 the loop invariant is: PoolOK against `BRem s' rest` (as in `blockUndone_good`) ∧ "no pooled record
-- spends an input of a transaction of `rest`" ∧ "the transactions of `pre` are pooled"; (ns) at the start follows from
-- PGood + ChainOK.c1/c2 of `s` (an unflagged pooled input is unspent in `s`, a flagged one names a pooled, hence
-- unconfirmed, id — the inputs of a connected transaction are spent and name confirmed ids). Not carried out here
-- (time), and `undoneStep_ok` needs `panicked = false` of the result, which in turn needs the `fixIndex`
-- fall-through of AddToSort excluded at every iteration (C12PanicSort `FixFall`).
-/

end GocoinV.Mempool
