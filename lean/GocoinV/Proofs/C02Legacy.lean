/-
  Proofs.C02Legacy — the legacy algorithm: gocoin's opcode reader vs. the specification's, code
  separator stripping, and the streamed serialisation vs. "serialise the modified copy".
-/
import GocoinV.Model.SigHash
import GocoinV.Spec.SigHash
import GocoinV.Proofs.C02Spec
set_option linter.unusedSimpArgs false
namespace GocoinV.SigHash
open GocoinV.Wire (Tx TxIn TxOut)
open GocoinV.Spec.SigHash (compactSize varBytes outpoint txOut txIn u32 u64 anyoneCanPay baseType nextOp opLen parseOps)

/-- the two opcode readers agree on every operation that decodes -/
theorem getOpcode_of_nextOp (s op rest : Bytes) (h : nextOp s = some (op, rest)) :
    ∃ opc n, getOpcode s = some (opc, n) ∧ op = s.take n ∧ rest = s.drop n ∧ 1 ≤ n ∧
      (opc = 0xab ↔ op = [0xab]) := by
  unfold nextOp at h
  cases s with
  | nil => simp [opLen] at h
  | cons b t =>
    have hb171 : b.toNat = 0xab ↔ b = 0xab := by
      constructor
      · intro h; exact UInt8.toNat_inj.mp (by simpa using h)
      · intro h; subst h; rfl
    by_cases h1 : b.toNat < 0x4c
    · simp only [opLen, h1, ↓reduceIte] at h
      by_cases hn : 1 + b.toNat ≤ (b :: t).length
      · simp only [hn, ↓reduceIte, Option.some.injEq, Prod.mk.injEq] at h
        simp only [List.length_cons] at hn
        refine ⟨b.toNat, 1 + b.toNat, ?_, h.1.symm, h.2.symm, by omega, ?_⟩
        · have : b.toNat ≤ 0x4e := by omega
          simp [getOpcode, this, h1, hn]
        · constructor
          · intro e; omega
          · intro e
            rw [← h.1] at e
            have : (b :: t).take (1 + b.toNat) = b :: t.take b.toNat := by
              rw [Nat.add_comm]; rfl
            rw [this] at e
            injection e with e1 _
            have := hb171.mpr e1
            omega
      · simp only [hn, ↓reduceIte] at h; cases h
    · have hne : ∀ l, (b :: t).take (l + 1) = [0xab] → b.toNat = 0xab := by
        intro l e
        have : (b :: t).take (l + 1) = b :: t.take l := rfl
        rw [this] at e
        injection e with e1 _
        exact hb171.mpr e1
      by_cases h2 : b = 0x4c
      · subst h2
        cases t with
        | nil => simp [opLen] at h
        | cons a t' =>
          simp only [opLen, show ¬ ((0x4c : UInt8).toNat < 0x4c) by decide, ↓reduceIte] at h
          by_cases hn : 2 + a.toNat ≤ (0x4c :: a :: t').length
          · simp only [hn, ↓reduceIte, Option.some.injEq, Prod.mk.injEq] at h
            simp only [List.length_cons] at hn
            refine ⟨0x4c, 2 + a.toNat, ?_, h.1.symm, h.2.symm, by omega, ?_⟩
            · simp [getOpcode, leVal, hn]
            · constructor
              · intro e; cases e
              · intro e; rw [← h.1] at e
                have := hne (1 + a.toNat) (by rw [← e]; congr 1; omega)
                cases this
          · simp only [hn, ↓reduceIte] at h; cases h
      · by_cases h3 : b = 0x4d
        · subst h3
          match t, h with
          | [], h => simp [opLen] at h
          | [_], h => simp [opLen] at h
          | a :: a2 :: t', h =>
            simp only [opLen, show ¬ ((0x4d : UInt8).toNat < 0x4c) by decide,
              show ¬ ((0x4d : UInt8) = 0x4c) by decide, ↓reduceIte] at h
            by_cases hn : 3 + (a.toNat + 256 * a2.toNat) ≤ (0x4d :: a :: a2 :: t').length
            · simp only [hn, ↓reduceIte, Option.some.injEq, Prod.mk.injEq] at h
              simp only [List.length_cons] at hn
              refine ⟨0x4d, 3 + (a.toNat + 256 * a2.toNat), ?_, h.1.symm, h.2.symm, by omega, ?_⟩
              · simp [getOpcode, leVal, hn]
              · constructor
                · intro e; cases e
                · intro e; rw [← h.1] at e
                  have := hne (2 + (a.toNat + 256 * a2.toNat)) (by rw [← e]; congr 1; omega)
                  cases this
            · simp only [hn, ↓reduceIte] at h; cases h
        · by_cases h4 : b = 0x4e
          · subst h4
            match t, h with
            | [], h => simp [opLen] at h
            | [_], h => simp [opLen] at h
            | [_, _], h => simp [opLen] at h
            | [_, _, _], h => simp [opLen] at h
            | a :: a2 :: a3 :: a4 :: t', h =>
              simp only [opLen, show ¬ ((0x4e : UInt8).toNat < 0x4c) by decide,
                show ¬ ((0x4e : UInt8) = 0x4c) by decide, show ¬ ((0x4e : UInt8) = 0x4d) by decide, ↓reduceIte] at h
              by_cases hn : 5 + (a.toNat + 256 * (a2.toNat + 256 * (a3.toNat + 256 * a4.toNat))) ≤ (0x4e :: a :: a2 :: a3 :: a4 :: t').length
              · simp only [hn, ↓reduceIte, Option.some.injEq, Prod.mk.injEq] at h
                simp only [List.length_cons] at hn
                refine ⟨0x4e, 5 + (a.toNat + 256 * (a2.toNat + 256 * (a3.toNat + 256 * a4.toNat))), ?_, h.1.symm, h.2.symm, by omega, ?_⟩
                · simp [getOpcode, leVal, hn]
                · constructor
                  · intro e; cases e
                  · intro e; rw [← h.1] at e
                    have := hne (4 + (a.toNat + 256 * (a2.toNat + 256 * (a3.toNat + 256 * a4.toNat)))) (by rw [← e]; congr 1; omega)
                    cases this
              · simp only [hn, ↓reduceIte] at h; cases h
          · simp only [opLen, h1, h2, h3, h4, ↓reduceIte, List.length_cons, Nat.le_add_left, Option.some.injEq,
              Prod.mk.injEq] at h
            have hgt : ¬ b.toNat ≤ 0x4e := by
              intro hle
              have hc : b.toNat = 0x4c ∨ b.toNat = 0x4d ∨ b.toNat = 0x4e := by omega
              rcases hc with hc | hc | hc
              · exact h2 (UInt8.toNat_inj.mp (by simpa using hc))
              · exact h3 (UInt8.toNat_inj.mp (by simpa using hc))
              · exact h4 (UInt8.toNat_inj.mp (by simpa using hc))
            refine ⟨b.toNat, 1, ?_, h.1.symm, h.2.symm, by omega, ?_⟩
            · simp [getOpcode, hgt]
            · rw [← h.1]
              constructor
              · intro e; have := hb171.mp e; subst this; rfl
              · intro e; exact hne 0 e

/-- on a script that decodes, the stripping loop of `SignatureHash` removes exactly the
    OP_CODESEPARATOR operations -/
theorem stripCodeSepAux_eq : ∀ (fuel : Nat) (s : Bytes) (ops : List Bytes), parseOps fuel s = some ops →
    ∀ fuel', s.length ≤ fuel' →
      stripCodeSepAux fuel' s = (ops.filter (· ≠ Spec.SigHash.OP_CODESEPARATOR)).flatten := by
  intro fuel
  induction fuel with
  | zero =>
    intro s ops h fuel' _
    cases s with
    | nil =>
      simp only [parseOps, Option.some.injEq] at h; subst h
      cases fuel' <;> simp [stripCodeSepAux]
    | cons b t => simp [parseOps] at h
  | succ f ih =>
    intro s ops h fuel' hf
    cases s with
    | nil =>
      simp only [parseOps, Option.some.injEq] at h; subst h
      cases fuel' <;> simp [stripCodeSepAux]
    | cons b t =>
      simp only [parseOps] at h
      cases hn : nextOp (b :: t) with
      | none => simp [hn] at h
      | some pr =>
        obtain ⟨op, rest⟩ := pr
        simp only [hn] at h
        cases hp : parseOps f rest with
        | none => simp [hp] at h
        | some ops' =>
          simp only [hp, Option.some.injEq] at h
          subst h
          obtain ⟨opc, n, hg, hop, hrest, hn1, hab⟩ := getOpcode_of_nextOp (b :: t) op rest hn
          cases fuel' with
          | zero => simp at hf
          | succ f' =>
            have hlen : rest.length ≤ f' := by
              rw [hrest, List.length_drop]; simp only [List.length_cons] at hf ⊢; omega
            have ih' := ih rest ops' hp f' hlen
            simp only [stripCodeSepAux, List.isEmpty_cons, Bool.false_eq_true, ↓reduceIte, hg]
            rw [← hrest, ih', ← hop]
            by_cases hc : op = [0xab]
            · have : opc = 0xab := hab.mpr hc
              simp [this, hc, Spec.SigHash.OP_CODESEPARATOR]
            · have : opc ≠ 0xab := fun e => hc (hab.mp e)
              simp [this, hc, Spec.SigHash.OP_CODESEPARATOR]

theorem stripCodeSep_eq (s : Bytes) (ops : List Bytes) (h : Spec.SigHash.parse s = some ops) :
    stripCodeSep s = (ops.filter (· ≠ Spec.SigHash.OP_CODESEPARATOR)).flatten :=
  stripCodeSepAux_eq s.length s ops h s.length (Nat.le_refl _)

/-- the "blanked" input number `k` of the modified copy -/
def blankIn (sc : Bytes) (idx base : Nat) (k : Nat) (i : TxIn) : TxIn :=
  { i with scriptSig := if k = idx then sc else [],
           sequence := if k ≠ idx ∧ (base = 2 ∨ base = 3) then 0 else i.sequence }

theorem txIn_blank (sc : Bytes) (idx base k : Nat) (i : TxIn) :
    txIn (blankIn sc idx base k i) =
      serOutpoint i ++ (if k = idx then writeVlen sc.length ++ sc else [0])
        ++ (if (base = 2 ∨ base = 3) ∧ k ≠ idx then [0, 0, 0, 0] else le32 i.sequence) := by
  unfold txIn blankIn
  by_cases hk : k = idx
  · simp [hk, serOutpoint, outpoint, varBytes, writeVlen_eq, le32, u32]
  · by_cases hb : base = 2 ∨ base = 3
    · simp [hk, hb, serOutpoint, outpoint, varBytes, compactSize, le32, u32]; decide
    · simp [hk, hb, serOutpoint, outpoint, varBytes, compactSize, le32, u32]

theorem legacyIns_eq (sc : Bytes) (idx base : Nat) : ∀ (ins : List TxIn) (k0 : Nat),
    ((ins.mapIdx fun k i => blankIn sc idx base (k + k0) i).map txIn).flatten = legacyIns sc idx base k0 ins := by
  intro ins
  induction ins with
  | nil => intro k0; rfl
  | cons a l ih =>
    intro k0
    rw [List.mapIdx_cons]
    simp only [List.map_cons, List.flatten_cons, Nat.zero_add, legacyIns, txIn_blank]
    have : (fun (i : Nat) (x : TxIn) => blankIn sc idx base (i + 1 + k0) x) = (fun i x => blankIn sc idx base (i + (k0 + 1)) x) := by
      funext i x; congr 1; omega
    rw [this, ih (k0 + 1)]

theorem u32_eq (n : Nat) : le32 n = u32 n := rfl

theorem copy_ins (tx : Tx) (sc : Bytes) (idx ht : Nat) (hi : idx < tx.ins.length) :
    Spec.SigHash.vector txIn (Spec.SigHash.legacyTxCopy tx sc idx ht).ins =
      if ht &&& 0x80 ≠ 0 then
        [1] ++ serOutpoint tx.ins[idx] ++ writeVlen sc.length ++ sc ++ le32 tx.ins[idx].sequence
      else writeVlen tx.ins.length ++ legacyIns sc idx (baseType ht) 0 tx.ins := by
  have hmap : (tx.ins.mapIdx fun k i =>
      ({ i with scriptSig := if k = idx then sc else [],
                sequence := if k ≠ idx ∧ (baseType ht = 2 ∨ baseType ht = 3) then 0 else i.sequence } : TxIn))
      = tx.ins.mapIdx fun k i => blankIn sc idx (baseType ht) (k + 0) i := rfl
  unfold Spec.SigHash.legacyTxCopy Spec.SigHash.vector
  simp only [hmap]
  by_cases ha : anyoneCanPay ht = true
  · have ha' : ht &&& 0x80 ≠ 0 := (and_80 ht).mpr ha
    simp only [ha, ↓reduceIte, ha']
    have hl : idx < (tx.ins.mapIdx fun k i => blankIn sc idx (baseType ht) (k + 0) i).length := by simpa using hi
    rw [List.drop_eq_getElem_cons hl]
    simp only [List.take_succ_cons, List.take_zero, List.length_cons, List.length_nil, List.map_cons, List.map_nil,
      List.flatten_cons, List.flatten_nil, List.append_nil, List.getElem_mapIdx, Nat.add_zero, txIn_blank]
    simp [compactSize, List.append_assoc, ha']
  · have ha' : ¬ (ht &&& 0x80 ≠ 0) := fun x => ha ((and_80 ht).mp x)
    simp only [ha, ha', ↓reduceIte, Bool.false_eq_true, List.length_mapIdx, legacyIns_eq, writeVlen_eq]

theorem copy_outs (tx : Tx) (sc : Bytes) (idx ht : Nat) :
    Spec.SigHash.vector txOut (Spec.SigHash.legacyTxCopy tx sc idx ht).outs =
      if baseType ht = 2 then [0]
      else if baseType ht = 3 then
        match tx.outs[idx]? with
        | none => compactSize idx ++ (List.replicate idx [0xff,0xff,0xff,0xff,0xff,0xff,0xff,0xff,0]).flatten
        | some o => writeVlen (idx + 1) ++ (List.replicate idx [0xff,0xff,0xff,0xff,0xff,0xff,0xff,0xff,0]).flatten ++ serOut o
      else writeVlen tx.outs.length ++ tx.outs.flatMap serOut := by
  unfold Spec.SigHash.legacyTxCopy Spec.SigHash.vector
  by_cases h2 : baseType ht = 2
  · simp [h2, compactSize]
  · by_cases h3 : baseType ht = 3
    · have hb : txOut ({ value := 2^64 - 1, pkScript := [] } : TxOut) = [0xff,0xff,0xff,0xff,0xff,0xff,0xff,0xff,0] := by decide
      cases ho : tx.outs[idx]? with
      | none =>
        have : tx.outs.length ≤ idx := List.getElem?_eq_none_iff.mp ho
        simp [h2, h3, List.drop_eq_nil_of_le this, hb]
      | some o =>
        obtain ⟨hl, he⟩ := List.getElem?_eq_some_iff.mp ho
        simp [h2, h3, List.drop_eq_getElem_cons hl, he, hb, writeVlen_eq, serOut_eq, List.append_assoc]
    · simp [h2, h3, writeVlen_eq, List.flatMap_def, serOut_eq]
      congr 2
      funext o; exact (serOut_eq o).symm

/-- The legacy algorithm: for every transaction, input index in range, 32-bit hash type and script code
    that decodes into operations, `SignatureHash` hashes exactly "the modified copy of the transaction,
    serialised, followed by the hash type" — or returns the constant one where the original algorithm does. -/
theorem legacy_eq_spec (H : Bytes → Bytes) (tx : Tx) (scriptCode : Bytes) (idx ht : Nat) (m : Spec.SigHash.SigMsg)
    (h : Spec.SigHash.legacy tx scriptCode idx ht = some m) :
    signatureHash H tx scriptCode idx ht =
      match m with
      | .one => .const one32
      | .msg pre => .hashed pre (H (H pre)) := by
  unfold Spec.SigHash.legacy at h
  by_cases hi : idx ≥ tx.ins.length
  · simp [hi] at h
  · simp only [hi, ↓reduceIte] at h
    cases hp : Spec.SigHash.parse scriptCode with
    | none => simp [hp] at h
    | some ops =>
      simp only [hp] at h
      have hstrip := stripCodeSep_eq scriptCode ops hp
      have hi' : idx < tx.ins.length := by omega
      have hinp : tx.ins[idx]? = some tx.ins[idx] := by simp [hi']
      by_cases hone : baseType ht = 3 ∧ idx ≥ tx.outs.length
      · simp only [hone, and_self, ↓reduceIte, Option.some.injEq] at h
        subst h
        have ho : tx.outs[idx]? = none := List.getElem?_eq_none_iff.mpr hone.2
        unfold signatureHash
        by_cases ha : ht &&& 0x80 ≠ 0 <;> simp [and_1f, hone.1, hinp, ho, ha]
      · simp only [hone, ↓reduceIte, Option.some.injEq] at h
        subst h
        have hins := copy_ins tx ((ops.filter (· ≠ Spec.SigHash.OP_CODESEPARATOR)).flatten) idx ht hi'
        have houts := copy_outs tx ((ops.filter (· ≠ Spec.SigHash.OP_CODESEPARATOR)).flatten) idx ht
        unfold signatureHash Spec.SigHash.serializeTx
        simp only [hins, houts, and_1f, hstrip, hinp]
        have hv : (Spec.SigHash.legacyTxCopy tx ((ops.filter (· ≠ Spec.SigHash.OP_CODESEPARATOR)).flatten) idx ht).version = tx.version := rfl
        have hlk : (Spec.SigHash.legacyTxCopy tx ((ops.filter (· ≠ Spec.SigHash.OP_CODESEPARATOR)).flatten) idx ht).lockTime = tx.lockTime := rfl
        rw [hv, hlk]
        by_cases ha : ht &&& 0x80 ≠ 0
        · by_cases h2 : baseType ht = 2
          · simp [ha, h2, le32, u32, List.append_assoc]
          · by_cases h3 : baseType ht = 3
            · have hl : idx < tx.outs.length := by
                have := hone; simp only [h3, true_and] at this; omega
              have ho : tx.outs[idx]? = some tx.outs[idx] := by simp [hl]
              simp [ha, h2, h3, ho, le32, u32, List.append_assoc]
            · simp [ha, h2, h3, le32, u32, List.append_assoc]
        · by_cases h2 : baseType ht = 2
          · simp [ha, h2, le32, u32, List.append_assoc]
          · by_cases h3 : baseType ht = 3
            · have hl : idx < tx.outs.length := by
                have := hone; simp only [h3, true_and] at this; omega
              have ho : tx.outs[idx]? = some tx.outs[idx] := by simp [hl]
              simp [ha, h2, h3, ho, le32, u32, List.append_assoc]
            · simp [ha, h2, h3, le32, u32, List.append_assoc]

end GocoinV.SigHash
