/-
  Proofs.C08_Chain — the addition chains `Field.Inv` and `Field.Sqrt` (Model.Group.inv / sqrt over the
  generated mul/sqr): the result is a^(p−2) = a⁻¹ resp. a^((p+1)/4) in F_p, magnitude 1, for every input of
  magnitude ≤ 8 (exponent bookkeeping: (a^e1)^(2^k)·a^e2 = a^(e1·2^k+e2); closed exponents compared by evaluation).
-/
import GocoinV.Model.Group
import GocoinV.Proofs.C08_Zp

namespace GocoinV.C08
open GocoinV.Gen.Field5x52

theorem sqrN_succ (k : Nat) (x : Fe) : sqrN (k+1) x = sqrN k (sqr x) := iterN_succ sqr k x
theorem sqrN_zero (x : Fe) : sqrN 0 x = x := iterN_zero sqr x

theorem sqrN_S (n : Nat) : ∀ {x : Fe} {v : F}, FeS x 1 v → FeS (sqrN n x) 1 (v ^ (2 ^ n)) := by
  induction n with
  | zero =>
    intro x v h
    rw [sqrN_zero, pow_zero, pow_one]; exact h
  | succ k ih =>
    intro x v h
    have h2 := ih (h.sqr (by decide))
    rw [← pow_two, ← pow_mul, ← pow_succ'] at h2
    rw [sqrN_succ]
    exact h2

/-- one link of the chain: `x.Sqr` k times, then `Mul` by y -/
theorem chain_step {a : F} {x y : Fe} {e1 e2 m : Nat} (k : Nat) (hx : FeS x 1 (a ^ e1)) (hy : FeS y m (a ^ e2))
    (hm : m ≤ 8) (e : Nat) (he : e1 * 2 ^ k + e2 = e) : FeS (mul (sqrN k x) y) 1 (a ^ e) := by
  have h := (sqrN_S k hx).mul hy (by decide) hm
  rw [← pow_mul, ← pow_add, he] at h
  exact h

theorem chain223_spec (a : Fe) (m : Nat) (ha : a.mag m) (hm : m ≤ 8) :
    FeS (chain223 a).1 1 (a.z ^ 3) ∧ FeS (chain223 a).2.1 1 (a.z ^ 7) ∧
    FeS (chain223 a).2.2.1 1 (a.z ^ (2 ^ 22 - 1)) ∧ FeS (chain223 a).2.2.2 1 (a.z ^ (2 ^ 223 - 1)) := by
  have h1 : FeS a m (a.z ^ 1) := by simpa using FeS.self ha
  have x2 : FeS (mul (sqr a) a) 1 (a.z ^ 3) := by
    have := (h1.sqr hm).mul h1 (by decide) hm
    rw [← pow_add, ← pow_add] at this; exact this
  have x3 : FeS (mul (sqr (mul (sqr a) a)) a) 1 (a.z ^ 7) := by
    have := (x2.sqr (by decide)).mul h1 (by decide) hm
    rw [← pow_add, ← pow_add] at this; exact this
  have x6 := chain_step 3 x3 x3 (by decide) (2 ^ 6 - 1) (by decide)
  have x9 := chain_step 3 x6 x3 (by decide) (2 ^ 9 - 1) (by decide)
  have x11 := chain_step 2 x9 x2 (by decide) (2 ^ 11 - 1) (by decide)
  have x22 := chain_step 11 x11 x11 (by decide) (2 ^ 22 - 1) (by decide)
  have x44 := chain_step 22 x22 x22 (by decide) (2 ^ 44 - 1) (by decide)
  have x88 := chain_step 44 x44 x44 (by decide) (2 ^ 88 - 1) (by decide)
  have x176 := chain_step 88 x88 x88 (by decide) (2 ^ 176 - 1) (by decide)
  have x220 := chain_step 44 x176 x44 (by decide) (2 ^ 220 - 1) (by decide)
  have x223 := chain_step 3 x220 x3 (by decide) (2 ^ 223 - 1) (by decide)
  exact ⟨x2, x3, x22, x223⟩

/-- `Field.Inv` computes a^(p−2) -/
theorem inv_pow (a : Fe) (m : Nat) (ha : a.mag m) (hm : m ≤ 8) : FeS (inv a) 1 (a.z ^ (P - 2)) := by
  obtain ⟨x2, _, x22, x223⟩ := chain223_spec a m ha hm
  have h1 : FeS a m (a.z ^ 1) := by simpa using FeS.self ha
  have t1 := chain_step 23 x223 x22 (by decide) _ rfl
  have t2 := chain_step 5 t1 h1 hm _ rfl
  have t3 := chain_step 3 t2 x2 (by decide) _ rfl
  have t4 := chain_step 2 t3 h1 hm (P - 2) (by decide)
  exact t4

/-- `Field.Sqrt` computes a^((p+1)/4) -/
theorem sqrt_pow (a : Fe) (m : Nat) (ha : a.mag m) (hm : m ≤ 8) : FeS (sqrt a) 1 (a.z ^ ((P + 1) / 4)) := by
  obtain ⟨x2, _, x22, x223⟩ := chain223_spec a m ha hm
  have t1 := chain_step 23 x223 x22 (by decide) _ rfl
  have t2 := chain_step 6 t1 x2 (by decide) _ rfl
  have t3 := sqrN_S 2 t2
  rw [← pow_mul] at t3
  have e : (((2 ^ 223 - 1) * 2 ^ 23 + (2 ^ 22 - 1)) * 2 ^ 6 + 3) * 2 ^ 2 = (P + 1) / 4 := by decide
  rw [e] at t3
  exact t3

theorem pow_p_sub_two (v : F) : v ^ (P - 2) = v⁻¹ := by
  by_cases h : v = 0
  · subst h
    rw [inv_zero, zero_pow]; decide
  · have h1 : v ^ (P - 1) = 1 := ZMod.pow_card_sub_one_eq_one h
    have e : P - 1 = (P - 2) + 1 := by decide
    rw [e, pow_succ] at h1
    exact eq_inv_of_mul_eq_one_left h1

/-- `Field.Inv`: the inverse in F_p (0 ↦ 0), magnitude 1, for every input of magnitude ≤ 8 -/
theorem inv_S (a : Fe) (m : Nat) (ha : a.mag m) (hm : m ≤ 8) : FeS (inv a) 1 (a.z)⁻¹ := by
  have := inv_pow a m ha hm
  rwa [pow_p_sub_two] at this

/-- if a is a square in F_p then `Field.Sqrt(a)` is one of its square roots -/
theorem sqrt_sq (v r : F) (h : r * r = v) : (v ^ ((P + 1) / 4)) * (v ^ ((P + 1) / 4)) = v := by
  by_cases hr : r = 0
  · subst hr
    rw [← h, mul_zero, zero_pow (by decide), mul_zero]
  · have h1 : r ^ (P - 1) = 1 := ZMod.pow_card_sub_one_eq_one hr
    rw [← pow_add, ← h, ← pow_two, ← pow_mul]
    have e : 2 * ((P + 1) / 4 + (P + 1) / 4) = (P - 1) + 2 := by decide
    rw [e, pow_add, h1, one_mul]

end GocoinV.C08
