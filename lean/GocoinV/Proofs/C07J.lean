/-
  Proofs.C07J — the "consistency" invariant of the persistence model: provenance of everything on disk
  (`Prov`: every data block / index record / undo file comes from the block universe `bs`, every snapshot
  file holds the replay of its block's chain), the same for every emitted effect (`EffB`, which gives `Prov`
  at EVERY crash prefix), and the in-memory chain (`Chain`: the node's unspent set is the replay of an
  explicit chain ending at its tip).  `Neutral` = steps that touch none of this.
  Core Lean only.
-/
import GocoinV.Proofs.C07Chain
import GocoinV.Proofs.C07Ops
namespace GocoinV.Proofs.C07
open GocoinV.Persist

/-- a snapshot holding the replay of its block's chain (and that chain's length as height) -/
def Cons (bs : List Block) (sn : Snap) : Prop :=
  ∃ path, ChainOK bs path ∧ sn.tip = headId path ∧ SameSet sn.coins (rp path) ∧ sn.height = path.length

def OwnUndo (bs : List Block) (u : UndoFile) : Prop := ∃ b ∈ bs, u = ⟨b.id, b.spends⟩
def RecOf (bs : List Block) (r : IdxRec) : Prop := ∃ b ∈ bs, b.id = r.id ∧ b.parent = r.parent ∧ b.height = r.height

structure Prov (bs : List Block) (d : Disk) : Prop where
  datB : ∀ b ∈ d.dat, b ∈ bs
  idxB : ∀ r ∈ d.idx, RecOf bs r
  undoB : ∀ p ∈ d.undo, OwnUndo bs p.2
  tmpB : ∀ u, d.undoTmp = some u → OwnUndo bs u
  dbB : ∀ sn, d.db = some sn → Cons bs sn
  oldB : ∀ sn, d.old = some sn → Cons bs sn
  tmpsB : ∀ t ∈ d.tmps, Cons bs t.snap

theorem Prov.empty (bs : List Block) : Prov bs {} := by
  constructor <;> simp

/-- state-independent side condition of an effect -/
def EffB (bs : List Block) : Effect → Prop
  | .appendDat b => b ∈ bs
  | .appendIdx r => RecOf bs r
  | .writeUndoTmp u => OwnUndo bs u
  | .createTmp sn => Cons bs sn
  | _ => True

theorem apply_prov {bs : List Block} {d : Disk} (h : Prov bs d) (e : Effect) (ok : EffB bs e) : Prov bs (apply d e) := by
  cases e with
  | nop => exact h
  | renameDbOld =>
    simp only [apply]
    split
    · exact h
    · rename_i s hs
      exact { h with dbB := by intro sn hsn; simp at hsn, oldB := by intro sn hsn; simp at hsn; subst hsn; exact h.dbB _ hs }
  | createTmp s =>
    refine { h with tmpsB := ?_ }
    intro t ht
    simp only [apply, List.mem_cons, List.mem_filter] at ht
    rcases ht with ht | ht
    · subst ht; exact ok
    · exact h.tmpsB t ht.1
  | chunkTmp t =>
    refine { h with tmpsB := ?_ }
    intro x hx
    simp only [apply, List.mem_map] at hx
    obtain ⟨y, hy, rfl⟩ := hx
    have := h.tmpsB y hy
    split <;> exact this
  | flushTmp t =>
    refine { h with tmpsB := ?_ }
    intro x hx
    simp only [apply, List.mem_map] at hx
    obtain ⟨y, hy, rfl⟩ := hx
    have := h.tmpsB y hy
    split <;> exact this
  | removeTmp t =>
    refine { h with tmpsB := ?_ }
    intro x hx
    simp only [apply, List.mem_filter] at hx
    exact h.tmpsB x hx.1
  | renameTmpDb t =>
    simp only [apply]
    split
    · exact h
    · rename_i x hx
      have hm := List.mem_of_find?_eq_some hx
      refine { h with dbB := ?_, tmpsB := ?_ }
      · intro sn hsn; simp at hsn; subst hsn; exact h.tmpsB x hm
      · intro y hy
        simp only [List.mem_filter] at hy
        exact h.tmpsB y hy.1
  | writeUndoTmp u =>
    refine { h with tmpB := ?_ }
    intro u' hu'
    simp only [apply, Option.some.injEq] at hu'
    subst hu'; exact ok
  | renameUndoTmp hh =>
    simp only [apply]
    split
    · exact h
    · rename_i u hu
      refine { h with tmpB := by intro u' hu'; simp at hu', undoB := ?_ }
      intro p hp
      simp only [setUndo, List.mem_cons, List.mem_filter] at hp
      rcases hp with hp | hp
      · subst hp; exact h.tmpB u hu
      · exact h.undoB p hp.1
  | removeUndoTmp => exact { h with tmpB := by intro u' hu'; simp [apply] at hu' }
  | appendDat b =>
    refine { h with datB := ?_ }
    intro y hy
    simp only [apply, List.mem_append, List.mem_singleton] at hy
    rcases hy with hy | hy
    · exact h.datB y hy
    · subst hy; exact ok
  | appendIdx r =>
    refine { h with idxB := ?_ }
    intro y hy
    simp only [apply, List.mem_append, List.mem_singleton] at hy
    rcases hy with hy | hy
    · exact h.idxB y hy
    · subst hy; exact ok
  | setTrusted id =>
    refine { h with idxB := ?_ }
    intro y hy
    simp only [apply, List.mem_map] at hy
    obtain ⟨x, hx, rfl⟩ := hy
    have := h.idxB x hx
    split <;> exact this

theorem applyAll_prov {bs : List Block} : ∀ (es : List LEffect) (d : Disk), Prov bs d → (∀ e ∈ es, EffB bs e.1) →
    Prov bs (applyAll d es)
  | [], _, h, _ => h
  | e :: es, d, h, hs => by
    rw [applyAll_cons]
    exact applyAll_prov es _ (apply_prov h e.1 (hs e (by simp))) (fun x hx => hs x (by simp [hx]))

/-! ### the in-memory chain -/

structure Chain (bs : List Block) (n : Node) (path : List Block) : Prop where
  ok : ChainOK bs path
  tip : n.tip = headId path
  utxo : SameSet n.utxo (rp path)
  lastH : n.lastHeight = path.length
  tipH : n.tipHeight = path.length
  inT : ∀ b ∈ path, ∃ t ∈ n.tree, t.id = b.id

theorem Chain.congr {bs : List Block} {n n' : Node} {path : List Block} (h : Chain bs n path)
    (h1 : n'.tip = n.tip) (h2 : n'.utxo = n.utxo) (h3 : n'.lastHeight = n.lastHeight) (h4 : n'.tipHeight = n.tipHeight)
    (h5 : n'.tree = n.tree) : Chain bs n' path :=
  ⟨h.ok, h1 ▸ h.tip, h2 ▸ h.utxo, h3 ▸ h.lastH, h4 ▸ h.tipH, h5 ▸ h.inT⟩

theorem Chain.cons (bs : List Block) {n : Node} {path : List Block} (h : Chain bs n path) : Cons bs ⟨n.tip, n.lastHeight, n.utxo⟩ :=
  ⟨path, h.ok, h.tip, h.utxo, h.lastH⟩

/-- everything of the invariant except the chain -/
structure JD (bs : List Block) (s : St) : Prop where
  prov : Prov bs s.d
  effs : ∀ e ∈ s.es, EffB bs e.1
  memB : ∀ b ∈ s.n.mem, b ∈ bs
  queueB : ∀ b ∈ s.n.queue, b ∈ bs
  treeB : ∀ t ∈ s.n.tree, ∃ b ∈ bs, b.id = t.id ∧ b.parent = t.parent ∧ b.height = t.height
  treeC : ∀ t ∈ s.n.tree, t.parent = 0 ∨ ∃ t' ∈ s.n.tree, t'.id = t.parent

/-- a step that changes neither tip, set, heights, tree, ghost flag nor error, adds only blocks of `bs` to the cache and
    the write queue, and emits only effects satisfying `EffB` -/
structure Neutral (bs : List Block) (s s' : St) : Prop where
  tip : s'.n.tip = s.n.tip
  utxo : s'.n.utxo = s.n.utxo
  lastH : s'.n.lastHeight = s.n.lastHeight
  tipH : s'.n.tipHeight = s.n.tipHeight
  tree : s'.n.tree = s.n.tree
  foreign : s'.foreign = s.foreign
  err : s'.err = s.err
  memS : ∀ x ∈ s'.n.mem, x ∈ s.n.mem ∨ x ∈ bs
  queueS : ∀ x ∈ s'.n.queue, x ∈ s.n.queue ∨ x ∈ bs
  disk : Prov bs s.d → Prov bs s'.d
  effs : (∀ e ∈ s.es, EffB bs e.1) → ∀ e ∈ s'.es, EffB bs e.1

variable {bs : List Block} {s s' s'' : St}

theorem Neutral.refl (bs : List Block) (s : St) : Neutral bs s s :=
  ⟨rfl, rfl, rfl, rfl, rfl, rfl, rfl, fun _ h => Or.inl h, fun _ h => Or.inl h, id, id⟩

theorem Neutral.trans (h1 : Neutral bs s s') (h2 : Neutral bs s' s'') : Neutral bs s s'' :=
  ⟨h2.tip.trans h1.tip, h2.utxo.trans h1.utxo, h2.lastH.trans h1.lastH, h2.tipH.trans h1.tipH, h2.tree.trans h1.tree,
   h2.foreign.trans h1.foreign, h2.err.trans h1.err,
   fun x hx => (h2.memS x hx).elim (h1.memS x) Or.inr, fun x hx => (h2.queueS x hx).elim (h1.queueS x) Or.inr,
   fun h => h2.disk (h1.disk h), fun h => h2.effs (h1.effs h)⟩

theorem Neutral.emit (s : St) (e : Effect) (p : Pt) (ok : EffB bs e) : Neutral bs s (s.emit e p) :=
  ⟨rfl, rfl, rfl, rfl, rfl, rfl, rfl, fun _ h => Or.inl h, fun _ h => Or.inl h, fun h => apply_prov h e ok,
   fun h x hx => by
     rcases List.mem_append.1 hx with hx | hx
     · exact h x hx
     · simp only [List.mem_singleton] at hx; subst hx; exact ok⟩

theorem Neutral.then_emit (h : Neutral bs s s') (e : Effect) (p : Pt) (ok : EffB bs e) : Neutral bs s (s'.emit e p) :=
  h.trans (Neutral.emit s' e p ok)

/-- replacing the node by one that differs only in fields the invariant does not mention -/
theorem Neutral.setNode (s : St) (n' : Node) (h1 : n'.tip = s.n.tip) (h2 : n'.utxo = s.n.utxo)
    (h3 : n'.lastHeight = s.n.lastHeight) (h4 : n'.tipHeight = s.n.tipHeight) (h5 : n'.tree = s.n.tree)
    (h6 : ∀ x ∈ n'.mem, x ∈ s.n.mem ∨ x ∈ bs) (h7 : ∀ x ∈ n'.queue, x ∈ s.n.queue ∨ x ∈ bs) :
    Neutral bs s { s with n := n' } :=
  ⟨h1, h2, h3, h4, h5, rfl, rfl, h6, h7, id, id⟩

theorem Neutral.then_setNode (h : Neutral bs s s') (n' : Node) (h1 : n'.tip = s'.n.tip) (h2 : n'.utxo = s'.n.utxo)
    (h3 : n'.lastHeight = s'.n.lastHeight) (h4 : n'.tipHeight = s'.n.tipHeight) (h5 : n'.tree = s'.n.tree)
    (h6 : ∀ x ∈ n'.mem, x ∈ s'.n.mem ∨ x ∈ bs) (h7 : ∀ x ∈ n'.queue, x ∈ s'.n.queue ∨ x ∈ bs) :
    Neutral bs s { s' with n := n' } :=
  h.trans (Neutral.setNode s' n' h1 h2 h3 h4 h5 h6 h7)

theorem JD.neutral (h : JD bs s) (hn : Neutral bs s s') : JD bs s' := by
  refine ⟨hn.disk h.prov, hn.effs h.effs, ?_, ?_, ?_, ?_⟩
  · intro b hb; exact (hn.memS b hb).elim (h.memB b) id
  · intro b hb; exact (hn.queueS b hb).elim (h.queueB b) id
  · rw [hn.tree]; exact h.treeB
  · rw [hn.tree]; exact h.treeC

theorem Chain.neutral {path : List Block} (h : Chain bs s.n path) (hn : Neutral bs s s') : Chain bs s'.n path :=
  h.congr hn.tip hn.utxo hn.lastH hn.tipH hn.tree

/-- a panic changes only `err` -/
theorem fail_frame (s : St) (m : String) :
    (s.fail m).n = s.n ∧ (s.fail m).d = s.d ∧ (s.fail m).es = s.es ∧ (s.fail m).foreign = s.foreign := by
  unfold St.fail; split <;> exact ⟨rfl, rfl, rfl, rfl⟩

theorem JD.fail (h : JD bs s) (m : String) : JD bs (s.fail m) := by
  obtain ⟨a, b, c, _⟩ := fail_frame s m
  exact ⟨b ▸ h.prov, c ▸ h.effs, a ▸ h.memB, a ▸ h.queueB, a ▸ h.treeB, a ▸ h.treeC⟩

theorem fail_err (s : St) (m : String) : (s.fail m).err ≠ none := by
  unfold St.fail; split
  · rename_i h; intro h'; rw [h'] at h; cases h
  · simp

/-! ### the neutral operations: UnspentDB.save / abort / hurry-up, BlockTrusted, BlockAdd, writeOne -/

theorem fullChunks_neutral (t : BlockId) : ∀ (k : Nat) (s : St), Neutral bs s (fullChunks s t k)
  | 0, s => Neutral.refl bs s
  | k + 1, s => ((Neutral.emit s .nop .saveChunk trivial).then_emit (.chunkTmp t) .fileChunk trivial).trans
      (fullChunks_neutral t k _)

theorem finishSave_neutral (s : St) (sn : Snap) : Neutral bs s (finishSave s sn) := by
  unfold finishSave
  exact ((((Neutral.emit s .nop .saveFinito trivial).then_emit (.chunkTmp sn.tip) .fileChunk trivial).then_emit
    (.flushTmp sn.tip) .fileClosed trivial).then_emit (.renameTmpDb sn.tip) .fileRenamed trivial).then_setNode _ rfl rfl rfl rfl rfl
    (fun _ h => Or.inl h) (fun _ h => Or.inl h)

theorem startSave_neutral (s : St) (hurry : Bool) (hc : Cons bs ⟨s.n.tip, s.n.lastHeight, s.n.utxo⟩) :
    Neutral bs s (startSave s hurry) := by
  unfold startSave
  split
  · exact Neutral.refl bs s
  · have h3 : Neutral bs s (((s.emit .nop .saveBegin).emit .renameDbOld .saveRenamedOld).emit
        (.createTmp ⟨s.n.tip, s.n.lastHeight, s.n.utxo⟩) .fileCreated) :=
      ((Neutral.emit s .nop .saveBegin trivial).then_emit .renameDbOld .saveRenamedOld trivial).then_emit _ .fileCreated hc
    simp only []
    split
    · exact ((h3.then_emit .nop .saveChunk trivial).then_emit (.chunkTmp s.n.tip) .fileChunk trivial).then_setNode _ rfl rfl rfl rfl rfl
        (fun _ h => Or.inl h) (fun _ h => Or.inl h)
    · exact (h3.trans (fullChunks_neutral _ _ _)).trans (finishSave_neutral _ _)

theorem abortSave_neutral (s : St) : Neutral bs s (abortSave s) := by
  unfold abortSave
  split
  · exact Neutral.refl bs s
  · exact (((Neutral.emit s .nop .saveFinito trivial).then_emit .nop .fileAbortClosed trivial).then_emit (.removeTmp _) .fileAbortRemoved trivial).then_setNode
      _ rfl rfl rfl rfl rfl (fun _ h => Or.inl h) (fun _ h => Or.inl h)

theorem hurrySave_neutral (s : St) : Neutral bs s (hurrySave s) := by
  unfold hurrySave
  split
  · exact Neutral.refl bs s
  · exact (fullChunks_neutral _ _ _).trans (finishSave_neutral _ _)

theorem blockTrusted_neutral (s : St) (id : BlockId) : Neutral bs s (blockTrusted s id) := by
  unfold blockTrusted
  split
  · exact Neutral.refl bs s
  · simp only []
    refine ((Neutral.emit s .nop .flagBefore trivial).then_emit _ .flagAfter ?_).then_setNode _ rfl rfl rfl rfl rfl
      (fun _ h => Or.inl h) (fun _ h => Or.inl h)
    split
    · split <;> trivial
    · trivial

theorem blockAdd_neutral (s : St) (b : Block) (t : Bool) (hb : b ∈ bs) : Neutral bs s { s with n := blockAdd s.n b t } := by
  obtain ⟨f1, f2, f3, _, _, f6⟩ := blockAdd_frame s.n b t
  have f7 : (blockAdd s.n b t).tipHeight = s.n.tipHeight := by
    unfold blockAdd; split
    · rfl
    · split <;> rfl
  refine Neutral.setNode s _ f1 f2 f3 f7 f6 ?_ ?_
  · intro x hx
    unfold blockAdd at hx
    split at hx
    · simp only [] at hx
      split at hx
      · exact Or.inl hx
      · rcases List.mem_append.1 hx with hx | hx
        · exact Or.inl hx
        · simp only [List.mem_singleton] at hx; subst hx; exact Or.inr hb
    · split at hx <;> exact Or.inl hx
  · intro x hx
    unfold blockAdd at hx
    split at hx
    · simp only [] at hx
      rcases List.mem_append.1 hx with hx | hx
      · exact Or.inl hx
      · simp only [List.mem_singleton] at hx; subst hx; exact Or.inr hb
    · split at hx <;> exact Or.inl hx

theorem writeOne_neutral (s : St) (b : Block) (hb : b ∈ bs) : Neutral bs s (writeOne s b) := by
  unfold writeOne
  split
  · exact Neutral.refl bs s
  · split
    · exact Neutral.refl bs s
    · rename_i r _ _
      have hr : EffB bs (.appendIdx { id := b.id, parent := b.parent, height := b.height, trusted := r.trusted, invalid := false }) :=
        ⟨b, hb, rfl, rfl, rfl⟩
      exact ((((Neutral.emit s .nop .wrBeforeDat trivial).then_emit (.appendDat b) .wrDatWritten hb).then_emit _ .wrIdxWritten
        hr).then_emit .nop .wrBeforePublish trivial).then_setNode _ rfl rfl rfl rfl rfl
        (fun _ h => Or.inl h) (fun _ h => Or.inl h)

theorem foldl_writeOne_neutral : ∀ (q : List Block) (s : St), (∀ b ∈ q, b ∈ bs) → Neutral bs s (q.foldl writeOne s)
  | [], s, _ => Neutral.refl bs s
  | b :: rest, s, h => (writeOne_neutral s b (h b (by simp))).trans
      (foldl_writeOne_neutral rest _ (fun x hx => h x (by simp [hx])))

theorem writeAll_neutral (s : St) (hq : ∀ b ∈ s.n.queue, b ∈ bs) : Neutral bs s (writeAll s) := by
  unfold writeAll
  exact (Neutral.setNode s { s.n with queue := [] } rfl rfl rfl rfl rfl (fun _ h => Or.inl h) (fun _ h => by cases h)).trans
    (foldl_writeOne_neutral _ _ hq)

end GocoinV.Proofs.C07
