/-
  Proofs.C08_MultGenFull — `ECmultGen(a) = (a mod 2^256)·G`.
  From `ecmultGen_ref` (the result stands for the left-nested reference sum of the selected table points),
  `prec_pointwise` / `fin_neg_sum` (what the table points are) and the abelian-group structure of the reference
  law on curve points (`GocoinV.Proofs.C03.secpGroupLaw`, discharged in Proofs/C03Curve from Mathlib's
  Weierstrass group law): Σ_j (d_j+1)·16^j·G − Σ_j 16^j·G = (Σ_j d_j·16^j)·G.
-/
import GocoinV.Proofs.C08_MultGen
import GocoinV.Proofs.C03Curve

namespace GocoinV.C08
open GocoinV.Gen GocoinV.Proofs.C03

/-- `start + i·d` by repeated reference addition, in the group of curve points -/
theorem addSteps_nsmul (d s : CurvePt) (i : Nat) : addSteps d.1 s.1 i = (s + i • d).1 := by
  induction i with
  | zero => rw [zero_nsmul, add_zero]; rfl
  | succ k ih =>
    show Secp.add (addSteps d.1 s.1 k) d.1 = _
    rw [ih, ← val_add, succ_nsmul, add_assoc]

theorem precBase_nsmul (j : Nat) : precBase j = ((16 ^ j) • Gc).1 := by
  induction j with
  | zero => rw [pow_zero, one_nsmul]; rfl
  | succ k ih =>
    unfold precBase at *
    rw [rbFrom_succ, ih, addSteps_nsmul, ← succ_nsmul', ← mul_nsmul, pow_succ]

/-- the table point T_j(d) = prec[j][d] is (d+1)·16^j·G -/
theorem prec_entry_nsmul (j d : Nat) (hj : j < 64) (hd : d < 16) :
    ptOfLimbs (Tables.precAt (j * 16 + d)) = (((d + 1) * 16 ^ j) • Gc).1 := by
  rw [prec_pointwise' j d hj hd, precBase_nsmul, addSteps_nsmul, ← succ_nsmul', ← mul_nsmul, Nat.mul_comm]

/-- Σ_{i<n} 16^(off+i) -/
def eR : Nat → Nat → Nat
  | _, 0 => 0
  | off, n+1 => 16 ^ off + eR (off + 1) n

theorem headsSum_nsmul : ∀ (n off k : Nat), off + n ≤ 64 →
    headsSum n ((pts Tables.precAll).drop (16 * off)) (k • Gc).1 = ((k + eR off n) • Gc).1 := by
  intro n
  induction n with
  | zero => intro off k _; rfl
  | succ m ih =>
    intro off k h
    unfold headsSum
    have hhead : ((pts Tables.precAll).drop (16 * off)).headD none = ((16 ^ off) • Gc).1 := by
      have h1 := rows_pointwise 64 Secp.G (pts Tables.precAll) prec_rows off 0 (by omega) (by omega)
      rw [show rbFrom Secp.G off = precBase off from rfl, precBase_nsmul] at h1
      have h2 : addSteps ((16 ^ off) • Gc).1 ((16 ^ off) • Gc).1 0 = ((16 ^ off) • Gc).1 := rfl
      rw [h2] at h1
      rw [← h1]
      simp only [List.headD_eq_head?_getD, List.head?_drop, List.getD_eq_getElem?_getD]
      congr 2
      omega
    rw [hhead, ← val_add, ← add_nsmul, List.drop_drop]
    have := ih (off + 1) (k + 16 ^ off) (by omega)
    rw [show 16 * (off + 1) = 16 * off + 16 by ring] at this
    rw [this]
    congr 2
    show k + 16 ^ off + eR (off + 1) m = k + (16 ^ off + eR (off + 1) m)
    omega

/-- Σ_{j≤m} (digit_j(a)+1)·16^j -/
def cS (a : Nat) : Nat → Nat
  | 0 => a % 16 + 1
  | m+1 => cS a m + ((a / 16 ^ (m + 1)) % 16 + 1) * 16 ^ (m + 1)

theorem cS_eq (a : Nat) : ∀ m, cS a m = a % 16 ^ (m + 1) + eR 0 (m + 1) := by
  have eR_succ : ∀ n off, eR off (n + 1) = eR off n + 16 ^ (off + n) := by
    intro n
    induction n with
    | zero => intro off; simp [eR]
    | succ k ih =>
      intro off
      show 16 ^ off + eR (off + 1) (k + 1) = 16 ^ off + eR (off + 1) k + 16 ^ (off + (k + 1))
      rw [ih (off + 1)]
      have : off + 1 + k = off + (k + 1) := by omega
      rw [this]; omega
  intro m
  induction m with
  | zero => simp [cS, eR]
  | succ k ih =>
    show cS a k + ((a / 16 ^ (k + 1)) % 16 + 1) * 16 ^ (k + 1) = _
    rw [ih, Nat.mod_pow_succ (k := k + 1), eR_succ (k + 1) 0, Nat.zero_add]
    ring

theorem fold_nsmul (a : Nat) : ∀ m, m ≤ 63 →
    (List.range m).foldl (fun r k => Secp.add r (ptOfLimbs (Tables.precAt ((k + 1) * 16 + (a / 16 ^ (k + 1)) % 16))))
      (ptOfLimbs (Tables.precAt (0 * 16 + a % 16))) = ((cS a m) • Gc).1 := by
  intro m
  induction m with
  | zero =>
    intro _
    rw [List.range_zero, List.foldl_nil, prec_entry_nsmul 0 (a % 16) (by omega) (Nat.mod_lt _ (by omega)),
      pow_zero, Nat.mul_one]
    rfl
  | succ k ih =>
    intro hk
    rw [List.range_succ, List.foldl_append, ih (by omega), List.foldl_cons, List.foldl_nil,
      prec_entry_nsmul (k + 1) _ (by omega) (Nat.mod_lt _ (by omega)), ← val_add, ← add_nsmul]
    rfl

/-- `ECmultGen(a)` is (a mod 2^256)·G in the reference group law, for EVERY natural number a -/
theorem ecmultGen_mul (a : Nat) : (ecmultGen a).toPoint = Secp.mul (a % 2 ^ 256) Secp.G := by
  rw [(ecmultGen_ref a).2]
  unfold ecmultGenRef
  rw [fold_nsmul a 63 (by omega), fin_neg_sum]
  have hs := headsSum_nsmul 64 0 0 (by omega)
  rw [Nat.mul_zero, List.drop_zero, zero_nsmul, Nat.zero_add] at hs
  rw [show (none : Secp.Point) = (0 : CurvePt).1 from rfl, hs, ← val_neg, ← val_add, cS_eq a 63]
  have hle : eR 0 64 ≤ a % 16 ^ 64 + eR 0 64 := Nat.le_add_left _ _
  rw [← sub_nsmul Gc hle, Nat.add_sub_cancel, mul_G]
  have : (16 : Nat) ^ 64 = 2 ^ 256 := by decide
  rw [this]

end GocoinV.C08
