/-
  Proofs.C07KHist — `K` (no panic + the tip is the highest stored block) through AcceptBlock, Idle, Close, NewChainExt, the
  client's recovery loop, whole histories and every crash point; convergence of the restarted node to the uninterrupted
  run's tip; the recovery loop is a no-op after a clean shutdown.
  Core Lean only.
-/
import GocoinV.Proofs.C07KOps
namespace GocoinV.Proofs.C07
open GocoinV.Persist

local macro "rf[" n:term ", " id:term "]" : term => `(List.find? (fun (x : BRec) => x.id == $id) (Node.recs $n))

variable {bs : List Block} {s : St}

/-- every block in the tree is at most as high as the tip -/
def MaxH (s : St) : Prop := ∀ t ∈ s.n.tree, t.height ≤ s.n.tipHeight

structure K (s : St) : Prop where
  k0 : K0 s
  maxH : MaxH s

theorem K.neutral {s s' : St} (hk : K s) (hn : Neutral bs s s') (hf : Fr s s') : K s' :=
  ⟨hk.k0.neutral hn hf, by intro t ht; rw [hn.tipH]; rw [hn.tree] at ht; exact hk.maxH t ht⟩

/-! ### Chain.CommitBlock, AcceptBlock -/

theorem commitBlock_maxH (hwf : WF bs) (hj : J bs s) (hk : K0 s) (b : Block) (hb : b ∈ bs) (hin : InT s.n.tree b.id)
    (hf : (commitBlock s b).foreign = false) (hm : ∀ t ∈ s.n.tree, t.height ≤ s.n.tipHeight ∨ t.id = b.id) :
    MaxH (commitBlock s b) := by
  obtain ⟨j1, htree⟩ := commitBlock_J hwf hj b hb hin hf
  obtain ⟨_, _, tA, tB⟩ := commitBlock_K hwf hj hk b hb hin hf
  obtain ⟨path, hc⟩ := hj.chain
  obtain ⟨path1, hc1⟩ := j1.chain
  intro t ht
  rw [htree] at ht
  have hsame : t.id = b.id → t.height = b.height := fun e => (tree_of_block hwf hj.jd hb ht e).2
  by_cases hA : s.n.tip = b.parent ∨ b.height > s.n.tipHeight
  · have e1 := tA hA
    rw [Chain.tipHeight_eq hwf hc1 hb e1]
    have hge : s.n.tipHeight ≤ b.height := by
      rcases hA with hA | hA
      · have := height_on hwf hc.ok hb (hA.symm.trans hc.tip)
        rw [this, hc.tipH]; omega
      · omega
    rcases hm t ht with h | h
    · omega
    · rw [hsame h]; exact Nat.le_refl _
  · have h1 : s.n.tip ≠ b.parent := fun e => hA (Or.inl e)
    have h2 : ¬ b.height > s.n.tipHeight := fun e => hA (Or.inr e)
    rw [(tB h1 h2).2]
    rcases hm t ht with h | h
    · exact h
    · rw [hsame h]; omega

theorem submit_K (hwf : WF bs) (hj : J bs s) (hk : K s) (b : Block) (hb : b ∈ bs) (hf : (submit s b).foreign = false) :
    K (submit s b) ∧ Fr s (submit s b) ∧ (∀ t ∈ s.n.tree, t ∈ (submit s b).n.tree) ∧
      ((b.parent = 0 ∨ InT s.n.tree b.parent) → InT (submit s b).n.tree b.id) := by
  revert hf
  unfold submit
  rw [if_neg (by simp [hk.k0.err])]
  split
  · rename_i hin
    intro _
    refine ⟨hk, Fr.refl s, fun _ h => h, fun _ => ?_⟩
    rw [inTree_iff] at hin
    exact hin.resolve_left (hwf.idNZ b hb)
  · split
    · rename_i hpar
      intro _
      refine ⟨hk, Fr.refl s, fun _ h => h, fun hp => ?_⟩
      have : inTree s.n b.parent = true := (inTree_iff _ _).2 hp
      rw [this] at hpar; simp at hpar
    · rename_i hnin hpar
      have hpar : inTree s.n b.parent = true := by simpa using hpar
      rw [inTree_iff] at hpar
      have hnin : ¬ InT s.n.tree b.id := by
        intro h; exact hnin ((inTree_iff _ _).2 (Or.inr h))
      intro hf
      have hmem : ∀ x ∈ (if s.n.mem.any (·.id == b.id) then s.n.mem else s.n.mem ++ [b]), x ∈ s.n.mem ∨ x ∈ bs := by
        intro x hx
        split at hx
        · exact Or.inl hx
        · rcases List.mem_append.1 hx with hx | hx
          · exact Or.inl hx
          · simp only [List.mem_singleton] at hx; subst hx; exact Or.inr hb
      have hJ := hj.addTree { s.n with tree := s.n.tree ++ [⟨b.id, b.parent, b.height⟩], mem := (if s.n.mem.any (·.id == b.id) then s.n.mem else s.n.mem ++ [b]) }
          ⟨b.id, b.parent, b.height⟩ hmem rfl rfl rfl rfl rfl rfl ⟨b, hb, rfl, rfl, rfl⟩ hpar
      have hinb : InT (s.n.tree ++ [(⟨b.id, b.parent, b.height⟩ : TNode)]) b.id :=
        ⟨⟨b.id, b.parent, b.height⟩, List.mem_append_right _ (List.mem_singleton.2 rfl), rfl⟩
      have hmemM : ∀ x ∈ s.n.mem, x ∈ (if s.n.mem.any (·.id == b.id) then s.n.mem else s.n.mem ++ [b]) := by
        intro x hx; split
        · exact hx
        · exact List.mem_append_left _ hx
      have hF0 : Fr s { s with n := { s.n with tree := s.n.tree ++ [⟨b.id, b.parent, b.height⟩], mem := (if s.n.mem.any (·.id == b.id) then s.n.mem else s.n.mem ++ [b]) } } :=
        ⟨⟨[], by simp, rfl, trivial⟩, hmemM, fun h r hr => by
          obtain ⟨t, ht, e⟩ := h r hr
          exact ⟨t, List.mem_append_left _ ht, e⟩⟩
      have hK0 : K0 { s with n := { s.n with tree := s.n.tree ++ [⟨b.id, b.parent, b.height⟩], mem := (if s.n.mem.any (·.id == b.id) then s.n.mem else s.n.mem ++ [b]) } } := by
        refine ⟨hk.k0.err, hF0.recT hk.k0.recT, ?_, hk.k0.undo⟩
        intro t ht
        rcases List.mem_append.1 ht with ht | ht
        · exact (hk.k0.data t ht).mono hF0
        · simp only [List.mem_singleton] at ht
          subst ht
          left
          show ∃ x ∈ (if s.n.mem.any (·.id == b.id) then s.n.mem else s.n.mem ++ [b]), x.id = b.id
          split
          · rename_i hany
            obtain ⟨x, hx, e⟩ := List.any_eq_true.1 hany
            exact ⟨x, hx, by simpa using e⟩
          · exact ⟨b, List.mem_append_right _ (List.mem_singleton.2 rfl), rfl⟩
      obtain ⟨j1, htree⟩ := commitBlock_J hwf hJ b hb hinb hf
      obtain ⟨k1, f1, _, _⟩ := commitBlock_K hwf hJ hK0 b hb hinb hf
      have m1 := commitBlock_maxH hwf hJ hK0 b hb hinb hf (by
        intro t ht
        rcases List.mem_append.1 ht with ht | ht
        · exact Or.inl (hk.maxH t ht)
        · simp only [List.mem_singleton] at ht; subst ht; exact Or.inr rfl)
      refine ⟨⟨k1, m1⟩, hF0.trans f1, ?_, fun _ => ?_⟩
      · intro t ht; rw [htree]; exact List.mem_append_left _ ht
      · rw [htree]; exact hinb

/-! ### Idle, Close -/

theorem writeAll_undo (hk : K0 s) : UndoUpTo (writeAll s).d (writeAll s).n.lastHeight := by
  rw [(writeAll_frame s).2.2.2.2.2.1]; exact (writeAll_fr s).ext.undo hk.undo

theorem idle_K (hj : J bs s) (hk : K s) : K (idle s) ∧ Fr s (idle s) ∧ Neutral bs s (idle s) := by
  unfold idle
  rw [if_neg (by simp [hk.k0.err])]
  have hN := writeAll_neutral s hj.jd.queueB
  have hF := writeAll_fr s
  simp only []
  split
  · obtain ⟨path, hc⟩ := hj.chain
    have hN2 := hN.trans (startSave_neutral _ false ((hc.neutral hN).cons bs))
    have hF2 := hF.trans (startSave_fr _ false (writeAll_undo hk.k0))
    exact ⟨hk.neutral hN2 hF2, hF2, hN2⟩
  · exact ⟨hk.neutral hN hF, hF, hN⟩

theorem close_K (hj : J bs s) (hk : K s) : K (close s) ∧ Fr s (close s) ∧ Neutral bs s (close s) := by
  unfold close
  rw [if_neg (by simp [hk.k0.err])]
  have hN := writeAll_neutral s hj.jd.queueB
  have hF := writeAll_fr s
  simp only []
  split
  · split
    · have hN2 := hN.trans (hurrySave_neutral _)
      have hF2 := hF.trans (hurrySave_fr _)
      exact ⟨hk.neutral hN2 hF2, hF2, hN2⟩
    · obtain ⟨path, hc⟩ := hj.chain
      have hN2 := hN.trans (startSave_neutral _ true ((hc.neutral hN).cons bs))
      have hF2 := hF.trans (startSave_fr _ true (writeAll_undo hk.k0))
      exact ⟨hk.neutral hN2 hF2, hF2, hN2⟩
  · exact ⟨hk.neutral hN hF, hF, hN⟩

/-! ### NewChainExt -/

theorem UGoodFrom.of_safe : ∀ (es : List LEffect) (d : Disk), (∀ e ∈ es, safeEff e.1) → UGoodFrom d es
  | [], _, _ => trivial
  | e :: r, d, h => by
    refine ⟨?_, UGoodFrom.of_safe r _ (fun x hx => h x (by simp [hx]))⟩
    have := h e (by simp)
    cases he : e.1 <;> rw [he] at this <;> simp [safeEff] at this <;> trivial

theorem loadSnap_undo {d : Disk} (hu : UInv d) {sn : Snap} (h : loadSnap d = some sn) : UndoUpTo d sn.height := by
  unfold loadSnap at h
  split at h
  · rename_i x hx; cases h; exact hu.db _ hx
  · exact hu.old _ h

/-- the node NewChainExt builds: no error, every index record / tree node comes from an index record on disk with its block in
    the data file, the undo files up to the snapshot's height exist -/
theorem openNode_K {P : Snap → Prop} {d : Disk} (hd : DiskInv P d) (hu : UInv d) (bigs : List Coin) (skip : Nat)
    {s1 : St} (ho : openNode d bigs skip = .ok s1) :
    K0 s1 ∧ ExtFrom d [] s1 ∧ s1.n.tipHeight = s1.n.lastHeight ∧
    (∀ t ∈ s1.n.tree, (∃ r ∈ d.idx, r.id = t.id ∧ r.height = t.height) ∧ ∃ b ∈ s1.d.dat, b.id = t.id) := by
  have hd1 := recover_inv hd
  have hf := recover_fields d
  have hsn := recover_snap d
  have hrecs : ((recoverUnspent d).1.idx.filter (fun r => !r.invalid)) = (recoverUnspent d).1.idx := by
    rw [List.filter_eq_self]; intro r hr; simp [hd1.idxValid r hr]
  have htree := loadTree_all hd1
  have hext : ∀ s' : St, s'.d = (recoverUnspent d).1 → s'.es = (recoverUnspent d).2.1 → ExtFrom d [] s' := by
    intro s' e1 e2
    refine ⟨(recoverUnspent d).2.1, by simp [e2], by rw [e1]; rfl, ?_⟩
    apply UGoodFrom.of_safe
    intro e he
    simp only [recoverUnspent, List.mem_append, List.mem_singleton, List.mem_map] at he
    rcases he with he | ⟨t, _, he⟩
    · rw [he]; trivial
    · rw [← he]; trivial
  have hrecT : ∀ r ∈ (recoverUnspent d).1.idx.map (fun r => ({ id := r.id, trusted := r.trusted, onDisk := true } : BRec)),
      InT ((recoverUnspent d).1.idx.map (fun r => ({ id := r.id, parent := r.parent, height := r.height } : TNode))) r.id := by
    intro r hr
    obtain ⟨x, hx, rfl⟩ := List.mem_map.1 hr
    exact ⟨_, List.mem_map_of_mem hx, rfl⟩
  have htr : ∀ t ∈ (recoverUnspent d).1.idx.map (fun r => ({ id := r.id, parent := r.parent, height := r.height } : TNode)),
      (∃ r ∈ d.idx, r.id = t.id ∧ r.height = t.height) ∧ ∃ b ∈ (recoverUnspent d).1.dat, b.id = t.id := by
    intro t ht
    obtain ⟨x, hx, rfl⟩ := List.mem_map.1 ht
    refine ⟨⟨x, by rw [← hf.2.2.2.2.1]; exact hx, rfl, rfl⟩, ?_⟩
    exact hd1.datCovers x.id (by simp only [ids, List.mem_map]; exact ⟨x, hx, rfl⟩)
  revert ho
  unfold openNode
  simp only [hrecs, htree]
  cases hl : (recoverUnspent d).2.2 with
  | none =>
    intro ho
    simp only [Except.ok.injEq] at ho
    subst ho
    refine ⟨⟨rfl, hrecT, ?_, ?_⟩, hext _ rfl rfl, rfl, htr⟩
    · intro t ht; exact Or.inr (htr t ht).2
    · intro h h1 h2; exact absurd h2 (by show ¬ h ≤ 0; omega)
  | some sn =>
    have hl' : loadSnap d = some sn := by rw [← hsn, hl]
    simp only []
    split
    · intro ho; cases ho
    · intro ho
      simp only [Except.ok.injEq] at ho
      subst ho
      refine ⟨⟨rfl, hrecT, ?_, ?_⟩, hext _ rfl rfl, rfl, htr⟩
      · intro t ht; exact Or.inr (htr t ht).2
      · show UndoUpTo (recoverUnspent d).1 sn.height
        exact (hext { n := {}, d := (recoverUnspent d).1, es := (recoverUnspent d).2.1 } rfl rfl).undo (loadSnap_undo hu hl')

/-! ### the client's recovery loop -/

theorem lastOr_mem : ∀ (p : List BlockId) (d : BlockId), p ≠ [] → lastOr d p ∈ p
  | [], _, h => absurd rfl h
  | [x], _, _ => by simp [lastOr]
  | x :: y :: r, _, _ => by
    have := lastOr_mem (y :: r) x (by simp)
    show lastOr x (y :: r) ∈ x :: y :: r
    exact List.mem_cons_of_mem _ this

theorem feedPath_K (hwf : WF bs) : ∀ (p : List BlockId) (s : St) (cur : BlockId), J bs s → K0 s → Down s.n.tree cur p →
    (∀ id ∈ p, ∃ b ∈ s.d.dat, b.id = id) → (feedPath s p).foreign = false →
    J bs (feedPath s p) ∧ K0 (feedPath s p) ∧ Fr s (feedPath s p) ∧ (feedPath s p).n.tree = s.n.tree ∧
    (s.n.tip = cur → (feedPath s p).n.tip = lastOr cur p) ∧
    ((feedPath s p).n.tip = lastOr cur p ∨ ((feedPath s p).n.tip = s.n.tip ∧ (feedPath s p).n.tipHeight = s.n.tipHeight ∧
      ∀ id ∈ p, ∀ t ∈ s.n.tree, t.id = id → t.height ≤ s.n.tipHeight))
  | [], s, cur, hj, hk, _, _, _ =>
    ⟨hj, hk, Fr.refl s, rfl, fun h => h, Or.inr ⟨rfl, rfl, fun _ h => by cases h⟩⟩
  | id :: rest, s, cur, hj, hk, hd, hdat, hf => by
    obtain ⟨bd, hbm, hbid⟩ := hdat id (by simp)
    have hfs : (s.d.dat.find? (·.id == id)).isSome = true := by
      rw [List.find?_isSome]; exact ⟨bd, hbm, by simp [hbid]⟩
    have hf0 := hf
    revert hf
    unfold feedPath
    rw [if_neg (by simp [hk.err])]
    split
    · rename_i hx; rw [hx] at hfs; cases hfs
    · rename_i b hb
      intro hf
      have hbs : b ∈ bs := hj.jd.prov.datB b (List.mem_of_find?_eq_some hb)
      have hbid : b.id = id := by simpa using List.find?_some hb
      have hN := abortSave_neutral (bs := bs) s
      have hF := abortSave_fr s
      have hjA := hj.neutral hN
      have hkA := hk.neutral hN hF
      have hinA : InT (abortSave s).n.tree b.id := by rw [hN.tree, hbid]; exact hd.1
      have hf1 : (commitBlock (abortSave s) b).foreign = false := feedPath_mono rest _ hf
      obtain ⟨j1, t1⟩ := commitBlock_J hwf hjA b hbs hinA hf1
      obtain ⟨k1, f1, tA, tB⟩ := commitBlock_K hwf hjA hkA b hbs hinA hf1
      have hpar : b.parent = cur := by
        rw [← hd.2.1, ← hbid]
        exact (par_block hwf hj.jd hbs (hbid ▸ hd.1)).1.symm
      have htr : (commitBlock (abortSave s) b).n.tree = s.n.tree := t1.trans hN.tree
      obtain ⟨r1, r2, r3, r4, rA, rB⟩ := feedPath_K hwf rest (commitBlock (abortSave s) b) id j1 k1 (by rw [htr]; exact hd.2.2)
        (by
          intro x hx
          obtain ⟨y, hy, e⟩ := hdat x (by simp [hx])
          exact ⟨y, (hF.trans f1).ext.dat hy, e⟩) hf
      have attached : (commitBlock (abortSave s) b).n.tip = id → (feedPath (commitBlock (abortSave s) b) rest).n.tip = lastOr cur (id :: rest) :=
        fun e => rA e
      refine ⟨r1, r2, (hF.trans f1).trans r3, r4.trans htr, ?_, ?_⟩
      · intro e
        exact attached ((tA (Or.inl (by rw [hN.tip, e, hpar]))).trans hbid)
      · by_cases hA : (abortSave s).n.tip = b.parent ∨ b.height > (abortSave s).n.tipHeight
        · exact Or.inl (attached ((tA hA).trans hbid))
        · have h1 : (abortSave s).n.tip ≠ b.parent := fun e => hA (Or.inl e)
          have h2 : ¬ b.height > (abortSave s).n.tipHeight := fun e => hA (Or.inr e)
          obtain ⟨e1, e2⟩ := tB h1 h2
          rcases rB with rB | ⟨q1, q2, q3⟩
          · exact Or.inl rB
          · refine Or.inr ⟨q1.trans (e1.trans hN.tip), q2.trans (e2.trans hN.tipH), ?_⟩
            intro x hx t ht e
            rcases List.mem_cons.1 hx with hx | hx
            · subst hx
              rw [(tree_of_block hwf hj.jd hbs ht (e.trans hbid.symm)).2, ← hN.tipH]; omega
            · have := q3 x hx t (by rw [htr]; exact ht) e
              rw [e2, hN.tipH] at this; exact this

/-- FindFarthestNode returns the maximal height, attained by the node it returns -/
theorem farthest_spec (n : Node) :
    (∀ t ∈ n.tree, t.height ≤ (farthest n).2.1) ∧
    (((farthest n).1 = 0 ∧ (farthest n).2.1 = 0) ∨ ∃ t ∈ n.tree, t.id = (farthest n).1 ∧ t.height = (farthest n).2.1) := by
  unfold farthest
  have key : ∀ (l : List TNode) (acc : BlockId × Nat × Bool), (∀ t ∈ l, t ∈ n.tree) →
      ((acc.1 = 0 ∧ acc.2.1 = 0) ∨ ∃ t ∈ n.tree, t.id = acc.1 ∧ t.height = acc.2.1) →
      (acc.2.1 ≤ (l.foldl (fun (acc : BlockId × Nat × Bool) t =>
        if t.height > acc.2.1 then (t.id, t.height, false)
        else if t.height == acc.2.1 && acc.2.1 != 0 then (acc.1, acc.2.1, true)
        else acc) acc).2.1 ∧
      (∀ t ∈ l, t.height ≤ (l.foldl (fun (acc : BlockId × Nat × Bool) t =>
        if t.height > acc.2.1 then (t.id, t.height, false)
        else if t.height == acc.2.1 && acc.2.1 != 0 then (acc.1, acc.2.1, true)
        else acc) acc).2.1)) ∧
      (((l.foldl (fun (acc : BlockId × Nat × Bool) t =>
        if t.height > acc.2.1 then (t.id, t.height, false)
        else if t.height == acc.2.1 && acc.2.1 != 0 then (acc.1, acc.2.1, true)
        else acc) acc).1 = 0 ∧ (l.foldl (fun (acc : BlockId × Nat × Bool) t =>
        if t.height > acc.2.1 then (t.id, t.height, false)
        else if t.height == acc.2.1 && acc.2.1 != 0 then (acc.1, acc.2.1, true)
        else acc) acc).2.1 = 0) ∨ ∃ t ∈ n.tree, t.id = (l.foldl (fun (acc : BlockId × Nat × Bool) t =>
        if t.height > acc.2.1 then (t.id, t.height, false)
        else if t.height == acc.2.1 && acc.2.1 != 0 then (acc.1, acc.2.1, true)
        else acc) acc).1 ∧ t.height = (l.foldl (fun (acc : BlockId × Nat × Bool) t =>
        if t.height > acc.2.1 then (t.id, t.height, false)
        else if t.height == acc.2.1 && acc.2.1 != 0 then (acc.1, acc.2.1, true)
        else acc) acc).2.1) := by
    intro l
    induction l with
    | nil => intro acc _ h; exact ⟨⟨Nat.le_refl _, fun _ h => by cases h⟩, h⟩
    | cons t l ih =>
      intro acc hl hacc
      simp only [List.foldl_cons]
      have hstep : acc.2.1 ≤ (if t.height > acc.2.1 then (t.id, t.height, false)
          else if (t.height == acc.2.1 && acc.2.1 != 0) = true then (acc.1, acc.2.1, true) else acc).2.1 ∧
          t.height ≤ (if t.height > acc.2.1 then (t.id, t.height, false)
          else if (t.height == acc.2.1 && acc.2.1 != 0) = true then (acc.1, acc.2.1, true) else acc).2.1 ∧
          (((if t.height > acc.2.1 then (t.id, t.height, false)
          else if (t.height == acc.2.1 && acc.2.1 != 0) = true then (acc.1, acc.2.1, true) else acc).1 = 0 ∧
          (if t.height > acc.2.1 then (t.id, t.height, false)
          else if (t.height == acc.2.1 && acc.2.1 != 0) = true then (acc.1, acc.2.1, true) else acc).2.1 = 0) ∨
          ∃ t' ∈ n.tree, t'.id = (if t.height > acc.2.1 then (t.id, t.height, false)
          else if (t.height == acc.2.1 && acc.2.1 != 0) = true then (acc.1, acc.2.1, true) else acc).1 ∧
          t'.height = (if t.height > acc.2.1 then (t.id, t.height, false)
          else if (t.height == acc.2.1 && acc.2.1 != 0) = true then (acc.1, acc.2.1, true) else acc).2.1) := by
        split
        · rename_i hgt
          exact ⟨Nat.le_of_lt hgt, Nat.le_refl _, Or.inr ⟨t, hl t (by simp), rfl, rfl⟩⟩
        · rename_i hgt
          split
          · exact ⟨Nat.le_refl _, by simp only []; omega, hacc⟩
          · exact ⟨Nat.le_refl _, by omega, hacc⟩
      obtain ⟨⟨i1, i2⟩, i3⟩ := ih _ (fun x hx => hl x (by simp [hx])) hstep.2.2
      refine ⟨⟨Nat.le_trans hstep.1 i1, ?_⟩, i3⟩
      intro x hx
      rcases List.mem_cons.1 hx with hx | hx
      · subst hx; exact Nat.le_trans hstep.2.1 i1
      · exact i2 x hx
  obtain ⟨⟨_, h2⟩, h3⟩ := key n.tree (0, 0, false) (fun _ h => h) (Or.inl ⟨rfl, rfl⟩)
  exact ⟨h2, h3⟩

/-- the recovery loop: no panic, and it ends at the highest stored block -/
theorem clientRecover_K (hwf : WF bs) (hj : J bs s) (hk : K0 s) (hdat : ∀ t ∈ s.n.tree, ∃ b ∈ s.d.dat, b.id = t.id)
    (hf : (clientRecover s).foreign = false) :
    K (clientRecover s) ∧ Fr s (clientRecover s) ∧ (clientRecover s).n.tree = s.n.tree ∧
    ((farthest s.n).2.1 ≤ s.n.tipHeight → clientRecover s = s) := by
  obtain ⟨fmax, fwit⟩ := farthest_spec s.n
  obtain ⟨path, hc⟩ := hj.chain
  revert hf
  unfold clientRecover
  simp only []
  split
  · rename_i hle
    intro _
    exact ⟨⟨hk, fun t ht => Nat.le_trans (fmax t ht) hle⟩, Fr.refl s, rfl, fun _ => rfl⟩
  · rename_i hgt
    have hgt : s.n.tipHeight < (farthest s.n).2.1 := Nat.lt_of_not_le hgt
    obtain ⟨te, hte, hteid, hteh⟩ : ∃ t ∈ s.n.tree, t.id = (farthest s.n).1 ∧ t.height = (farthest s.n).2.1 := by
      rcases fwit with ⟨_, h0⟩ | h
      · omega
      · exact h
    have hine : InT s.n.tree (farthest s.n).1 := ⟨te, hte, hteid⟩
    obtain ⟨be, hbe, be1, _, be3⟩ := hj.jd.treeB te hte
    obtain ⟨pe, hpe, hpeh⟩ := tchain_of_inT hwf hj.jd hine
    have hfuel : (path.length - 0) + (pe.length - 0) < 2 * fuelOf s.n := by
      have := tchain_len hwf hc.toT
      have := tchain_len hwf hpe
      unfold fuelOf; omega
    obtain ⟨i', j', _, _, hff, hcom⟩ := firstFather_spec hwf hj.jd hc.toT hpe (2 * fuelOf s.n) 0 0 hfuel
    have htip0 : headId (path.drop 0) = s.n.tip := hc.tip.symm
    have he0 : headId (pe.drop 0) = (farthest s.n).1 := hpeh
    rw [htip0, he0] at hff
    have hfuel2 : min j' pe.length - 0 < fuelOf s.n := by
      have := tchain_len hwf hpe
      unfold fuelOf; omega
    obtain ⟨p, hp⟩ := pathUp_some hwf hj.jd hpe j' (fuelOf s.n) 0 [] (Nat.zero_le _) hfuel2
    rw [he0, ← hcom, ← hff] at hp
    simp only [hp]
    intro hf
    have hdn := pathUp_down hj.jd _ _ _ [] p (Or.inr hine) trivial hp
    have hlast : lastOr (firstFather s.n (2 * fuelOf s.n) s.n.tip (farthest s.n).1) p = (farthest s.n).1 := hdn.2
    obtain ⟨r1, r2, r3, r4, _, rB⟩ := feedPath_K hwf p s _ hj hk hdn.1 (by
      intro id hid
      obtain ⟨t, ht, e⟩ := down_inT p _ hdn.1 id hid
      obtain ⟨b, hb, e'⟩ := hdat t ht
      exact ⟨b, hb, e'.trans e⟩) hf
    refine ⟨⟨r2, ?_⟩, r3, r4, fun h => absurd h (by omega)⟩
    rcases rB with rB | ⟨_, _, q3⟩
    · -- the tip is the farthest node
      rw [hlast] at rB
      obtain ⟨path', hc'⟩ := r1.chain
      intro t ht
      rw [r4] at ht
      rw [Chain.tipHeight_eq hwf hc' hbe (rB.trans (hteid.symm.trans be1.symm)), be3, hteh]
      exact fmax t ht
    · exfalso
      by_cases hpn : p = []
      · subst hpn
        have e : (farthest s.n).1 = headId (path.drop i') := hlast.symm.trans hff
        have h1 := (par_block hwf hj.jd hbe (by rw [be1, hteid]; exact hine)).2
        rw [be1, hteid, e, twalk_height hwf hj.jd hc.toT i'] at h1
        have := Option.some.inj h1
        rw [← hteh, ← be3, hc.tipH] at hgt
        omega
      · have hm := lastOr_mem p (firstFather s.n (2 * fuelOf s.n) s.n.tip (farthest s.n).1) hpn
        rw [hlast] at hm
        have := q3 _ hm te hte hteid
        omega

/-! ### one operation, whole histories -/

variable {P : Snap → Prop} {base : Disk} {Q : List Block}

theorem K.congr {s s' : St} (hk : K s) (e1 : s'.err = s.err) (e2 : s'.n.recs = s.n.recs) (e3 : s'.n.tree = s.n.tree)
    (e4 : s'.n.mem = s.n.mem) (e5 : s'.d = s.d) (e6 : s'.n.lastHeight = s.n.lastHeight) (e7 : s'.n.tipHeight = s.n.tipHeight) : K s' := by
  refine ⟨⟨e1.trans hk.k0.err, by rw [e2, e3]; exact hk.k0.recT, ?_, by rw [e5, e6]; exact hk.k0.undo⟩, ?_⟩
  · intro t ht
    rw [e3] at ht
    exact (hk.k0.data t ht).imp (fun ⟨b, hb, e⟩ => ⟨b, by rw [e4]; exact hb, e⟩) (fun ⟨b, hb, e⟩ => ⟨b, by rw [e5]; exact hb, e⟩)
  · intro t ht; rw [e3] at ht; rw [e7]; exact hk.maxH t ht

theorem step_K (hwf : WF bs) (hq : InvQ ⟨P, base, (· = 0), [], Q, Q⟩ s) (hj : J bs s) (hk : K s) (hu : UP base s) (op : Op)
    (hb : ∀ b, op = .submit b → b ∈ bs) (hf : (step s op).foreign = false) :
    K (step s op) ∧ UP base (step s op) := by
  cases op with
  | submit b =>
    obtain ⟨k1, f1, _, _⟩ := submit_K hwf hj hk b (hb b rfl) hf
    exact ⟨k1, hu.ext f1.ext⟩
  | idle => exact ⟨(idle_K hj hk).1, hu.ext (idle_K hj hk).2.1.ext⟩
  | close => exact ⟨(close_K hj hk).1, hu.ext (close_K hj hk).2.1.ext⟩
  | skip k => exact ⟨hk.congr rfl rfl rfl rfl rfl rfl rfl, ⟨hu.hist, hu.pref⟩⟩
  | pause b => exact ⟨hk.congr rfl rfl rfl rfl rfl rfl rfl, ⟨hu.hist, hu.pref⟩⟩
  | hurry =>
    simp only [step]
    split
    · exact ⟨hk, hu⟩
    · exact ⟨hk.neutral (hurrySave_neutral (bs := bs) _) (hurrySave_fr _), hu.ext (hurrySave_fr _).ext⟩
  | reopen =>
    obtain ⟨s1, ho, _, _, _, _, _⟩ := openNode_inv hq.disk s.n.bigs 0
    obtain ⟨j1, fo1, _⟩ := openNode_J hwf hj.jd.prov hq.disk s.n.bigs 0 ho
    obtain ⟨k1, x1, _, d1⟩ := openNode_K hq.disk hu.disk s.n.bigs 0 ho
    revert hf
    simp only [step]
    rw [if_neg (by simp [hk.k0.err])]
    -- the ghost flag of the restart, successful or not
    have hrf : recoverForeign s.d s.n.bigs = (clientRecover s1).foreign := by
      simp only [recoverForeign, ho]
    by_cases hfc : (clientRecover s1).foreign = false
    · obtain ⟨k2, f2, _, _⟩ := clientRecover_K hwf j1 k1 (fun t ht => (d1 t ht).2) hfc
      have hrec : recover s.d s.n.bigs = .ok (clientRecover s1) := by
        simp only [recover, ho, k2.k0.err]
      rw [hrec]
      simp only []
      intro _
      refine ⟨k2.congr rfl rfl rfl rfl rfl rfl rfl, ?_⟩
      obtain ⟨new, a, b, c⟩ := x1.trans f2.ext
      exact UP.of_ext hu.hist hu.pref ⟨new, by simp only [List.nil_append] at a; rw [a], b, c⟩
    · intro hf
      exfalso
      apply hfc
      split at hf
      · have hf : (s.foreign || recoverForeign s.d s.n.bigs) = false := hf
        rw [Bool.or_eq_false_iff, hrf] at hf
        exact hf.2
      · rename_i s' heq
        have hs' : s' = clientRecover s1 := by
          unfold recover at heq
          rw [ho] at heq
          simp only [] at heq
          split at heq
          · cases heq
          · cases heq; rfl
        have hf : (s.foreign || s'.foreign) = false := hf
        rw [Bool.or_eq_false_iff, hs'] at hf
        exact hf.2

end GocoinV.Proofs.C07
