/-
  Proofs.C11Fan — the counting invariant of the commitTxs fan-out (Model/Conc.lean, namespace Fan):
  with the clone, under EVERY schedule, ver_err_cnt + (failing workers still pending) equals the number of
  failing inputs among the transactions the main loop has passed, so the verdict returned is
  `Fan.reference` — a function of the block only.
-/
import GocoinV.Model.Conc
namespace GocoinV.Proofs.C11.FanC
open GocoinV.Conc GocoinV.Conc.Fan

def mem0 (txs : List Tx) : Mem := txs.map (fun t => List.replicate t.nout true)

/-- the worker for input `p = (tx, input)` reports a failure when run on the memory `m` -/
def isBad (f : Verify) (m : Mem) (p : Nat × Nat) : Bool := !f p.1 p.2 (m[p.1]?.getD [])

def pendBad (f : Verify) (m : Mem) (ps : List (Nat × Nat)) : Nat := (ps.filter (isBad f m)).length

def txBad (f : Verify) (m : Mem) (txs : List Tx) (t : Nat) : Nat :=
  ((List.range ((txs[t]?.map (·.nin)).getD 0)).filter (fun j => !f t j (m[t]?.getD []))).length

theorem failsOf_eq (f : Verify) (m : Mem) (txs : List Tx) (n : Nat) :
    failsOf f m txs n = ((List.range n).map (txBad f m txs)).sum := rfl

theorem failsOf_succ (f : Verify) (m : Mem) (txs : List Tx) (n : Nat) :
    failsOf f m txs (n + 1) = failsOf f m txs n + txBad f m txs n := by
  simp [failsOf_eq, List.range_succ, List.sum_append]

theorem pendBad_append (f : Verify) (m : Mem) (a b : List (Nat × Nat)) :
    pendBad f m (a ++ b) = pendBad f m a + pendBad f m b := by
  simp [pendBad, List.filter_append]

theorem pendBad_spawn (f : Verify) (m : Mem) (t n : Nat) :
    pendBad f m ((List.range n).map (fun i => (t, i))) =
      ((List.range n).filter (fun j => !f t j (m[t]?.getD []))).length := by
  simp only [pendBad, List.filter_map, List.length_map]
  rfl

theorem pendBad_eraseIdx (f : Verify) (m : Mem) (ps : List (Nat × Nat)) (i : Nat) (p : Nat × Nat)
    (h : ps[i]? = some p) :
    pendBad f m (ps.eraseIdx i) + (if isBad f m p then 1 else 0) = pendBad f m ps := by
  induction ps generalizing i with
  | nil => simp at h
  | cons q r ih =>
    cases i with
    | zero =>
      simp only [List.getElem?_cons_zero, Option.some.injEq] at h
      subst h
      simp only [List.eraseIdx_cons_zero, pendBad, List.filter_cons]
      split <;> simp
    | succ j =>
      simp only [List.getElem?_cons_succ] at h
      have := ih j h
      simp only [List.eraseIdx_cons_succ, pendBad, List.filter_cons] at this ⊢
      split <;> (try simp only [List.length_cons]) <;> omega

theorem firstEarly_some (txs : List Tx) (e : Nat) (tx : Tx) (h : txs[e]? = some tx) (he : tx.early = true)
    (hn : ∀ t, t < e → ∀ tx, txs[t]? = some tx → tx.early = false) : firstEarly txs = some e := by
  unfold firstEarly
  rw [List.findIdx?_eq_some_iff_getElem]
  have hlt : e < txs.length := by
    rcases Nat.lt_or_ge e txs.length with h1 | h1
    · exact h1
    · rw [List.getElem?_eq_none h1] at h; cases h
  refine ⟨hlt, ?_, ?_⟩
  · rw [List.getElem?_eq_getElem hlt] at h
    simp only [Option.some.injEq] at h
    rw [h]; exact he
  · intro j hj
    have := hn j hj txs[j] (by rw [List.getElem?_eq_getElem (by omega)])
    simp [this]

theorem firstEarly_none (txs : List Tx)
    (hn : ∀ t, t < txs.length → ∀ tx, txs[t]? = some tx → tx.early = false) : firstEarly txs = none := by
  unfold firstEarly
  rw [List.findIdx?_eq_none_iff]
  intro x hx
  obtain ⟨i, hi, rfl⟩ := List.getElem_of_mem hx
  exact hn i hi _ (by rw [List.getElem?_eq_getElem hi])

/-- the inductive invariant (cloned case) -/
structure Inv (f : Verify) (txs : List Tx) (st : St) : Prop where
  txs_eq : st.txs = txs
  cloned : st.cloned = true
  mem_eq : st.mem = mem0 txs
  next_le : st.next ≤ txs.length
  noEarly : ∀ t, t < st.next → ∀ tx, txs[t]? = some tx → tx.early = false
  count : st.errCnt + pendBad f (mem0 txs) st.pending = failsOf f (mem0 txs) txs st.next
  mainErr : ∀ e, st.mainErr = some e → e = st.next ∧ ∃ tx, txs[e]? = some tx ∧ tx.early = true
  verdict : ∀ v, st.verdict = some v → v = reference f txs

theorem inv_init (f : Verify) (txs : List Tx) : Inv f txs (init txs true) where
  txs_eq := rfl
  cloned := rfl
  mem_eq := rfl
  next_le := Nat.zero_le _
  noEarly := by intro t ht; simp [init] at ht
  count := by simp [init, pendBad, failsOf]
  mainErr := by intro e h; simp [init] at h
  verdict := by intro v h; simp [init] at h

theorem reference_early (f : Verify) (txs : List Tx) (e : Nat) (h : firstEarly txs = some e) :
    reference f txs = (some e, failsOf f (mem0 txs) txs e) := by
  simp [reference, h, mem0]

theorem reference_none (f : Verify) (txs : List Tx) (h : firstEarly txs = none) :
    reference f txs = (none, failsOf f (mem0 txs) txs txs.length) := by
  simp [reference, h, mem0]

theorem inv_main (f : Verify) (txs : List Tx) (st st' : St) (h : Inv f txs st)
    (hs : step f st .main = some st') : Inv f txs st' := by
  obtain ⟨h1, h2, h3, h4, h5, h6, h7, h8⟩ := h
  simp only [step] at hs
  split at hs
  · cases hs
  · rename_i hv
    split at hs
    · -- deferred wg.Wait on the early-return path
      rename_i e he
      split at hs
      · rename_i hp
        simp only [Option.some.injEq] at hs
        subst hs
        obtain ⟨hen, tx, htx, hearly⟩ := h7 e he
        refine ⟨h1, h2, h3, h4, h5, h6, h7, ?_⟩
        intro v hvv
        simp only [Option.some.injEq] at hvv
        subst hvv
        have hp' : st.pending = [] := by simpa using hp
        rw [hp'] at h6
        have hfe := firstEarly_some txs e tx htx hearly (by rw [hen]; exact h5)
        rw [reference_early f txs e hfe, hen, ← h6]
        simp [pendBad]
      · cases hs
    · rename_i hme
      split at hs
      · -- next transaction
        rename_i tx htx
        rw [h1] at htx
        have hlt : st.next < txs.length := by
          rcases Nat.lt_or_ge st.next txs.length with h | h
          · exact h
          · rw [List.getElem?_eq_none h] at htx; cases htx
        simp only [h2] at hs
        split at hs
        · rename_i hearly
          simp only [Option.some.injEq] at hs
          subst hs
          refine ⟨h1, rfl, h3, h4, h5, h6, ?_, h8⟩
          intro e he
          simp only [Option.some.injEq] at he
          subst he
          exact ⟨rfl, tx, htx, hearly⟩
        · rename_i hearly
          simp only [Option.some.injEq] at hs
          subst hs
          refine ⟨h1, rfl, h3, hlt, ?_, ?_, ?_, h8⟩
          · intro t ht tx' htx'
            simp only at ht
            rcases Nat.lt_or_ge t st.next with hl | hl
            · exact h5 t hl tx' htx'
            · have : t = st.next := by omega
              subst this
              rw [htx] at htx'
              simp only [Option.some.injEq] at htx'
              subst htx'
              simpa using hearly
          · simp only
            rw [pendBad_append, pendBad_spawn, failsOf_succ, ← h6]
            simp only [txBad, htx, Option.map_some, Option.getD_some]
            omega
          · intro e he
            simp only at he
            rw [hme] at he; cases he
      · -- after the loop
        rename_i htx
        rw [h1] at htx
        split at hs
        · rename_i hp
          simp only [Option.some.injEq] at hs
          subst hs
          refine ⟨h1, h2, h3, h4, h5, h6, h7, ?_⟩
          intro v hvv
          simp only [Option.some.injEq] at hvv
          subst hvv
          have hp' : st.pending = [] := by simpa using hp
          rw [hp'] at h6
          have hge : txs.length ≤ st.next := by
            rcases Nat.lt_or_ge st.next txs.length with h | h
            · rw [List.getElem?_eq_getElem h] at htx; cases htx
            · exact h
          have hnx : st.next = txs.length := by omega
          have hfe := firstEarly_none txs (by rw [← hnx]; exact h5)
          rw [reference_none f txs hfe, ← hnx, ← h6]
          simp [pendBad]
        · cases hs

theorem inv_worker (f : Verify) (txs : List Tx) (st st' : St) (i : Nat) (h : Inv f txs st)
    (hs : step f st (.worker i) = some st') : Inv f txs st' := by
  obtain ⟨h1, h2, h3, h4, h5, h6, h7, h8⟩ := h
  simp only [step] at hs
  split at hs
  · cases hs
  · rename_i t j hp
    simp only [Option.some.injEq] at hs
    subst hs
    refine ⟨h1, h2, h3, h4, h5, ?_, h7, h8⟩
    simp only
    have := pendBad_eraseIdx f (mem0 txs) st.pending i (t, j) hp
    rw [← h6, ← this]
    simp only [isBad, h3]
    by_cases hf : f t j ((mem0 txs)[t]?.getD []) = true <;> simp [hf] <;> omega

theorem inv_step (f : Verify) (txs : List Tx) (st st' : St) (l : Lab) (h : Inv f txs st)
    (hs : step f st l = some st') : Inv f txs st' := by
  cases l with
  | main => exact inv_main f txs st st' h hs
  | worker i => exact inv_worker f txs st st' i h hs

theorem inv_run (f : Verify) (txs : List Tx) (st : St) (ls : List Lab) (h : Inv f txs st) :
    Inv f txs (run f st ls) := by
  induction ls generalizing st with
  | nil => exact h
  | cons l r ih =>
    simp only [run]
    cases hs : step f st l with
    | none => simpa using ih st h
    | some st' => simpa using ih st' (inv_step f txs st st' l h hs)

end GocoinV.Proofs.C11.FanC
