/-
  Proofs.C19Reopen — opening the directory that defrag left behind gives back the same index
  (snapshot parse ∘ write, data file layout, cleanupold, load).
-/
import GocoinV.Proofs.C19Disk
namespace GocoinV.Proofs.C19
open GocoinV GocoinV.Qdb GocoinV.QdbSpec

variable {eg : Bool}

/-- well-formed in-memory record: key and flags fit their on-disk width, `datlen` is the length of the data -/
def RecWF (kr : Key × Rec) : Prop :=
  kr.1 < 2^64 ∧ kr.2.flags < 2^32 ∧ kr.2.len = (kr.2.data.getD []).length

/-- well-formed cached index: records cached and well-formed, keys distinct, everything fits one data file -/
structure IndexWF (eg : Bool) (l : List (Key × Rec)) : Prop where
  cached : AllCached eg l
  wf : ∀ kr ∈ l, RecWF kr
  nodup : (l.map (·.1)).Nodup
  small : 4 + (valsOf l).flatten.length < 2^32

/-! ### memputAll on distinct keys appends -/

theorem iset_append_new {α : Type} (k : Key) (r : α) (l : List (Key × α)) (h : k ∉ l.map (·.1)) :
    iset k r l = l ++ [(k, r)] := by
  induction l with
  | nil => rfl
  | cons hd t ih =>
    obtain ⟨j, q⟩ := hd
    have hj : j ≠ k := fun e => h (by simp [e])
    have ht : k ∉ t.map (·.1) := fun e => h (by simp [e])
    simp [iset, hj, ih ht]

theorem memputAll_index (recs : List (Key × Rec)) (db : DB)
    (hnd : (db.index.map (·.1) ++ recs.map (·.1)).Nodup) :
    (memputAll db recs).index = db.index ++ recs := by
  unfold memputAll
  induction recs generalizing db with
  | nil => simp
  | cons kr t ih =>
    simp only [List.foldl_cons]
    have hk : kr.1 ∉ db.index.map (·.1) := by
      intro hmem
      have := List.nodup_append.mp hnd
      exact this.2.2 _ hmem _ (by simp) rfl
    have hi : (memput db kr.1 kr.2).index = db.index ++ [(kr.1, kr.2)] := by
      rw [(memput_spec db kr.1 kr.2).1]
      exact iset_append_new _ _ _ hk
    rw [ih (memput db kr.1 kr.2) (by
      rw [hi]
      simpa [List.append_assoc] using hnd)]
    rw [hi]
    simp [List.append_assoc]

/-! ### loading the laid-out records back from the data file -/

theorem layout_keys (s base : Nat) (l : List (Key × Rec)) : (layout s base l).map (·.1) = l.map (·.1) := by
  induction l generalizing base with
  | nil => rfl
  | cons kr t ih => obtain ⟨k, r⟩ := kr; simp [layout, ih]

theorem layout_seq (s base : Nat) (l : List (Key × Rec)) : ∀ kr ∈ layout s base l, kr.2.seq = s := by
  induction l generalizing base with
  | nil => intro kr h; cases h
  | cons hd t ih =>
    obtain ⟨k, r⟩ := hd
    intro kr h
    simp only [layout, List.mem_cons] at h
    rcases h with h | h
    · rw [h]
    · exact ih _ kr h

theorem layout_length (s base : Nat) (l : List (Key × Rec)) : (layout s base l).length = l.length := by
  induction l generalizing base with
  | nil => rfl
  | cons kr t ih => obtain ⟨k, r⟩ := kr; simp [layout, ih]

def stripKR (kr : Key × Rec) : Key × Rec := (kr.1, strip kr.2)

/-- `load` on the stripped laid-out records reads every value back -/
theorem loadFold_layout (s : Nat) (l : List (Key × Rec)) (hc : AllCached eg l) (hw : ∀ kr ∈ l, RecWF kr)
    (d : DB) (hf : d.failed = none) (he : d.eager = eg) (pre post : Bytes)
    (hfile : dlookup s d.fs.dats = some (pre ++ ((valsOf l).flatten ++ post)))
    (hsmall : pre.length + (valsOf l).flatten.length < 2^32) (acc : List (Key × Rec)) :
    ((layout s pre.length l).map stripKR).foldl loadOne (d, acc) = (d, acc ++ layout s pre.length l) := by
  induction l generalizing pre acc with
  | nil => simp [layout]
  | cons kr t ih =>
    obtain ⟨k, ⟨rd, rs, rp, rl, rf⟩⟩ := kr
    have hck := hc _ List.mem_cons_self
    have hwk := hw _ List.mem_cons_self
    obtain ⟨hsome, hnc⟩ := hck
    obtain ⟨_, _, hlen⟩ := hwk
    cases rd with
    | none => simp at hsome
    | some v =>
      simp only [Option.getD_some] at hlen hnc
      subst hlen
      have hv : (valsOf ((k, ⟨some v, rs, rp, v.length, rf⟩) :: t)).flatten = v ++ (valsOf t).flatten := by
        simp [valsOf]
      rw [hv] at hfile hsmall
      simp only [List.length_append, List.append_assoc] at hsmall hfile
      have hbase : u32 pre.length = pre.length := Nat.mod_eq_of_lt (by omega)
      have hsum : u32 (pre.length + v.length) = pre.length + v.length := Nat.mod_eq_of_lt (by omega)
      have hslice : ((pre ++ (v ++ ((valsOf t).flatten ++ post))).drop pre.length).take v.length = v := by
        rw [List.drop_left' rfl]
        exact List.take_left' rfl
      have hb : ¬ (pre.length + v.length < pre.length ∨
          pre.length + v.length > (pre ++ (v ++ ((valsOf t).flatten ++ post))).length) := by
        simp only [List.length_append]
        omega
      -- one step of the fold
      have hstep : loadOne (d, acc) (stripKR (k, ⟨some v, s, u32 pre.length, v.length, rf⟩)) =
          (d, acc ++ [(k, ⟨some v, s, u32 pre.length, v.length, rf⟩)]) := by
        unfold loadOne stripKR strip
        simp only [hf, he, hnc, Bool.false_eq_true, ↓reduceIte, hfile, hbase, hsum, hb, hslice]
      have hlay : layout s pre.length ((k, ⟨some v, rs, rp, v.length, rf⟩) :: t) =
          (k, ⟨some v, s, u32 pre.length, v.length, rf⟩) :: layout s (pre ++ v).length t := by
        simp [layout]
      rw [hlay]
      simp only [List.map_cons, List.foldl_cons, hstep]
      rw [ih (fun x hx => hc x (List.mem_cons_of_mem _ hx)) (fun x hx => hw x (List.mem_cons_of_mem _ hx))
        (pre ++ v) (by rw [hfile]; simp [List.append_assoc]) (by simp only [List.length_append]; omega)]
      simp [List.append_assoc]

/-! ### opening the directory left by defrag -/

theorem layout_fits (s : Nat) (hs : s < 2^32) (l : List (Key × Rec)) (hw : ∀ kr ∈ l, RecWF kr) (base : Nat)
    (hsmall : base + (valsOf l).flatten.length < 2^32) : ∀ kr ∈ layout s base l, RecFits kr.1 kr.2 := by
  induction l generalizing base with
  | nil => intro kr h; cases h
  | cons hd t ih =>
    obtain ⟨k, r⟩ := hd
    have hv : (valsOf ((k, r) :: t)).flatten = r.data.getD [] ++ (valsOf t).flatten := by simp [valsOf]
    rw [hv, List.length_append] at hsmall
    obtain ⟨hk, hf, hl⟩ := hw (k, r) List.mem_cons_self
    intro kr h
    simp only [layout, List.mem_cons] at h
    rcases h with h | h
    · rw [h]
      refine ⟨hk, Nat.mod_lt _ (by decide), ?_, hs, hf⟩
      show r.len < 2^32
      have hl' : r.len = (r.data.getD []).length := hl
      rw [hl']; omega
    · exact ih (fun x hx => hw x (List.mem_cons_of_mem _ hx)) _ (by omega) kr h

theorem memput_fs (db : DB) (k : Key) (r : Rec) :
    (memput db k r).fs = db.fs ∧ (memput db k r).dataSeq = db.dataSeq := by
  unfold memput
  cases ilookup k db.index <;> dsimp only <;> (repeat' split) <;> exact ⟨rfl, rfl⟩

theorem memputAll_fs (recs : List (Key × Rec)) (db : DB) :
    (memputAll db recs).fs = db.fs ∧ (memputAll db recs).dataSeq = db.dataSeq ∧
    (memputAll db recs).failed = db.failed := by
  unfold memputAll
  induction recs generalizing db with
  | nil => exact ⟨rfl, rfl, rfl⟩
  | cons kr t ih =>
    simp only [List.foldl_cons]
    obtain ⟨a, b, c⟩ := ih (memput db kr.1 kr.2)
    exact ⟨a.trans (memput_fs db kr.1 kr.2).1, b.trans (memput_fs db kr.1 kr.2).2,
      c.trans (memput_spec db kr.1 kr.2).2.1⟩

theorem pickIdx_single (F : FS) (i v : Nat) (X : Bytes) (hc : checkIdxFile (some X) = some (v, X))
    (h1 : idxFile F i = some X) (h2 : otherIdx F i = none) :
    ∃ j, pickIdx F = some (j, v, X) := by
  unfold idxFile at h1
  unfold otherIdx at h2
  unfold pickIdx
  by_cases hi : i = 0
  · simp only [hi, ↓reduceIte] at h1 h2
    rw [h1, h2, hc]
    exact ⟨0, rfl⟩
  · simp only [hi, ↓reduceIte] at h1 h2
    rw [h1, h2, hc]
    exact ⟨1, rfl⟩

theorem memputAll_eager (recs : List (Key × Rec)) (db : DB) : (memputAll db recs).eager = db.eager := by
  unfold memputAll
  induction recs generalizing db with
  | nil => rfl
  | cons kr t ih => simp only [List.foldl_cons]; exact (ih _).trans (memput_eager db kr.1 kr.2)

/-- Opening (with LoadData) a directory that holds one complete snapshot of a laid-out index, no log, and
    the data file with the values in layout order yields exactly that index, with every value in memory. -/
theorem open_snapshot (F : FS) (i v s : Nat) (l : List (Key × Rec)) (hwf : IndexWF eg l)
    (hv : v < 2^32) (hs : s < 2^32)
    (h1 : idxFile F i = some (snapBytes v (layout s 4 l))) (h2 : otherIdx F i = none) (h3 : F.log = none)
    (h4 : dlookup s F.dats = some (le32 s ++ (valsOf l).flatten)) (vol : Bool) (opts : Opts) :
    (openDB F vol true opts eg).index = layout s 4 l ∧ (openDB F vol true opts eg).failed = none := by
  have hfits := layout_fits s hs l hwf.wf 4 hwf.small
  have hchk := checkIdxFile_snapBytes v (layout s 4 l) hv
  have hrecs := snapshotRecs_snapBytes v (layout s 4 l) hfits
  obtain ⟨j, hpick⟩ := pickIdx_single F i v _ hchk h1 h2
  -- loaddat
  let db0 : DB := { fs := F, volatile := vol, opts := opts, eager := eg }
  let dbE : DB := { emit db0 "qdb.loadneweridx:removed" (.removeIdx (1 - j)) with datIdx := j, verSeq := v }
  have hld : loaddat db0 = (memputAll dbE ((layout s 4 l).map stripKR), ((layout s 4 l).map stripKR).map (·.2.seq)) := by
    unfold loaddat
    rw [show db0.fs = F from rfl, hpick]
    simp only [hrecs]
    rfl
  obtain ⟨hAfs, hAds, hAf⟩ := memputAll_fs ((layout s 4 l).map stripKR) dbE
  have hAidx : (memputAll dbE ((layout s 4 l).map stripKR)).index = (layout s 4 l).map stripKR := by
    have := memputAll_index ((layout s 4 l).map stripKR) dbE (by
      show (([] : List (Key × Rec)).map (·.1) ++ _).Nodup
      simp only [List.map_nil, List.nil_append, List.map_map]
      have : ((fun x : Key × Rec => x.1) ∘ stripKR) = (fun x : Key × Rec => x.1) := by funext x; rfl
      rw [this, layout_keys]
      exact hwf.nodup)
    rw [this]; rfl
  have hElog : dbE.fs.log = none := by
    show (F.apply (.removeIdx (1 - j))).log = none
    unfold FS.apply
    by_cases h : 1 - j = 0 <;> simp [h, h3]
  have hEdats : dbE.fs.dats = F.dats := by
    show (F.apply (.removeIdx (1 - j))).dats = F.dats
    unfold FS.apply
    by_cases h : 1 - j = 0 <;> simp [h]
  -- loadlog: there is no log
  have hll : loadlog (memputAll dbE ((layout s 4 l).map stripKR)) (((layout s 4 l).map stripKR).map (·.2.seq)) =
      (memputAll dbE ((layout s 4 l).map stripKR), ((layout s 4 l).map stripKR).map (·.2.seq)) := by
    unfold loadlog
    rw [hAfs, hElog]
  have hoi : openIndex db0 = cleanupold (memputAll dbE ((layout s 4 l).map stripKR))
      (((layout s 4 l).map stripKR).map (·.2.seq)) := by
    unfold openIndex
    simp only [hld, hll]
  -- cleanupold keeps the data file when it is used
  let dbA := memputAll dbE ((layout s 4 l).map stripKR)
  let used := ((layout s 4 l).map stripKR).map (·.2.seq)
  have hopen : openDB F vol true opts eg = { loadAll (cleanupold dbA used) with
      dataSeq := u32 ((loadAll (cleanupold dbA used)).maxSeq + 1) } := by
    unfold openDB
    simp only [↓reduceIte]
    rw [show openIndex { fs := F, volatile := vol, opts := opts, eager := eg } = cleanupold dbA used from hoi]
  rw [hopen]
  show (loadAll (cleanupold dbA used)).index = _ ∧ (loadAll (cleanupold dbA used)).failed = none
  cases hl : l with
  | nil =>
    -- empty index: nothing to load
    have hB := frame_cleanupold dbA used
    have hidx : (cleanupold dbA used).index = [] := by
      rw [hB.index]; show dbA.index = []; rw [hAidx, hl]; rfl
    have hfl : (cleanupold dbA used).failed = none := by rw [hB.failed]; exact hAf
    unfold loadAll
    simp [hidx, hfl, layout]
  | cons kr0 t0 =>
    have hmem : used.contains s = true := by
      have hne : layout s 4 l ≠ [] := by
        intro e
        have := congrArg List.length e
        rw [layout_length, hl] at this
        simp at this
      obtain ⟨x, xs, hx⟩ := List.exists_cons_of_ne_nil hne
      have hxs : x.2.seq = s := layout_seq s 4 l x (by rw [hx]; exact List.mem_cons_self)
      show (((layout s 4 l).map stripKR).map (·.2.seq)).contains s = true
      rw [hx]
      simp [stripKR, strip, hxs]
    have hck := cleanupold_keeps dbA used s (Or.inr hmem)
    unfold cleanKeeps at hck
    simp only [Prod.mk.injEq] at hck
    obtain ⟨_, _, _, c3, _, c5, c6, _⟩ := hck
    have hfileB : dlookup s (cleanupold dbA used).fs.dats = some (le32 s ++ ((valsOf l).flatten ++ [])) := by
      rw [c3]
      show dlookup s dbA.fs.dats = _
      rw [hAfs, hEdats, h4]
      simp
    have hfB : (cleanupold dbA used).failed = none := c6.trans hAf
    have hiB : (cleanupold dbA used).index = (layout s 4 l).map stripKR := c5.trans hAidx
    have heB : (cleanupold dbA used).eager = eg :=
      (frame_cleanupold dbA used).eager.trans (memputAll_eager _ dbE)
    have hfold := loadFold_layout s l hwf.cached hwf.wf (cleanupold dbA used) hfB heB (le32 s) [] hfileB
      (by simpa using hwf.small) []
    simp only [le32_length, List.nil_append] at hfold
    unfold loadAll
    rw [hiB, hfold]
    simp only [hfB]
    rw [← hl]
    exact ⟨rfl, trivial⟩

theorem layout_abs (s base : Nat) (l : List (Key × Rec)) : (layout s base l).map absE = l.map absE := by
  induction l generalizing base with
  | nil => rfl
  | cons kr t ih => obtain ⟨k, r⟩ := kr; simp [layout, ih, absE, absRec]

theorem u32_lt (n : Nat) : u32 n < 2^32 := Nat.mod_lt _ (by decide)

/-- defrag, then open the directory it left: same index, every value in memory -/
theorem open_after_defrag (db : DB) (h : Cached db) (hwf : IndexWF eg db.index) (vol : Bool) (opts : Opts) :
    (openDB (defrag db).fs vol true opts eg).index = (defrag db).index ∧
    (openDB (defrag db).fs vol true opts eg).failed = none ∧
    absv (openDB (defrag db).fs vol true opts eg) = absv db := by
  obtain ⟨_, d2, d3, d4, d5, d6, _⟩ := defrag_disk db h
  obtain ⟨o1, o2⟩ := open_snapshot (defrag db).fs (1 - db.datIdx) (u32 (db.verSeq + 1)) (u32 (db.dataSeq + 1))
    db.index hwf (u32_lt _) (u32_lt _) d3 d4 d5 d6 vol opts
  refine ⟨o1.trans d2.symm, o2, ?_⟩
  unfold absv
  rw [o1, layout_abs]

theorem close_after_defrag_nonvolatile (db : DB) (h : Cached db) (hv : db.volatile = false) :
    (close (defrag db)).failed = none ∧ (close (defrag db)).fs = (defrag db).fs := by
  have hk := defrag_cached db h
  have hp : (defrag db).pending = [] := by
    have hfr0 := defragStart_frame db
    obtain ⟨d', w', l', hfold, hfr, _, _⟩ :=
      defrag_fold_cached (defragSink (defragStart db).dataSeq) (defragSink_framed _) db.index h.2
        (defragStart db) {} [] (hfr0.failed.trans h.1) hfr0.eager
    have hf' : d'.failed = none := (hfr.trans hfr0).failed.trans h.1
    have hd : defrag db = defragFinish (defragStart db).dataSeq d' w' l' := by
      unfold defrag
      simp only [hfr0.index, hfold, List.nil_append, hf']
    rw [hd]
    exact (defragFinish_spec _ _ _ _).2.2.2.2.2.1
  have hvol : (defrag db).volatile = false := hk.volatile.trans hv
  have hsync : sync (defrag db) = defrag db := by
    unfold sync
    simp [hvol, hp]
  unfold close
  rw [if_neg (notFailed hk.cached)]
  simp only [hvol, Bool.false_eq_true, ↓reduceIte, hsync, hk.cached.1]
  exact ⟨trivial, trivial⟩

end GocoinV.Proofs.C19
