/-
  Proofs.C11Live — control invariants of the snapshot protocol (who owns db.Mutex, what the writingDone counter
  counts, where an abort token can be) and deadlock freedom: every reachable state of the Snap transition
  system with a data_channel of capacity ≥ 1 is final or has an enabled step.
-/
import GocoinV.Proofs.C11Snap
namespace GocoinV.Proofs.C11.SnapL
open GocoinV.Conc GocoinV.Conc.Snap GocoinV.Proofs.C11.SnapP GocoinV.Proofs.C11.SnapC

/-- the main goroutine holds db.Mutex -/
def mLocked : MPc → Bool
  | .cAbort _ | .cMut1 | .cMut2 | .cUnlock | .iCheck | .sChk .idle | .sSet .idle | .sAdd .idle | .sGo .idle
  | .iUnlock | .aAbort _ | .aUnlock => true
  | _ => false

def xLocked : XPc → Bool | .aAbort _ | .aUnlock => true | _ => false

/-- between sending the abort token and having drained the channel -/
def mAborting : MPc → Bool
  | .cAbort .wait | .cAbort .drain | .aAbort .wait | .aAbort .drain => true | _ => false

def xAborting : XPc → Bool | .aAbort .wait | .aAbort .drain => true | _ => false

@[simp] theorem mLocked_ret_idle : mLocked (saveRetPc .idle) = true := rfl
@[simp] theorem mLocked_ret_direct : mLocked (saveRetPc .direct) = false := rfl
@[simp] theorem mLocked_ret_close : mLocked (saveRetPc .close) = false := rfl
@[simp] theorem mAborting_ret (r) : mAborting (saveRetPc r) = false := by cases r <;> rfl

structure CtlInv (st : St) : Prop where
  wd : st.wdone = (if st.s.isSome then 1 else 0) + (if isSGo st.mpc then 1 else 0)
  mx_m : st.mtx = some true ↔ mLocked st.mpc = true
  mx_x : st.mtx = some false ↔ xLocked st.xpc = true
  ab : st.abortCh = true → mAborting st.mpc = true ∨ xAborting st.xpc = true

theorem ctl_init (mp xp cap) : CtlInv (init mp xp cap) := by
  constructor <;> simp [init, isSGo, mLocked, xLocked]

theorem ctl_abortM (st st' : St) (a a' : APc) (mk : APc → MPc)
    (hmk : ∀ a, mLocked (mk a) = true ∧ isSGo (mk a) = false)
    (hab : ∀ a, mAborting (mk a) = (a == .wait || a == .drain))
    (hpc : st.mpc = mk a) (h : CtlInv st) (hs : abortStep st a = some (st', a')) :
    CtlInv { st' with mpc := mk a' } := by
  obtain ⟨h1, h2, h3, h4⟩ := h
  have hm : st.mtx = some true := h2.mpr (by rw [hpc]; exact (hmk a).1)
  have hx : xLocked st.xpc = false := by
    cases hxl : xLocked st.xpc with
    | false => rfl
    | true => have := h3.mpr hxl; rw [hm] at this; cases this
  have hxa : xAborting st.xpc = false := by
    cases hh : st.xpc <;> simp_all [xLocked, xAborting]
  cases a <;> simp only [abortStep] at hs
  · simp only [Option.some.injEq, Prod.mk.injEq] at hs; obtain ⟨rfl, rfl⟩ := hs
    constructor
    · simpa [hpc, (hmk _).2] using h1
    · simp [hm, (hmk _).1]
    · simpa using h3
    · intro hc; have := h4 hc; simp [hpc, hab, hxa] at this
  · split at hs
    · cases hs
    · simp only [Option.some.injEq, Prod.mk.injEq] at hs; obtain ⟨rfl, rfl⟩ := hs
      constructor
      · simpa [hpc, (hmk _).2] using h1
      · simp [hm, (hmk _).1]
      · simpa using h3
      · intro _; left; simp [hab]
  · split at hs
    · simp only [Option.some.injEq, Prod.mk.injEq] at hs; obtain ⟨rfl, rfl⟩ := hs
      constructor
      · simpa [hpc, (hmk _).2] using h1
      · simp [hm, (hmk _).1]
      · simpa using h3
      · intro _; left; simp [hab]
    · cases hs
  · simp only [Option.some.injEq, Prod.mk.injEq] at hs; obtain ⟨rfl, rfl⟩ := hs
    constructor
    · simpa [hpc, (hmk _).2] using h1
    · simp [hm, (hmk _).1]
    · simpa using h3
    · intro hc; simp at hc
  · cases hs

set_option maxHeartbeats 1000000 in
theorem ctl_stepM (st st' : St) (h : CtlInv st) (hs : stepM st = some st') : CtlInv st' := by
  unfold stepM at hs
  split at hs
  · -- next
    obtain ⟨h1, h2, h3, h4⟩ := h
    split at hs
    · cases hs
    · rename_i hpc op r _
      simp only [Option.some.injEq] at hs
      subst hs
      cases op <;> constructor <;> simp_all [isSGo, mLocked, mAborting]
  · -- cLock
    obtain ⟨h1, h2, h3, h4⟩ := h
    rename_i hpc
    split at hs
    · rename_i hn
      simp only [Option.some.injEq] at hs; subst hs
      have hn' : st.mtx = none := by simpa using hn
      constructor <;> simp_all [isSGo, mLocked, mAborting]
    · cases hs
  · -- cAbort done
    obtain ⟨h1, h2, h3, h4⟩ := h
    simp only [Option.some.injEq] at hs; subst hs
    constructor <;> simp_all [isSGo, mLocked, mAborting]
  · -- cAbort a
    rename_i a hnd hpc
    simp only [Option.map_eq_some_iff] at hs
    obtain ⟨⟨st1, a1⟩, hab, rfl⟩ := hs
    exact ctl_abortM st st1 a a1 .cAbort (by intro a; simp [mLocked, isSGo])
      (by intro a; cases a <;> simp [mAborting]) hpc h hab
  · -- cMut1
    obtain ⟨h1, h2, h3, h4⟩ := h
    simp only [Option.some.injEq] at hs; subst hs
    constructor <;> simp_all [isSGo, mLocked, mAborting]
  · obtain ⟨h1, h2, h3, h4⟩ := h
    simp only [Option.some.injEq] at hs; subst hs
    constructor <;> simp_all [isSGo, mLocked, mAborting]
  · -- cUnlock
    obtain ⟨h1, h2, h3, h4⟩ := h
    rename_i hpc
    simp only [Option.some.injEq] at hs; subst hs
    have hm : st.mtx = some true := h2.mpr (by simp [hpc, mLocked])
    constructor <;> simp_all [isSGo, mLocked, mAborting]
  · -- iLock
    obtain ⟨h1, h2, h3, h4⟩ := h
    split at hs
    · rename_i hn
      simp only [Option.some.injEq] at hs; subst hs
      have hn' : st.mtx = none := by simpa using hn
      constructor <;> simp_all [isSGo, mLocked, mAborting]
    · cases hs
  · -- iCheck
    obtain ⟨h1, h2, h3, h4⟩ := h
    simp only [Option.some.injEq] at hs; subst hs
    constructor <;> (try split) <;> simp_all [isSGo, mLocked, mAborting]
  · -- sChk r
    obtain ⟨h1, h2, h3, h4⟩ := h
    rename_i r hpc
    simp only [Option.some.injEq] at hs; subst hs
    cases r <;> constructor <;> (try split) <;> simp_all [isSGo, mLocked, mAborting, saveRetPc]
  · -- sSet r
    obtain ⟨h1, h2, h3, h4⟩ := h
    rename_i r hpc
    simp only [Option.some.injEq] at hs; subst hs
    cases r <;> constructor <;> simp_all [isSGo, mLocked, mAborting]
  · -- sAdd r
    obtain ⟨h1, h2, h3, h4⟩ := h
    rename_i r hpc
    simp only [Option.some.injEq] at hs; subst hs
    cases r <;> constructor <;> simp_all [isSGo, mLocked, mAborting] <;> omega
  · -- sGo r
    obtain ⟨h1, h2, h3, h4⟩ := h
    rename_i r hpc
    split at hs
    · rename_i hn
      simp only [Option.some.injEq] at hs; subst hs
      have hn' : st.s = none := by simpa using hn
      cases r <;> constructor <;> simp_all [isSGo, mLocked, mAborting, saveRetPc]
    · cases hs
  · -- iUnlock
    obtain ⟨h1, h2, h3, h4⟩ := h
    rename_i hpc
    simp only [Option.some.injEq] at hs; subst hs
    have hm : st.mtx = some true := h2.mpr (by simp [hpc, mLocked])
    constructor <;> simp_all [isSGo, mLocked, mAborting]
  · -- aLock
    obtain ⟨h1, h2, h3, h4⟩ := h
    split at hs
    · rename_i hn
      simp only [Option.some.injEq] at hs; subst hs
      have hn' : st.mtx = none := by simpa using hn
      constructor <;> simp_all [isSGo, mLocked, mAborting]
    · cases hs
  · -- aAbort done
    obtain ⟨h1, h2, h3, h4⟩ := h
    simp only [Option.some.injEq] at hs; subst hs
    constructor <;> simp_all [isSGo, mLocked, mAborting]
  · -- aAbort a
    rename_i a hnd hpc
    simp only [Option.map_eq_some_iff] at hs
    obtain ⟨⟨st1, a1⟩, hab, rfl⟩ := hs
    exact ctl_abortM st st1 a a1 .aAbort (by intro a; simp [mLocked, isSGo])
      (by intro a; cases a <;> simp [mAborting]) hpc h hab
  · -- aUnlock
    obtain ⟨h1, h2, h3, h4⟩ := h
    rename_i hpc
    simp only [Option.some.injEq] at hs; subst hs
    have hm : st.mtx = some true := h2.mpr (by simp [hpc, mLocked])
    constructor <;> simp_all [isSGo, mLocked, mAborting]
  · -- clCheck
    obtain ⟨h1, h2, h3, h4⟩ := h
    simp only [Option.some.injEq] at hs; subst hs
    constructor <;> (try split) <;> simp_all [isSGo, mLocked, mAborting]
  · -- clWait1
    obtain ⟨h1, h2, h3, h4⟩ := h
    split at hs
    · simp only [Option.some.injEq] at hs; subst hs
      constructor <;> simp_all [isSGo, mLocked, mAborting]
    · cases hs
  · -- clWait2
    obtain ⟨h1, h2, h3, h4⟩ := h
    split at hs
    · simp only [Option.some.injEq] at hs; subst hs
      constructor <;> simp_all [isSGo, mLocked, mAborting]
    · cases hs
  · cases hs

theorem ctl_abortX (st st' : St) (a a' : APc) (hpc : st.xpc = .aAbort a) (h : CtlInv st)
    (hs : abortStep st a = some (st', a')) : CtlInv { st' with xpc := .aAbort a' } := by
  obtain ⟨h1, h2, h3, h4⟩ := h
  have hm : st.mtx = some false := h3.mpr (by rw [hpc]; rfl)
  have hx : mLocked st.mpc = false := by
    cases hxl : mLocked st.mpc with
    | false => rfl
    | true => have := h2.mpr hxl; rw [hm] at this; cases this
  have hxa : mAborting st.mpc = false := by
    cases hh : st.mpc <;> simp_all [mLocked, mAborting]
  cases a <;> simp only [abortStep] at hs
  · simp only [Option.some.injEq, Prod.mk.injEq] at hs; obtain ⟨rfl, rfl⟩ := hs
    constructor
    · simpa using h1
    · simpa using h2
    · simp [hm, xLocked]
    · intro hc; have := h4 hc; simp [hpc, xAborting, hxa] at this
  · split at hs
    · cases hs
    · simp only [Option.some.injEq, Prod.mk.injEq] at hs; obtain ⟨rfl, rfl⟩ := hs
      constructor
      · simpa using h1
      · simpa using h2
      · simp [hm, xLocked]
      · intro _; right; rfl
  · split at hs
    · simp only [Option.some.injEq, Prod.mk.injEq] at hs; obtain ⟨rfl, rfl⟩ := hs
      constructor
      · simpa using h1
      · simpa using h2
      · simp [hm, xLocked]
      · intro _; right; rfl
    · cases hs
  · simp only [Option.some.injEq, Prod.mk.injEq] at hs; obtain ⟨rfl, rfl⟩ := hs
    constructor
    · simpa using h1
    · simpa using h2
    · simp [hm, xLocked]
    · intro hc; simp at hc
  · cases hs

theorem ctl_stepX (st st' : St) (h : CtlInv st) (hs : stepX st = some st') : CtlInv st' := by
  unfold stepX at hs
  split at hs
  · obtain ⟨h1, h2, h3, h4⟩ := h
    split at hs
    · cases hs
    all_goals (simp only [Option.some.injEq] at hs; subst hs; constructor <;> simp_all [xLocked, xAborting])
  · -- aLock
    obtain ⟨h1, h2, h3, h4⟩ := h
    split at hs
    · rename_i hn
      simp only [Option.some.injEq] at hs; subst hs
      have hn' : st.mtx = none := by simpa using hn
      constructor <;> simp_all [xLocked, xAborting]
    · cases hs
  · -- aAbort done
    obtain ⟨h1, h2, h3, h4⟩ := h
    simp only [Option.some.injEq] at hs; subst hs
    constructor <;> simp_all [xLocked, xAborting]
  · rename_i a hnd hpc
    simp only [Option.map_eq_some_iff] at hs
    obtain ⟨⟨st1, a1⟩, hab, rfl⟩ := hs
    exact ctl_abortX st st1 a a1 hpc h hab
  · -- aUnlock
    obtain ⟨h1, h2, h3, h4⟩ := h
    rename_i hpc
    simp only [Option.some.injEq] at hs; subst hs
    have hm : st.mtx = some false := h3.mpr (by simp [hpc, xLocked])
    constructor <;> simp_all [xLocked, xAborting]

theorem ctl_stepS (st st' : St) (l : Lab) (h : CtlInv st) (hs : stepS st l = some st') : CtlInv st' := by
  obtain ⟨h1, h2, h3, h4⟩ := h
  unfold stepS at hs
  split at hs
  · cases hs
  · rename_i sv hsv
    split at hs
    all_goals (try (split at hs))
    all_goals (try (split at hs))
    all_goals (first | cases hs | (simp only [Option.some.injEq] at hs; subst hs))
    all_goals (constructor <;> simp_all <;> omega)

theorem ctl_stepF (st st' : St) (l : Lab) (h : CtlInv st) (hs : stepF st l = some st') : CtlInv st' := by
  obtain ⟨h1, h2, h3, h4⟩ := h
  unfold stepF at hs
  split at hs
  · cases hs
  · split at hs
    all_goals (try (split at hs))
    all_goals (try (split at hs))
    all_goals (first | cases hs | (simp only [Option.some.injEq] at hs; subst hs))
    all_goals (constructor <;> simp_all)

theorem ctl_step (st st' : St) (l : Lab) (h : CtlInv st) (hs : step st l = some st') : CtlInv st' := by
  cases l with
  | m => exact ctl_stepM st st' h hs
  | x => exact ctl_stepX st st' h hs
  | fStep => exact ctl_stepF st st' _ h hs
  | fExit => exact ctl_stepF st st' _ h hs
  | sStep => exact ctl_stepS st st' _ h hs
  | sBegin k => exact ctl_stepS st st' _ h hs
  | sAbort => exact ctl_stepS st st' _ h hs
  | sHurry => exact ctl_stepS st st' _ h hs

theorem ctl_run (st : St) (ls : List Lab) (h : CtlInv st) : CtlInv (run st ls) := by
  induction ls generalizing st with
  | nil => exact h
  | cons l r ih =>
    simp only [run]
    cases hs : step st l with
    | none => simpa using ih st h
    | some st' => simpa using ih st' (ctl_step st st' l h hs)

theorem cap_step (st st' : St) (l : Lab) (hs : step st l = some st') : st'.cap = st.cap := by
  cases l with
  | m => exact (stepM_frame st st' hs).cap
  | x => exact (stepX_frame st st' hs).cap
  | fStep | fExit =>
    simp only [step] at hs
    unfold stepF at hs
    split at hs
    · cases hs
    · split at hs
      all_goals (try (split at hs))
      all_goals (try (split at hs))
      all_goals (cases hs <;> rfl)
  | sStep | sBegin k | sAbort | sHurry =>
    simp only [step] at hs
    unfold stepS at hs
    split at hs
    · cases hs
    · split at hs
      all_goals (try (split at hs))
      all_goals (try (split at hs))
      all_goals (cases hs <;> rfl)

theorem cap_run (st : St) (ls : List Lab) : (run st ls).cap = st.cap := by
  induction ls generalizing st with
  | nil => rfl
  | cons l r ih =>
    simp only [run]
    cases hs : step st l with
    | none => simpa using ih st
    | some st' => simpa [cap_step st st' l hs] using ih st'

/-! ### deadlock freedom -/

theorem hasStep_of (st : St) (l : Lab)
    (hl : l ∈ [Lab.m, .x, .sStep, .sBegin 1, .sAbort, .sHurry, .fStep, .fExit])
    (h : (step st l).isSome = true) : hasStep st = true := by
  unfold hasStep allLabs
  rw [List.any_eq_true]
  refine ⟨l, ?_, h⟩
  cases st.s <;> simpa using hl

/-- a file goroutine whose saver is not (any more) in the paired part of `save` can always move:
    it has data to write, or the exit token is there, or it is past its loop -/
theorem filer_progress (st : St) (h : FileInv st) (fl : Filer) (hf : st.f = some fl)
    (hnp : ∀ sv, st.s = some sv → paired sv.pc = false) : (stepF st .fStep).isSome = true := by
  unfold stepF
  rw [hf]
  simp only
  cases hpc : fl.pc with
  | run =>
    simp only
    cases hd : st.dataCh with
    | cons c r => simp
    | nil =>
      simp only
      rcases h.ch_unp fl hf hpc hnp with hu | ⟨hu, _⟩ <;> simp [hu]
  | rename => simp
  | remove => simp
  | done => simp

theorem saver_progress (st : St) (h : FileInv st) (sv : Saver) (hs : st.s = some sv) (hcap : 0 < st.cap) :
    (stepS st .sStep).isSome = true ∨ (stepS st (.sBegin 1)).isSome = true ∨ (stepF st .fStep).isSome = true := by
  cases hpc : sv.pc with
  | waitFile =>
    by_cases hz : st.fclosed = 0
    · left; unfold stepS; rw [hs]; simp [hpc, hz]
    · right; right
      have hfc := h.fcl
      cases hf : st.f with
      | none => simp [hf] at hfc; exact absurd hfc hz
      | some fl =>
        exact filer_progress st h fl hf (by intro sv' h'; rw [hs] at h'; cases h'; simp [hpc, paired])
  | hdr =>
    cases hf : st.f with
    | none => right; left; unfold stepS; rw [hs]; simp [hpc, hf]
    | some fl =>
      right; right
      exact filer_progress st h fl hf (by intro sv' h'; rw [hs] at h'; cases h'; simp [hpc, paired])
  | loop =>
    by_cases hk : sv.k = 0
    · left; unfold stepS; rw [hs]; simp [hpc, hk]
    · by_cases hl : st.dataCh.length < st.cap
      · left; unfold stepS; rw [hs]; simp [hpc, hk, hl]
      · right; right
        obtain ⟨fl, hf, hr⟩ := h.pair sv hs (by simp [hpc, paired])
        unfold stepF; rw [hf]; simp only [hr]
        cases hd : st.dataCh with
        | nil => simp [hd] at hl; omega
        | cons c r => simp
  | fin a => left; unfold stepS; rw [hs]; simp [hpc]
  | clr => left; unfold stepS; rw [hs]; simp [hpc]
  | done => left; unfold stepS; rw [hs]; simp [hpc]

def mDone (st : St) : Bool := st.mpc == .closed || (st.mpc == .next && st.mprog.isEmpty)
def mAtLock : MPc → Bool | .cLock | .iLock | .aLock => true | _ => false

theorem mAborting_locked (p : MPc) (h : mAborting p = true) : mLocked p = true := by
  cases p <;> simp_all [mAborting, mLocked]

theorem xAborting_locked (p : XPc) (h : xAborting p = true) : xLocked p = true := by
  cases p <;> simp_all [xAborting, xLocked]

/-- an aborter that holds db.Mutex is never blocked once no saver is left (and nobody is about to start one) -/
theorem abort_enabled (st : St) (hc : CtlInv st) (hs : st.s = none) (hsg : isSGo st.mpc = false) (a : APc)
    (ha : a ≠ .done) (hnab : a = .send → st.abortCh = false) : (abortStep st a).isSome = true := by
  have hw : st.wdone = 0 := by have := hc.wd; simpa [hs, hsg] using this
  cases a with
  | check => simp [abortStep]
  | send => simp [abortStep, hnab rfl]
  | wait => simp [abortStep, hw]
  | drain => simp [abortStep]
  | done => exact absurd rfl ha

theorem m_progress (st : St) (hc : CtlInv st) (hs : st.s = none) (hfc : st.fclosed = 0) :
    (stepM st).isSome = true ∨ mDone st = true ∨ (mAtLock st.mpc = true ∧ st.mtx ≠ none) := by
  have hsendM : ∀ mk : APc → MPc, st.mpc = mk .send → mLocked (mk .send) = true → mAborting (mk .send) = false →
      st.abortCh = false := by
    intro mk hpc hl hna
    cases hab : st.abortCh with
    | false => rfl
    | true =>
      rcases hc.ab hab with h1 | h1
      · rw [hpc, hna] at h1; cases h1
      · have hx := hc.mx_x.mpr (xAborting_locked _ h1)
        have hm := hc.mx_m.mpr (by rw [hpc]; exact hl)
        rw [hm] at hx; cases hx
  cases hpc : st.mpc with
  | next =>
    cases hp : st.mprog with
    | nil => right; left; simp [mDone, hpc, hp]
    | cons op r => left; unfold stepM; simp [hpc, hp]
  | cLock =>
    cases hm : st.mtx with
    | none => left; unfold stepM; simp [hpc, hm]
    | some b => right; right; simp [mAtLock]
  | iLock =>
    cases hm : st.mtx with
    | none => left; unfold stepM; simp [hpc, hm]
    | some b => right; right; simp [mAtLock]
  | aLock =>
    cases hm : st.mtx with
    | none => left; unfold stepM; simp [hpc, hm]
    | some b => right; right; simp [mAtLock]
  | cAbort a =>
    left
    by_cases hd : a = .done
    · subst hd; unfold stepM; simp [hpc]
    · have := abort_enabled st hc hs (by simp [hpc, isSGo]) a hd
        (by intro h; subst h; exact hsendM .cAbort hpc rfl rfl)
      unfold stepM
      cases a <;> simp_all
  | aAbort a =>
    left
    by_cases hd : a = .done
    · subst hd; unfold stepM; simp [hpc]
    · have := abort_enabled st hc hs (by simp [hpc, isSGo]) a hd
        (by intro h; subst h; exact hsendM .aAbort hpc rfl rfl)
      unfold stepM
      cases a <;> simp_all
  | sGo r => left; unfold stepM; simp [hpc, hs]
  | clWait1 =>
    left
    have hw : st.wdone = 0 := by have := hc.wd; simpa [hs, hpc, isSGo] using this
    unfold stepM; simp [hpc, hw]
  | clWait2 => left; unfold stepM; simp [hpc, hfc]
  | closed => right; left; simp [mDone, hpc]
  | cMut1 | cMut2 | cUnlock | iCheck | sChk r | sSet r | sAdd r | iUnlock | aUnlock | clCheck =>
    left; unfold stepM; simp [hpc]

theorem x_progress (st : St) (hc : CtlInv st) (hs : st.s = none) (hml : mLocked st.mpc = false)
    (hsg : isSGo st.mpc = false) : (stepX st).isSome = true ∨ (st.xpc = .next ∧ st.xprog = []) := by
  have hmt : st.mtx ≠ some true := by
    intro h; have := hc.mx_m.mp h; rw [hml] at this; cases this
  cases hpc : st.xpc with
  | next =>
    cases hp : st.xprog with
    | nil => right; exact ⟨rfl, rfl⟩
    | cons op r => left; unfold stepX; cases op <;> simp [hpc, hp]
  | aLock =>
    left
    have hmf : st.mtx ≠ some false := by
      intro h; have := hc.mx_x.mp h; simp [hpc, xLocked] at this
    have hm : st.mtx = none := by
      cases h : st.mtx with
      | none => rfl
      | some b => cases b <;> simp_all
    unfold stepX; simp [hpc, hm]
  | aAbort a =>
    left
    by_cases hd : a = .done
    · subst hd; unfold stepX; simp [hpc]
    · have := abort_enabled st hc hs hsg a hd (by
        intro h; subst h
        cases hab : st.abortCh with
        | false => rfl
        | true =>
          rcases hc.ab hab with h1 | h1
          · have := mAborting_locked _ h1; rw [hml] at this; cases this
          · simp [hpc, xAborting] at h1)
      unfold stepX
      cases a <;> simp_all
  | aUnlock => left; unfold stepX; simp [hpc]

/-- every state satisfying the invariants is final or has an enabled step -/
theorem progress (st : St) (hf : FileInv st) (hc : CtlInv st) (hcap : 0 < st.cap) :
    final st = true ∨ hasStep st = true := by
  cases hs : st.s with
  | some sv =>
    right
    rcases saver_progress st hf sv hs hcap with h | h | h
    · exact hasStep_of st .sStep (by simp) (by simpa [step] using h)
    · exact hasStep_of st (.sBegin 1) (by simp) (by simpa [step] using h)
    · exact hasStep_of st .fStep (by simp) (by simpa [step] using h)
  | none =>
    cases hff : st.f with
    | some fl =>
      right
      exact hasStep_of st .fStep (by simp)
        (by simpa [step] using filer_progress st hf fl hff (by intro sv h; rw [hs] at h; cases h))
    | none =>
      have hfc : st.fclosed = 0 := by have := hf.fcl; simpa [hff] using this
      rcases m_progress st hc hs hfc with h | h | ⟨h1, h2⟩
      · right; exact hasStep_of st .m (by simp) (by simpa [step] using h)
      · -- the main goroutine has finished
        have hml : mLocked st.mpc = false := by
          simp only [mDone, Bool.or_eq_true, Bool.and_eq_true, beq_iff_eq] at h
          rcases h with h | ⟨h, _⟩ <;> simp [h, mLocked]
        have hsg : isSGo st.mpc = false := by
          simp only [mDone, Bool.or_eq_true, Bool.and_eq_true, beq_iff_eq] at h
          rcases h with h | ⟨h, _⟩ <;> simp [h, isSGo]
        rcases x_progress st hc hs hml hsg with hx | ⟨hx1, hx2⟩
        · right; exact hasStep_of st .x (by simp) (by simpa [step] using hx)
        · left
          simp only [mDone] at h
          simp [final, h, hx1, hx2, hs, hff]
      · -- the main goroutine waits for db.Mutex: the auxiliary goroutine holds it and can move
        right
        have hml : mLocked st.mpc = false := by cases hp : st.mpc <;> simp_all [mAtLock, mLocked]
        have hsg : isSGo st.mpc = false := by cases hp : st.mpc <;> simp_all [mAtLock, isSGo]
        have hmf : st.mtx = some false := by
          cases hm : st.mtx with
          | none => exact absurd hm h2
          | some b =>
            cases b with
            | false => rfl
            | true => have := hc.mx_m.mp hm; rw [hml] at this; cases this
        have hxl := hc.mx_x.mp hmf
        rcases x_progress st hc hs hml hsg with hx | ⟨hx1, _⟩
        · exact hasStep_of st .x (by simp) (by simpa [step] using hx)
        · rw [hx1] at hxl; simp [xLocked] at hxl

end GocoinV.Proofs.C11.SnapL
