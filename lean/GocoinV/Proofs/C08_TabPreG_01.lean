/- C08 table proof chunk (written once by Proofs/mk_c08_tab.py; static). -/
import GocoinV.Proofs.C08_TabDefs
import GocoinV.Gen.TablesPreG01
import GocoinV.Gen.TablesPreG00
namespace GocoinV.C08
open GocoinV.Gen

theorem preG_01 : chainOK (Secp.dbl Secp.G) ((pts Tables.preG00).getLastD none :: pts Tables.preG01) = true := by
  decide +kernel
theorem preG_01_ne : pts Tables.preG01 ≠ [] := by decide +kernel

end GocoinV.C08
