/-
  Proofs.C17Cfg — config changes during the build of the index (Model.BalancesCfg) and the generated source facts
  (Gen.WalletCfgFacts, written by go/cmd/gen_c17 from /repo on every run).
-/
import GocoinV.Proofs.C17Load
import GocoinV.Model.BalancesCfg
namespace GocoinV.Proofs.C17Cfg
open GocoinV GocoinV.Model.Balances GocoinV.Model.BalancesLoad GocoinV.Model.BalancesCfg
open GocoinV.Gen.WalletCfgFacts

/-- The source facts the model's treatment of the two thresholds rests on, restated in the generator's CANONICAL
    form (functions named only when they are entry points of their package — exported, init, main, used as a value —,
    unexported helpers counted as inlined into their callers, package variables found by their role, locals resolved):
    this stops compiling when /repo's source says otherwise, and does not when a local / unexported helper is renamed,
    extracted or inlined. -/
theorem source_facts :
    minValWriters = ["ApplyBalMinVal"] ∧ minValStored = ["CFG.AllBalances.MinValue"] ∧
    minValReaders = ["AllBalMinVal"] ∧ minValReach = ["ApplyBalMinVal", "InitConfig"] ∧
    resetMayWriteMinVal = false ∧ minValExternalCallers = ["wallet.LoadBalancesFromUtxo"] ∧
    loadGuardedByWalletON = true ∧ loadAppliesOnceBeforeScan = true ∧
    addPathComparesWith = ["(<useMapCnt>-1)", "common.AllBalMinVal()"] ∧
    delPathComparesWith = ["common.AllBalMinVal()"] ∧
    addPathReadsInForce = true ∧ delPathReadsInForce = true ∧ walletReadsCfgMinValue = [] ∧
    useMapCntWriters = ["InitMaps", "LoadBalances"] ∧
    useMapCntSources = ["int(common.Get(&common.CFG.AllBalances.UseMapCnt))"] ∧
    delPathSortedSearches = [] ∧
    addPathConditionsDependOn =
      ["<useMapCnt>", "OneAllAddrBal", "OneAllAddrBal.unsp", "OneAllAddrBal.unspMap", "Script2Idx()", "[]byte", "allBalances",
       "allBalances.unsp", "allBalances.unspMap", "common.AllBalMinVal()", "utxo.UtxoRec.Outs", "utxo.UtxoRec.Outs.PKScr",
       "utxo.UtxoRec.Outs.Value"] ∧
    delPathConditionsDependOn =
      ["Script2Idx()", "[]bool", "[]byte", "allBalances", "allBalances.unsp", "allBalances.unspMap", "common.AllBalMinVal()",
       "utxo.UtxoRec.Outs", "utxo.UtxoRec.Outs.PKScr", "utxo.UtxoRec.Outs.Value"] ∧
    minValGetterReturns = ["atomic.LoadUint64(&<minVal>)"] := by
  decide

/-- Reset leaves the minimum in force alone (by the generated fact `resetMayWriteMinVal = false`) -/
theorem afterReset_keeps (m v : Nat) : afterReset m v = m := by
  have h : resetMayWriteMinVal = false := source_facts.2.2.2.2.1
  simp [afterReset, h]

theorem loadLoopR_eq (P : Parser) (um : Nat) (H : Bytes → Nat) (tick : Nat → Bool) (chg : Nat → Option Nat) (m : Nat) :
    ∀ (raw : List Bytes) (n : Nat) (st : Static) (bal : BalMap),
      loadLoopR P um H tick chg raw n st m bal =
        (loadLoop P { min := m, useMapCnt := um } H tick raw n st bal).map (fun r => (r.1, r.2.1, r.2.2, m)) := by
  intro raw
  induction raw with
  | nil => intro n st bal; simp [loadLoopR, loadLoop]
  | cons b rest ih =>
    intro n st bal
    unfold loadLoopR loadLoop
    cases hd : staticDec P b st with
    | ok v =>
      obtain ⟨r, st'⟩ := v
      cases hc : chg (n + 1) with
      | none =>
        cases ht : tick (n + 1)
        · simp only [Bool.false_eq_true, if_false]; exact ih (n + 1) st' _
        · simp
      | some v =>
        simp only [afterReset_keeps]
        cases ht : tick (n + 1)
        · simp only [Bool.false_eq_true, if_false]; exact ih (n + 1) st' _
        · simp
    | panic => simp
    | hang => simp

theorem loadFromUtxoR_eq (P : Parser) (H : Bytes → Nat) (tick : Nat → Bool) (chg : Nat → Option Nat) (s : State)
    (st : Static) (raw : List Bytes) (mn um : Nat) :
    loadFromUtxoR P H tick chg s st raw mn um = loadFromUtxo P H tick s st raw mn um := by
  unfold loadFromUtxoR loadFromUtxo
  cases s.on
  · simp only [Bool.false_eq_true, if_false, loadLoopR_eq]
    cases loadLoop P { min := mn, useMapCnt := um } H tick raw 0 st [] with
    | none => rfl
    | some v => obtain ⟨bal, st', ab⟩ := v; cases ab <;> rfl
  · rfl

end GocoinV.Proofs.C17Cfg
