/-
  Proofs.C07Node — the coupling between the running node's memory and the directory, and the lemmas that
  every primitive step (one emitted effect, one in-memory update) keeps it.

  `InvQ c s`:
    hist/pref : the disk is the effect list applied to `base`, and EVERY PREFIX of the effect list gives a
                directory satisfying `DiskInv P` (this is the "at every crash point" part);
    node      : BlockDB's in-memory index agrees with the directory: a record marked on-disk is in the index
                file, a record not yet on disk has its block in the write queue `Q`, every index record /
                queued block / tree node / the tip / the parent of every cached block has a record, and the
                queue is in parent-before-child order relative to the index file (`QOK`);
    snap      : a paused snapshot writer holds exactly the node's current (tip, height, set) and its tmp file
                exists; when the set is not dirty the snapshot the restart would load IS the current state.
  Core Lean only.
-/
import GocoinV.Proofs.C07Disk
namespace GocoinV.Proofs.C07
open GocoinV.Persist

local macro "rf[" n:term ", " id:term "]" : term => `(List.find? (fun (x : BRec) => x.id == $id) (Node.recs $n))

def QOK (I : BlockId → Prop) : List Block → Prop
  | [] => True
  | b :: r => (b.parent = 0 ∨ I b.parent) ∧ QOK (fun x => x = b.id ∨ I x) r

theorem QOK.mono {I J : BlockId → Prop} (hIJ : ∀ x, I x → J x) : ∀ {q : List Block}, QOK I q → QOK J q := by
  intro q
  induction q generalizing I J with
  | nil => intro _; trivial
  | cons b r ih =>
    intro h
    exact ⟨h.1.imp id (hIJ _), ih (fun x hx => hx.imp id (hIJ x)) h.2⟩

theorem QOK.append {I : BlockId → Prop} {q : List Block} {b : Block} (h : QOK I q)
    (hb : b.parent = 0 ∨ I b.parent ∨ ∃ b' ∈ q, b'.id = b.parent) : QOK I (q ++ [b]) := by
  induction q generalizing I with
  | nil =>
    refine ⟨?_, trivial⟩
    rcases hb with hb | hb | ⟨_, hm, _⟩
    · exact Or.inl hb
    · exact Or.inr hb
    · cases hm
  | cons a r ih =>
    refine ⟨h.1, ih h.2 ?_⟩
    rcases hb with hb | hb | ⟨b', hm, e⟩
    · exact Or.inl hb
    · exact Or.inr (Or.inl (Or.inr hb))
    · rcases List.mem_cons.1 hm with hm | hm
      · subst hm; exact Or.inr (Or.inl (Or.inl e.symm))
      · exact Or.inr (Or.inr ⟨b', hm, e⟩)

structure NodeInv (n : Node) (I : List BlockId) (Q : List Block) (X : BlockId → Prop) (T : List BlockId) : Prop where
  recDisk : ∀ id r, rf[n, id] = some r → r.onDisk = true → id ∈ I
  recQueue : ∀ id r, rf[n, id] = some r → r.onDisk = false → ∃ b ∈ Q, b.id = id
  queueRec : ∀ b ∈ Q, (rf[n, b.id]).isSome
  idxRec : ∀ id ∈ I, (rf[n, id]).isSome
  tipRec : n.tip = 0 ∨ (rf[n, n.tip]).isSome
  treeRec : ∀ t ∈ n.tree, X t.id ∨ (rf[n, t.id]).isSome
  treePar : ∀ t ∈ n.tree, t.parent = 0 ∨ (rf[n, t.parent]).isSome
  memParent : ∀ b ∈ n.mem, b.parent = 0 ∨ (rf[n, b.parent]).isSome
  ghost : ∀ id ∈ T, id = 0 ∨ (rf[n, id]).isSome
  queueOK : QOK (· ∈ I) Q

structure SnapInv (n : Node) (d : Disk) : Prop where
  savingOK : ∀ sn k, n.saving = some (sn, k) → sn = ⟨n.tip, n.lastHeight, n.utxo⟩ ∧ hasTmp d sn
  cleanOK : n.dirty = false → loadSnap d = some ⟨n.tip, n.lastHeight, n.utxo⟩ ∨
    (loadSnap d = none ∧ n.tip = 0 ∧ n.lastHeight = 0 ∧ n.utxo = [])

/-- parameters of the invariant: `P` what a snapshot may contain, `base` the directory the process started
    from, `X` tree nodes that need no record yet (the block being submitted), `T` ghost ids that must keep
    a record, `Q` the blocks still to be written, `Qn` the node's queue field (= `Q` except inside writeAll) -/
structure Par where
  P : Snap → Prop
  base : Disk
  X : BlockId → Prop := (· = 0)
  T : List BlockId := []
  Q : List Block := []
  Qn : List Block := []

structure InvQ (c : Par) (s : St) : Prop where
  hist : s.d = applyAll c.base s.es
  pref : ∀ k, DiskInv c.P (applyAll c.base (s.es.take k))
  node : NodeInv s.n (ids s.d) c.Q c.X c.T
  snap : SnapInv s.n s.d
  qeq : s.n.queue = c.Qn

variable {c : Par} {s : St}

theorem InvQ.disk (h : InvQ c s) : DiskInv c.P s.d := by
  have := h.pref s.es.length
  rwa [List.take_length, ← h.hist] at this

/-! ### one emitted effect -/

theorem emit_d (s : St) (e : Effect) (p : Pt) : (s.emit e p).d = apply s.d e := rfl
theorem emit_n (s : St) (e : Effect) (p : Pt) : (s.emit e p).n = s.n := rfl
theorem emit_err (s : St) (e : Effect) (p : Pt) : (s.emit e p).err = s.err := rfl
theorem emit_es (s : St) (e : Effect) (p : Pt) : (s.emit e p).es = s.es ++ [(e, p)] := rfl

/-- the history part alone: the disk is the effect list applied to the base, every prefix is a good directory -/
structure Hist (c : Par) (s : St) : Prop where
  hist : s.d = applyAll c.base s.es
  pref : ∀ k, DiskInv c.P (applyAll c.base (s.es.take k))

theorem InvQ.toHist (h : InvQ c s) : Hist c s := ⟨h.hist, h.pref⟩

theorem Hist.disk (h : Hist c s) : DiskInv c.P s.d := by
  have := h.pref s.es.length
  rwa [List.take_length, ← h.hist] at this

/-- history part of one emit: needs only the effect's side condition -/
theorem Hist.emit (h : Hist c s) (e : Effect) (p : Pt) (ok : EffOK c.P s.d e) : Hist c (s.emit e p) := by
  refine ⟨?_, ?_⟩
  · rw [emit_d, emit_es, applyAll_append, ← h.hist]; rfl
  · intro k
    rw [emit_es]
    by_cases hk : k ≤ s.es.length
    · rw [List.take_append_of_le_length hk]; exact h.pref k
    · rw [List.take_of_length_le (by simp; omega), applyAll_append, ← h.hist]
      exact apply_inv h.disk e ok

theorem emit_hist (h : InvQ c s) (e : Effect) (p : Pt) (ok : EffOK c.P s.d e) :
    (s.emit e p).d = applyAll c.base (s.emit e p).es ∧ ∀ k, DiskInv c.P (applyAll c.base ((s.emit e p).es.take k)) :=
  ⟨(h.toHist.emit e p ok).hist, (h.toHist.emit e p ok).pref⟩

theorem InvQ.emit (h : InvQ c s) (e : Effect) (p : Pt) (ok : EffOK c.P s.d e)
    (hi : ids (apply s.d e) = ids s.d) (hl : loadSnap (apply s.d e) = loadSnap s.d)
    (ht : ∀ sn, hasTmp s.d sn → hasTmp (apply s.d e) sn) : InvQ c (s.emit e p) := by
  obtain ⟨h1, h2⟩ := emit_hist h e p ok
  refine ⟨h1, h2, ?_, ?_, h.qeq⟩
  · rw [emit_d, emit_n, hi]; exact h.node
  · rw [emit_d, emit_n]
    refine ⟨fun sn k hs => ⟨(h.snap.savingOK sn k hs).1, ht sn (h.snap.savingOK sn k hs).2⟩, ?_⟩
    intro hd; rw [hl]; exact h.snap.cleanOK hd

/-- effects that touch neither the snapshots, nor the tmp files' identity, nor the set of indexed ids -/
def frameEff : Effect → Bool
  | .nop | .renameDbOld | .chunkTmp _ | .flushTmp _ | .writeUndoTmp _ | .renameUndoTmp _ | .removeUndoTmp | .setTrusted _ => true
  | _ => false

theorem hasTmp_of_tmps {d d' : Disk} (h : d'.tmps = d.tmps) (sn : Snap) (ht : hasTmp d sn) : hasTmp d' sn := by
  obtain ⟨x, hx, hs⟩ := ht
  exact ⟨x, by rw [h]; exact hx, hs⟩

theorem InvQ.emit_frame (h : InvQ c s) (e : Effect) (p : Pt) (hf : frameEff e = true) :
    InvQ c (s.emit e p) := by
  have hne : ∀ r, e ≠ .appendIdx r := by intro r hr; subst hr; simp [frameEff] at hf
  apply h.emit e p
  · cases e <;> simp_all [frameEff, EffOK]
  · exact ids_apply s.d e hne
  · cases e <;> simp [frameEff] at hf
    · rfl
    · exact loadSnap_rename s.d
    · exact loadSnap_of _ _ rfl rfl
    · exact loadSnap_of _ _ rfl rfl
    · exact loadSnap_of _ _ rfl rfl
    · simp only [apply]; split <;> exact loadSnap_of _ _ rfl rfl
    · exact loadSnap_of _ _ rfl rfl
    · exact loadSnap_of _ _ rfl rfl
  · intro sn ht
    cases e <;> simp [frameEff] at hf
    · exact ht
    · simp only [apply]; split
      · exact ht
      · exact hasTmp_of_tmps rfl sn ht
    · exact apply_keeper _ _ sn rfl ht
    · exact apply_keeper _ _ sn rfl ht
    · exact hasTmp_of_tmps rfl sn ht
    · simp only [apply]; split
      · exact ht
      · exact hasTmp_of_tmps rfl sn ht
    · exact hasTmp_of_tmps rfl sn ht
    · exact hasTmp_of_tmps rfl sn ht

theorem InvQ.emit_nop (h : InvQ c s) (p : Pt) : InvQ c (s.emit .nop p) :=
  h.emit_frame .nop p rfl

theorem InvQ.emit_appendDat (h : InvQ c s) (b : Block) (p : Pt) (ok : b.parent = 0 ∨ b.parent ∈ ids s.d) :
    InvQ c (s.emit (.appendDat b) p) :=
  h.emit _ p ok rfl (loadSnap_of _ _ rfl rfl) (fun sn ht => hasTmp_of_tmps rfl sn ht)

/-! ### in-memory updates -/

/-- replacing the node by one with the same index, tree, cache, tip, set, height, dirty flag and writer state -/
theorem InvQ.setNode (h : InvQ c s) (n' : Node)
    (h1 : n'.recs = s.n.recs) (h2 : n'.tip = s.n.tip) (h3 : n'.tree = s.n.tree) (h4 : n'.mem = s.n.mem)
    (h5 : n'.utxo = s.n.utxo) (h6 : n'.lastHeight = s.n.lastHeight) (h7 : n'.dirty = s.n.dirty)
    (h8 : n'.saving = s.n.saving) (h9 : n'.queue = s.n.queue) : InvQ c { s with n := n' } := by
  refine ⟨h.hist, h.pref, ?_, ?_, h9.trans h.qeq⟩
  · have hn := h.node
    constructor
    · simp only [h1]; exact hn.recDisk
    · simp only [h1]; exact hn.recQueue
    · simp only [h1]; exact hn.queueRec
    · simp only [h1]; exact hn.idxRec
    · simp only [h1, h2]; exact hn.tipRec
    · simp only [h1, h3]; exact hn.treeRec
    · simp only [h1, h3]; exact hn.treePar
    · simp only [h1, h4]; exact hn.memParent
    · simp only [h1]; exact hn.ghost
    · exact hn.queueOK
  · have hs := h.snap
    constructor
    · simp only [h2, h5, h6, h8]; exact hs.savingOK
    · simp only [h2, h5, h6, h7]; exact hs.cleanOK

theorem find_map_brec (l : List BRec) (id : BlockId) (f : BRec → BRec) (hf : ∀ x, (f x).id = x.id) :
    (l.map f).find? (fun y => y.id == id) = (l.find? (fun y => y.id == id)).map f := by
  induction l with
  | nil => rfl
  | cons a l ih =>
    simp only [List.map_cons, List.find?_cons, hf]
    split <;> simp_all

/-- rewriting records in place without changing their id or on-disk flag (the trusted flag) -/
theorem NodeInv.mapRecs {n : Node} {I : List BlockId} {Q : List Block} {X : BlockId → Prop} {T : List BlockId}
    (hn : NodeInv n I Q X T) (f : BRec → BRec)
    (hid : ∀ x, (f x).id = x.id) (hod : ∀ x, (f x).onDisk = x.onDisk) :
    NodeInv { n with recs := n.recs.map f } I Q X T := by
  have key : ∀ id, List.find? (fun (x : BRec) => x.id == id) (n.recs.map f) = (rf[n, id]).map f :=
    fun id => find_map_brec _ id f hid
  constructor
  · intro id r hr ho
    simp only [key, Option.map_eq_some_iff] at hr
    obtain ⟨r0, h0, rfl⟩ := hr
    exact hn.recDisk id r0 h0 (by rw [← hod]; exact ho)
  · intro id r hr ho
    simp only [key, Option.map_eq_some_iff] at hr
    obtain ⟨r0, h0, rfl⟩ := hr
    exact hn.recQueue id r0 h0 (by rw [← hod]; exact ho)
  · intro b hb; simp only [key, Option.isSome_map]; exact hn.queueRec b hb
  · intro id hid'; simp only [key, Option.isSome_map]; exact hn.idxRec id hid'
  · simp only [key, Option.isSome_map]; exact hn.tipRec
  · intro t ht; simp only [key, Option.isSome_map]; exact hn.treeRec t ht
  · intro t ht; simp only [key, Option.isSome_map]; exact hn.treePar t ht
  · intro b hb; simp only [key, Option.isSome_map]; exact hn.memParent b hb
  · intro id hid'; simp only [key, Option.isSome_map]; exact hn.ghost id hid'
  · exact hn.queueOK

theorem InvQ.setTrustedRec (h : InvQ c s) (id : BlockId) : InvQ c { s with n := setRecTrusted s.n id } := by
  refine ⟨h.hist, h.pref, ?_, ⟨h.snap.savingOK, h.snap.cleanOK⟩, h.qeq⟩
  exact h.node.mapRecs _ (by intro x; split <;> rfl) (by intro x; split <;> rfl)

/-- a panic of the running process changes nothing the invariant talks about -/
theorem InvQ.fail (h : InvQ c s) (m : String) : InvQ c (s.fail m) := by
  unfold St.fail
  split
  · exact h
  · exact ⟨h.hist, h.pref, h.node, h.snap, h.qeq⟩

/-- the ghost flag is not mentioned by the invariant -/
theorem InvQ.setForeign (h : InvQ c s) (f : Bool) : InvQ c { s with foreign := f } :=
  ⟨h.hist, h.pref, h.node, h.snap, h.qeq⟩

theorem InvQ.ghostSet (h : InvQ c s) (T' : List BlockId)
    (hT : ∀ id ∈ T', id = 0 ∨ (rf[s.n, id]).isSome) : InvQ { c with T := T' } s :=
  ⟨h.hist, h.pref, { h.node with ghost := hT }, h.snap, h.qeq⟩

theorem InvQ.weakenX (h : InvQ c s) (X' : BlockId → Prop) (hX : ∀ i, c.X i → X' i) : InvQ { c with X := X' } s :=
  ⟨h.hist, h.pref, { h.node with treeRec := fun t ht => (h.node.treeRec t ht).imp (hX _) id }, h.snap, h.qeq⟩

/-! ### the snapshot writer's primitive steps -/

theorem hasTmp_create (d : Disk) (sn : Snap) : hasTmp (apply d (.createTmp sn)) sn :=
  ⟨{ tip := sn.tip, snap := sn, chunks := 0, flushed := false }, by simp [apply], rfl⟩

/-- os.Create(<hash>.db.tmp) for a good snapshot while no other writer is paused -/
theorem InvQ.emit_createTmp (h : InvQ c s) (sn : Snap) (p : Pt) (hs : s.n.saving = none) (ok : GoodSnap c.P s.d sn) :
    InvQ c (s.emit (.createTmp sn) p) := by
  obtain ⟨h1, h2⟩ := emit_hist h (.createTmp sn) p ok
  refine ⟨h1, h2, ?_, ?_, h.qeq⟩
  · exact h.node
  · refine ⟨?_, ?_⟩
    · intro sn' k hk; rw [emit_n, hs] at hk; cases hk
    · intro hd; exact h.snap.cleanOK hd

/-- the writer pauses after its first chunk holding exactly the node's current state -/
theorem InvQ.setSaving (h : InvQ c s) (sn : Snap) (k : Nat) (ht : hasTmp s.d sn)
    (hsn : sn = ⟨s.n.tip, s.n.lastHeight, s.n.utxo⟩) :
    InvQ c { s with n := { s.n with saving := some (sn, k) } } := by
  refine ⟨h.hist, h.pref, ⟨h.node.recDisk, h.node.recQueue, h.node.queueRec, h.node.idxRec, h.node.tipRec, h.node.treeRec,
    h.node.treePar, h.node.memParent, h.node.ghost, h.node.queueOK⟩, ?_, h.qeq⟩
  refine ⟨?_, h.snap.cleanOK⟩
  intro sn' k' hk
  simp only [Option.some.injEq, Prod.mk.injEq] at hk
  obtain ⟨rfl, _⟩ := hk
  exact ⟨hsn, ht⟩

/-- abort: os.Remove(<hash>.db.tmp) and the writer is gone -/
theorem InvQ.emit_removeTmp_clear (h : InvQ c s) (t : BlockId) (p : Pt) :
    InvQ c { (s.emit (.removeTmp t) p) with n := { s.n with saving := none } } := by
  obtain ⟨h1, h2⟩ := emit_hist h (.removeTmp t) p trivial
  refine ⟨h1, h2, ⟨h.node.recDisk, h.node.recQueue, h.node.queueRec, h.node.idxRec, h.node.tipRec, h.node.treeRec,
    h.node.treePar, h.node.memParent, h.node.ghost, h.node.queueOK⟩, ?_, h.qeq⟩
  refine ⟨?_, ?_⟩
  · intro sn k hk; cases hk
  · intro hd; exact h.snap.cleanOK hd

/-- the final rename <hash>.db.tmp → UTXO.db of a snapshot holding the node's current state -/
theorem InvQ.emit_renameTmpDb_finish (h : InvQ c s) (sn : Snap) (p : Pt) (ht : hasTmp s.d sn)
    (hsn : sn = ⟨s.n.tip, s.n.lastHeight, s.n.utxo⟩) :
    InvQ c { (s.emit (.renameTmpDb sn.tip) p) with n := { s.n with dirty := false, heightOnDisk := sn.height, saving := none } } := by
  obtain ⟨h1, h2⟩ := emit_hist h (.renameTmpDb sn.tip) p trivial
  have hi : ids (apply s.d (.renameTmpDb sn.tip)) = ids s.d := ids_apply _ _ (by intro r hr; cases hr)
  refine ⟨h1, h2, ?_, ?_, h.qeq⟩
  · show NodeInv _ (ids (apply s.d (.renameTmpDb sn.tip))) _ _ _
    rw [hi]
    exact ⟨h.node.recDisk, h.node.recQueue, h.node.queueRec, h.node.idxRec, h.node.tipRec, h.node.treeRec,
      h.node.treePar, h.node.memParent, h.node.ghost, h.node.queueOK⟩
  · refine ⟨?_, ?_⟩
    · intro sn' k hk; cases hk
    · intro _
      left
      obtain ⟨x, hx, hxs⟩ := ht
      show loadSnap (apply s.d (.renameTmpDb sn.tip)) = some ⟨s.n.tip, s.n.lastHeight, s.n.utxo⟩
      simp only [apply, hx, loadSnap]
      rw [hxs, hsn]

/-- the unspent set changes (commit / undo): no writer is paused, the set becomes dirty -/
theorem InvQ.setUtxoDirty (h : InvQ c s) (hs : s.n.saving = none) (u : List Coin) (l : Nat) :
    InvQ c { s with n := { s.n with utxo := u, lastHeight := l, dirty := true } } := by
  refine ⟨h.hist, h.pref, ⟨h.node.recDisk, h.node.recQueue, h.node.queueRec, h.node.idxRec, h.node.tipRec, h.node.treeRec,
    h.node.treePar, h.node.memParent, h.node.ghost, h.node.queueOK⟩, ?_, h.qeq⟩
  refine ⟨?_, ?_⟩
  · intro sn k hk; rw [show ({ s.n with utxo := u, lastHeight := l, dirty := true } : Node).saving = s.n.saving from rfl, hs] at hk; cases hk
  · intro hd; cases hd

/-- the tip moves to a block that has a record, while the set is dirty and no writer is paused -/
theorem InvQ.setTip (h : InvQ c s) (hs : s.n.saving = none) (hd : s.n.dirty = true) (t : BlockId) (th : Nat)
    (ht : t = 0 ∨ (rf[s.n, t]).isSome) :
    InvQ c { s with n := { s.n with tip := t, tipHeight := th } } := by
  refine ⟨h.hist, h.pref, ⟨h.node.recDisk, h.node.recQueue, h.node.queueRec, h.node.idxRec, ht, h.node.treeRec,
    h.node.treePar, h.node.memParent, h.node.ghost, h.node.queueOK⟩, ?_, h.qeq⟩
  refine ⟨?_, ?_⟩
  · intro sn k hk; rw [show ({ s.n with tip := t, tipHeight := th } : Node).saving = s.n.saving from rfl, hs] at hk; cases hk
  · intro hd'; rw [show ({ s.n with tip := t, tipHeight := th } : Node).dirty = s.n.dirty from rfl, hd] at hd'; cases hd'

end GocoinV.Proofs.C07
