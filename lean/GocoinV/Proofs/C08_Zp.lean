/-
  Proofs.C08_Zp — the generated limb functions seen in the field `ZMod P`:
  `Fe.z a` is the residue of the value of a limb vector; `FeS a m v` says "magnitude ≤ m and residue v".
  One rule per limb function (from the value theorems of C08_Field / C08_Mul / C08_Sqr), so that group
  formulas can be followed symbolically with the magnitude contract checked at every step.
-/
import GocoinV.Proofs.C08_Sqr
import GocoinV.Proofs.C08_Primes
import Mathlib.Data.ZMod.Basic
import Mathlib.FieldTheory.Finite.Basic
import Mathlib.Tactic.Ring
import Mathlib.Tactic.FieldSimp
import Mathlib.Tactic.LinearCombination

namespace GocoinV.C08
open GocoinV.Gen.Field5x52

instance instFactP : Fact (Nat.Prime P) := ⟨by rw [P_eq]; exact secp_p_prime⟩

/-- the field F_p -/
abbrev F := ZMod P

/-- residue of the value of a limb vector -/
def _root_.GocoinV.Gen.Field5x52.Fe.z (a : Fe) : F := (a.val : F)

/-- fully normalised: canonical limbs and value < p -/
def _root_.GocoinV.Gen.Field5x52.Fe.normd (a : Fe) : Prop := a.canon ∧ a.val < P

/-- magnitude ≤ m and residue v -/
def FeS (a : Fe) (m : Nat) (v : F) : Prop := a.mag m ∧ a.z = v

theorem mag_mono {a : Fe} {m m' : Nat} (h : a.mag m) (hm : m ≤ m') : a.mag m' := by
  unfold Fe.mag at *
  obtain ⟨h0, h1, h2, h3, h4⟩ := h
  have e1 : 2 * m * (2 ^ 52 - 1) ≤ 2 * m' * (2 ^ 52 - 1) := Nat.mul_le_mul_right _ (Nat.mul_le_mul_left _ hm)
  have e2 : 2 * m * (2 ^ 48 - 1) ≤ 2 * m' * (2 ^ 48 - 1) := Nat.mul_le_mul_right _ (Nat.mul_le_mul_left _ hm)
  exact ⟨Nat.le_trans h0 e1, Nat.le_trans h1 e1, Nat.le_trans h2 e1, Nat.le_trans h3 e1, Nat.le_trans h4 e2⟩

theorem canon_mag1 {a : Fe} (h : a.canon) : a.mag 1 := by
  unfold Fe.canon at h; unfold Fe.mag; omega

theorem FeS.mono {a : Fe} {m m' : Nat} {v : F} (h : FeS a m v) (hm : m ≤ m') : FeS a m' v :=
  ⟨mag_mono h.1 hm, h.2⟩

theorem FeS.self {a : Fe} {m : Nat} (h : a.mag m) : FeS a m a.z := ⟨h, rfl⟩

theorem z_of_mod {a : Fe} {n : Nat} (h : a.val % P = n % P) : a.z = (n : F) :=
  (ZMod.natCast_eq_natCast_iff' _ _ _).2 h

theorem FeS.mul {a b : Fe} {m1 m2 : Nat} {v1 v2 : F} (ha : FeS a m1 v1) (hb : FeS b m2 v2)
    (h1 : m1 ≤ 8) (h2 : m2 ≤ 8) : FeS (mul a b) 1 (v1 * v2) := by
  obtain ⟨hv, hm⟩ := mul_val a b (mag_mono ha.1 h1) (mag_mono hb.1 h2)
  refine ⟨hm, ?_⟩
  rw [z_of_mod hv, Nat.cast_mul, ← ha.2, ← hb.2]; rfl

theorem FeS.sqr {a : Fe} {m1 : Nat} {v1 : F} (ha : FeS a m1 v1) (h1 : m1 ≤ 8) : FeS (sqr a) 1 (v1 * v1) := by
  obtain ⟨hv, hm⟩ := sqr_val a (mag_mono ha.1 h1)
  refine ⟨hm, ?_⟩
  rw [z_of_mod hv, Nat.cast_mul, ← ha.2]; rfl

theorem FeS.add {a b : Fe} {m1 m2 : Nat} {v1 v2 : F} (ha : FeS a m1 v1) (hb : FeS b m2 v2)
    (h : m1 + m2 ≤ 32) : FeS (setAdd a b) (m1 + m2) (v1 + v2) := by
  obtain ⟨hv, hm⟩ := setAdd_val a b m1 m2 ha.1 hb.1 h
  refine ⟨hm, ?_⟩
  unfold Fe.z; rw [hv, Nat.cast_add, ← ha.2, ← hb.2]; rfl

theorem FeS.mulInt {a : Fe} {m : Nat} {v : F} (ha : FeS a m v) (k : Nat) (h : m * k ≤ 32) :
    FeS (mulInt a k) (m * k) (v * (k : F)) := by
  obtain ⟨hv, hm⟩ := mulInt_val a m k ha.1 h
  refine ⟨hm, ?_⟩
  unfold Fe.z; rw [hv, Nat.cast_mul, ← ha.2]; rfl

theorem FeS.neg {a : Fe} {m : Nat} {v : F} (ha : FeS a m v) (m' : Nat) (h1 : m ≤ m') (h2 : m' ≤ 31) :
    FeS (negate a m') (m' + 1) (-v) := by
  obtain ⟨hv, hm⟩ := negate_val a m' (mag_mono ha.1 h1) h2
  refine ⟨hm, ?_⟩
  have h := congrArg (fun n : Nat => (n : F)) hv
  simp only [Nat.cast_add, Nat.cast_mul, ZMod.natCast_self, mul_zero] at h
  rw [← ha.2]
  exact eq_neg_of_add_eq_zero_left h

theorem normalize_normd {a : Fe} (h : a.mag 32) : (normalize a).normd := by
  obtain ⟨hv, hc⟩ := normalize_val a h
  exact ⟨hc, by rw [hv]; exact Nat.mod_lt _ (by rw [P_eq]; decide)⟩

theorem FeS.norm {a : Fe} {m : Nat} {v : F} (ha : FeS a m v) (h : m ≤ 32) :
    FeS (normalize a) 1 v ∧ (normalize a).normd := by
  have hm := mag_mono ha.1 h
  obtain ⟨hv, hc⟩ := normalize_val a hm
  refine ⟨⟨canon_mag1 hc, ?_⟩, normalize_normd hm⟩
  rw [← ha.2]; unfold Fe.z; rw [hv, ZMod.natCast_mod]

theorem FeS.ofInt (k : Nat) (h : k ≤ 9007199254740990) : FeS (GocoinV.Gen.Field5x52.setInt k) 1 (k : F) := by
  refine ⟨?_, ?_⟩
  · unfold GocoinV.Gen.Field5x52.setInt Fe.mag; simp only []; omega
  · unfold Fe.z GocoinV.Gen.Field5x52.setInt Fe.val; simp

theorem normd_z_inj {a b : Fe} (ha : a.normd) (hb : b.normd) (h : a.z = b.z) : a = b := by
  have h' := (ZMod.natCast_eq_natCast_iff' _ _ _).1 h
  rw [Nat.mod_eq_of_lt ha.2, Nat.mod_eq_of_lt hb.2] at h'
  exact canon_val_inj a b ha.1 hb.1 h'

/-- `Equals` on two fully normalised elements decides equality in F_p -/
theorem equals_normd {a b : Fe} (ha : a.normd) (hb : b.normd) : equals a b = true ↔ a.z = b.z := by
  rw [equals_iff']
  exact ⟨fun h => by rw [h], normd_z_inj ha hb⟩

/-- `IsZero` on a fully normalised element decides `= 0` in F_p -/
theorem isZero_normd {a : Fe} (ha : a.normd) : isZero a = true ↔ a.z = 0 := by
  rw [isZero_iff']
  constructor
  · intro h; unfold Fe.z; rw [h]; simp
  · intro h
    have h' := (ZMod.natCast_eq_zero_iff _ _).1 h
    exact Nat.eq_zero_of_dvd_of_lt h' ha.2

theorem val_of_normd {a : Fe} (ha : a.normd) : a.z.val = a.val := by
  unfold Fe.z; rw [ZMod.val_natCast, Nat.mod_eq_of_lt ha.2]

end GocoinV.C08
