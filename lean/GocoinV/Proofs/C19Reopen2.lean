/-
  Proofs.C19Reopen2 — the state NewDBExt produces on a directory whose log is well-formed, and that this state
  satisfies the invariants again (so histories may contain any number of reopens).
-/
import GocoinV.Proofs.C19Run2
namespace GocoinV.Proofs.C19
open GocoinV GocoinV.Qdb GocoinV.QdbSpec

variable {eg : Bool}

/-- everything memput / memdel leave alone -/
def other (d : DB) :=
  (d.fs, d.pending, d.datOpen, d.logOpen, d.volatile, d.opts, d.datIdx, d.verSeq, d.dataSeq, d.failed, d.noSync)

theorem other_memput (db : DB) (k : Key) (r : Rec) : other (memput db k r) = other db := by
  obtain ⟨e, n, m, h⟩ := memput_same db k r
  rw [h]; rfl

theorem other_memdel (db : DB) (k : Key) : other (memdel db k) = other db := by
  obtain ⟨e, n, h⟩ := memdel_same db k
  rw [h]; rfl

theorem maxSeq_memput (db : DB) (k : Key) (r : Rec) :
    db.maxSeq ≤ (memput db k r).maxSeq ∧ r.seq ≤ (memput db k r).maxSeq := by
  unfold memput
  cases ilookup k db.index <;> dsimp only <;> (repeat' split) <;> (dsimp only at *; omega)

theorem maxSeq_memdel (db : DB) (k : Key) : (memdel db k).maxSeq = db.maxSeq := by
  obtain ⟨e, n, h⟩ := memdel_same db k
  rw [h]

theorem memputAll_other (recs : List (Key × Rec)) (db : DB) :
    other (memputAll db recs) = other db ∧ db.maxSeq ≤ (memputAll db recs).maxSeq ∧
    ∀ kr ∈ recs, kr.2.seq ≤ (memputAll db recs).maxSeq := by
  unfold memputAll
  induction recs generalizing db with
  | nil => exact ⟨rfl, Nat.le_refl _, by intro kr h; cases h⟩
  | cons x t ih =>
    simp only [List.foldl_cons]
    obtain ⟨a, b, c⟩ := ih (memput db x.1 x.2)
    obtain ⟨m1, m2⟩ := maxSeq_memput db x.1 x.2
    refine ⟨a.trans (other_memput db x.1 x.2), Nat.le_trans m1 b, ?_⟩
    intro kr hkr
    rcases List.mem_cons.mp hkr with h | h
    · rw [h]; exact Nat.le_trans m2 b
    · exact c kr h

theorem applyLog_other (es : List LogEntry) (db : DB) :
    other (applyLog db es) = other db ∧ db.maxSeq ≤ (applyLog db es).maxSeq ∧
    ∀ k r, LogEntry.put k r ∈ es → r.seq ≤ (applyLog db es).maxSeq := by
  unfold applyLog
  induction es generalizing db with
  | nil => exact ⟨rfl, Nat.le_refl _, by intro k r h; cases h⟩
  | cons e t ih =>
    simp only [List.foldl_cons]
    obtain ⟨a, b, c⟩ := ih (applyEntry db e)
    cases e with
    | put k0 r0 =>
      obtain ⟨m1, m2⟩ := maxSeq_memput db k0 r0
      refine ⟨a.trans (other_memput db k0 r0), Nat.le_trans m1 b, ?_⟩
      intro k r h
      rcases List.mem_cons.mp h with h | h
      · cases h; exact Nat.le_trans m2 b
      · exact c k r h
    | del k0 =>
      have hm : (applyEntry db (.del k0)).maxSeq = db.maxSeq := maxSeq_memdel db k0
      refine ⟨a.trans (other_memdel db k0), by rw [← hm]; exact b, ?_⟩
      intro k r h
      rcases List.mem_cons.mp h with h | h
      · cases h
      · exact c k r h

/-- what `NewDBidx` leaves, for a directory whose log (if any) carries the snapshot's sequence number -/
structure OpenState (F : FS) (vol : Bool) (X : DB) : Prop where
  index : X.index = diskIndex F
  failed : X.failed = none
  pending : X.pending = []
  datOpen : X.datOpen = false
  volatile : X.volatile = vol
  verSeq : X.verSeq = snapVer F
  log : X.fs.log = F.log
  logOpen : X.logOpen = true ↔ F.log ≠ none
  pick : pickIdx X.fs = pickIdx F
  free : checkIdxFile (idxFile X.fs (1 - X.datIdx)) = none
  otherSlot : checkIdxFile (otherIdx X.fs (1 - X.datIdx)) = none ∨
    ∃ Xo, checkIdxFile (otherIdx X.fs (1 - X.datIdx)) = some (X.verSeq, Xo)
  maxSeq : ∀ kr ∈ diskIndex F, kr.2.seq ≤ X.maxSeq
  dats : ∀ kr ∈ diskIndex F, dlookup kr.2.seq X.fs.dats = dlookup kr.2.seq F.dats

theorem pickIdx_cases (F : FS) (i sv : Nat) (d : Bytes) (h : pickIdx F = some (i, sv, d)) :
    (i = 0 ∧ checkIdxFile F.idx0 = some (sv, d)) ∨ (i = 1 ∧ checkIdxFile F.idx1 = some (sv, d)) := by
  unfold pickIdx at h
  cases h0 : checkIdxFile F.idx0 with
  | none =>
    cases h1 : checkIdxFile F.idx1 with
    | none => rw [h0, h1] at h; cases h
    | some c1 => rw [h0, h1] at h; simp only [Option.some.injEq] at h; cases h; exact Or.inr ⟨rfl, rfl⟩
  | some c0 =>
    cases h1 : checkIdxFile F.idx1 with
    | none => rw [h0, h1] at h; simp only [Option.some.injEq] at h; cases h; exact Or.inl ⟨rfl, rfl⟩
    | some c1 =>
      rw [h0, h1] at h
      simp only at h
      split at h
      · simp only [Option.some.injEq] at h; cases h; exact Or.inl ⟨rfl, rfl⟩
      · simp only [Option.some.injEq] at h; cases h; exact Or.inr ⟨rfl, rfl⟩

theorem pickIdx_none (F : FS) (h : pickIdx F = none) : checkIdxFile F.idx0 = none ∧ checkIdxFile F.idx1 = none := by
  unfold pickIdx at h
  cases h0 : checkIdxFile F.idx0 with
  | none =>
    cases h1 : checkIdxFile F.idx1 with
    | none => exact ⟨rfl, rfl⟩
    | some c1 => rw [h0, h1] at h; cases h
  | some c0 =>
    cases h1 : checkIdxFile F.idx1 with
    | none => rw [h0, h1] at h; cases h
    | some c1 => rw [h0, h1] at h; simp only at h; split at h <;> cases h

theorem checkIdxFile_data (f : Option Bytes) (sv : Nat) (d : Bytes) (h : checkIdxFile f = some (sv, d)) : f = some d := by
  unfold checkIdxFile at h
  cases f with
  | none => cases h
  | some x =>
    simp only at h
    repeat' split at h
    all_goals (try (cases h))
    all_goals rfl

/-- what loaddat leaves -/
structure DatState (F : FS) (vol : Bool) (a : DB) (used : List Nat) : Prop where
  index : a.index = snapBase F
  failed : a.failed = none
  pending : a.pending = []
  datOpen : a.datOpen = false
  logOpen : a.logOpen = false
  volatile : a.volatile = vol
  verSeq : a.verSeq = snapVer F
  log : a.fs.log = F.log
  dats : a.fs.dats = F.dats
  pick : pickIdx a.fs = pickIdx F
  free : checkIdxFile (idxFile a.fs (1 - a.datIdx)) = none
  otherSlot : checkIdxFile (otherIdx a.fs (1 - a.datIdx)) = none ∨
    ∃ Xo, checkIdxFile (otherIdx a.fs (1 - a.datIdx)) = some (a.verSeq, Xo)
  maxSeq : ∀ kr ∈ snapBase F, kr.2.seq ≤ a.maxSeq
  used : ∀ kr ∈ snapBase F, kr.2.seq ∈ used

theorem loaddat_state (F : FS) (vol : Bool) (opts : Opts) :
    DatState F vol (loaddat { fs := F, volatile := vol, opts := opts, eager := eg }).1
      (loaddat { fs := F, volatile := vol, opts := opts, eager := eg }).2 := by
  unfold loaddat
  cases hp : pickIdx F with
  | none =>
    obtain ⟨p0, p1⟩ := pickIdx_none F hp
    simp only [show ({ fs := F, volatile := vol, opts := opts, eager := eg } : DB).fs = F from rfl, hp]
    have hsb : snapBase F = [] := by unfold snapBase; rw [hp]
    have hsv : snapVer F = 0 := by unfold snapVer; rw [hp]
    refine ⟨hsb.symm, rfl, rfl, rfl, rfl, rfl, hsv.symm, rfl, rfl, rfl, ?_, ?_, ?_, ?_⟩
    · show checkIdxFile (idxFile F 1) = none
      exact p1
    · show checkIdxFile (otherIdx F 1) = none ∨ _
      exact Or.inl p0
    · rw [hsb]; intro kr h; cases h
    · rw [hsb]; intro kr h; cases h
  | some t =>
    obtain ⟨i, sv, d⟩ := t
    simp only [show ({ fs := F, volatile := vol, opts := opts, eager := eg } : DB).fs = F from rfl, hp]
    let dbE : DB := { emit ({ fs := F, volatile := vol, opts := opts, eager := eg } : DB) "qdb.loadneweridx:removed" (.removeIdx (1 - i)) with
      datIdx := i, verSeq := sv }
    obtain ⟨hoth, _, hmx⟩ := memputAll_other (snapshotRecs d) dbE
    obtain ⟨hidx, _⟩ := memputAll_isetAll (snapshotRecs d) dbE
    unfold other at hoth
    simp only [Prod.mk.injEq] at hoth
    obtain ⟨o_fs, o_pe, o_do, o_lo, o_vol, _, o_di, o_vs, _, o_f, _⟩ := hoth
    have hsb : snapBase F = isetAll [] (snapshotRecs d) := by unfold snapBase; rw [hp]
    have hsv : snapVer F = sv := by unfold snapVer; rw [hp]
    have hEfs : dbE.fs = F.apply (.removeIdx (1 - i)) := rfl
    -- the picked slot stays, the other one is removed
    have hslots : pickIdx (F.apply (.removeIdx (1 - i))) = some (i, sv, d) ∧
        checkIdxFile (idxFile (F.apply (.removeIdx (1 - i))) (1 - i)) = none ∧
        checkIdxFile (otherIdx (F.apply (.removeIdx (1 - i))) (1 - i)) = some (sv, d) ∧
        (F.apply (.removeIdx (1 - i))).log = F.log ∧ (F.apply (.removeIdx (1 - i))).dats = F.dats := by
      rcases pickIdx_cases F i sv d hp with ⟨rfl, hc⟩ | ⟨rfl, hc⟩
      · have hf : F.apply (.removeIdx (1 - 0)) = { F with idx1 := none } := by unfold FS.apply; simp
        rw [hf]
        refine ⟨?_, ?_, ?_, rfl, rfl⟩
        · unfold pickIdx; simp only [hc]; rfl
        · unfold idxFile; simp; rfl
        · unfold otherIdx; simp; exact hc
      · have hf : F.apply (.removeIdx (1 - 1)) = { F with idx0 := none } := by unfold FS.apply; simp
        rw [hf]
        refine ⟨?_, ?_, ?_, rfl, rfl⟩
        · unfold pickIdx; simp only [hc]; rfl
        · unfold idxFile; simp; rfl
        · unfold otherIdx; simp; exact hc
    obtain ⟨s1, s2, s3, s4, s5⟩ := hslots
    refine ⟨by rw [hidx, hsb]; rfl, o_f, o_pe, o_do, o_lo, o_vol, by rw [o_vs, hsv], by rw [o_fs, hEfs, s4],
      by rw [o_fs, hEfs, s5], by rw [o_fs, hEfs, s1, hp], by rw [o_fs, o_di, hEfs]; exact s2, ?_, ?_, ?_⟩
    · rw [o_fs, o_di, o_vs, hEfs]
      exact Or.inr ⟨d, s3⟩
    · intro kr hkr
      rw [hsb] at hkr
      rcases mem_isetAll _ _ kr hkr with h | h
      · cases h
      · exact hmx kr h
    · intro kr hkr
      rw [hsb] at hkr
      rcases mem_isetAll _ _ kr hkr with h | h
      · cases h
      · exact List.mem_map.mpr ⟨kr, h, rfl⟩

theorem open_state (F : FS) (vol : Bool) (opts : Opts) (E : List LogEntry) (hE : ∀ e ∈ E, EntryFits e)
    (hlog : LogState F (snapVer F) E) (hsv : snapVer F < 2^32) :
    OpenState F vol (openIndex { fs := F, volatile := vol, opts := opts, eager := eg }) := by
  have A := loaddat_state (eg := eg) F vol opts
  have hD : diskIndex F = applyEntriesL (snapBase F) (E.map stripE) := by
    unfold diskIndex
    rw [logEntries_of_state F (snapVer F) E hlog rfl hsv hE]
  unfold openIndex
  dsimp only
  -- the state after loadlog
  have hB : ∃ b used, loadlog (loaddat { fs := F, volatile := vol, opts := opts, eager := eg }).1
        (loaddat { fs := F, volatile := vol, opts := opts, eager := eg }).2 = (b, used) ∧
      b.index = diskIndex F ∧ b.failed = none ∧ b.pending = [] ∧ b.datOpen = false ∧ b.volatile = vol ∧
      b.verSeq = snapVer F ∧ b.fs = (loaddat { fs := F, volatile := vol, opts := opts, eager := eg }).1.fs ∧
      (b.logOpen = true ↔ F.log ≠ none) ∧
      b.datIdx = (loaddat { fs := F, volatile := vol, opts := opts, eager := eg }).1.datIdx ∧
      (∀ kr ∈ diskIndex F, kr.2.seq ≤ b.maxSeq) ∧ (∀ kr ∈ diskIndex F, kr.2.seq ∈ used) := by
    unfold loadlog
    rw [A.log]
    rcases hlog with ⟨h1, h2⟩ | h1
    · -- no log
      rw [h1]
      subst h2
      simp only [List.map_nil, applyEntriesL, List.foldl_nil] at hD
      refine ⟨_, _, rfl, by rw [hD]; exact A.index, A.failed, A.pending, A.datOpen, A.volatile, A.verSeq, rfl,
        by rw [A.logOpen]; simp, rfl, by rw [hD]; exact A.maxSeq, by rw [hD]; exact A.used⟩
    · rw [h1, A.verSeq]
      simp only [logBody_ok _ hsv]
      have hparse : parseLog (encLog E).length (encLog E) = E.map stripE :=
        parseLog_encLog E hE _ (encLog_length_ge E)
      rw [hparse]
      obtain ⟨hoth, hm1, hm2⟩ := applyLog_other (E.map stripE) (loaddat { fs := F, volatile := vol, opts := opts, eager := eg }).1
      unfold other at hoth
      simp only [Prod.mk.injEq] at hoth
      obtain ⟨o_fs, o_pe, o_do, _, o_vol, _, o_di, o_vs, _, o_f, _⟩ := hoth
      refine ⟨_, _, rfl, ?_, o_f.trans A.failed, o_pe.trans A.pending, o_do.trans A.datOpen, o_vol.trans A.volatile,
        o_vs.trans A.verSeq, o_fs, by simp, o_di, ?_, ?_⟩
      · show (applyLog _ _).index = _
        rw [applyLog_index, A.index, hD]
      · intro kr hkr
        rw [hD] at hkr
        show kr.2.seq ≤ (applyLog _ _).maxSeq
        rcases mem_applyEntriesL _ _ kr hkr with h | h
        · exact Nat.le_trans (A.maxSeq kr h) hm1
        · exact hm2 kr.1 kr.2 h
      · intro kr hkr
        rw [hD] at hkr
        rcases mem_applyEntriesL _ _ kr hkr with h | h
        · exact List.mem_append.mpr (Or.inl (A.used kr h))
        · exact List.mem_append.mpr (Or.inr (logSeqs_mem _ _ _ h))
  obtain ⟨b, used, hb, b_ix, b_f, b_pe, b_do, b_vol, b_vs, b_fs, b_lo, b_di, b_mx, b_used⟩ := hB
  rw [hb]
  dsimp only
  -- cleanupold
  have hfr := frame_cleanupold b used
  have hbook := book_cleanupold b used
  unfold book at hbook
  simp only [Prod.mk.injEq] at hbook
  have hck := cleanupold_keeps b used b.dataSeq (Or.inl rfl)
  unfold cleanKeeps at hck
  simp only [Prod.mk.injEq] at hck
  obtain ⟨c0, c1, c2, _, _, _, _, cdi, cvs, cmx, _⟩ := hck
  have hidxf : ∀ j, idxFile (cleanupold b used).fs j = idxFile b.fs j := by intro j; unfold idxFile; rw [c0, c1]
  have hoth : ∀ j, otherIdx (cleanupold b used).fs j = otherIdx b.fs j := by intro j; unfold otherIdx; rw [c0, c1]
  constructor
  · exact hfr.index.trans b_ix
  · exact hfr.failed.trans b_f
  · exact hfr.pending.trans b_pe
  · exact hbook.1.trans b_do
  · exact hfr.volatile.trans b_vol
  · exact cvs.trans b_vs
  · rw [c2, b_fs]; exact A.log
  · rw [logOpen_cleanupold]; exact b_lo
  · have : pickIdx (cleanupold b used).fs = pickIdx b.fs := by unfold pickIdx; rw [c0, c1]
    rw [this, b_fs]; exact A.pick
  · rw [hidxf, cdi, b_di, b_fs]; exact A.free
  · rw [hoth, cdi, cvs, b_di, b_vs, b_fs, ← A.verSeq]; exact A.otherSlot
  · intro kr hkr; rw [cmx]; exact b_mx kr hkr
  · intro kr hkr
    have hk := cleanupold_keeps b used kr.2.seq (Or.inr (by simpa using b_used kr hkr))
    unfold cleanKeeps at hk
    simp only [Prod.mk.injEq] at hk
    rw [hk.2.2.2.1, b_fs, A.dats]

/-! ### whatever the files contain, parsed records have 64-bit keys and 32-bit flags -/

theorem leVal_take_lt (b : Bytes) (n : Nat) : leVal (b.take n) < 256 ^ n := by
  have h1 := leVal_lt (b.take n)
  have h2 : (b.take n).length ≤ n := by simp [List.length_take]; omega
  exact Nat.lt_of_lt_of_le h1 (Nat.pow_le_pow_right (by decide) h2)

theorem decRec_fits (b : Bytes) : (decRec b).1 < 2^64 ∧ (decRec b).2.flags < 2^32 := by
  unfold decRec
  exact ⟨by have := leVal_take_lt b 8; simpa using this, by have := leVal_take_lt (b.drop 20) 4; simpa using this⟩

theorem snapRecs_fits (n : Nat) (b : Bytes) : ∀ kr ∈ snapRecs n b, kr.1 < 2^64 ∧ kr.2.flags < 2^32 := by
  induction n generalizing b with
  | zero => intro kr h; cases h
  | succ m ih =>
    intro kr h
    simp only [snapRecs, List.mem_cons] at h
    rcases h with h | h
    · rw [h]; exact decRec_fits b
    · exact ih _ kr h

theorem parseLog_fits (fuel : Nat) (d : Bytes) :
    ∀ k r, LogEntry.put k r ∈ parseLog fuel d → k < 2^64 ∧ r.flags < 2^32 := by
  induction fuel generalizing d with
  | zero => intro k r h; cases h
  | succ n ih =>
    intro k r h
    unfold parseLog at h
    split at h
    · cases h
    · dsimp only at h
      split at h
      · split at h
        · cases h
        · simp only [List.mem_cons, LogEntry.put.injEq] at h
          rcases h with ⟨h1, h2⟩ | h
          · rw [h1, h2]
            exact ⟨by have := leVal_take_lt d 8; simpa using this, (decRec_fits d).2⟩
          · exact ih _ k r h
      · simp only [List.mem_cons] at h
        rcases h with h | h
        · cases h
        · exact ih _ k r h

theorem diskIndex_fits (F : FS) : ∀ kr ∈ diskIndex F, kr.1 < 2^64 ∧ kr.2.flags < 2^32 := by
  intro kr hkr
  unfold diskIndex at hkr
  rcases mem_applyEntriesL _ _ kr hkr with h | h
  · unfold snapBase at h
    split at h
    · cases h
    · rcases mem_isetAll _ _ kr h with h' | h'
      · cases h'
      · unfold snapshotRecs at h'
        exact snapRecs_fits _ _ kr h'
  · unfold logEntries at h
    split at h
    · cases h
    · split at h
      · cases h
      · exact parseLog_fits _ _ kr.1 kr.2 h

theorem diskIndex_congr2 (F1 F2 : FS) (hp : pickIdx F1 = pickIdx F2) (hl : F1.log = F2.log) :
    diskIndex F1 = diskIndex F2 ∧ snapVer F1 = snapVer F2 := by
  have hv : snapVer F1 = snapVer F2 := by unfold snapVer; rw [hp]
  refine ⟨?_, hv⟩
  unfold diskIndex snapBase logEntries
  rw [hp, hl, hv]

/-- `load(nil)` after `NewDBidx` on a readable directory reads every record (any mode) -/
theorem loadAll_of_openState (F : FS) (vol : Bool) (X : DB) (S : OpenState F vol X) (hR : DirReadable eg F)
    (he : X.eager = eg) :
    loadAll X = { X with index := mapV (loadedRec X.fs) (diskIndex F) } := by
  have hfold := loadFold_general (diskIndex F) X S.failed he (by
    intro kr hkr
    obtain ⟨h1, f, v, h3, h4⟩ := hR kr hkr
    exact ⟨h1, f, v, by rw [S.dats kr hkr]; exact h3, h4⟩) []
  unfold loadAll
  rw [S.index, hfold]
  simp only [S.failed, List.nil_append]

/-- the invariants follow from what `NewDBidx` leaves (`OpenState`) once the records are loaded; stated for any
    state `X` so that it also applies when `NewDBidx` discarded the log (then `F` is the directory without it) -/
theorem inv3_of_openState (F : FS) (X : DB) (S : OpenState F false X) (E : List LogEntry) (hE : ∀ e ∈ E, EntryFits e)
    (hlog : LogState F (snapVer F) E) (hsv : snapVer F < 2^32) (hR : DirReadable eg F)
    (hmax : X.maxSeq + 1 < 2^32) (he : X.eager = eg) :
    loadAll X = { X with index := mapV (loadedRec X.fs) (diskIndex F) } ∧
    Inv3 { X with index := mapV (loadedRec X.fs) (diskIndex F), dataSeq := u32 (X.maxSeq + 1) } := by
  have hfold := loadFold_general (diskIndex F) X S.failed he (by
    intro kr hkr
    obtain ⟨h1, f, v, h3, h4⟩ := hR kr hkr
    exact ⟨h1, f, v, by rw [S.dats kr hkr]; exact h3, h4⟩) []
  have hload : loadAll X = { X with index := mapV (loadedRec X.fs) (diskIndex F) } := by
    unfold loadAll
    rw [S.index, hfold]
    simp only [S.failed, List.nil_append]
  refine ⟨hload, ?_⟩
  have hds : u32 (X.maxSeq + 1) = X.maxSeq + 1 := Nat.mod_eq_of_lt hmax
  obtain ⟨hDX, hSV⟩ := diskIndex_congr2 X.fs F S.pick S.log
  -- records after loading
  have hloaded : ∀ kr ∈ diskIndex F, ∃ f, dlookup kr.2.seq X.fs.dats = some f ∧
      ReadsBack f kr.2 ((loadedRec X.fs kr.2).data.getD []) ∧ hasFlag kr.2.flags (ncOf eg) = false := by
    intro kr hkr
    obtain ⟨h1, f, v, h3, h4⟩ := hR kr hkr
    have hfX : dlookup kr.2.seq X.fs.dats = some f := by rw [S.dats kr hkr]; exact h3
    refine ⟨f, hfX, ?_, h1⟩
    unfold loadedRec
    simp only [Option.getD_some, hfX]
    exact ⟨h4.1, h4.2.1, rfl⟩
  have hkeysEq : Keys (mapV (loadedRec X.fs) (diskIndex F)) = Keys (diskIndex F) := by
    unfold Keys mapV; rw [List.map_map]; rfl
  refine ⟨?_, ?_⟩
  · constructor
    · refine ⟨S.failed, ?_⟩
      intro kr hkr
      obtain ⟨x, hx, rfl⟩ := List.mem_map.mp hkr
      refine ⟨rfl, ?_⟩
      show hasFlag x.2.flags (ncOf X.eager) = false
      rw [he]
      exact (hloaded x hx).choose_spec.2.2
    · exact S.volatile
    · intro kr hkr
      obtain ⟨x, hx, rfl⟩ := List.mem_map.mp hkr
      obtain ⟨f, hf, hrb, _⟩ := hloaded x hx
      obtain ⟨a, b⟩ := diskIndex_fits F x hx
      refine ⟨a, b, ?_⟩
      show x.2.len = ((loadedRec X.fs x.2).data.getD []).length
      rw [← hrb.2.2]
      simp only [List.length_take, List.length_drop]
      have := hrb.1
      omega
    · show (Keys (mapV (loadedRec X.fs) (diskIndex F))).Nodup
      rw [hkeysEq]; exact nodup_diskIndex F
    · show X.pending.Nodup; rw [S.pending]; exact List.nodup_nil
    · intro k hk
      have : k ∈ X.pending := hk
      rw [S.pending] at this; cases this
    · show snapVer X.fs = X.verSeq; rw [hSV, S.verSeq]
    · show X.verSeq < 2^32; rw [S.verSeq]; exact hsv
    · show u32 (X.maxSeq + 1) < 2^32; exact u32_lt _
    · refine ⟨E, hE, ?_⟩
      show LogState X.fs X.verSeq E
      unfold LogState at hlog ⊢
      rw [S.log, S.verSeq]; exact hlog
    · intro h
      show X.fs.log = none
      rw [S.log]
      by_cases hn : F.log = none
      · exact hn
      · have : X.logOpen = true := S.logOpen.mpr hn
        have h' : X.logOpen = false := h
        rw [this] at h'; cases h'
    · intro h
      show X.fs.log ≠ none
      rw [S.log]; exact S.logOpen.mp h
    · intro k _
      show (ilookup k (diskIndex X.fs)).map core = (ilookup k (mapV (loadedRec X.fs) (diskIndex F))).map core
      rw [hDX, ilookup_mapV, Option.map_map]
      rfl
    · intro k r _ hr
      have hr' : ilookup k (mapV (loadedRec X.fs) (diskIndex F)) = some r := hr
      rw [ilookup_mapV] at hr'
      cases hd : ilookup k (diskIndex F) with
      | none => rw [hd] at hr'; cases hr'
      | some rd =>
        rw [hd] at hr'
        simp only [Option.map_some, Option.some.injEq] at hr'
        obtain ⟨f, hf, hrb, _⟩ := hloaded (k, rd) (ilookup_key_pair k rd _ hd)
        refine ⟨f, by rw [← hr']; exact hf, ?_⟩
        rw [← hr']
        exact hrb
    · intro kr hkr
      have : kr ∈ diskIndex X.fs := hkr
      rw [hDX] at this
      show hasFlag kr.2.flags (ncOf X.eager) = false
      rw [he]
      exact (hR kr this).1
    · intro h
      have h' : X.datOpen = true := h
      rw [S.datOpen] at h'; cases h'
    · intro _ kr hkr
      have hk : kr ∈ diskIndex X.fs := hkr
      rw [hDX] at hk
      show kr.2.seq ≠ u32 (X.maxSeq + 1)
      have := S.maxSeq kr hk
      rw [hds]; omega
    · intro kr hkr
      have hk : kr ∈ diskIndex X.fs := hkr
      rw [hDX] at hk
      obtain ⟨f, hf, hrb, _⟩ := hloaded kr hk
      exact ⟨f, _, hf, hrb⟩
  · constructor
    · exact S.free
    · exact S.otherSlot
    · intro kr hkr
      have hk : kr ∈ diskIndex X.fs := hkr
      rw [hDX] at hk
      show kr.2.seq ≤ u32 (X.maxSeq + 1)
      have := S.maxSeq kr hk
      rw [hds]; omega

/-- NewDBExt (non-volatile, LoadData) on a readable directory with a well-formed log satisfies the invariants -/
theorem open_inv3 (F : FS) (opts : Opts) (E : List LogEntry) (hE : ∀ e ∈ E, EntryFits e)
    (hlog : LogState F (snapVer F) E) (hsv : snapVer F < 2^32) (hR : DirReadable eg F)
    (hmax : (openIndex { fs := F, volatile := false, opts := opts, eager := eg }).maxSeq + 1 < 2^32) :
    Inv3 (openDB F false true opts eg) := by
  have S := open_state (eg := eg) F false opts E hE hlog hsv
  obtain ⟨hload, h3⟩ := inv3_of_openState F _ S E hE hlog hsv hR hmax (openIndex_eager F false opts)
  have hopen : openDB F false true opts eg =
      { openIndex { fs := F, volatile := false, opts := opts, eager := eg } with
        index := mapV (loadedRec (openIndex { fs := F, volatile := false, opts := opts, eager := eg }).fs) (diskIndex F),
        dataSeq := u32 ((openIndex { fs := F, volatile := false, opts := opts, eager := eg }).maxSeq + 1) } := by
    unfold openDB
    simp only [↓reduceIte]
    rw [hload]
  rw [hopen]
  exact h3

end GocoinV.Proofs.C19
