/-
  Proofs.C15Addr — address level (Model/Addr.lean): string ↔ address ↔ script round trips and the
  Base58Check acceptance condition. Hash functions are parameters.
-/
import GocoinV.Model.Addr
import GocoinV.Proofs.C15SegwitInv
import GocoinV.Proofs.C15Base58
import GocoinV.Proofs.C15Fits
namespace GocoinV.Addr
open GocoinV Bech32

theorem bc1 : strBytes "bc1" = [98, 99, 49] := by decide +kernel
theorem tb1 : strBytes "tb1" = [116, 98, 49] := by decide +kernel
theorem bc : strBytes "bc" = [98, 99] := by decide +kernel
theorem tb : strBytes "tb" = [116, 98] := by decide +kernel

/-- "the string looks like a segwit address": the test at the top of NewAddrFromString -/
def segwitPrefix (hs : Bytes) : Prop :=
  (hs.take 3).map asciiLower = strBytes "bc1" ∨ (hs.take 3).map asciiLower = strBytes "tb1"

/-- Base58Check acceptance, stated outright -/
theorem b58check_accept_iff (H : Hashes) (hs : Bytes) (hlen : 4 ≤ hs.length) (hp : ¬ segwitPrefix hs) (a : Addr) :
    fromString H hs = .ok a ↔
      ∃ dec, Base58.decode hs = some dec ∧ dec.length = 25 ∧ (H.sha2sum (dec.take 21)).take 4 = dec.drop 21 ∧
        a = .b58 (dec.headD 0) ((dec.drop 1).take 20) (some hs) := by
  unfold fromString
  have h1 : ¬ hs.length < 4 := by omega
  unfold segwitPrefix at hp
  rw [if_neg h1]
  simp only
  rw [if_neg hp]
  cases hd : Base58.decode hs with
  | none =>
    simp only
    constructor
    · intro h; cases h
    · rintro ⟨dec, h, _⟩; cases h
  | some dec =>
    simp only
    by_cases h25 : dec.length < 25
    · rw [if_pos h25]
      constructor
      · intro h; cases h
      · rintro ⟨d', h, h', _⟩; cases h; omega
    · rw [if_neg h25]
      by_cases he : dec.length = 25
      · rw [if_pos he]
        by_cases hc : (H.sha2sum (dec.take 21)).take 4 ≠ dec.drop 21
        · rw [if_pos hc]
          constructor
          · intro h; cases h
          · rintro ⟨d', h, _, h', _⟩; cases h; exact absurd h' hc
        · rw [if_neg hc]
          have hc' : (H.sha2sum (dec.take 21)).take 4 = dec.drop 21 := by
            apply Classical.byContradiction; intro x; exact hc x
          constructor
          · intro h
            simp only [Except.ok.injEq] at h
            exact ⟨dec, rfl, he, hc', h.symm⟩
          · rintro ⟨d', h, _, _, h'⟩; cases h; rw [h']
      · rw [if_neg he]
        constructor
        · intro h; cases h
        · rintro ⟨d', h, h', _⟩; cases h; exact absurd h' he

theorem syms6 (P : UInt32) : ∃ a b c d e f, (checksumSyms P).map charsetAt = [a, b, c, d, e, f] := by
  rw [checksumSyms_eq]; exact ⟨_, _, _, _, _, _, rfl⟩

/-- segwit: String() then NewAddrFromString returns the same address -/
theorem fromString_toString_segwit (H : Hashes) (hrp prog s : Bytes) (v : Nat)
    (hh : hrp = strBytes "bc" ∨ hrp = strBytes "tb")
    (h : toString H (.segwit hrp v prog) = some s) : fromString H s = .ok (.segwit hrp v prog) := by
  simp only [toString] at h
  have hdec := segwit_decode_encode hrp prog s v h
  obtain ⟨_, _, _, _, d, _, he⟩ := segwitEncode_some h
  obtain ⟨_, _, _, _, _, hs⟩ := encode_some he
  obtain ⟨c1, c2, c3, c4, c5, c6, hc⟩ := syms6 (six _ ^^^ finalConstant (decide (v > 0)))
  rw [hc] at hs
  unfold fromString
  rcases hh with e | e
  · rw [bc] at e; subst e
    have hlen : ¬ s.length < 4 := by rw [hs]; simp
    have hpre : (s.take 3).map asciiLower = [98, 99, 49] := by rw [hs]; rfl
    rw [if_neg hlen]
    simp only [hpre, bc1, true_or, ↓reduceIte]
    have : List.take 2 [(98 : UInt8), 99, 49] = [98, 99] := rfl
    rw [this, hdec]
  · rw [tb] at e; subst e
    have hlen : ¬ s.length < 4 := by rw [hs]; simp
    have hpre : (s.take 3).map asciiLower = [116, 98, 49] := by rw [hs]; rfl
    rw [if_neg hlen]
    simp only [hpre, tb1, or_true, ↓reduceIte]
    have : List.take 2 [(116 : UInt8), 98, 49] = [116, 98] := rfl
    rw [this, hdec]

/- script → address → script ------------------------------------------------------------------------ -/

theorem dataFold_isSome (d : Bytes) (h : ∀ x ∈ d, x.toNat ≤ 31) : ∀ c, ∃ c', dataFold? d c = some c' := by
  induction d with
  | nil => intro c; exact ⟨c, rfl⟩
  | cons x t ih =>
    intro c
    have hx := shr5_of_le31 x (h x (by simp))
    unfold dataFold?
    simp only [hx, ne_eq, not_true_eq_false, ↓reduceIte]
    exact ih (fun y hy => h y (by simp [hy])) _

theorem hrpHigh_bc : (hrpHigh? [98, 99] 1).isSome = true := by decide +kernel
theorem hrpHigh_tb : (hrpHigh? [116, 98] 1).isSome = true := by decide +kernel

/-- `SegwitEncode` succeeds on every supported (version, program) for the two Bitcoin hrps -/
theorem segwitEncode_isSome (hrp prog : Bytes) (v : Nat) (hh : hrp = [98, 99] ∨ hrp = [116, 98])
    (hv : v ≤ 16) (hl2 : 2 ≤ prog.length) (hl40 : prog.length ≤ 40)
    (hv0 : v = 0 → prog.length = 20 ∨ prog.length = 32) : ∃ s, segwitEncode hrp v prog = some s := by
  obtain ⟨d, hd⟩ := convertBits_85_total prog
  obtain ⟨hlt, p, hp, hlen, _⟩ := convertBits_85_spec prog d hd
  have hhigh : ∃ c, hrpHigh? hrp 1 = some c ∧ hrp.length = 2 := by
    rcases hh with e | e <;> subst e
    · have := hrpHigh_bc; cases hx : hrpHigh? [98, 99] 1 with
      | none => rw [hx] at this; cases this
      | some c => exact ⟨c, rfl, rfl⟩
    · have := hrpHigh_tb; cases hx : hrpHigh? [116, 98] 1 with
      | none => rw [hx] at this; cases this
      | some c => exact ⟨c, rfl, rfl⟩
  obtain ⟨c, hc, hl⟩ := hhigh
  have hdat : ∀ x ∈ UInt8.ofNat v :: d, x.toNat ≤ 31 := by
    intro x hx
    rcases List.mem_cons.mp hx with rfl | hx
    · rw [UInt8.toNat_ofNat']; omega
    · have := hlt x hx; omega
  obtain ⟨c', hc'⟩ := dataFold_isSome _ hdat (hrpLow hrp (polymodStep c))
  unfold segwitEncode
  have c1 : ¬ v > 16 := by omega
  have c2 : ¬ (v = 0 ∧ prog.length ≠ 20 ∧ prog.length ≠ 32) := by
    intro hc; have := hv0 hc.1; omega
  have c3 : ¬ (prog.length < 2 ∨ prog.length > 40) := by omega
  rw [if_neg c1, if_neg c2, if_neg c3, hd]
  simp only
  unfold encode
  rw [hc]
  have c4 : ¬ (hrp.length + 7 + (UInt8.ofNat v :: d).length > 90) := by
    simp only [List.length_cons]; omega
  have c0 : ¬ (hrp.length < 1) := by omega
  simp only [Option.bind_eq_bind, Option.bind_some, c0, c4, ↓reduceIte, hc', Option.pure_def]
  exact ⟨_, rfl⟩

theorem ofNat_toNat_small (n : Nat) (h : n < 256) : (UInt8.ofNat n).toNat = n := by
  rw [UInt8.toNat_ofNat']; omega

/-- witness programs: OutScript then NewAddrFromPkScript returns the same (version, program) -/
theorem fromPkScript_outScript_segwit (H : Hashes) (hrp prog : Bytes) (v : Nat) (tn : Bool)
    (hv : v ≤ 16) (hl2 : 2 ≤ prog.length) (hl40 : prog.length ≤ 40)
    (hv0 : v = 0 → prog.length = 20 ∨ prog.length = 32) :
    ∃ scr, outScript (.segwit hrp v prog) = some scr ∧
      fromPkScript H scr tn = some (.segwit (if tn then strBytes "tb" else strBytes "bc") v prog) ∧
      outScript (.segwit (if tn then strBytes "tb" else strBytes "bc") v prog) = some scr := by
  have hlen8 : (UInt8.ofNat prog.length).toNat = prog.length := ofNat_toNat_small _ (by omega)
  have henc : ∃ s, segwitEncode (if tn then strBytes "tb" else strBytes "bc") v prog = some s := by
    apply segwitEncode_isSome _ _ _ _ hv hl2 hl40 hv0
    cases tn
    · left; simp [bc]
    · right; simp [tb]
  obtain ⟨s, hs⟩ := henc
  by_cases h0 : v = 0
  · subst h0
    refine ⟨0x00 :: UInt8.ofNat prog.length :: prog, by simp [outScript], ?_, by simp [outScript]⟩
    unfold fromPkScript
    have hw : isWitnessProgram (0x00 :: UInt8.ofNat prog.length :: prog) = some (0, prog) := by
      unfold isWitnessProgram
      have c1 : ¬ ((0x00 :: UInt8.ofNat prog.length :: prog).length < 4 ∨
          (0x00 :: UInt8.ofNat prog.length :: prog).length > 42) := by simp only [List.length_cons]; omega
      rw [if_neg c1]
      simp only [List.headD_cons, List.drop_succ_cons, List.drop_zero, List.length_cons, hlen8]
      simp
    rw [hw]
    simp only [List.isEmpty_cons, Bool.false_eq_true, ↓reduceIte, hs]
  · have hop : (UInt8.ofNat (v - 1 + 0x51)).toNat = v + 0x50 := by
      rw [ofNat_toNat_small _ (by omega)]; omega
    have hopne : UInt8.ofNat (v - 1 + 0x51) ≠ 0 := by
      intro e; have := congrArg UInt8.toNat e; rw [hop] at this; simp at this
    refine ⟨UInt8.ofNat (v - 1 + 0x51) :: UInt8.ofNat prog.length :: prog, by simp [outScript, h0, hv], ?_,
      by simp [outScript, h0, hv]⟩
    unfold fromPkScript
    have hw : isWitnessProgram (UInt8.ofNat (v - 1 + 0x51) :: UInt8.ofNat prog.length :: prog) = some (v, prog) := by
      unfold isWitnessProgram
      have c1 : ¬ ((UInt8.ofNat (v - 1 + 0x51) :: UInt8.ofNat prog.length :: prog).length < 4 ∨
          (UInt8.ofNat (v - 1 + 0x51) :: UInt8.ofNat prog.length :: prog).length > 42) := by
        simp only [List.length_cons]; omega
      rw [if_neg c1]
      simp only [List.headD_cons, List.drop_succ_cons, List.drop_zero, List.length_cons, hlen8, hop]
      have c2 : ¬ (UInt8.ofNat (v - 1 + 0x51) ≠ 0 ∧ (v + 0x50 < 0x51 ∨ v + 0x50 > 0x60)) := by
        intro hc; omega
      rw [if_neg c2]
      simp only [hopne, ↓reduceIte]
      have : v + 0x50 - 0x50 = v := by omega
      simp [this]
    rw [hw]
    simp only [List.isEmpty_cons, Bool.false_eq_true, ↓reduceIte, hs]

theorem len20 (l : Bytes) (h : l.length = 20) : ∃ a0 a1 a2 a3 a4 a5 a6 a7 a8 a9 b0 b1 b2 b3 b4 b5 b6 b7 b8 b9,
    l = [a0, a1, a2, a3, a4, a5, a6, a7, a8, a9, b0, b1, b2, b3, b4, b5, b6, b7, b8, b9] := by
  match l, h with
  | [a0, a1, a2, a3, a4, a5, a6, a7, a8, a9, b0, b1, b2, b3, b4, b5, b6, b7, b8, b9], _ =>
    exact ⟨a0, a1, a2, a3, a4, a5, a6, a7, a8, a9, b0, b1, b2, b3, b4, b5, b6, b7, b8, b9, rfl⟩

/-- P2PKH: OutScript then NewAddrFromPkScript gives an address with the same hash and the same script -/
theorem fromPkScript_outScript_p2pkh (H : Hashes) (ver : UInt8) (h : Bytes) (enc : Option Bytes) (tn : Bool)
    (hl : h.length = 20) (hver : ver = 0 ∨ ver = 111 ∨ ver = 48) :
    ∃ scr, outScript (.b58 ver h enc) = some scr ∧
      fromPkScript H scr tn = some (.b58 (if tn then 111 else 0) h none) ∧
      outScript (.b58 (if tn then 111 else 0) h none) = some scr := by
  obtain ⟨a0, a1, a2, a3, a4, a5, a6, a7, a8, a9, b0, b1, b2, b3, b4, b5, b6, b7, b8, b9, rfl⟩ := len20 h hl
  refine ⟨[0x76, 0xa9, 20] ++ [a0, a1, a2, a3, a4, a5, a6, a7, a8, a9, b0, b1, b2, b3, b4, b5, b6, b7, b8, b9] ++ [0x88, 0xac], ?_, ?_, ?_⟩
  · rcases hver with e | e | e <;> subst e <;> rfl
  · cases tn <;> rfl
  · cases tn <;> rfl

/-- P2SH: OutScript then NewAddrFromPkScript gives an address with the same hash and the same script -/
theorem fromPkScript_outScript_p2sh (H : Hashes) (ver : UInt8) (h : Bytes) (enc : Option Bytes) (tn : Bool)
    (hl : h.length = 20) (hver : ver = 5 ∨ ver = 196) :
    ∃ scr, outScript (.b58 ver h enc) = some scr ∧
      fromPkScript H scr tn = some (.b58 (if tn then 196 else 5) h none) ∧
      outScript (.b58 (if tn then 196 else 5) h none) = some scr := by
  obtain ⟨a0, a1, a2, a3, a4, a5, a6, a7, a8, a9, b0, b1, b2, b3, b4, b5, b6, b7, b8, b9, rfl⟩ := len20 h hl
  refine ⟨[0xa9, 20] ++ [a0, a1, a2, a3, a4, a5, a6, a7, a8, a9, b0, b1, b2, b3, b4, b5, b6, b7, b8, b9] ++ [0x87], ?_, ?_, ?_⟩
  · rcases hver with e | e <;> subst e <;> rfl
  · cases tn <;> rfl
  · cases tn <;> rfl

/- Base58Check: String() then NewAddrFromString ------------------------------------------------------ -/

end GocoinV.Addr
namespace GocoinV.Base58

theorem leVal_append_one (l : Bytes) (x : UInt8) : leVal (l ++ [x]) = leVal l + 256 ^ l.length * x.toNat := by
  induction l with
  | nil => simp [leVal]
  | cons y t ih =>
    simp only [List.cons_append, leVal, ih, List.length_cons, Nat.pow_succ]
    rw [Nat.mul_add, ← Nat.mul_assoc, Nat.mul_comm 256 (256 ^ t.length)]; omega

theorem digits_length_gt (k : Nat) : ∀ v, 58 ^ k ≤ v → k < (digits v).length := by
  induction k with
  | zero =>
    intro v h
    rw [digits]
    have : v ≠ 0 := by simp at h; omega
    simp [this]
  | succ k ih =>
    intro v h
    rw [digits]
    have hv : v ≠ 0 := by
      have : 0 < 58 ^ (k + 1) := Nat.pow_pos (by omega)
      omega
    have : 58 ^ k ≤ v / 58 := by
      rw [Nat.le_div_iff_mul_le (by omega)]; rw [Nat.pow_succ] at h; exact h
    have := ih _ this
    simp only [hv, ↓reduceDIte, List.length_append, List.length_cons, List.length_nil]; omega

/-- the Base58 string is never shorter than the byte string -/
theorem encode_length_ge (a : Bytes) : a.length ≤ (encode a).length := by
  unfold encode
  simp only [List.length_append, List.length_replicate, List.length_map]
  have hsplit := congrArg List.length (List.takeWhile_append_dropWhile (p := (· == 0)) (l := a))
  simp only [List.length_append] at hsplit
  rw [beVal_dropWhile]
  cases hd : a.dropWhile (· == 0) with
  | nil => rw [hd] at hsplit; unfold leadingZeros; simp at hsplit; omega
  | cons x t =>
    have hx := GocoinV.Bech32.dropWhile_head_false _ _ _ _ hd
    have hx0 : x ≠ 0 := by simpa using hx
    have hxp : 1 ≤ x.toNat := by
      rcases Nat.eq_zero_or_pos x.toNat with h | h
      · exact absurd (UInt8.toNat_inj.mp (by simpa using h)) hx0
      · exact h
    have hb : 58 ^ t.length ≤ beVal (x :: t) := by
      simp only [beVal, List.reverse_cons, leVal_append_one, List.length_reverse]
      have h1 : (58 : Nat) ^ t.length ≤ 256 ^ t.length := Nat.pow_le_pow_left (by omega) _
      have h2 : 256 ^ t.length * 1 ≤ 256 ^ t.length * x.toNat := Nat.mul_le_mul_left _ hxp
      omega
    have := digits_length_gt _ _ hb
    rw [hd] at hsplit
    simp only [List.length_cons] at hsplit
    unfold leadingZeros; omega

end GocoinV.Base58
namespace GocoinV.Addr
open GocoinV Bech32

theorem len4 (l : Bytes) (h : l.length = 4) : ∃ a b c d, l = [a, b, c, d] := by
  match l, h with
  | [a, b, c, d], _ => exact ⟨a, b, c, d, rfl⟩

/-- Base58Check: String() of a (version, hash160) address, read back by NewAddrFromString, gives the same
    version and hash (when the string does not look like a segwit address — see `b58_not_segwitPrefix`) -/
theorem fromString_toString_b58 (H : Hashes) (hH : ∀ x, (H.sha2sum x).length = 32) (ver : UInt8) (h s : Bytes)
    (hl : h.length = 20) (hs : toString H (.b58 ver h none) = some s) (hp : ¬ segwitPrefix s) :
    fromString H s = .ok (.b58 ver h (some s)) := by
  simp only [toString, Option.some.injEq] at hs
  obtain ⟨a0, a1, a2, a3, a4, a5, a6, a7, a8, a9, b0, b1, b2, b3, b4, b5, b6, b7, b8, b9, rfl⟩ := len20 h hl
  have hck : ((H.sha2sum (ver :: [a0, a1, a2, a3, a4, a5, a6, a7, a8, a9, b0, b1, b2, b3, b4, b5, b6, b7, b8, b9])).take 4).length = 4 := by
    rw [List.length_take, hH]; rfl
  obtain ⟨k0, k1, k2, k3, hk⟩ := len4 _ hck
  rw [hk] at hs
  have hdec := Base58.decode_encode
    (ver :: [a0, a1, a2, a3, a4, a5, a6, a7, a8, a9, b0, b1, b2, b3, b4, b5, b6, b7, b8, b9] ++ [k0, k1, k2, k3]) (by simp)
  rw [hs] at hdec
  have hlen := Base58.encode_length_ge
    (ver :: [a0, a1, a2, a3, a4, a5, a6, a7, a8, a9, b0, b1, b2, b3, b4, b5, b6, b7, b8, b9] ++ [k0, k1, k2, k3])
  rw [hs] at hlen
  simp only [List.cons_append, List.length_cons, List.length_nil, List.nil_append] at hlen
  rw [b58check_accept_iff H s (by omega) hp]
  exact ⟨_, hdec, rfl, hk, rfl⟩

end GocoinV.Addr
namespace GocoinV.Base58

/-- the leading base-58 digit of a number with exactly k+1 digits -/
theorem head_digit (k : Nat) : ∀ v, 58 ^ k ≤ v → v < 58 ^ (k + 1) → ∃ t, digits v = (v / 58 ^ k) :: t := by
  induction k with
  | zero =>
    intro v h1 h2
    have hv : v ≠ 0 := by simp at h1; omega
    have hq : v / 58 = 0 := by simp at h2; omega
    have hm : v % 58 = v := by simp at h2; omega
    rw [digits]
    simp only [hv, ↓reduceDIte, hq, hm]
    rw [digits]
    simp
  | succ k ih =>
    intro v h1 h2
    have hv : v ≠ 0 := by
      have : 0 < 58 ^ (k + 1) := Nat.pow_pos (by omega)
      omega
    have g1 : 58 ^ k ≤ v / 58 := by
      rw [Nat.le_div_iff_mul_le (by omega)]; rw [Nat.pow_succ] at h1; exact h1
    have g2 : v / 58 < 58 ^ (k + 1) := by
      rw [Nat.div_lt_iff_lt_mul (by omega)]; rw [Nat.pow_succ] at h2; exact h2
    obtain ⟨t, ht⟩ := ih _ g1 g2
    rw [digits]
    simp only [hv, ↓reduceDIte, ht, List.cons_append]
    refine ⟨t ++ [v % 58], ?_⟩
    rw [Nat.div_div_eq_div_mul, Nat.pow_succ, Nat.mul_comm]

/-- first character of the Base58 encoding of a 25-byte payload with a non-zero version byte, from
    numeric bounds on version·256^24 -/
theorem encode_first (ver : UInt8) (rest : Bytes) (hl : rest.length = 24) (k lo hi : Nat)
    (hlo : lo * 58 ^ k ≤ ver.toNat * 256 ^ 24) (hhi : (ver.toNat + 1) * 256 ^ 24 ≤ (hi + 1) * 58 ^ k)
    (hlo1 : 1 ≤ lo) (hhi58 : hi < 58) :
    ∃ d t, encode (ver :: rest) = digitChar d :: t ∧ lo ≤ d ∧ d ≤ hi := by
  have hv : ver ≠ 0 := by
    intro e; subst e
    have : 0 < 58 ^ k := Nat.pow_pos (by omega)
    have : lo * 58 ^ k ≥ 1 * 58 ^ k := Nat.mul_le_mul_right _ hlo1
    simp at hlo; omega
  have hz : leadingZeros (ver :: rest) = 0 := by
    unfold leadingZeros
    rw [List.takeWhile_cons_of_neg (by simpa using hv)]; rfl
  have hval : beVal (ver :: rest) = leVal rest.reverse + 256 ^ 24 * ver.toNat := by
    simp only [beVal, List.reverse_cons, leVal_append_one, List.length_reverse, hl]
  have hlt : leVal rest.reverse < 256 ^ 24 := by
    have := leVal_lt rest.reverse; simpa [hl] using this
  generalize hV : beVal (ver :: rest) = V at hval
  have hp : 0 < 58 ^ k := Nat.pow_pos (by omega)
  have b1 : lo * 58 ^ k ≤ V := by rw [hval]; rw [Nat.mul_comm (256 ^ 24)]; omega
  have b2 : V < (hi + 1) * 58 ^ k := by
    rw [hval, Nat.mul_comm (256 ^ 24)]
    rw [Nat.add_mul] at hhi; omega
  have c1 : 58 ^ k ≤ V := by
    have : 1 * 58 ^ k ≤ lo * 58 ^ k := Nat.mul_le_mul_right _ hlo1
    omega
  have c2 : V < 58 ^ (k + 1) := by
    have : (hi + 1) * 58 ^ k ≤ 58 * 58 ^ k := Nat.mul_le_mul_right _ (by omega)
    rw [Nat.pow_succ, Nat.mul_comm]; omega
  obtain ⟨t, ht⟩ := head_digit k V c1 c2
  refine ⟨V / 58 ^ k, t.map digitChar, ?_, ?_, ?_⟩
  · unfold encode; rw [hz, hV, ht]; rfl
  · rw [Nat.le_div_iff_mul_le hp]; exact b1
  · have : V / 58 ^ k < hi + 1 := by rw [Nat.div_lt_iff_lt_mul hp]; exact b2
    omega

end GocoinV.Base58
namespace GocoinV.Addr
open GocoinV Bech32

theorem digit_not_bt : ∀ d : Fin 58, d.val ≤ 2 ∨ d.val = 19 ∨ d.val = 44 ∨ d.val = 45 →
    asciiLower (Base58.digitChar d.val) ≠ 98 ∧ asciiLower (Base58.digitChar d.val) ≠ 116 := by decide +kernel

theorem not_prefix_of_first (c : UInt8) (t : Bytes) (h : asciiLower c ≠ 98 ∧ asciiLower c ≠ 116) :
    ¬ segwitPrefix (c :: t) := by
  unfold segwitPrefix
  rw [bc1, tb1]
  intro hc
  rcases hc with e | e
  · have := congrArg List.head? e; simp at this; exact h.1 this
  · have := congrArg List.head? e; simp at this; exact h.2 this

/-- the Base58Check string of the five supported version bytes never looks like a segwit address
    (it starts with '1', '3', 'm'/'n', '2', 'L' respectively) -/
theorem b58_not_segwitPrefix (ver : UInt8) (rest : Bytes) (hl : rest.length = 24)
    (hver : ver = 0 ∨ ver = 5 ∨ ver = 111 ∨ ver = 196 ∨ ver = 48) :
    ¬ segwitPrefix (Base58.encode (ver :: rest)) := by
  have key : ∃ d t, Base58.encode (ver :: rest) = Base58.digitChar d :: t ∧
      (d ≤ 2 ∨ d = 19 ∨ d = 44 ∨ d = 45) := by
    rcases hver with e | e | e | e | e <;> subst e
    · refine ⟨0, ?_⟩
      unfold Base58.encode Base58.leadingZeros
      rw [List.takeWhile_cons_of_pos (by rfl)]
      simp only [List.length_cons, List.replicate_succ, List.cons_append]
      exact ⟨_, rfl, by omega⟩
    · obtain ⟨d, t, h1, h2, h3⟩ := Base58.encode_first 5 rest hl 33 2 2 (by decide) (by decide) (by omega) (by omega)
      exact ⟨d, t, h1, by omega⟩
    · obtain ⟨d, t, h1, h2, h3⟩ := Base58.encode_first 111 rest hl 33 44 45 (by decide) (by decide) (by omega) (by omega)
      exact ⟨d, t, h1, by omega⟩
    · obtain ⟨d, t, h1, h2, h3⟩ := Base58.encode_first 196 rest hl 34 1 1 (by decide) (by decide) (by omega) (by omega)
      exact ⟨d, t, h1, by omega⟩
    · obtain ⟨d, t, h1, h2, h3⟩ := Base58.encode_first 48 rest hl 33 19 19 (by decide) (by decide) (by omega) (by omega)
      exact ⟨d, t, h1, by omega⟩
  obtain ⟨d, t, he, hd⟩ := key
  rw [he]
  have hd58 : d < 58 := by omega
  exact not_prefix_of_first _ _ (digit_not_bt ⟨d, hd58⟩ hd)

/-- the five supported destination forms: witness v0 (20/32 bytes), witness v1..16 (2..40 bytes),
    P2PKH (version bytes 0, 111, and Litecoin's 48), P2SH (5, 196); 20-byte hashes -/
def Supported : Addr → Prop
  | .segwit _ v p => v ≤ 16 ∧ 2 ≤ p.length ∧ p.length ≤ 40 ∧ (v = 0 → p.length = 20 ∨ p.length = 32)
  | .b58 ver h _ => h.length = 20 ∧ (ver = 0 ∨ ver = 111 ∨ ver = 48 ∨ ver = 5 ∨ ver = 196)

theorem script_roundtrip (H : Hashes) (a : Addr) (tn : Bool) (hs : Supported a) :
    ∃ scr a', outScript a = some scr ∧ fromPkScript H scr tn = some a' ∧ outScript a' = some scr := by
  cases a with
  | segwit hrp v p =>
    obtain ⟨h1, h2, h3, h4⟩ := hs
    obtain ⟨scr, e1, e2, e3⟩ := fromPkScript_outScript_segwit H hrp p v tn h1 h2 h3 h4
    exact ⟨scr, _, e1, e2, e3⟩
  | b58 ver h enc =>
    obtain ⟨hl, hv⟩ := hs
    rcases hv with e | e | e | e | e
    · obtain ⟨scr, e1, e2, e3⟩ := fromPkScript_outScript_p2pkh H ver h enc tn hl (Or.inl e)
      exact ⟨scr, _, e1, e2, e3⟩
    · obtain ⟨scr, e1, e2, e3⟩ := fromPkScript_outScript_p2pkh H ver h enc tn hl (Or.inr (Or.inl e))
      exact ⟨scr, _, e1, e2, e3⟩
    · obtain ⟨scr, e1, e2, e3⟩ := fromPkScript_outScript_p2pkh H ver h enc tn hl (Or.inr (Or.inr e))
      exact ⟨scr, _, e1, e2, e3⟩
    · obtain ⟨scr, e1, e2, e3⟩ := fromPkScript_outScript_p2sh H ver h enc tn hl (Or.inl e)
      exact ⟨scr, _, e1, e2, e3⟩
    · obtain ⟨scr, e1, e2, e3⟩ := fromPkScript_outScript_p2sh H ver h enc tn hl (Or.inr e)
      exact ⟨scr, _, e1, e2, e3⟩

/-- addresses as the wallet builds them: bc/tb for witness programs, no cached string for Base58 -/
def Fresh : Addr → Prop
  | .segwit hrp _ _ => hrp = strBytes "bc" ∨ hrp = strBytes "tb"
  | .b58 _ _ enc => enc = none

theorem string_roundtrip (H : Hashes) (hH : ∀ x, (H.sha2sum x).length = 32) (a : Addr)
    (hs : Supported a) (hf : Fresh a) :
    ∃ s a', toString H a = some s ∧ fromString H s = .ok a' ∧ outScript a' = outScript a := by
  cases a with
  | segwit hrp v p =>
    obtain ⟨h1, h2, h3, h4⟩ := hs
    have hh : hrp = [98, 99] ∨ hrp = [116, 98] := by
      rcases hf with e | e
      · left; rw [e, bc]
      · right; rw [e, tb]
    obtain ⟨s, hs⟩ := segwitEncode_isSome hrp p v hh h1 h2 h3 h4
    exact ⟨s, _, hs, fromString_toString_segwit H hrp p s v hf hs, rfl⟩
  | b58 ver h enc =>
    obtain ⟨hl, hv⟩ := hs
    have henc : enc = none := hf
    subst henc
    have hck : ((H.sha2sum (ver :: h)).take 4).length = 4 := by rw [List.length_take, hH]; rfl
    have hp := b58_not_segwitPrefix ver (h ++ (H.sha2sum (ver :: h)).take 4)
      (by rw [List.length_append, hl, hck]) (by
        rcases hv with e | e | e | e | e <;> simp [e])
    refine ⟨Base58.encode (ver :: h ++ (H.sha2sum (ver :: h)).take 4), _, rfl,
      fromString_toString_b58 H hH ver h _ hl rfl hp, rfl⟩

end GocoinV.Addr
