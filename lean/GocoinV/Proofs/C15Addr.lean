/-
  Proofs.C15Addr — address level (Model/Addr.lean): string ↔ address ↔ script round trips and the
  Base58Check acceptance condition. Hash functions are parameters.
-/
import GocoinV.Model.Addr
import GocoinV.Proofs.C15SegwitInv
import GocoinV.Proofs.C15Base58
namespace GocoinV.Addr
open GocoinV Bech32

theorem bc1 : strBytes "bc1" = [98, 99, 49] := by decide +kernel
theorem tb1 : strBytes "tb1" = [116, 98, 49] := by decide +kernel
theorem bc : strBytes "bc" = [98, 99] := by decide +kernel
theorem tb : strBytes "tb" = [116, 98] := by decide +kernel

/-- "the string looks like a segwit address": the test at the top of NewAddrFromString -/
def segwitPrefix (hs : Bytes) : Prop :=
  (hs.take 3).map asciiLower = strBytes "bc1" ∨ (hs.take 3).map asciiLower = strBytes "tb1"

/-- Base58Check acceptance, stated outright -/
theorem b58check_accept_iff (H : Hashes) (hs : Bytes) (hlen : 4 ≤ hs.length) (hp : ¬ segwitPrefix hs) (a : Addr) :
    fromString H hs = .ok a ↔
      ∃ dec, Base58.decode hs = some dec ∧ dec.length = 25 ∧ (H.sha2sum (dec.take 21)).take 4 = dec.drop 21 ∧
        a = .b58 (dec.headD 0) ((dec.drop 1).take 20) (some hs) := by
  unfold fromString
  have h1 : ¬ hs.length < 4 := by omega
  unfold segwitPrefix at hp
  rw [if_neg h1]
  simp only
  rw [if_neg hp]
  cases hd : Base58.decode hs with
  | none =>
    simp only
    constructor
    · intro h; cases h
    · rintro ⟨dec, h, _⟩; cases h
  | some dec =>
    simp only
    by_cases h25 : dec.length < 25
    · rw [if_pos h25]
      constructor
      · intro h; cases h
      · rintro ⟨d', h, h', _⟩; cases h; omega
    · rw [if_neg h25]
      by_cases he : dec.length = 25
      · rw [if_pos he]
        by_cases hc : (H.sha2sum (dec.take 21)).take 4 ≠ dec.drop 21
        · rw [if_pos hc]
          constructor
          · intro h; cases h
          · rintro ⟨d', h, _, h', _⟩; cases h; exact absurd h' hc
        · rw [if_neg hc]
          have hc' : (H.sha2sum (dec.take 21)).take 4 = dec.drop 21 := by
            apply Classical.byContradiction; intro x; exact hc x
          constructor
          · intro h
            simp only [Except.ok.injEq] at h
            exact ⟨dec, rfl, he, hc', h.symm⟩
          · rintro ⟨d', h, _, _, h'⟩; cases h; rw [h']
      · rw [if_neg he]
        constructor
        · intro h; cases h
        · rintro ⟨d', h, h', _⟩; cases h; exact absurd h' he

theorem syms6 (P : UInt32) : ∃ a b c d e f, (checksumSyms P).map charsetAt = [a, b, c, d, e, f] := by
  rw [checksumSyms_eq]; exact ⟨_, _, _, _, _, _, rfl⟩

/-- segwit: String() then NewAddrFromString returns the same address -/
theorem fromString_toString_segwit (H : Hashes) (hrp prog s : Bytes) (v : Nat)
    (hh : hrp = strBytes "bc" ∨ hrp = strBytes "tb")
    (h : toString H (.segwit hrp v prog) = some s) : fromString H s = .ok (.segwit hrp v prog) := by
  simp only [toString] at h
  have hne : hrp ≠ [] := by rcases hh with e | e <;> rw [e] <;> decide +kernel
  have hdec := segwit_decode_encode hrp prog s v hne h
  obtain ⟨_, _, _, _, d, _, he⟩ := segwitEncode_some h
  obtain ⟨_, _, _, _, _, hs⟩ := encode_some he
  obtain ⟨c1, c2, c3, c4, c5, c6, hc⟩ := syms6 (six _ ^^^ finalConstant (decide (v > 0)))
  rw [hc] at hs
  unfold fromString
  rcases hh with e | e
  · rw [bc] at e; subst e
    have hlen : ¬ s.length < 4 := by rw [hs]; simp
    have hpre : (s.take 3).map asciiLower = [98, 99, 49] := by rw [hs]; rfl
    rw [if_neg hlen]
    simp only [hpre, bc1, true_or, ↓reduceIte]
    have : List.take 2 [(98 : UInt8), 99, 49] = [98, 99] := rfl
    rw [this, hdec]
  · rw [tb] at e; subst e
    have hlen : ¬ s.length < 4 := by rw [hs]; simp
    have hpre : (s.take 3).map asciiLower = [116, 98, 49] := by rw [hs]; rfl
    rw [if_neg hlen]
    simp only [hpre, tb1, or_true, ↓reduceIte]
    have : List.take 2 [(116 : UInt8), 98, 49] = [116, 98] := rfl
    rw [this, hdec]

end GocoinV.Addr
