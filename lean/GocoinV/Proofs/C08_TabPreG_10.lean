/- C08 table proof chunk (written once by Proofs/mk_c08_tab.py; static). -/
import GocoinV.Proofs.C08_TabDefs
import GocoinV.Gen.TablesPreG10
import GocoinV.Gen.TablesPreG09
namespace GocoinV.C08
open GocoinV.Gen

theorem preG_10 : chainOK (Secp.dbl Secp.G) ((pts Tables.preG09).getLastD none :: pts Tables.preG10) = true := by
  decide +kernel
theorem preG_10_ne : pts Tables.preG10 ≠ [] := by decide +kernel

end GocoinV.C08
