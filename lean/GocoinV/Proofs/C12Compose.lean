/-
  Proofs.C12Compose — from the full pool invariant to the hypotheses of `template_valid` for the block built from
  a parents-first listing of the pool, and the listing of GetSortedMempoolSlow as such a listing
  (helper lemmas for Props/C12 `template_from_pool`).  Core Lean only.
-/
import GocoinV.Proofs.C12Run
import GocoinV.Proofs.C12Rbf
import GocoinV.Proofs.C12Sort
namespace GocoinV.Mempool

/-- the records of a listing of keys -/
def recsOf (s : State) (l : List Nat) : List T2S := l.filterMap s.pool.get?

theorem listing_hnd {K : Keys} {W : Tx → Prop} {u0 : UT} {ν : OutPoint → Nat} (s : State) (g : PGood K W u0 ν s)
    (l : List Nat) : ∀ t ∈ recsOf s l, t.tx.inOps.Nodup := by
  intro t ht
  obtain ⟨b, _, hb⟩ := List.mem_filterMap.mp ht
  exact (g.w.loc b t hb).nodupIn

theorem listing_hconf {K : Keys} {W : Tx → Prop} {u0 : UT} {ν : OutPoint → Nat} (s : State) (g : PGood K W u0 ν s)
    (l : List Nat) (hn : l.Nodup) :
    (recsOf s l).Pairwise (fun a b => ∀ o ∈ a.tx.inOps, o ∉ b.tx.inOps) := by
  unfold recsOf
  apply List.Pairwise.filterMap (R := fun a b => a ≠ b) _ _ hn
  intro b1 b2 hne t1 ht1 t2 ht2 o ho1 ho2
  obtain ⟨i, hi, e1⟩ := List.mem_map.mp ho1
  obtain ⟨j, hj, e2⟩ := List.mem_map.mp ho2
  apply hne
  apply same_input_same_key g.w.base (Option.mem_def.mp ht1) (Option.mem_def.mp ht2) hi hj
  unfold TxIn.op at e1 e2
  rw [e1, e2]

theorem listing_hsp {K : Keys} {W : Tx → Prop} {u0 : UT} {ν : OutPoint → Nat} (s : State) (g : PGood K W u0 ν s)
    (l : List Nat) : ∀ t ∈ recsOf s l, ∀ i ∈ t.tx.ins, (s.utxo.get? i.op).isSome ∨
      ∃ p, s.pool.get? (K.bidx i.prev) = some p ∧ p.tx.id = i.prev ∧ i.vout < p.tx.outs.length := by
  intro t ht i hi
  obtain ⟨b, _, hb⟩ := List.mem_filterMap.mp ht
  obtain ⟨k, hk⟩ := List.mem_iff_getElem?.mp hi
  cases hf : flag t k with
  | true => exact Or.inr (g.par b t hb k i hk hf)
  | false => exact Or.inl (g.w.unf b t hb k i hk hf)

theorem listing_hpf {K : Keys} {W : Tx → Prop} {u0 : UT} {ν : OutPoint → Nat} (s : State) (g : PGood K W u0 ν s)
    (l : List Nat) (hl : PfFrom K s [] l) :
    ∀ pre t post, recsOf s l = pre ++ t :: post → ∀ i ∈ t.tx.ins, ∀ p,
      s.pool.get? (K.bidx i.prev) = some p → (s.utxo.get? i.op).isSome = false → p ∈ pre := by
  intro pre t post heq i hi p hp hu
  unfold recsOf at heq
  obtain ⟨l1, l2, e1, e2, e3⟩ := List.filterMap_eq_append_iff.mp heq
  obtain ⟨l2a, b, l2b, f1, f2, f3, _⟩ := List.filterMap_eq_cons_iff.mp e3
  have hsplit : l = (l1 ++ l2a) ++ b :: l2b := by rw [e1, f1]; simp
  obtain ⟨t0, ht0, hpar⟩ := PfFrom_at K s b l2b (l1 ++ l2a) [] (hsplit ▸ hl)
  rw [ht0] at f3
  have e0 : t0 = t := Option.some.inj f3
  rw [e0] at ht0 hpar
  obtain ⟨k, hk⟩ := List.mem_iff_getElem?.mp hi
  have hf : flag t k = true := by
    cases hf : flag t k with
    | true => rfl
    | false =>
      have := g.w.unf b t ht0 k i hk hf
      unfold inU at this
      unfold TxIn.op at hu
      rw [this] at hu; cases hu
  have hm : K.bidx i.prev ∈ memParents K t := (mem_memParents K t _).mpr ⟨k, i, hk, hf, rfl⟩
  rcases hpar _ hm with h | h
  · simp at h
  · rw [← e2]
    rcases List.mem_append.mp h with h1 | h1
    · exact List.mem_filterMap.mpr ⟨_, h1, hp⟩
    · rw [f2 _ h1] at hp; cases hp

/-! ### GetSortedMempoolSlow lists entries of the pool -/

theorem appendTxs_sub (K : Keys) : ∀ (fuel : Nat) (res D : List Ent) (x : Ent),
    (appendTxs K fuel (res, D) x).2 = D ∧
    ∀ y ∈ (appendTxs K fuel (res, D) x).1, y ∈ res ∨ y = x ∨ y ∈ D := by
  intro fuel
  induction fuel with
  | zero => intro res D x; exact ⟨rfl, fun y hy => Or.inl hy⟩
  | succ n ih =>
    intro res D x
    rw [appendTxs_succ]
    have fold : ∀ (l : List Ent) (st : List Ent × List Ent), (∀ d ∈ l, d ∈ D) → st.2 = D →
        (∀ y ∈ st.1, y ∈ res ∨ y = x ∨ y ∈ D) →
        (l.foldl (retryStep K n x) st).2 = D ∧ ∀ y ∈ (l.foldl (retryStep K n x) st).1, y ∈ res ∨ y = x ∨ y ∈ D := by
      intro l
      induction l with
      | nil => intro st _ h1 h2; exact ⟨h1, h2⟩
      | cons d r ihl =>
        intro st hl h1 h2
        simp only [List.foldl_cons]
        apply ihl _ (fun e he => hl e (List.mem_cons_of_mem _ he))
        · unfold retryStep
          split
          · exact h1
          · split
            · have hst : st = (st.1, D) := by rw [← h1]
              rw [hst]; exact (ih st.1 D d).1
            · exact h1
        · unfold retryStep
          split
          · exact h2
          · split
            · have hst : st = (st.1, D) := by rw [← h1]
              rw [hst]
              intro y hy
              rcases (ih st.1 D d).2 y hy with h | h | h
              · exact h2 y h
              · rw [h]; exact Or.inr (Or.inr (hl d List.mem_cons_self))
              · exact Or.inr (Or.inr h)
            · exact h2
    apply fold D _ (fun d hd => hd) rfl
    intro y hy
    rcases List.mem_append.mp hy with h | h
    · exact Or.inl h
    · simp only [List.mem_singleton] at h; exact Or.inr (Or.inl h)

theorem slow_fold_sub (K : Keys) (fuel : Nat) (F : List Ent) : ∀ (l : List Ent) (st : List Ent × List Ent),
    (∀ y ∈ l, y ∈ F) → (∀ y ∈ st.1, y ∈ F) → (∀ y ∈ st.2, y ∈ F) →
    ∀ y ∈ (l.foldl (slowStep K fuel) st).1, y ∈ F := by
  intro l
  induction l with
  | nil => intro st _ h1 _; exact h1
  | cons p r ih =>
    intro st hl h1 h2
    simp only [List.foldl_cons]
    have hp := hl p List.mem_cons_self
    have hst : st = (st.1, st.2) := rfl
    apply ih _ (fun y hy => hl y (List.mem_cons_of_mem _ hy))
    · unfold slowStep
      split
      · exact h1
      · rw [hst]
        intro y hy
        rcases (appendTxs_sub K fuel st.1 st.2 p).2 y hy with h | h | h
        · exact h1 y h
        · rw [h]; exact hp
        · exact h2 y h
    · unfold slowStep
      split
      · intro y hy
        rcases List.mem_append.mp hy with h | h
        · exact h2 y h
        · simp only [List.mem_singleton] at h; rw [h]; exact hp
      · rw [hst, (appendTxs_sub K fuel st.1 st.2 p).1]
        exact h2

theorem sortedSlowP_sub (K : Keys) (s : State) : ∀ y ∈ sortedSlowP K s, y ∈ s.pool := by
  intro y hy
  unfold sortedSlowP at hy
  have := slow_fold_sub K (s.pool.length + 1) (feeOrder s) (feeOrder s) ([], []) (fun y hy => hy)
    (by simp) (by simp) y hy
  exact (feeOrder_perm s).mem_iff.mp this

theorem PfFrom_of_PFfrom (K : Keys) (s : State) : ∀ (l : List Ent) (seen : List Nat), PFfrom K seen l →
    (∀ x ∈ l, s.pool.get? x.1 = some x.2) → PfFrom K s seen (l.map (·.1)) := by
  intro l
  induction l with
  | nil => intro _ _ _; trivial
  | cons x r ih =>
    intro seen h hx
    obtain ⟨h1, h2⟩ := h
    exact ⟨⟨x.2, hx x List.mem_cons_self, h1⟩, ih (x.1 :: seen) h2 (fun y hy => hx y (List.mem_cons_of_mem _ hy))⟩

/-- GetSortedMempoolSlow's listing, for a state that satisfies the pool invariant: duplicate-free, complete, parents first -/
theorem sortedSlow_listing {K : Keys} {W : Tx → Prop} {rank : TxId → Nat} {u0 : UT} {ν : OutPoint → Nat}
    (U : Univ2 K W rank u0 ν) (s : State) (g : PGood K W u0 ν s) :
    (sortedSlow K s).Nodup ∧ (∀ b t, s.pool.get? b = some t → b ∈ sortedSlow K s) ∧
    PfFrom K s [] (sortedSlow K s) := by
  have hb := g.w.base
  have hc := sortedSlow_complete K s
    (fun b => match s.pool.get? b with | some t => rank t.tx.id | none => 0) hb.nodup (by
      intro b t hbt k hk
      have hg : s.pool.get? b = some t := AList.get?_of_mem _ _ _ hb.nodup hbt
      obtain ⟨kk, i, hi, hf, e⟩ := (mem_memParents K t k).mp hk
      obtain ⟨p, hp1, hp2, _⟩ := g.par b t hg kk i hi hf
      rw [e] at hp1
      refine ⟨⟨p, AList.mem_of_get? _ _ _ hp1⟩, ?_⟩
      simp only [hp1, hg, hp2]
      exact U.base.acyclic t.tx (hb.poolW _ _ hg) i (List.mem_of_getElem? hi))
  refine ⟨hc.1, ?_, ?_⟩
  · intro b t hbt
    exact (hc.2 b).mpr (List.mem_map.mpr ⟨(b, t), AList.mem_of_get? _ _ _ hbt, rfl⟩)
  · have pf : ParentsFirst K (sortedSlowP K s) := by
      unfold sortedSlowP
      exact foldl_slowStep_PF K _ _ _ (by simp [ParentsFirst, PFfrom])
    exact PfFrom_of_PFfrom K s _ [] pf (fun x hx =>
      AList.get?_of_mem _ _ _ hb.nodup (sortedSlowP_sub K s x hx))

/-! ### the invariant in plain terms -/

/-- the pool invariant (the model counterpart of MempoolCheck plus the chain-related conjuncts), spelled out -/
structure PoolInv (K : Keys) (ν : OutPoint → Nat) (s : State) : Prop where
  /-- TransactionsToSend keyed by BIDX, SpentOutputs the exact inverse of the pooled inputs -/
  struct : InvS K s
  /-- every input is an existing output of a pooled transaction (flag set) or an unspent confirmed output (flag clear) -/
  spendable : ∀ b t, s.pool.get? b = some t → ∀ k i, t.tx.ins[k]? = some i →
    (flag t k = true → ∃ p, s.pool.get? (K.bidx i.prev) = some p ∧ p.tx.id = i.prev ∧ i.vout < p.tx.outs.length) ∧
    (flag t k = false → (s.utxo.get? (i.prev, i.vout)).isSome = true)
  /-- MemInputs is nil or one flag per input, MemInputCnt counts the set flags -/
  flags : ∀ b t, s.pool.get? b = some t →
    (t.mem = [] ∨ t.mem.length = t.tx.ins.length) ∧ t.memCnt = (t.mem.filter id).length
  /-- nothing pooled is confirmed: no unspent output carries its txid, no connected block contains it -/
  notConfirmed : ∀ b t, s.pool.get? b = some t →
    (∀ v, s.utxo.get? (t.tx.id, v) = none) ∧ ∀ e ∈ s.undo, ∀ X ∈ e.1, X.id ≠ t.tx.id
  /-- Volume = Σ input values, Fee + Σ output values = Volume (uint64 arithmetic as in the code) -/
  fee : ∀ b t, s.pool.get? b = some t → t.volume = sumν ν t.tx.ins 0 ∧ t.fee + sumU64 t.tx.outs = t.volume
  /-- no pooled transaction spends one outpoint twice -/
  noDupIn : ∀ b t, s.pool.get? b = some t → t.tx.inOps.Nodup
  /-- TransactionsToSendWeight = Σ weights -/
  weight : s.weightTotal = poolWeight s.pool

theorem PoolInv.of_good {K : Keys} {W : Tx → Prop} {u0 : UT} {ν : OutPoint → Nat} {s : State}
    (hc : ChainOK u0 ν s) (g : PGood K W u0 ν s) : PoolInv K ν s := by
  refine ⟨g.w.base.str, ?_, ?_, ?_, ?_, ?_, g.w.wt⟩
  · intro b t hb k i hk
    exact ⟨g.par b t hb k i hk, g.w.unf b t hb k i hk⟩
  · intro b t hb
    exact ⟨(g.w.loc b t hb).memLen, (g.w.loc b t hb).memCnt⟩
  · intro b t hb
    refine ⟨?_, ?_⟩
    · intro v
      cases hx : s.utxo.get? (t.tx.id, v) with
      | none => rfl
      | some c => exact absurd (hc.c3 _ c hx) (g.w.ncf b t hb)
    · intro e he X hX hid
      exact g.w.ncf b t hb (Or.inr ⟨e, he, X, hX, hid⟩)
  · intro b t hb
    exact ⟨(g.w.loc b t hb).vol, (g.w.loc b t hb).fee⟩
  · intro b t hb
    exact (g.w.loc b t hb).nodupIn

end GocoinV.Mempool
