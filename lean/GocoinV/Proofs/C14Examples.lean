/-
  Proofs.C14Examples — closed toy instances (hash functions with the right output lengths, I_L = 1) on which the
  kernel evaluates whole derivations; used by the non-vacuity examples of Props/C14.lean.
-/
import GocoinV.Model.WalletKeys
import GocoinV.Spec.Bip32
import GocoinV.Proofs.C14Wallet
namespace GocoinV.Proofs.C14
open GocoinV HD WalletKeys

theorem ok_of_isSome {ε α} (x : Except ε α) (h : x.toOption.isSome = true) : ∃ a, x = .ok a := by
  cases x with
  | ok a => exact ⟨a, rfl⟩
  | error e => cases h

/-- toy hash functions with the right output lengths; the HMAC makes I_L = 1 and an all-zero chain code, so every
    derived scalar stays tiny and `decide +kernel` evaluates whole derivations -/
def toyC : WalletCrypto :=
  { sha256 := fun _ => List.replicate 32 0, shaHash := fun _ => List.replicate 32 0, hash160 := fun _ => List.replicate 20 0,
    hmac512 := fun _ _ => List.replicate 31 0 ++ [1] ++ List.replicate 32 0, pbkdf2 := fun _ b => b, scrypt := fun _ _ => none }

def toyPriv : HDWallet := { chCode := List.replicate 32 0, key := 0 :: Spec.Bip32.ser256 1, pfx := Gen.HDConsts.pfxPrivate,
                            idx := 0, checksum := [0, 0, 0, 0], depth := 0 }
def toyPub : HDWallet := { chCode := List.replicate 32 0, key := Secp.ser33 Secp.G, pfx := Gen.HDConsts.pfxPublic,
                           idx := 0, checksum := [0, 0, 0, 0], depth := 0 }
def toyCfg : Config := { waltype := 4, hdpath := [], bip39wrds := 0, usescrypt := 0, hdsubs := 1, keycnt := 1,
                         testnet := false, litecoin := false, atype := .segwit, secretSeed := [] }

theorem toy_child_pub : (child toyC toyPub 0).toOption.isSome = true := by decide +kernel
theorem toy_walk : (walkPath toyC [2 ^ 31] toyPriv none).toOption.isSome = true := by decide +kernel
theorem toy_spec_derive : Spec.Bip32.derivePriv toyC.hmac512 (1, List.replicate 32 0) [2 ^ 31] = some (2, List.replicate 32 0) := by
  decide +kernel
theorem toy_pass1 : (type4Pass toyC toyPriv 0 [] 1 0).toOption.isSome = true := by decide +kernel
theorem toy_pass_wrap : ((type4Pass toyC toyPriv (2 ^ 31 - 1) [] 2 0).toOption.map List.length) = some 2 := by decide +kernel
theorem toy_subs : (type4Subs toyC toyPriv 0 0 1 1 1 []).toOption.isSome = true := by decide +kernel
theorem toy_keyrec : (mkKeyRec toyC toyCfg (Spec.Bip32.ser256 1, [])).toOption.isSome = true := by decide +kernel

theorem toy_pass_wrap' : ∃ ks, type4Pass toyC toyPriv (2 ^ 31 - 1) [] 2 0 = .ok ks ∧ ks.length = 2 := by
  have h := toy_pass_wrap
  cases e : type4Pass toyC toyPriv (2 ^ 31 - 1) [] 2 0 with
  | error x => rw [e] at h; cases h
  | ok ks =>
    rw [e] at h
    exact ⟨ks, rfl, by simpa [Except.toOption] using h⟩

theorem toyPub_serWF : SerWF toyPub :=
  ⟨Or.inr (by decide), by decide, rfl, by decide, by decide, by decide, fun _ => by decide +kernel⟩

theorem toyC_lens : (∀ b, (toyC.shaHash b).length = 32) ∧ (∀ k m, (toyC.hmac512 k m).length = 64) ∧
    (∀ b, (toyC.hash160 b).length = 20) := ⟨fun _ => by simp [toyC], fun _ _ => by simp [toyC], fun _ => by simp [toyC]⟩

end GocoinV.Proofs.C14
