/-
  Proofs.C08_Lift — `XY.SetXO` (decompression / x-only lifting) and `XY.IsValid` over the generated limb
  functions, in F_p: root of x³+7 when it is a square, requested parity, curve equation decided exactly.
-/
import GocoinV.Proofs.C08_Group
namespace GocoinV.C08
open GocoinV.Gen.Field5x52

theorem P_odd : P % 2 = 1 := by decide

/-- parity of the canonical representative of −r (r ≠ 0): the opposite of that of r, since p is odd -/
theorem neg_val_parity (r : F) (hr : r ≠ 0) : (-r).val % 2 = 1 ↔ ¬ (r.val % 2 = 1) := by
  have h : (-r).val = P - r.val := ZMod.neg_val' r |>.trans (by
    rw [Nat.mod_eq_of_lt]
    have : 0 < r.val := Nat.pos_of_ne_zero (fun h => hr ((ZMod.val_eq_zero r).1 h))
    have := P_pos
    omega)
  have hlt : r.val < P := ZMod.val_lt r
  have := P_odd
  rw [h]; omega

/-- `XY.SetXO` (decompression / x-only lifting): for EVERY x of magnitude ≤ 8 (what Sqr/Mul accept) the result keeps x, has a fully
    normalised y that is ±c^((p+1)/4) for c = x³ + 7; if c is a square in F_p then y² = x³ + 7 (the point is on the
    curve), and if moreover y ≠ 0 the parity of y is the requested one. -/
theorem setXO_ok (x : Fe) (odd : Bool) (hx : x.mag 8) :
    (XY.setXO x odd).x = x ∧ (XY.setXO x odd).inf = false ∧ (XY.setXO x odd).ok ∧ (XY.setXO x odd).y.normd ∧
    (∀ r : F, r * r = x.z ^ 3 + 7 →
      (XY.setXO x odd).y.z * (XY.setXO x odd).y.z = x.z ^ 3 + 7 ∧
      ((XY.setXO x odd).y.z ≠ 0 → (((XY.setXO x odd).y.val % 2 = 1) ↔ odd = true))) := by
  have x2 := (FeS.self hx).sqr (by decide)
  have x3 := (FeS.self hx).mul x2 (by decide) (by decide)
  have c := (FeS.ofInt 7 (by decide)).add x3 (by decide)
  have s := sqrt_pow _ _ c.1 (by decide)
  rw [c.2] at s
  obtain ⟨yn, ynd⟩ := s.norm (by decide)
  have hc : ((7 : Nat) : F) + x.z * (x.z * x.z) = x.z ^ 3 + 7 := by push_cast; ring
  rw [hc] at s yn
  unfold XY.setXO
  simp only []
  generalize hR : (x.z ^ 3 + 7) ^ ((P + 1) / 4) = R at s yn
  have hyv := val_of_normd ynd
  rw [yn.2] at hyv
  have hodd := isOdd_iff' (normalize (sqrt (setAdd (setInt 7) (mul x (sqr x)))))
  rw [← hyv] at hodd
  by_cases hne : (isOdd (normalize (sqrt (setAdd (setInt 7) (mul x (sqr x))))) != odd) = true
  · rw [if_pos hne]
    have y' := yn.neg 1 (by decide) (by decide)
    obtain ⟨yf, yfd⟩ := y'.norm (by decide)
    refine ⟨trivial, trivial, ⟨hx, mag_mono yf.1 (by decide)⟩, yfd, fun r hr => ?_⟩
    have hsq := sqrt_sq _ r hr
    rw [hR] at hsq
    refine ⟨by rw [yf.2, neg_mul_neg, hsq], fun hy0 => ?_⟩
    rw [yf.2] at hy0
    have hR0 : R ≠ 0 := fun h => hy0 (by rw [h, neg_zero])
    rw [← val_of_normd yfd, yf.2, neg_val_parity R hR0, ← hodd]
    cases ho : odd <;> cases hi : isOdd (normalize (sqrt (setAdd (setInt 7) (mul x (sqr x))))) <;>
      simp_all
  · rw [if_neg hne]
    obtain ⟨yf, yfd⟩ := yn.norm (by decide)
    refine ⟨trivial, trivial, ⟨hx, mag_mono yf.1 (by decide)⟩, yfd, fun r hr => ?_⟩
    have hsq := sqrt_sq _ r hr
    rw [hR] at hsq
    refine ⟨by rw [yf.2, hsq], fun _ => ?_⟩
    rw [← val_of_normd yfd, yf.2, ← hodd]
    cases ho : odd <;> cases hi : isOdd (normalize (sqrt (setAdd (setInt 7) (mul x (sqr x))))) <;>
      simp_all

/-- `XY.IsValid` decides the curve equation y² = x³ + 7 in F_p (and rejects ∞), for every affine point within the contract -/
theorem isValid_iff (a : XY) (ha : a.ok) :
    XY.isValid a = true ↔ (a.inf = false ∧ a.y.z * a.y.z = a.x.z ^ 3 + 7) := by
  obtain ⟨hx, hy⟩ := ha
  unfold XY.isValid
  cases hi : a.inf with
  | true => simp
  | false =>
    simp only [Bool.false_eq_true, if_false, true_and]
    have y2 := (FeS.self hy).sqr (by decide)
    have x3 := (((FeS.self hx).sqr (by decide)).mul (FeS.self hx) (by decide) (by decide)).add
      (FeS.ofInt 7 (by decide)) (by decide)
    obtain ⟨l, ld⟩ := y2.norm (by decide)
    obtain ⟨r, rd⟩ := x3.norm (by decide)
    rw [equals_normd ld rd, l.2, r.2]
    have : a.x.z * a.x.z * a.x.z + ((7 : Nat) : F) = a.x.z ^ 3 + 7 := by push_cast; ring
    rw [this]
end GocoinV.C08
