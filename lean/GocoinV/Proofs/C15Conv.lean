/-
  Proofs.C15Conv — `convert_bits` as a positional-number conversion.
  The model's accumulator is a wrapping UInt32 exactly as in the Go code; the ghost value `vN : Nat`
  is the unbounded big-endian value of the consumed input. Invariant (`Inv`):
     val32 = vN mod 2^32,   out = the leading base-2^outbits digits of vN  (Vr out.reverse = vN / 2^bits),
     every emitted symbol < 2^outbits.
-/
import GocoinV.Model.Bech32
namespace GocoinV.Bech32

/-- little-endian value in base 2^w (applied to the REVERSED output, so it is the big-endian value) -/
def Vr (w : Nat) : Bytes → Nat
  | [] => 0
  | x :: t => x.toNat + 2 ^ w * Vr w t

/-- big-endian value in base 2^w by the left fold that the Go loop performs on `val` (unbounded) -/
def VN (w : Nat) (inp : Bytes) (acc : Nat) : Nat := inp.foldl (fun a x => a * 2 ^ w + x.toNat) acc

theorem VN_append (w : Nat) (a b : Bytes) (acc : Nat) : VN w (a ++ b) acc = VN w b (VN w a acc) := by
  simp [VN, List.foldl_append]

theorem Vr_reverse_snoc (w : Nat) (a : Bytes) (x : UInt8) :
    Vr w (a ++ [x]).reverse = x.toNat + 2 ^ w * Vr w a.reverse := by
  simp [Vr]

theorem VN_eq_Vr (w : Nat) (inp : Bytes) : ∀ pre : Bytes,
    VN w inp (Vr w pre.reverse) = Vr w (pre ++ inp).reverse := by
  induction inp with
  | nil => intro pre; simp [VN]
  | cons x t ih =>
    intro pre
    have h := ih (pre ++ [x])
    rw [Vr_reverse_snoc] at h
    have e : pre ++ [x] ++ t = pre ++ x :: t := by simp
    rw [e] at h
    rw [← h]
    simp only [VN, List.foldl_cons]
    congr 1
    rw [Nat.mul_comm]; omega

theorem VN_zero_eq_Vr (w : Nat) (inp : Bytes) : VN w inp 0 = Vr w inp.reverse := by
  simpa [Vr] using VN_eq_Vr w inp []

/-- positional notation is injective on digit strings of equal length -/
theorem Vr_inj (w : Nat) : ∀ (a b : Bytes), a.length = b.length →
    (∀ x ∈ a, x.toNat < 2 ^ w) → (∀ x ∈ b, x.toNat < 2 ^ w) → Vr w a = Vr w b → a = b := by
  intro a
  induction a with
  | nil => intro b hl _ _ _; cases b with
    | nil => rfl
    | cons _ _ => simp at hl
  | cons x t ih =>
    intro b hl ha hb hv
    cases b with
    | nil => simp at hl
    | cons y u =>
      simp only [Vr] at hv
      have hx := ha x (by simp)
      have hy := hb y (by simp)
      have hp : 0 < 2 ^ w := Nat.two_pow_pos _
      have e1 : (x.toNat + 2 ^ w * Vr w t) % 2 ^ w = x.toNat := by
        rw [Nat.add_mul_mod_self_left]; exact Nat.mod_eq_of_lt hx
      have e2 : (y.toNat + 2 ^ w * Vr w u) % 2 ^ w = y.toNat := by
        rw [Nat.add_mul_mod_self_left]; exact Nat.mod_eq_of_lt hy
      have hxy : x.toNat = y.toNat := by rw [← e1, ← e2, hv]
      have hxy' : x = y := UInt8.toNat_inj.mp hxy
      have htu : Vr w t = Vr w u := by
        rw [hxy] at hv
        have := Nat.add_left_cancel hv
        exact Nat.eq_of_mul_eq_mul_left hp this
      have := ih u (by simpa using hl) (fun z hz => ha z (by simp [hz])) (fun z hz => hb z (by simp [hz])) htu
      rw [hxy', this]

/-- the invariant tying the wrapping UInt32 accumulator to the unbounded value -/
structure Inv (o : Nat) (s : CB) (vN : Nat) : Prop where
  val : s.val.toNat = vN % 2 ^ 32
  lt : ∀ x ∈ s.out, x.toNat < 2 ^ o
  dig : Vr o s.out.reverse = vN / 2 ^ s.bits

theorem shl_toNat (P : UInt32) (k : Nat) (hk : k < 32) :
    (P <<< UInt32.ofNat k).toNat = (P.toNat * 2 ^ k) % 2 ^ 32 := by
  rw [UInt32.toNat_shiftLeft, UInt32.toNat_ofNat']
  have : k % 2 ^ 32 % 32 = k := by omega
  rw [this, Nat.shiftLeft_eq]

theorem shr_toNat' (P : UInt32) (k : Nat) (hk : k < 32) : (P >>> UInt32.ofNat k).toNat = P.toNat / 2 ^ k := by
  rw [UInt32.toNat_shiftRight, UInt32.toNat_ofNat']
  have : k % 2 ^ 32 % 32 = k := by omega
  rw [this, Nat.shiftRight_eq_div_pow]

/-- reading `o` bits at position `b` of the wrapped accumulator = reading them from the unbounded one -/
theorem mod32_div_mod (n b o : Nat) (h : b + o ≤ 32) : (n % 2 ^ 32 / 2 ^ b) % 2 ^ o = (n / 2 ^ b) % 2 ^ o := by
  have e : (2 : Nat) ^ 32 = 2 ^ b * 2 ^ (32 - b) := by rw [← Nat.pow_add]; congr 1; omega
  rw [e, Nat.mod_mul_right_div_self]
  exact Nat.mod_mod_of_dvd _ (Nat.pow_dvd_pow 2 (by omega))

/-- the symbol written by one turn of the inner loop -/
theorem sym_toNat (val maxv : UInt32) (vN b o : Nat) (hv : val.toNat = vN % 2 ^ 32)
    (hm : maxv.toNat = 2 ^ o - 1) (ho : o ≤ 8) (ho1 : 1 ≤ o) (hb : b + o ≤ 32) :
    (((val >>> UInt32.ofNat b) &&& maxv).toUInt8).toNat = (vN / 2 ^ b) % 2 ^ o := by
  rw [UInt32.toNat_toUInt8, UInt32.toNat_and, shr_toNat' _ _ (by omega), hm,
      Nat.and_two_pow_sub_one_eq_mod, hv, mod32_div_mod _ _ _ hb]
  have : (2 : Nat) ^ o ≤ 2 ^ 8 := Nat.pow_le_pow_right (by omega) ho
  have h2 : vN / 2 ^ b % 2 ^ o < 2 ^ o := Nat.mod_lt _ (Nat.two_pow_pos _)
  omega

/-- one emission keeps the invariant -/
theorem Inv_emit (o : Nat) (s : CB) (vN : Nat) (maxv : UInt32) (hm : maxv.toNat = 2 ^ o - 1) (ho : o ≤ 8) (ho1 : 1 ≤ o)
    (hI : Inv o s vN) (hge : s.bits ≥ o) (hb : s.bits ≤ 32) :
    Inv o { s with bits := s.bits - o,
                   out := s.out ++ [((s.val >>> UInt32.ofNat (s.bits - o)) &&& maxv).toUInt8] } vN := by
  have hs := sym_toNat s.val maxv vN (s.bits - o) o hI.val hm ho ho1 (by omega)
  have hp : 0 < 2 ^ o := Nat.two_pow_pos _
  refine ⟨hI.val, ?_, ?_⟩
  · intro x hx
    simp only [List.mem_append, List.mem_singleton] at hx
    rcases hx with hx | rfl
    · exact hI.lt x hx
    · rw [hs]; exact Nat.mod_lt _ hp
  · show Vr o (s.out ++ [_]).reverse = vN / 2 ^ (s.bits - o)
    rw [Vr_reverse_snoc, hs, hI.dig]
    have e : s.bits = (s.bits - o) + o := by omega
    have : vN / 2 ^ s.bits = vN / 2 ^ (s.bits - o) / 2 ^ o := by
      rw [Nat.div_div_eq_div_mul, ← Nat.pow_add, ← e]
    rw [this]
    exact Nat.mod_add_div _ _

/-- the inner loop (`for bits >= outbits`) with enough fuel -/
theorem cbStep_spec (o i : Nat) (maxv : UInt32) (hm : maxv.toNat = 2 ^ o - 1) (ho : o ≤ 8) (ho1 : 1 ≤ o) :
    ∀ (f : Nat) (s : CB) (vN : Nat), Inv o s vN → s.bits ≤ 32 → s.bits < o * f →
      let s' := cbStep o i maxv f s
      Inv o s' vN ∧ s'.bits < o ∧ s'.val = s.val ∧ s'.bits + o * s'.out.length = s.bits + o * s.out.length := by
  intro f
  induction f with
  | zero => intro s vN _ _ h; simp at h
  | succ f ih =>
    intro s vN hI hb hf
    unfold cbStep
    by_cases hge : s.bits ≥ o
    · simp only [hge, ↓reduceIte]
      have hI' := Inv_emit o s vN maxv hm ho ho1 hI hge hb
      have := ih _ vN hI' (by show s.bits - o ≤ 32; omega)
        (by show s.bits - o < o * f; rw [Nat.mul_succ] at hf; omega)
      obtain ⟨h1, h2, h3, h4⟩ := this
      refine ⟨h1, h2, h3, ?_⟩
      rw [h4]
      simp only [List.length_append, List.length_cons, List.length_nil]
      rw [Nat.mul_add]; omega
    · simp only [hge, ↓reduceIte]
      exact ⟨hI, by omega, trivial, trivial⟩

theorem or_low (a x i : Nat) (hx : x < 2 ^ i) (hi : i ≤ 8) :
    ((a % 2 ^ 32 * 2 ^ i) % 2 ^ 32 ||| x) = (a * 2 ^ i + x) % 2 ^ 32 := by
  have h1 : (a % 2 ^ 32 * 2 ^ i) % 2 ^ 32 = (a * 2 ^ i) % 2 ^ 32 := by
    rw [Nat.mul_mod, Nat.mod_mod, ← Nat.mul_mod]
  rw [h1]
  -- (a * 2^i) % 2^32 = ((a % 2^(32-i)) * 2^i)
  have e : (2 : Nat) ^ 32 = 2 ^ (32 - i) * 2 ^ i := by rw [← Nat.pow_add]; congr 1; omega
  have h2 : (a * 2 ^ i) % 2 ^ 32 = (a % 2 ^ (32 - i)) * 2 ^ i := by
    rw [e, Nat.mul_mod_mul_right]
  have h3 : (a * 2 ^ i + x) % 2 ^ 32 = (a % 2 ^ (32 - i)) * 2 ^ i + x := by
    have hlt : (a % 2 ^ (32 - i)) * 2 ^ i + x < 2 ^ 32 := by
      have : a % 2 ^ (32 - i) < 2 ^ (32 - i) := Nat.mod_lt _ (Nat.two_pow_pos _)
      have : (a % 2 ^ (32 - i) + 1) * 2 ^ i ≤ 2 ^ (32 - i) * 2 ^ i := Nat.mul_le_mul_right _ (by omega)
      rw [← e] at this
      rw [Nat.add_mul] at this
      omega
    have : a * 2 ^ i + x = (a % 2 ^ (32 - i)) * 2 ^ i + x + 2 ^ 32 * (a / 2 ^ (32 - i)) := by
      have := Nat.mod_add_div a (2 ^ (32 - i))
      rw [e]
      calc a * 2 ^ i + x = (a % 2 ^ (32 - i) + 2 ^ (32 - i) * (a / 2 ^ (32 - i))) * 2 ^ i + x := by rw [this]
        _ = _ := by rw [Nat.add_mul]; rw [Nat.mul_right_comm]; omega
    rw [this, Nat.add_mul_mod_self_left]
    exact Nat.mod_eq_of_lt hlt
  rw [h2, h3, ← Nat.shiftLeft_eq]
  exact (Nat.shiftLeft_add_eq_or_of_lt hx _).symm

/-- taking one input symbol keeps the invariant for the value `vN * 2^i + x` -/
theorem Inv_input (o i : Nat) (s : CB) (vN : Nat) (x : UInt8) (hx : x.toNat < 2 ^ i) (hi : i ≤ 8)
    (hI : Inv o s vN) :
    Inv o { s with val := (s.val <<< UInt32.ofNat i) ||| x.toUInt32, bits := s.bits + i } (vN * 2 ^ i + x.toNat) := by
  refine ⟨?_, hI.lt, ?_⟩
  · show ((s.val <<< UInt32.ofNat i) ||| x.toUInt32).toNat = _
    rw [UInt32.toNat_or, shl_toNat _ _ (by omega), UInt8.toNat_toUInt32, hI.val]
    exact or_low _ _ _ hx hi
  · show Vr o s.out.reverse = (vN * 2 ^ i + x.toNat) / 2 ^ (s.bits + i)
    rw [hI.dig, Nat.pow_add, Nat.mul_comm (2 ^ s.bits), ← Nat.div_div_eq_div_mul]
    congr 1
    rw [Nat.mul_comm, Nat.mul_add_div (Nat.two_pow_pos _), Nat.div_eq_of_lt hx]
    rfl

/-- the whole outer loop -/
theorem fold_spec (o i : Nat) (maxv : UInt32) (hm : maxv.toNat = 2 ^ o - 1) (ho : o ≤ 8) (ho2 : 2 ≤ o) (hi : i ≤ 8) :
    ∀ (inp : Bytes) (s : CB) (vN : Nat), (∀ x ∈ inp, x.toNat < 2 ^ i) → Inv o s vN → s.bits < o →
      let s' := inp.foldl (fun (s : CB) (x : UInt8) =>
        cbStep o i maxv 8 { s with val := (s.val <<< UInt32.ofNat i) ||| x.toUInt32, bits := s.bits + i }) s
      Inv o s' (VN i inp vN) ∧ s'.bits < o ∧
        s'.bits + o * s'.out.length = s.bits + o * s.out.length + i * inp.length := by
  intro inp
  induction inp with
  | nil => intro s vN _ hI hb; exact ⟨hI, hb, by simp⟩
  | cons x t ih =>
    intro s vN hx hI hb
    simp only [List.foldl_cons]
    have hI1 := Inv_input o i s vN x (hx x (by simp)) hi hI
    have hst := cbStep_spec o i maxv hm ho (by omega) 8 _ _ hI1 (by show s.bits + i ≤ 32; omega)
      (by show s.bits + i < o * 8; omega)
    obtain ⟨h1, h2, _, h4⟩ := hst
    have := ih _ _ (fun y hy => hx y (by simp [hy])) h1 h2
    obtain ⟨g1, g2, g3⟩ := this
    refine ⟨?_, g2, ?_⟩
    · simpa [VN] using g1
    · rw [g3, h4]
      simp only [List.length_cons]
      rw [Nat.mul_succ]; omega

end GocoinV.Bech32
