/-
  Proofs.C12Rbf — GetSortedMempoolRBF's merge of the sorted list with the fee packages keeps the listing a
  duplicate-free, parents-first enumeration of the same transactions (helper lemmas for Props/C12).
-/
import GocoinV.Model.Mempool
namespace GocoinV.Mempool

/-- Prop form of `pfKeys` -/
def PfFrom (K : Keys) (s : State) : List Nat → List Nat → Prop
  | _, [] => True
  | seen, b :: r => (∃ t, s.pool.get? b = some t ∧ ∀ p ∈ memParents K t, p ∈ seen) ∧ PfFrom K s (b :: seen) r

theorem pfKeys_iff (K : Keys) (s : State) : ∀ (l seen : List Nat), pfKeys K s seen l = true ↔ PfFrom K s seen l := by
  intro l
  induction l with
  | nil => intro seen; simp [pfKeys, PfFrom]
  | cons b r ih =>
    intro seen
    simp only [pfKeys, PfFrom, Bool.and_eq_true, ih]
    constructor
    · rintro ⟨h1, h2⟩
      refine ⟨?_, h2⟩
      cases hb : s.pool.get? b with
      | none => rw [hb] at h1; cases h1
      | some t =>
        rw [hb] at h1
        refine ⟨t, rfl, ?_⟩
        intro p hp
        have := List.all_eq_true.mp h1 p hp
        simpa using this
    · rintro ⟨⟨t, ht, hp⟩, h2⟩
      refine ⟨?_, h2⟩
      rw [ht]
      apply List.all_eq_true.mpr
      intro p hpm
      simpa using hp p hpm

theorem nodupKeys_iff : ∀ (l : List Nat), nodupKeys l = true ↔ l.Nodup := by
  intro l
  induction l with
  | nil => simp [nodupKeys]
  | cons b r ih => simp [nodupKeys, ih]

theorem PfFrom_mono (K : Keys) (s : State) : ∀ (l s1 s2 : List Nat), (∀ x ∈ s1, x ∈ s2) →
    PfFrom K s s1 l → PfFrom K s s2 l := by
  intro l
  induction l with
  | nil => intro _ _ _ _; trivial
  | cons b r ih =>
    intro s1 s2 hsub h
    obtain ⟨⟨t, ht, hp⟩, h2⟩ := h
    refine ⟨⟨t, ht, fun p hpm => hsub p (hp p hpm)⟩, ih (b :: s1) (b :: s2) ?_ h2⟩
    intro x hx
    rcases List.mem_cons.mp hx with e | e
    · rw [e]; exact List.mem_cons_self
    · exact List.mem_cons_of_mem _ (hsub x e)

theorem PfFrom_append (K : Keys) (s : State) (b2 s2 : List Nat) : ∀ (a seen : List Nat),
    PfFrom K s seen a → PfFrom K s s2 b2 → (∀ x ∈ s2, x ∈ seen ∨ x ∈ a) → PfFrom K s seen (a ++ b2) := by
  intro a
  induction a with
  | nil =>
    intro seen _ h2 hsub
    exact PfFrom_mono K s b2 s2 seen (fun x hx => by rcases hsub x hx with h | h; exact h; simp at h) h2
  | cons y a' ih =>
    intro seen h1 h2 hsub
    obtain ⟨hd, tl⟩ := h1
    refine ⟨hd, ih (y :: seen) tl h2 ?_⟩
    intro x hx
    rcases hsub x hx with h | h
    · exact Or.inl (List.mem_cons_of_mem _ h)
    · rcases List.mem_cons.mp h with e | e
      · rw [e]; exact Or.inl List.mem_cons_self
      · exact Or.inr e

theorem PfFrom_at (K : Keys) (s : State) (b : Nat) (post : List Nat) : ∀ (pre seen : List Nat),
    PfFrom K s seen (pre ++ b :: post) →
    ∃ t, s.pool.get? b = some t ∧ ∀ p ∈ memParents K t, p ∈ seen ∨ p ∈ pre := by
  intro pre
  induction pre with
  | nil =>
    intro seen h
    obtain ⟨⟨t, ht, hp⟩, _⟩ := h
    exact ⟨t, ht, fun p hpm => Or.inl (hp p hpm)⟩
  | cons y r ih =>
    intro seen h
    obtain ⟨_, tl⟩ := h
    obtain ⟨t, ht, hp⟩ := ih (y :: seen) tl
    refine ⟨t, ht, fun p hpm => ?_⟩
    rcases hp p hpm with h | h
    · rcases List.mem_cons.mp h with e | e
      · rw [e]; exact Or.inr List.mem_cons_self
      · exact Or.inl e
    · exact Or.inr (List.mem_cons_of_mem _ h)

/-- what is kept while walking: no duplicates, only transactions of the sorted list `l`, parents first -/
structure Listed (K : Keys) (s : State) (l res : List Nat) : Prop where
  nodup : res.Nodup
  sub : ∀ b ∈ res, b ∈ l
  pf : PfFrom K s [] res

/-- a package the merge may consume -/
structure PkgFits (K : Keys) (s : State) (l : List Nat) (pk : Pkg) : Prop where
  nodup : pk.txs.Nodup
  sub : ∀ b ∈ pk.txs, b ∈ l
  pf : PfFrom K s [] pk.txs

theorem takePkgs_listed (K : Keys) (s : State) (l : List Nat) (t : T2S) : ∀ (pks : List Pkg) (res : List Nat),
    (∀ pk ∈ pks, PkgFits K s l pk) → Listed K s l res →
    Listed K s l (takePkgs t pks res).2 ∧ (∀ b ∈ res, b ∈ (takePkgs t pks res).2) ∧
    (∀ pk ∈ (takePkgs t pks res).1, PkgFits K s l pk) := by
  intro pks
  induction pks with
  | nil => intro res _ h; exact ⟨h, fun b hb => hb, by simp [takePkgs]⟩
  | cons pk r ih =>
    intro res hp h
    unfold takePkgs
    have hr : ∀ q ∈ r, PkgFits K s l q := fun q hq => hp q (List.mem_cons_of_mem _ hq)
    split
    · split
      · exact ih res hr h
      · rename_i hany
        have fit := hp pk List.mem_cons_self
        have disj : ∀ b ∈ pk.txs, b ∉ res := by
          intro b hb hres
          apply hany
          unfold Pkg.anyIn
          exact List.any_eq_true.mpr ⟨b, hb, by simpa using hres⟩
        have h' : Listed K s l (res ++ pk.txs) := by
          refine ⟨?_, ?_, ?_⟩
          · exact List.nodup_append.mpr ⟨h.nodup, fit.nodup, fun a ha b hb e => disj b hb (e ▸ ha)⟩
          · intro b hb
            rcases List.mem_append.mp hb with e | e
            · exact h.sub b e
            · exact fit.sub b e
          · exact PfFrom_append K s pk.txs [] res [] h.pf fit.pf (by simp)
        obtain ⟨i1, i2, i3⟩ := ih (res ++ pk.txs) hr h'
        exact ⟨i1, fun b hb => i2 b (List.mem_append_left _ hb), i3⟩
    · exact ⟨h, fun b hb => hb, hp⟩

theorem mergeRBF_listed (K : Keys) (s : State) (l : List Nat) (hl : PfFrom K s [] l) :
    ∀ (rest done : List Nat) (pks : List Pkg) (res : List Nat), l = done ++ rest →
    (∀ pk ∈ pks, PkgFits K s l pk) → Listed K s l res → (∀ b ∈ done, b ∈ res) →
    Listed K s l (mergeRBF s rest pks res) ∧ (∀ b ∈ l, b ∈ mergeRBF s rest pks res) := by
  intro rest
  induction rest with
  | nil =>
    intro done pks res hsplit _ h hd
    simp only [mergeRBF]
    refine ⟨h, fun b hb => hd b ?_⟩
    rw [hsplit] at hb; simpa using hb
  | cons b rest ih =>
    intro done pks res hsplit hp h hd
    obtain ⟨t, ht, hpar⟩ := PfFrom_at K s b rest done [] (hsplit ▸ hl)
    have hsplit' : l = (done ++ [b]) ++ rest := by rw [hsplit]; simp
    have hbl : b ∈ l := by rw [hsplit]; simp
    unfold mergeRBF
    rw [ht]
    dsimp only
    obtain ⟨j1, j2, j3⟩ := takePkgs_listed K s l t pks res hp h
    generalize takePkgs t pks res = r at j1 j2 j3
    have add : Listed K s l (if r.2.contains b then r.2 else r.2 ++ [b]) ∧
        (∀ x ∈ done ++ [b], x ∈ (if r.2.contains b then r.2 else r.2 ++ [b])) := by
      split
      · rename_i hc
        refine ⟨j1, fun x hx => ?_⟩
        rcases List.mem_append.mp hx with e | e
        · exact j2 x (hd x e)
        · simp only [List.mem_singleton] at e; rw [e]; simpa using hc
      · rename_i hc
        have hnb : b ∉ r.2 := by simpa using hc
        refine ⟨⟨?_, ?_, ?_⟩, fun x hx => ?_⟩
        · exact List.nodup_append.mpr ⟨j1.nodup, by simp, fun a ha c hc e => by
            simp only [List.mem_singleton] at hc; rw [hc] at e; exact hnb (e ▸ ha)⟩
        · intro x hx
          rcases List.mem_append.mp hx with e | e
          · exact j1.sub x e
          · simp only [List.mem_singleton] at e; rw [e]; exact hbl
        · apply PfFrom_append K s [b] done r.2 [] j1.pf
          · exact ⟨⟨t, ht, fun p hpm => by
              rcases hpar p hpm with e | e
              · simp at e
              · exact e⟩, trivial⟩
          · intro x hx; exact Or.inr (j2 x (hd x hx))
        · rcases List.mem_append.mp hx with e | e
          · exact List.mem_append_left _ (j2 x (hd x e))
          · exact List.mem_append_right _ e
    exact ih (done ++ [b]) r.1 _ hsplit' j3 add.1 add.2

theorem PfFrom_pooled (K : Keys) (s : State) : ∀ (l seen : List Nat), PfFrom K s seen l →
    ∀ b ∈ l, ∃ t, s.pool.get? b = some t := by
  intro l
  induction l with
  | nil => intro _ _ b hb; simp at hb
  | cons y r ih =>
    intro seen h b hb
    obtain ⟨⟨t, ht, _⟩, tl⟩ := h
    rcases List.mem_cons.mp hb with e | e
    · rw [e]; exact ⟨t, ht⟩
    · exact ih (y :: seen) tl b e

theorem pkgOK_fits (K : Keys) (s : State) (l : List Nat) (hall : ∀ b t, s.pool.get? b = some t → b ∈ l)
    (pk : Pkg) (h : pkgOK K s pk = true) : PkgFits K s l pk := by
  unfold pkgOK at h
  simp only [Bool.and_eq_true] at h
  obtain ⟨⟨⟨⟨_, h2⟩, h3⟩, _⟩, _⟩ := h
  have pf := (pfKeys_iff K s pk.txs []).mp h3
  refine ⟨(nodupKeys_iff pk.txs).mp h2, ?_, pf⟩
  intro b hb
  obtain ⟨t, ht⟩ := PfFrom_pooled K s pk.txs [] pf b hb
  exact hall b t ht

end GocoinV.Mempool
