/-
  Proofs.C15Base58 — helper lemmas for the Base58 round trip (Props/C15.lean).
-/
import GocoinV.Model.Base58
namespace GocoinV.Base58
open Gen.Base58Consts

/-- value of a base-58 digit list, most significant first -/
def ofDigits : List Nat → Nat → Nat
  | [], acc => acc
  | d :: t, acc => ofDigits t (acc * 58 + d)

theorem chr2int_digitChar : ∀ d : Fin 58, chr2int (digitChar d.val) = some d.val := by decide

theorem digitChar_ne_one : ∀ d : Fin 58, d.val ≠ 0 → (digitChar d.val == digitChar 0) = false := by decide

theorem value?_map (l : List Nat) (h : ∀ d ∈ l, d < 58) (acc : Nat) :
    value? (l.map digitChar) acc = some (ofDigits l acc) := by
  induction l generalizing acc with
  | nil => rfl
  | cons d t ih =>
    have hd : d < 58 := h d (by simp)
    have := chr2int_digitChar ⟨d, hd⟩
    simp only [List.map_cons, value?, this]
    exact ih (fun x hx => h x (by simp [hx])) _

theorem value?_replicate_zero (k : Nat) (rest : Bytes) :
    value? (List.replicate k (digitChar 0) ++ rest) 0 = value? rest 0 := by
  induction k with
  | zero => rfl
  | succ k ih =>
    have := chr2int_digitChar ⟨0, by omega⟩
    simp only [List.replicate_succ, List.cons_append, value?, this]
    simpa using ih

theorem ofDigits_append (a b : List Nat) (acc : Nat) :
    ofDigits (a ++ b) acc = ofDigits b (ofDigits a acc) := by
  induction a generalizing acc with
  | nil => rfl
  | cons d t ih => simp [ofDigits, ih]

theorem digits_lt (n : Nat) : ∀ d ∈ digits n, d < 58 := by
  induction n using Nat.strongRecOn with
  | _ n ih =>
    rw [digits]
    split
    · simp
    · rename_i h
      intro d hd
      simp only [List.mem_append, List.mem_singleton] at hd
      rcases hd with hd | hd
      · exact ih (n / 58) (by omega) d hd
      · omega

theorem ofDigits_digits (n : Nat) : ofDigits (digits n) 0 = n := by
  induction n using Nat.strongRecOn with
  | _ n ih =>
    rw [digits]
    split
    · simp_all [ofDigits]
    · rename_i h
      rw [ofDigits_append, ih (n / 58) (by omega)]
      simp only [ofDigits]
      omega

/-- the leading digit of a non-zero number is non-zero -/
theorem digits_head_ne_zero (n : Nat) : ∀ d t, digits n = d :: t → d ≠ 0 := by
  induction n using Nat.strongRecOn with
  | _ n ih =>
    intro d t hdt
    rw [digits] at hdt
    split at hdt
    · simp at hdt
    · rename_i h
      by_cases hq : n / 58 = 0
      · rw [hq, digits] at hdt
        simp at hdt
        have : n % 58 = n := Nat.mod_eq_of_lt (by omega)
        omega
      · cases hdq : digits (n / 58) with
        | nil =>
          rw [digits] at hdq
          simp [hq] at hdq
        | cons d' t' =>
          rw [hdq] at hdt
          simp at hdt
          exact hdt.1 ▸ ih (n / 58) (by omega) d' t' hdq

theorem all_of_dropWhile_nil {α} (p : α → Bool) : ∀ (l : List α), l.dropWhile p = [] → ∀ x ∈ l, p x = true := by
  intro l
  induction l with
  | nil => simp
  | cons a t ih =>
    intro h x hx
    by_cases hp : p a = true
    · rw [List.dropWhile_cons_of_pos hp] at h
      rcases List.mem_cons.mp hx with rfl | hx
      · exact hp
      · exact ih h x hx
    · rw [List.dropWhile_cons_of_neg hp] at h
      simp at h

theorem natBytes_lt_256 (n : Nat) (h : 0 < n) (h2 : n < 256) : natBytes n = [UInt8.ofNat n] := by
  rw [natBytes]
  have : n / 256 = 0 := by omega
  have hm : n % 256 = n := by omega
  simp [Nat.ne_of_gt h, this, hm]
  rw [natBytes]; simp

/-- `big.Int.Bytes` of the big-endian value strips exactly the leading zero bytes -/
theorem natBytes_leVal_reverse' (r : Bytes) : natBytes (leVal r) = r.reverse.dropWhile (· == 0) := by
  induction r with
  | nil => rw [natBytes]; simp [leVal]
  | cons x r ih =>
    generalize ha : r.reverse = a at ih
    have har : r = a.reverse := by rw [← ha]; simp
    subst har
    simp only [List.reverse_cons, List.reverse_reverse, leVal]
    have hx := x.toNat_lt
    by_cases hz : leVal a.reverse = 0
    · -- everything before x is zero
      have hall : a.dropWhile (· == 0) = [] := by
        rw [← ih, hz, natBytes]; simp
      have hallz : ∀ y ∈ a, (y == 0) = true := by
        intro y hy
        exact all_of_dropWhile_nil _ a hall y hy
      rw [hz]
      simp only [Nat.mul_zero, Nat.add_zero]
      rw [List.dropWhile_append_of_pos hallz]
      by_cases hx0 : x = 0
      · subst hx0; rw [natBytes]; simp
      · have hpos : 0 < x.toNat := by
          rcases Nat.eq_zero_or_pos x.toNat with h | h
          · exact absurd (UInt8.toNat_inj.mp (by simpa using h)) hx0
          · exact h
        rw [natBytes_lt_256 _ hpos hx]
        simp [hx0]
    · rw [natBytes]
      have hne : x.toNat + 256 * leVal a.reverse ≠ 0 := by omega
      have h1 : (x.toNat + 256 * leVal a.reverse) / 256 = leVal a.reverse := by omega
      have h2 : (x.toNat + 256 * leVal a.reverse) % 256 = x.toNat := by omega
      simp only [hne, ↓reduceDIte, h1, h2, ih]
      have hne2 : a.dropWhile (· == 0) ≠ [] := by
        rw [← ih]; intro he
        rw [natBytes] at he
        simp [hz] at he
      have : UInt8.ofNat x.toNat = x := by simp
      rw [this]
      rw [List.dropWhile_append]
      simp [hne2]

theorem natBytes_leVal_reverse (a : Bytes) : natBytes (leVal a.reverse) = a.dropWhile (· == 0) := by
  simpa using natBytes_leVal_reverse' a.reverse

theorem replicate_takeWhile_dropWhile (a : Bytes) :
    List.replicate (a.takeWhile (· == 0)).length (0 : UInt8) ++ a.dropWhile (· == 0) = a := by
  have h : List.replicate (a.takeWhile (· == 0)).length (0 : UInt8) = a.takeWhile (· == 0) := by
    apply List.ext_getElem (by simp)
    intro i h1 h2
    simp only [List.getElem_replicate]
    have hall := List.all_eq_true.mp (List.all_takeWhile (l := a) (p := (· == 0)))
    have := hall _ (List.getElem_mem h2)
    simp at this
    exact this.symm
  rw [h, List.takeWhile_append_dropWhile]

/-- Base58 round trip: decoding the encoding of a non-empty byte string returns it -/
theorem decode_encode (a : Bytes) (h : a ≠ []) : decode (encode a) = some a := by
  unfold decode encode
  have hv : value? (List.replicate (leadingZeros a) (digitChar 0) ++ (digits (beVal a)).map digitChar) 0
      = some (beVal a) := by
    rw [value?_replicate_zero, value?_map _ (digits_lt _), ofDigits_digits]
  rw [hv]
  have htw : (List.takeWhile (fun x => x == digitChar 0)
      (List.replicate (leadingZeros a) (digitChar 0) ++ (digits (beVal a)).map digitChar)).length
      = leadingZeros a := by
    rw [List.takeWhile_append_of_pos (by intro x hx; rw [List.eq_of_mem_replicate hx]; exact beq_self_eq_true _)]
    have : List.takeWhile (fun x => x == digitChar 0) ((digits (beVal a)).map digitChar) = [] := by
      cases hd : digits (beVal a) with
      | nil => rfl
      | cons d t =>
        have hlt : d < 58 := digits_lt (beVal a) d (by rw [hd]; exact List.mem_cons_self)
        have hne := digits_head_ne_zero (beVal a) d t hd
        have := digitChar_ne_one ⟨d, hlt⟩ hne
        simp only [List.map_cons]
        rw [List.takeWhile_cons_of_neg (by simpa using this)]
    rw [this]; simp
  simp only [htw]
  have hb : natBytes (beVal a) = a.dropWhile (· == 0) := natBytes_leVal_reverse a
  rw [hb]
  have hres : List.replicate (leadingZeros a) (0 : UInt8) ++ a.dropWhile (· == 0) = a :=
    replicate_takeWhile_dropWhile a
  rw [hres]
  cases a with
  | nil => exact absurd rfl h
  | cons x t => rfl

end GocoinV.Base58
