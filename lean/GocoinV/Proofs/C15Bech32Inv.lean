/-
  Proofs.C15Bech32Inv — the decode → encode direction of Bech32: whatever `Decode` accepts, `Encode` of the
  decoded (hrp, data, variant) reproduces, lower-cased. Uses the converse of the checksum lemma
  (`checksum_unique`, from GF(2)-linearity of the generated polymod step) and table facts `decide`d over the
  GENERATED charset / charset_rev.
-/
import GocoinV.Model.Addr
import GocoinV.Proofs.C15Bech32d
namespace GocoinV.Bech32
open Gen.Bech32Consts
open GocoinV.Addr (asciiLower)

/- table facts ------------------------------------------------------------------------------------ -/

theorem hrp_lower : ∀ ch : UInt8,
    (if (!isLower ch && isUpper ch) = true then (ch - 65) + 97 else ch) = asciiLower ch :=
  forall_uint8 _ (by decide +kernel)
theorem low5_lower : ∀ ch : UInt8, (asciiLower ch &&& 0x1f) = (ch &&& 0x1f) := forall_uint8 _ (by decide +kernel)
theorem notUpper_lower : ∀ ch : UInt8, isUpper (asciiLower ch) = false := forall_uint8 _ (by decide +kernel)
theorem range_lower : ∀ ch : UInt8, ¬ (ch.toNat < 33 ∨ ch.toNat > 126) →
    ¬ ((asciiLower ch).toNat < 33 ∨ (asciiLower ch).toNat > 126) := forall_uint8 _ (by decide +kernel)
theorem rev_at : ∀ c : UInt8, c &&& 0x80 = 0 → ¬ (charsetRev c).toNat > 31 →
    charsetAt (charsetRev c) = asciiLower c ∧ (charsetRev c) >>> 5 = 0 := forall_uint8 _ (by decide +kernel)
theorem lower_sep : asciiLower 49 = 49 := by decide
theorem lower_of_notUpper : ∀ c : UInt8, isUpper c = false → asciiLower c = c := forall_uint8 _ (by decide +kernel)

/- the hrp loops ---------------------------------------------------------------------------------- -/

theorem high_of_decHrp (H : Bytes) : ∀ (st hs : HrpScan), decHrp? H st = some hs →
    hrpHigh? (H.map asciiLower) st.chk = some hs.chk ∧ hs.hrp = st.hrp ++ H.map asciiLower := by
  induction H with
  | nil => intro st hs h; simp [decHrp?] at h; subst h; simp [hrpHigh?]
  | cons ch t ih =>
    intro st hs h
    unfold decHrp? at h
    by_cases hr : ch.toNat < 33 ∨ ch.toNat > 126
    · simp [hr] at h
    · simp only [hr, ↓reduceIte, hrp_lower] at h
      obtain ⟨h1, h2⟩ := ih _ hs h
      simp only [List.map_cons, hrpHigh?, range_lower ch hr, ↓reduceIte, notUpper_lower]
      rw [← shr5_toUInt32]
      exact ⟨h1, by rw [h2]; simp⟩

theorem hrpLow_lower (H : Bytes) : ∀ c, hrpLow (H.map asciiLower) c = hrpLow H c := by
  induction H with
  | nil => intro c; rfl
  | cons ch t ih => intro c; simp only [List.map_cons, hrpLow, low5_lower, ih]

/- the data loop ---------------------------------------------------------------------------------- -/

theorem fold_of_decData (a : Bytes) : ∀ (st st' : DataScan), decData? a st = some st' →
    dataFold? (a.map charsetRev) st.chk = some st'.chk ∧ st'.vals = st.vals ++ a.map charsetRev ∧
    (a.map charsetRev).map charsetAt = a.map asciiLower := by
  induction a with
  | nil => intro st st' h; simp [decData?] at h; subst h; simp [dataFold?]
  | cons c t ih =>
    intro st st' h
    unfold decData? at h
    by_cases h80 : c &&& 0x80 ≠ 0
    · simp [h80] at h
    · simp only [h80, ↓reduceIte] at h
      by_cases hv : (charsetRev c).toNat > 31
      · simp [hv] at h
      · simp only [hv, ↓reduceIte] at h
        obtain ⟨h1, h2, h3⟩ := ih _ st' h
        obtain ⟨r1, r2⟩ := rev_at c (by simpa using h80) hv
        simp only [List.map_cons, dataFold?, r2, ne_eq, not_true_eq_false, ↓reduceIte, r1, h3]
        exact ⟨h1, by rw [h2]; simp, trivial⟩

theorem decData_append (a b : Bytes) : ∀ (st st'' : DataScan), decData? (a ++ b) st = some st'' →
    ∃ st', decData? a st = some st' ∧ decData? b st' = some st'' := by
  induction a with
  | nil => intro st st'' h; exact ⟨st, by simp [decData?], by simpa using h⟩
  | cons c t ih =>
    intro st st'' h
    simp only [List.cons_append] at h
    unfold decData? at h
    by_cases h80 : c &&& 0x80 ≠ 0
    · simp [h80] at h
    · simp only [h80, ↓reduceIte] at h
      by_cases hv : (charsetRev c).toNat > 31
      · simp [hv] at h
      · simp only [hv, ↓reduceIte] at h
        obtain ⟨st', e1, e2⟩ := ih _ st'' h
        refine ⟨st', ?_, e2⟩
        rw [decData?]
        simp only [h80, hv, ↓reduceIte]
        exact e1

theorem dataFold_lt (d : Bytes) : ∀ c c', dataFold? d c = some c' → ∀ v ∈ d, v.toNat ≤ 31 := by
  induction d with
  | nil => intro _ _ _ v hv; simp at hv
  | cons x t ih =>
    intro c c' h v hv
    unfold dataFold? at h
    by_cases hd : x >>> 5 ≠ 0
    · simp [hd] at h
    · simp only [hd, ↓reduceIte] at h
      rcases List.mem_cons.mp hv with rfl | hv
      · exact lt32_of_shr5 _ (by simpa using hd)
      · exact ih _ _ h v hv

theorem shr5_of_le31 : ∀ v : UInt8, v.toNat ≤ 31 → v >>> 5 = 0 := forall_uint8 _ (by decide +kernel)

/- six checksum symbols --------------------------------------------------------------------------- -/

/-- the 30-bit number whose 5-bit groups are the six symbols -/
def pack6 (v1 v2 v3 v4 v5 v6 : UInt8) : UInt32 :=
  UInt32.ofNat (v1.toNat * 2 ^ 25 + v2.toNat * 2 ^ 20 + v3.toNat * 2 ^ 15 + v4.toNat * 2 ^ 10 + v5.toNat * 2 ^ 5 + v6.toNat)

theorem pack6_toNat (v1 v2 v3 v4 v5 v6 : UInt8) (h1 : v1.toNat ≤ 31) (h2 : v2.toNat ≤ 31) (h3 : v3.toNat ≤ 31)
    (h4 : v4.toNat ≤ 31) (h5 : v5.toNat ≤ 31) (h6 : v6.toNat ≤ 31) :
    (pack6 v1 v2 v3 v4 v5 v6).toNat =
      v1.toNat * 2 ^ 25 + v2.toNat * 2 ^ 20 + v3.toNat * 2 ^ 15 + v4.toNat * 2 ^ 10 + v5.toNat * 2 ^ 5 + v6.toNat := by
  unfold pack6
  rw [UInt32.toNat_ofNat']
  omega

theorem group_eq (P : UInt32) (j : Nat) (hj : j ≤ 5) (v : UInt8) (h : (P.toNat / 2 ^ (5 * j)) % 32 = v.toNat) :
    (P >>> UInt32.ofNat (5 * j)) &&& 31 = v.toUInt32 := by
  apply UInt32.toNat_inj.1
  rw [UInt32.toNat_and, shr_toNat _ _ (by omega), UInt8.toNat_toUInt32]
  have : (31 : UInt32).toNat = 2 ^ 5 - 1 := by decide
  rw [this, Nat.and_two_pow_sub_one_eq_mod]
  exact h

theorem toUInt8_toUInt32 (v : UInt8) : v.toUInt32.toUInt8 = v := by
  apply UInt8.toNat_inj.1
  rw [UInt32.toNat_toUInt8, UInt8.toNat_toUInt32]
  have := v.toNat_lt; omega

theorem six_syms (c c' : UInt32) (v1 v2 v3 v4 v5 v6 : UInt8)
    (h : dataFold? [v1, v2, v3, v4, v5, v6] c = some c') :
    let P := pack6 v1 v2 v3 v4 v5 v6
    hi30 P ∧ feed6 c P = c' ∧ checksumSyms P = [v1, v2, v3, v4, v5, v6] := by
  have hlt := dataFold_lt _ _ _ h
  have h1 := hlt v1 (by simp)
  have h2 := hlt v2 (by simp)
  have h3 := hlt v3 (by simp)
  have h4 := hlt v4 (by simp)
  have h5 := hlt v5 (by simp)
  have h6 := hlt v6 (by simp)
  have hN := pack6_toNat v1 v2 v3 v4 v5 v6 h1 h2 h3 h4 h5 h6
  intro P
  have hN' : P.toNat = _ := hN
  have g5 := group_eq P 5 (by omega) v1 (by rw [hN']; omega)
  have g4 := group_eq P 4 (by omega) v2 (by rw [hN']; omega)
  have g3 := group_eq P 3 (by omega) v3 (by rw [hN']; omega)
  have g2 := group_eq P 2 (by omega) v4 (by rw [hN']; omega)
  have g1 := group_eq P 1 (by omega) v5 (by rw [hN']; omega)
  have g0 := group_eq P 0 (by omega) v6 (by rw [hN']; omega)
  refine ⟨by unfold hi30; rw [hN']; omega, ?_, ?_⟩
  · unfold feed6
    simp only [g5, g4, g3, g2, g1, g0]
    simp only [dataFold?, shr5_of_le31 _ h1, shr5_of_le31 _ h2, shr5_of_le31 _ h3, shr5_of_le31 _ h4,
      shr5_of_le31 _ h5, shr5_of_le31 _ h6, ne_eq, not_true_eq_false, ↓reduceIte, Option.some.injEq] at h
    exact h
  · rw [checksumSyms_eq]
    simp only [g5, g4, g3, g2, g1, g0, toUInt8_toUInt32]

/- list surgery ------------------------------------------------------------------------------------ -/

theorem dropWhile_head_false {α} (p : α → Bool) : ∀ (l : List α) (x : α) (r : List α),
    l.dropWhile p = x :: r → p x = false := by
  intro l
  induction l with
  | nil => intro x r h; simp at h
  | cons a t ih =>
    intro x r h
    by_cases hp : p a = true
    · rw [List.dropWhile_cons_of_pos hp] at h; exact ih x r h
    · rw [List.dropWhile_cons_of_neg hp] at h
      simp only [List.cons.injEq] at h
      rw [← h.1]; simpa using hp

/-- the position of the last '1': the input is hrp ++ "1" ++ tail with `dataLenOf` tail characters -/
theorem split_at_sep (s : Bytes) (h : dataLenOf s + 1 ≤ s.length) :
    ∃ H T, s = H ++ [49] ++ T ∧ T.length = dataLenOf s := by
  have e := List.takeWhile_append_dropWhile (p := (· ≠ 49)) (l := s.reverse)
  cases hd : s.reverse.dropWhile (· ≠ 49) with
  | nil =>
    rw [hd] at e
    have := congrArg List.length e
    simp only [List.append_nil, List.length_reverse] at this
    unfold dataLenOf at h; omega
  | cons x r =>
    have hx := dropWhile_head_false _ _ _ _ hd
    have hx' : x = 49 := by simpa using hx
    subst hx'
    rw [hd] at e
    refine ⟨r.reverse, (s.reverse.takeWhile (· ≠ 49)).reverse, ?_, by simp [dataLenOf]⟩
    have := congrArg List.reverse e
    simp only [List.reverse_append, List.reverse_cons, List.reverse_reverse] at this
    exact this.symm

theorem len6 (l : Bytes) (h : l.length = 6) : ∃ a b c d e f, l = [a, b, c, d, e, f] := by
  match l, h with
  | [a, b, c, d, e, f], _ => exact ⟨a, b, c, d, e, f, rfl⟩

theorem dataFold_hi' (data : Bytes) (c c0 : UInt32) (hc : hi30 c) (h : dataFold? data c = some c0) : hi30 c0 :=
  dataFold_hi data c c0 hc h

/-- Bech32 decode → encode: whatever `Decode` accepts is the (lower-cased) output of `Encode` on the
    decoded human-readable part, data and variant. -/
theorem encode_decode (s hrp data : Bytes) (m : Bool) (h : decode s = some (hrp, data, m)) :
    encode hrp data m = some (s.map asciiLower) := by
  unfold decode at h
  simp only at h
  split at h; · simp at h
  rename_i hn
  split at h; · simp at h
  rename_i hl
  obtain ⟨H, T, hs, hT⟩ := split_at_sep s (by omega)
  generalize hL : dataLenOf s = L at *
  have hslen : s.length = H.length + 1 + L := by rw [hs]; simp; omega
  have hk : s.length - (1 + L) = H.length := by omega
  rw [hk] at h
  have htake : s.take H.length = H := by rw [hs]; simp
  have hdrop : s.drop (H.length + 1) = T := by
    rw [hs, List.drop_append_of_le_length (by simp)]; simp
  rw [htake, hdrop] at h
  split at h; · simp at h
  rename_i hsc hhs
  split at h; · simp at h
  rename_i ds hds
  split at h; · simp at h
  -- the accepted state
  have hfin : ds.chk = finalConstant m ∧ hrp = hsc.hrp ∧ data = ds.vals.take (L - 6) := by
    split at h
    · rename_i e; simp only [Option.some.injEq, Prod.mk.injEq] at h
      obtain ⟨a, b, c⟩ := h; subst c; exact ⟨e, a.symm, b.symm⟩
    · split at h
      · rename_i e; simp only [Option.some.injEq, Prod.mk.injEq] at h
        obtain ⟨a, b, c⟩ := h; subst c; exact ⟨e, a.symm, b.symm⟩
      · simp at h
  obtain ⟨hchk, hhrp, hdata⟩ := hfin
  -- hrp part
  obtain ⟨hH1, hH2⟩ := high_of_decHrp H _ _ hhs
  simp only [List.nil_append] at hH2
  -- data part: T = T1 ++ T2, |T2| = 6
  have hTsplit : T = T.take (L - 6) ++ T.drop (L - 6) := (List.take_append_drop _ _).symm
  generalize hT1 : T.take (L - 6) = T1 at hTsplit
  generalize hT2 : T.drop (L - 6) = T2 at hTsplit
  have hT1len : T1.length = L - 6 := by rw [← hT1]; simp; omega
  have hT2len : T2.length = 6 := by rw [← hT2]; simp; omega
  rw [hTsplit] at hds
  obtain ⟨st1, hd1, hd2⟩ := decData_append T1 T2 _ _ hds
  obtain ⟨f1, v1, l1⟩ := fold_of_decData T1 _ _ hd1
  obtain ⟨f2, v2, l2⟩ := fold_of_decData T2 _ _ hd2
  simp only [List.nil_append] at v1
  have hdata' : data = T1.map charsetRev := by
    rw [hdata, v2, v1, List.take_append_of_le_length (by simp [hT1len])]
    rw [List.take_of_length_le (by simp [hT1len])]
  obtain ⟨c1, c2, c3, c4, c5, c6, hT2e⟩ := len6 T2 hT2len
  rw [hT2e] at f2 l2
  simp only [List.map_cons, List.map_nil] at f2 l2
  obtain ⟨hPhi, hfeed, hsyms⟩ := six_syms _ _ _ _ _ _ _ _ f2
  have hc0 : hi30 st1.chk := dataFold_hi' _ _ _ (hrpLow_hi H _ (ps_hi _)) f1
  have hP := checksum_unique st1.chk ds.chk _ hc0 hPhi hfeed
  -- assemble the encoder run
  unfold encode
  rw [hhrp, hH2, hH1]
  have hHne : ¬ ((H.map asciiLower).length < 1) := by simp only [List.length_map]; omega
  simp only [hHne, ↓reduceIte]
  simp only [Option.bind_eq_bind, Option.bind_some, hrpLow_lower]
  have hlen : ¬ ((H.map asciiLower).length + 7 + data.length > 90) := by
    rw [hdata']; simp [hT1len]; omega
  simp only [hlen, ↓reduceIte]
  rw [hdata', f1]
  simp only [Option.bind_some, Option.pure_def, Option.some.injEq]
  rw [← hchk, ← hP, hsyms, l1]
  simp only [List.map_cons, List.map_nil] at l2 ⊢
  rw [hs, hTsplit, hT2e]
  simp only [List.map_append, List.map_cons, List.map_nil, lower_sep, List.append_assoc]
  have := l2
  simp only [List.cons.injEq] at this
  obtain ⟨a1, a2, a3, a4, a5, a6, _⟩ := this
  rw [a1, a2, a3, a4, a5, a6]

/-- the case the wallet produces: no upper-case letter in the input — re-encoding gives the input itself -/
theorem encode_decode_lower (s hrp data : Bytes) (m : Bool) (hlow : ∀ c ∈ s, isUpper c = false)
    (h : decode s = some (hrp, data, m)) : encode hrp data m = some s := by
  rw [encode_decode s hrp data m h]
  congr 1
  have : ∀ (l : Bytes), (∀ c ∈ l, isUpper c = false) → l.map asciiLower = l := by
    intro l
    induction l with
    | nil => intro _; rfl
    | cons x t ih =>
      intro hl
      simp only [List.map_cons]
      rw [lower_of_notUpper x (hl x (by simp)), ih (fun c hc => hl c (by simp [hc]))]
  exact this s hlow

end GocoinV.Bech32
