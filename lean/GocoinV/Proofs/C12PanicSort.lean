/-
  Proofs.C12PanicSort — the panic branch of `addToSort` (AddToSort dereferences the SortRank of a flagged parent that
  is not in the map) is unreachable when every flagged parent of the record being added is pooled, which is what
  `accept_pre` (Proofs/C12SortRun) establishes for the state in which processTx calls Add: the 3rd fix
  (`spendsReplaced`) guarantees that no flagged parent was on the rbf list that `deleteRbf` removed.

  The fall-through of `fixIndex` (insertion in front of a head whose SortRank is in 1 … sortIndexStep: nil `better`) is
  a known latent defect of the code; it is NOT proved unreachable here, it is excluded by the explicit hypothesis
  `¬ FixFall …`.  Core Lean only.
-/
import GocoinV.Proofs.C12SortRun
namespace GocoinV.Mempool

/-- the guard of the fall-through of `fixIndex`: there is no better neighbour, the worse neighbour `w` has a SortRank
    `rw` with `0 < rw ≤ sortIndexStep` (so that `rw - step` would wrap and `rw / 2 ≠ rw`) -/
def FixFall (s : State) (bt wr : Option Nat) : Prop :=
  bt = none ∧ ∃ w, wr = some w ∧ ¬ rankOf s w > s.sortStep ∧ ¬ rankOf s w / 2 = rankOf s w

theorem reindexDown_panicked (s : State) (rb : Nat) (below : List Nat) :
    (reindexDown s rb below).panicked = s.panicked := by
  unfold reindexDown
  dsimp only
  split <;> rfl

/-- outside its fall-through `fixIndex` does not raise the panic flag -/
theorem fixIndex_panicked (s : State) (b : Nat) (bt wr : Option Nat) (below : List Nat) (h : ¬ FixFall s bt wr) :
    (fixIndex s b bt wr below).panicked = s.panicked := by
  cases bt with
  | none =>
    cases wr with
    | none => rfl
    | some w =>
      simp only [fixIndex]
      split
      · rfl
      · rename_i h1
        split
        · rfl
        · rename_i h2
          exact absurd ⟨rfl, w, rfl, h1, h2⟩ h
  | some p =>
    cases wr with
    | none => rfl
    | some w =>
      simp only [fixIndex]
      split
      · rfl
      · exact reindexDown_panicked _ _ _

/-- target (5): AddToSort does not raise the panic flag when every flagged parent of the record is in the map
    (hypothesis `hpar`) and the insertion does not run into the fall-through of `fixIndex` (hypothesis `hfix`, the
    latent defect kept as is) -/
theorem addToSort_panicked (K : Keys) (s : State) (b : Nat) (t : T2S)
    (hpar : ∀ p ∈ memParents K t, (s.pool.get? p).isSome = true)
    (hfix : ¬ FixFall (insState s b (insJ K s t)) (s.sorted.take (insJ K s t)).getLast?
      (s.sorted.drop (insJ K s t)).head?) :
    (addToSort K s b t).panicked = s.panicked := by
  have h4 : ¬ (!((memParents K t).all fun p => s.pool.has p)) = true := by
    simp only [Bool.not_eq_true', Bool.not_eq_false, List.all_eq_true]
    intro p hp
    exact hpar p hp
  by_cases h1 : s.sortDirty = true
  · unfold addToSort; rw [if_pos h1]
  by_cases h2 : s.sortDisabled = true
  · unfold addToSort; rw [if_neg h1, if_pos h2]
  by_cases h3 : s.sorted.isEmpty = true
  · unfold addToSort; rw [if_neg h1, if_neg h2, if_pos h3]
  rw [addToSort_main K s b t h1 h2 h3 h4]
  exact fixIndex_panicked _ _ _ _ _ hfix

/-- the state in which Add calls AddToSort -/
def addPre (K : Keys) (s : State) (t : T2S) : State :=
  { s with spent := t.tx.ins.foldl (fun (m : AList Nat Nat) i => m.set (K.uidx i.prev i.vout) (K.bidx t.tx.id)) s.spent,
           pool := s.pool.set (K.bidx t.tx.id) t, weightTotal := s.weightTotal + t.tx.weight }

theorem addT2S_eq (K : Keys) (s : State) (t : T2S) :
    addT2S K s t = addToSort K (addPre K s t) (K.bidx t.tx.id) t := rfl

/-- OneTxToSend.Add does not raise the panic flag when every flagged parent of the new record is pooled -/
theorem addT2S_panicked (K : Keys) (s : State) (t : T2S)
    (hpar : ∀ p ∈ memParents K t, (s.pool.get? p).isSome = true)
    (hfix : ¬ FixFall (insState (addPre K s t) (K.bidx t.tx.id) (insJ K (addPre K s t) t))
      ((addPre K s t).sorted.take (insJ K (addPre K s t) t)).getLast?
      ((addPre K s t).sorted.drop (insJ K (addPre K s t) t)).head?) :
    (addT2S K s t).panicked = s.panicked := by
  rw [addT2S_eq, addToSort_panicked K _ _ t ?_ hfix]
  · rfl
  · intro p hp
    show ((s.pool.set (K.bidx t.tx.id) t).get? p).isSome = true
    by_cases e : p = K.bidx t.tx.id
    · rw [e, AList.get?_set_self]; rfl
    · rw [AList.get?_set_other _ _ _ _ e]; exact hpar p hp

/-- … which holds at the call of Add in processTx: in a state with the pool invariant `PoolOK`, for an accumulator `a`
    of the input loop that passed the `spendsReplaced` check, the Add of the new record after `deleteRbf` does not
    raise the panic flag (fall-through of `fixIndex` excluded by `hfix`) -/
theorem accept_add_panicked {K : Keys} {W : Tx → Prop} {rank : TxId → Nat} {u0 : UT} {ν : OutPoint → Nat}
    {A : OutPoint → Prop} {Cf : TxId → Prop} (U : Univ2 K W rank u0 ν) (s : State) (t : Tx) (fl : Flags) (a : Acc)
    (loc : Bool) (h : PoolOK K W ν A Cf s) (ht : W t)
    (hV : ∀ o c, s.utxo.get? o = some c → c.value = ν o)
    (ha : t.ins.foldlM (inputStep K s fl) ({} : Acc) = .ok a)
    (hsr : spendsReplaced K t.ins a.frommem a.rbf = false)
    (hfix : ¬ FixFall (insState (addPre K (deleteRbf K s a.rbf) (newRec t a loc)) (K.bidx t.id)
        (insJ K (addPre K (deleteRbf K s a.rbf) (newRec t a loc)) (newRec t a loc)))
      ((addPre K (deleteRbf K s a.rbf) (newRec t a loc)).sorted.take
        (insJ K (addPre K (deleteRbf K s a.rbf) (newRec t a loc)) (newRec t a loc))).getLast?
      ((addPre K (deleteRbf K s a.rbf) (newRec t a loc)).sorted.drop
        (insJ K (addPre K (deleteRbf K s a.rbf) (newRec t a loc)) (newRec t a loc))).head?) :
    (addT2S K (deleteRbf K s a.rbf) (newRec t a loc)).panicked = (deleteRbf K s a.rbf).panicked := by
  obtain ⟨_, _, hp⟩ := accept_pre U s t fl a loc h ht hV ha hsr
  refine addT2S_panicked K _ _ ?_ hfix
  intro p hpm
  obtain ⟨k, i, hk, hf, e⟩ := (mem_memParents K _ p).mp hpm
  obtain ⟨par, hpar⟩ := hp k i hk hf
  rw [← e, hpar]; rfl

end GocoinV.Mempool
