/-
  Proofs.C12PanicFlags — the two panic branches of `minedFlags` (OneTxToSend.mined: IIdx returns -1; MemInputs of the
  child is nil) are unreachable from states that satisfy the full pool invariant `PoolOK` (in particular `PGood`):
  the spender registered in SpentOutputs under an output of the pooled record `t` has that input (`InvS.sound`), and
  its MemInputs flag is set — otherwise the input would be available on the chain side, i.e. `t` would be confirmed,
  which `PoolW.ncf` excludes — so MemInputs is not nil.  Core Lean only.
-/
import GocoinV.Proofs.C12PanicUnmined
namespace GocoinV.Mempool

/-- one iteration of `mined` does not raise the panic flag in a state that satisfies the loop invariant -/
theorem minedStep_alive {K : Keys} {W : Tx → Prop} {rank : TxId → Nat} {u0 : UT} {ν : OutPoint → Nat}
    {A : OutPoint → Prop} {Cf : TxId → Prop} (U : Univ2 K W rank u0 ν) (hAC : ∀ o, A o → Cf o.1)
    (t : T2S) (n : Nat) (hn : n < t.tx.outs.length) (s : State) (h : MinedInv K W ν A Cf t n s) :
    (minedStep K t s n).panicked = s.panicked := by
  have hb := h.ok.w.base
  obtain ⟨t', ht', htx⟩ := h.self
  have htW : W t.tx := by rw [← htx]; exact hb.poolW _ _ ht'
  unfold minedStep
  dsimp only
  cases hval : s.spent.get? (K.uidx t.tx.id n) with
  | none => rfl
  | some val =>
    simp only []
    cases hr : s.pool.get? val with
    | none => rfl
    | some r =>
      simp only []
      obtain ⟨idx, hidx⟩ := iidx_guard hb.str _ val r hval hr
      rw [hidx]
      simp only []
      split
      · rename_i he
        exfalso
        obtain ⟨j, hj, hju⟩ := iidx_spec K r _ idx hidx
        have hjm : j ∈ r.tx.ins := List.mem_of_getElem? hj
        have hrW := hb.poolW _ _ hr
        obtain ⟨jp, jv⟩ := U.uidx_play _ _ _ _ (Play.prev hrW hjm) (Play.self htW) (VPlay.vin hrW hjm) (VPlay.out htW hn) hju
        have hf : flag r idx = false := flag_nil r (by simpa using he) idx
        rcases h.ok.w.unf _ _ hr idx j hj hf with ha | ⟨_, h2⟩
        · have := hAC _ ha
          rw [jp, ← htx] at this
          exact h.ok.w.ncf _ _ ht' this
        · rw [jv] at h2; exact Nat.lt_irrefl _ h2
      · rfl

/-- target (1): OneTxToSend.mined on a pooled record never raises the panic flag in a state that satisfies the pool
    invariant `PoolOK` against an availability predicate `A` whose outpoints belong to confirmed ids (`Cf`) -/
theorem minedFlags_panicked {K : Keys} {W : Tx → Prop} {rank : TxId → Nat} {u0 : UT} {ν : OutPoint → Nat}
    {A : OutPoint → Prop} {Cf : TxId → Prop} (U : Univ2 K W rank u0 ν) (hAC : ∀ o, A o → Cf o.1)
    (t : T2S) (s : State) (h : PoolOK K W ν A Cf s) (hin : s.pool.get? (K.bidx t.tx.id) = some t) :
    (minedFlags K s t).panicked = s.panicked := by
  cases hs : s.panicked with
  | true => exact (minedFlags_env K s t).sticky hs
  | false =>
    rw [minedFlags_eq]
    unfold iota
    have gen : ∀ n, n ≤ t.tx.outs.length → ((List.range n).foldl (minedStep K t) s).panicked = false ∧
        MinedInv K W ν A Cf t n ((List.range n).foldl (minedStep K t) s) := by
      intro n
      induction n with
      | zero =>
        intro _
        exact ⟨hs, ⟨h.w.mono (fun _ _ _ _ _ _ _ ha => Or.inl ha) (fun _ _ _ hc => hc), h.par⟩,
          ⟨t, hin, rfl⟩, fun _ _ _ _ _ _ _ _ => Nat.zero_le _⟩
      | succ n ih =>
        intro hle
        rw [List.range_succ, List.foldl_append]
        simp only [List.foldl_cons, List.foldl_nil]
        have ih := ih (by omega)
        have hp' : (minedStep K t ((List.range n).foldl (minedStep K t) s) n).panicked = false :=
          (minedStep_alive U hAC t n (by omega) _ ih.2).trans ih.1
        exact ⟨hp', minedStep_ok U hAC t n (by omega) _ ih.2 hp'⟩
    exact (gen _ (Nat.le_refl _)).1

/-- … in particular in a state that satisfies `PGood` over a chain side with `ChainOK` -/
theorem minedFlags_panicked_good {K : Keys} {W : Tx → Prop} {rank : TxId → Nat} {u0 : UT} {ν : OutPoint → Nat}
    (U : Univ2 K W rank u0 ν) (t : T2S) (s : State) (hc : ChainOK u0 ν s) (h : PGood K W u0 ν s)
    (hin : s.pool.get? (K.bidx t.tx.id) = some t) : (minedFlags K s t).panicked = s.panicked := by
  refine minedFlags_panicked U ?_ t s h hin
  intro o ho
  unfold inU at ho
  cases hg : s.utxo.get? o with
  | none => rw [hg] at ho; cases ho
  | some c => exact hc.c3 o c hg

end GocoinV.Mempool
