/-
  Proofs.C06Ext — the two additions to the chain invariant: (b) script validity of the active branch (`TrustedOK`,
  `PathTrusted`: every block of the active branch is stored with the trusted mark, and the mark implies that every
  non-coinbase transaction passed its script oracle) and (a) completeness (`Lost`: a node disappears from the tree
  only if it, or an ancestor, fails `commitTxs` — scripts checked — on the replay of its parent's branch).
  Lemmas about `commitTxs` and the trusted flag, and the bookkeeping for the steps of the reorganisation machinery.
-/
import GocoinV.Proofs.C06Delete
import GocoinV.Proofs.C06Climb
namespace GocoinV.UtxoOps

open GocoinV.ChainTree in
/-- the flag computed by the loop over the transactions is "all scripts ok from the second transaction on" -/
theorem procTxs_flag (u : DB) (h : Nat) (txs : List Tx) (first : Bool) (st st' : CState) (sin sout : Nat) (ok : Bool)
    (hr : procTxs u h first st txs = .ok (st', sin, sout, ok)) : ok = allOkFrom first txs := by
  induction txs generalizing st st' first sin sout ok with
  | nil =>
    simp only [procTxs, pure, Except.pure, Except.ok.injEq, Prod.mk.injEq] at hr
    rw [← hr.2.2.2]; rfl
  | cons tx txs ih =>
    cases first with
    | true =>
      simp only [procTxs, bind, Except.bind, pure, Except.pure, if_true, Bool.not_true, Bool.false_and,
        Bool.false_eq_true, if_false] at hr
      split at hr
      · cases hr
      · rename_i y hy
        simp only [Except.ok.injEq, Prod.mk.injEq] at hr
        rw [← hr.2.2.2]
        simp only [allOkFrom, Bool.true_or, Bool.true_and]
        exact ih false _ _ _ _ _ hy
    | false =>
      simp only [procTxs, bind, Except.bind, pure, Except.pure, Bool.false_eq_true, if_false] at hr
      split at hr
      · cases hr
      · split at hr
        · simp only [throw, throwThe, MonadExceptOf.throw] at hr
          cases hr
        · split at hr
          · cases hr
          · rename_i y hy
            simp only [Except.ok.injEq, Prod.mk.injEq] at hr
            rw [← hr.2.2.2]
            simp only [allOkFrom, Bool.false_or]
            rw [ih false _ _ _ _ _ hy]

/-- the tests of `commitTxs` after the loop over the transactions, as a function of the loop's result -/
def commitFinish (h rwd : Nat) (tr : Bool) (txs : List Tx) (r : CState × Nat × Nat × Bool) : Except Err Changes :=
  if !tr && !r.2.2.2 then .error .scripts
  else if rwd + r.2.1 < r.2.2.1 then .error .outGtIn
  else .ok { deled := r.1.deled, undo := r.1.undo, addList := addListOf h r.1.blUnsp }

theorem commitTxs_eq (u : DB) (h rwd : Nat) (tr : Bool) (txs : List Tx) :
    commitTxs u h rwd tr txs =
      if txs.isEmpty then .error .noCoinbase
      else match procTxs u h true {} txs with
        | .error e => .error e
        | .ok r => commitFinish h rwd tr txs r := by
  unfold commitTxs commitFinish
  simp only [bind, Except.bind, pure, Except.pure, throw, throwThe, MonadExceptOf.throw]
  by_cases he : txs.isEmpty = true
  · simp only [he, if_true]
  · simp only [he, Bool.false_eq_true, if_false]
    cases hp : procTxs u h true {} txs with
    | error e => try rfl
    | ok r =>
      obtain ⟨st, sin, sout, ok⟩ := r
      simp only

/-- `commitTxs` when the list is not empty and the loop succeeded -/
theorem commitTxs_of_loop (u : DB) (h rwd : Nat) (tr : Bool) (txs : List Tx) (r : CState × Nat × Nat × Bool)
    (he : ¬ txs.isEmpty = true) (hp : procTxs u h true {} txs = .ok r) :
    commitTxs u h rwd tr txs = commitFinish h rwd tr txs r := by
  rw [commitTxs_eq, if_neg he, hp]

/-- … and when it is empty or the loop failed, the trusted flag plays no role -/
theorem commitTxs_early (u : DB) (h rwd : Nat) (tr tr' : Bool) (txs : List Tx)
    (hp : txs.isEmpty = true ∨ ∃ e, procTxs u h true {} txs = .error e) :
    commitTxs u h rwd tr txs = commitTxs u h rwd tr' txs ∧ ∃ e, commitTxs u h rwd tr txs = .error e := by
  rw [commitTxs_eq, commitTxs_eq]
  rcases hp with he | ⟨e, hp⟩
  · simp only [he, if_true]; exact ⟨trivial, _, rfl⟩
  · by_cases he : txs.isEmpty = true
    · simp only [he, if_true]; exact ⟨trivial, _, rfl⟩
    · simp only [he, Bool.false_eq_true, if_false, hp]; exact ⟨trivial, _, rfl⟩

theorem commitTxs_cases (u : DB) (h : Nat) (txs : List Tx) :
    (txs.isEmpty = true ∨ ∃ e, procTxs u h true {} txs = .error e) ∨
    (¬ txs.isEmpty = true ∧ ∃ r, procTxs u h true {} txs = .ok r) := by
  by_cases he : txs.isEmpty = true
  · exact Or.inl (Or.inl he)
  · cases hp : procTxs u h true {} txs with
    | error e => exact Or.inl (Or.inr ⟨e, rfl⟩)
    | ok r => exact Or.inr ⟨he, r, rfl⟩

open GocoinV.ChainTree in
/-- a block that `commitTxs` accepts with the scripts checked has `scriptsPass` -/
theorem commitTxs_false_scripts (u : DB) (h rwd : Nat) (txs : List Tx) (ch : Changes)
    (hok : commitTxs u h rwd false txs = .ok ch) : scriptsPass txs = true := by
  rcases commitTxs_cases u h txs with hp | ⟨he, r, hp⟩
  · obtain ⟨_, e, h2⟩ := commitTxs_early u h rwd false false txs hp
    rw [h2] at hok; cases hok
  · rw [commitTxs_of_loop u h rwd false txs r he hp] at hok
    obtain ⟨st, sin, sout, ok⟩ := r
    have hf := procTxs_flag u h txs true _ st sin sout ok hp
    unfold commitFinish at hok
    cases ok with
    | true => unfold scriptsPass; rw [← hf]
    | false => simp at hok

/-- a block refused with the scripts skipped is refused with the scripts checked as well (possibly for another reason) -/
theorem commitTxs_error_false (u : DB) (h rwd : Nat) (tr : Bool) (txs : List Tx) (e : Err)
    (herr : commitTxs u h rwd tr txs = .error e) : ∃ e', commitTxs u h rwd false txs = .error e' := by
  rcases commitTxs_cases u h txs with hp | ⟨he, r, hp⟩
  · exact (commitTxs_early u h rwd false tr txs hp).2
  · rw [commitTxs_of_loop u h rwd tr txs r he hp] at herr
    rw [commitTxs_of_loop u h rwd false txs r he hp]
    unfold commitFinish at herr ⊢
    by_cases h1 : (!false && !r.2.2.2) = true
    · exact ⟨_, by rw [if_pos h1]⟩
    · rw [if_neg h1]
      have h1' : ¬ (!tr && !r.2.2.2) = true := by
        intro hc; apply h1; cases tr <;> simp_all
      rw [if_neg h1'] at herr
      exact ⟨e, herr⟩

open GocoinV.ChainTree in
/-- the replay with scripts skipped and `scriptsPass` together are the replay with scripts checked -/
theorem commitTxs_checked_iff' (u : DB) (h rwd : Nat) (txs : List Tx) (ch : Changes) :
    commitTxs u h rwd false txs = .ok ch ↔ (commitTxs u h rwd true txs = .ok ch ∧ scriptsPass txs = true) := by
  rcases commitTxs_cases u h txs with hp | ⟨he, r, hp⟩
  · obtain ⟨_, e, h2⟩ := commitTxs_early u h rwd false false txs hp
    obtain ⟨_, e', h3⟩ := commitTxs_early u h rwd true true txs hp
    rw [h2, h3]
    constructor
    · intro hc; cases hc
    · rintro ⟨hc, _⟩; cases hc
  · rw [commitTxs_of_loop u h rwd false txs r he hp, commitTxs_of_loop u h rwd true txs r he hp]
    obtain ⟨st, sin, sout, ok⟩ := r
    have hf := procTxs_flag u h txs true _ st sin sout ok hp
    unfold commitFinish scriptsPass
    rw [← hf]
    cases ok <;> simp

end GocoinV.UtxoOps

namespace GocoinV.ChainTree
open GocoinV.UtxoOps

/-- the additions to the invariant that concern script validity: (1) every stored block marked trusted has
    `scriptsPass`; (2) every block of the active branch is stored with that mark -/
structure Ext (c : Chain) (path : List PE) : Prop where
  trusted : TrustedOK c
  onPath : PathTrusted c path

/-- **every block of the active branch passed its script oracle** -/
theorem Ext.scripts {c : Chain} {path : List PE} (x : Ext c path) (hl : Linked c path) :
    ∀ e ∈ path, scriptsPass e.txs = true := by
  induction path with
  | nil => intro e he; cases he
  | cons a rest ih =>
    intro e he
    rcases List.mem_cons.mp he with rfl | h2
    · obtain ⟨_, ⟨blk, hb, hbt⟩, _⟩ := hl
      obtain ⟨s, hs, hst⟩ := x.onPath e List.mem_cons_self
      rw [hb] at hs; cases hs
      rw [← hbt]; exact x.trusted _ _ hb hst
    · exact ih ⟨x.trusted, fun e he => x.onPath e (List.mem_cons_of_mem _ he)⟩ hl.2.2 e h2

theorem Ext.of_store_eq {c c' : Chain} {path : List PE} (x : Ext c path) (hs : c'.store = c.store) : Ext c' path :=
  ⟨fun k s h ht => x.trusted k s (by rw [← hs]; exact h) ht,
   fun e he => by obtain ⟨s, h1, h2⟩ := x.onPath e he; exact ⟨s, by rw [hs]; exact h1, h2⟩⟩

theorem Ext.suffix {c : Chain} {pre post : List PE} (x : Ext c (pre ++ post)) : Ext c post :=
  ⟨x.trusted, fun e he => x.onPath e (List.mem_append_right _ he)⟩

/-- marking the stored block `nx` trusted after `commitTxs` accepted it (scripts checked unless it carried the mark) and
    putting it on top of the path -/
theorem Ext.connect {c c' : Chain} {path : List PE} (x : Ext c path) (nx : Nat) (s : Stored) (h rwd : Nat) (ch : Changes)
    (hs : alookup nx c.store = some s) (hok : commitTxs c.utxo h rwd s.trusted s.txs = .ok ch)
    (hst : c'.store = aset nx { s with trusted := true } c.store) : Ext c' (⟨nx, s.txs⟩ :: path) := by
  have hpass : scriptsPass s.txs = true := by
    cases htr : s.trusted with
    | true => exact x.trusted nx s hs htr
    | false => rw [htr] at hok; exact commitTxs_false_scripts _ _ _ _ _ hok
  refine ⟨?_, ?_⟩
  · intro k s' h ht
    rw [hst, alookup_aset_eq] at h
    by_cases hk : nx = k
    · rw [if_pos hk] at h; cases h; exact hpass
    · rw [if_neg hk] at h; exact x.trusted k s' h ht
  · intro e he
    rw [hst]
    rcases List.mem_cons.mp he with rfl | h2
    · exact ⟨_, by rw [alookup_aset_eq, if_pos rfl], rfl⟩
    · obtain ⟨s', h1, h2'⟩ := x.onPath e h2
      by_cases hk : nx = e.id
      · exact ⟨_, by rw [alookup_aset_eq, if_pos hk], rfl⟩
      · exact ⟨s', by rw [alookup_aset_eq, if_neg hk]; exact h1, h2'⟩

/-- a new untrusted entry under a key that is not on the path -/
theorem Ext.store_aside {c c' : Chain} {path : List PE} (x : Ext c path) (k0 : Nat) (txs : List Tx)
    (hnew : ∀ e ∈ path, e.id ≠ k0) (hst : c'.store = aset k0 { txs := txs, trusted := false } c.store) : Ext c' path := by
  refine ⟨?_, ?_⟩
  · intro k s' h ht
    rw [hst, alookup_aset_eq] at h
    by_cases hk : k0 = k
    · rw [if_pos hk] at h; cases h; cases ht
    · rw [if_neg hk] at h; exact x.trusted k s' h ht
  · intro e he
    obtain ⟨s', h1, h2⟩ := x.onPath e he
    have : ¬ k0 = e.id := fun e1 => hnew e he e1.symm
    exact ⟨s', by rw [hst, alookup_aset_eq, if_neg this]; exact h1, h2⟩

/-- a new trusted entry for a block that `commitTxs` accepted with the scripts checked, put on top of the path -/
theorem Ext.extend {c c' : Chain} {path : List PE} (x : Ext c path) (b : Block) (h rwd : Nat) (ch : Changes) (u : DB)
    (hok : commitTxs u h rwd false b.txs = .ok ch)
    (hst : c'.store = aset b.id { txs := b.txs, trusted := true } c.store) : Ext c' (⟨b.id, b.txs⟩ :: path) := by
  have hpass := commitTxs_false_scripts _ _ _ _ _ hok
  refine ⟨?_, ?_⟩
  · intro k s' h ht
    rw [hst, alookup_aset_eq] at h
    by_cases hk : b.id = k
    · rw [if_pos hk] at h; cases h; exact hpass
    · rw [if_neg hk] at h; exact x.trusted k s' h ht
  · intro e he
    rw [hst]
    rcases List.mem_cons.mp he with rfl | h2
    · exact ⟨_, by rw [alookup_aset_eq, if_pos rfl], rfl⟩
    · obtain ⟨s', h1, h2'⟩ := x.onPath e h2
      by_cases hk : b.id = e.id
      · exact ⟨_, by rw [alookup_aset_eq, if_pos hk], rfl⟩
      · exact ⟨s', by rw [alookup_aset_eq, if_neg hk]; exact h1, h2'⟩

/-- DeleteBranch of a block that is not an ancestor-or-self of any block of the path -/
theorem Ext.deleteBranch {U : List Block} {c : Chain} {path : List PE} (x : Ext c path) (w : TreeWF U c) {nx : Nat}
    {nxt : Node} (hn : getNode c nx = some nxt) (halive : ∀ e ∈ path, ¬ Desc c nx e.id) :
    Ext (deleteBranch c nx) path := by
  refine ⟨?_, ?_⟩
  · intro k s h ht
    by_cases hd : Desc c nx k
    · rw [store_deleteBranch_dead w hn k hd] at h; cases h
    · rw [store_deleteBranch_alive w hn k hd] at h; exact x.trusted k s h ht
  · intro e he
    obtain ⟨s, h1, h2⟩ := x.onPath e he
    exact ⟨s, by rw [store_deleteBranch_alive w hn e.id (halive e he)]; exact h1, h2⟩

-- ------------------------------------------------------------------------------------------ completeness

theorem Lost.of_getNode {U : List Block} {root : Nat} {c c' : Chain} (hg : ∀ x, getNode c' x = getNode c x) :
    Lost U root c c' := by
  intro x hx hn
  rw [hg, ] at hn
  rw [hn] at hx; cases hx

theorem Lost.trans {U : List Block} {root : Nat} {a b c : Chain} (h1 : Lost U root a b) (h2 : Lost U root b c) :
    Lost U root a c := by
  intro x hx hn
  cases hb : getNode b x with
  | none => exact h1 x hx hb
  | some n => exact h2 x (by rw [hb]; rfl) hn

/-- tree ancestors are ancestors in the block tree `U` -/
theorem Desc.toUAnc {U : List Block} {c : Chain} (w : TreeWF U c) {a x : Nat} (h : Desc c a x) : UAnc U a x := by
  induction h with
  | refl => exact UAnc.refl
  | @step x n hn hx _ ih =>
    obtain ⟨b, hbU, hid, hpar, _⟩ := w.blk x n hn hx
    have := UAnc.step hbU (by rw [hpar]; exact ih)
    rw [hid] at this; exact this

/-- a block that `commitTxs` refuses on top of the active branch (map = replay of that branch) is `InvalidOnReplay` -/
theorem invalidOnReplay_on_path {U : List Block} {c : Chain} (w : TreeWF U c) {path : List PE} (hpo : PathOK c 0 path)
    (b : Block) (hpar : b.parent = c.tip) (tr : Bool) (e : Err)
    (herr : commitTxs c.utxo (path.length + 1) (reward (path.length + 1)) tr b.txs = .error e) :
    InvalidOnReplay U c.root b := by
  obtain ⟨u, hru, heq⟩ := hpo.utxo
  rw [commitTxs_congr heq] at herr
  obtain ⟨e', he'⟩ := commitTxs_error_false _ _ _ _ _ _ herr
  exact ⟨path, u, e', Linked_UChain w hpo.linked, by rw [← headId_eq, ← hpo.tip, hpar], hru, he'⟩

/-- DeleteBranch of a block that failed to connect on top of the active branch loses only excused nodes -/
theorem Lost.deleteBranch {U : List Block} {c : Chain} (w : TreeWF U c) {path : List PE} (hpo : PathOK c 0 path)
    {nx : Nat} {nxt : Node} (hn : getNode c nx = some nxt) (hx : nx ≠ c.root) (hpar : nxt.parent = c.tip)
    (s : Stored) (hs : alookup nx c.store = some s) (e : Err)
    (herr : commitTxs c.utxo (path.length + 1) (reward (path.length + 1)) s.trusted s.txs = .error e) :
    Lost U c.root c (deleteBranch c nx) := by
  obtain ⟨b, hbU, hid, hbp, _, _, s', hs', hst⟩ := w.blkData hn hx (w.stored_has_data hn hs)
  rw [hs] at hs'; cases hs'
  have hinv : InvalidOnReplay U c.root b :=
    invalidOnReplay_on_path w hpo b (by rw [hbp, hpar]) s.trusted e (by rw [← hst]; exact herr)
  intro x hxs hnone
  by_cases hd : Desc c nx x
  · exact ⟨b, hbU, by rw [hid]; exact hd.toUAnc w, hinv⟩
  · cases hg : getNode c x with
    | none => rw [hg] at hxs; cases hxs
    | some n =>
      obtain ⟨n', g1, _⟩ := deleteBranch_old w hn x n hg hd
      rw [g1] at hnone; cases hnone

end GocoinV.ChainTree
