/-
  Proofs.C19Order — the order in which writedatfile iterates the index map (Go's map order; list order in the model)
  does not matter to what NewDBExt rebuilds from the snapshot.
-/
import GocoinV.Proofs.C19Open
import GocoinV.Proofs.C19Reopen
import GocoinV.Proofs.C19Run3
namespace GocoinV.Proofs.C19
open GocoinV GocoinV.Qdb

theorem keys_perm {α : Type} {l l' : List (Key × α)} (hp : l.Perm l') : (Keys l).Perm (Keys l') := hp.map _

/-- lookup in an association list with distinct keys does not depend on the order of its entries -/
theorem ilookup_perm {α : Type} (l l' : List (Key × α)) (hp : l.Perm l') (hnd : (Keys l).Nodup) (k : Key) :
    ilookup k l' = ilookup k l := by
  have hnd' : (Keys l').Nodup := (keys_perm hp).nodup_iff.mp hnd
  cases h : ilookup k l with
  | some x =>
    exact ilookup_of_mem_nodup l' hnd' k x (hp.mem_iff.mp (ilookup_key_pair k x l h))
  | none =>
    apply ilookup_none_of_not_mem
    intro hk
    have : k ∈ Keys l := (keys_perm hp).mem_iff.mpr hk
    have := (ilookup_isSome_iff k l).mpr this
    rw [h] at this
    cases this

/-- `loaddat`'s loop on a snapshot of the same records in another order gives every key the same record -/
theorem loaddat_order (ver : Nat) (recs recs' : List (Key × Rec)) (hp : recs.Perm recs') (hnd : (Keys recs).Nodup)
    (hfit : ∀ kr ∈ recs, RecFits kr.1 kr.2) (db : DB) (hdb : db.index = []) (k : Key) :
    ilookup k (memputAll db (snapshotRecs (snapBytes ver recs'))).index =
    ilookup k (memputAll db (snapshotRecs (snapBytes ver recs))).index := by
  have hfit' : ∀ kr ∈ recs', RecFits kr.1 kr.2 := fun kr h => hfit kr (hp.mem_iff.mpr h)
  rw [snapshotRecs_snapBytes ver recs hfit, snapshotRecs_snapBytes ver recs' hfit']
  have hk : ∀ l : List (Key × Rec), Keys (l.map fun kr => (kr.1, strip kr.2)) = Keys l := by
    intro l; simp [Keys, List.map_map, Function.comp_def]
  have hnd' : (Keys recs').Nodup := (keys_perm hp).nodup_iff.mp hnd
  have e1 := memputAll_index (recs.map fun kr => (kr.1, strip kr.2)) db (by
    rw [hdb, List.map_nil, List.nil_append]; have := hk recs; unfold Keys at this; rw [this]; exact hnd)
  have e2 := memputAll_index (recs'.map fun kr => (kr.1, strip kr.2)) db (by
    rw [hdb, List.map_nil, List.nil_append]; have := hk recs'; unfold Keys at this; rw [this]; exact hnd')
  rw [e1, e2, hdb, List.nil_append, List.nil_append]
  exact ilookup_perm _ _ (hp.map _) (by rw [hk]; exact hnd) k
end GocoinV.Proofs.C19
