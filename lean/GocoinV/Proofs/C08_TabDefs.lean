/-
  Proofs.C08_TabDefs — what a precomputed table entry MEANS, in terms of the reference group law
  `GocoinV.Secp` (affine, textbook formulas), plus the list lemmas that glue the per-chunk kernel
  evaluations (`decide +kernel`, one per 256-entry chunk module) into statements about whole tables.
  Core-only.
-/
import GocoinV.Model.FieldIO
import GocoinV.Base.Secp

namespace GocoinV.C08
open GocoinV.Gen.Field5x52

/-- the affine point a 10-limb table entry stands for (coordinates reduced mod p) -/
def ptOfLimbs (l : List Nat) : Secp.Point :=
  some ((Fe.ofList (l.take 5)).val % Secp.p, (Fe.ofList (l.drop 5)).val % Secp.p)

def pts (l : List (List Nat)) : List Secp.Point := l.map ptOfLimbs

/-- every entry is the previous one plus `d` under the reference group law -/
def chainOK (d : Secp.Point) : List Secp.Point → Bool
  | a :: b :: rest => (Secp.add a d == b) && chainOK d (b :: rest)
  | _ => true

/-- `start + i·d` by repeated reference addition -/
def addSteps (d : Secp.Point) (start : Secp.Point) : Nat → Secp.Point
  | 0 => start
  | i+1 => Secp.add (addSteps d start i) d

def iterDbl : Nat → Secp.Point → Secp.Point
  | 0, a => a
  | n+1, a => iterDbl n (Secp.dbl a)

/-- 2^128·G by 128 reference doublings -/
def g128 : Secp.Point := iterDbl 128 Secp.G

theorem chainOK_glue (d : Secp.Point) (l1 l2 : List Secp.Point) (h1 : chainOK d l1 = true)
    (h2 : chainOK d (l1.getLastD none :: l2) = true) (hne : l1 ≠ []) : chainOK d (l1 ++ l2) = true := by
  induction l1 with
  | nil => exact absurd rfl hne
  | cons a t ih =>
    cases t with
    | nil => simpa using h2
    | cons b t' =>
      simp only [chainOK, Bool.and_eq_true] at h1
      simp only [List.cons_append, chainOK, Bool.and_eq_true]
      refine ⟨h1.1, ?_⟩
      have := ih h1.2 (by simpa [List.getLastD] using h2) (by simp)
      simpa using this

theorem chainOK_step (d : Secp.Point) (l : List Secp.Point) (h : chainOK d l = true) (i : Nat)
    (hi : i + 1 < l.length) : l.getD (i + 1) none = Secp.add (l.getD i none) d := by
  induction l generalizing i with
  | nil => simp at hi
  | cons a t ih =>
    cases t with
    | nil => simp at hi
    | cons b t' =>
      simp only [chainOK, Bool.and_eq_true, beq_iff_eq] at h
      cases i with
      | zero => simp [h.1]
      | succ j =>
        have := ih h.2 j (by simpa using hi)
        simpa using this

/-- a table whose consecutive entries differ by `d` and that starts at `s` lists `s + i·d` -/
theorem chain_spec (d s : Secp.Point) (l : List Secp.Point) (h : chainOK d l = true)
    (h0 : l.head? = some s) (i : Nat) (hi : i < l.length) : l.getD i none = addSteps d s i := by
  induction i with
  | zero =>
    cases l with
    | nil => simp at hi
    | cons a t => simp at h0; simp [addSteps, h0]
  | succ j ih =>
    rw [chainOK_step d l h j hi, ih (by omega)]
    rfl

end GocoinV.C08
