/-
  Proofs.C07Pos — the positional block store (Model/PersistPos.lean): with the Seek of LoadBlockIndex as written, every
  index record reads back its own block after ANY history of writes, kills between the data write and the index write,
  and restarts; so the id-keyed data file of Model/Persist.lean is a sound abstraction.  Core Lean only.
-/
import GocoinV.Model.PersistPos
namespace GocoinV.Proofs.C07
open GocoinV.Persist

def Distinct (ents : List (Nat × Nat × Nat)) : Prop := ents.Pairwise (fun a b => a.1 ≠ b.1)

theorem find_of_mem : ∀ (ents : List (Nat × Nat × Nat)), Distinct ents → ∀ p id l, (p, id, l) ∈ ents →
    ents.find? (fun e => e.1 == p) = some (p, id, l)
  | [], _, _, _, _, h => by cases h
  | e :: rest, hd, p, id, l, h => by
    have hd' := List.pairwise_cons.1 hd
    rcases List.mem_cons.1 h with h | h
    · subst h; simp
    · have hne : e.1 ≠ p := hd'.1 _ h
      rw [List.find?_cons]
      have : (e.1 == p) = false := by simpa using hne
      rw [this]
      exact find_of_mem rest hd'.2 p id l h

theorem read_of_mem {f : DatFile} (hd : Distinct f.ents) {p id l : Nat} (h : (p, id, l) ∈ f.ents) : f.read p l = some id := by
  unfold DatFile.read
  rw [find_of_mem f.ents hd p id l h]
  simp

/-- what the directory satisfies at every instant -/
structure PDiskInv (d : PDisk) : Prop where
  nod : Distinct d.dat.ents
  ent : ∀ r ∈ d.idx, (r.fpos, r.id, r.blen) ∈ d.dat.ents
  pos : ∀ r ∈ d.idx, 0 < r.blen

/-- … and what the running process adds: the write position is behind every indexed block -/
structure PInv (s : PSt) : Prop where
  disk : PDiskInv s.d
  bnd : ∀ r ∈ s.d.idx, r.fpos + r.blen ≤ s.n.maxdatfilepos
  offm : s.n.off = s.n.maxdatfilepos

theorem readsBack_of {d : PDisk} (h : PDiskInv d) : readsBack d = true := by
  simp only [readsBack, List.all_eq_true, beq_iff_eq]
  intro r hr
  exact read_of_mem h.nod (h.ent r hr)

theorem le_maxEnd_aux : ∀ (l : List PRec) (m : Nat),
    m ≤ l.foldl (fun m r => max m (r.fpos + r.blen)) m ∧ ∀ r ∈ l, r.fpos + r.blen ≤ l.foldl (fun m r => max m (r.fpos + r.blen)) m
  | [], m => ⟨Nat.le_refl _, fun _ h => by cases h⟩
  | x :: rest, m => by
    obtain ⟨h1, h2⟩ := le_maxEnd_aux rest (max m (x.fpos + x.blen))
    simp only [List.foldl_cons]
    refine ⟨Nat.le_trans (Nat.le_max_left _ _) h1, ?_⟩
    intro r hr
    rcases List.mem_cons.1 hr with hr | hr
    · subst hr; exact Nat.le_trans (Nat.le_max_right _ _) h1
    · exact h2 r hr

theorem popen_inv {d : PDisk} (h : PDiskInv d) : PInv (popen d) :=
  ⟨h, fun r hr => (le_maxEnd_aux d.idx 0).2 r hr, rfl⟩

/-- the data write of writeOne at the sought position keeps every indexed block intact -/
theorem pwriteDat_inv {s : PSt} (h : PInv s) (id l : Nat) :
    PDiskInv (pwriteDat false s id l).d ∧ (s.n.maxdatfilepos, id, l) ∈ (pwriteDat false s id l).d.dat.ents ∧
    (pwriteDat false s id l).n.maxdatfilepos = s.n.maxdatfilepos ∧ (pwriteDat false s id l).n.off = s.n.maxdatfilepos + l ∧
    (pwriteDat false s id l).d.idx = s.d.idx := by
  have hp : writePos false s = s.n.maxdatfilepos := h.offm
  refine ⟨⟨?_, ?_, h.disk.pos⟩, ?_, rfl, by simp [pwriteDat, hp], rfl⟩
  · show Distinct ((s.d.dat.write (writePos false s) id l).ents)
    unfold DatFile.write Distinct
    rw [List.pairwise_append]
    refine ⟨List.Pairwise.sublist List.filter_sublist h.disk.nod, List.pairwise_singleton _ _, ?_⟩
    intro a ha b hb
    simp only [List.mem_filter, Bool.and_eq_true, bne_iff_ne] at ha
    simp only [List.mem_singleton] at hb
    subst hb
    exact ha.2.2
  · intro r hr
    show (r.fpos, r.id, r.blen) ∈ (s.d.dat.write (writePos false s) id l).ents
    unfold DatFile.write
    rw [hp]
    apply List.mem_append_left
    simp only [List.mem_filter, Bool.and_eq_true, Bool.or_eq_true, decide_eq_true_eq, bne_iff_ne]
    have h1 := h.bnd r hr
    have h2 := h.disk.pos r hr
    exact ⟨h.disk.ent r hr, Or.inl h1, by omega⟩
  · show (s.n.maxdatfilepos, id, l) ∈ (s.d.dat.write (writePos false s) id l).ents
    unfold DatFile.write
    rw [hp]
    exact List.mem_append_right _ (by simp)

theorem pwriteIdx_inv {s : PSt} (id l : Nat) (hl : 0 < l) (hd : PDiskInv s.d)
    (hbnd : ∀ r ∈ s.d.idx, r.fpos + r.blen ≤ s.n.maxdatfilepos) (hent : (s.n.maxdatfilepos, id, l) ∈ s.d.dat.ents)
    (hoff : s.n.off = s.n.maxdatfilepos + l) : PInv (pwriteIdx s id l) := by
  refine ⟨⟨hd.nod, ?_, ?_⟩, ?_, hoff⟩
  · intro r hr
    simp only [pwriteIdx, List.mem_append, List.mem_singleton] at hr
    rcases hr with hr | hr
    · exact hd.ent r hr
    · subst hr; exact hent
  · intro r hr
    simp only [pwriteIdx, List.mem_append, List.mem_singleton] at hr
    rcases hr with hr | hr
    · exact hd.pos r hr
    · subst hr; exact hl
  · intro r hr
    simp only [pwriteIdx, List.mem_append, List.mem_singleton] at hr
    show r.fpos + r.blen ≤ s.n.maxdatfilepos + l
    rcases hr with hr | hr
    · have := hbnd r hr; omega
    · subst hr; exact Nat.le_refl _

def lenPos : POp → Prop
  | .write _ l => 0 < l
  | .crashMid _ l => 0 < l
  | .restart => True

theorem pstep_inv {s : PSt} (h : PInv s) (op : POp) (hl : lenPos op) : PInv (pstep false s op) := by
  cases op with
  | write id l =>
    obtain ⟨a, b, c, d, e⟩ := pwriteDat_inv h id l
    exact pwriteIdx_inv id l hl a (by rw [e, c]; exact h.bnd) (by rw [c]; exact b) (by rw [c]; exact d)
  | crashMid id l => exact popen_inv (pwriteDat_inv h id l).1
  | restart => exact popen_inv h.disk

theorem prun_inv : ∀ (ops : List POp) (s : PSt), PInv s → (∀ op ∈ ops, lenPos op) → PInv (prun false s ops)
  | [], _, h, _ => h
  | op :: rest, s, h, hl => prun_inv rest _ (pstep_inv h op (hl op (by simp))) (fun x hx => hl x (by simp [hx]))

theorem pinit_inv : PInv {} := by
  refine ⟨⟨List.Pairwise.nil, ?_, ?_⟩, ?_, rfl⟩ <;> intro r hr <;> cases hr

end GocoinV.Proofs.C07
