/-
  Proofs.C16Listing — reopen_index at history level: what LoadBlockIndex lists after a restart, in terms of the
  history's durable-map specification (every option combination, retention included — the index file is never pruned).
-/
import GocoinV.Proofs.C16Restart
namespace GocoinV.BlockDB

theorem chunks_eq : ∀ (fuel : Nat) (file : Bytes), fuel * 136 > file.length →
    chunks fuel file = (List.range (file.length / 136)).map (fun i => recAt file (136 * i)) := by
  intro fuel
  induction fuel with
  | zero => intro file h; omega
  | succ f ih =>
    intro file h
    unfold chunks
    by_cases hl : file.length < 136
    · simp only [hl, ↓reduceIte]
      have : file.length / 136 = 0 := Nat.div_eq_of_lt hl
      rw [this]; rfl
    · simp only [hl, ↓reduceIte]
      have hlen : (file.drop 136).length = file.length - 136 := by simp
      have e : file.length / 136 = (file.length - 136) / 136 + 1 := by omega
      rw [ih (file.drop 136) (by rw [hlen]; omega), hlen, e, List.range_succ_eq_map]
      simp only [List.map_cons, List.map_map]
      congr 1
      apply List.map_congr_left
      intro i _
      simp only [Function.comp, recAt, List.drop_drop]
      congr 2
      omega

theorem filter_unique {α : Type} (P : α → Bool) (a : α) : ∀ l : List α, l.Nodup → a ∈ l →
    (∀ x ∈ l, P x = true ↔ x = a) → l.filter P = [a] := by
  intro l
  induction l with
  | nil => intro _ h; cases h
  | cons x t ih =>
    intro hnd ha hp
    rw [List.nodup_cons] at hnd
    by_cases hx : x = a
    · subst hx
      have h1 : P x = true := (hp x (by simp)).2 rfl
      have h2 : t.filter P = [] := by
        rw [List.filter_eq_nil_iff]
        intro y hy hpy
        have := (hp y (by simp [hy])).1 hpy
        subst this; exact hnd.1 hy
      simp [List.filter, h1, h2]
    · have h1 : P x = false := by
        cases hpx : P x with
        | false => rfl
        | true => exact absurd ((hp x (by simp)).1 hpx) hx
      have ha' : a ∈ t := by
        rcases List.mem_cons.mp ha with e | e
        · exact absurd e.symm hx
        · exact e
      simp only [List.filter, h1]
      exact ih hnd.2 ha' (fun y hy => hp y (by simp [hy]))

/-- the walk entry of a record that carries a block's own fields -/
theorem walkOf_meta (env : Env) (c : Bytes) (r : Rec) (e : SEnt) (hd : Desc c r) (hm : Meta c e) :
    walkOf env c = ⟨env.hash (e.raw.take 80), e.raw.take 80, e.height, e.raw.length, e.txcount⟩ := by
  have f1 : hasFlag (c.getD 0 0).toNat BLOCK_LENGTH = true := hd.fl_len
  unfold walkOf
  simp only [f1, ↓reduceIte, hm.hdr, hm.height, hm.olen, hm.txs]

/-- After a restart of a closed store that satisfies the invariant: the walk lists, for every key that was added and never
    marked invalid, exactly one entry, with the block's hash / header / height / size / transaction count; every listed entry
    belongs to a key that was added; the rebuilt index record of such a key has the latest trusted flag and the block's size;
    the append position is the end of the index file. -/
theorem reopen_lists (env : Env) (hadv : env.advInvalid = true) (s : State) (sp : Spec) (n : Nat) (hC : Core env s sp n)
    (hn : n < 2^31) (hc : s.isOpen = false) (o : Opts) :
    ∃ ws, (reopen env s.fs o).2 = .walk ws ∧
      (∀ k e, AL.get sp.m k = some e → e.tainted = false →
        ws.filter (fun w => decide (keyOf w.hash = k)) =
          [⟨env.hash (e.raw.take 80), e.raw.take 80, e.height, e.raw.length, e.txcount⟩]) ∧
      (∀ w ∈ ws, ∃ e, AL.get sp.m (keyOf w.hash) = some e) ∧
      (reopen env s.fs o).1.maxidxfilepos = s.fs.idx.length := by
  have hD := hC.disk
  have hI := hC.inv
  have hw := hC.closed hc
  have hm := hI.len_mod
  refine ⟨_, reopen_walk env s.fs o, ?_, ?_, ?_⟩
  · intro k e he ht
    obtain ⟨r0, a1⟩ := hD.ent k e he ht
    have hs := hw k r0 a1
    cases hp : r0.ipos with
    | none => rw [hp] at hs; cases hs
    | some p =>
      obtain ⟨pl, pm⟩ := hI.ipos k r0 p a1 hp
      obtain ⟨mk, md⟩ := hD.mem k r0 p a1 hp
      have mt := hD.specrec k e r0 p he ht a1 hp
      rw [chunks_eq _ _ (by omega), List.filter_map, List.filter_map, List.filter_map, List.filter_filter,
        filter_unique _ (p / 136) _ List.nodup_range (List.mem_range.mpr (by omega))]
      · simp only [List.map_cons, List.map_nil]
        have : 136 * (p / 136) = p := by omega
        rw [this, walkOf_meta env _ r0 e md mt]
      · intro i hi
        have hi' := List.mem_range.mp hi
        simp only [Function.comp, Bool.and_eq_true, decide_eq_true_eq, Bool.not_eq_eq_eq_not, Bool.not_true]
        constructor
        · intro ⟨hk, hv⟩
          obtain ⟨r, b1, b2⟩ := hD.disk (136 * i) (by omega) (by omega) hv
          have hk' : keyOfRec env (recAt s.fs.idx (136 * i)) = k := hk
          rw [hk', a1] at b1; simp only [Option.some.injEq] at b1; subst b1
          rw [hp] at b2; simp only [Option.some.injEq] at b2
          omega
        · intro e1
          have : 136 * i = p := by omega
          rw [this]
          exact ⟨mk, mt.valid⟩
  · intro w hwm
    rw [chunks_eq _ _ (by omega)] at hwm
    simp only [List.mem_map, List.mem_filter, List.mem_range, Bool.not_eq_eq_eq_not, Bool.not_true] at hwm
    obtain ⟨c, ⟨⟨i, hi, rfl⟩, hv⟩, rfl⟩ := hwm
    obtain ⟨r, b1, _⟩ := hD.disk (136 * i) (by omega) (by omega) hv
    exact hD.idxspec _ r b1
  · have := (reopen_inv env hadv s.fs o hm).1.pos (reopen_inv env hadv s.fs o hm).2
    rw [reopen_fs_idx] at this; exact this

/-- the rebuilt index after the restart: the record of a key that was added and never marked invalid carries the latest
    trusted flag and the block's size -/
theorem reopen_index_flags (env : Env) (hadv : env.advInvalid = true) (s : State) (sp : Spec) (n : Nat) (hC : Core env s sp n)
    (hn : n < 2^31) (hc : s.isOpen = false) (o : Opts) :
    ∀ k e r0, AL.get sp.m k = some e → e.tainted = false → AL.get s.index k = some r0 →
      ∃ r, AL.get (reopen env s.fs o).1.index k = some r ∧ r.trusted = r0.trusted ∧ r.olen = e.raw.length ∧
        r.fpos = r0.fpos ∧ r.blen = r0.blen ∧ r.datfileidx = r0.datfileidx := by
  intro k e r0 he ht a1
  have hD := hC.disk
  have hI := hC.inv
  have L := load_linv env hadv s sp n hD hI hn
  obtain ⟨e1, _⟩ := reopen_state env s.fs o
  have hs := hC.closed hc k r0 a1
  cases hp : r0.ipos with
  | none => rw [hp] at hs; cases hs
  | some p =>
    have mt := hD.specrec k e r0 p he ht a1 hp
    obtain ⟨_, md⟩ := hD.mem k r0 p a1 hp
    obtain ⟨q1, q2, q3, _, _, q6, q7, _⟩ := recOf_fields _ r0 p md
    refine ⟨recOf (recAt s.fs.idx p) p, ?_, q6, by rw [q7, mt.olen], q1, q2, q3⟩
    rw [e1]; exact L.l2 k r0 p a1 hp (by have := (hI.ipos k r0 p a1 hp).1; omega) mt.valid

end GocoinV.BlockDB
