/-
  Proofs.C12SortRun — the invariant of the non-dirty sorted list over all operations and all histories
  (helper lemmas for Props/C12 `sorted_list_inv` and the hypothesis-free `template_from_pool`). Core Lean only.
-/
import GocoinV.Proofs.C12SortAdd
import GocoinV.Proofs.C12Compose
import GocoinV.Proofs.C12Run
namespace GocoinV.Mempool

theorem SortInvP.of_inv {K : Keys} {s : State} (h : SortInv K s) : SortInvP K s := fun _ => h

/-! ### processTx -/

/-- the state in which processTx calls Add: the replaced records are gone, the pool invariant holds, the new key is
    free and every flagged input of the new record has its parent in the pool (first half of `accept_ok`) -/
theorem accept_pre {K : Keys} {W : Tx → Prop} {rank : TxId → Nat} {u0 : UT} {ν : OutPoint → Nat}
    {A : OutPoint → Prop} {Cf : TxId → Prop} (U : Univ2 K W rank u0 ν) (s : State) (t : Tx) (fl : Flags) (a : Acc)
    (loc : Bool) (h : PoolOK K W ν A Cf s) (ht : W t)
    (hV : ∀ o c, s.utxo.get? o = some c → c.value = ν o)
    (ha : t.ins.foldlM (inputStep K s fl) ({} : Acc) = .ok a)
    (hsr : spendsReplaced K t.ins a.frommem a.rbf = false) :
    ParOK K (deleteRbf K s a.rbf) ∧ (deleteRbf K s a.rbf).pool.get? (K.bidx t.id) = none ∧
    ∀ k i, t.ins[k]? = some i → flag (newRec t a loc) k = true →
      ∃ p, (deleteRbf K s a.rbf).pool.get? (K.bidx i.prev) = some p := by
  have hb := h.w.base
  have hval : ∀ i ∈ t.ins, ∀ m v, Res K s i m v → v = ν (i.prev, i.vout) := by
    intro i hi m v hr
    rcases hr with ⟨_, par, hp, _, e⟩ | ⟨_, c, hc, e⟩
    · rw [e, ← parent_id U hb ht hi hp]
      exact (U.val_tx _ (hb.poolW _ _ hp) _).symm
    · rw [e]; exact hV _ c hc
  obtain ⟨ms, f1, f2, f3, f4⟩ := inputs_res K s fl ν t.ins {} a hval ha
  have f1' : a.frommem = ms := by simpa using f1
  have e : deleteRbf K s a.rbf = delKeys K R_REPLACED s a.rbf.reverse := rfl
  obtain ⟨i1, i2, i3, _⟩ := delList_spec K W R_REPLACED a.rbf.reverse s hb
  obtain ⟨d1, d2, d3⟩ := deleteRbf_spec K W s a.rbf hb
  have closed := inputs_rbf_closed K s hb.str fl t.ins {} a ha (by intro x hx; simp at hx)
  have notin : ∀ b x, (deleteRbf K s a.rbf).pool.get? b = some x → b ∉ a.rbf := by
    intro b x hx hm
    rw [e, i2 b (List.mem_reverse.mpr hm)] at hx; cases hx
  have keep : ∀ b, b ∉ a.rbf → (deleteRbf K s a.rbf).pool.get? b = s.pool.get? b := by
    intro b hn; rw [e]; exact i3 b (fun hm => hn (List.mem_reverse.mp hm))
  have p1 : ParOK K (deleteRbf K s a.rbf) := by
    intro b x hx k i hk hf
    have hx0 := d3 b x hx
    obtain ⟨p, hp1, hp2, hp3⟩ := h.par b x hx0 k i hk hf
    refine ⟨p, ?_, hp2, hp3⟩
    rw [keep]
    · exact hp1
    · intro hm
      apply notin b x hx
      apply closed _ hm p hp1
      rw [mem_children]
      refine ⟨i.vout, hp3, ?_⟩
      rw [hp2]
      exact hb.str.complete b x hx0 _ (List.mem_map.mpr ⟨i, List.mem_of_getElem? hk, rfl⟩)
  obtain ⟨_, cov⟩ := inputs_rbf_cover K s fl t.ins _ a ha
  have hfree : ∀ u ∈ uidxs K t, (deleteRbf K s a.rbf).spent.get? u = none := by
    intro u hu
    obtain ⟨i, hi, rfl⟩ := List.mem_map.mp hu
    cases hx : (deleteRbf K s a.rbf).spent.get? (K.uidx i.prev i.vout) with
    | none => rfl
    | some x =>
      obtain ⟨e1, e2⟩ := d2 _ x hx
      exact absurd (cov i hi x e1) e2
  have hfresh : (deleteRbf K s a.rbf).pool.get? (K.bidx t.id) = none := by
    cases hx : (deleteRbf K s a.rbf).pool.get? (K.bidx t.id) with
    | none => rfl
    | some old =>
      exfalso
      have k := d1.str.key _ old hx
      have e : old.tx = t := U.base.id_fun _ _ (d1.poolW _ old hx) ht (U.base.bidx_inj _ _ (d1.poolW _ old hx) ht k)
      have hne := U.base.ins_ne t ht
      cases hi : t.ins with
      | nil => exact hne hi
      | cons i r =>
        have hu : K.uidx i.prev i.vout ∈ uidxs K t := by
          unfold uidxs; rw [hi]; simp
        have c := d1.str.complete _ old hx (K.uidx i.prev i.vout) (by rw [e]; exact hu)
        rw [hfree _ hu] at c
        cases c
  have hflag : ∀ k, flag (newRec t a loc) k = ms.getD k false := by
    intro k
    unfold flag newRec
    dsimp only
    split
    · rename_i hz
      rw [f1'] at hz
      rw [count_zero_getD ms k hz]; simp
    · rw [f1']
  refine ⟨p1, hfresh, ?_⟩
  intro k i hk hf
  rw [hflag] at hf
  obtain ⟨v, hr⟩ := f4 k i hk
  rcases hr with ⟨_, par, hp, hlt, _⟩ | ⟨hm, _⟩
  · have hnr := spendsReplaced_spec K a.rbf t.ins a.frommem hsr k i hk (by rw [f1']; exact hf)
    exact ⟨par, by rw [keep _ hnr]; exact hp⟩
  · rw [hm] at hf; cases hf

theorem accept_sort {K : Keys} {W : Tx → Prop} {rank : TxId → Nat} {u0 : UT} {ν : OutPoint → Nat}
    {A : OutPoint → Prop} {Cf : TxId → Prop} (U : Univ2 K W rank u0 ν) (s : State) (t : Tx) (fl : Flags) (a : Acc)
    (loc : Bool) (h : PoolOK K W ν A Cf s) (ht : W t)
    (hV : ∀ o c, s.utxo.get? o = some c → c.value = ν o)
    (ha : t.ins.foldlM (inputStep K s fl) ({} : Acc) = .ok a)
    (hsr : spendsReplaced K t.ins a.frommem a.rbf = false) (hs : SortInv K s) :
    SortInv K (addT2S K (deleteRbf K s a.rbf) (newRec t a loc)) := by
  obtain ⟨p1, hfresh, hp⟩ := accept_pre U s t fl a loc h ht hV ha hsr
  apply addT2S_sort K _ _ (deleteRbf_sort K s a.rbf hs) hfresh
  · intro p hpm
    obtain ⟨k, i, hk, hf, e⟩ := (mem_memParents K _ p).mp hpm
    obtain ⟨par, hpar⟩ := hp k i hk hf
    rw [← e, hpar]; rfl
  · intro c tc hc hm
    obtain ⟨k, i, hk, hf, e⟩ := (mem_memParents K _ _).mp hm
    obtain ⟨p, hp1, _⟩ := p1 c tc hc k i hk hf
    rw [e] at hp1
    have : (newRec t a loc).tx.id = t.id := rfl
    rw [this, hfresh] at hp1; cases hp1

theorem processTx_sort {K : Keys} {W : Tx → Prop} {rank : TxId → Nat} {u0 : UT} {ν : OutPoint → Nat}
    {A : OutPoint → Prop} {Cf : TxId → Prop} (U : Univ2 K W rank u0 ν) (mf : Nat) (s : State) (t : Tx) (fl : Flags)
    (h : PoolOK K W ν A Cf s) (ht : W t) (hV : ∀ o c, s.utxo.get? o = some c → c.value = ν o)
    (hs : SortInv K s) : SortInv K (processTx K mf s t fl).2 := by
  have fr : ∀ (c why : Nat) m, SortInv K (c, rejectTx K s t why m).2 :=
    fun _ why m => hs.same (rejectTx_same K s t why m)
  unfold processTx
  split
  · exact fr _ _ _
  · split
    · exact fr _ _ _
    · split
      · dsimp only
        split
        · exact fr 0 _ _
        · split
          · exact hs.same (SortSame.of_eq rfl rfl rfl rfl rfl)
          · exact hs
      · rename_i a ha
        dsimp only
        split
        · exact fr _ _ _
        · rename_i hsr
          split
          · exact fr _ _ _
          · split
            · exact hs
            · split
              · exact fr _ _ _
              · split
                · exact hs
                · exact accept_sort U s t fl a fl.loc h ht hV ha (by simpa using hsr) hs

/-! ### orphan resolution, submissions -/

theorem txAcceptedAux_sort {K : Keys} {W : Tx → Prop} {rank : TxId → Nat} {u0 : UT} {ν : OutPoint → Nat}
    (U : Univ2 K W rank u0 ν) (mf : Nat) : ∀ (fuel : Nat) (s : State) (recs : List Nat) (d : Nat),
    ChainOK u0 ν s → PGoodP K W u0 ν s → SortInvP K s → SortInvP K (txAcceptedAux K mf fuel s recs d) := by
  intro fuel
  induction fuel with
  | zero => intro s recs d _ _ q hp; cases hp
  | succ n ih =>
    intro s recs d hc h q
    unfold txAcceptedAux
    split
    · exact q
    · split
      · exact ih _ _ _ hc h q
      · split
        · intro hp; cases hp
        · split
          · intro hp; cases hp
          · rename_i txr htxr
            have e1 := rejDelete_env K s txr
            have f1 := rejDelete_frame K W s txr
            dsimp only
            split
            · intro hp; cases hp
            · rename_i t htx
              have e2 := processTx_env K mf (rejDelete K s txr) t {}
              have c1 := hc.of_env e1
              have g2 : PGoodP K W u0 ν (processTx K mf (rejDelete K s txr) t {}).2 := by
                intro hp
                have hp1 := alive_of_env e2 hp
                have g0 := h (alive_of_env e1 hp1)
                have ht : W t := g0.w.base.rejW _ txr t htxr htx
                exact processTx_good U mf _ t {} c1 (g0.frame f1) ht (by intro hu; cases hu)
              have q2 : SortInvP K (processTx K mf (rejDelete K s txr) t {}).2 := by
                intro hp
                have hp1 := alive_of_env e2 hp
                have hp0 := alive_of_env e1 hp1
                have g0 := h hp0
                have ht : W t := g0.w.base.rejW _ txr t htxr htx
                exact processTx_sort U mf _ t {} (g0.frame f1) ht c1.val ((q hp0).same (rejDelete_same K s txr))
              have c2 := c1.of_env e2
              apply ih
              · split
                · split
                  · split
                    · exact c2.of_env ((rejDeleteByIdx_env K _ _).trans (rejectTx_env K _ t _ _))
                    · exact c2
                  · exact c2
                · exact c2
              · split
                · split
                  · split
                    · intro hp
                      have hp2 := alive_of_env ((rejDeleteByIdx_env K _ _).trans (rejectTx_env K _ t _ _)) hp
                      have ht : W t := (h (alive_of_env e1 (alive_of_env e2 hp2))).w.base.rejW _ txr t htxr htx
                      exact (g2 hp2).frame ((rejDeleteByIdx_frame K W _ _).trans (rejectTx_frame K W _ t _ _ ht))
                    · exact g2
                  · exact g2
                · exact g2
              · split
                · split
                  · split
                    · intro hp
                      have hp2 := alive_of_env ((rejDeleteByIdx_env K _ _).trans (rejectTx_env K _ t _ _)) hp
                      exact (q2 hp2).same ((rejDeleteByIdx_same K _ _).trans (rejectTx_same K _ t _ _))
                    · exact q2
                  · exact q2
                · exact q2

theorem txAccepted_sort {K : Keys} {W : Tx → Prop} {rank : TxId → Nat} {u0 : UT} {ν : OutPoint → Nat}
    (U : Univ2 K W rank u0 ν) (mf : Nat) (s : State) (b : Nat) (hc : ChainOK u0 ν s) (h : PGoodP K W u0 ν s)
    (q : SortInvP K s) : SortInvP K (txAccepted K mf s b) :=
  txAcceptedAux_sort U mf _ s _ _ hc h q

theorem submitNet_sort {K : Keys} {W : Tx → Prop} {rank : TxId → Nat} {u0 : UT} {ν : OutPoint → Nat}
    (U : Univ2 K W rank u0 ν) (mf : Nat) (s : State) (t : Tx) (tr : Bool) (hc : ChainOK u0 ν s)
    (h : PGoodP K W u0 ν s) (ht : W t) (q : SortInvP K s) : SortInvP K (submitNet K mf s t tr).2 := by
  unfold submitNet
  dsimp only
  split
  · exact q
  · have e2 := processTx_env K mf s t { trusted := tr }
    have g2 : PGoodP K W u0 ν (processTx K mf s t { trusted := tr }).2 :=
      PGoodP.lift e2 (fun g => processTx_good U mf s t _ hc g ht (by intro hu; cases hu)) h
    have q2 : SortInvP K (processTx K mf s t { trusted := tr }).2 := by
      intro hp
      have hp0 := alive_of_env e2 hp
      exact processTx_sort U mf s t _ (h hp0) ht hc.val (q hp0)
    split
    · exact txAccepted_sort U mf _ _ (hc.of_env e2) g2 q2
    · exact q2

/-- LoadRawTx's "make as own" changes no field the sorted-list invariant reads (keys, inputs and MemInputs stay) -/
theorem markLocal_sort (K : Keys) (s : State) (id : TxId) (h : SortInv K s) : SortInv K (markLocal K s id) := by
  unfold markLocal
  split
  · rename_i r hr
    intro hd hw
    have q := h hd hw
    have look : ∀ x t', (s.pool.set (K.bidx id) { r with loc := true }).get? x = some t' →
        ∃ t0, s.pool.get? x = some t0 ∧ memParents K t' = memParents K t0 := by
      intro x t' hx
      by_cases e : x = K.bidx id
      · rw [e, AList.get?_set_self] at hx
        cases hx
        exact ⟨r, by rw [e]; exact hr, rfl⟩
      · rw [AList.get?_set_other _ _ _ _ e] at hx
        exact ⟨t', hx, rfl⟩
    refine ⟨q.asc, q.bnd, ?_, ?_, ?_⟩
    · intro b
      show b ∈ s.sorted ↔ ((s.pool.set (K.bidx id) { r with loc := true }).get? b).isSome = true
      by_cases e : b = K.bidx id
      · rw [e, AList.get?_set_self]
        have := q.sync (K.bidx id)
        rw [hr] at this
        simpa using this
      · rw [AList.get?_set_other _ _ _ _ e]; exact q.sync b
    · refine List.Pairwise.imp ?_ q.pf
      intro x y hxy t' ht'
      obtain ⟨t0, h0, e⟩ := look x t' ht'
      rw [e]; exact hxy t0 h0
    · intro b t' hb
      obtain ⟨t0, h0, e⟩ := look b t' hb
      rw [e]; exact q.irr b t0 h0
  · exact h

theorem submitLocal_sort {K : Keys} {W : Tx → Prop} {rank : TxId → Nat} {u0 : UT} {ν : OutPoint → Nat}
    (U : Univ2 K W rank u0 ν) (mf : Nat) (s : State) (t : Tx) (hc : ChainOK u0 ν s)
    (h : PGoodP K W u0 ν s) (ht : W t) (q : SortInvP K s) : SortInvP K (submitLocal K mf s t).2 := by
  unfold submitLocal
  dsimp only
  have e1 := rejDeleteByIdx_env K s (K.bidx t.id)
  have g1 : PGoodP K W u0 ν (rejDeleteByIdx K s (K.bidx t.id)) :=
    PGoodP.lift e1 (fun g => g.frame (rejDeleteByIdx_frame K W s _)) h
  have q1 : SortInvP K (rejDeleteByIdx K s (K.bidx t.id)) :=
    SortInvP.lift e1 (fun x => x.same (rejDeleteByIdx_same K s _)) q
  have c1 := hc.of_env e1
  split
  · exact SortInvP.lift (markLocal_env K _ _) (markLocal_sort K _ t.id) q1
  · have e2 := processTx_env K mf (rejDeleteByIdx K s (K.bidx t.id)) t { trusted := true, loc := true }
    have g2 : PGoodP K W u0 ν (processTx K mf (rejDeleteByIdx K s (K.bidx t.id)) t { trusted := true, loc := true }).2 :=
      PGoodP.lift e2 (fun g => processTx_good U mf _ t _ c1 g ht (by intro hu; cases hu)) g1
    have q2 : SortInvP K (processTx K mf (rejDeleteByIdx K s (K.bidx t.id)) t { trusted := true, loc := true }).2 := by
      intro hp
      have hp0 := alive_of_env e2 hp
      exact processTx_sort U mf _ t _ (g1 hp0) ht c1.val (q1 hp0)
    split
    · exact txAccepted_sort U mf _ _ (c1.of_env e2) g2 q2
    · exact q2

/-! ### BlockMined -/

theorem blockMined_sort {K : Keys} {W : Tx → Prop} {rank : TxId → Nat} {u0 : UT} {ν : OutPoint → Nat}
    (U : Univ2 K W rank u0 ν) (mf : Nat) (s : State) (hh : Nat) (txs : List Tx) (hW : ∀ t ∈ txs, W t)
    (hc : ChainOK u0 ν s) (g : PGoodP K W u0 ν s) (hI : InvR K W s)
    (cs : ConnectSound u0 ν s (connectUtxo s hh txs) txs) (q : SortInvP K s) :
    SortInvP K (blockMined K mf (connectUtxo s hh txs) txs) := by
  obtain ⟨e1, _, e3, e4, sc, e5⟩ := connectUtxo_fields s hh txs
  have q0 : SortInvP K (connectUtxo s hh txs) := by
    intro hp; rw [e4] at hp
    exact (q hp).same (connectUtxo_same s hh txs)
  have gAll := blockMined_good U mf s hh txs hW hc g hI cs
  unfold blockMined at gAll ⊢
  split
  · exact q0
  · rename_i hemp
    rw [if_neg hemp] at gAll
    dsimp only at gAll ⊢
    have e6 := foldl_env (txMined K) (fun s t => txMined_env K s t) txs.reverse (connectUtxo s hh txs)
    have q1 : SortInvP K (txs.reverse.foldl (txMined K) (connectUtxo s hh txs)) :=
      SortInvP.lift e6 (foldl_txMined_sort K txs.reverse _) q0
    -- PGoodP of the state between the two loops: blockMined_good for the same block with an empty second loop
    -- is not available, so it is re-derived from `mid_fold` exactly as in `blockMined_good`
    have hb1 := connectUtxo_InvR s hh txs hI hW
    have start : (connectUtxo s hh txs).panicked = false → Mid K W u0 ν s [] (connectUtxo s hh txs) := by
      intro hp
      rw [e4] at hp
      have g0 := g hp
      have : PoolOK K W ν (ADone s []) (CfDone u0 s []) s :=
        ⟨g0.w.mono (fun _ _ _ _ _ _ _ ha => Or.inl ha) (fun _ _ _ hcf => by
          rcases hcf with hcf | ⟨Y, hY, _⟩
          · exact hcf
          · simp at hY), g0.par⟩
      exact ⟨this.of_pool_eq hb1 e1 e3, by intro b x _ i _ ⟨Y, hY, _⟩; simp at hY⟩
    have finish : ∀ cur, Env (connectUtxo s hh txs) cur → (cur.panicked = false → Mid K W u0 ν s txs cur) →
        PGoodP K W u0 ν cur := by
      intro cur e hm hp
      have m := hm hp
      apply PGood.of_env _ e
      refine ⟨m.ok.w.mono ?_ ?_, m.ok.par⟩
      · intro b x hx k i hk _ ha
        have hns := m.ns b x hx i (List.mem_of_getElem? hk)
        rcases ha with ha | ha
        · exact cs.keep _ ha hns
        · exact cs.made _ ha hns
      · intro b x _ hcf
        rcases hcf with hcf | ⟨e', he', Y, hY, hid⟩
        · exact Or.inl (Or.inl hcf)
        · rw [e5] at he'
          rcases List.mem_cons.mp he' with e2 | e2
          · rw [e2] at hY; exact Or.inr ⟨Y, hY, hid⟩
          · exact Or.inl (Or.inr ⟨e', e2, Y, hY, hid⟩)
    have g1 : PGoodP K W u0 ν (txs.reverse.foldl (txMined K) (connectUtxo s hh txs)) := by
      apply finish _ e6
      have hc3 : ∀ o, inU s o → Conf u0 s.undo o.1 := by
        intro o ho
        unfold inU at ho
        cases hx : s.utxo.get? o with
        | none => rw [hx] at ho; cases ho
        | some c => exact hc.c3 o c hx
      have := mid_fold U s hc3 txs.reverse [] (connectUtxo s hh txs)
        (fun X hX => hW X (List.mem_reverse.mp hX)) start
      simpa using this
    have c1 := cs.chain.of_env e6
    have gen : ∀ (l : List Tx) (cur : State), ChainOK u0 ν cur → PGoodP K W u0 ν cur → SortInvP K cur →
        SortInvP K (l.foldl (fun s t => txAccepted K mf s (K.bidx t.id)) cur) := by
      intro l
      induction l with
      | nil => intro cur _ _ h; exact h
      | cons t r ih =>
        intro cur hcc h qq
        simp only [List.foldl_cons]
        exact ih _ (hcc.of_env (txAccepted_env K mf cur _)) (txAccepted_good U mf cur _ hcc h)
          (txAccepted_sort U mf cur _ hcc h qq)
    exact gen txs _ c1 g1 q1

/-! ### BlockUndone -/

theorem undoneStep_sort {K : Keys} {W : Tx → Prop} {rank : TxId → Nat} {u0 : UT} {ν : OutPoint → Nat}
    {A : OutPoint → Prop} {Cf : TxId → Prop} (U : Univ2 K W rank u0 ν) (mf : Nat) (X : Tx) (hX : W X) (cur : State)
    (h : PoolOK K W ν A Cf cur) (hV : ∀ o c, cur.utxo.get? o = some c → c.value = ν o) (q : SortInv K cur) :
    SortInv K (undoneStep K mf cur X) := by
  unfold undoneStep
  dsimp only
  have h1 := h.frame (rejDeleteByIdx_frame K W cur (K.bidx X.id))
  have e1 := rejDeleteByIdx_env K cur (K.bidx X.id)
  have q2 := processTx_sort U mf _ X { trusted := true, unmined := true } h1 hX
    (by intro o c hoc; rw [e1.utxo] at hoc; exact hV o c hoc) (q.same (rejDeleteByIdx_same K cur _))
  split
  · split
    · exact unminedFlags_sort K _ _ q2
    · exact q2.same (SortSame.of_eq rfl rfl rfl rfl rfl)
  · exact q2.same (SortSame.of_eq rfl rfl rfl rfl rfl)

theorem blockUndone_sort {K : Keys} {W : Tx → Prop} {rank : TxId → Nat} {u0 : UT} {ν : OutPoint → Nat}
    (U : Univ2 K W rank u0 ν) (mf : Nat) (s s' : State) (txs : List Tx) (hd : disconnectUtxo s = some (s', txs))
    (hc : ChainOK u0 ν s) (g : PGoodP K W u0 ν s) (hI : InvR K W s)
    (uc : UndoCommitTxs u0 ν s s' txs) (q : SortInvP K s) : SortInvP K (blockUndone K mf s' txs) := by
  obtain ⟨e1, e3, e4, sc, e5⟩ := disconnectUtxo_fields s s' txs hd
  obtain ⟨hb1, hW⟩ := disconnectUtxo_InvR s s' txs hI hd
  have hnd : ∀ X ∈ txs, X.inOps.Nodup := fun X hX => hc.nd (txs, sc) (by rw [e5]; exact List.mem_cons_self) X hX
  have q0 : SortInvP K s' := by
    intro hp; rw [e4] at hp
    exact (q hp).same (disconnectUtxo_same s s' txs hd)
  have start : s'.panicked = false → PoolOK K W ν (BRem s' txs) (Conf u0 s'.undo) s' := by
    intro hp
    rw [e4] at hp
    have g0 := g hp
    have : PoolOK K W ν (BRem s' txs) (Conf u0 s'.undo) s := by
      refine ⟨g0.w.mono ?_ ?_, g0.par⟩
      · intro _ _ _ _ i _ _ ha
        by_cases hcr : createdBy txs (i.prev, i.vout)
        · exact Or.inr hcr
        · exact Or.inl (uc.keep _ ha hcr)
      · intro _ _ _ hcf
        rcases hcf with hcf | ⟨e', he', Y, hY, hid⟩
        · exact Or.inl hcf
        · exact Or.inr ⟨e', by rw [e5]; exact List.mem_cons_of_mem _ he', Y, hY, hid⟩
    exact this.of_pool_eq hb1 e1 e3
  have gen : ∀ (l : List Tx) (cur : State), (∀ X ∈ l, W X ∧ X.inOps.Nodup) → Env s' cur →
      (cur.panicked = false → PoolOK K W ν (BRem s' l) (Conf u0 s'.undo) cur) → SortInvP K cur →
      SortInvP K (l.foldl (undoneStep K mf) cur) := by
    intro l
    induction l with
    | nil => intro cur _ _ _ qq; exact qq
    | cons X r ih =>
      intro cur hl e h qq
      simp only [List.foldl_cons]
      have e2 := undoneStep_env K mf cur X
      obtain ⟨hXW, hXn⟩ := hl X List.mem_cons_self
      apply ih _ (fun Y hY => hl Y (List.mem_cons_of_mem _ hY)) (e.trans e2)
      · intro hp
        exact undoneStep_ok U mf s' uc.chain X r hXW hXn cur e (h (alive_of_env e2 hp)) hp
      · intro hp
        have hp0 := alive_of_env e2 hp
        exact undoneStep_sort U mf X hXW cur (h hp0)
          (by intro o c hoc; rw [e.utxo] at hoc; exact uc.chain.val o c hoc) (qq hp0)
  rw [blockUndone_eq]
  split
  · exact q0
  · exact gen txs s' (fun X hX => ⟨hW X hX, hnd X hX⟩) (Env.refl _) start q0

/-! ### buildSortedList -/

theorem pairwise_of_PfFrom (K : Keys) (s : State) : ∀ (l seen : List Nat), PfFrom K s seen l → l.Nodup →
    (∀ x ∈ seen, x ∉ l) → l.Pairwise (NoLaterParent K s) := by
  intro l
  induction l with
  | nil => intro _ _ _ _; exact List.Pairwise.nil
  | cons b r ih =>
    intro seen h hn hdis
    obtain ⟨⟨t, ht, hpar⟩, h2⟩ := h
    obtain ⟨hbr, hnr⟩ := List.nodup_cons.mp hn
    refine List.Pairwise.cons ?_ (ih (b :: seen) h2 hnr ?_)
    · intro y hy t' ht' hm
      rw [ht] at ht'; cases ht'
      exact hdis y (hpar y hm) (List.mem_cons_of_mem _ hy)
    · intro x hx hxr
      rcases List.mem_cons.mp hx with rfl | hx
      · exact hbr hxr
      · exact hdis x hx (List.mem_cons_of_mem _ hxr)

theorem PfFrom_of_pairwise (K : Keys) (s : State) : ∀ (l seen : List Nat),
    (∀ b ∈ l, ∃ t, s.pool.get? b = some t ∧ ∀ p ∈ memParents K t, p ≠ b ∧ (p ∈ seen ∨ p ∈ l)) →
    l.Pairwise (NoLaterParent K s) → PfFrom K s seen l := by
  intro l
  induction l with
  | nil => intro _ _ _; trivial
  | cons b r ih =>
    intro seen h hp
    obtain ⟨t, ht, hpar⟩ := h b List.mem_cons_self
    obtain ⟨hp1, hp2⟩ := List.pairwise_cons.mp hp
    refine ⟨⟨t, ht, ?_⟩, ih (b :: seen) ?_ hp2⟩
    · intro p hpm
      obtain ⟨hne, hin⟩ := hpar p hpm
      rcases hin with hin | hin
      · exact hin
      · rcases List.mem_cons.mp hin with e | hin
        · exact absurd e hne
        · exact absurd hpm (hp1 p hin t ht)
    · intro c hc
      obtain ⟨tc, htc, hparc⟩ := h c (List.mem_cons_of_mem _ hc)
      refine ⟨tc, htc, ?_⟩
      intro p hpm
      obtain ⟨hne, hin⟩ := hparc p hpm
      refine ⟨hne, ?_⟩
      rcases hin with hin | hin
      · exact Or.inl (List.mem_cons_of_mem _ hin)
      · rcases List.mem_cons.mp hin with e | hin
        · exact Or.inl (by rw [e]; exact List.mem_cons_self)
        · exact Or.inr hin

/-- under the pool invariant no record is its own flagged parent, and flagged parents are pooled -/
theorem good_parents {K : Keys} {W : Tx → Prop} {rank : TxId → Nat} {u0 : UT} {ν : OutPoint → Nat}
    (U : Univ2 K W rank u0 ν) (s : State) (g : PGood K W u0 ν s) (b : Nat) (t : T2S) (hb : s.pool.get? b = some t) :
    ∀ p ∈ memParents K t, p ≠ b ∧ (s.pool.get? p).isSome = true := by
  intro p hp
  obtain ⟨k, i, hk, hf, e⟩ := (mem_memParents K t p).mp hp
  obtain ⟨par, hp1, hp2, _⟩ := g.par b t hb k i hk hf
  rw [e] at hp1
  refine ⟨?_, by rw [hp1]; rfl⟩
  intro hpb
  rw [hpb, hb] at hp1
  cases hp1
  have := U.base.acyclic t.tx (g.w.base.poolW _ _ hb) i (List.mem_of_getElem? hk)
  rw [hp2] at this
  exact Nat.lt_irrefl _ this

theorem buildSorted_sort {K : Keys} {W : Tx → Prop} {rank : TxId → Nat} {u0 : UT} {ν : OutPoint → Nat}
    (U : Univ2 K W rank u0 ν) (s : State) (g : PGood K W u0 ν s) (q : SortInv K s) : SortInv K (buildSorted K s) := by
  unfold buildSorted
  split
  · intro _ hw
    dsimp only at hw ⊢
    obtain ⟨l1, l2, l3⟩ := sortedSlow_listing U s g
    have hroom : rankRoom (if (sortedSlow K s).isEmpty = true then s.sortStep else stepFor s.pool.length)
        (sortedSlow K s).length = true := by
      cases hr : rankRoom (if (sortedSlow K s).isEmpty = true then s.sortStep else stepFor s.pool.length)
        (sortedSlow K s).length with
      | true => rfl
      | false => rw [hr] at hw; simp at hw
    obtain ⟨r1, r2⟩ := rankRoom_spec _ _ hroom
    obtain ⟨a1, a2⟩ := rankFrom_asc _ r1 (sortedSlow K s) SORT_START l1 (by omega)
    refine ⟨a1, fun x hx => (a2 x hx).2, ?_, ?_, ?_⟩
    · intro b
      constructor
      · intro hb
        obtain ⟨y, hy, e⟩ := List.mem_map.mp hb
        have := AList.get?_of_mem _ _ _ g.w.base.nodup (sortedSlowP_sub K s y hy)
        show (s.pool.get? b).isSome = true
        rw [← e, this]; rfl
      · intro hb
        cases hx : s.pool.get? b with
        | none => rw [hx] at hb; cases hb
        | some t => exact l2 b t hx
    · exact pairwise_of_PfFrom K s _ [] l3 l1 (by simp)
    · intro b t hb hm
      exact (good_parents U s g b t hb b hm).1 rfl
  · exact q

/-! ### every operation, every history -/

theorem step_sort {K : Keys} {W : Tx → Prop} {rank : TxId → Nat} {u0 : UT} {ν : OutPoint → Nat}
    (U : Univ2 K W rank u0 ν) (s : State) (op : Op) (h : Full K W u0 ν s) (hW : ∀ t ∈ op.txs, W t)
    (ha : AdmOp u0 ν s op) (q : SortInvP K s) : SortInvP K (step K s op) := by
  cases op with
  | submitNet t tr mf => exact submitNet_sort U mf s t tr h.chain h.good (hW t (by simp [Op.txs])) q
  | submitLocal t mf => exact submitLocal_sort U mf s t h.chain h.good (hW t (by simp [Op.txs])) q
  | block hh txs mf => exact blockMined_sort U mf s hh txs hW h.chain h.good h.inv ha q
  | undo uh mf =>
    simp only [step]
    cases hd : disconnectUtxo s with
    | none => exact q
    | some p =>
      obtain ⟨s', txs⟩ := p
      exact SortInvP.lift (expire_env K _ _) (expire_sort K _ _)
        (blockUndone_sort U mf s s' txs hd h.chain h.good h.inv (ha s' txs hd) q)
  | tip hh =>
    exact SortInvP.lift (s := s) (s' := { s with height := hh }) ⟨rfl, rfl, id⟩
      (fun x => x.same (SortSame.of_eq rfl rfl rfl rfl rfl)) q
  | expire old => exact SortInvP.lift (expire_env K s old) (expire_sort K s old) q
  | evict v =>
    simp only [step]
    cases he : evict K s v with
    | none => exact q
    | some s' => exact SortInvP.lift (evict_env K v s s' he) (evict_sort K v s s' he) q
  | resort =>
    intro hp
    have e := buildSorted_env K s
    have hp0 := alive_of_env e hp
    exact buildSorted_sort U s (h.good hp0) (q hp0)
  | commitFlag y =>
    exact SortInvP.lift (s := s) (s' := { s with sortDisabled := y }) ⟨rfl, rfl, id⟩
      (fun x => x.same (SortSame.of_eq rfl rfl rfl rfl rfl)) q
  | reload => exact fun _ => reload_sort K s

theorem run_sort {K : Keys} {W : Tx → Prop} {rank : TxId → Nat} {u0 : UT} {ν : OutPoint → Nat}
    (U : Univ2 K W rank u0 ν) : ∀ (ops : List Op) (s : State), Full K W u0 ν s → SortInvP K s →
    (∀ op ∈ ops, ∀ t ∈ op.txs, W t) → AdmRun K u0 ν s ops → SortInvP K (run K s ops) := by
  intro ops
  induction ops with
  | nil => intro s _ q _ _; exact q
  | cons op r ih =>
    intro s h q hW ha
    unfold run
    simp only [List.foldl_cons]
    exact ih _ (step_full U s op h (hW op List.mem_cons_self) ha.1)
      (step_sort U s op h (hW op List.mem_cons_self) ha.1 q)
      (fun o ho => hW o (List.mem_cons_of_mem _ ho)) ha.2

theorem sort_genesis (K : Keys) (cfg : Cfg) (u0 : UT) (h0 : Nat) : SortInvP K (genesis cfg u0 h0) := by
  intro _ _ _
  refine ⟨List.Pairwise.nil, ?_, ?_, List.Pairwise.nil, ?_⟩
  · intro b hb; cases hb
  · intro b; simp [genesis, AList.get?]
  · intro b t hb; simp [genesis, AList.get?] at hb

/-- what `template_from_pool` needs of the non-dirty list, from `SortOK` and the pool invariant -/
theorem sortOK_listing {K : Keys} {W : Tx → Prop} {rank : TxId → Nat} {u0 : UT} {ν : OutPoint → Nat}
    (U : Univ2 K W rank u0 ν) (s : State) (g : PGood K W u0 ν s) (o : SortOK K s) :
    s.sorted.Nodup ∧ pfKeys K s [] s.sorted = true ∧ ∀ b t, s.pool.get? b = some t → b ∈ s.sorted := by
  refine ⟨nodup_of_asc _ _ o.asc, ?_, ?_⟩
  · rw [pfKeys_iff]
    apply PfFrom_of_pairwise K s _ [] _ o.pf
    intro b hb
    have hs := (o.sync b).mp hb
    cases hx : s.pool.get? b with
    | none => rw [hx] at hs; cases hs
    | some t =>
      refine ⟨t, rfl, ?_⟩
      intro p hp
      obtain ⟨h1, h2⟩ := good_parents U s g b t hx p hp
      exact ⟨h1, Or.inr ((o.sync p).mpr h2)⟩
  · intro b t hb
    exact (o.sync b).mpr (by rw [hb]; rfl)

end GocoinV.Mempool
