/-
  Proofs.C07JOps — CommitBlockTxs, UndoBlockTxs, ParseTillBlock, FindFirstFather / FindPathTo, MoveToBlock,
  CommitBlock and AcceptBlock keep the consistency invariant (`JD` + `Chain`, Proofs/C07J.lean) as long as no undo
  file of another block is read (ghost flag `St.foreign`).  Core Lean only.
-/
import GocoinV.Proofs.C07J
namespace GocoinV.Proofs.C07
open GocoinV.Persist

variable {bs : List Block} {s : St}

/-! ### the block tree -/

def par (tree : List TNode) (id : BlockId) : BlockId :=
  match tree.find? (·.id == id) with
  | some t => t.parent
  | none => 0

theorem parentOf_eq (n : Node) (id : BlockId) : parentOf n id = par n.tree id := rfl

def InT (tree : List TNode) (id : BlockId) : Prop := ∃ t ∈ tree, t.id = id

theorem find_tree {tree : List TNode} {id : BlockId} (h : InT tree id) :
    ∃ t, tree.find? (·.id == id) = some t ∧ t ∈ tree ∧ t.id = id := by
  obtain ⟨t0, ht0, e⟩ := h
  cases hf : tree.find? (·.id == id) with
  | none =>
    rw [List.find?_eq_none] at hf
    exact absurd (by simp [e]) (hf t0 ht0)
  | some t => exact ⟨t, rfl, List.mem_of_find?_eq_some hf, by simpa using List.find?_some hf⟩

theorem tree_of_block (hwf : WF bs) (h : JD bs s) {b : Block} (hb : b ∈ bs) {t : TNode} (ht : t ∈ s.n.tree) (e : t.id = b.id) :
    t.parent = b.parent ∧ t.height = b.height := by
  obtain ⟨b', hb', e1, e2, e3⟩ := h.treeB t ht
  have : b' = b := hwf.uniq b' hb' b hb (e1.trans e)
  subst this
  exact ⟨e2.symm, e3.symm⟩

theorem par_block (hwf : WF bs) (h : JD bs s) {b : Block} (hb : b ∈ bs) (hin : InT s.n.tree b.id) :
    par s.n.tree b.id = b.parent ∧ heightOf s.n b.id = some b.height := by
  obtain ⟨t, hf, htm, hte⟩ := find_tree hin
  obtain ⟨e1, e2⟩ := tree_of_block hwf h hb htm hte
  refine ⟨by simp only [par, hf, e1], ?_⟩
  have hnz : (b.id == 0) = false := by simpa using hwf.idNZ b hb
  simp only [heightOf, hnz, hf, Option.map_some, e2]
  rfl

theorem not_inT_zero (hwf : WF bs) (h : JD bs s) : ¬ InT s.n.tree 0 := by
  rintro ⟨t, ht, e⟩
  obtain ⟨b, hb, e1, _⟩ := h.treeB t ht
  exact hwf.idNZ b hb (e1.trans e)

theorem par_zero (hwf : WF bs) (h : JD bs s) : par s.n.tree 0 = 0 := by
  unfold par
  cases hf : s.n.tree.find? (·.id == 0) with
  | none => rfl
  | some t =>
    exact absurd ⟨t, List.mem_of_find?_eq_some hf, by simpa using List.find?_some hf⟩ (not_inT_zero hwf h)

theorem par_closed (h : JD bs s) {id : BlockId} (hin : InT s.n.tree id) :
    par s.n.tree id = 0 ∨ InT s.n.tree (par s.n.tree id) := by
  obtain ⟨t, hf, htm, _⟩ := find_tree hin
  simp only [par, hf]
  exact h.treeC t htm

/-! ### walking down the active chain -/

theorem headId_drop_succ {path : List Block} (hc : ChainOK bs path) (j : Nat) :
    ∀ b rest, path.drop j = b :: rest → b.parent = headId (path.drop (j + 1)) := by
  intro b rest hd
  have h1 := ChainOK.drop j hc
  rw [hd] at h1
  have : path.drop (j + 1) = rest := by
    rw [← List.drop_drop, hd]; rfl
  rw [this]; exact h1.2.1

theorem walk_par (hwf : WF bs) (h : JD bs s) {path : List Block} (hc : Chain bs s.n path) (j : Nat) :
    par s.n.tree (headId (path.drop j)) = headId (path.drop (j + 1)) := by
  cases hd : path.drop j with
  | nil =>
    have : path.drop (j + 1) = [] := by rw [← List.drop_drop, hd]; rfl
    rw [this]; exact par_zero hwf h
  | cons b rest =>
    have hbm : b ∈ path := List.mem_of_mem_drop (by rw [hd]; simp)
    rw [show headId (b :: rest) = b.id from rfl, (par_block hwf h (ChainOK.mem hc.ok b hbm) (hc.inT b hbm)).1]
    exact headId_drop_succ hc.ok j b rest hd

theorem walk_height (hwf : WF bs) (h : JD bs s) {path : List Block} (hc : Chain bs s.n path) (j : Nat) :
    heightOf s.n (headId (path.drop j)) = some (path.length - j) := by
  cases hd : path.drop j with
  | nil =>
    have : path.length ≤ j := by
      have := congrArg List.length hd
      simp at this; omega
    have e : path.length - j = 0 := by omega
    rw [e]; rfl
  | cons b rest =>
    have hbm : b ∈ path := List.mem_of_mem_drop (by rw [hd]; simp)
    rw [show headId (b :: rest) = b.id from rfl, (par_block hwf h (ChainOK.mem hc.ok b hbm) (hc.inT b hbm)).2]
    have h1 := ChainOK.drop j hc.ok
    rw [hd] at h1
    have hl := congrArg List.length hd
    simp at hl
    rw [h1.2.2.1]; congr 1; omega

/-- FindFirstFather returns a block of the active chain (or genesis) -/
theorem firstFather_on_chain (hwf : WF bs) (h : JD bs s) {path : List Block} (hc : Chain bs s.n path) :
    ∀ (fuel j : Nat) (y : BlockId), ∃ j', firstFather s.n fuel (headId (path.drop j)) y = headId (path.drop j')
  | 0, j, _ => ⟨j, rfl⟩
  | fuel + 1, j, y => by
    unfold firstFather
    split
    · exact ⟨j, rfl⟩
    · simp only []
      split
      · rw [parentOf_eq, walk_par hwf h hc j]; exact firstFather_on_chain hwf h hc fuel (j + 1) _
      · split
        · exact firstFather_on_chain hwf h hc fuel j _
        · rw [parentOf_eq, walk_par hwf h hc j]; exact firstFather_on_chain hwf h hc fuel (j + 1) _

/-! ### FindPathTo -/

/-- `p` is a top-down list of tree nodes, each the child of the previous one, the first a child of `cur` -/
def Down (tree : List TNode) : BlockId → List BlockId → Prop
  | _, [] => True
  | cur, x :: r => InT tree x ∧ par tree x = cur ∧ Down tree x r

def lastOr (d : BlockId) : List BlockId → BlockId
  | [] => d
  | x :: r => lastOr x r

theorem pathUp_down (h : JD bs s) : ∀ (fuel : Nat) (a b : BlockId) (acc p : List BlockId),
    (b = 0 ∨ InT s.n.tree b) → Down s.n.tree b acc → pathUp s.n fuel a b acc = some p →
    Down s.n.tree a p ∧ lastOr a p = lastOr b acc
  | 0, _, _, _, _, _, _, hp => by simp [pathUp] at hp
  | fuel + 1, a, b, acc, p, hb, hacc, hp => by
    unfold pathUp at hp
    split at hp
    · rename_i hba
      have : b = a := by simpa using hba
      cases hp; subst this; exact ⟨hacc, rfl⟩
    · split at hp
      · cases hp
      · rename_i hb0
        have hb0 : b ≠ 0 := by simpa using hb0
        have hin : InT s.n.tree b := hb.resolve_left hb0
        have := pathUp_down h fuel a (parentOf s.n b) (b :: acc) p (par_closed h hin) ⟨hin, rfl, hacc⟩ hp
        exact ⟨this.1, this.2⟩

/-! ### monotonicity of the ghost flag -/

theorem undoLast_mono (s : St) : (undoLastBlock s).foreign = false → s.foreign = false := by
  unfold undoLastBlock
  split
  · exact id
  · split
    · rw [(fail_frame _ _).2.2.2]; exact id
    · simp only []
      split
      · rw [(fail_frame _ _).2.2.2, (abortSave_neutral (bs := []) _).foreign]; exact id
      · intro hf
        have hf : ((abortSave (s.emit .nop .undoBeforeUtxo)).foreign || _) = false := hf
        rw [Bool.or_eq_false_iff] at hf
        have h1 := hf.1
        rw [(abortSave_neutral (bs := []) (s.emit .nop .undoBeforeUtxo)).foreign] at h1
        exact h1

theorem undoN_mono : ∀ (k : Nat) (s : St), (undoN s k).foreign = false → s.foreign = false
  | 0, _, h => h
  | k + 1, s, h => undoLast_mono s (undoN_mono k _ h)

theorem commitBlockTxs_spec (s : St) (b : Block) (hb : b ∈ bs) :
    ∃ s1, Neutral bs s s1 ∧ commitBlockTxs s b =
      { s1 with n := { s1.n with utxo := commitU s1.n.utxo b, lastHeight := b.height, dirty := true } } :=
  ⟨((((((abortSave s).emit .nop .undoBeforeWrite).emit (.writeUndoTmp { blk := b.id, coins := b.spends }) .undoTmpWritten).emit
      (.renameUndoTmp b.height) .undoRenamed).emit .nop .beforeCommit).emit .nop .afterCommit),
    (((((abortSave_neutral s).then_emit .nop .undoBeforeWrite trivial).then_emit (.writeUndoTmp { blk := b.id, coins := b.spends }) .undoTmpWritten (show EffB bs (.writeUndoTmp { blk := b.id, coins := b.spends }) from ⟨b, hb, rfl⟩)).then_emit (.renameUndoTmp b.height) .undoRenamed
      trivial).then_emit .nop .beforeCommit trivial).then_emit .nop .afterCommit trivial, rfl⟩

theorem commitBlockTxs_foreign (s : St) (b : Block) : (commitBlockTxs s b).foreign = s.foreign := by
  obtain ⟨s1, hn, e⟩ := commitBlockTxs_spec (bs := [b]) s b (by simp)
  rw [e]; exact hn.foreign

theorem commitBlockTxs_err (s : St) (b : Block) : (commitBlockTxs s b).err = s.err := by
  obtain ⟨s1, hn, e⟩ := commitBlockTxs_spec (bs := [b]) s b (by simp)
  rw [e]; exact hn.err

theorem parsePath_foreign : ∀ (p : List BlockId) (s : St), (parsePath s p).foreign = s.foreign
  | [], _ => rfl
  | id :: rest, s => by
    unfold parsePath
    split
    · rfl
    · split
      · exact (fail_frame _ _).2.2.2
      · rename_i b _
        split
        · exact (fail_frame _ _).2.2.2
        · rw [parsePath_foreign rest]
          exact (commitBlockTxs_foreign ((blockTrusted s id).emit .nop .parseBeforeUtxo) b).trans
            (blockTrusted_neutral (bs := []) s id).foreign

theorem moveToBlock_mono (s : St) (dst : BlockId) : (moveToBlock s dst).foreign = false → s.foreign = false := by
  unfold moveToBlock
  simp only []
  intro hf
  apply undoN_mono (s.n.tipHeight - (heightOf s.n (firstFather s.n (2 * fuelOf s.n) s.n.tip dst)).getD 0)
  split at hf
  · exact hf
  · split at hf
    · rwa [(fail_frame _ _).2.2.2] at hf
    · split at hf
      · rwa [parsePath_foreign] at hf
      · have : (parsePath _ _).foreign = false := hf
        rwa [parsePath_foreign] at this

theorem commitBlock_mono (s : St) (b : Block) : (commitBlock s b).foreign = false → s.foreign = false := by
  unfold commitBlock
  split
  · exact id
  · split
    · split
      · exact id
      · intro hf
        have hf : (commitBlockTxs _ b).foreign = false := hf
        rw [commitBlockTxs_foreign] at hf
        have key : ∀ (C : Bool), (if C = true then blockTrusted (s.emit .nop .cBeforeBlockAdd) b.id
            else { (s.emit .nop .cBeforeBlockAdd) with n := blockAdd (s.emit .nop .cBeforeBlockAdd).n b true }).foreign = s.foreign := by
          intro C; cases C
          · rfl
          · exact (blockTrusted_neutral (bs := []) _ _).foreign
        exact (key _).symm.trans hf
    · simp only []
      split
      · intro hf
        have := moveToBlock_mono _ _ hf
        exact this
      · exact id

theorem submit_mono (s : St) (b : Block) : (submit s b).foreign = false → s.foreign = false := by
  unfold submit
  split
  · exact id
  · split
    · exact id
    · split
      · exact id
      · intro hf
        have := commitBlock_mono _ _ hf
        exact this

/-! ### UndoBlockTxs / UndoLastBlock -/

theorem JD.setNode (h : JD bs s) (n' : Node) (h1 : n'.mem = s.n.mem) (h2 : n'.queue = s.n.queue) (h3 : n'.tree = s.n.tree) :
    JD bs { s with n := n' } :=
  ⟨h.prov, h.effs, h1 ▸ h.memB, h2 ▸ h.queueB, h3 ▸ h.treeB, h3 ▸ h.treeC⟩

theorem JD.of_eq (h : JD bs s) (s' : St) (e1 : s'.d = s.d) (e2 : s'.es = s.es) (e3 : s'.n.mem = s.n.mem)
    (e4 : s'.n.queue = s.n.queue) (e5 : s'.n.tree = s.n.tree) : JD bs s' :=
  ⟨e1 ▸ h.prov, e2 ▸ h.effs, e3 ▸ h.memB, e4 ▸ h.queueB, e5 ▸ h.treeB, e5 ▸ h.treeC⟩

theorem JD.setForeign (h : JD bs s) (f : Bool) : JD bs { s with foreign := f } :=
  ⟨h.prov, h.effs, h.memB, h.queueB, h.treeB, h.treeC⟩

theorem blockData_in (h : JD bs s) {id : BlockId} {b : Block} (hb : blockData s id = some b) : b ∈ bs ∧ b.id = id := by
  obtain ⟨hm, e⟩ := blockData_mem hb
  exact ⟨hm.elim (h.memB b) (h.prov.datB b), e⟩

theorem getUndo_mem {l : List (Nat × UndoFile)} {hh : Nat} {u : UndoFile} (h : getUndo l hh = some u) : ∃ p ∈ l, p.2 = u := by
  unfold getUndo at h
  cases hf : l.find? (fun p => p.1 == hh) with
  | none => rw [hf] at h; cases h
  | some p =>
    rw [hf] at h
    exact ⟨p, List.mem_of_find?_eq_some hf, Option.some.inj h⟩

/-- UndoLastBlock: as long as the undo file read belongs to the tip, the chain loses exactly its top block -/
theorem undoLast_spec (hwf : WF bs) (h : JD bs s) {path : List Block} (hc : Chain bs s.n path)
    (hf : (undoLastBlock s).foreign = false) :
    JD bs (undoLastBlock s) ∧ (undoLastBlock s).n.tree = s.n.tree ∧
    ∃ path', Chain bs (undoLastBlock s).n path' ∧ ((undoLastBlock s).err = none → s.err = none ∧ path' = path.drop 1 ∧ path ≠ []) := by
  revert hf
  unfold undoLastBlock
  split
  · rename_i he
    intro _
    refine ⟨h, rfl, path, hc, ?_⟩
    intro h0; rw [h0] at he; cases he
  · split
    · obtain ⟨a, _⟩ := fail_frame s "UndoLastBlock: block data unavailable"
      intro _
      refine ⟨h.fail _, by rw [a], path, by rw [a]; exact hc, ?_⟩
      intro h0; exact absurd h0 (fail_err _ _)
    · rename_i herr _ b hb
      have hs0 : s.err = none := by
        cases hx : s.err with
        | none => rfl
        | some v => simp [hx] at herr
      obtain ⟨hbs, hbid⟩ := blockData_in h hb
      have hN : Neutral bs s (abortSave (s.emit .nop .undoBeforeUtxo)) :=
        (Neutral.emit s .nop .undoBeforeUtxo trivial).trans (abortSave_neutral _)
      have h2 := h.neutral hN
      simp only []
      split
      · obtain ⟨a, _⟩ := fail_frame (abortSave (s.emit .nop .undoBeforeUtxo)) "UndoBlockTxs: undo file missing"
        intro _
        refine ⟨h2.fail _, by rw [a]; exact hN.tree, path, by rw [a]; exact hc.neutral hN, ?_⟩
        intro h0; exact absurd h0 (fail_err _ _)
      · rename_i uf huf
        intro hf
        have hf : ((abortSave (s.emit .nop .undoBeforeUtxo)).foreign || uf.blk != (abortSave (s.emit .nop .undoBeforeUtxo)).n.tip) = false := hf
        rw [Bool.or_eq_false_iff] at hf
        have hblk : uf.blk = s.n.tip := by
          have := hf.2
          rw [hN.tip] at this
          simpa using this
        -- the path is not empty, its top block is `b`
        cases path with
        | nil =>
          exact absurd (hbid.trans hc.tip) (hwf.idNZ b hbs)
        | cons b0 rest =>
          have hb0 : b0 = b := hwf.uniq b0 hc.ok.1 b hbs ((hc.tip.symm.trans hbid.symm))
          subst hb0
          obtain ⟨p, hpm, hpu⟩ := getUndo_mem huf
          obtain ⟨b', hb', hu'⟩ := h2.prov.undoB p hpm
          have hb'b : b' = b0 := by
            apply hwf.uniq b' hb' b0 hbs
            have : uf.blk = b'.id := by rw [← hpu, hu']
            rw [← this, hblk, hc.tip]; rfl
          subst hb'b
          have hcoins : uf.coins = b'.spends := by rw [← hpu, hu']
          refine ⟨?_, hN.tree, rest, ?_, fun _ => ⟨hs0, rfl, by simp⟩⟩
          · exact (h2.neutral (Neutral.emit _ .nop .undoAfterUtxo trivial)).of_eq _ rfl rfl rfl rfl rfl
          · have hc2 := hc.neutral hN
            refine ⟨hc.ok.2.2.2.2, hc.ok.2.1, ?_, ?_, ?_, ?_⟩
            · show SameSet (undoU (abortSave (s.emit .nop .undoBeforeUtxo)).n.utxo b' uf.coins) (rp rest)
              rw [hcoins]
              exact undo_top hwf hc.ok hc2.utxo
            · show (abortSave (s.emit .nop .undoBeforeUtxo)).n.lastHeight - 1 = rest.length
              rw [hc2.lastH]; rfl
            · show b'.height - 1 = rest.length
              rw [hc.ok.2.2.1]; rfl
            · intro x hx
              show ∃ t ∈ (abortSave (s.emit .nop .undoBeforeUtxo)).n.tree, t.id = x.id
              rw [hN.tree]
              exact hc.inT x (List.mem_cons_of_mem _ hx)

theorem undoN_spec (hwf : WF bs) : ∀ (k : Nat) (s : St) (path : List Block), JD bs s → Chain bs s.n path →
    (undoN s k).foreign = false →
    JD bs (undoN s k) ∧ (undoN s k).n.tree = s.n.tree ∧
    ∃ path', Chain bs (undoN s k).n path' ∧ ((undoN s k).err = none → s.err = none ∧ path' = path.drop k ∧ k ≤ path.length)
  | 0, s, path, h, hc, _ => ⟨h, rfl, path, hc, fun h0 => ⟨h0, rfl, Nat.zero_le _⟩⟩
  | k + 1, s, path, h, hc, hf => by
    have hf1 : (undoLastBlock s).foreign = false := undoN_mono k _ hf
    obtain ⟨h1, t1, path1, hc1, e1⟩ := undoLast_spec hwf h hc hf1
    obtain ⟨h2, t2, path2, hc2, e2⟩ := undoN_spec hwf k (undoLastBlock s) path1 h1 hc1 hf
    refine ⟨h2, t2.trans t1, path2, hc2, ?_⟩
    intro h0
    obtain ⟨a1, a2, a3⟩ := e2 h0
    obtain ⟨b1, b2, b3⟩ := e1 a1
    refine ⟨b1, ?_, ?_⟩
    · rw [a2, b2, List.drop_drop]; congr 1; omega
    · rw [b2] at a3
      cases path with
      | nil => exact absurd rfl b3
      | cons x r => simp at a3 ⊢; omega

/-! ### ParseTillBlock -/

/-- one more block on top of the chain -/
theorem Chain.push (hwf : WF bs) {n : Node} {path : List Block} (h : Chain bs n path) {b : Block} (hb : b ∈ bs)
    (hp : b.parent = n.tip) (ht : ∃ t ∈ n.tree, t.id = b.id) (n' : Node) (e1 : n'.tip = b.id)
    (e2 : n'.utxo = commitU n.utxo b) (e3 : n'.lastHeight = b.height) (e4 : n'.tipHeight = b.height) (e5 : n'.tree = n.tree) :
    Chain bs n' (b :: path) := by
  have hh := height_on hwf h.ok hb (hp.trans h.tip)
  refine ⟨⟨hb, hp.trans h.tip, hh, valid_on hwf h.ok hb (hp.trans h.tip), h.ok⟩, e1, ?_, by rw [e3, hh]; rfl, by rw [e4, hh]; rfl, ?_⟩
  · rw [e2]; exact commitU_congr h.utxo b
  · intro x hx
    rw [e5]
    rcases List.mem_cons.1 hx with hx | hx
    · subst hx; exact ht
    · exact h.inT x hx

theorem parsePath_spec (hwf : WF bs) : ∀ (p : List BlockId) (s : St) (path : List Block), JD bs s → Chain bs s.n path →
    Down s.n.tree (headId path) p → s.err = none →
    JD bs (parsePath s p) ∧ (parsePath s p).n.tree = s.n.tree ∧
    ∃ path', Chain bs (parsePath s p).n path' ∧ ((parsePath s p).err = none → headId path' = lastOr (headId path) p)
  | [], s, path, h, hc, _, _ => ⟨h, rfl, path, hc, fun _ => rfl⟩
  | id :: rest, s, path, h, hc, hd, he => by
    unfold parsePath
    rw [if_neg (by simp [he])]
    split
    · obtain ⟨a, _⟩ := fail_frame s "Db.BlockGet(): block data unavailable"
      exact ⟨h.fail _, by rw [a], path, by rw [a]; exact hc, fun h0 => absurd h0 (fail_err _ _)⟩
    · rename_i b hb
      obtain ⟨hbs, hbid⟩ := blockData_in h hb
      split
      · obtain ⟨a, _⟩ := fail_frame s "unsupported: invalid block on the new branch"
        exact ⟨h.fail _, by rw [a], path, by rw [a]; exact hc, fun h0 => absurd h0 (fail_err _ _)⟩
      · obtain ⟨hin, hpar, hrest⟩ := hd
        have hbp : b.parent = s.n.tip := by
          rw [hc.tip, ← hpar, ← hbid]
          exact (par_block hwf h hbs (hbid ▸ hin)).1.symm
        have hN1 : Neutral bs s ((blockTrusted s id).emit .nop .parseBeforeUtxo) :=
          (blockTrusted_neutral s id).then_emit .nop .parseBeforeUtxo trivial
        obtain ⟨s1, hN2, eq⟩ := commitBlockTxs_spec ((blockTrusted s id).emit .nop .parseBeforeUtxo) b hbs
        have hN : Neutral bs s s1 := hN1.trans hN2
        simp only []
        rw [eq]
        -- the state handed to the recursive call
        have hJ : JD bs { ({ s1 with n := { s1.n with utxo := commitU s1.n.utxo b, lastHeight := b.height, dirty := true } } : St).emit .nop .parseAfterUtxo with
            n := { (({ s1 with n := { s1.n with utxo := commitU s1.n.utxo b, lastHeight := b.height, dirty := true } } : St).emit .nop .parseAfterUtxo).n with tip := id, tipHeight := b.height } } :=
          ((h.neutral hN).neutral (Neutral.emit _ .nop .parseAfterUtxo trivial)).of_eq _ rfl rfl rfl rfl rfl
        have hC : Chain bs ({ ({ s1 with n := { s1.n with utxo := commitU s1.n.utxo b, lastHeight := b.height, dirty := true } } : St).emit .nop .parseAfterUtxo with
            n := { (({ s1 with n := { s1.n with utxo := commitU s1.n.utxo b, lastHeight := b.height, dirty := true } } : St).emit .nop .parseAfterUtxo).n with tip := id, tipHeight := b.height } } : St).n (b :: path) := by
          refine (hc.neutral hN).push hwf hbs (by rw [hN.tip]; exact hbp) (by rw [hN.tree]; exact hbid ▸ hin) _ hbid.symm rfl rfl rfl rfl
        have hD : Down s1.n.tree (headId (b :: path)) rest := by
          rw [hN.tree]; show Down s.n.tree b.id rest; rw [hbid]; exact hrest
        obtain ⟨r1, r2, path', r3, r4⟩ := parsePath_spec hwf rest _ (b :: path) hJ hC hD (by show s1.err = none; rw [hN.err]; exact he)
        refine ⟨r1, r2.trans hN.tree, path', r3, ?_⟩
        intro h0
        rw [r4 h0]
        show lastOr b.id rest = lastOr (headId path) (id :: rest)
        rw [hbid]; rfl

/-! ### MoveToBlock -/

theorem moveToBlock_spec (hwf : WF bs) (h : JD bs s) {path : List Block} (hc : Chain bs s.n path) (he : s.err = none)
    (dst : BlockId) (hdst : InT s.n.tree dst) (hf : (moveToBlock s dst).foreign = false) :
    JD bs (moveToBlock s dst) ∧ (moveToBlock s dst).n.tree = s.n.tree ∧
    ∃ path', Chain bs (moveToBlock s dst).n path' ∧ ((moveToBlock s dst).err = none → headId path' = dst) := by
  obtain ⟨j', hj'⟩ := firstFather_on_chain hwf h hc (2 * fuelOf s.n) 0 dst
  have htip0 : headId (path.drop 0) = s.n.tip := hc.tip.symm
  rw [htip0] at hj'
  -- number of blocks to undo
  have hdown : s.n.tipHeight - (heightOf s.n (firstFather s.n (2 * fuelOf s.n) s.n.tip dst)).getD 0 = min j' path.length := by
    rw [hj', walk_height hwf h hc j', hc.tipH]; simp; omega
  have hanc : firstFather s.n (2 * fuelOf s.n) s.n.tip dst = headId (path.drop (min j' path.length)) := by
    rw [hj']
    by_cases hjl : j' ≤ path.length
    · rw [Nat.min_eq_left hjl]
    · rw [Nat.min_eq_right (by omega), List.drop_of_length_le (by omega), List.drop_of_length_le (Nat.le_refl _)]
  unfold moveToBlock at hf ⊢
  simp only [] at hf ⊢
  rw [hdown] at hf ⊢
  rw [hanc] at hf ⊢
  have hfu : (undoN s (min j' path.length)).foreign = false := by
    split at hf
    · exact hf
    · split at hf
      · rwa [(fail_frame _ _).2.2.2] at hf
      · split at hf
        · rwa [parsePath_foreign] at hf
        · have : (parsePath _ _).foreign = false := hf
          rwa [parsePath_foreign] at this
  obtain ⟨h1, t1, path1, hc1, e1⟩ := undoN_spec hwf (min j' path.length) s path h hc hfu
  split
  · rename_i herr
    refine ⟨h1, t1, path1, hc1, ?_⟩
    intro h0; rw [h0] at herr; cases herr
  · rename_i herr
    have he1 : (undoN s (min j' path.length)).err = none := by
      cases hx : (undoN s (min j' path.length)).err with
      | none => rfl
      | some v => simp [hx] at herr
    obtain ⟨_, hp1, _⟩ := e1 he1
    have hN : Neutral bs (undoN s (min j' path.length)) ((undoN s (min j' path.length)).emit .nop .moveUndone) :=
      Neutral.emit _ .nop .moveUndone trivial
    have h2 := h1.neutral hN
    have hc2 := hc1.neutral hN
    split
    · obtain ⟨a, _⟩ := fail_frame ((undoN s (min j' path.length)).emit .nop .moveUndone) "unknown path to block"
      exact ⟨h2.fail _, by rw [a]; exact t1, path1, by rw [a]; exact hc2, fun h0 => absurd h0 (fail_err _ _)⟩
    · rename_i p hp
      have hdn := pathUp_down h2 _ _ _ [] p (Or.inr (by show InT (undoN s (min j' path.length)).n.tree dst; rw [t1]; exact hdst)) trivial hp
      have hD : Down ((undoN s (min j' path.length)).emit .nop .moveUndone).n.tree (headId path1) p := by
        rw [hp1]; exact hdn.1
      obtain ⟨r1, r2, path', r3, r4⟩ := parsePath_spec hwf p _ path1 h2 hc2 hD he1
      split
      · rename_i herr2
        refine ⟨r1, r2.trans t1, path', r3, ?_⟩
        intro h0; rw [h0] at herr2; cases herr2
      · rename_i herr2
        have he2 : (parsePath ((undoN s (min j' path.length)).emit .nop .moveUndone) p).err = none := by
          cases hx : (parsePath ((undoN s (min j' path.length)).emit .nop .moveUndone) p).err with
          | none => rfl
          | some v => simp [hx] at herr2
        have hN3 := Neutral.emit (bs := bs) (parsePath ((undoN s (min j' path.length)).emit .nop .moveUndone) p) .nop .moveDone trivial
        refine ⟨r1.neutral hN3, r2.trans t1, path', r3.neutral hN3, ?_⟩
        intro _
        rw [r4 he2, hp1]
        exact hdn.2

end GocoinV.Proofs.C07
