/-
  Proofs.C13Final — `signatures_verify` assembled: the wallet model's sign_tx (Model/WalletTx.lean) + the
  real script rules (Proofs/C13Script.lean, C13Accept.lean) + C03's signing theorems (Proofs/C13Link.lean).
-/
import GocoinV.Proofs.C13Accept
import GocoinV.Proofs.C13Link
namespace GocoinV.WalletTx
open GocoinV.WalletSpec GocoinV.ScriptSpec GocoinV.Proofs.C13S GocoinV.Proofs.C13L GocoinV.Model
open GocoinV.Script (Oracles TxCtx SigVersion)

/-- the wallet's secrets and the signing primitives as C03 models them: `Signature.Sign` + `Bytes()` with the
    nonce source left open (RFC6979 or random — any function), `secp256k1.SchnorrSign` with its aux randomness -/
structure C03Signer where
  secs : List Nat
  nonce : Nat → Bytes → Nat
  aux : Nat → Bytes → Bytes
  tagged : GocoinV.C03.Hash

def C03Signer.signer (K : C03Signer) : Signer where
  ecdsa k d := ecdsaDer (K.secs.getD k 0) d (K.nonce k d)
  schnorr k d := schnorrSig K.tagged (K.secs.getD k 0) d (K.aux k d)

/-- the compressed public keys of the secrets (what make_wallet lists; C14) -/
def C03Signer.pubs (K : C03Signer) : List Bytes := K.secs.map fun d => Secp.ser33 (Secp.mul d Secp.G)

/-- the ONE signing call sign_tx makes for this input with key `j` succeeds (R ≠ 0) — which call depends on the type of
    the spent script, told apart by its length: 25 bytes = P2PKH ⇒ `Tx.Sign` over the legacy digest; 22 = P2WPKH or
    23 = P2SH-P2WPKH ⇒ `Tx.SignWitness` over the BIP143 digest; 34 = P2TR ⇒ `SchnorrSign` over the BIP341 key-path digest.
    Nothing is asked about the two calls the input type does not make. -/
def CallsOk (C : Crypto) (K : C03Signer) (sk : Skeleton) (spent : List TxOut) (i : Nat) (uo : TxOut) (j : Nat) (h160 : Bytes) : Prop :=
  (uo.script.length = 25 →
    SignOk (K.secs.getD j 0) (C.legacyDigest sk i uo.script 1) (K.nonce j (C.legacyDigest sk i uo.script 1))) ∧
  (uo.script.length = 22 ∨ uo.script.length = 23 →
    SignOk (K.secs.getD j 0) (C.witnessDigest sk i (p2pkhScript h160) uo.value 1)
      (K.nonce j (C.witnessDigest sk i (p2pkhScript h160) uo.value 1))) ∧
  (uo.script.length = 34 →
    (Sig.schnorrSign K.tagged (C.taprootDigest sk spent i 0) (beBytes 32 (K.secs.getD j 0))
      (K.aux j (C.taprootDigest sk spent i 0))).isSome = true)

theorem signatures_verify_real (H : Addr.Hashes) (O : Oracles) (C : Crypto) (K : C03Signer) (f : Flags) (q : Quirks)
    (c : Cfg) (ms : MsFn) (t : Tx) (spent : List TxOut) (i : Nat) (inp : TxIn) (uo : TxOut)
    (hf : FlagsOk f)
    (hO_ecdsa : ∀ pk sg dg, O.ecdsaVerify pk sg dg = some (Sig.ecdsaVerify true pk sg dg))
    (hO_schnorr : ∀ pk sg dg, O.schnorrVerify pk sg dg = some (Sig.schnorrVerify K.tagged pk sg dg))
    (hash_same : O.hash160 = H.hash160) (hash_len : ∀ b, (H.hash160 b).length = 20)
    (dig_legacy : ∀ sc ht, O.sigHashLegacy sc ht = some (C.legacyDigest (skeleton t) i sc ht))
    (dig_wit : ∀ sc ht, O.sigHashWitV0 sc ht = some (C.witnessDigest (skeleton t) i sc uo.value ht))
    (dig_tap : O.sigHashTap none [] 0 0 false = some (C.taprootDigest (skeleton t) spent i 0))
    (hkeys : ∀ d ∈ K.secs, 0 < d ∧ d < Secp.n)
    (hcalls : ∀ j kr, (keyTable H c.bech32 K.pubs)[j]? = some kr → CallsOk C K (skeleton t) spent i uo j kr.h160)
    (no_clash : ∀ j kr, (keyTable H c.bech32 K.pubs)[j]? = some kr →
      K.signer.ecdsa j (C.legacyDigest (skeleton t) i uo.script 1) ++ [1] ≠ kr.h160)
    (nonzero : ∀ (k : Nat) (kr : KeyRec), (keyTable H c.bech32 K.pubs)[k]? = some kr →
      castToBool kr.h160 = true ∧ castToBool ((kr.pub.drop 1).take 32) = true)
    (hwit : t.wit = none) (hin : t.ins[i]? = some inp) (hsp : spent[i]? = some uo) (hms : ms i = none)
    (hown : OwnScript c (keyTable H c.bech32 K.pubs) uo.script)
    (haddr : (Addr.fromPkScript H uo.script c.testnet).isSome)
    (hss : inp.scriptSig = [] ∨ uo.script.length = 25 ∨ uo.script.length = 23) :
    verifyScript O (txCtxOf (runRaw H c (keyTable H c.bech32 K.pubs) t (spent.map some) (sigOf C K.signer spent) ms).1 i)
      uo.script f q = .ok () := by
  -- a table entry is the key of one of the secrets
  have keyOf : ∀ j kr, (keyTable H c.bech32 K.pubs)[j]? = some kr →
      ∃ d, K.secs.getD j 0 = d ∧ 0 < d ∧ d < Secp.n ∧ kr.pub = Secp.ser33 (Secp.mul d Secp.G) := by
    intro j kr hk
    obtain ⟨p, hp, rfl⟩ := keyTable_getElem? H c.bech32 K.pubs j kr hk
    unfold C03Signer.pubs at hp
    rw [List.getElem?_map] at hp
    cases hd : K.secs[j]? with
    | none => simp [hd] at hp
    | some d =>
      simp only [hd, Option.map_some, Option.some.injEq] at hp
      have hm : d ∈ K.secs := List.mem_of_getElem? hd
      exact ⟨d, by simp [List.getD, hd], (hkeys d hm).1, (hkeys d hm).2, by simp [mkKey, hp]⟩
  have pub_len : ∀ p ∈ K.pubs, p.length = 33 := by
    intro p hp
    unfold C03Signer.pubs at hp
    obtain ⟨d, hd, rfl⟩ := List.mem_map.mp hp
    cases hq : Secp.mul d Secp.G with
    | none => exact absurd hq (Proofs.C03.mul_G_ne_none d (hkeys d hd).1 (hkeys d hd).2)
    | some q => obtain ⟨x, y⟩ := q; simp [Secp.ser33, beBytes]
  have hsigner : SignerOk O (keyTable H c.bech32 K.pubs) (sigOf C K.signer spent (skeleton t)) i uo := by
    refine ⟨fun j krj hj hlen => ?_, fun j krj hj hlen => ?_, fun j krj hj hlen => ?_⟩
    · obtain ⟨d, hd, hd0, hdn, hpub⟩ := keyOf j krj hj
      have ok1 := (hcalls j krj hj).1 hlen
      refine ⟨?_, no_clash j krj hj⟩
      simp only [sigOf, C03Signer.signer, hpub]
      rw [hd] at ok1 ⊢
      exact goodSig_of_sign O .base _ d _ _ hd0 hdn ok1 (by simp [dig_legacy]) hO_ecdsa
    · obtain ⟨d, hd, hd0, hdn, hpub⟩ := keyOf j krj hj
      have ok2 := (hcalls j krj hj).2.1 hlen
      simp only [sigOf, C03Signer.signer, hpub]
      rw [hd] at ok2 ⊢
      exact goodSig_of_sign O .witnessV0 _ d _ _ hd0 hdn ok2 (by simp [dig_wit]) hO_ecdsa
    · obtain ⟨d, hd, hd0, hdn, hpub⟩ := keyOf j krj hj
      have ok3 := (hcalls j krj hj).2.2 hlen
      simp only [sigOf, C03Signer.signer, hpub]
      rw [hd] at ok3 ⊢
      obtain ⟨h64, hv⟩ := schnorr_good K.tagged d _ _ hdn ok3
      exact ⟨h64, _, dig_tap, by rw [hO_schnorr, hv]⟩
  exact accept_aux H O f q c K.pubs ms (sigOf C K.signer spent) t spent i inp uo hf hash_same hash_len pub_len
    nonzero hsigner hwit hin hsp hms hown haddr hss

end GocoinV.WalletTx
