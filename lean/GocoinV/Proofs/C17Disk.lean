/-
  Proofs.C17Disk — round trip of the balance index's disk cache (Model.BalancesDisk).
-/
import GocoinV.Proofs.C17
import GocoinV.Model.BalancesDisk
import GocoinV.Proofs.C10RecC
import GocoinV.Proofs.C10Snap
namespace GocoinV.Proofs.C17Disk
open GocoinV GocoinV.CompactSize GocoinV.Model.Balances GocoinV.Model.BalancesDisk GocoinV.Proofs.C17

theorem mkByte_toNat (n : Nat) (first : Bool) : (mkByte n first).toNat = n % 128 + (if first then 0 else 128) := by
  unfold mkByte
  cases first <;> simp <;> omega

theorem wvi_acc : ∀ (f n : Nat) (first : Bool) (acc : Bytes), wvi f n first acc = wvi f n first [] ++ acc := by
  intro f
  induction f with
  | zero => intro n first acc; simp [wvi]
  | succ f ih =>
    intro n first acc
    simp only [wvi]
    split
    · simp
    · rw [ih _ _ (mkByte n first :: acc), ih _ _ [mkByte n first]]; simp

/-- continuation bytes: reading them from 0 leaves the accumulator at n+1 -/
theorem rvi_wvi_cont : ∀ (f n : Nat) (acc : Bytes), n < 128 ^ (f + 1) → n + 1 < U64 →
    rvi 0 (wvi f n false acc) = rvi (n + 1) acc := by
  intro f
  induction f with
  | zero =>
    intro n acc hn hu
    simp only [wvi, rvi, mkByte_toNat]
    have h1 : ((0 * 128) % U64 + (n % 128 + 128) % 128) = n := by simp at hn ⊢; omega
    have h2 : n % 128 + 128 ≥ 128 := by omega
    simp only [Bool.false_eq_true, ↓reduceIte, h2, h1, Nat.mod_eq_of_lt hu]
  | succ f ih =>
    intro n acc hn hu
    simp only [wvi]
    split
    · rename_i hle
      simp only [rvi, mkByte_toNat]
      have h1 : ((0 * 128) % U64 + (n % 128 + 128) % 128) = n := by simp; omega
      have h2 : n % 128 + 128 ≥ 128 := by omega
      simp only [Bool.false_eq_true, ↓reduceIte, h2, h1, Nat.mod_eq_of_lt hu]
    · rename_i hgt
      rw [ih (n / 128 - 1) _ (by rw [Nat.pow_succ] at hn; omega) (by omega)]
      simp only [rvi, mkByte_toNat]
      have e : n / 128 - 1 + 1 = n / 128 := by omega
      have h1 : (((n / 128 - 1 + 1) * 128) % U64 + (n % 128 + 128) % 128) = n := by
        rw [e, Nat.mod_eq_of_lt (by omega)]; omega
      have h2 : n % 128 + 128 ≥ 128 := by omega
      simp only [Bool.false_eq_true, ↓reduceIte, h2, h1, Nat.mod_eq_of_lt hu]

theorem rvi_wvi_top (f n : Nat) (hn : n < 128 ^ (f + 1)) (h : n < U64) (rest : Bytes) :
    rvi 0 (wvi (f + 1) n true rest) = some (n, rest) := by
  simp only [wvi]
  split
  · rename_i hle
    simp only [rvi, mkByte_toNat, ↓reduceIte]
    have h1 : ((0 * 128) % U64 + (n % 128 + 0) % 128) = n := by simp; omega
    have h2 : ¬ (n % 128 + 0 ≥ 128) := by omega
    simp only [h2, ↓reduceIte, h1]
  · rename_i hgt
    rw [rvi_wvi_cont f (n / 128 - 1) _ (by omega) (by omega)]
    simp only [rvi, mkByte_toNat, ↓reduceIte]
    have e : n / 128 - 1 + 1 = n / 128 := by omega
    have h1 : (((n / 128 - 1 + 1) * 128) % U64 + (n % 128 + 0) % 128) = n := by
      rw [e, Nat.mod_eq_of_lt (by omega)]; omega
    have h2 : ¬ (n % 128 + 0 ≥ 128) := by omega
    simp only [h2, ↓reduceIte, h1]

theorem readVarInt_writeVarInt (n : Nat) (h : n < U64) (rest : Bytes) :
    readVarInt (writeVarInt n ++ rest) = some (n, rest) := by
  unfold readVarInt writeVarInt
  rw [← wvi_acc]
  exact rvi_wvi_top 9 n (by unfold U64 at h; omega) h rest

/-- an entry the Go types can hold: 8 key bytes, uint32 vout -/
def WFInp (i : Inp) : Prop := i.1.length = 8 ∧ i.2 < 2 ^ 32

theorem split12 (a c r : Bytes) (ha : a.length = 8) (hc : c.length = 4) :
    (a ++ (c ++ r)).take 8 = a ∧ ((a ++ (c ++ r)).drop 8).take 4 = c ∧ (a ++ (c ++ r)).drop 12 = r := by
  have e0 : (a ++ (c ++ r)).take 8 = a := by
    have := List.take_left (l₁ := a) (l₂ := c ++ r); rwa [ha] at this
  have e1 : (a ++ (c ++ r)).drop 8 = c ++ r := by
    have := List.drop_left (l₁ := a) (l₂ := c ++ r); rwa [ha] at this
  have e2 : (c ++ r).take 4 = c := by
    have := List.take_left (l₁ := c) (l₂ := r); rwa [hc] at this
  have e3 : (c ++ r).drop 4 = r := by
    have := List.drop_left (l₁ := c) (l₂ := r); rwa [hc] at this
  refine ⟨e0, by rw [e1, e2], ?_⟩
  have : (a ++ (c ++ r)).drop 12 = ((a ++ (c ++ r)).drop 8).drop 4 := by rw [List.drop_drop]
  rw [this, e1, e3]

theorem readInps_enc (l : List Inp) (h : ∀ i ∈ l, WFInp i) (rest : Bytes) :
    readInps l.length ((l.map encInp).flatten ++ rest) = some (l, rest) := by
  induction l with
  | nil => simp [readInps]
  | cons i t ih =>
    obtain ⟨h8, hv⟩ := h i (by simp)
    have ht := ih (fun j hj => h j (List.mem_cons_of_mem _ hj))
    have hl4 : (leBytes 4 i.2).length = 4 := by simp [leBytes_length]
    obtain ⟨e0, e1, e2⟩ := split12 i.1 (leBytes 4 i.2) ((t.map encInp).flatten ++ rest) h8 hl4
    have hs : shorter (i.1 ++ (leBytes 4 i.2 ++ ((t.map encInp).flatten ++ rest))) 12 = false :=
      (shorter_false_iff _ _).mpr (by simp only [List.length_append, h8, hl4]; omega)
    have hvv : leVal (leBytes 4 i.2) = i.2 := by
      rw [leVal_leBytes]; exact Nat.mod_eq_of_lt (by omega)
    have hi : encInp i = i.1 ++ leBytes 4 i.2 := rfl
    simp only [List.length_cons, List.map_cons, List.flatten_cons, readInps, hi, List.append_assoc,
      hs, Bool.false_eq_true, ↓reduceIte, e2, ht, e0, e1, hvv]

/-- a record of the index as the invariant keeps it and the Go types can hold it -/
structure WFBal (b : Bal) : Prop where
  ne : b.unsp ≠ []
  len : b.unsp.length < U64
  inps : ∀ i ∈ b.unsp, WFInp i
  val : b.value < 2 ^ 64
  amt : AmountCompress.compressExact b.value < 2 ^ 64
  nodup : b.unsp.Nodup

/-- the record after a reload: same Value, same entries; the layout is re-chosen by `count >= useMapCnt` -/
def norm (um : Nat) (b : Bal) : Bal := { value := b.value, unsp := b.unsp, isMap := decide (um ≤ b.unsp.length) }

theorem newAddrBal_save (um : Nat) (b : Bal) (h : WFBal b) (rest : Bytes) :
    newAddrBal um (writeVarInt (AmountCompress.compress b.value) ++
      (writeVarInt b.unsp.length ++ ((b.unsp.map encInp).flatten ++ rest))) = (some (norm um b), rest) := by
  obtain ⟨hcv, hrt⟩ := UtxoRec.amount_rt b.value h.val h.amt
  have hne : b.unsp.length ≠ 0 := by
    intro e; exact h.ne (List.eq_nil_of_length_eq_zero e)
  unfold newAddrBal
  rw [readVarInt_writeVarInt _ hcv]
  simp only []
  rw [readVarInt_writeVarInt _ h.len]
  simp only [hne, ↓reduceIte, readInps_enc b.unsp h.inps rest, hrt]
  unfold norm
  by_cases hm : um ≤ b.unsp.length
  · simp [hm, mapOfList_nodup h.nodup]
  · simp [hm]

theorem saveRec_wf (key : Nat) (b : Bal) (h : WFBal b) :
    saveRec key b = leBytes 8 key ++ (writeVarInt (AmountCompress.compress b.value) ++
      (writeVarInt b.unsp.length ++ (b.unsp.map encInp).flatten)) := by
  unfold saveRec
  have : b.unsp.isEmpty = false := by
    cases hb : b.unsp with
    | nil => exact absurd hb h.ne
    | cons _ _ => rfl
  simp [this]

theorem pow8 : (256 : Nat) ^ 8 = 18446744073709551616 := by decide

theorem loadRecs_save (um : Nat) (m : List (Nat × Bal)) (hk : ∀ p ∈ m, p.1 < 2 ^ 64 ∧ WFBal p.2) (extra : Bytes) :
    loadRecs um m.length ((m.map (fun p => saveRec p.1 p.2)).flatten ++ extra)
      = some (m.map (fun p => (p.1, some (norm um p.2)))) := by
  induction m with
  | nil => simp [loadRecs]
  | cons p t ih =>
    obtain ⟨hkey, hb⟩ := hk p (by simp)
    have ht := ih (fun q hq => hk q (List.mem_cons_of_mem _ hq))
    have h8 : (leBytes 8 p.1).length = 8 := by simp [leBytes_length]
    simp only [List.length_cons, List.map_cons, List.flatten_cons, loadRecs, saveRec_wf p.1 p.2 hb, List.append_assoc]
    have hs : ∀ r : Bytes, shorter (leBytes 8 p.1 ++ r) 8 = false := fun r =>
      (shorter_false_iff _ _).mpr (by simp only [List.length_append, h8]; omega)
    have e0 : ∀ r : Bytes, (leBytes 8 p.1 ++ r).take 8 = leBytes 8 p.1 := fun r => by
      have := List.take_left (l₁ := leBytes 8 p.1) (l₂ := r); rwa [h8] at this
    have e1 : ∀ r : Bytes, (leBytes 8 p.1 ++ r).drop 8 = r := fun r => by
      have := List.drop_left (l₁ := leBytes 8 p.1) (l₂ := r); rwa [h8] at this
    have hv : leVal (leBytes 8 p.1) = p.1 := by
      rw [leVal_leBytes, pow8]; exact Nat.mod_eq_of_lt (by omega)
    simp only [hs, Bool.false_eq_true, ↓reduceIte, e0, e1, hv, newAddrBal_save um p.2 hb, ht]

/-- save_map then load_map: the pairs come back in file order with the same key, Value and entries -/
theorem loadPairs_saveMap (um : Nat) (m : List (Nat × Bal)) (hl : m.length < 2 ^ 64)
    (hk : ∀ p ∈ m, p.1 < 2 ^ 64 ∧ WFBal p.2) (extra : Bytes) :
    loadPairs um (saveMap m ++ extra) = some (m.map (fun p => (p.1, some (norm um p.2)))) := by
  unfold loadPairs saveMap
  rw [List.append_assoc, UtxoRec.readVLen_putULe m.length hl]
  exact loadRecs_save um m hk extra

/-! ### the history event `.reload` (Model.Balances.relayout) is this round trip -/

/-- the record as `OneAllAddrBal.Save` writes it: a map record's entries in Go's iteration order -/
def asSaved (ord : List Inp) (b : Bal) : Bal := { b with unsp := savedOrder ord b }

theorem wfBal_asSaved (ord : List Inp) (b : Bal) (h : WFBal b) : WFBal (asSaved ord b) := by
  have hp := GocoinV.Proofs.C17.savedOrder_perm ord b
  refine ⟨?_, ?_, ?_, h.val, h.amt, (hp.nodup_iff).2 h.nodup⟩
  · intro e
    have e' : savedOrder ord b = [] := e
    rw [e'] at hp
    exact h.ne (List.Perm.eq_nil (List.Perm.symm hp))
  · show (savedOrder ord b).length < U64
    rw [hp.length_eq]; exact h.len
  · intro i hi
    exact h.inps i ((hp.mem_iff).1 hi)

theorem norm_asSaved (um : Nat) (ord : List Inp) (b : Bal) (h : b.unsp.Nodup) :
    norm um (asSaved ord b) = relayout um ord b := by
  have hp := GocoinV.Proofs.C17.savedOrder_perm ord b
  have hn : (savedOrder ord b).Nodup := (hp.nodup_iff).2 h
  unfold norm asSaved relayout
  simp only []
  by_cases hle : um ≤ (savedOrder ord b).length
  · simp only [hle, decide_true, if_true, GocoinV.Proofs.C17.mapOfList_nodup hn]
  · simp only [hle, decide_false, if_false]

/-- every record of a file that `load_map` accepts is a real record (no nil pointer is stored any more) -/
theorem loadRecs_all_some (um : Nat) : ∀ (n : Nat) (b : Bytes) (l : List (Nat × Option Bal)),
    loadRecs um n b = some l → l.length = n ∧ ∀ p ∈ l, p.2.isSome = true := by
  intro n
  induction n with
  | zero => intro b l h; simp [loadRecs] at h; subst h; simp
  | succ n ih =>
    intro b l h
    simp only [loadRecs] at h
    split at h
    · cases h
    · split at h
      · cases h
      · rename_i ob r x heq
        split at h
        · cases h
        · rename_i l' hl'
          simp only [Option.some.injEq] at h
          subst h
          obtain ⟨hlen, hall⟩ := ih _ _ hl'
          refine ⟨by simp [hlen], ?_⟩
          intro p hp
          rcases List.mem_cons.mp hp with rfl | hp
          · simp [heq]
          · exact hall p hp

theorem loadAll_some (um : Nat) : ∀ (fs : List (Option Bytes)) (ls : List (List (Nat × Option Bal))),
    GocoinV.Model.BalancesDisk.loadAll um fs = some ls →
      ls.length = fs.length ∧ (∀ f ∈ fs, ∃ b, f = some b ∧ (loadPairs um b).isSome = true) ∧ ∀ l ∈ ls, ∀ p ∈ l, p.2.isSome = true := by
  intro fs
  induction fs with
  | nil => intro ls h; simp [GocoinV.Model.BalancesDisk.loadAll] at h; subst h; simp
  | cons f rest ih =>
    intro ls h
    cases f with
    | none => simp [GocoinV.Model.BalancesDisk.loadAll] at h
    | some b =>
      simp only [GocoinV.Model.BalancesDisk.loadAll] at h
      split at h
      · cases h
      · rename_i l hl
        split at h
        · cases h
        · rename_i ls' hls'
          simp only [Option.some.injEq] at h
          subst h
          obtain ⟨h1, h2, h3⟩ := ih _ hls'
          refine ⟨by simp [h1], ?_, ?_⟩
          · intro f hf
            rcases List.mem_cons.mp hf with rfl | hf
            · exact ⟨b, rfl, by simp [hl]⟩
            · exact h2 f hf
          · intro l0 hl0 p hp
            rcases List.mem_cons.mp hl0 with rfl | hl0
            · have hl2 : loadPairs um b = some l := hl
              unfold loadPairs at hl2
              split at hl2
              · cases hl2
              · exact (loadRecs_all_some um _ _ _ hl2).2 p (List.mem_reverse.mp hp)
            · exact h3 l0 hl0 p hp

theorem loadAll_none_of (um : Nat) : ∀ (fs : List (Option Bytes)),
    (∃ f ∈ fs, f = none ∨ ∃ b, f = some b ∧ loadPairs um b = none) → GocoinV.Model.BalancesDisk.loadAll um fs = none := by
  intro fs
  induction fs with
  | nil => rintro ⟨f, hf, _⟩; cases hf
  | cons g rest ih =>
    rintro ⟨f, hf, hbad⟩
    cases g with
    | none => rfl
    | some b =>
      simp only [GocoinV.Model.BalancesDisk.loadAll]
      cases hb : loadPairs um b with
      | none => rfl
      | some l =>
        simp only []
        rcases List.mem_cons.mp hf with rfl | hf
        · rcases hbad with h | ⟨b', h1, h2⟩
          · cases h
          · cases h1; rw [hb] at h2; cases h2
        · rw [ih ⟨f, hf, hbad⟩]

end GocoinV.Proofs.C17Disk
