/- C08 table proof chunk (written once by Proofs/mk_c08_tab.py; static). -/
import GocoinV.Proofs.C08_TabDefs
import GocoinV.Gen.TablesPreG12805
import GocoinV.Gen.TablesPreG12804
namespace GocoinV.C08
open GocoinV.Gen

theorem preG128_05 : chainOK (Secp.dbl g128) ((pts Tables.preG12804).getLastD none :: pts Tables.preG12805) = true := by
  decide +kernel
theorem preG128_05_ne : pts Tables.preG12805 ≠ [] := by decide +kernel

end GocoinV.C08
