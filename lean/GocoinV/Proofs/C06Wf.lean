/-
  Proofs.C06Wf — preservation of the tree invariant `TreeWF` by the operations of the chain model that change the
  tree or the block store: AcceptHeader + CommitBlock's bookkeeping for a delivered block, marking a stored block
  trusted, and DeleteBranch (whose `subtree` is exactly the set of descendants of the deleted block).
-/
import GocoinV.Proofs.C06Tree
namespace GocoinV.ChainTree
open GocoinV.UtxoOps

theorem alookup_aset_eq {β} (k j : Nat) (v : β) (l : List (Nat × β)) :
    alookup j (aset k v l) = if k = j then some v else alookup j l := by
  by_cases h : k = j
  · subst h; simp only [if_true]; exact alookup_aset _ _ _
  · simp only [h, if_false]; exact alookup_aset_ne _ _ _ _ (fun e => h e.symm)

theorem alookup_filter_eq {β} (q : Nat → Bool) (k : Nat) (l : List (Nat × β)) :
    alookup k (l.filter (fun s => q s.1)) = if q k then alookup k l else none := by
  induction l with
  | nil => simp [alookup]
  | cons p ps ih =>
    obtain ⟨a, b⟩ := p
    by_cases hq : q a = true
    · simp only [List.filter, hq, alookup]
      by_cases hk : (a == k) = true
      · have : a = k := by simpa using hk
        subst this
        simp [hq]
      · simp only [hk, Bool.false_eq_true, if_false]; exact ih
    · have hq' : q a = false := by simpa using hq
      simp only [List.filter, hq', alookup]
      by_cases hk : (a == k) = true
      · have : a = k := by simpa using hk
        subst this
        simp only [hk, if_true, hq', Bool.false_eq_true, if_false] at ih ⊢
        exact ih
      · simp only [hk, Bool.false_eq_true, if_false]; exact ih

/-- `TreeWF` only looks at the tree as a function, the root, and the transactions of the stored blocks -/
theorem TreeWF_same {U : List Block} {c c' : Chain} (w : TreeWF U c) (hr : c'.root = c.root)
    (hg : ∀ x, getNode c' x = getNode c x)
    (hs : ∀ k, (alookup k c'.store).map (·.txs) = (alookup k c.store).map (·.txs)) : TreeWF U c' := by
  have hsome : ∀ k s, alookup k c'.store = some s → ∃ s0, alookup k c.store = some s0 ∧ s0.txs = s.txs := by
    intro k s h
    have := hs k
    rw [h] at this
    cases h0 : alookup k c.store with
    | none => rw [h0] at this; cases this
    | some s0 => rw [h0] at this; exact ⟨s0, rfl, by simpa using this.symm⟩
  have hsome' : ∀ k s0, alookup k c.store = some s0 → ∃ s, alookup k c'.store = some s ∧ s.txs = s0.txs := by
    intro k s0 h
    have := hs k
    rw [h] at this
    cases h0 : alookup k c'.store with
    | none => rw [h0] at this; cases this
    | some s => rw [h0] at this; exact ⟨s, rfl, by simpa using this⟩
  refine ⟨?_, ?_, ?_, ?_, ?_, ?_, ?_⟩
  · obtain ⟨r, h1, h2⟩ := w.root
    exact ⟨r, by rw [hr, hg]; exact h1, h2⟩
  · intro x n hn hx
    rw [hg] at hn; rw [hr] at hx
    obtain ⟨p, h1, h2⟩ := w.par x n hn hx
    exact ⟨p, by rw [hg]; exact h1, h2⟩
  · intro y p hp x hx
    rw [hg] at hp
    obtain ⟨h1, n, h2, h3⟩ := w.childs y p hp x hx
    exact ⟨by rw [hr]; exact h1, n, by rw [hg]; exact h2, h3⟩
  · intro x n hn hx
    rw [hg] at hn; rw [hr] at hx
    obtain ⟨b, hb, h1, h2, h3, hd⟩ := w.blk x n hn hx
    refine ⟨b, hb, h1, h2, h3, fun htc => ?_⟩
    obtain ⟨h4, s0, h5, h6⟩ := hd htc
    obtain ⟨s, h7, h8⟩ := hsome' x s0 h5
    exact ⟨h4, s, h7, h8.trans h6⟩
  · intro x n hn h0
    rw [hg] at hn
    have h1 := w.hdr x n hn h0
    have := hs x
    rw [h1] at this
    cases h2 : alookup x c'.store with
    | none => rfl
    | some s => rw [h2] at this; cases this
  · intro x n hn hx htc
    rw [hg] at hn; rw [hr] at hx
    obtain ⟨p, h1, h2⟩ := w.anc x n hn hx htc
    exact ⟨p, by rw [hg]; exact h1, by unfold HasData at h2 ⊢; rw [hr]; exact h2⟩
  · intro k s h
    obtain ⟨s0, h0, _⟩ := hsome k s h
    obtain ⟨h1, h2⟩ := w.store k s0 h0
    exact ⟨by rw [hr]; exact h1, by rw [hg]; exact h2⟩

/-- **a delivered block enters the tree** (AcceptHeader + the TxCount / block-store bookkeeping of CommitBlock): if `b ∈ U`
    is new, its parent `p` is in the tree, and `c'` shows the tree of `c` with the new leaf `nb` under `p` and the block
    stored, then `c'` is well-formed. -/
theorem TreeWF_linked {U : List Block} {c c' : Chain} (w : TreeWF U c) (b : Block) (hbU : b ∈ U) (p nb : Node)
    (hnew : getNode c b.id = none) (hp : getNode c b.parent = some p)
    (hnb : nb.parent = b.parent ∧ nb.height = p.height + 1 ∧ nb.bits = b.bits ∧ nb.childs = [])
    (hdat : nb.txCount = 0 ∨ (nb.txCount = b.txs.length ∧ b.txs ≠ [] ∧ HasData c b.parent p))
    (hr : c'.root = c.root)
    (hg : ∀ x, getNode c' x = if x = b.id then some nb else if x = b.parent then some { p with childs := p.childs ++ [b.id] }
      else getNode c x)
    (hs : ∀ k, (alookup k c'.store).map (·.txs) =
      if k = b.id ∧ nb.txCount ≠ 0 then some b.txs else (alookup k c.store).map (·.txs)) :
    TreeWF U c' := by
  obtain ⟨hnb1, hnb2, hnb3, hnb5⟩ := hnb
  have hnsC : alookup b.id c.store = none := by
    cases hh : alookup b.id c.store with
    | none => rfl
    | some s0 => have := (w.store _ _ hh).2; rw [hnew] at this; cases this
  have hpb : b.parent ≠ b.id := by intro e; rw [e, hnew] at hp; cases hp
  have inC : ∀ {x n}, getNode c x = some n → x ≠ b.id := by
    intro x n h e; rw [e, hnew] at h; cases h
  have hrootC : c.root ≠ b.id := by obtain ⟨r, h1, _⟩ := w.root; exact inC h1
  -- the node of `c'` under an id that is in `c`
  have old : ∀ x n, getNode c x = some n → ∃ n', getNode c' x = some n' ∧ n'.parent = n.parent ∧ n'.height = n.height ∧
      n'.bits = n.bits ∧ n'.txCount = n.txCount ∧ (∀ z, z ∈ n.childs → z ∈ n'.childs) := by
    intro x n h
    rw [hg, if_neg (inC h)]
    by_cases hx : x = b.parent
    · rw [if_pos hx]
      rw [hx, hp] at h; cases h
      exact ⟨_, rfl, rfl, rfl, rfl, rfl, fun z hz => List.mem_append_left _ hz⟩
    · rw [if_neg hx]; exact ⟨n, h, rfl, rfl, rfl, rfl, fun z hz => hz⟩
  -- a node of `c'` other than the new one comes from `c`
  have back : ∀ x n', getNode c' x = some n' → x ≠ b.id → ∃ n, getNode c x = some n ∧ n'.parent = n.parent ∧
      n'.height = n.height ∧ n'.bits = n.bits ∧ n'.txCount = n.txCount ∧ (∀ z, z ∈ n'.childs → z ∈ n.childs ∨ z = b.id) := by
    intro x n' h hx
    rw [hg, if_neg hx] at h
    by_cases hxp : x = b.parent
    · rw [if_pos hxp] at h; cases h
      exact ⟨p, by rw [hxp]; exact hp, rfl, rfl, rfl, rfl, fun z hz => by
        rcases List.mem_append.mp hz with h1 | h1
        · exact Or.inl h1
        · exact Or.inr (by simpa using h1)⟩
    · rw [if_neg hxp] at h; exact ⟨n', h, rfl, rfl, rfl, rfl, fun z hz => Or.inl hz⟩
  have hgb : getNode c' b.id = some nb := by rw [hg, if_pos rfl]
  have hsOld : ∀ k, k ≠ b.id → ∀ s0, alookup k c.store = some s0 → ∃ s, alookup k c'.store = some s ∧ s.txs = s0.txs := by
    intro k hk s0 h
    have := hs k
    rw [if_neg (fun e => hk e.1), h] at this
    cases h0 : alookup k c'.store with
    | none => rw [h0] at this; cases this
    | some s => rw [h0] at this; exact ⟨s, rfl, by simpa using this⟩
  refine ⟨?_, ?_, ?_, ?_, ?_, ?_, ?_⟩
  · obtain ⟨r, h1, h2, h3⟩ := w.root
    obtain ⟨r', g1, _, g2, g3, _⟩ := old _ _ h1
    exact ⟨r', by rw [hr]; exact g1, by rw [g2]; exact h2, by rw [g3]; exact h3⟩
  · intro x n' hn hx
    rw [hr] at hx
    by_cases hxb : x = b.id
    · rw [hxb, hgb] at hn; cases hn
      obtain ⟨p', g1, _, g2, _, _, g3⟩ := old _ _ hp
      refine ⟨p', by rw [hnb1]; exact g1, by rw [g2]; exact hnb2, ?_⟩
      have : getNode c' b.parent = some { p with childs := p.childs ++ [b.id] } := by
        rw [hg, if_neg hpb, if_pos rfl]
      rw [this] at g1; cases g1
      rw [hxb]; exact List.mem_append_right _ (List.mem_singleton.mpr rfl)
    · obtain ⟨n, h1, e1, e2, _, _, _⟩ := back x n' hn hxb
      obtain ⟨q, h2, h3, h4⟩ := w.par x n h1 hx
      obtain ⟨q', g1, _, g2, _, _, g3⟩ := old _ _ h2
      exact ⟨q', by rw [e1]; exact g1, by rw [e2, g2]; exact h3, g3 x h4⟩
  · intro y q' hq x hx
    by_cases hyb : y = b.id
    · rw [hyb, hgb] at hq; cases hq
      rw [hnb5] at hx; cases hx
    · obtain ⟨q, h1, _, _, _, _, hch⟩ := back y q' hq hyb
      rcases hch x hx with h2 | h2
      · obtain ⟨h3, n, h4, h5⟩ := w.childs y q h1 x h2
        obtain ⟨n', g1, g2, _⟩ := old _ _ h4
        exact ⟨by rw [hr]; exact h3, n', g1, g2.trans h5⟩
      · -- the new child: only the parent lists it
        have hyp : y = b.parent := by
          apply Classical.byContradiction
          intro hne
          rw [hg, if_neg hyb, if_neg hne] at hq
          obtain ⟨_, n, h4, _⟩ := w.childs y q' hq x hx
          exact inC h4 h2
        exact ⟨by rw [hr, h2]; exact fun e => hrootC e.symm, nb, by rw [h2]; exact hgb, by rw [hnb1, hyp]⟩
  · intro x n' hn hx
    rw [hr] at hx
    by_cases hxb : x = b.id
    · rw [hxb, hgb] at hn; cases hn
      refine ⟨b, hbU, hxb.symm, hnb1.symm, hnb3.symm, fun htc => ?_⟩
      rcases hdat with h0 | ⟨hnb4, _, _⟩
      · exact absurd h0 htc
      have := hs b.id
      rw [if_pos ⟨rfl, htc⟩] at this
      cases h0 : alookup b.id c'.store with
      | none => rw [h0] at this; cases this
      | some s =>
        rw [h0] at this
        exact ⟨hnb4, s, by rw [hxb]; exact h0, by simpa using this⟩
    · obtain ⟨n, h1, e1, _, e3, e4, _⟩ := back x n' hn hxb
      obtain ⟨b0, hb0, g1, g2, g3, gd⟩ := w.blk x n h1 hx
      refine ⟨b0, hb0, g1, by rw [e1]; exact g2, by rw [e3]; exact g3, fun htc => ?_⟩
      obtain ⟨g4, s0, g5, g6⟩ := gd (by rw [← e4]; exact htc)
      obtain ⟨s, g7, g8⟩ := hsOld x hxb s0 g5
      exact ⟨by rw [e4]; exact g4, s, g7, g8.trans g6⟩
  · intro x n' hn h0
    by_cases hxb : x = b.id
    · rw [hxb, hgb] at hn; cases hn
      have := hs b.id
      rw [if_neg (fun e => e.2 h0), hnsC] at this
      rw [hxb]
      cases h1 : alookup b.id c'.store with
      | none => rfl
      | some s => rw [h1] at this; cases this
    · obtain ⟨n, h1, _, _, _, e4, _⟩ := back x n' hn hxb
      have h2 := w.hdr x n h1 (by rw [← e4]; exact h0)
      have := hs x
      rw [if_neg (fun e => hxb e.1), h2] at this
      cases h3 : alookup x c'.store with
      | none => rfl
      | some s => rw [h3] at this; cases this
  · intro x n' hn hx htc
    rw [hr] at hx
    by_cases hxb : x = b.id
    · rw [hxb, hgb] at hn; cases hn
      rcases hdat with h0 | ⟨_, _, hpd⟩
      · exact absurd h0 htc
      obtain ⟨p', g1, _, _, _, g5, _⟩ := old _ _ hp
      refine ⟨p', by rw [hnb1]; exact g1, ?_⟩
      unfold HasData at hpd ⊢
      rw [hnb1, hr, g5]; exact hpd
    · obtain ⟨n, h1, e1, _, _, e4, _⟩ := back x n' hn hxb
      obtain ⟨q, h2, h3⟩ := w.anc x n h1 hx (by rw [← e4]; exact htc)
      obtain ⟨q', g1, _, _, _, g5, _⟩ := old _ _ h2
      refine ⟨q', by rw [e1]; exact g1, ?_⟩
      unfold HasData at h3 ⊢
      rw [e1, hr, g5]; exact h3
  · intro k s h
    by_cases hkb : k = b.id
    · rw [hkb, hr]
      exact ⟨fun e => hrootC e.symm, by rw [hgb]; rfl⟩
    · have := hs k
      rw [if_neg (fun e => hkb e.1), h] at this
      cases h0 : alookup k c.store with
      | none => rw [h0] at this; cases this
      | some s0 =>
        obtain ⟨h1, h2⟩ := w.store k s0 h0
        cases h3 : getNode c k with
        | none => rw [h3] at h2; cases h2
        | some n =>
          obtain ⟨n', g1, _⟩ := old _ _ h3
          exact ⟨by rw [hr]; exact h1, by rw [g1]; rfl⟩


/-- **a delivered block enters the tree** (AcceptHeader + the TxCount / block-store bookkeeping of CommitBlock): if `b ∈ U`
    is new and not empty, its parent `p` is in the tree and has its data, and `c'` shows the tree of `c` with the new leaf
    `nb` under `p` and the block stored, then `c'` is well-formed. -/
theorem TreeWF_delivered {U : List Block} {c c' : Chain} (w : TreeWF U c) (b : Block) (hbU : b ∈ U) (p nb : Node)
    (hnew : getNode c b.id = none) (hp : getNode c b.parent = some p)
    (hnb : nb.parent = b.parent ∧ nb.height = p.height + 1 ∧ nb.bits = b.bits ∧ nb.txCount = b.txs.length ∧ nb.childs = [])
    (hne : b.txs ≠ []) (hpd : HasData c b.parent p)
    (hr : c'.root = c.root)
    (hg : ∀ x, getNode c' x = if x = b.id then some nb else if x = b.parent then some { p with childs := p.childs ++ [b.id] }
      else getNode c x)
    (hs : ∀ k, (alookup k c'.store).map (·.txs) = if k = b.id then some b.txs else (alookup k c.store).map (·.txs)) :
    TreeWF U c' := by
  obtain ⟨h1, h2, h3, h4, h5⟩ := hnb
  have htc : nb.txCount ≠ 0 := by
    rw [h4]; intro h0; exact hne (List.eq_nil_of_length_eq_zero h0)
  refine TreeWF_linked w b hbU p nb hnew hp ⟨h1, h2, h3, h5⟩ (Or.inr ⟨h4, hne, hpd⟩) hr hg ?_
  intro k
  rw [hs k]
  by_cases hk : k = b.id
  · simp [hk, htc]
  · simp [hk]

/-- **a header alone enters the tree** (AcceptHeader for a header without data): a node with `txCount = 0`, nothing stored -/
theorem TreeWF_header {U : List Block} {c c' : Chain} (w : TreeWF U c) (b : Block) (hbU : b ∈ U) (p nb : Node)
    (hnew : getNode c b.id = none) (hp : getNode c b.parent = some p)
    (hnb : nb.parent = b.parent ∧ nb.height = p.height + 1 ∧ nb.bits = b.bits ∧ nb.txCount = 0 ∧ nb.childs = [])
    (hr : c'.root = c.root)
    (hg : ∀ x, getNode c' x = if x = b.id then some nb else if x = b.parent then some { p with childs := p.childs ++ [b.id] }
      else getNode c x)
    (hs : c'.store = c.store) : TreeWF U c' := by
  obtain ⟨h1, h2, h3, h4, h5⟩ := hnb
  refine TreeWF_linked w b hbU p nb hnew hp ⟨h1, h2, h3, h5⟩ (Or.inl h4) hr hg ?_
  intro k
  rw [hs]
  simp [h4]

/-- **the block of a known header arrives** (`cur.TxCount = …` + the block-store bookkeeping of CommitBlock on an
    existing node): the node `n` of `b` had no data, its parent has; `c'` shows the same tree with the transaction count
    set and the block stored. -/
theorem TreeWF_filled {U : List Block} {c c' : Chain} (w : TreeWF U c) (hU : BlockTree c.root U) (b : Block) (hbU : b ∈ U)
    (n : Node) (hn : getNode c b.id = some n) (hbr : b.id ≠ c.root)
    (hpd : ∃ p, getNode c n.parent = some p ∧ HasData c n.parent p)
    (hr : c'.root = c.root)
    (hg : ∀ x, getNode c' x = if x = b.id then some { n with txCount := b.txs.length } else getNode c x)
    (hs : ∀ k, (alookup k c'.store).map (·.txs) = if k = b.id then some b.txs else (alookup k c.store).map (·.txs)) :
    TreeWF U c' := by
  have hlen : b.txs.length ≠ 0 := fun h0 => hU.txs b hbU (List.eq_nil_of_length_eq_zero h0)
  have hgb : getNode c' b.id = some { n with txCount := b.txs.length } := by rw [hg, if_pos rfl]
  -- every node of c has a counterpart in c' with the same parent / height / bits / childs and at least its data
  have old : ∀ x m, getNode c x = some m → ∃ m', getNode c' x = some m' ∧ m'.parent = m.parent ∧ m'.height = m.height ∧
      m'.bits = m.bits ∧ m'.childs = m.childs ∧ (x ≠ b.id → m'.txCount = m.txCount) ∧ (m.txCount ≠ 0 → m'.txCount ≠ 0) := by
    intro x m h
    by_cases hx : x = b.id
    · rw [hx, hn] at h; cases h
      exact ⟨{ n with txCount := b.txs.length }, by rw [hx]; exact hgb, rfl, rfl, rfl, rfl, fun e => absurd hx e, fun _ => hlen⟩
    · exact ⟨m, by rw [hg, if_neg hx]; exact h, rfl, rfl, rfl, rfl, fun _ => rfl, fun e => e⟩
  have back : ∀ x m', getNode c' x = some m' → ∃ m, getNode c x = some m ∧ m'.parent = m.parent ∧ m'.height = m.height ∧
      m'.bits = m.bits ∧ m'.childs = m.childs ∧ (x ≠ b.id → m'.txCount = m.txCount) := by
    intro x m' h
    by_cases hx : x = b.id
    · rw [hx, hgb] at h; cases h
      exact ⟨n, by rw [hx]; exact hn, rfl, rfl, rfl, rfl, fun e => absurd hx e⟩
    · rw [hg, if_neg hx] at h; exact ⟨m', h, rfl, rfl, rfl, rfl, fun _ => rfl⟩
  have hsOld : ∀ k, k ≠ b.id → ∀ s0, alookup k c.store = some s0 → ∃ s, alookup k c'.store = some s ∧ s.txs = s0.txs := by
    intro k hk s0 h
    have := hs k
    rw [if_neg hk, h] at this
    cases h0 : alookup k c'.store with
    | none => rw [h0] at this; cases this
    | some s => rw [h0] at this; exact ⟨s, rfl, by simpa using this⟩
  refine ⟨?_, ?_, ?_, ?_, ?_, ?_, ?_⟩
  · obtain ⟨r, h1, h2, h3⟩ := w.root
    obtain ⟨r', g1, _, g2, g3, _⟩ := old _ _ h1
    exact ⟨r', by rw [hr]; exact g1, by rw [g2]; exact h2, by rw [g3]; exact h3⟩
  · intro x m' hm hx
    rw [hr] at hx
    obtain ⟨m, h1, e1, e2, _, _, _⟩ := back x m' hm
    obtain ⟨q, h2, h3, h4⟩ := w.par x m h1 hx
    obtain ⟨q', g1, _, g2, _, g4, _⟩ := old _ _ h2
    exact ⟨q', by rw [e1]; exact g1, by rw [e2, g2]; exact h3, by rw [g4]; exact h4⟩
  · intro y q' hq x hx
    obtain ⟨q, h1, _, _, _, e4, _⟩ := back y q' hq
    obtain ⟨h3, m, h4, h5⟩ := w.childs y q h1 x (by rw [← e4]; exact hx)
    obtain ⟨m', g1, g2, _⟩ := old _ _ h4
    exact ⟨by rw [hr]; exact h3, m', g1, g2.trans h5⟩
  · intro x m' hm hx
    rw [hr] at hx
    obtain ⟨m, h1, e1, _, e3, _, e5⟩ := back x m' hm
    obtain ⟨b0, hb0, g1, g2, g3, gd⟩ := w.blk x m h1 hx
    by_cases hxb : x = b.id
    · rw [hxb, hgb] at hm; cases hm
      have hbb : b0 = b := hU.ids b0 hb0 b hbU (g1.trans hxb)
      subst hbb
      refine ⟨b0, hb0, g1, by rw [e1]; exact g2, by rw [e3]; exact g3, fun _ => ⟨rfl, ?_⟩⟩
      have := hs b0.id
      rw [if_pos rfl] at this
      cases h0 : alookup b0.id c'.store with
      | none => rw [h0] at this; cases this
      | some s => rw [h0] at this; exact ⟨s, by rw [hxb]; exact h0, by simpa using this⟩
    · refine ⟨b0, hb0, g1, by rw [e1]; exact g2, by rw [e3]; exact g3, fun htc => ?_⟩
      obtain ⟨g4, s0, g5, g6⟩ := gd (by rw [← e5 hxb]; exact htc)
      obtain ⟨s, g7, g8⟩ := hsOld x hxb s0 g5
      exact ⟨by rw [e5 hxb]; exact g4, s, g7, g8.trans g6⟩
  · intro x m' hm h0
    obtain ⟨m, h1, _, _, _, _, e5⟩ := back x m' hm
    by_cases hxb : x = b.id
    · rw [hxb, hgb] at hm; cases hm; exact absurd h0 hlen
    · have h2 := w.hdr x m h1 (by rw [← e5 hxb]; exact h0)
      have := hs x
      rw [if_neg hxb, h2] at this
      cases h3 : alookup x c'.store with
      | none => rfl
      | some s => rw [h3] at this; cases this
  · intro x m' hm hx htc
    rw [hr] at hx
    obtain ⟨m, h1, e1, _, _, _, e5⟩ := back x m' hm
    have hpar : ∃ q, getNode c m.parent = some q ∧ HasData c m.parent q := by
      by_cases hxb : x = b.id
      · rw [hxb, hn] at h1; cases h1; exact hpd
      · exact w.anc x m h1 hx (by rw [← e5 hxb]; exact htc)
    obtain ⟨q, h2, h3⟩ := hpar
    obtain ⟨q', g1, _, _, _, _, _, g7⟩ := old _ _ h2
    refine ⟨q', by rw [e1]; exact g1, ?_⟩
    unfold HasData at h3 ⊢
    rw [e1, hr]
    exact h3.imp id g7
  · intro k s h
    by_cases hkb : k = b.id
    · rw [hkb, hr]; exact ⟨hbr, by rw [hgb]; rfl⟩
    · have := hs k
      rw [if_neg hkb, h] at this
      cases h0 : alookup k c.store with
      | none => rw [h0] at this; cases this
      | some s0 =>
        obtain ⟨h1, h2⟩ := w.store k s0 h0
        cases h3 : getNode c k with
        | none => rw [h3] at h2; cases h2
        | some m =>
          obtain ⟨m', g1, _⟩ := old _ _ h3
          exact ⟨by rw [hr]; exact h1, by rw [g1]; rfl⟩

end GocoinV.ChainTree
