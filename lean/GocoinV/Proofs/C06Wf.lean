/-
  Proofs.C06Wf — preservation of the tree invariant `TreeWF` by the operations of the chain model that change the
  tree or the block store: AcceptHeader + CommitBlock's bookkeeping for a delivered block, marking a stored block
  trusted, and DeleteBranch (whose `subtree` is exactly the set of descendants of the deleted block).
-/
import GocoinV.Proofs.C06Tree
namespace GocoinV.ChainTree
open GocoinV.UtxoOps

theorem alookup_aset_eq {β} (k j : Nat) (v : β) (l : List (Nat × β)) :
    alookup j (aset k v l) = if k = j then some v else alookup j l := by
  by_cases h : k = j
  · subst h; simp only [if_true]; exact alookup_aset _ _ _
  · simp only [h, if_false]; exact alookup_aset_ne _ _ _ _ (fun e => h e.symm)

theorem alookup_filter_eq {β} (q : Nat → Bool) (k : Nat) (l : List (Nat × β)) :
    alookup k (l.filter (fun s => q s.1)) = if q k then alookup k l else none := by
  induction l with
  | nil => simp [alookup]
  | cons p ps ih =>
    obtain ⟨a, b⟩ := p
    by_cases hq : q a = true
    · simp only [List.filter, hq, alookup]
      by_cases hk : (a == k) = true
      · have : a = k := by simpa using hk
        subst this
        simp [hq]
      · simp only [hk, Bool.false_eq_true, if_false]; exact ih
    · have hq' : q a = false := by simpa using hq
      simp only [List.filter, hq', alookup]
      by_cases hk : (a == k) = true
      · have : a = k := by simpa using hk
        subst this
        simp only [hk, if_true, hq', Bool.false_eq_true, if_false] at ih ⊢
        exact ih
      · simp only [hk, Bool.false_eq_true, if_false]; exact ih

/-- `TreeWF` only looks at the tree as a function, the root, and the transactions of the stored blocks -/
theorem TreeWF_same {U : List Block} {c c' : Chain} (w : TreeWF U c) (hr : c'.root = c.root)
    (hg : ∀ x, getNode c' x = getNode c x)
    (hs : ∀ k, (alookup k c'.store).map (·.txs) = (alookup k c.store).map (·.txs)) : TreeWF U c' := by
  have hsome : ∀ k s, alookup k c'.store = some s → ∃ s0, alookup k c.store = some s0 ∧ s0.txs = s.txs := by
    intro k s h
    have := hs k
    rw [h] at this
    cases h0 : alookup k c.store with
    | none => rw [h0] at this; cases this
    | some s0 => rw [h0] at this; exact ⟨s0, rfl, by simpa using this.symm⟩
  have hsome' : ∀ k s0, alookup k c.store = some s0 → ∃ s, alookup k c'.store = some s ∧ s.txs = s0.txs := by
    intro k s0 h
    have := hs k
    rw [h] at this
    cases h0 : alookup k c'.store with
    | none => rw [h0] at this; cases this
    | some s => rw [h0] at this; exact ⟨s, rfl, by simpa using this⟩
  refine ⟨?_, ?_, ?_, ?_, ?_⟩
  · obtain ⟨r, h1, h2⟩ := w.root
    exact ⟨r, by rw [hr, hg]; exact h1, h2⟩
  · intro x n hn hx
    rw [hg] at hn; rw [hr] at hx
    obtain ⟨p, h1, h2⟩ := w.par x n hn hx
    exact ⟨p, by rw [hg]; exact h1, h2⟩
  · intro y p hp x hx
    rw [hg] at hp
    obtain ⟨h1, n, h2, h3⟩ := w.childs y p hp x hx
    exact ⟨by rw [hr]; exact h1, n, by rw [hg]; exact h2, h3⟩
  · intro x n hn hx
    rw [hg] at hn; rw [hr] at hx
    obtain ⟨b, hb, h1, h2, h3, h4, s0, h5, h6⟩ := w.blk x n hn hx
    obtain ⟨s, h7, h8⟩ := hsome' x s0 h5
    exact ⟨b, hb, h1, h2, h3, h4, s, h7, h8.trans h6⟩
  · intro k s h
    obtain ⟨s0, h0, _⟩ := hsome k s h
    obtain ⟨h1, h2⟩ := w.store k s0 h0
    exact ⟨by rw [hr]; exact h1, by rw [hg]; exact h2⟩

/-- **a delivered block enters the tree** (AcceptHeader + the TxCount / block-store bookkeeping of CommitBlock): if `b ∈ U`
    is new, its parent `p` is in the tree, and `c'` shows the tree of `c` with the new leaf `nb` under `p` and the block
    stored, then `c'` is well-formed. -/
theorem TreeWF_delivered {U : List Block} {c c' : Chain} (w : TreeWF U c) (b : Block) (hbU : b ∈ U) (p nb : Node)
    (hnew : getNode c b.id = none) (hp : getNode c b.parent = some p)
    (hnb : nb.parent = b.parent ∧ nb.height = p.height + 1 ∧ nb.bits = b.bits ∧ nb.txCount = b.txs.length ∧ nb.childs = [])
    (hr : c'.root = c.root)
    (hg : ∀ x, getNode c' x = if x = b.id then some nb else if x = b.parent then some { p with childs := p.childs ++ [b.id] }
      else getNode c x)
    (hs : ∀ k, (alookup k c'.store).map (·.txs) = if k = b.id then some b.txs else (alookup k c.store).map (·.txs)) :
    TreeWF U c' := by
  obtain ⟨hnb1, hnb2, hnb3, hnb4, hnb5⟩ := hnb
  have hpb : b.parent ≠ b.id := by intro e; rw [e, hnew] at hp; cases hp
  have inC : ∀ {x n}, getNode c x = some n → x ≠ b.id := by
    intro x n h e; rw [e, hnew] at h; cases h
  have hrootC : c.root ≠ b.id := by obtain ⟨r, h1, _⟩ := w.root; exact inC h1
  -- the node of `c'` under an id that is in `c`
  have old : ∀ x n, getNode c x = some n → ∃ n', getNode c' x = some n' ∧ n'.parent = n.parent ∧ n'.height = n.height ∧
      n'.bits = n.bits ∧ n'.txCount = n.txCount ∧ (∀ z, z ∈ n.childs → z ∈ n'.childs) := by
    intro x n h
    rw [hg, if_neg (inC h)]
    by_cases hx : x = b.parent
    · rw [if_pos hx]
      rw [hx, hp] at h; cases h
      exact ⟨_, rfl, rfl, rfl, rfl, rfl, fun z hz => List.mem_append_left _ hz⟩
    · rw [if_neg hx]; exact ⟨n, h, rfl, rfl, rfl, rfl, fun z hz => hz⟩
  -- a node of `c'` other than the new one comes from `c`
  have back : ∀ x n', getNode c' x = some n' → x ≠ b.id → ∃ n, getNode c x = some n ∧ n'.parent = n.parent ∧
      n'.height = n.height ∧ n'.bits = n.bits ∧ n'.txCount = n.txCount ∧ (∀ z, z ∈ n'.childs → z ∈ n.childs ∨ z = b.id) := by
    intro x n' h hx
    rw [hg, if_neg hx] at h
    by_cases hxp : x = b.parent
    · rw [if_pos hxp] at h; cases h
      exact ⟨p, by rw [hxp]; exact hp, rfl, rfl, rfl, rfl, fun z hz => by
        rcases List.mem_append.mp hz with h1 | h1
        · exact Or.inl h1
        · exact Or.inr (by simpa using h1)⟩
    · rw [if_neg hxp] at h; exact ⟨n', h, rfl, rfl, rfl, rfl, fun z hz => Or.inl hz⟩
  have hgb : getNode c' b.id = some nb := by rw [hg, if_pos rfl]
  have hsOld : ∀ k, k ≠ b.id → ∀ s0, alookup k c.store = some s0 → ∃ s, alookup k c'.store = some s ∧ s.txs = s0.txs := by
    intro k hk s0 h
    have := hs k
    rw [if_neg hk, h] at this
    cases h0 : alookup k c'.store with
    | none => rw [h0] at this; cases this
    | some s => rw [h0] at this; exact ⟨s, rfl, by simpa using this⟩
  refine ⟨?_, ?_, ?_, ?_, ?_⟩
  · obtain ⟨r, h1, h2, h3⟩ := w.root
    obtain ⟨r', g1, _, g2, g3, _⟩ := old _ _ h1
    exact ⟨r', by rw [hr]; exact g1, by rw [g2]; exact h2, by rw [g3]; exact h3⟩
  · intro x n' hn hx
    rw [hr] at hx
    by_cases hxb : x = b.id
    · rw [hxb, hgb] at hn; cases hn
      obtain ⟨p', g1, _, g2, _, _, g3⟩ := old _ _ hp
      refine ⟨p', by rw [hnb1]; exact g1, by rw [g2]; exact hnb2, ?_⟩
      have : getNode c' b.parent = some { p with childs := p.childs ++ [b.id] } := by
        rw [hg, if_neg hpb, if_pos rfl]
      rw [this] at g1; cases g1
      rw [hxb]; exact List.mem_append_right _ (List.mem_singleton.mpr rfl)
    · obtain ⟨n, h1, e1, e2, _, _, _⟩ := back x n' hn hxb
      obtain ⟨q, h2, h3, h4⟩ := w.par x n h1 hx
      obtain ⟨q', g1, _, g2, _, _, g3⟩ := old _ _ h2
      exact ⟨q', by rw [e1]; exact g1, by rw [e2, g2]; exact h3, g3 x h4⟩
  · intro y q' hq x hx
    by_cases hyb : y = b.id
    · rw [hyb, hgb] at hq; cases hq
      rw [hnb5] at hx; cases hx
    · obtain ⟨q, h1, _, _, _, _, hch⟩ := back y q' hq hyb
      rcases hch x hx with h2 | h2
      · obtain ⟨h3, n, h4, h5⟩ := w.childs y q h1 x h2
        obtain ⟨n', g1, g2, _⟩ := old _ _ h4
        exact ⟨by rw [hr]; exact h3, n', g1, g2.trans h5⟩
      · -- the new child: only the parent lists it
        have hyp : y = b.parent := by
          apply Classical.byContradiction
          intro hne
          rw [hg, if_neg hyb, if_neg hne] at hq
          obtain ⟨_, n, h4, _⟩ := w.childs y q' hq x hx
          exact inC h4 h2
        exact ⟨by rw [hr, h2]; exact fun e => hrootC e.symm, nb, by rw [h2]; exact hgb, by rw [hnb1, hyp]⟩
  · intro x n' hn hx
    rw [hr] at hx
    by_cases hxb : x = b.id
    · rw [hxb, hgb] at hn; cases hn
      have := hs b.id
      rw [if_pos rfl] at this
      cases h0 : alookup b.id c'.store with
      | none => rw [h0] at this; cases this
      | some s =>
        rw [h0] at this
        exact ⟨b, hbU, hxb.symm, hnb1.symm, hnb3.symm, hnb4, s, by rw [hxb]; exact h0, by simpa using this⟩
    · obtain ⟨n, h1, e1, _, e3, e4, _⟩ := back x n' hn hxb
      obtain ⟨b0, hb0, g1, g2, g3, g4, s0, g5, g6⟩ := w.blk x n h1 hx
      obtain ⟨s, g7, g8⟩ := hsOld x hxb s0 g5
      exact ⟨b0, hb0, g1, by rw [e1]; exact g2, by rw [e3]; exact g3, by rw [e4]; exact g4, s, g7, g8.trans g6⟩
  · intro k s h
    by_cases hkb : k = b.id
    · rw [hkb, hr]
      exact ⟨fun e => hrootC e.symm, by rw [hgb]; rfl⟩
    · have := hs k
      rw [if_neg hkb, h] at this
      cases h0 : alookup k c.store with
      | none => rw [h0] at this; cases this
      | some s0 =>
        obtain ⟨h1, h2⟩ := w.store k s0 h0
        cases h3 : getNode c k with
        | none => rw [h3] at h2; cases h2
        | some n =>
          obtain ⟨n', g1, _⟩ := old _ _ h3
          exact ⟨by rw [hr]; exact h1, by rw [g1]; rfl⟩

end GocoinV.ChainTree
