/-
  Proofs.C17Block — the block layer (Model.BalancesBlock): block-level histories are record-level histories, and the
  generated source facts about the guards of the index callbacks in lib/utxo (Gen.UtxoNotifyFacts, written by
  go/cmd/gen_c17/guards.go from /repo on every run).
-/
import GocoinV.Proofs.C17
import GocoinV.Model.BalancesBlock
namespace GocoinV.Proofs.C17Block
open GocoinV GocoinV.Model.Balances GocoinV.Model.BalancesBlock GocoinV.Proofs.C17
open GocoinV.Gen.UtxoNotifyFacts

/-- What decides whether lib/utxo calls the index callbacks, what it hands to them and where the installed callbacks can
    change, in the generator's canonical form (field paths rooted in the type of the receiver / parameter; a local stands for
    every value written to it and the conditions around those writes; parameters of closures / non-entry functions are
    resolved; per entry point through which the call is reached). Stops compiling when the sets change. -/
theorem notify_facts :
    notifyAddGuards =
      [("UnspentDB.CommitBlockTxs", ["BlockChanges.AddList", "UnspentDB.CB.NotifyTxAdd"]),
       ("UnspentDB.UndoBlockTxs", ["FullUtxoRec()", "UnspentDB.CB.NotifyTxAdd", "UnspentDB.LastBlockHeight", "UnspentDB.dir_undo",
          "btc.VLen()", "fmt.Sprint()", "os.ReadFile()"])] ∧
    notifyDelGuards =
      [("UnspentDB.CommitBlockTxs", ["BlockChanges.DeledTxs", "UnspentDB.CB.NotifyTxDel", "UnspentDB.HashMap", "bytes.Equal()"]),
       ("UnspentDB.UndoBlockTxs", ["UnspentDB.CB.NotifyTxDel", "UnspentDB.HashMap", "btc.Block.Txs", "btc.Block.Txs.Hash.Hash",
          "bytes.Equal()"])] ∧
    notifyAddArgs =
      [("UnspentDB.CommitBlockTxs", ["BlockChanges.AddList"]),
       ("UnspentDB.UndoBlockTxs", ["FullUtxoRec()", "UnspentDB.LastBlockHeight", "UnspentDB.dir_undo", "btc.VLen()",
          "fmt.Sprint()", "os.ReadFile()"])] ∧
    notifyDelArgs =
      [("UnspentDB.CommitBlockTxs", ["BlockChanges.DeledTxs", "NewUtxoRec()", "UnspentDB.HashMap"]),
       ("UnspentDB.UndoBlockTxs", ["NewUtxoRec()", "UnspentDB.CB.NotifyTxDel", "UnspentDB.HashMap", "btc.Block.Txs",
          "btc.Block.Txs.TxOut"])] ∧
    callbackWrites = ["NewUnspentDb: UnspentDB.CB = {NewUnspentOpts.CB}"] := by
  decide

theorem run_append (H : Bytes → Nat) (s : State) (a b : List Ev) : run H s (a ++ b) = run H (run H s a) b := by
  simp [run, List.foldl_append]

theorem stepB_eq_run (H : Bytes → Nat) (s : State) (e : BEv) : stepB H s e = run H s e.evs := by
  cases e <;> simp [stepB, BEv.evs, connectBlock, run]

theorem runB_eq_run (H : Bytes → Nat) (h : List BEv) : ∀ s : State, runB H s h = run H s (flat h) := by
  induction h with
  | nil => intro s; rfl
  | cons e rest ih =>
    intro s
    have : runB H s (e :: rest) = runB H (stepB H s e) rest := rfl
    rw [this, ih, stepB_eq_run, flat, run_append]

/-- a block connection does not look at the sync state -/
theorem connectBlock_inState (H : Bytes → Nat) (s : State) (b : BlockCh) (height lastKnown : Nat) :
    connectBlock H s (b.inState height lastKnown) = connectBlock H s b := rfl

theorem inv_connectBlock {H : Bytes → Nat} {s : State} (b : BlockCh) (h : Inv H s) (ha : AdmissibleRun H s b.work) :
    Inv H (connectBlock H s b) :=
  inv_run b.work s h ha

theorem inv_runB {H : Bytes → Nat} (h : List BEv) (s : State) (hi : Inv H s) (ha : AdmissibleRun H s (flat h)) :
    Inv H (runB H s h) := by
  rw [runB_eq_run]
  exact inv_run (flat h) s hi ha

end GocoinV.Proofs.C17Block
