/- C08 table proof chunk (written once by Proofs/mk_c08_tab.py; static). -/
import GocoinV.Proofs.C08_TabDefs
import GocoinV.Gen.TablesPreG08
import GocoinV.Gen.TablesPreG07
namespace GocoinV.C08
open GocoinV.Gen

theorem preG_08 : chainOK (Secp.dbl Secp.G) ((pts Tables.preG07).getLastD none :: pts Tables.preG08) = true := by
  decide +kernel
theorem preG_08_ne : pts Tables.preG08 ≠ [] := by decide +kernel

end GocoinV.C08
