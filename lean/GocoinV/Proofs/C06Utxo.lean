/-
  Proofs.C06Utxo — helper lemmas for Props/C06: the unspent map as a partial function (`DB.get` after
  put / erase / del / undoOne), the output-list algebra (mask / del / merge), folds over key-local updates.
-/
import GocoinV.Model.UtxoOps
namespace GocoinV.UtxoOps

theorem merge_mask_del (outs : List (Option Out)) (rm : List Bool) :
    mergeOuts (maskOuts outs rm) (delOuts outs rm) = outs := by
  induction outs generalizing rm with
  | nil => simp [maskOuts, mergeOuts]
  | cons o os ih =>
    cases rm with
    | nil =>
      have h := ih []
      cases os with
      | nil => simp [maskOuts, delOuts, mergeOuts]
      | cons o2 os2 =>
        simp only [maskOuts, delOuts, mergeOuts] at h ⊢
        simp [h]
    | cons b bs =>
      simp only [maskOuts, delOuts, mergeOuts]
      rw [ih bs]
      cases b <;> cases o <;> simp

theorem delOuts_nil_right (outs : List (Option Out)) : delOuts outs [] = outs := by
  cases outs <;> simp [delOuts]

theorem mask_eq_of_del_empty (outs : List (Option Out)) (rm : List Bool)
    (h : (delOuts outs rm).any Option.isSome = false) : maskOuts outs rm = outs := by
  induction outs generalizing rm with
  | nil => simp [maskOuts]
  | cons o os ih =>
    cases rm with
    | nil =>
      rw [delOuts_nil_right] at h
      simp only [List.any_cons, Bool.or_eq_false_iff] at h
      have h2 := ih [] (by rw [delOuts_nil_right]; exact h.2)
      simp only [maskOuts, h2]
      cases o <;> simp_all
    | cons b bs =>
      simp only [delOuts, List.any_cons, Bool.or_eq_false_iff] at h
      simp only [maskOuts, ih bs h.2]
      cases b <;> cases o <;> simp_all

theorem maskOuts_length (outs : List (Option Out)) (rm : List Bool) :
    (maskOuts outs rm).length = outs.length := by
  induction outs generalizing rm with
  | nil => simp [maskOuts]
  | cons o os ih => cases rm <;> simp [maskOuts, ih]

-- ------------------------------------------------------------------------------------------ the map view

theorem get_txid {db : DB} {t : Nat} {r : Rec} (h : db.get t = some r) : r.txid = t := by
  unfold DB.get at h
  have := List.find?_some h
  simpa using this

theorem get_erase (db : DB) (t k : Nat) : (db.erase t).get k = if t = k then none else db.get k := by
  unfold DB.erase DB.get
  rw [List.find?_filter]
  by_cases h : t = k
  · subst h
    simp only [if_true]
    rw [List.find?_eq_none]
    intro x _
    simp
  · simp only [h, if_false]
    congr 1
    funext r
    by_cases h3 : r.txid = k
    · have : ¬ k = t := fun e => h e.symm
      simp [h3, this]
    · simp [h3]

theorem get_cons (r : Rec) (db : DB) (k : Nat) :
    DB.get (r :: db) k = if r.txid = k then some r else DB.get db k := by
  unfold DB.get
  rw [List.find?_cons]
  by_cases h : r.txid = k
  · simp [h]
  · have : (r.txid == k) = false := by simpa using h
    simp [this, h]

theorem get_put (db : DB) (r : Rec) (k : Nat) :
    (db.put r).get k = if r.txid = k then some r else db.get k := by
  unfold DB.put
  rw [get_cons, get_erase]
  by_cases h : r.txid = k <;> simp [h]

/-- what `del` leaves under its own key -/
def delResult (r : Rec) (rm : List Bool) : Option Rec :=
  if (delOuts r.outs rm).any Option.isSome then some { r with outs := delOuts r.outs rm } else none

theorem get_del (db : DB) (t : Nat) (rm : List Bool) (k : Nat) :
    (db.del t rm).get k =
      if t = k then (match db.get t with | none => none | some r => delResult r rm) else db.get k := by
  unfold DB.del
  cases hg : db.get t with
  | none =>
    by_cases h : t = k
    · subst h; simp [hg]
    · simp [h]
  | some r =>
    have ht := get_txid hg
    simp only [delResult]
    by_cases hany : (delOuts r.outs rm).any Option.isSome
    · simp only [hany, if_true]
      rw [get_put]
      simp only [ht]
    · have hf : (delOuts r.outs rm).any Option.isSome = false := by simpa using hany
      simp only [hf]
      rw [show (if false = true then db.put { r with outs := delOuts r.outs rm } else db.erase t) = db.erase t from by simp]
      rw [get_erase]
      simp

/-- what `undoOne` stores under the undo record's key -/
def undoResult (u : Rec) (v : Option Rec) : Option Rec :=
  match v with
  | some old => some { u with outs := mergeOuts u.outs old.outs }
  | none => some u

theorem get_undoOne (db : DB) (u : Rec) (k : Nat) :
    (undoOne db u).get k = if u.txid = k then undoResult u (db.get u.txid) else db.get k := by
  unfold undoOne undoResult
  cases hg : db.get u.txid with
  | none => simp only [get_put]
  | some old => simp only [get_put]

-- ------------------------------------------------------------------------------------------ folds of key-local steps

/-- a fold of steps that each touch only their own key leaves every other key alone -/
theorem foldl_get_other {α} (step : DB → α → DB) (key : α → Nat)
    (hloc : ∀ d x k, key x ≠ k → (step d x).get k = d.get k)
    (l : List α) (d : DB) (k : Nat) (hk : ∀ x ∈ l, key x ≠ k) :
    (l.foldl step d).get k = d.get k := by
  induction l generalizing d with
  | nil => rfl
  | cons x xs ih =>
    simp only [List.foldl_cons]
    rw [ih (step d x) (fun y hy => hk y (List.mem_cons_of_mem _ hy))]
    exact hloc d x k (hk x List.mem_cons_self)

/-- with pairwise distinct keys, the value under `key x` after the fold is what the single step `x` makes of the
    value that was there at the start (the step's result under its key depends only on that value) -/
theorem foldl_get_hit {α} (step : DB → α → DB) (key : α → Nat)
    (hloc : ∀ d x k, key x ≠ k → (step d x).get k = d.get k)
    (res : α → Option Rec → Option Rec)
    (hres : ∀ d x, (step d x).get (key x) = res x (d.get (key x)))
    (l : List α) (hnd : (l.map key).Nodup) (d : DB) (x : α) (hx : x ∈ l) :
    (l.foldl step d).get (key x) = res x (d.get (key x)) := by
  induction l generalizing d with
  | nil => cases hx
  | cons y ys ih =>
    simp only [List.map_cons, List.nodup_cons] at hnd
    simp only [List.foldl_cons]
    rcases List.mem_cons.mp hx with rfl | hin
    · rw [foldl_get_other step key hloc ys (step d x) (key x)]
      · exact hres d x
      · intro z hz heq
        exact hnd.1 (heq ▸ List.mem_map_of_mem hz)
    · rw [ih hnd.2 (step d y) hin]
      have : key y ≠ key x := by
        intro heq
        exact hnd.1 (heq ▸ List.mem_map_of_mem hin)
      rw [hloc d y (key x) this]

end GocoinV.UtxoOps

namespace GocoinV.UtxoOps

theorem get_foldl_erase (l : List Nat) (d : DB) (k : Nat) :
    (l.foldl DB.erase d).get k = if k ∈ l then none else d.get k := by
  induction l generalizing d with
  | nil => simp
  | cons t ts ih =>
    simp only [List.foldl_cons, ih, get_erase, List.mem_cons]
    by_cases h1 : k ∈ ts
    · simp [h1]
    · by_cases h2 : t = k
      · simp [h2]
      · have : ¬ k = t := fun e => h2 e.symm
        simp [h1, h2, this]

theorem undoRecOf_txid (u : DB) (p : Nat × List Bool) : (undoRecOf u p).txid = p.1 := by
  unfold undoRecOf
  split
  · rename_i r h; exact (get_txid h : r.txid = p.1)
  · rfl

/-- what `commitTxs` guarantees about the changes of a block it accepted on `u` -/
structure ValidChanges (u : DB) (txids : List Nat) (ch : Changes) : Prop where
  nodup : (ch.deled.map (·.1)).Nodup
  present : ∀ p ∈ ch.deled, (u.get p.1).isSome
  undo_eq : ch.undo = undoOf u ch.deled
  fresh : ∀ t ∈ txids, u.get t = none
  adds : ∀ r ∈ ch.addList, r.txid ∈ txids

theorem get_after_dels (u : DB) (deled : List (Nat × List Bool)) (hnd : (deled.map (·.1)).Nodup) :
    (∀ p ∈ deled, ((deled.foldl (fun d p => d.del p.1 p.2) u).get p.1 =
        match u.get p.1 with | none => none | some r => delResult r p.2)) ∧
    (∀ k, (∀ p ∈ deled, p.1 ≠ k) → (deled.foldl (fun d p => d.del p.1 p.2) u).get k = u.get k) := by
  have hloc : ∀ (d : DB) (x : Nat × List Bool) (k : Nat), x.1 ≠ k → (d.del x.1 x.2).get k = d.get k := by
    intro d x k h; rw [get_del]; simp [h]
  constructor
  · intro p hp
    exact foldl_get_hit (fun d p => d.del p.1 p.2) (·.1) hloc
      (fun p v => match v with | none => none | some r => delResult r p.2)
      (by intro d x; rw [get_del]; simp) deled hnd u p hp
  · intro k hk
    exact foldl_get_other (fun d p => d.del p.1 p.2) (·.1) hloc deled u k hk

theorem rec_restore (r : Rec) (rm : List Bool) :
    ({ ({ r with outs := maskOuts r.outs rm } : Rec) with
        outs := mergeOuts (maskOuts r.outs rm) (delOuts r.outs rm) } : Rec) = r := by
  cases r; simp [merge_mask_del]

/-- core lemma, record level: undoing a committed block with the undo data it produced gives back the map -/
theorem undo_commit_get (u : DB) (txids : List Nat) (ch : Changes) (hv : ValidChanges u txids ch) (k : Nat) :
    (undoBlock (commit u ch) txids ch.undo).get k = u.get k := by
  obtain ⟨hnd, hpres, hundo, hfresh, hadds⟩ := hv
  unfold undoBlock commit
  simp only
  rw [hundo, undoOf, List.foldl_map]
  -- names
  generalize hd1 : ch.deled.foldl (fun d p => d.del p.1 p.2) u = d1
  generalize hd2 : ch.addList.foldl DB.put d1 = d2
  generalize hd3 : txids.foldl DB.erase d2 = d3
  obtain ⟨hhit1, hoth1⟩ := get_after_dels u ch.deled hnd
  rw [hd1] at hhit1 hoth1
  have h2 : ∀ k, k ∉ txids → d2.get k = d1.get k := by
    intro k hk
    rw [← hd2]
    exact foldl_get_other DB.put Rec.txid (by intro d x k h; rw [get_put]; simp [h]) ch.addList d1 k
      (by intro x hx heq; exact hk (heq ▸ hadds x hx))
  have h3 : ∀ k, d3.get k = if k ∈ txids then none else d2.get k := by
    intro k; rw [← hd3]; exact get_foldl_erase txids d2 k
  have hloc : ∀ (d : DB) (x : Nat × List Bool) (k : Nat), x.1 ≠ k → (undoOne d (undoRecOf u x)).get k = d.get k := by
    intro d x k h
    rw [get_undoOne, undoRecOf_txid]; simp [h]
  have hnotin : ∀ p ∈ ch.deled, p.1 ∉ txids := by
    intro p hp hin
    have := hpres p hp
    rw [hfresh p.1 hin] at this
    simp at this
  by_cases hk : ∃ p ∈ ch.deled, p.1 = k
  · obtain ⟨p, hp, rfl⟩ := hk
    have hhit := foldl_get_hit (fun d p => undoOne d (undoRecOf u p)) (·.1) hloc
      (fun p v => undoResult (undoRecOf u p) v)
      (by intro d x
          rw [get_undoOne, if_pos (undoRecOf_txid u x), undoRecOf_txid])
      ch.deled hnd d3 p hp
    rw [hhit, h3, if_neg (hnotin p hp), h2 _ (hnotin p hp), hhit1 p hp]
    have hsome := hpres p hp
    cases hg : u.get p.1 with
    | none => rw [hg] at hsome; simp at hsome
    | some r =>
      simp only [delResult]
      by_cases hany : (delOuts r.outs p.2).any Option.isSome
      · simp only [hany, if_true, undoRecOf, hg, undoResult]
        rw [rec_restore]
      · have hf : (delOuts r.outs p.2).any Option.isSome = false := by simpa using hany
        simp only [hf, undoRecOf, hg, undoResult]
        rw [mask_eq_of_del_empty _ _ hf]
        rfl
  · have hk' : ∀ p ∈ ch.deled, p.1 ≠ k := fun p hp heq => hk ⟨p, hp, heq⟩
    rw [foldl_get_other (fun d p => undoOne d (undoRecOf u p)) (·.1) hloc ch.deled d3 k hk', h3]
    by_cases hin : k ∈ txids
    · simp [hin, hfresh k hin]
    · simp only [hin, if_false]
      rw [h2 k hin, hoth1 k hk']

end GocoinV.UtxoOps

namespace GocoinV.UtxoOps

theorem nodupB_sound : ∀ l : List Nat, nodupB l = true → l.Nodup
  | [], _ => List.nodup_nil
  | x :: xs, h => by
    simp only [nodupB, Bool.and_eq_true, Bool.not_eq_true', List.contains_eq_mem, decide_eq_false_iff_not] at h
    exact List.nodup_cons.mpr ⟨h.1, nodupB_sound xs h.2⟩

theorem validChangesB_sound (u : DB) (txids : List Nat) (ch : Changes)
    (h : validChangesB u txids ch = true) : ValidChanges u txids ch := by
  simp only [validChangesB, Bool.and_eq_true, List.all_eq_true, decide_eq_true_eq] at h
  obtain ⟨⟨⟨⟨h1, h2⟩, h3⟩, h4⟩, h5⟩ := h
  exact ⟨nodupB_sound _ h1, h2, h3, fun t ht => by simpa using h4 t ht, fun r hr => by simpa using h5 r hr⟩

end GocoinV.UtxoOps
