/-
  Proofs.C07Idx — lemmas about Model/PersistIdx.lean (index-file positions and flag bytes; what Close leaves in UTXO.db).
-/
import GocoinV.Model.PersistIdx
namespace GocoinV.Persist.Idx
open GocoinV.Gen.C07Facts

/-! ## load -/

theorem loadFrom_true (idx : List IRec) : ∀ pos,
    (loadFrom true idx pos).1 = pos + 136 * idx.length ∧
    (loadFrom true idx pos).2.map (·.ipos) = validPos idx pos := by
  induction idx with
  | nil => intro pos; simp [loadFrom, validPos]
  | cons r rs ih =>
    intro pos
    have h := ih (pos + 136)
    by_cases hi : isInvalid r = true
    · simp only [loadFrom, validPos, hi, if_true, List.length_cons]
      refine ⟨?_, h.2⟩
      rw [h.1]; omega
    · simp only [loadFrom, validPos, hi, List.length_cons, memOf]
      refine ⟨?_, ?_⟩
      · rw [h.1]; simp; omega
      · simp [h.2]

theorem iopen_true (d : List IRec) :
    (iopen true d).pos = 136 * d.length ∧ (iopen true d).mems.map (·.ipos) = validPos d 0 ∧ (iopen true d).disk = d := by
  have h := loadFrom_true d 0
  refine ⟨?_, h.2, rfl⟩
  simp [iopen, h.1]

/-! ## modAt -/

theorem modAt_length (f : IRec → IRec) : ∀ (l : List IRec) n, (modAt f l n).length = l.length := by
  intro l
  induction l with
  | nil => intro n; simp [modAt]
  | cons r rs ih =>
    intro n
    cases n with
    | zero => simp [modAt]
    | succ n => simp [modAt, ih]

theorem modAt_map_core (f : IRec → IRec) (hf : ∀ r, core (f r) = core r) :
    ∀ (l : List IRec) n, (modAt f l n).map core = l.map core := by
  intro l
  induction l with
  | nil => intro n; simp [modAt]
  | cons r rs ih =>
    intro n
    cases n with
    | zero => simp [modAt, hf]
    | succ n => simp [modAt, ih]

theorem or_flag_core (a fl : Nat) (hfl : fl = 1 ∨ fl = 2) : (a ||| fl) &&& (fComprsd ||| fSnapped ||| fLength ||| fIndex) = a &&& (fComprsd ||| fSnapped ||| fLength ||| fIndex) := by
  rw [Nat.and_or_distrib_right]
  rcases hfl with h | h <;> subst h <;> simp [fComprsd, fSnapped, fLength, fIndex]

theorem rewriteAt_disk_core (idx : List IRec) (m : IMem) (fl : Nat) (hfl : fl = 1 ∨ fl = 2) :
    (rewriteAt .disk idx m fl).map core = idx.map core := by
  unfold rewriteAt
  apply modAt_map_core
  intro r
  simp only [core]
  rw [or_flag_core _ _ hfl]

theorem rewriteAt_length (src : FlagSource) (idx : List IRec) (m : IMem) (fl : Nat) :
    (rewriteAt src idx m fl).length = idx.length := by
  unfold rewriteAt; exact modAt_length _ _ _

theorem writeAt_end (idx : List IRec) (r : IRec) : writeAt idx (136 * idx.length) r = idx ++ [r] := by
  unfold writeAt
  have : 136 * idx.length / 136 = idx.length := by omega
  simp [this]

/-! ## histories -/

/-- the flag argument of every rewrite is BLOCK_TRUSTED or BLOCK_INVALID (the only calls of setBlockFlag) -/
def FlagsOK (ops : List IOp) : Prop := ∀ i fl, IOp.flag i fl ∈ ops → fl = 1 ∨ fl = 2

def appended : List IOp → List IRec
  | [] => []
  | .append r :: ops => r :: appended ops
  | _ :: ops => appended ops

theorem appended_append (a b : List IOp) : appended (a ++ b) = appended a ++ appended b := by
  induction a with
  | nil => simp [appended]
  | cons op a ih =>
    cases op <;> simp [appended, ih]

/-- one step keeps the position invariant and the cores -/
theorem istep_inv (s : ISt) (op : IOp) (hp : s.pos = 136 * s.disk.length)
    (hfl : ∀ i fl, op = .flag i fl → fl = 1 ∨ fl = 2) :
    (istep .disk true s op).pos = 136 * (istep .disk true s op).disk.length ∧
    (istep .disk true s op).disk.map core = s.disk.map core ++ (appended [op]).map core := by
  cases op with
  | append r =>
    simp only [istep, appended, hp, writeAt_end]
    refine ⟨?_, by simp⟩
    simp; omega
  | flag i fl =>
    simp only [istep, appended]
    cases hm : s.mems[i]? with
    | none => simp [hp]
    | some m =>
      simp only [rewriteAt_length, hp, true_and]
      simp [rewriteAt_disk_core _ _ _ (hfl i fl rfl)]
  | restart =>
    have h := iopen_true s.disk
    simp only [istep, appended]
    refine ⟨?_, ?_⟩
    · rw [h.1, h.2.2]
    · simp [h.2.2]

theorem foldl_inv (ops : List IOp) : ∀ (s : ISt), s.pos = 136 * s.disk.length → FlagsOK ops →
    (ops.foldl (istep .disk true) s).pos = 136 * (ops.foldl (istep .disk true) s).disk.length ∧
    (ops.foldl (istep .disk true) s).disk.map core = s.disk.map core ++ (appended ops).map core := by
  induction ops with
  | nil => intro s hp _; simp [appended, hp]
  | cons op ops ih =>
    intro s hp hf
    have h1 := istep_inv s op hp (fun i fl he => hf i fl (by simp [he]))
    have h2 := ih (istep .disk true s op) h1.1 (fun i fl hm => hf i fl (by simp [hm]))
    simp only [List.foldl_cons]
    refine ⟨h2.1, ?_⟩
    rw [h2.2, h1.2]
    have : appended (op :: ops) = appended [op] ++ appended ops := by
      have := appended_append [op] ops
      simpa using this
    rw [this]
    simp

theorem irun_inv (d : List IRec) (ops : List IOp) (hf : FlagsOK ops) :
    (irun .disk true d ops).pos = 136 * (irun .disk true d ops).disk.length ∧
    (irun .disk true d ops).disk.map core = (d ++ appended ops).map core := by
  have h0 := iopen_true d
  have h := foldl_inv ops (iopen true d) (by rw [h0.1, h0.2.2]) hf
  unfold irun
  refine ⟨h.1, ?_⟩
  rw [h.2, h0.2.2]; simp

/-- the data file of a record is a function of its core -/
theorem dataFileOf_core (r : IRec) : dataFileOf r = if (core r).1 &&& fIndex != 0 then (core r).2 else 0 := by
  have : r.flags &&& (fComprsd ||| fSnapped ||| fLength ||| fIndex) &&& fIndex = r.flags &&& fIndex := by
    rw [Nat.and_assoc]
    simp [fComprsd, fSnapped, fLength, fIndex]
  simp only [dataFileOf, core, this]

theorem map_dataFileOf_of_core (a b : List IRec) (h : a.map core = b.map core) : a.map dataFileOf = b.map dataFileOf := by
  have : ∀ l : List IRec, l.map dataFileOf = (l.map core).map (fun c => if c.1 &&& fIndex != 0 then c.2 else 0) := by
    intro l
    simp only [List.map_map]
    apply List.map_congr_left
    intro r _
    exact dataFileOf_core r
  rw [this a, this b, h]

/-! ## Close -/

/-- a clean set in memory is the one of UTXO.db -/
def Clean (s : CSt) : Prop := s.dirty = false → s.tip = s.dTip ∧ s.height = s.dHeight

theorem cstep_clean (s : CSt) (op : COp) (h : Clean s) : Clean (cstep .dirty true true s op) := by
  cases op with
  | commit b => intro hd; simp [cstep] at hd
  | undo p => intro hd; simp [cstep] at hd
  | idle skip =>
    simp only [cstep]
    by_cases hc : (s.dirty && decide (hdiff s > skip)) = true
    · rw [if_pos hc]; intro _; simp [saveNow]
    · rw [if_neg hc]; exact h
  | restart =>
    intro _
    simp only [cstep, closeWrites]
    by_cases hc : s.dirty = true
    · simp
    · simp

theorem restart_identity (s : CSt) (h : Clean s) :
    ((cstep .dirty true true s .restart).tip, (cstep .dirty true true s .restart).height) = (s.tip, s.height) := by
  simp only [cstep, closeWrites]
  by_cases hd : s.dirty = true
  · simp [hd, saveNow]
  · have hf : s.dirty = false := by simpa using hd
    have := h hf
    simp [hf, this.1, this.2]

theorem restartPairs_dirty (ops : List COp) : ∀ s, Clean s → ∀ p ∈ restartPairs .dirty true true s ops, p.1 = p.2 := by
  induction ops with
  | nil => intro s _ p hp; simp [restartPairs] at hp
  | cons op ops ih =>
    intro s hs p hp
    cases op with
    | restart =>
      simp only [restartPairs, List.mem_cons] at hp
      rcases hp with hp | hp
      · rw [hp]; exact (restart_identity s hs).symm
      · exact ih _ (cstep_clean s .restart hs) p hp
    | commit b => exact ih _ (cstep_clean s (.commit b) hs) p (by simpa [restartPairs] using hp)
    | undo q => exact ih _ (cstep_clean s (.undo q) hs) p (by simpa [restartPairs] using hp)
    | idle k => exact ih _ (cstep_clean s (.idle k) hs) p (by simpa [restartPairs] using hp)

end GocoinV.Persist.Idx
