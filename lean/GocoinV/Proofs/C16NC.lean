/-
  Proofs.C16NC — the one-pass read `BlockGetInternal(hash, do_not_cache = true)` (Model.BlockDBNC.blockGetNC) against the
  caching read `blockGet`: same reply, same state up to cache / clock; nothing leaves the cache.
-/
import GocoinV.Spec.BlockStoreMapNC
import GocoinV.Proofs.C16Main
namespace GocoinV.BlockDB

namespace AL
variable {κ : Type} [DecidableEq κ] {α : Type}

theorem get_set_nc (l : List (κ × α)) (k k' : κ) (v : α) :
    AL.get (AL.set l k v) k' = if k = k' then some v else AL.get l k' := by
  induction l with
  | nil => simp only [AL.set, AL.get]
  | cons hd t ih =>
    obtain ⟨k0, v0⟩ := hd
    simp only [AL.set]
    by_cases h0 : k0 = k
    · subst h0
      simp only [↓reduceIte, AL.get]
      split <;> rfl
    · simp only [h0, ↓reduceIte, AL.get, ih]
      by_cases h1 : k0 = k'
      · subst h1
        simp only [↓reduceIte, Ne.symm h0]
      · simp only [h1, ↓reduceIte]

end AL

/-- the shared case analysis of the two reads -/
theorem blockGetNC_cases (env : Env) (s : State) (hash : Bytes) :
    (blockGetNC env s hash).2 = (blockGet env s hash).2 ∧
    (AL.get s.cache (keyOf hash) = none →
      (blockGetNC env s hash).1 = { (blockGet env s hash).1 with cache := s.cache, clock := s.clock }) := by
  cases hi : AL.get s.index (keyOf hash) with
  | none => simp only [blockGetNC, blockGet, hi, implies_true, and_self]
  | some r0 =>
    cases hc : AL.get s.cache (keyOf hash) with
    | some c => simp only [blockGetNC, blockGet, hi, hc, reduceCtorEq, false_implies, and_self]
    | none =>
      by_cases h1 : r0.ipos.isNone = true
      · simp only [blockGetNC, blockGet, hi, hc, h1, ↓reduceIte, implies_true, and_self]
      · by_cases h2 : r0.blen = 0
        · simp only [blockGetNC, blockGet, hi, hc, h1, h2, ↓reduceIte, implies_true, and_self, Bool.false_eq_true]
        · cases hf : (AL.get s.fs.dats r0.datfileidx).orElse (fun _ => AL.get s.fs.olds r0.datfileidx) with
          | none => simp only [blockGetNC, blockGet, hi, hc, h1, h2, hf, ↓reduceIte, implies_true, and_self, Bool.false_eq_true]
          | some file =>
            by_cases h3 : r0.fpos + r0.blen > file.length
            · simp only [blockGetNC, blockGet, hi, hc, h1, h2, hf, h3, ↓reduceIte, implies_true, and_self, Bool.false_eq_true]
            · simp only [blockGetNC, blockGet, hi, hc, h1, h2, hf, h3, ↓reduceIte, Bool.false_eq_true]
              generalize decodeStored env r0 _ = d
              obtain ⟨bl, err⟩ := d
              cases err <;> simp only [addToCache, hc, true_and, implies_true]

/-- the reply of the one-pass read is the reply `BlockGet` gives in the same state -/
theorem blockGetNC_out (env : Env) (s : State) (hash : Bytes) :
    (blockGetNC env s hash).2 = (blockGet env s hash).2 := (blockGetNC_cases env s hash).1

/-- on a cache hit the two reads are the same operation -/
theorem blockGetNC_hit (env : Env) (s : State) (hash : Bytes) (c : CacheEnt)
    (hc : AL.get s.cache (keyOf hash) = some c) : blockGetNC env s hash = blockGet env s hash := by
  unfold blockGetNC blockGet
  simp only [hc]
  cases AL.get s.index (keyOf hash) <;> rfl

/-- on a miss the one-pass read leaves the cache and the clock alone; everything else is what `BlockGet` does -/
theorem blockGetNC_miss (env : Env) (s : State) (hash : Bytes) (hc : AL.get s.cache (keyOf hash) = none) :
    (blockGetNC env s hash).1 = { (blockGet env s hash).1 with cache := s.cache, clock := s.clock } :=
  (blockGetNC_cases env s hash).2 hc

/-- the cache after the one-pass read: the same keys with the same bytes (only `LastUsed` of the block read moves) -/
theorem blockGetNC_cache (env : Env) (s : State) (hash : Bytes) (k : Key) :
    (AL.get (blockGetNC env s hash).1.cache k).map (·.data) = (AL.get s.cache k).map (·.data) := by
  cases hc : AL.get s.cache (keyOf hash) with
  | none => rw [blockGetNC_miss env s hash hc]
  | some c =>
    unfold blockGetNC
    simp only [hc]
    split
    · rfl
    · simp only [AL.get_set_nc]
      by_cases hk : keyOf hash = k
      · subst hk; simp only [↓reduceIte, hc, Option.map_some]
      · simp only [hk, ↓reduceIte]

/-- the index after the one-pass read: the same keys; a record changes at most in `olen` -/
theorem blockGetNC_index (env : Env) (s : State) (hash : Bytes) (k : Key) :
    (AL.get (blockGetNC env s hash).1.index k).map (fun r => (r.ipos, r.trusted, r.seq, r.datfileidx, r.fpos, r.blen))
      = (AL.get s.index k).map (fun r => (r.ipos, r.trusted, r.seq, r.datfileidx, r.fpos, r.blen)) := by
  unfold blockGetNC
  simp only
  split
  · rfl
  · rename_i r0 hr
    split
    · rfl
    · split
      · rfl
      · split
        · rfl
        · split
          · rfl
          · split
            · rfl
            · generalize decodeStored env _ _ = d
              obtain ⟨bl, err⟩ := d
              have key : (AL.get (AL.set s.index (keyOf hash) (if r0.olen = 0 then { r0 with olen := bl.length } else r0)) k).map
                  (fun r => (r.ipos, r.trusted, r.seq, r.datfileidx, r.fpos, r.blen))
                  = (AL.get s.index k).map (fun r => (r.ipos, r.trusted, r.seq, r.datfileidx, r.fpos, r.blen)) := by
                simp only [AL.get_set_nc]
                by_cases hk : keyOf hash = k
                · subst hk
                  simp only [↓reduceIte, hr, Option.map_some]
                  split <;> rfl
                · simp only [hk, ↓reduceIte]
              simp only
              cases err <;> exact key

/-- a block whose write is still queued (`ipos = none`) and that sits in the cache is still answered by `BlockGet` after a
    one-pass read of ANY block — in particular of that block itself: the one-pass read never lets go of the only copy -/
theorem blockGetNC_queued_readable (env : Env) (s : State) (hash hash' : Bytes) (r : Rec) (c : CacheEnt)
    (hr : AL.get s.index (keyOf hash') = some r) (hc : AL.get s.cache (keyOf hash') = some c) :
    (blockGet env (blockGetNC env s hash).1 hash').2 = .data c.data r.trusted := by
  have h1 := blockGetNC_cache env s hash (keyOf hash')
  have h2 := blockGetNC_index env s hash (keyOf hash')
  rw [hc] at h1
  rw [hr] at h2
  generalize (blockGetNC env s hash).1 = s' at h1 h2
  cases hc' : AL.get s'.cache (keyOf hash') with
  | none => rw [hc'] at h1; simp at h1
  | some c' =>
    cases hr' : AL.get s'.index (keyOf hash') with
    | none => rw [hr'] at h2; simp at h2
    | some r' =>
      rw [hc'] at h1; rw [hr'] at h2
      simp only [Option.map_some, Option.some.injEq, Prod.mk.injEq] at h1 h2
      unfold blockGet
      simp only [hr', hc', h1, h2.2.1]

/-! ## the durable-map refinement with one-pass reads in the history -/

theorem blockGetNC_ref (env : Env) (s : State) (sp : Spec) (h : Ref env s sp) (hash : Bytes) :
    Ref env (blockGetNC env s hash).1 sp ∧
    (∀ e, AL.get sp.m (keyOf hash) = some e → e.tainted = false → keyLost s (keyOf hash) = false →
      (blockGetNC env s hash).2 = .data e.raw e.trusted) := by
  refine ⟨?_, by rw [blockGetNC_out]; exact (blockGet_ref env s sp h hash).2⟩
  cases hcn : AL.get s.cache (keyOf hash) with
  | some c => rw [blockGetNC_hit env s hash c hcn]; exact (blockGet_ref env s sp h hash).1
  | none =>
    unfold blockGetNC
    simp only [hcn]
    split
    · exact h
    · rename_i r0 hr0
      split
      · exact h
      · split
        · exact h
        · split
          · exact h
          · split
            · exact h
            · rename_i file hfile _
              generalize hble : decodeStored env r0 (List.take r0.blen (List.drop r0.fpos file)) = ble
              obtain ⟨bl, err⟩ := ble
              simp only
              have holen : ∀ e, AL.get sp.m (keyOf hash) = some e → e.tainted = false → r0.trusted = e.trusted ∧ r0.olen ≠ 0 := by
                intro e he hte
                obtain ⟨r, hr, hr2, hr3, hr4, _, _⟩ := h.ent _ e he hte
                rw [hr0] at hr; simp only [Option.some.injEq] at hr; subst hr
                exact ⟨hr2, by omega⟩
              have h1 : Ref env { s with index := AL.set s.index (keyOf hash) (if r0.olen = 0 then ({ r0 with olen := bl.length } : Rec) else r0) } sp := by
                obtain ⟨e0, he0⟩ := h.idxspec _ r0 hr0
                refine ref_update env s _ sp sp h (keyOf hash) r0 (if r0.olen = 0 then ({ r0 with olen := bl.length } : Rec) else r0) hr0
                  (fun k' => by simp only [AL.get_set]) rfl rfl ⟨rfl, rfl, rfl⟩ rfl rfl rfl rfl rfl
                  (by split <;> rfl) (by split <;> rfl) (by split <;> rfl) (by split <;> rfl) (by split <;> rfl) (by split <;> rfl) (by split <;> rfl)
                  rfl (fun _ _ => rfl) ?_ ⟨e0, he0⟩
                intro e' he' hte
                obtain ⟨h3, h4⟩ := holen e' he' hte
                exact ⟨e', he', hte, rfl, by rw [if_neg h4]; exact h3, by rw [if_neg h4]⟩
              split <;> exact h1

theorem stepX_ref (env : Env) (ok : EnvOK env) (s : State) (sp : Spec) (h : Ref env s sp) (op : OpX) (hop : op.ok) :
    Ref env (stepX env s op).1 (specStepX s sp op) ∧ (claimRX s sp op).holds (stepX env s op).2 := by
  cases op with
  | op o => exact step_ref env ok s sp h o hop.1 hop.2
  | getNC hash =>
    have hopn := h.opn
    unfold stepX specStepX claimRX claimR claim
    simp only
    by_cases ho : s.isOpen = true
    · simp only [ho, hopn, Bool.not_true, Bool.false_eq_true, ↓reduceIte]
      obtain ⟨g1, g2⟩ := blockGetNC_ref env s sp h hash
      refine ⟨g1, ?_⟩
      cases hkl : keyLost s (keyOf hash) with
      | true => trivial
      | false =>
        simp only [Bool.false_eq_true, ↓reduceIte]
        cases hsp : AL.get sp.m (keyOf hash) with
        | none => trivial
        | some e =>
          simp only
          cases hte : e.tainted with
          | true => trivial
          | false => exact g2 e hsp hte hkl
    · simp only [ho, hopn, Bool.not_false, ↓reduceIte]
      refine ⟨h, ?_⟩
      split <;> trivial

theorem runX_ref (env : Env) (ok : EnvOK env) : ∀ (ops : List OpX) (s : State) (sp : Spec), Ref env s sp →
    (∀ op ∈ ops, op.ok) → AllHold (specRunRX env s sp ops) (runX env s ops).2 := by
  intro ops
  induction ops with
  | nil => intro s sp _ _; exact trivial
  | cons op ops ih =>
    intro s sp h hno
    obtain ⟨h1, h2⟩ := stepX_ref env ok s sp h op (hno op (by simp))
    unfold runX specRunRX
    exact ⟨h2, ih _ _ h1 (fun op' hop' => hno op' (by simp [hop']))⟩

/-- one session on a fresh directory, ANY options, the one-pass read anywhere in the history -/
theorem session_refinesRX (env : Env) (ok : EnvOK env) (o : Opts) (ops : List OpX) (hops : ∀ op ∈ ops, op.ok) :
    AllHold (specRunRX env init {} (.op (.reopen o) :: ops)) (runX env init (.op (.reopen o) :: ops)).2 := by
  have h0 := reopen_fresh_ref env o
  have h1 := runX_ref env ok ops (reopen env {} o).1 { isOpen := true, m := [] } h0 hops
  unfold runX specRunRX
  exact ⟨trivial, h1⟩

end GocoinV.BlockDB
