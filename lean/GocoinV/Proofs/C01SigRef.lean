/-
  Proofs.C01SigRef — the signature digests of the reference side (Spec/ScriptSigRef.lean) and their relation to
    * the sighash fields of a total crypto instance (`SigHashIsRef`, `withRef_eq`): when an instance answers with the
      specification's digests, running the reference semantics on the reference digests (what the C01 oracle does)
      is running it on the instance — so `script_equiv` speaks about exactly what the harness compares;
    * the hypothesis `TapSigHashOk` of the central theorem (`tapDigest_defined_iff`): the BIP341 reference digest is
      absent exactly where `ScriptSpec.tapHashTypeDefined` says so;
    * property C02's MODEL of gocoin's Tx.SignatureHash / WitnessSigHash / TaprootSigHash (`c02_*_is_ref`): the model
      returns the reference digests (from Props.C02's preimage theorems);
    * that model AS a crypto instance (`c02Instance`): it satisfies `SigHashIsRef` and — for every annex-hash argument,
      annex hash of this witness or not — `TapSigHashOk` (`c02Instance_isRef`, `c02Instance_tapOk`).
-/
import GocoinV.Spec.ScriptSigRef
import GocoinV.Spec.Script
import GocoinV.Props.C02
import GocoinV.Proofs.C01Checksig
namespace GocoinV.Proofs.C01
open GocoinV GocoinV.Script GocoinV.Script.SigRef

/-- the crypto instance answers every signature-digest query of this input with the specification's digest of the
    spending transaction `F` (legacy and BIP143: wherever the specification defines a message; BIP341: for the
    annex hash of this input's own witness `w`) -/
def SigHashIsRef (T : TotalOracles) (F : FullTx) (w : List Bytes) : Prop :=
  (∀ sc ht d, legacyDigest T.hash256 F sc ht = some d → T.sigHashLegacy sc ht = d) ∧
  (∀ sc ht d, witV0Digest T.hash256 F sc ht = some d → T.sigHashWitV0 sc ht = d) ∧
  (∀ l c h s, T.sigHashTap ((annexOf w).map (annexHash T.sha256)) l c h s = tapDigest T.sha256 F (annexOf w) l c h s)

theorem withRef_eq (T : TotalOracles) (F : FullTx) (w : List Bytes) (h : SigHashIsRef T F w) :
    withRefSigHash T.toOracles F w = T.toOracles := by
  obtain ⟨hl, hw, ht⟩ := h
  simp only [withRefSigHash, TotalOracles.toOracles]
  congr 1
  · funext sc x
    cases hd : legacyDigest T.hash256 F sc x with
    | none => rfl
    | some d => simp [hl sc x d hd]
  · funext sc x
    cases hd : witV0Digest T.hash256 F sc x with
    | none => rfl
    | some d => simp [hw sc x d hd]
  · funext a l c x s
    by_cases ha : a = (annexOf w).map (annexHash T.sha256)
    · subst ha
      simp [ht l c x s]
    · simp [ha]

/-- the transaction handed to the reference digests is the one the interpreter's context was cut from -/
structure Consistent (F : FullTx) (tx : TxCtx) : Prop where
  idx : F.idx = tx.idx
  nOuts : F.tx.outs.length = tx.nOuts
  inRange : F.idx < F.tx.ins.length
  spent : F.spent.length = F.tx.ins.length

theorem validType_iff' (ht : Nat) :
    Spec.SigHash.validTaprootHashType ht = true ↔ (ht ≤ 3 ∨ (0x81 ≤ ht ∧ ht ≤ 0x83)) := by
  simp only [Spec.SigHash.validTaprootHashType, decide_eq_true_eq]
  omega

theorem tapDigest_defined (sha : Bytes → Bytes) (hsha : ∀ b, sha b ≠ []) (F : FullTx) (tx : TxCtx)
    (hc : Consistent F tx) (annex : Option Bytes) (l : Bytes) (c ht : Nat) (s : Bool) :
    ((tapDigest sha F annex l c ht s).length == 0) = !ScriptSpec.tapHashTypeDefined tx ht := by
  obtain ⟨inp, hinp⟩ : ∃ inp, F.tx.ins[F.idx]? = some inp := ⟨F.tx.ins[F.idx]'hc.inRange, by simp [hc.inRange]⟩
  obtain ⟨sp, hsp⟩ : ∃ sp, F.spent[F.idx]? = some sp :=
    ⟨F.spent[F.idx]'(by rw [hc.spent]; exact hc.inRange), by simp [hc.spent, hc.inRange]⟩
  unfold tapDigest Spec.SigHash.bip341 Spec.SigHash.bip341Msg ScriptSpec.tapHashTypeDefined
  rw [← hc.idx, ← hc.nOuts]
  by_cases hv : Spec.SigHash.validTaprootHashType ht = true
  · have hv' := (validType_iff' ht).mp hv
    have hb : (decide (ht ≤ 3) || (decide (0x81 ≤ ht) && decide (ht ≤ 0x83))) = true := by
      rcases hv' with h | ⟨h1, h2⟩
      · simp [h]
      · simp [h1, h2]
    simp only [hv, not_true_eq_false, ↓reduceIte, hc.spent, hinp, hsp, hb, Bool.true_and]
    by_cases ho : ht % 4 = 3 ∧ F.idx ≥ F.tx.outs.length
    · simp [ho.1, ho.2]
    · have hne : ¬ (ht % 4 = 3 ∧ F.tx.outs.length ≤ F.idx) := ho
      simp only [ge_iff_le, hne, ↓reduceIte]
      have hlen : ∀ b, ((sha b).length == 0) = false := fun b => by
        cases hb : sha b with
        | nil => exact absurd hb (hsha b)
        | cons x r => rfl
      rcases Nat.lt_or_ge F.idx F.tx.outs.length with hlt | hge
      · have : ¬ F.tx.outs.length ≤ F.idx := by omega
        simp [this, hlen]
      · have h3 : ¬ ht % 4 = 3 := fun h => hne ⟨h, hge⟩
        simp [h3, hlen]
  · have hv' : ¬ (ht ≤ 3 ∨ (0x81 ≤ ht ∧ ht ≤ 0x83)) := fun h => hv ((validType_iff' ht).mpr h)
    have hb : (decide (ht ≤ 3) || (decide (0x81 ≤ ht) && decide (ht ≤ 0x83))) = false := by
      rw [Bool.eq_false_iff]; intro h; apply hv'
      simp only [Bool.or_eq_true, Bool.and_eq_true, decide_eq_true_eq] at h; exact h
    simp [hv, hb]

/-! ### property C02's model of the three gocoin functions returns the reference digests -/

open GocoinV.SigHash in
theorem c02_witV0_is_ref (H : Bytes → Bytes) (F : FullTx) (hi : F.idx < F.tx.ins.length) (c : Cache)
    (hc : Cache.OK H F.tx F.spent c) (sc : Bytes) (ht : Nat) :
    (witnessSigHash H F.tx c sc F.amount F.idx ht).1.digest? = witV0Digest (fun b => H (H b)) F sc ht := by
  have hd := Props.C02.bip143_defined (fun b => H (H b)) F.tx sc F.amount F.idx ht hi
  cases hp : Spec.SigHash.bip143 (fun b => H (H b)) F.tx sc F.amount F.idx ht with
  | none => rw [hp] at hd; cases hd
  | some pre =>
    rw [Props.C02.bip143_preimage_eq H F.tx F.spent c hc sc F.amount F.idx ht pre hp]
    simp [witV0Digest, hp, Res.digest?]

open GocoinV.SigHash in
theorem c02_legacy_is_ref (H : Bytes → Bytes) (F : FullTx) (sc : Bytes) (ht : Nat) (d : Bytes)
    (h : legacyDigest (fun b => H (H b)) F sc ht = some d) :
    (signatureHash H F.tx sc F.idx ht).digest? = some d := by
  unfold legacyDigest at h
  cases hm : Spec.SigHash.legacy F.tx sc F.idx ht with
  | none => rw [hm] at h; cases h
  | some m =>
    rw [hm] at h
    rw [Props.C02.legacy_preimage_eq H F.tx sc F.idx ht m hm]
    cases m with
    | one => cases h; rfl
    | msg pre => cases h; rfl

open GocoinV.SigHash in
theorem annexHash_eq (H : Bytes → Bytes) (annex : Option Bytes) :
    annex.map (annexHash H) = annex.map (annexHashOf H) := by
  cases annex with
  | none => rfl
  | some a => simp [annexHash, annexHashOf, Spec.SigHash.varBytes, writeVlen_eq]

open GocoinV.SigHash in
/-- key path: `TaprootSigHash` does not read the leaf hash / code separator position of the execution data -/
theorem taproot_keypath_ignores_ext (H : Bytes → Bytes) (tx : Wire.Tx) (spent : List Wire.TxOut) (c : Cache)
    (a : Option Bytes) (l : Bytes) (cs idx ht : Nat) :
    taprootSigHash true H tx spent c { annexHash := a, tapleafHash := l, codesepPos := cs } idx ht false =
    taprootSigHash true H tx spent c { annexHash := a } idx ht false := by
  simp [taprootSigHash, taprootTail]

open GocoinV.SigHash in
theorem c02_tap_is_ref (H : Bytes → Bytes) (F : FullTx) (hs : F.spent.length = F.tx.ins.length)
    (hi : F.idx < F.tx.ins.length) (c : Cache) (hc : Cache.OK H F.tx F.spent c)
    (annex : Option Bytes) (l : Bytes) (cs ht : Nat) (s : Bool) :
    ((taprootSigHash true H F.tx F.spent c
        { annexHash := annex.map (annexHash H), tapleafHash := l, codesepPos := cs } F.idx ht s).1.digest?).getD []
      = tapDigest H F annex l cs ht s := by
  -- the extension data the specification is given for this query
  have key : ∀ ext : Option Spec.SigHash.Ext,
      ((taprootSigHash true H F.tx F.spent c (execDataOf H annex ext) F.idx ht ext.isSome).1.digest?).getD [] =
        ((Spec.SigHash.bip341 H F.tx F.spent F.idx ht annex ext).map H).getD [] := by
    intro ext
    cases hp : Spec.SigHash.bip341 H F.tx F.spent F.idx ht annex ext with
    | some pre => rw [Props.C02.bip341_preimage_eq H F.tx F.spent c hs hc F.idx ht hi annex ext pre hp]; rfl
    | none => rw [Props.C02.bip341_undefined_is_nil H F.tx F.spent c hs hc F.idx ht hi annex ext hp]; rfl
  cases s with
  | true =>
    have := key (some ⟨l, cs⟩)
    simpa [tapDigest, execDataOf, annexHash_eq] using this
  | false =>
    have := key none
    rw [taproot_keypath_ignores_ext]
    simpa [tapDigest, execDataOf, annexHash_eq, taproot_keypath_ignores_ext H F.tx F.spent c _ [] 0xffffffff] using this

/-! ### property C02's model as a crypto INSTANCE of the C01 theorems: it satisfies `SigHashIsRef` and `TapSigHashOk` -/

section C02Instance
open GocoinV.SigHash

theorem hlen0 (H : Bytes → Bytes) (hsha : ∀ b, H b ≠ []) (b : Bytes) : ((H b).length == 0) = false := by
  cases hb : H b with
  | nil => exact absurd hb (hsha b)
  | cons x r => rfl

/-- whether `Tx.TaprootSigHash` (C02's model, as fixed) returns a digest does not depend on the annex hash it is given -/
theorem tap_len_indep (H : Bytes → Bytes) (hsha : ∀ b, H b ≠ []) (tx : Wire.Tx) (spent : List Wire.TxOut) (c : Cache)
    (a : Option Bytes) (l : Bytes) (cs idx ht : Nat) (s : Bool) :
    ((((taprootSigHash true H tx spent c { annexHash := a, tapleafHash := l, codesepPos := cs } idx ht s).1.digest?).getD []).length == 0) =
    ((((taprootSigHash true H tx spent c { annexHash := none, tapleafHash := l, codesepPos := cs } idx ht s).1.digest?).getD []).length == 0) := by
  unfold taprootSigHash
  simp only []
  split
  · rfl
  · split
    · rfl
    · unfold taprootTail
      simp only []
      split
      · rfl
      · split
        · rfl
        · simp [Res.digest?, hlen0 H hsha]

/-- the crypto instance whose three signature-digest answers are property C02's MODEL of gocoin's `Tx.SignatureHash`,
    `Tx.WitnessSigHash` and `Tx.TaprootSigHash` (as fixed) on the transaction `F`, each query finding the per-transaction
    hash cache in a state of its own (`cw`, `ct`: the cache is filled by earlier queries, possibly of other inputs);
    "no digest" (nil / panic) is the empty string, the double hash is SHA-256 twice -/
def c02Instance (T0 : TotalOracles) (F : FullTx) (cw : Bytes → Nat → Cache)
    (ct : Option Bytes → Bytes → Nat → Nat → Bool → Cache) : TotalOracles :=
  { T0 with
    hash256 := fun b => T0.sha256 (T0.sha256 b)
    sigHashLegacy := fun sc ht => ((signatureHash T0.sha256 F.tx sc F.idx ht).digest?).getD []
    sigHashWitV0 := fun sc ht => ((witnessSigHash T0.sha256 F.tx (cw sc ht) sc F.amount F.idx ht).1.digest?).getD []
    sigHashTap := fun a l cs ht s =>
      ((taprootSigHash true T0.sha256 F.tx F.spent (ct a l cs ht s)
          { annexHash := a, tapleafHash := l, codesepPos := cs } F.idx ht s).1.digest?).getD [] }

theorem c02Instance_isRef (T0 : TotalOracles) (F : FullTx) (cw : Bytes → Nat → Cache)
    (ct : Option Bytes → Bytes → Nat → Nat → Bool → Cache) (w : List Bytes)
    (hs : F.spent.length = F.tx.ins.length) (hi : F.idx < F.tx.ins.length)
    (hcw : ∀ sc ht, Cache.OK T0.sha256 F.tx F.spent (cw sc ht))
    (hct : ∀ a l cs ht s, Cache.OK T0.sha256 F.tx F.spent (ct a l cs ht s)) :
    SigHashIsRef (c02Instance T0 F cw ct) F w := by
  refine ⟨?_, ?_, ?_⟩
  · intro sc ht d h
    have := c02_legacy_is_ref T0.sha256 F sc ht d h
    show ((signatureHash T0.sha256 F.tx sc F.idx ht).digest?).getD [] = d
    rw [this]; rfl
  · intro sc ht d h
    have := c02_witV0_is_ref T0.sha256 F hi (cw sc ht) (hcw sc ht) sc ht
    show ((witnessSigHash T0.sha256 F.tx (cw sc ht) sc F.amount F.idx ht).1.digest?).getD [] = d
    rw [this]
    have h' : witV0Digest (fun b => T0.sha256 (T0.sha256 b)) F sc ht = some d := h
    rw [h']; rfl
  · intro l c h s
    exact c02_tap_is_ref T0.sha256 F hs hi _ (hct _ l c h s) (annexOf w) l c h s

theorem c02Instance_tapOk (T0 : TotalOracles) (F : FullTx) (tx : TxCtx) (cw : Bytes → Nat → Cache)
    (ct : Option Bytes → Bytes → Nat → Nat → Bool → Cache) (hc : Consistent F tx) (hsha : ∀ b, T0.sha256 b ≠ [])
    (hct : ∀ a l cs ht s, Cache.OK T0.sha256 F.tx F.spent (ct a l cs ht s)) :
    TapSigHashOk (c02Instance T0 F cw ct) tx := by
  intro a l csp ht scr
  show ((((taprootSigHash true T0.sha256 F.tx F.spent (ct a l csp ht scr)
          { annexHash := a, tapleafHash := l, codesepPos := csp } F.idx ht scr).1.digest?).getD []).length == 0) = _
  rw [tap_len_indep T0.sha256 hsha]
  have := c02_tap_is_ref T0.sha256 F hc.spent hc.inRange _ (hct a l csp ht scr) none l csp ht scr
  simp only [Option.map_none] at this
  rw [this]
  exact tapDigest_defined T0.sha256 hsha F tx hc none l csp ht scr

end C02Instance

end GocoinV.Proofs.C01
