/-
  Proofs.C15Bech32 — algebra of the GENERATED `bech32_polymod_step` (Gen/Bech32Consts.lean):
  30-bit range, GF(2)-linearity on 30-bit states, behaviour on small values, and the
  "feed the six checksum symbols" lemma used by Props/C15.bech32_decode_encode.
  The literal generator constants appear below (`Gsel`); `ps_eq` ties them to the generated
  definition, so an edit of a constant in lib/others/bech32/bech32.go breaks `ps_eq`.
-/
import GocoinV.Model.Bech32
namespace GocoinV.Bech32

def hi30 (x : UInt32) : Prop := x.toNat < 2 ^ 30

theorem and_xor_r (a b m : UInt32) : (a ^^^ b) &&& m = (a &&& m) ^^^ (b &&& m) := by
  apply UInt32.toBitVec_inj.1
  simp only [UInt32.toBitVec_and, UInt32.toBitVec_xor]
  ext i hi
  simp [Bool.and_xor_distrib_right]

def sel (t : UInt32) (k c : UInt32) : UInt32 := (0 - ((t >>> k) &&& (1 : UInt32))) &&& c

/-- selector part of the step as a function of the top bits `pre >> 25` -/
def Gsel (t : UInt32) : UInt32 :=
  sel t 0 996825010 ^^^ sel t 1 642813549 ^^^ sel t 2 513874426 ^^^ sel t 3 1027748829 ^^^ sel t 4 705979059

theorem ps_eq (x : UInt32) : polymodStep x = ((x &&& 0x1FFFFFF) <<< 5) ^^^ Gsel (x >>> 25) := by
  simp only [polymodStep, Gen.Bech32Consts.polymodStep, Gsel, sel, UInt32.xor_assoc]

theorem Gsel_lin32 : ∀ t u : Fin 32,
    Gsel (UInt32.ofNat t.val ^^^ UInt32.ofNat u.val) = Gsel (UInt32.ofNat t.val) ^^^ Gsel (UInt32.ofNat u.val) := by
  decide +kernel

theorem Gsel_hi32 : ∀ t : Fin 32, (Gsel (UInt32.ofNat t.val)).toNat < 2 ^ 30 := by
  decide +kernel

theorem xor_hi {a b : UInt32} (ha : hi30 a) (hb : hi30 b) : hi30 (a ^^^ b) := by
  unfold hi30 at *
  rw [UInt32.toNat_xor]
  exact Nat.xor_lt_two_pow ha hb

theorem sel_hi (t k c : UInt32) (hc : c.toNat < 2 ^ 30) : hi30 (sel t k c) := by
  unfold hi30 sel
  rw [UInt32.toNat_and]
  exact Nat.and_lt_two_pow _ hc

theorem Gsel_hi (t : UInt32) : hi30 (Gsel t) := by
  unfold Gsel
  refine xor_hi (xor_hi (xor_hi (xor_hi ?_ ?_) ?_) ?_) ?_ <;> exact sel_hi _ _ _ (by decide)

theorem shiftPart_hi (x : UInt32) : hi30 ((x &&& 0x1FFFFFF) <<< 5) := by
  unfold hi30
  rw [UInt32.toNat_shiftLeft, UInt32.toNat_and]
  have h : x.toNat &&& (0x1FFFFFF : UInt32).toNat < 2 ^ 25 := Nat.and_lt_two_pow _ (by decide)
  have h5 : (5 : UInt32).toNat % 32 = 5 := by decide
  rw [h5, Nat.shiftLeft_eq]
  have : (x.toNat &&& (0x1FFFFFF : UInt32).toNat) * 2 ^ 5 < 2 ^ 30 := by omega
  omega

/-- every output of the step is a 30-bit value -/
theorem ps_hi (x : UInt32) : hi30 (polymodStep x) := by
  rw [ps_eq]; exact xor_hi (shiftPart_hi x) (Gsel_hi _)

theorem top_lt32 {a : UInt32} (ha : hi30 a) : (a >>> 25).toNat < 32 := by
  unfold hi30 at ha
  rw [UInt32.toNat_shiftRight]
  have h25 : (25 : UInt32).toNat % 32 = 25 := by decide
  rw [h25, Nat.shiftRight_eq_div_pow]
  omega

/-- GF(2)-linearity of the step on 30-bit states -/
theorem ps_lin {a b : UInt32} (ha : hi30 a) (hb : hi30 b) :
    polymodStep (a ^^^ b) = polymodStep a ^^^ polymodStep b := by
  rw [ps_eq, ps_eq a, ps_eq b, and_xor_r, UInt32.shiftLeft_xor, UInt32.shiftRight_xor]
  have ta := top_lt32 ha
  have tb := top_lt32 hb
  have hG := Gsel_lin32 ⟨(a >>> 25).toNat, ta⟩ ⟨(b >>> 25).toNat, tb⟩
  simp only [UInt32.ofNat_toNat] at hG
  rw [hG]
  ac_rfl

theorem Gsel_zero : Gsel 0 = 0 := by decide +kernel

/-- on values below 2^25 the step is a plain shift by one symbol -/
theorem ps_small {x : UInt32} (hx : x.toNat < 2 ^ 25) : polymodStep x = x <<< 5 := by
  rw [ps_eq]
  have h1 : x &&& 0x1FFFFFF = x := by
    apply UInt32.toNat_inj.1
    rw [UInt32.toNat_and]
    have : (0x1FFFFFF : UInt32).toNat = 2 ^ 25 - 1 := by decide
    rw [this, Nat.and_two_pow_sub_one_eq_mod]
    exact Nat.mod_eq_of_lt hx
  have h2 : x >>> 25 = 0 := by
    apply UInt32.toNat_inj.1
    rw [UInt32.toNat_shiftRight]
    have h25 : (25 : UInt32).toNat % 32 = 25 := by decide
    rw [h25, Nat.shiftRight_eq_div_pow]
    simp; omega
  rw [h1, h2, Gsel_zero]; simp

theorem bits31 : ∀ i : Fin 32, (31#32)[i.val] = decide (i.val < 5) := by decide

/-- splitting off the lowest 5-bit symbol -/
theorem shr_shl_xor_and (Q : UInt32) : ((Q >>> 5) <<< 5) ^^^ (Q &&& 31) = Q := by
  apply UInt32.toBitVec_inj.1
  simp only [UInt32.toBitVec_xor, UInt32.toBitVec_and, UInt32.toBitVec_shiftLeft, UInt32.toBitVec_shiftRight]
  ext i hi
  simp
  have h31 := bits31 ⟨i, hi⟩
  simp only at h31
  rw [h31]
  by_cases h : i < 5
  · simp [h]
  · have : 5 + (i - 5) = i := by omega
    simp [h, this, BitVec.getLsbD_eq_getElem hi]

theorem shr_toNat (P : UInt32) (k : Nat) (hk : k < 32) : (P >>> UInt32.ofNat k).toNat = P.toNat / 2 ^ k := by
  rw [UInt32.toNat_shiftRight, UInt32.toNat_ofNat']
  have : k % 2 ^ 32 % 32 = k := by omega
  rw [this, Nat.shiftRight_eq_div_pow]

/-- one decoding step against one encoding step: if the two states differ by `P >>> 5(j+1)`, then
    after the encoder steps with nothing and the decoder with the symbol `(P >>> 5j) &&& 31`, they
    differ by `P >>> 5j`. -/
theorem delta_step (d e P : UInt32) (j : Nat) (hj : j ≤ 5) (hd : hi30 d) (he : hi30 e) (hP : hi30 P)
    (hΔ : d ^^^ e = P >>> UInt32.ofNat (5 * (j + 1))) :
    (polymodStep d ^^^ ((P >>> UInt32.ofNat (5 * j)) &&& 31)) ^^^ polymodStep e = P >>> UInt32.ofNat (5 * j) := by
  have hlin : polymodStep d ^^^ polymodStep e = polymodStep (d ^^^ e) := (ps_lin hd he).symm
  have hsmall : (P >>> UInt32.ofNat (5 * (j + 1))).toNat < 2 ^ 25 := by
    rw [shr_toNat _ _ (by omega)]
    unfold hi30 at hP
    have : 2 ^ 30 ≤ 2 ^ 25 * 2 ^ (5 * (j + 1)) := by
      rw [← Nat.pow_add]; exact Nat.pow_le_pow_right (by omega) (by omega)
    exact Nat.div_lt_of_lt_mul (by omega)
  have hQ : P >>> UInt32.ofNat (5 * (j + 1)) = (P >>> UInt32.ofNat (5 * j)) >>> 5 := by
    apply UInt32.toNat_inj.1
    rw [shr_toNat _ _ (by omega), UInt32.toNat_shiftRight, shr_toNat _ _ (by omega)]
    have h5 : (5 : UInt32).toNat % 32 = 5 := by decide
    rw [h5, Nat.shiftRight_eq_div_pow, Nat.div_div_eq_div_mul, ← Nat.pow_add]
    congr 2
  calc (polymodStep d ^^^ ((P >>> UInt32.ofNat (5 * j)) &&& 31)) ^^^ polymodStep e
      = (polymodStep d ^^^ polymodStep e) ^^^ ((P >>> UInt32.ofNat (5 * j)) &&& 31) := by ac_rfl
    _ = polymodStep (P >>> UInt32.ofNat (5 * (j + 1))) ^^^ ((P >>> UInt32.ofNat (5 * j)) &&& 31) := by
        rw [hlin, hΔ]
    _ = ((P >>> UInt32.ofNat (5 * (j + 1))) <<< 5) ^^^ ((P >>> UInt32.ofNat (5 * j)) &&& 31) := by
        rw [ps_small hsmall]
    _ = P >>> UInt32.ofNat (5 * j) := by rw [hQ]; exact shr_shl_xor_and _

end GocoinV.Bech32
