/-
  Proofs.C19Defrag2 — the remaining bookkeeping facts about defrag (open data file, write position, …)
  and the disk invariant after defrag.
-/
import GocoinV.Proofs.C19Open
namespace GocoinV.Proofs.C19
open GocoinV GocoinV.Qdb GocoinV.QdbSpec

/-- bookkeeping fields no `emit` touches -/
def book (d : DB) := (d.datOpen, d.lastPos, d.volatile, d.opts, d.noSync)

theorem book_cleanupold (db : DB) (used : List Nat) : book (cleanupold db used) = book db := by
  unfold cleanupold
  have : ∀ (l : List Nat) (d : DB), book (l.foldl (fun db s =>
      if s ≠ db.dataSeq ∧ ¬ used.contains s then emit db "qdb.cleanupold:removed" (.removeDat s) else db) d) = book d := by
    intro l
    induction l with
    | nil => intro d; rfl
    | cons x t ih =>
      intro d
      simp only [List.foldl_cons]
      rw [ih]
      split <;> rfl
  exact this _ db

theorem book_bufWriteAll (i : Nat) (ps : List Bytes) (d : DB) (w : BufW) :
    book (bufWriteAll (idxSink i) d w ps).1 = book d := by
  unfold bufWriteAll
  induction ps generalizing d w with
  | nil => rfl
  | cons p t ih =>
    simp only [List.foldl_cons]
    rw [ih]
    exact (bufWrite_gen (idxSink i) (fun _ => (none : Option Bytes)) book (fun _ _ => rfl) (fun _ _ => rfl) d w p).2

theorem book_writedatfile (db : DB) : book (writedatfile db) = book db := by
  unfold writedatfile
  dsimp only [emit]
  show book (bufFlush _ _ _) = _
  rw [(bufFlush_gen (idxSink _) (fun _ => (none : Option Bytes)) book (fun _ _ => rfl) (fun _ _ => rfl) _ _).2,
    book_bufWriteAll]
  rfl

theorem defragFold_datOpen (s : Nat) (l : List (Key × Rec)) (hl : AllCached l) (d : DB) (w : BufW)
    (acc : List (Key × Rec)) (hf : d.failed = none) :
    (l.foldl (defragRec (defragSink s)) (d, w, acc)).1.datOpen = d.datOpen := by
  induction l generalizing d w acc with
  | nil => rfl
  | cons kr t ih =>
    have hc := hl kr List.mem_cons_self
    have hg := (bufWrite_gen (defragSink s) (datFile s) (datRest s) (defragSink_file s) (defragSink_rest s) d w
      (kr.2.data.getD [])).2
    let d1 : DB := { (bufWrite (defragSink s) d w (kr.2.data.getD [])).1 with
      lastPos := d.lastPos + (kr.2.data.getD []).length }
    have hf1 : d1.failed = none := by
      have := congrArg (fun x => x.2.2.2.2.2.2.2.1) hg
      exact this.trans hf
    have hdo1 : d1.datOpen = d.datOpen :=
      (bufWrite_gen (defragSink s) (fun _ => (none : Option Bytes)) (fun d => d.datOpen)
        (fun _ _ => rfl) (fun _ _ => rfl) d w (kr.2.data.getD [])).2
    simp only [List.foldl_cons, defragRec_exact s d w acc kr hf hc]
    exact (ih (fun x hx => hl x (List.mem_cons_of_mem _ hx)) d1 _ _ hf1).trans hdo1

theorem logOpen_cleanupold (db : DB) (used : List Nat) : (cleanupold db used).logOpen = db.logOpen := by
  unfold cleanupold
  have : ∀ (l : List Nat) (d : DB), (l.foldl (fun db s =>
      if s ≠ db.dataSeq ∧ ¬ used.contains s then emit db "qdb.cleanupold:removed" (.removeDat s) else db) d).logOpen
        = d.logOpen := by
    intro l
    induction l with
    | nil => intro d; rfl
    | cons x t ih =>
      intro d
      simp only [List.foldl_cons]
      rw [ih]
      split <;> rfl
  exact this _ db

/-- more about the state after defrag of a cached store -/
theorem defrag_more (db : DB) (h : Cached db) :
    (defrag db).datOpen = true ∧
    (defrag db).lastPos = 4 + (valsOf db.index).flatten.length ∧
    (defrag db).logOpen = false ∧ (defrag db).pending = [] ∧
    (defrag db).verSeq = u32 (db.verSeq + 1) := by
  obtain ⟨hs1, hs2, hs3, hs4, hs5, hs8, hs9⟩ := defragStart_disk db
  have hf0 : (defragStart db).failed = none := hs5.trans h.1
  obtain ⟨d', w', hfold, _, hlp, hrest⟩ :=
    defragFold_layout (u32 (db.dataSeq + 1)) db.index h.2 (defragStart db) {} [] hf0
  have hdo := defragFold_datOpen (u32 (db.dataSeq + 1)) db.index h.2 (defragStart db) {} [] hf0
  rw [hfold] at hdo
  rw [hs3, hs2, List.nil_append] at hfold
  have hd'f : d'.failed = none := by
    have := congrArg (fun x => x.2.2.2.2.2.2.1) hrest
    exact this.trans hf0
  have hd'v : d'.verSeq = db.verSeq := by
    have := congrArg (fun x => x.2.2.2.2.2.2.2.2) hrest
    exact this.trans hs9
  have hdef : defrag db = defragFinish (u32 (db.dataSeq + 1)) d' w' (layout (u32 (db.dataSeq + 1)) 4 db.index) := by
    unfold defrag
    simp only [hs4, hs3, hfold, hd'f]
  have hstartOpen : (defragStart db).datOpen = true := by
    unfold defragStart
    exact (checkDat_post _).1
  rw [hdef]
  let recs := layout (u32 (db.dataSeq + 1)) 4 db.index
  let e1 : DB := { d' with index := recs }
  let e2 := bufFlush (defragSink (u32 (db.dataSeq + 1))) e1 w'
  have hfin : defragFinish (u32 (db.dataSeq + 1)) d' w' recs =
      { cleanupold (writedatfile e2) (if recs.isEmpty then [] else [u32 (db.dataSeq + 1)]) with extra := 0, pending := [] } := rfl
  rw [hfin]
  have hb2 : book e2 = book e1 :=
    (bufFlush_gen (defragSink (u32 (db.dataSeq + 1))) (fun _ => (none : Option Bytes)) book
      (fun _ _ => rfl) (fun _ _ => rfl) e1 w').2
  have hb : book (cleanupold (writedatfile e2) (if recs.isEmpty then [] else [u32 (db.dataSeq + 1)])) = book e1 := by
    rw [book_cleanupold, book_writedatfile, hb2]
  unfold book at hb
  simp only [Prod.mk.injEq] at hb
  obtain ⟨b1, b2, _⟩ := hb
  have hv2 : e2.verSeq = db.verSeq := by
    have := (bufFlush_gen (defragSink (u32 (db.dataSeq + 1))) (fun _ => (none : Option Bytes)) (fun d => d.verSeq)
      (fun _ _ => rfl) (fun _ _ => rfl) e1 w').2
    exact this.trans hd'v
  have hck := cleanupold_keeps (writedatfile e2) (if recs.isEmpty then [] else [u32 (db.dataSeq + 1)])
    (writedatfile e2).dataSeq (Or.inl rfl)
  unfold cleanKeeps at hck
  simp only [Prod.mk.injEq] at hck
  obtain ⟨_, _, _, _, _, _, _, _, cv, _⟩ := hck
  have hlo : (cleanupold (writedatfile e2) (if recs.isEmpty then [] else [u32 (db.dataSeq + 1)])).logOpen = false := by
    rw [logOpen_cleanupold]
    rfl
  refine ⟨?_, ?_, hlo, rfl, ?_⟩
  · show (cleanupold (writedatfile e2) _).datOpen = true
    rw [b1]
    show d'.datOpen = true
    rw [hdo]; exact hstartOpen
  · show (cleanupold (writedatfile e2) _).lastPos = _
    rw [b2]
    show d'.lastPos = _
    rw [hlp, hs2]
  · show (cleanupold (writedatfile e2) _).verSeq = _
    rw [cv, (writedatfile_disk e2).2.2.2.2.2.1, hv2]

end GocoinV.Proofs.C19
