/-
  Proofs.C19Defrag2 — the remaining bookkeeping facts about defrag (open data file, write position, …)
  and the disk invariant after defrag.
-/
import GocoinV.Proofs.C19Open
namespace GocoinV.Proofs.C19
open GocoinV GocoinV.Qdb GocoinV.QdbSpec

variable {eg : Bool}

/-- bookkeeping fields no `emit` touches -/
def book (d : DB) := (d.datOpen, d.lastPos, d.volatile, d.opts, d.noSync)

theorem book_cleanupold (db : DB) (used : List Nat) : book (cleanupold db used) = book db := by
  unfold cleanupold
  have : ∀ (l : List Nat) (d : DB), book (l.foldl (fun db s =>
      if s ≠ db.dataSeq ∧ ¬ used.contains s then emit db "qdb.cleanupold:removed" (.removeDat s) else db) d) = book d := by
    intro l
    induction l with
    | nil => intro d; rfl
    | cons x t ih =>
      intro d
      simp only [List.foldl_cons]
      rw [ih]
      split <;> rfl
  exact this _ db

theorem book_bufWriteAll (i : Nat) (ps : List Bytes) (d : DB) (w : BufW) :
    book (bufWriteAll (idxSink i) d w ps).1 = book d := by
  unfold bufWriteAll
  induction ps generalizing d w with
  | nil => rfl
  | cons p t ih =>
    simp only [List.foldl_cons]
    rw [ih]
    exact (bufWrite_gen (idxSink i) (fun _ => (none : Option Bytes)) book (fun _ _ => rfl) (fun _ _ => rfl) d w p).2

theorem book_writedatfile (db : DB) : book (writedatfile db) = book db := by
  unfold writedatfile
  dsimp only [emit]
  show book (bufFlush _ _ _) = _
  rw [(bufFlush_gen (idxSink _) (fun _ => (none : Option Bytes)) book (fun _ _ => rfl) (fun _ _ => rfl) _ _).2,
    book_bufWriteAll]
  rfl

theorem defragFold_datOpen (s : Nat) (l : List (Key × Rec)) (hl : AllCached eg l) (d : DB) (w : BufW)
    (acc : List (Key × Rec)) (hf : d.failed = none) (he : d.eager = eg) :
    (l.foldl (defragRec (defragSink s)) (d, w, acc)).1.datOpen = d.datOpen := by
  induction l generalizing d w acc with
  | nil => rfl
  | cons kr t ih =>
    have hc := hl kr List.mem_cons_self
    have hg := (bufWrite_gen (defragSink s) (datFile s) (datRest s) (defragSink_file s) (defragSink_rest s) d w
      (kr.2.data.getD [])).2
    let d1 : DB := { (bufWrite (defragSink s) d w (kr.2.data.getD [])).1 with
      lastPos := d.lastPos + (kr.2.data.getD []).length }
    have hf1 : d1.failed = none := by
      have := congrArg (fun x => x.2.2.2.2.2.2.2.1) hg
      exact this.trans hf
    have hdo1 : d1.datOpen = d.datOpen :=
      (bufWrite_gen (defragSink s) (fun _ => (none : Option Bytes)) (fun d => d.datOpen)
        (fun _ _ => rfl) (fun _ _ => rfl) d w (kr.2.data.getD [])).2
    simp only [List.foldl_cons, defragRec_exact s d w acc kr hf he hc]
    exact (ih (fun x hx => hl x (List.mem_cons_of_mem _ hx)) d1 _ _ hf1
      ((frame_bufWrite (defragSink s) (defragSink_framed s) d w (kr.2.data.getD [])).eager.trans he)).trans hdo1

theorem logOpen_cleanupold (db : DB) (used : List Nat) : (cleanupold db used).logOpen = db.logOpen := by
  unfold cleanupold
  have : ∀ (l : List Nat) (d : DB), (l.foldl (fun db s =>
      if s ≠ db.dataSeq ∧ ¬ used.contains s then emit db "qdb.cleanupold:removed" (.removeDat s) else db) d).logOpen
        = d.logOpen := by
    intro l
    induction l with
    | nil => intro d; rfl
    | cons x t ih =>
      intro d
      simp only [List.foldl_cons]
      rw [ih]
      split <;> rfl
  exact this _ db

/-- more about the state after defrag of a cached store -/
theorem defrag_more (db : DB) (h : Cached db) :
    (defrag db).datOpen = true ∧
    (defrag db).lastPos = 4 + (valsOf db.index).flatten.length ∧
    (defrag db).logOpen = false ∧ (defrag db).pending = [] ∧
    (defrag db).verSeq = u32 (db.verSeq + 1) := by
  obtain ⟨hs1, hs2, hs3, hs4, hs5, hs8, hs9⟩ := defragStart_disk db
  have hf0 : (defragStart db).failed = none := hs5.trans h.1
  obtain ⟨d', w', hfold, _, hlp, hrest⟩ :=
    defragFold_layout (u32 (db.dataSeq + 1)) db.index h.2 (defragStart db) {} [] hf0 (defragStart_frame db).eager
  have hdo := defragFold_datOpen (u32 (db.dataSeq + 1)) db.index h.2 (defragStart db) {} [] hf0 (defragStart_frame db).eager
  rw [hfold] at hdo
  rw [hs3, hs2, List.nil_append] at hfold
  have hd'f : d'.failed = none := by
    have := congrArg (fun x => x.2.2.2.2.2.2.1) hrest
    exact this.trans hf0
  have hd'v : d'.verSeq = db.verSeq := by
    have := congrArg (fun x => x.2.2.2.2.2.2.2.2) hrest
    exact this.trans hs9
  have hdef : defrag db = defragFinish (u32 (db.dataSeq + 1)) d' w' (layout (u32 (db.dataSeq + 1)) 4 db.index) := by
    unfold defrag
    simp only [hs4, hs3, hfold, hd'f]
  have hstartOpen : (defragStart db).datOpen = true := by
    unfold defragStart
    exact (checkDat_post _).1
  rw [hdef]
  let recs := layout (u32 (db.dataSeq + 1)) 4 db.index
  let e1 : DB := { d' with index := recs }
  let e2 := bufFlush (defragSink (u32 (db.dataSeq + 1))) e1 w'
  have hfin : defragFinish (u32 (db.dataSeq + 1)) d' w' recs =
      { cleanupold (writedatfile e2) (if recs.isEmpty then [] else [u32 (db.dataSeq + 1)]) with extra := 0, pending := [] } := rfl
  rw [hfin]
  have hb2 : book e2 = book e1 :=
    (bufFlush_gen (defragSink (u32 (db.dataSeq + 1))) (fun _ => (none : Option Bytes)) book
      (fun _ _ => rfl) (fun _ _ => rfl) e1 w').2
  have hb : book (cleanupold (writedatfile e2) (if recs.isEmpty then [] else [u32 (db.dataSeq + 1)])) = book e1 := by
    rw [book_cleanupold, book_writedatfile, hb2]
  unfold book at hb
  simp only [Prod.mk.injEq] at hb
  obtain ⟨b1, b2, _⟩ := hb
  have hv2 : e2.verSeq = db.verSeq := by
    have := (bufFlush_gen (defragSink (u32 (db.dataSeq + 1))) (fun _ => (none : Option Bytes)) (fun d => d.verSeq)
      (fun _ _ => rfl) (fun _ _ => rfl) e1 w').2
    exact this.trans hd'v
  have hck := cleanupold_keeps (writedatfile e2) (if recs.isEmpty then [] else [u32 (db.dataSeq + 1)])
    (writedatfile e2).dataSeq (Or.inl rfl)
  unfold cleanKeeps at hck
  simp only [Prod.mk.injEq] at hck
  obtain ⟨_, _, _, _, _, _, _, _, cv, _⟩ := hck
  have hlo : (cleanupold (writedatfile e2) (if recs.isEmpty then [] else [u32 (db.dataSeq + 1)])).logOpen = false := by
    rw [logOpen_cleanupold]
    rfl
  refine ⟨?_, ?_, hlo, rfl, ?_⟩
  · show (cleanupold (writedatfile e2) _).datOpen = true
    rw [b1]
    show d'.datOpen = true
    rw [hdo]; exact hstartOpen
  · show (cleanupold (writedatfile e2) _).lastPos = _
    rw [b2]
    show d'.lastPos = _
    rw [hlp, hs2]
  · show (cleanupold (writedatfile e2) _).verSeq = _
    rw [cv, (writedatfile_disk e2).2.2.2.2.2.1, hv2]

/-! ### the invariant after defrag -/

theorem isetAll_nil_nodup (recs : List (Key × Rec)) (h : (Keys recs).Nodup) : isetAll [] recs = recs := by
  have h1 := (memputAll_isetAll recs ({ fs := {} } : DB)).1
  have h2 := memputAll_index recs ({ fs := {} } : DB) (by
    show (([] : List (Key × Rec)).map (·.1) ++ recs.map (·.1)).Nodup
    simpa [Keys] using h)
  rw [h1] at h2
  exact h2

theorem layout_wf (s base : Nat) (l : List (Key × Rec)) (hw : ∀ kr ∈ l, RecWF kr) : ∀ kr ∈ layout s base l, RecWF kr := by
  induction l generalizing base with
  | nil => intro kr h; cases h
  | cons hd t ih =>
    obtain ⟨k, r⟩ := hd
    intro kr h
    simp only [layout, List.mem_cons] at h
    rcases h with h | h
    · rw [h]; exact hw (k, r) List.mem_cons_self
    · exact ih _ (fun x hx => hw x (List.mem_cons_of_mem _ hx)) kr h

theorem layout_cached (s base : Nat) (l : List (Key × Rec)) (hc : AllCached eg l) : AllCached eg (layout s base l) := by
  induction l generalizing base with
  | nil => intro kr h; cases h
  | cons hd t ih =>
    obtain ⟨k, r⟩ := hd
    intro kr h
    simp only [layout, List.mem_cons] at h
    rcases h with h | h
    · rw [h]; exact hc (k, r) List.mem_cons_self
    · exact ih _ (fun x hx => hc x (List.mem_cons_of_mem _ hx)) kr h

/-- every laid-out record can be read back from the new data file -/
theorem layout_reads (s : Nat) (l : List (Key × Rec)) (hw : ∀ kr ∈ l, RecWF kr) (pre : Bytes)
    (hsmall : pre.length + (valsOf l).flatten.length < 2^32) :
    ∀ kr ∈ layout s pre.length l, kr.2.seq = s ∧ ReadsBack (pre ++ (valsOf l).flatten) kr.2 (valOf kr.2) := by
  induction l generalizing pre with
  | nil => intro kr h; cases h
  | cons hd t ih =>
    obtain ⟨k, r⟩ := hd
    obtain ⟨_, _, hlen⟩ := hw (k, r) List.mem_cons_self
    have hv : (valsOf ((k, r) :: t)).flatten = r.data.getD [] ++ (valsOf t).flatten := by simp [valsOf]
    rw [hv] at hsmall ⊢
    simp only [List.length_append] at hsmall
    intro kr h
    simp only [layout, List.mem_cons] at h
    rcases h with h | h
    · rw [h]
      have hu : u32 pre.length = pre.length := Nat.mod_eq_of_lt (by omega)
      have hl' : r.len = (r.data.getD []).length := hlen
      refine ⟨rfl, ?_, ?_, ?_⟩
      · show u32 pre.length + r.len ≤ _
        rw [hu, hl']; simp only [List.length_append]; omega
      · show u32 pre.length + r.len < 2^32
        rw [hu, hl']; omega
      · show ((pre ++ (r.data.getD [] ++ (valsOf t).flatten)).drop (u32 pre.length)).take r.len = r.data.getD []
        rw [hu, hl', List.drop_left' rfl]
        exact List.take_left' rfl
    · have hpre : pre.length + (r.data.getD []).length = (pre ++ r.data.getD []).length := by simp
      rw [hpre] at h
      have := ih (fun x hx => hw x (List.mem_cons_of_mem _ hx)) (pre ++ r.data.getD [])
        (by simp only [List.length_append]; omega) kr h
      simpa [List.append_assoc] using this

theorem defrag_inv (d : DB) (h : Cached d) (hv : d.volatile = false) (hwf : IndexWF eg d.index) :
    DiskInv (defrag d) ∧ absv (defrag d) = absv d ∧ (defrag d).pending = [] := by
  obtain ⟨d1, d2, d3, d4, d5, d6, d7⟩ := defrag_disk d h
  obtain ⟨m1, m2, m3, m4, m5⟩ := defrag_more d h
  have hk := defrag_cached d h
  have hS : u32 (d.dataSeq + 1) < 2^32 := u32_lt _
  have hV : u32 (d.verSeq + 1) < 2^32 := u32_lt _
  have hfits := layout_fits _ hS d.index hwf.wf 4 hwf.small
  obtain ⟨j, hpick⟩ := pickIdx_single (defrag d).fs (1 - d.datIdx) (u32 (d.verSeq + 1)) _
    (checkIdxFile_snapBytes _ _ hV) d3 d4
  have hrecs := snapshotRecs_snapBytes (u32 (d.verSeq + 1)) (layout (u32 (d.dataSeq + 1)) 4 d.index) hfits
  have hkeys : (Keys ((layout (u32 (d.dataSeq + 1)) 4 d.index).map stripKR)).Nodup := by
    have : Keys ((layout (u32 (d.dataSeq + 1)) 4 d.index).map stripKR) = d.index.map (·.1) := by
      unfold Keys
      rw [List.map_map]
      have : ((fun x : Key × Rec => x.1) ∘ stripKR) = (fun x : Key × Rec => x.1) := by funext x; rfl
      rw [this, layout_keys]
    rw [this]; exact hwf.nodup
  have hDI : diskIndex (defrag d).fs = mapV strip (layout (u32 (d.dataSeq + 1)) 4 d.index) := by
    unfold diskIndex snapBase logEntries
    rw [hpick, d5]
    simp only [applyEntriesL, List.foldl_nil, hrecs]
    exact isetAll_nil_nodup _ hkeys
  have hSV : snapVer (defrag d).fs = u32 (d.verSeq + 1) := by unfold snapVer; rw [hpick]
  have hreads := layout_reads (u32 (d.dataSeq + 1)) d.index hwf.wf (le32 (u32 (d.dataSeq + 1)))
    (by simpa using hwf.small)
  simp only [le32_length] at hreads
  refine ⟨?_, hk.abs, m4⟩
  constructor
  · exact hk.cached
  · exact hk.volatile.trans hv
  · rw [d2]; exact layout_wf _ _ _ hwf.wf
  · rw [d2]; unfold Keys; rw [layout_keys]; exact hwf.nodup
  · rw [m4]; exact List.nodup_nil
  · rw [m4]; intro k hk'; cases hk'
  · rw [hSV, m5]
  · rw [m5]; exact hV
  · rw [d7]; exact hS
  · exact ⟨([] : List LogEntry), fun e he => (by cases he), Or.inl ⟨d5, rfl⟩⟩
  · intro _; exact d5
  · rw [m3]; intro h'; cases h'
  · intro k _
    rw [hDI, d2, ilookup_mapV, Option.map_map]
    congr 1
  · intro k r _ hr
    rw [d2] at hr
    have hmem := ilookup_key_pair k r _ hr
    obtain ⟨h1, h2⟩ := hreads (k, r) hmem
    exact ⟨_, by rw [h1]; exact d6, h2⟩
  · intro kr hkr
    rw [hDI] at hkr
    obtain ⟨x, hx, rfl⟩ := List.mem_map.mp hkr
    rw [hk.eager]
    exact (layout_cached _ _ _ h.2 x hx).2
  · intro _
    refine ⟨_, by rw [d7]; exact d6, ?_, by simp⟩
    rw [m2]; simp
  · rw [m1]; intro h'; cases h'
  · intro kr hkr
    rw [hDI] at hkr
    obtain ⟨x, hx, rfl⟩ := List.mem_map.mp hkr
    obtain ⟨h1, h2⟩ := hreads x hx
    exact ⟨_, valOf x.2, by show dlookup x.2.seq _ = _; rw [h1]; exact d6, h2⟩

end GocoinV.Proofs.C19
