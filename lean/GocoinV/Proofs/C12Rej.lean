/-
  Proofs.C12Rej — the reject-list indexes (TRIdxArray ring / TransactionsRejected / WaitingForInputs /
  RejectedSpentOutputs): the consistency invariant on the level of the four maps, and the two primitives
  OneTxRejected.Delete (`rejDelete`) and OneTxRejected.Add (`rejAdd`).  Core Lean only.
  (helper lemmas for Props/C12, OPEN (d))
-/
import GocoinV.Proofs.C12Inv
namespace GocoinV.Mempool

/-! ### lists -/

theorem eraseFirst_sublist (b : Nat) : ∀ (l : List Nat), (eraseFirst b l).Sublist l := by
  intro l
  induction l with
  | nil => exact List.Sublist.refl _
  | cons x r ih =>
    simp only [eraseFirst]
    split
    · exact List.sublist_cons_self x r
    · exact ih.cons_cons x

theorem nodup_eraseFirst (b : Nat) (l : List Nat) (h : l.Nodup) : (eraseFirst b l).Nodup :=
  h.sublist (eraseFirst_sublist b l)

theorem mem_eraseFirst (b : Nat) : ∀ (l : List Nat), l.Nodup → ∀ x, x ∈ eraseFirst b l ↔ x ∈ l ∧ x ≠ b := by
  intro l
  induction l with
  | nil => intro _ x; simp [eraseFirst]
  | cons y r ih =>
    intro hn x
    simp only [List.nodup_cons] at hn
    simp only [eraseFirst]
    split
    · rename_i hy
      subst hy
      constructor
      · intro hx
        exact ⟨List.mem_cons_of_mem _ hx, fun e => hn.1 (e ▸ hx)⟩
      · rintro ⟨hx, hne⟩
        rcases List.mem_cons.mp hx with e | e
        · exact absurd e hne
        · exact e
    · rename_i hy
      simp only [List.mem_cons, ih hn.2 x]
      constructor
      · rintro (e | ⟨h1, h2⟩)
        · exact ⟨Or.inl e, fun e2 => hy (e ▸ e2)⟩
        · exact ⟨Or.inr h1, h2⟩
      · rintro ⟨e | h1, h2⟩
        · exact Or.inl e
        · exact Or.inr ⟨h1, h2⟩

theorem length_eraseFirst_le (b : Nat) : ∀ (l : List Nat), l.length ≤ (eraseFirst b l).length + 1 := by
  intro l
  induction l with
  | nil => simp [eraseFirst]
  | cons y r ih =>
    simp only [eraseFirst]
    split
    · simp
    · simp only [List.length_cons]; omega

/-- the non-zero slots of the ring, oldest first -/
def ringKeys (l : List (Option Nat)) : List Nat := l.filterMap id

theorem mem_ringKeys (l : List (Option Nat)) (x : Nat) : x ∈ ringKeys l ↔ some x ∈ l := by
  simp [ringKeys, List.mem_filterMap]

theorem ringKeys_zeroSlot (b : Nat) : ∀ (l : List (Option Nat)), ringKeys (zeroSlot b l) = eraseFirst b (ringKeys l) := by
  intro l
  induction l with
  | nil => rfl
  | cons o r ih =>
    cases o with
    | none =>
      simp only [zeroSlot, ringKeys, List.filterMap_cons, id] at ih ⊢
      exact ih
    | some x =>
      simp only [zeroSlot]
      by_cases hx : x = b
      · simp [hx, ringKeys, eraseFirst]
      · simp only [hx, if_false]
        simp only [ringKeys, List.filterMap_cons, id, eraseFirst, hx, if_false] at ih ⊢
        rw [ih]

theorem ringKeys_normRing : ∀ (l : List (Option Nat)), ringKeys (normRing l) = ringKeys l := by
  intro l
  induction l with
  | nil => rfl
  | cons o r ih =>
    cases o with
    | none =>
      simp only [normRing]
      rw [ih]
      simp [ringKeys]
    | some x => simp [normRing]

theorem ringKeys_append (l : List (Option Nat)) (b : Nat) : ringKeys (l ++ [some b]) = ringKeys l ++ [b] := by
  simp [ringKeys, List.filterMap_append]

/-! ### association lists -/

namespace AList
variable {κ ν : Type} [DecidableEq κ]

theorem get?_del (m : AList κ ν) (k k' : κ) : (del m k).get? k' = if k' = k then none else m.get? k' := by
  by_cases h : k' = k
  · rw [h, get?_del_self]; simp
  · rw [get?_del_other _ _ _ h]; simp [h]

theorem get?_set (m : AList κ ν) (k k' : κ) (v : ν) : (set m k v).get? k' = if k' = k then some v else m.get? k' := by
  by_cases h : k' = k
  · rw [h, get?_set_self]; simp
  · rw [get?_set_other _ _ _ _ h]; simp [h]

end AList

/-- the list stored under `u` in RejectedSpentOutputs (nil if there is no entry) -/
def lst (m : AList Nat (List Nat)) (u : Nat) : List Nat := (m.get? u).getD []

/-- the Ids stored under `k` in WaitingForInputs (nil if there is no entry) -/
def wl (m : AList Nat (TxId × List Nat)) (k : Nat) : List Nat := ((m.get? k).map Prod.snd).getD []

theorem lst_of_get {m : AList Nat (List Nat)} {u : Nat} {l : List Nat} (h : m.get? u = some l) : lst m u = l := by
  simp [lst, h]

theorem wl_of_get {m : AList Nat (TxId × List Nat)} {k : Nat} {id : TxId} {ids : List Nat}
    (h : m.get? k = some (id, ids)) : wl m k = ids := by
  simp [wl, h]

theorem wl_of_none {m : AList Nat (TxId × List Nat)} {k : Nat} (h : m.get? k = none) : wl m k = [] := by
  simp [wl, h]

/-! ### the four loops of Add / cleanup, named -/

def spDelStep (K : Keys) (b : Nat) (m : AList Nat (List Nat)) (i : TxIn) : AList Nat (List Nat) :=
  let u := K.uidx i.prev i.vout
  match m.get? u with
  | none => m
  | some ref =>
    let nr := ref.filter (· ≠ b)
    if nr.length ≠ ref.length then (if nr.isEmpty then m.del u else m.set u nr) else m

def spDel (K : Keys) (b : Nat) (ins : List TxIn) (m : AList Nat (List Nat)) : AList Nat (List Nat) :=
  ins.foldl (spDelStep K b) m

def wDel (K : Keys) (b : Nat) (w4 : Option TxId) (m : AList Nat (TxId × List Nat)) : AList Nat (TxId × List Nat) :=
  match w4 with
  | none => m
  | some w4 =>
    let k := K.bidx w4
    match m.get? k with
    | none => m
    | some (id, ids) =>
      if ids.length = 1 then (if ids = [b] then m.del k else m)
      else m.set k (id, eraseFirst b ids)

def spAddStep (K : Keys) (b : Nat) (m : AList Nat (List Nat)) (i : TxIn) : AList Nat (List Nat) :=
  let u := K.uidx i.prev i.vout
  m.set u ((m.get? u).getD [] ++ [b])

def spAdd (K : Keys) (b : Nat) (ins : List TxIn) (m : AList Nat (List Nat)) : AList Nat (List Nat) :=
  ins.foldl (spAddStep K b) m

def wAdd (K : Keys) (b : Nat) (w4 : Option TxId) (m : AList Nat (TxId × List Nat)) : AList Nat (TxId × List Nat) :=
  match w4 with
  | none => m
  | some w4 =>
    let k := K.bidx w4
    match m.get? k with
    | none => m.set k (w4, [b])
    | some (id, ids) => m.set k (id, ids ++ [b])

theorem rejCleanup_eq (K : Keys) (s : State) (r : Rej) (t : Tx) :
    rejCleanup K s r t = { s with rejSpent := spDel K (K.bidx r.id) t.ins s.rejSpent,
                                  waiting := wDel K (K.bidx r.id) r.waiting4 s.waiting } := rfl

theorem rejAddRefs_eq (K : Keys) (s : State) (r : Rej) :
    rejAddRefs K s r = match r.tx with
      | none => s
      | some t => { s with rejSpent := spAdd K (K.bidx r.id) t.ins s.rejSpent,
                           waiting := wAdd K (K.bidx r.id) r.waiting4 s.waiting } := rfl

/-- the inputs of the stored transaction (nil if the record has no data) -/
def rins (r : Rej) : List TxIn := match r.tx with
  | some t => t.ins
  | none => []

def uof (K : Keys) (i : TxIn) : Nat := K.uidx i.prev i.vout

/-! ### RejectedSpentOutputs: membership after the loops -/

theorem spDelStep_spec (K : Keys) (b : Nat) (m : AList Nat (List Nat)) (i : TxIn)
    (hne : ∀ u l, m.get? u = some l → l ≠ []) :
    (∀ u l, (spDelStep K b m i).get? u = some l → l ≠ []) ∧
    ∀ u x, x ∈ lst (spDelStep K b m i) u ↔ x ∈ lst m u ∧ ¬ (x = b ∧ u = uof K i) := by
  unfold spDelStep
  dsimp only
  cases hm : m.get? (K.uidx i.prev i.vout) with
  | none =>
    refine ⟨hne, ?_⟩
    intro u x
    constructor
    · intro hx
      refine ⟨hx, ?_⟩
      rintro ⟨_, e⟩
      rw [e] at hx
      simp [lst, uof, hm] at hx
    · exact fun h => h.1
  | some ref =>
    dsimp only
    have hf : ∀ x, x ∈ ref.filter (fun x => decide (x ≠ b)) ↔ x ∈ ref ∧ x ≠ b := by
      intro x; simp [List.mem_filter]
    split
    · split
      · rename_i hemp
        have hnil : ref.filter (fun x => decide (x ≠ b)) = [] := by simpa using hemp
        refine ⟨?_, ?_⟩
        · intro u l hl
          rw [AList.get?_del] at hl
          split at hl
          · cases hl
          · exact hne u l hl
        · intro u x
          unfold lst
          rw [AList.get?_del]
          by_cases hu : u = K.uidx i.prev i.vout
          · simp only [hu, if_true, Option.getD_none, List.not_mem_nil, false_iff, hm, Option.getD_some, uof]
            rintro ⟨hx, hnb⟩
            have : x ∈ ref.filter (fun x => decide (x ≠ b)) := (hf x).mpr ⟨hx, fun e => hnb ⟨e, trivial⟩⟩
            rw [hnil] at this
            cases this
          · simp only [hu, if_false, uof, and_false, not_false_eq_true, and_true]
      · rename_i hemp
        refine ⟨?_, ?_⟩
        · intro u l hl
          rw [AList.get?_set] at hl
          split at hl
          · cases hl
            intro e
            exact hemp (by rw [e]; rfl)
          · exact hne u l hl
        · intro u x
          unfold lst
          rw [AList.get?_set]
          by_cases hu : u = K.uidx i.prev i.vout
          · simp only [hu, if_true, Option.getD_some, hm, uof, and_true]
            exact hf x
          · simp only [hu, if_false, uof, and_false, not_false_eq_true, and_true]
    · rename_i hlen
      have hall : ∀ x ∈ ref, x ≠ b := by
        have hnb : ¬ b ∈ ref := by simpa using hlen
        intro x hx e
        exact hnb (e ▸ hx)
      refine ⟨hne, ?_⟩
      intro u x
      constructor
      · intro hx
        refine ⟨hx, ?_⟩
        rintro ⟨e1, e2⟩
        rw [e2] at hx
        simp only [lst, uof, hm, Option.getD_some] at hx
        exact hall x hx e1
      · exact fun h => h.1

theorem spDel_spec (K : Keys) (b : Nat) : ∀ (ins : List TxIn) (m : AList Nat (List Nat)),
    (∀ u l, m.get? u = some l → l ≠ []) →
    (∀ u l, (spDel K b ins m).get? u = some l → l ≠ []) ∧
    ∀ u x, x ∈ lst (spDel K b ins m) u ↔ x ∈ lst m u ∧ ¬ (x = b ∧ u ∈ ins.map (uof K)) := by
  intro ins
  induction ins with
  | nil => intro m h; exact ⟨h, by simp [spDel]⟩
  | cons i r ih =>
    intro m h
    obtain ⟨s1, s2⟩ := spDelStep_spec K b m i h
    obtain ⟨i1, i2⟩ := ih _ s1
    refine ⟨i1, ?_⟩
    intro u x
    have : spDel K b (i :: r) m = spDel K b r (spDelStep K b m i) := rfl
    rw [this, i2 u x, s2 u x]
    simp only [List.map_cons, List.mem_cons]
    constructor
    · rintro ⟨⟨h1, h2⟩, h3⟩
      refine ⟨h1, ?_⟩
      rintro ⟨e, hu | hu⟩
      · exact h2 ⟨e, hu⟩
      · exact h3 ⟨e, hu⟩
    · rintro ⟨h1, h2⟩
      exact ⟨⟨h1, fun ⟨e, hu⟩ => h2 ⟨e, Or.inl hu⟩⟩, fun ⟨e, hu⟩ => h2 ⟨e, Or.inr hu⟩⟩

theorem spAddStep_spec (K : Keys) (b : Nat) (m : AList Nat (List Nat)) (i : TxIn)
    (hne : ∀ u l, m.get? u = some l → l ≠ []) :
    (∀ u l, (spAddStep K b m i).get? u = some l → l ≠ []) ∧
    ∀ u x, x ∈ lst (spAddStep K b m i) u ↔ x ∈ lst m u ∨ (x = b ∧ u = uof K i) := by
  unfold spAddStep
  dsimp only
  refine ⟨?_, ?_⟩
  · intro u l hl
    rw [AList.get?_set] at hl
    split at hl
    · cases hl; simp
    · exact hne u l hl
  · intro u x
    unfold lst
    rw [AList.get?_set]
    by_cases hu : u = K.uidx i.prev i.vout
    · simp only [hu, if_true, Option.getD_some, List.mem_append, List.mem_singleton, uof, and_true]
    · simp only [hu, if_false, uof, and_false, or_false]

theorem spAdd_spec (K : Keys) (b : Nat) : ∀ (ins : List TxIn) (m : AList Nat (List Nat)),
    (∀ u l, m.get? u = some l → l ≠ []) →
    (∀ u l, (spAdd K b ins m).get? u = some l → l ≠ []) ∧
    ∀ u x, x ∈ lst (spAdd K b ins m) u ↔ x ∈ lst m u ∨ (x = b ∧ u ∈ ins.map (uof K)) := by
  intro ins
  induction ins with
  | nil => intro m h; exact ⟨h, by simp [spAdd]⟩
  | cons i r ih =>
    intro m h
    obtain ⟨s1, s2⟩ := spAddStep_spec K b m i h
    obtain ⟨i1, i2⟩ := ih _ s1
    refine ⟨i1, ?_⟩
    intro u x
    have : spAdd K b (i :: r) m = spAdd K b r (spAddStep K b m i) := rfl
    rw [this, i2 u x, s2 u x]
    simp only [List.map_cons, List.mem_cons]
    constructor
    · rintro ((h1 | ⟨e, hu⟩) | ⟨e, hu⟩)
      · exact Or.inl h1
      · exact Or.inr ⟨e, Or.inl hu⟩
      · exact Or.inr ⟨e, Or.inr hu⟩
    · rintro (h1 | ⟨e, hu | hu⟩)
      · exact Or.inl (Or.inl h1)
      · exact Or.inl (Or.inr ⟨e, hu⟩)
      · exact Or.inr ⟨e, hu⟩

end GocoinV.Mempool
