/-
  Proofs.C11 — helper lemmas for Props/C11: the inductive invariants of the transition systems of
  Model/Conc.lean and their preservation by every step (hence by every schedule).
-/
import GocoinV.Model.Conc
namespace GocoinV.Proofs.C11
open GocoinV.Conc

namespace SnapP
open Snap
def preClr (sv : Saver) : Bool := match sv.pc with | .waitFile | .hdr | .loop | .fin _ | .clr => true | _ => false
def reading (sv : Saver) : Bool := match sv.pc with | .waitFile | .hdr | .loop => true | _ => false
def mCrit : MPc → Bool | .cAbort .drain | .cAbort .done | .cMut1 | .cMut2 => true | _ => false
def isSGo : MPc → Bool | .sGo _ => true | _ => false
def inSave : MPc → Bool | .sSet _ | .sAdd _ | .sGo _ => true | _ => false
def wipSet : MPc → Bool | .sAdd _ | .sGo _ => true | _ => false
@[simp] theorem isSGo_ret (r) : isSGo (saveRetPc r) = false := by cases r <;> rfl
@[simp] theorem mCrit_ret (r) : mCrit (saveRetPc r) = false := by cases r <;> rfl
@[simp] theorem inSave_ret (r) : inSave (saveRetPc r) = false := by cases r <;> rfl
@[simp] theorem wipSet_ret (r) : wipSet (saveRetPc r) = false := by cases r <;> rfl
@[simp] theorem ret_ne_mut2 (r) : (saveRetPc r = .cMut2) = False := by cases r <;> simp [saveRetPc]

def inv (st : St) : Prop :=
  (∀ sv, st.s = some sv → preClr sv = true → st.wip = true) ∧
  ((if st.s.isSome then 1 else 0) + (if isSGo st.mpc then 1 else 0) ≤ st.wdone) ∧
  (∀ sv, st.s = some sv → mCrit st.mpc = true → reading sv = false) ∧
  (st.stable = false → st.mpc = .cMut2) ∧
  (wipSet st.mpc = true → st.wip = true) ∧
  (∀ sv, st.s = some sv → inSave st.mpc = true → sv.pc = .done)

theorem inv_init (mp xp cap) : inv (init mp xp cap) := by
  simp [inv, init, isSGo, wipSet, inSave]

set_option maxHeartbeats 1000000 in
theorem inv_step (st st' : St) (l : Lab) (h : inv st) (hs : step st l = some st') : inv st' := by
  obtain ⟨hA, hB, hC, hE, hF, hG⟩ := h
  cases l
  case m =>
    simp only [step, stepM] at hs
    split at hs
    all_goals (try (split at hs))
    all_goals (try (split at hs))
    all_goals (try simp [abortStep] at hs)
    all_goals (try (split at hs))
    all_goals (try simp at hs)
    all_goals (try (obtain ⟨h1, h2⟩ := hs))
    all_goals (try subst_vars)
    all_goals (try (simp_all [inv, preClr, reading, mCrit, isSGo, inSave, wipSet]))
    all_goals (try (cases ‹SaveRet› <;> simp_all [saveRetPc]))
    all_goals (try (intro sv hsv; have hA' := hA sv hsv; cases hpc : sv.pc <;> simp_all))
    all_goals (try grind [preClr, reading, mCrit, isSGo, inSave, wipSet])
  case x =>
    simp only [step, stepX] at hs
    split at hs
    all_goals (try (split at hs))
    all_goals (try (split at hs))
    all_goals (try simp [abortStep] at hs)
    all_goals (try (split at hs))
    all_goals (try simp at hs)
    all_goals (try (obtain ⟨h1, h2⟩ := hs))
    all_goals (try subst_vars)
    all_goals (try (simp_all [inv, preClr, reading, mCrit, isSGo, inSave, wipSet]))
    all_goals (try grind [preClr, reading, mCrit, isSGo, inSave, wipSet])
  case fStep =>
    simp only [step, stepF] at hs
    split at hs
    · simp at hs
    · split at hs
      all_goals (try (split at hs))
      all_goals (try (split at hs))
      all_goals (try simp at hs)
      all_goals (try subst_vars)
      all_goals (try (simp_all [inv, preClr, reading, mCrit, isSGo, inSave, wipSet]))
  case fExit =>
    simp only [step, stepF] at hs
    split at hs
    · simp at hs
    · split at hs
      all_goals (try (split at hs))
      all_goals (try simp at hs)
      all_goals (try subst_vars)
      all_goals (try (simp_all [inv, preClr, reading, mCrit, isSGo, inSave, wipSet]))
  all_goals (
    simp only [step, stepS] at hs
    split at hs
    · simp at hs
    · rename_i sv hsv
      split at hs
      all_goals (try (split at hs))
      all_goals (try (split at hs))
      all_goals (try simp at hs)
      all_goals (try subst_vars)
      all_goals (try (simp_all [inv, preClr, reading, mCrit, isSGo, inSave, wipSet]))
      all_goals (try grind [preClr, reading, mCrit, isSGo, inSave, wipSet]))

theorem inv_run (st : St) (ls : List Lab) (h : inv st) : inv (run st ls) := by
  induction ls generalizing st with
  | nil => exact h
  | cons l r ih =>
    simp only [run]
    cases hs : step st l with
    | none => simpa using ih st h
    | some st' => simpa using ih st' (inv_step st st' l h hs)
end SnapP

namespace PubP
open Pub
def inv (st : St) : Prop :=
  (st.r.inIndex = true → st.r.inCache = false → st.r.published = true) ∧
  (st.r.published = true → st.r.fields = true) ∧
  (st.rd = .gotRec false → st.r.published = true) ∧
  (st.rd = .readIpos → st.r.published = true) ∧
  (st.rd = .readFields → st.r.published = true) ∧
  (st.w = .pub1 → st.r.fields = true) ∧
  (st.r.inCache = true → st.r.inIndex = true) ∧
  (st.r.inIndex = false → st.rd = .idle ∧ st.w = .idle ∧ st.r.queued = false) ∧
  st.badRead = false

theorem inv_init : inv {} := by simp [inv]

theorem inv_step (st st' : St) (l : Lab) (h : inv st) (hs : step st l = some st') : inv st' := by
  obtain ⟨h1, h2, h3, h4, h5, h6, h7, h9, h8⟩ := h
  cases l <;> simp only [step] at hs
  all_goals (try (split at hs))
  all_goals (try (split at hs))
  all_goals (try simp at hs)
  all_goals (try (subst hs))
  all_goals (try (simp_all [inv]))
  all_goals (try grind)

theorem inv_run (st : St) (ls : List Lab) (h : inv st) : inv (run st ls) := by
  induction ls generalizing st with
  | nil => exact h
  | cons l r ih =>
    simp only [run]
    cases hs : step st l with
    | none => simpa using ih st h
    | some st' => simpa using ih st' (inv_step st st' l h hs)
end PubP

namespace FanP
open Fan
theorem step_mem (f : Verify) (st st' : St) (l : Lab) (hc : st.cloned = true) (hs : step f st l = some st') :
    st'.mem = st.mem ∧ st'.cloned = true ∧ st'.txs = st.txs := by
  cases l <;> simp only [step] at hs
  all_goals (split at hs)
  all_goals (try (split at hs))
  all_goals (try (split at hs))
  all_goals (try (split at hs))
  all_goals (try simp at hs)
  all_goals (try subst_vars)
  all_goals (try simp_all)

theorem run_mem (f : Verify) (st : St) (ls : List Lab) (hc : st.cloned = true) :
    (run f st ls).mem = st.mem := by
  induction ls generalizing st with
  | nil => rfl
  | cons l r ih =>
    simp only [run]
    cases hs : step f st l with
    | none => simpa using ih st hc
    | some st' =>
      obtain ⟨h1, h2, _⟩ := step_mem f st st' l hc hs
      simpa [h1] using ih st' h2
end FanP

theorem applyUpd_comm (m : Nat → Option Nat) (u v : Nat × Option Nat) (h : u.1 ≠ v.1) :
    applyUpd (applyUpd m u) v = applyUpd (applyUpd m v) u := by
  funext k
  simp only [applyUpd]
  by_cases h1 : k = v.1 <;> by_cases h2 : k = u.1 <;> simp_all

theorem disjoint_updates_commute (us vs : List (Nat × Option Nat)) (hp : us.Perm vs)
    (hd : (us.map (·.1)).Nodup) (m : Nat → Option Nat) : applyAll m us = applyAll m vs := by
  induction hp generalizing m with
  | nil => rfl
  | cons x _ ih =>
    simp only [applyAll, List.foldl_cons]
    exact ih (by simpa using (List.nodup_cons.mp (by simpa using hd)).2) _
  | swap x y l =>
    simp only [applyAll, List.foldl_cons]
    have : y.1 ≠ x.1 := by
      intro h; simp [List.nodup_cons] at hd; exact hd.1.1 h
    rw [applyUpd_comm m y x this]
  | trans h1 _ ih1 ih2 =>
    rw [ih1 hd m, ih2 ((h1.map (·.1)).nodup_iff.mp hd) m]

theorem atomic_sum (ws vs : List Nat) (h : ws.Perm vs) (b : Nat) :
    ws.foldl (· + ·) b = vs.foldl (· + ·) b := by
  induction h generalizing b with
  | nil => rfl
  | cons x _ ih => simp only [List.foldl_cons]; exact ih _
  | swap x y l => simp only [List.foldl_cons]; congr 1; omega
  | trans _ _ ih1 ih2 => rw [ih1, ih2]

theorem cache_once (v : Nat) (c : Option Nat) :
    (cacheStep v (cacheStep v c).1).1 = (cacheStep v c).1 ∧ (cacheStep v (cacheStep v c).1).2 = (cacheStep v c).2 := by
  cases c <;> simp [cacheStep]

end GocoinV.Proofs.C11
