/-
  Proofs.C20Total — totality of the defragmentation pass of Model/Alloc.lean: none of the `.error .corrupt`
  exits of beginEvac / moveNext / allocSlot / evacPage / endEvac ("the Go code would dereference nil or an
  unmapped page here") is reachable from a state satisfying `Inv`; the only way `defragAll` can fail is the
  rejection of the offered evacuation order (`.illegalChoice`), and an order the selection rule accepts
  (`choiceOk`) always leads to `.ok`.
-/
import GocoinV.Proofs.C20Inv
namespace GocoinV.Alloc
open GocoinV.Gen.MemClasses
variable {V : Type}

/-! ### generic loop totality -/

theorem foldE_total {σ α : Type} (P : σ → List α → Prop) (f : σ → α → Except Err σ)
    (hstep : ∀ s a rest, P s (a :: rest) → ∃ s', f s a = .ok s' ∧ P s' rest) :
    ∀ (l : List α) (s : σ), P s l → ∃ s', foldE f s l = .ok s' ∧ P s' [] := by
  intro l
  induction l with
  | nil => intro s hp; exact ⟨s, rfl, hp⟩
  | cons a rest ih =>
    intro s hp
    obtain ⟨s1, h1, p1⟩ := hstep s a rest hp
    obtain ⟨s2, h2, p2⟩ := ih s1 p1
    exact ⟨s2, by simp only [foldE, h1]; exact h2, p2⟩

theorem iter_total {σ : Type} (P : σ → Nat → Prop) (f : σ → Except Err σ)
    (hstep : ∀ s n, P s (n + 1) → ∃ s', f s = .ok s' ∧ P s' n) :
    ∀ (n : Nat) (s : σ), P s n → ∃ s', iter f n s = .ok s' ∧ P s' 0 := by
  intro n
  induction n with
  | zero => intro s hp; exact ⟨s, rfl, hp⟩
  | succ n ih =>
    intro s hp
    obtain ⟨s1, h1, p1⟩ := hstep s n hp
    obtain ⟨s2, h2, p2⟩ := ih s1 p1
    exact ⟨s2, by simp only [iter, h1]; exact h2, p2⟩

/-- a fold whose steps, from states satisfying `P`, either succeed (keeping `P`) or fail with an error of
    the set `E`, as a whole either succeeds or fails with an error of `E` -/
theorem foldE_errs {σ α : Type} (P : σ → List α → Prop) (E : Err → Prop) (f : σ → α → Except Err σ)
    (hstep : ∀ s a rest, P s (a :: rest) → (∃ s', f s a = .ok s' ∧ P s' rest) ∨ (∃ e, f s a = .error e ∧ E e)) :
    ∀ (l : List α) (s : σ), P s l → (∃ s', foldE f s l = .ok s' ∧ P s' []) ∨ (∃ e, foldE f s l = .error e ∧ E e) := by
  intro l
  induction l with
  | nil => intro s hp; exact Or.inl ⟨s, rfl, hp⟩
  | cons a rest ih =>
    intro s hp
    rcases hstep s a rest hp with ⟨s1, h1, p1⟩ | ⟨e, h1, he⟩
    · rcases ih s1 p1 with ⟨s2, h2, p2⟩ | ⟨e, h2, he⟩
      · exact Or.inl ⟨s2, by simp only [foldE, h1]; exact h2, p2⟩
      · exact Or.inr ⟨e, by simp only [foldE, h1]; exact h2, he⟩
    · exact Or.inr ⟨e, by simp only [foldE, h1], he⟩

/-! ### beginEvac -/

/-- beginEvac on a mapped, not yet evacuating page of the class succeeds; only that page's header changes -/
theorem beginEvac_total {s : State V} {c pg : Nat} {h : Page} (hp : s.pages.get? pg = some h)
    (hc : h.cls = c) (he : h.evac = false) :
    ∃ s', beginEvac s c pg = .ok s' ∧
      (∀ q, s'.pages.get? q = if pg = q then
          some { h with evac := true, saved := h.freeList, freeList := [], scan := 0 } else s.pages.get? q) := by
  unfold beginEvac
  simp only [hp]
  rw [if_neg (by simp [hc, he])]
  exact ⟨_, rfl, fun q => by simp only [KMap.get?_set]⟩

/-! ### moveNext -/

/-- One iteration of the slot loop on an evacuating page with `scan < brk` never reaches a `.corrupt` exit:
    the slot is on the saved free set, or it is live (so its memory and live record exist), `allocLive`
    finds a slot, and the page is still mapped afterwards.  Other evacuating pages are left as they are. -/
theorem moveNext_total {s : State V} {c pg : Nat} {h : Page} (inv : InvG s) (hc : c < nClasses)
    (hp : s.pages.get? pg = some h) (hev : h.evac = true) (hcl : h.cls = c) (hsc : h.scan < h.brk) :
    ∃ s', moveNext s c pg = .ok s' ∧
      (∀ q hq, q ≠ pg → s.pages.get? q = some hq → hq.evac = true → s'.pages.get? q = some hq) := by
  unfold moveNext
  simp only [hp]
  rw [if_neg (by simp [hev]; omega)]
  have okp := inv.pages pg h hp
  have ev := okp.ev hev
  split
  · refine ⟨_, rfl, ?_⟩
    intro q hq ne h1 _
    have ne' : ¬ pg = q := fun e => ne e.symm
    simp only [KMap.get?_set, if_neg ne']; exact h1
  · next hsaved =>
    have hnin : h.scan ∉ h.saved := by simpa using hsaved
    have hlive : s.isLive (.sh pg h.scan) := (ev.2 h.scan hsc).2 ⟨Nat.le_refl _, hnin⟩
    cases hq : s.live.get? (.sh pg h.scan) with
    | none => simp [State.isLive, hq] at hlive
    | some l =>
    obtain ⟨m, hm, m1, m2, m3, m4, h0, g1, g2, g3⟩ := inv.live _ l hq
    rw [hp] at g1; cases g1
    simp only [hm]
    have t := table_facts.2 c hc
    obtain ⟨⟨s1, new⟩, hal⟩ := allocLive_total inv hc t.1 m.len m.cap m.val
    simp only [hal]
    obtain ⟨_, _, _, _, _, _, _, _, _, _, i11, _⟩ :=
      allocLive_invG inv hc t.1 (by rw [m2]; exact m4) (by rw [← hcl]; exact g3) hal
    have hp1 : s1.pages.get? pg = some h := i11 pg h hp hev
    simp only [hp1]
    refine ⟨_, rfl, ?_⟩
    intro q hq' ne h1 h2
    have := i11 q hq' h1 h2
    have ne' : ¬ pg = q := fun e => ne e.symm
    simp only [freeSlot, hev, if_true, KMap.get?_set, if_neg ne']
    exact this

/-! ### endEvac -/

theorem endEvac_total {s : State V} {c pg : Nat} {h : Page} (hp : s.pages.get? pg = some h)
    (hev : h.evac = true) (hcl : h.cls = c) (hsc : h.scan = h.brk) :
    ∃ s', endEvac s c pg = .ok s' ∧ (∀ q, q ≠ pg → s'.pages.get? q = s.pages.get? q) := by
  unfold endEvac
  simp only [hp]
  rw [if_neg (by simp [hev, hcl, hsc])]
  refine ⟨_, rfl, ?_⟩
  intro q ne
  have ne' : ¬ pg = q := fun e => ne e.symm
  simp only [KMap.get?_del, if_neg ne']

/-! ### evacPage: the slot loop runs to `scan = brk`, then the page is unlinked -/

/-- invariant of the slot loop of page pg started in state s: n iterations to go -/
def SlotLoopInv (s : State V) (c pg : Nat) (E : List Nat) (brk : Nat) (t : State V) (n : Nat) : Prop :=
  DInv t c E ∧ ∃ ht, t.pages.get? pg = some ht ∧ ht.evac = true ∧ ht.scan + n = brk ∧ ht.brk = brk ∧
    (∀ q hq, q ≠ pg → s.pages.get? q = some hq → hq.evac = true → t.pages.get? q = some hq)

theorem evacPage_total {s : State V} {c pg : Nat} {E : List Nat} {h : Page} (hc : c < nClasses)
    (d : DInv s c E) (hp : s.pages.get? pg = some h) (hev : h.evac = true) (hsc : h.scan = 0) :
    ∃ s', evacPage s c pg = .ok s' ∧
      (∀ q hq, q ≠ pg → s.pages.get? q = some hq → hq.evac = true → s'.pages.get? q = some hq) := by
  unfold evacPage
  simp only [hp]
  have hstep : ∀ (t : State V) (n : Nat), SlotLoopInv s c pg E h.brk t (n + 1) →
      ∃ t', moveNext t c pg = .ok t' ∧ SlotLoopInv s c pg E h.brk t' n := ?step
  obtain ⟨s1, hi, d1, h1, hp1, hev1, hsc1, hbrk1, fr1⟩ := iter_total (SlotLoopInv s c pg E h.brk)
    (fun s => moveNext s c pg) hstep h.brk s ⟨d, h, hp, hev, by omega, rfl, fun q hq _ a _ => a⟩
  · simp only [hi]
    obtain ⟨s', he, fr2⟩ := endEvac_total hp1 hev1 (d1.evac pg h1 hp1 hev1).2 (by omega)
    refine ⟨s', he, ?_⟩
    intro q hq ne a b
    rw [fr2 q ne]; exact fr1 q hq ne a b
  case step =>
    intro t n ⟨dt, ht, hpt, hevt, hsct, hbrkt, frt⟩
    have hclt := (dt.evac pg ht hpt hevt).2
    obtain ⟨t', hr, fr⟩ := moveNext_total dt.g hc hpt hevt hclt (by omega)
    obtain ⟨_, _, _, ⟨h0, h0', x1, x2, x3, x4, x5, _, _, _⟩, _⟩ :=
      moveNext_invG dt.g hc (fun h0 a b => (dt.evac pg h0 a b).2) hr
    rw [hpt] at x1; cases x1
    refine ⟨t', hr, moveNext_dinv hc dt hr, h0', x2, x5, by omega, by omega, ?_⟩
    intro q hq ne a b
    exact fr q hq ne (frt q hq ne a b) b

/-! ### the two loops of defragClass -/

theorem beginEvac_dinv {t t' : State V} {c pg : Nat} {E : List Nat} (dt : DInv t c E) (hin : pg ∈ E)
    (ht : beginEvac t c pg = .ok t') : DInv t' c E := by
  obtain ⟨j1, j2, j3, _, j5, _⟩ := beginEvac_invG dt.g ht
  refine ⟨j1, by rw [j3, j2]; exact dt.allocs, ?_⟩
  intro q hq a b
  rcases j5 q hq a b with ⟨e1, e2⟩ | e
  · exact ⟨by rw [e1]; exact hin, e2⟩
  · exact dt.evac q hq e b

/-- invariant of the first loop (pages of `l` still to mark, the other pages of `ev` marked) -/
def MarkInv (c : Nat) (ev : List Nat) (t : State V) (l : List Nat) : Prop :=
  DInv t c ev ∧ l.Nodup ∧
    (∀ q, q ∈ l → ∃ h, t.pages.get? q = some h ∧ h.cls = c ∧ h.evac = false) ∧
    (∀ q, q ∈ ev → q ∉ l → ∃ h, t.pages.get? q = some h ∧ h.evac = true ∧ h.scan = 0) ∧
    (∀ x, x ∈ l → x ∈ ev)

/-- invariant of the second loop (pages of `l` marked and still to evacuate) -/
def EvacInv (c : Nat) (t : State V) (l : List Nat) : Prop :=
  DInv t c l ∧ l.Nodup ∧ (∀ q, q ∈ l → ∃ h, t.pages.get? q = some h ∧ h.evac = true ∧ h.scan = 0)

/-- Both loops of defragClass succeed when the pages to evacuate are distinct, mapped, of the class and
    not evacuating (which is what an accepted evacuation order guarantees). -/
theorem defragLoops_total {s : State V} {c : Nat} {ev : List Nat} (hc : c < nClasses) (inv : Inv s)
    (hnd : ev.Nodup) (hpg : ∀ q, q ∈ ev → ∃ h, s.pages.get? q = some h ∧ h.cls = c ∧ h.evac = false) :
    ∃ s1 s', foldE (fun s pg => beginEvac s c pg) s ev = .ok s1 ∧
      foldE (fun s pg => evacPage s c pg) s1 ev = .ok s' := by
  have d0 : DInv s c ev := ⟨inv.g, inv.allocs, fun q hq a b => by rw [inv.noEvac q hq a] at b; cases b⟩
  have step1 : ∀ (t : State V) (pg : Nat) (rest : List Nat), MarkInv c ev t (pg :: rest) →
      ∃ t', beginEvac t c pg = .ok t' ∧ MarkInv c ev t' rest := by
    intro t pg rest ⟨dt, nd, htodo, hdone, hsub⟩
    obtain ⟨h, hp, hcl, hev⟩ := htodo pg (by simp)
    obtain ⟨t', hr, fr⟩ := beginEvac_total hp hcl hev
    have nd' := List.nodup_cons.1 nd
    refine ⟨t', hr, beginEvac_dinv dt (hsub pg (by simp)) hr, nd'.2, ?_, ?_, fun x hx => hsub x (List.mem_cons_of_mem _ hx)⟩
    · intro q hq
      have ne : ¬ pg = q := fun e => nd'.1 (e ▸ hq)
      rw [fr q, if_neg ne]
      exact htodo q (List.mem_cons_of_mem _ hq)
    · intro q hq hnr
      by_cases e : pg = q
      · subst e; rw [fr pg, if_pos rfl]; exact ⟨_, rfl, rfl, rfl⟩
      · rw [fr q, if_neg e]
        exact hdone q hq (by simp only [List.mem_cons, not_or]; exact ⟨fun x => e x.symm, hnr⟩)
  have step2 : ∀ (t : State V) (pg : Nat) (rest : List Nat), EvacInv c t (pg :: rest) →
      ∃ t', evacPage t c pg = .ok t' ∧ EvacInv c t' rest := by
    intro t pg rest ⟨dt, nd, hall⟩
    obtain ⟨h, hp, hev, hsc⟩ := hall pg (by simp)
    obtain ⟨t', hr, fr⟩ := evacPage_total hc dt hp hev hsc
    have nd' := List.nodup_cons.1 nd
    refine ⟨t', hr, evacPage_dinv hc dt hr, nd'.2, ?_⟩
    intro q hq
    obtain ⟨hq', a, b, c1⟩ := hall q (List.mem_cons_of_mem _ hq)
    have ne : q ≠ pg := fun e => nd'.1 (e ▸ hq)
    exact ⟨hq', fr q hq' ne a b, b, c1⟩
  -- phase 1: mark the pages
  obtain ⟨s1, h1, d1, _, _, hdone, _⟩ := foldE_total (MarkInv c ev) (fun s pg => beginEvac s c pg) step1 ev s
    ⟨d0, hnd, hpg, fun q a b => absurd a b, fun _ hx => hx⟩
  -- phase 2: evacuate and unmap them
  obtain ⟨s', h2, _⟩ := foldE_total (EvacInv c) (fun s pg => evacPage s c pg) step2 ev s1
    ⟨d1, hnd, fun q hq => hdone q hq (by simp)⟩
  exact ⟨s1, s', h1, h2⟩

/-! ### defragClass -/

/-- what `legalChoice` guarantees about the offered pages -/
theorem legalChoice_pages {s : State V} (inv : Inv s) {c cap target : Nat} {ev : List Nat}
    (hl : legalChoice s cap target ((s.K c).plist.filter (fun p => usedOf s p < cap)) ev = true) :
    ev.Nodup ∧ ∀ q, q ∈ ev → ∃ h, s.pages.get? q = some h ∧ h.cls = c ∧ h.evac = false := by
  simp only [legalChoice, Bool.and_eq_true, decide_eq_true_eq, List.all_eq_true, List.contains_iff_mem,
    List.mem_filter] at hl
  obtain ⟨⟨nd, hall⟩, _⟩ := hl
  refine ⟨nd, ?_⟩
  intro q hq
  obtain ⟨h, hp, hcl⟩ := (inv.g.classes c).pl_pages q (hall q hq).1
  exact ⟨h, hp, hcl, inv.noEvac q h hp⟩

/-- The selection rule of defragClass as one Boolean: is the evacuation order `ev` accepted for class c in
    state s?  (Nothing to evacuate ⇒ only the empty order; otherwise `legalChoice`.) -/
def choiceOk (s : State V) (c : Nat) (ev : List Nat) : Bool :=
  let nonFull := (s.K c).plist.filter (fun p => usedOf s p < capOf c)
  let target := capOf c * ((s.K c).freeSlots / capOf c - minFreePagesTo)
  if nonFull.isEmpty then ev.isEmpty
  else if (selUsed s (capOf c) target nonFull).sum = 0 then ev.isEmpty
  else legalChoice s (capOf c) target nonFull ev

/-- defragClass succeeds on every accepted evacuation order … -/
theorem defragClass_total {s : State V} {c : Nat} {ev : List Nat} (hc : c < nClasses) (inv : Inv s)
    (hok : choiceOk s c ev = true) : ∃ s', defragClass s c ev = .ok s' := by
  unfold choiceOk at hok
  unfold defragClass
  simp only [] at hok ⊢
  split
  · next h1 => rw [if_pos h1] at hok; rw [if_pos hok]; exact ⟨_, rfl⟩
  · next h1 =>
    rw [if_neg h1] at hok
    split
    · next h2 => rw [if_pos h2] at hok; rw [if_pos hok]; exact ⟨_, rfl⟩
    · next h2 =>
      rw [if_neg h2] at hok
      rw [if_neg (by simp [hok])]
      obtain ⟨nd, hpg⟩ := legalChoice_pages inv hok
      obtain ⟨s1, s', e1, e2⟩ := defragLoops_total hc inv nd hpg
      simp only [e1]
      exact ⟨s', e2⟩

/-- … and fails on every other order with `.illegalChoice`, before touching the state. -/
theorem defragClass_illegal {s : State V} {c : Nat} {ev : List Nat}
    (hok : choiceOk s c ev = false) : defragClass s c ev = .error .illegalChoice := by
  unfold choiceOk at hok
  unfold defragClass
  simp only [] at hok ⊢
  split
  · next h1 => rw [if_pos h1] at hok; rw [if_neg (by simp [hok])]
  · next h1 =>
    rw [if_neg h1] at hok
    split
    · next h2 => rw [if_pos h2] at hok; rw [if_neg (by simp [hok])]
    · next h2 =>
      rw [if_neg h2] at hok
      rw [if_pos (by simp [hok])]

/-! ### defragAll -/

/-- the body of DefragAllImproved's loop for class c with the offered choice `ch` (what `defragAll` folds) -/
def classStep (ch : List (Nat × List Nat)) (s : State V) (c : Nat) : Except Err (State V) :=
  if wantsDefrag s c then defragClass s c ((ch.lookup c).getD [])
  else if ((ch.lookup c).getD []).isEmpty then .ok s else .error .illegalChoice

theorem defragAll_eq (s : State V) (ch : List (Nat × List Nat)) :
    defragAll s ch = foldE (classStep ch) { s with relog := [] } (List.range nClasses) := rfl

/-- is the order offered for class c accepted in state t?  A class below the trigger threshold takes only
    the empty order, a class above it what the selection rule (`choiceOk`) accepts. -/
def classLegal (ch : List (Nat × List Nat)) (t : State V) (c : Nat) : Bool :=
  if wantsDefrag t c then choiceOk t c ((ch.lookup c).getD []) else ((ch.lookup c).getD []).isEmpty

theorem classStep_total {ch : List (Nat × List Nat)} {t : State V} {c : Nat} (hc : c < nClasses)
    (inv : Inv t) (h : classLegal ch t c = true) : ∃ t', classStep ch t c = .ok t' ∧ Inv t' := by
  unfold classLegal at h
  unfold classStep
  split
  · next hw =>
    rw [if_pos hw] at h
    obtain ⟨t', ht⟩ := defragClass_total hc inv h
    exact ⟨t', ht, defragClass_inv hc inv ht⟩
  · next hw =>
    rw [if_neg hw] at h
    rw [if_pos h]; exact ⟨t, rfl, inv⟩

theorem classStep_illegal {ch : List (Nat × List Nat)} {t : State V} {c : Nat}
    (h : classLegal ch t c = false) : classStep ch t c = .error .illegalChoice := by
  unfold classLegal at h
  unfold classStep
  split
  · next hw => rw [if_pos hw] at h; exact defragClass_illegal h
  · next hw => rw [if_neg hw] at h; rw [if_neg (by simp [h])]

/-- the offered choice is accepted class after class, each class being judged in the state in which the
    pass reaches it -/
def PassLegal (ch : List (Nat × List Nat)) : State V → List Nat → Prop
  | _, [] => True
  | t, c :: rest => classLegal ch t c = true ∧ ∀ t', classStep ch t c = .ok t' → PassLegal ch t' rest

theorem foldClass_total {ch : List (Nat × List Nat)} :
    ∀ (l : List Nat) (t : State V), (∀ x, x ∈ l → x < nClasses) → Inv t → PassLegal ch t l →
      ∃ t', foldE (classStep ch) t l = .ok t' ∧ Inv t' := by
  intro l
  induction l with
  | nil => intro t _ inv _; exact ⟨t, rfl, inv⟩
  | cons c rest ih =>
    intro t hsub inv ⟨h1, h2⟩
    obtain ⟨t1, e1, inv1⟩ := classStep_total (hsub c (by simp)) inv h1
    obtain ⟨t2, e2, inv2⟩ := ih t1 (fun x hx => hsub x (List.mem_cons_of_mem _ hx)) inv1 (h2 t1 e1)
    exact ⟨t2, by simp only [foldE, e1]; exact e2, inv2⟩

theorem foldClass_legal {ch : List (Nat × List Nat)} :
    ∀ (l : List Nat) (t t' : State V), foldE (classStep ch) t l = .ok t' → PassLegal ch t l := by
  intro l
  induction l with
  | nil => intro t t' _; trivial
  | cons c rest ih =>
    intro t t' h
    simp only [foldE] at h
    cases e1 : classStep ch t c with
    | error e => simp [e1] at h
    | ok t1 =>
      simp only [e1] at h
      refine ⟨?_, ?_⟩
      · cases hl : classLegal ch t c with
        | true => rfl
        | false => rw [classStep_illegal hl] at e1; cases e1
      · intro t1' e; rw [e1] at e; cases e; exact ih t1 t' h

theorem foldClass_ok_or_illegal {ch : List (Nat × List Nat)} :
    ∀ (l : List Nat) (t : State V), (∀ x, x ∈ l → x < nClasses) → Inv t →
      (∃ t', foldE (classStep ch) t l = .ok t') ∨ foldE (classStep ch) t l = .error .illegalChoice := by
  intro l
  induction l with
  | nil => intro t _ _; exact Or.inl ⟨t, rfl⟩
  | cons c rest ih =>
    intro t hsub inv
    cases hl : classLegal ch t c with
    | false => right; simp only [foldE, classStep_illegal hl]
    | true =>
      obtain ⟨t1, e1, inv1⟩ := classStep_total (hsub c (by simp)) inv hl
      simp only [foldE, e1]
      exact ih t1 (fun x hx => hsub x (List.mem_cons_of_mem _ hx)) inv1

/-! ### traces -/

/-- an operation that is not a caller error in state s -/
def OpLegal (s : State V) : Op V → Prop
  | .malloc _ => True
  | .free a => s.isLive a
  | .write a _ => s.isLive a
  | .defrag ch => PassLegal ch ({ s with relog := [] } : State V) (List.range nClasses)

/-- every operation of the trace is legal in the state in which it is issued -/
def TraceLegal : State V → List (Op V) → Prop
  | _, [] => True
  | s, op :: rest => OpLegal s op ∧ ∀ s', step s op = .ok s' → TraceLegal s' rest

theorem write_total {s : State V} {a : Addr} {v : V} (inv : Inv s) (hl : s.isLive a) :
    ∃ s', write s a v = .ok s' := by
  simp only [State.isLive] at hl
  cases hq : s.live.get? a with
  | none => simp [hq] at hl
  | some l =>
    obtain ⟨m, hm, _⟩ := inv.g.live a l hq
    simp only [write, hq, hm]
    exact ⟨_, rfl⟩

theorem write_notLive {s : State V} {a : Addr} {v : V} (hl : ¬ s.isLive a) :
    write s a v = .error .notLive := by
  simp only [State.isLive] at hl
  cases hq : s.live.get? a with
  | none => simp only [write, hq]
  | some l => simp [hq] at hl

theorem free_notLive {s : State V} {a : Addr} (hl : ¬ s.isLive a) : free s a = .error .notLive := by
  simp only [State.isLive] at hl
  unfold free
  rw [if_pos (by cases hq : s.live.get? a <;> simp_all)]

theorem step_keeps_inv {s s' : State V} {op : Op V} (inv : Inv s) (hr : step s op = .ok s') : Inv s' := by
  cases op with
  | malloc size =>
    simp only [step] at hr
    cases hm : malloc s size with
    | error e => simp [hm] at hr
    | ok r => obtain ⟨s2, a⟩ := r; simp only [hm] at hr; cases hr; exact (malloc_inv inv hm).1
  | free a => exact (free_inv inv hr).1
  | write a v => exact (write_inv inv hr).1
  | defrag ch => exact defragAll_inv inv hr

/-- in a state satisfying `Inv` a step either succeeds, or it is a caller error: Free / write of a pointer
    that is not live (`.notLive`) or a rejected evacuation order (`.illegalChoice`).  The exits `.corrupt`,
    `.pageReleaseBranch`, `.dispatchMismatch` are unreachable. -/
theorem step_ok_or_caller {s : State V} (inv : Inv s) (op : Op V) :
    (∃ s', step s op = .ok s') ∨ step s op = .error .notLive ∨ step s op = .error .illegalChoice := by
  cases op with
  | malloc size =>
    obtain ⟨s', a, h⟩ := malloc_total inv.g size
    exact Or.inl ⟨s', by simp only [step, h]⟩
  | free a =>
    by_cases hl : s.isLive a
    · exact Or.inl (free_total inv hl)
    · exact Or.inr (Or.inl (free_notLive hl))
  | write a v =>
    by_cases hl : s.isLive a
    · exact Or.inl (write_total inv hl)
    · exact Or.inr (Or.inl (write_notLive hl))
  | defrag ch =>
    rcases foldClass_ok_or_illegal (ch := ch) (List.range nClasses) _ (fun x hx => List.mem_range.1 hx)
      (relogClear_inv inv) with h | h
    · exact Or.inl h
    · exact Or.inr (Or.inr h)

theorem step_total {s : State V} (inv : Inv s) {op : Op V} (h : OpLegal s op) : ∃ s', step s op = .ok s' := by
  cases op with
  | malloc size =>
    obtain ⟨s', a, h⟩ := malloc_total inv.g size
    exact ⟨s', by simp only [step, h]⟩
  | free a => exact free_total inv h
  | write a v => exact write_total inv h
  | defrag ch =>
    obtain ⟨s', e, _⟩ := foldClass_total (ch := ch) (List.range nClasses) _ (fun x hx => List.mem_range.1 hx)
      (relogClear_inv inv) h
    exact ⟨s', e⟩

theorem run_total_aux : ∀ (ops : List (Op V)) (s : State V), Inv s → TraceLegal s ops →
    ∃ s', run s ops = .ok s' ∧ Inv s' := by
  intro ops
  induction ops with
  | nil => intro s inv _; exact ⟨s, rfl, inv⟩
  | cons op rest ih =>
    intro s inv ⟨h1, h2⟩
    obtain ⟨s1, e1⟩ := step_total inv h1
    obtain ⟨s2, e2, inv2⟩ := ih s1 (step_keeps_inv inv e1) (h2 s1 e1)
    exact ⟨s2, by simp only [run, foldE, e1]; exact e2, inv2⟩

theorem run_ok_or_caller_aux : ∀ (ops : List (Op V)) (s : State V), Inv s →
    (∃ s', run s ops = .ok s') ∨ run s ops = .error .notLive ∨ run s ops = .error .illegalChoice := by
  intro ops
  induction ops with
  | nil => intro s _; exact Or.inl ⟨s, rfl⟩
  | cons op rest ih =>
    intro s inv
    rcases step_ok_or_caller inv op with ⟨s1, e1⟩ | e1 | e1
    · have := ih s1 (step_keeps_inv inv e1)
      simp only [run, foldE, e1] at this ⊢
      exact this
    · right; left; simp only [run, foldE, e1]
    · right; right; simp only [run, foldE, e1]

/-! ### an accepted evacuation order always exists (pages sorted by `used`, the prefix the loop takes) -/

def insertBy (f : Nat → Nat) (x : Nat) : List Nat → List Nat
  | [] => [x]
  | y :: r => if f x ≤ f y then x :: y :: r else y :: insertBy f x r
def sortBy (f : Nat → Nat) (l : List Nat) : List Nat := l.foldr (insertBy f) []

theorem map_insertBy (f : Nat → Nat) (x : Nat) (l : List Nat) :
    (insertBy f x l).map f = insertSorted (f x) (l.map f) := by
  induction l with
  | nil => rfl
  | cons y r ih =>
    simp only [insertBy, List.map_cons, insertSorted]
    split
    · rfl
    · simp only [List.map_cons, ih]

theorem map_sortBy (f : Nat → Nat) (l : List Nat) : (sortBy f l).map f = sortNat (l.map f) := by
  induction l with
  | nil => rfl
  | cons y r ih =>
    simp only [sortBy, sortNat, List.foldr_cons, List.map_cons] at ih ⊢
    rw [map_insertBy, ih]

theorem mem_insertBy (f : Nat → Nat) (x y : Nat) (l : List Nat) : y ∈ insertBy f x l ↔ y = x ∨ y ∈ l := by
  induction l with
  | nil => simp [insertBy]
  | cons z r ih =>
    simp only [insertBy]
    split
    · simp
    · simp only [List.mem_cons, ih]
      constructor
      · rintro (h | h | h)
        · exact Or.inr (Or.inl h)
        · exact Or.inl h
        · exact Or.inr (Or.inr h)
      · rintro (h | h | h)
        · exact Or.inr (Or.inl h)
        · exact Or.inl h
        · exact Or.inr (Or.inr h)

theorem nodup_insertBy (f : Nat → Nat) (x : Nat) (l : List Nat) (hx : x ∉ l) (hl : l.Nodup) :
    (insertBy f x l).Nodup := by
  induction l with
  | nil => simp [insertBy]
  | cons z r ih =>
    simp only [insertBy]
    split
    · exact List.nodup_cons.2 ⟨hx, hl⟩
    · have hl' := List.nodup_cons.1 hl
      refine List.nodup_cons.2 ⟨?_, ih (fun h => hx (List.mem_cons_of_mem _ h)) hl'.2⟩
      rw [mem_insertBy]
      rintro (h | h)
      · exact hx (by simp [h])
      · exact hl'.1 h

theorem sortBy_props (f : Nat → Nat) (l : List Nat) (hl : l.Nodup) :
    (sortBy f l).Nodup ∧ ∀ y, y ∈ sortBy f l ↔ y ∈ l := by
  induction l with
  | nil => simp [sortBy]
  | cons z r ih =>
    have hl' := List.nodup_cons.1 hl
    obtain ⟨i1, i2⟩ := ih hl'.2
    have e : sortBy f (z :: r) = insertBy f z (sortBy f r) := rfl
    rw [e]
    refine ⟨nodup_insertBy f z _ (fun h => hl'.1 ((i2 z).1 h)) i1, ?_⟩
    intro y; rw [mem_insertBy, i2]; simp

/-- whatever the state, some evacuation order is accepted by the selection rule -/
theorem choiceOk_exists {s : State V} (inv : Inv s) (c : Nat) : ∃ ev, choiceOk s c ev = true := by
  unfold choiceOk
  simp only []
  split
  · exact ⟨[], rfl⟩
  · split
    · exact ⟨[], rfl⟩
    · generalize hnf : (s.K c).plist.filter (fun p => usedOf s p < capOf c) = nonFull
      generalize capOf c * ((s.K c).freeSlots / capOf c - minFreePagesTo) = target
      have nd : nonFull.Nodup := by rw [← hnf]; exact (inv.g.classes c).pl_nodup.filter _
      obtain ⟨p1, p2⟩ := sortBy_props (usedOf s) nonFull nd
      refine ⟨(sortBy (usedOf s) nonFull).take
        (selCount (capOf c) target (sortNat (nonFull.map (usedOf s))) 0), ?_⟩
      simp only [legalChoice, Bool.and_eq_true, decide_eq_true_eq, List.all_eq_true, List.contains_iff_mem,
        beq_iff_eq]
      refine ⟨⟨(List.take_sublist _ _).nodup p1, ?_⟩, ?_⟩
      · intro y hy; exact (p2 y).1 (List.mem_of_mem_take hy)
      · rw [List.map_take, map_sortBy]; rfl

/-! ### … hence an accepted choice for a whole pass exists -/

theorem foldE_congr {σ α : Type} {f g : σ → α → Except Err σ} :
    ∀ (l : List α) (s : σ), (∀ a, a ∈ l → ∀ s, f s a = g s a) → foldE f s l = foldE g s l := by
  intro l
  induction l with
  | nil => intro s _; rfl
  | cons a r ih =>
    intro s h
    simp only [foldE, h a (by simp)]
    cases g s a with
    | error e => rfl
    | ok s1 => exact ih s1 (fun b hb => h b (List.mem_cons_of_mem _ hb))

theorem classStep_lookup {ch ch2 : List (Nat × List Nat)} {c : Nat} (h : ch.lookup c = ch2.lookup c)
    (t : State V) : classStep ch t c = classStep ch2 t c := by
  unfold classStep; rw [h]

theorem classLegal_single {t : State V} (inv : Inv t) (c : Nat) :
    ∃ ev, classLegal [(c, ev)] t c = true := by
  unfold classLegal
  by_cases hw : wantsDefrag t c = true
  · obtain ⟨ev, h⟩ := choiceOk_exists inv c
    exact ⟨ev, by simp [hw, List.lookup, h]⟩
  · exact ⟨[], by simp [hw, List.lookup]⟩

theorem foldClass_exists : ∀ (l : List Nat) (t : State V), l.Nodup → (∀ x, x ∈ l → x < nClasses) → Inv t →
    ∃ ch t', foldE (classStep ch) t l = .ok t' := by
  intro l
  induction l with
  | nil => intro t _ _ _; exact ⟨[], t, rfl⟩
  | cons c rest ih =>
    intro t nd hsub inv
    have nd' := List.nodup_cons.1 nd
    obtain ⟨ev, hl⟩ := classLegal_single inv c
    obtain ⟨t1, e1, inv1⟩ := classStep_total (hsub c (by simp)) inv hl
    obtain ⟨ch', t', e2⟩ := ih t1 nd'.2 (fun x hx => hsub x (List.mem_cons_of_mem _ hx)) inv1
    refine ⟨(c, ev) :: ch', t', ?_⟩
    have h1 : classStep ((c, ev) :: ch') t c = classStep [(c, ev)] t c :=
      classStep_lookup (by simp [List.lookup]) t
    simp only [foldE, h1, e1]
    rw [← e2]
    apply foldE_congr
    intro a ha s
    have hne : a ≠ c := fun e => nd'.1 (e ▸ ha)
    have hb : (a == c) = false := by simp [hne]
    exact classStep_lookup (by simp [List.lookup, hb]) s

end GocoinV.Alloc
