/-
  Proofs.C12PanicRbf — the two R_PANIC branches of `rbfStep` (nil dereference of the spender recorded in SpentOutputs,
  or of one of its descendants returned by GetAllChildren) are unreachable from states that satisfy the structural
  invariant `InvS` (every SpentOutputs value is a pooled key).  Core Lean only.
-/
import GocoinV.Proofs.C12
namespace GocoinV.Mempool

/-- `b` is a key of TransactionsToSend -/
def Pooled (s : State) (b : Nat) : Prop := ∃ x, s.pool.get? b = some x

theorem children_fold_pooled {K : Keys} {s : State} (h : InvS K s) (t : T2S) : ∀ (l : List Nat) (acc : List Nat),
    (∀ c ∈ acc, Pooled s c) →
    ∀ c ∈ l.foldl (fun acc vout =>
      match s.spent.get? (K.uidx t.tx.id vout) with
      | none => acc
      | some so => if acc.contains so then acc else acc ++ [so]) acc, Pooled s c := by
  intro l
  induction l with
  | nil => intro acc ha; exact ha
  | cons v r ih =>
    intro acc ha
    simp only [List.foldl_cons]
    apply ih
    cases hs : s.spent.get? (K.uidx t.tx.id v) with
    | none => exact ha
    | some so =>
      simp only []
      split
      · exact ha
      · intro c hc
        rcases List.mem_append.mp hc with hc | hc
        · exact ha c hc
        · simp only [List.mem_singleton] at hc
          subst hc
          obtain ⟨x, hx, _⟩ := h.sound _ _ hs
          exact ⟨x, hx⟩

/-- GetChildren returns pooled keys only -/
theorem children_pooled {K : Keys} {s : State} (h : InvS K s) (t : T2S) : ∀ c ∈ children K s t, Pooled s c :=
  children_fold_pooled h t _ [] (by intro c hc; cases hc)

theorem addNew_fold_pooled {s : State} : ∀ (l acc : List Nat), (∀ c ∈ l, Pooled s c) → (∀ c ∈ acc, Pooled s c) →
    ∀ c ∈ l.foldl (fun a c => if a.contains c then a else a ++ [c]) acc, Pooled s c := by
  intro l
  induction l with
  | nil => intro acc _ ha; exact ha
  | cons x r ih =>
    intro acc hl ha
    simp only [List.foldl_cons]
    apply ih _ (fun c hc => hl c (List.mem_cons_of_mem _ hc))
    split
    · exact ha
    · intro c hc
      rcases List.mem_append.mp hc with hc | hc
      · exact ha c hc
      · simp only [List.mem_singleton] at hc
        subst hc
        exact hl _ List.mem_cons_self

theorem allChildrenAux_pooled {K : Keys} {s : State} (h : InvS K s) : ∀ (fuel : Nat) (acc : List Nat) (idx : Nat),
    (∀ c ∈ acc, Pooled s c) → ∀ c ∈ allChildrenAux K s fuel acc idx, Pooled s c := by
  intro fuel
  induction fuel with
  | zero => intro acc idx ha; exact ha
  | succ n ih =>
    intro acc idx ha
    unfold allChildrenAux
    cases hi : acc[idx]? with
    | none => exact ha
    | some b =>
      simp only []
      cases hb : s.pool.get? b with
      | none => exact ih _ _ ha
      | some t =>
        simp only []
        exact ih _ _ (addNew_fold_pooled _ _ (children_pooled h t) ha)

/-- GetAllChildren returns pooled keys only -/
theorem allChildren_pooled {K : Keys} {s : State} (h : InvS K s) (t : T2S) : ∀ c ∈ allChildren K s t, Pooled s c :=
  allChildrenAux_pooled h _ _ _ (children_pooled h t)

theorem foldlM_except_errQ {α β ε : Type} (Q : ε → Prop) (f : β → α → Except ε β) :
    ∀ (l : List α), (∀ b a e, a ∈ l → f b a = .error e → Q e) →
    ∀ (b : β) (e : ε), l.foldlM f b = .error e → Q e := by
  intro l
  induction l with
  | nil => intro _ b e h; simp [List.foldlM, pure, Except.pure] at h
  | cons a l ih =>
    intro hq b e h
    simp only [List.foldlM_cons, bind, Except.bind] at h
    cases hf : f b a with
    | error e' =>
      rw [hf] at h
      cases h
      exact hq b a _ List.mem_cons_self hf
    | ok b' =>
      rw [hf] at h
      exact ih (fun b a e ha => hq b a e (List.mem_cons_of_mem _ ha)) b' e h

/-- whatever `rbfStep` fails with on a pooled spender, it is not the nil dereference -/
theorem rbfStep_no_panic_of_pooled {K : Keys} {s : State} (h : InvS K s) (fl : Flags) (so : Nat) (rbf : List Nat)
    (hso : Pooled s so) : ∀ e, rbfStep K s fl so rbf = .error e → e.code ≠ R_PANIC := by
  intro e he
  obtain ⟨ctx, hctx⟩ := hso
  unfold rbfStep at he
  rw [hctx] at he
  dsimp only at he
  split at he
  · cases he; decide
  · split at he
    · cases he; decide
    · refine foldlM_except_errQ (fun e => e.code ≠ R_PANIC) _ _ ?_ _ e he
      intro b a e' ha hf
      obtain ⟨ch, hch⟩ := allChildren_pooled h ctx a ha
      rw [hch] at hf
      dsimp only at hf
      split at hf
      · cases hf; decide
      · split at hf
        · cases hf; decide
        · cases hf

/-- target (4): in a state with `InvS`, the RBF part of an input whose UIdx has an entry `so` in SpentOutputs never
    takes one of the two R_PANIC exits of `rbfStep` -/
theorem rbfStep_no_panic {K : Keys} {s : State} (h : InvS K s) (fl : Flags) (u so : Nat) (rbf : List Nat)
    (hu : s.spent.get? u = some so) : ∀ e, rbfStep K s fl so rbf = .error e → e.code ≠ R_PANIC := by
  obtain ⟨x, hx, _⟩ := h.sound u so hu
  exact rbfStep_no_panic_of_pooled h fl so rbf ⟨x, hx⟩

/-- … hence no input of `processTx` fails with R_PANIC (the other exits of `inputStep` have other codes) -/
theorem inputStep_no_panic {K : Keys} {s : State} (h : InvS K s) (fl : Flags) (a : Acc) (i : TxIn) :
    ∀ e, inputStep K s fl a i = .error e → e.code ≠ R_PANIC := by
  intro e he
  unfold inputStep at he
  simp only [bind, Except.bind, pure, Except.pure] at he
  cases hsp : s.spent.get? (K.uidx i.prev i.vout) with
  | none =>
    rw [hsp] at he
    simp only at he
    repeat' split at he
    all_goals first
      | (cases he; done)
      | (cases he; decide)
      | (replace he : Except.error _ = Except.error e := he; cases he; dsimp only; decide)
  | some so =>
    rw [hsp] at he
    simp only at he
    cases hr : rbfStep K s fl so a.rbf with
    | error e' =>
      rw [hr] at he
      cases he
      exact rbfStep_no_panic h fl _ so a.rbf hsp _ hr
    | ok v =>
      rw [hr] at he
      simp only at he
      repeat' split at he
      all_goals first
        | (cases he; done)
        | (cases he; decide)
        | (replace he : Except.error _ = Except.error e := he; cases he; dsimp only; decide)

/-- the input loop of `processTx` never fails with R_PANIC under `InvS` -/
theorem inputs_no_panic {K : Keys} {s : State} (h : InvS K s) (fl : Flags) (ins : List TxIn) (a : Acc) :
    ∀ e, ins.foldlM (inputStep K s fl) a = .error e → e.code ≠ R_PANIC :=
  foldlM_except_errQ (fun e => e.code ≠ R_PANIC) _ ins (fun b i e _ hf => inputStep_no_panic h fl b i e hf) a

end GocoinV.Mempool
