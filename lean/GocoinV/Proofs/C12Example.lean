/-
  Proofs.C12Example — a non-vacuity instance for the all-histories theorems of Props/C12 (`pool_inv`,
  `sorted_list_inv`, `template_from_pool`, `reject_index_inv`) whose history contains connected blocks with
  non-empty valid bodies, an undone block, expiry of a parent with a pooled child, a successful eviction, a rebuild of
  the sorted list, incremental insertions / deletions, and a non-empty CPFP fee package.  Core Lean only.
-/
import GocoinV.Model.Mempool
import GocoinV.Spec.MempoolTemplate
import GocoinV.Proofs.C12
import GocoinV.Proofs.C12Inv
import GocoinV.Proofs.C12Rbf
import GocoinV.Proofs.C12Sort
import GocoinV.Proofs.C12Compose
import GocoinV.Proofs.C12SortRun
import GocoinV.Proofs.C12Chain
import GocoinV.Proofs.C12RejAdm
namespace GocoinV.Props.C12Ex
open GocoinV.Mempool

/-- BIDX = the txid, UIdx = txid + 16·vout (injective on the txids < 16 in play) -/
def KX : Keys := { bidx := id, uidx := fun a v => a + 16 * v }

/-- the initial confirmed set: four coins of 100 -/
def uX : UT :=
  [((1, 0), ⟨100, 1, false⟩), ((2, 0), ⟨100, 1, false⟩), ((3, 0), ⟨100, 2, false⟩), ((4, 0), ⟨100, 2, false⟩)]

/-- A: the low-fee parent (fee 1) of the package -/
def tA : Tx := { id := 7, ins := [⟨1, 0, 0⟩], outs := [50, 49], nws := 100, size := 100, scriptOk := true }
/-- B: the high-fee child of A (fee 40, CPFP) -/
def tB : Tx := { id := 8, ins := [⟨7, 0, 0⟩], outs := [10], nws := 100, size := 100, scriptOk := true }
/-- C: spends an output of B and the second output of A (fee 5; two flagged parents) -/
def tC : Tx := { id := 9, ins := [⟨8, 0, 0⟩, ⟨7, 1, 0⟩], outs := [54], nws := 100, size := 100, scriptOk := true }
/-- D: mined by the first block, put back by its undo, later expired together with its child E (fee 10) -/
def tD : Tx := { id := 10, ins := [⟨2, 0, 0⟩], outs := [90], nws := 100, size := 100, scriptOk := true }
/-- E: child of D (fee 5) -/
def tE : Tx := { id := 11, ins := [⟨10, 0, 0⟩], outs := [85], nws := 100, size := 100, scriptOk := true }
/-- F: mined for good by the second block (fee 30) -/
def tF : Tx := { id := 12, ins := [⟨3, 0, 0⟩], outs := [40, 30], nws := 100, size := 100, scriptOk := true }
/-- J: child of F (fee 5), mined in the same block as F (an input created earlier in the block) -/
def tJ : Tx := { id := 15, ins := [⟨12, 1, 0⟩], outs := [25], nws := 100, size := 100, scriptOk := true }
/-- G: child-less, evicted (fee 20) -/
def tG : Tx := { id := 13, ins := [⟨4, 0, 0⟩], outs := [80], nws := 100, size := 100, scriptOk := true }
/-- H: spends the output the second block created (fee 10); inserted incrementally at the head of the list -/
def tH : Tx := { id := 14, ins := [⟨12, 0, 0⟩], outs := [30], nws := 100, size := 100, scriptOk := true }

/-- the universe of the history -/
def WX : Tx → Prop := fun t => t = tA ∨ t = tB ∨ t = tC ∨ t = tD ∨ t = tE ∨ t = tF ∨ t = tG ∨ t = tH ∨ t = tJ

/-- output values by txid -/
def outsX (a : TxId) : List Nat :=
  if a = 7 then [50, 49] else if a = 8 then [10] else if a = 9 then [54] else if a = 10 then [90]
  else if a = 11 then [85] else if a = 12 then [40, 30] else if a = 13 then [80] else if a = 14 then [30] else if a = 15 then [25] else []

/-- the value oracle: the initial coins, else the outputs of the transactions of the universe -/
def νX : OutPoint → Nat := fun o =>
  match uX.get? o with
  | some c => c.value
  | none => (outsX o.1).getD o.2 0

/-- the history: submissions (D ← E, F ← J), a block mining the pooled D (its child E stays, MemInputs flag cleared,
    list dirty), the undo of that block (D back, E flagged again), a rebuild of the list, a second block mining the
    pooled F and its pooled child J (J's input is created earlier in the block; incremental DelFromSort), the tip move,
    submissions A ← B ← C (C also spends A) and G, all inserted incrementally, expiry of D with its pooled child E
    (incremental), eviction of the child-less G under BlockCommitInProgress (list dirty), a rebuild of the list, and H,
    which spends an output created by the second block and is inserted incrementally at the head of the list. -/
def opsX : List Op :=
  [.tip 5, .submitNet tD false 0, .submitNet tE false 0, .submitNet tF false 0, .submitNet tJ false 0,
   .block 6 [tD] 0, .undo 6 0, .resort, .block 6 [tF, tJ] 0, .tip 6,
   .submitNet tA false 0, .submitNet tB false 0, .submitNet tC false 0, .submitNet tG false 0,
   .expire [10], .commitFlag true, .evict [13], .commitFlag false, .resort, .submitNet tH false 0]

/-- the state after the first `n` operations -/
def sAt (n : Nat) : State := run KX (genesis {} uX 0) (opsX.take n)

/-- the CPFP package: parent A (fee 1), child B (fee 40), grandchild C (fee 5) -/
def pkX : Pkg := { txs := [7, 8, 9], fee := 46, weight := 1200 }
def pksX : List Pkg := [pkX]

theorem univX : Univ2 KX WX id uX νX := by
  have play : ∀ a : Nat, Play WX a → a < 16 := by
    rintro a (⟨t, ht, rfl⟩ | ⟨t, ht, i, hi, rfl⟩)
    · rcases ht with rfl | rfl | rfl | rfl | rfl | rfl | rfl | rfl | rfl <;> decide
    · revert i
      rcases ht with rfl | rfl | rfl | rfl | rfl | rfl | rfl | rfl | rfl <;> decide
  have hid : ∀ t, WX t → ∀ n : Nat, t.id = n → 7 ≤ n ∧ n < 16 := by
    intro t ht n hn
    subst hn
    rcases ht with rfl | rfl | rfl | rfl | rfl | rfl | rfl | rfl | rfl <;> decide
  have hout : ∀ t, WX t → outsX t.id = t.outs := by
    intro t ht
    rcases ht with rfl | rfl | rfl | rfl | rfl | rfl | rfl | rfl | rfl <;> decide
  have hgen : ∀ t, WX t → ∀ v, uX.get? (t.id, v) = none := by
    intro t ht v
    rcases ht with rfl | rfl | rfl | rfl | rfl | rfl | rfl | rfl | rfl <;>
      simp [uX, tA, tB, tC, tD, tE, tF, tG, tH, tJ, AList.get?]
  refine ⟨⟨?_, ?_, ?_, ?_, ?_⟩, ?_, ?_, hgen, ?_, ?_⟩
  · intro a b _ _ h; exact h
  · intro c t hc ht i hi v h
    have pi := play i.prev (Play.prev hc hi)
    have pt := (hid t ht t.id rfl).2
    have h' : @Eq Nat (i.prev + 16 * i.vout) (t.id + 16 * v) := h
    show @Eq Nat i.prev t.id
    omega
  · intro a b ha hb h
    rcases ha with rfl | rfl | rfl | rfl | rfl | rfl | rfl | rfl | rfl <;>
      rcases hb with rfl | rfl | rfl | rfl | rfl | rfl | rfl | rfl | rfl <;>
      first | rfl | exact absurd h (by decide)
  · intro a ha
    rcases ha with rfl | rfl | rfl | rfl | rfl | rfl | rfl | rfl | rfl <;> decide
  · intro a ha
    show ∀ i ∈ a.ins, i.prev < a.id
    rcases ha with rfl | rfl | rfl | rfl | rfl | rfl | rfl | rfl | rfl <;> decide
  · intro a b _ _ h; exact h
  · intro (a : Nat) (b : Nat) (v : Nat) (w : Nat) ha hb _ _ h
    have h' : a + 16 * v = b + 16 * w := h
    have pa := play a ha
    have pb := play b hb
    show (a : Nat) = b ∧ v = w
    omega
  · intro t ht v
    simp only [νX, hgen t ht v, hout t ht]
  · intro o c h
    simp only [νX, h]

theorem hWX : ∀ op ∈ opsX, ∀ t ∈ op.txs, WX t := by
  intro op ho t ht
  simp only [opsX, List.mem_cons, List.not_mem_nil, or_false] at ho
  rcases ho with rfl | rfl | rfl | rfl | rfl | rfl | rfl | rfl | rfl | rfl | rfl | rfl | rfl | rfl | rfl | rfl | rfl |
    rfl | rfl | rfl <;> simp [Op.txs] at ht <;> (try rcases ht with rfl | rfl) <;> simp [WX]

theorem aliveX : (run KX (genesis {} uX 0) opsX).panicked = false := by decide

/-- executable form of `BlockOK` -/
def okB (avail : OutPoint → Bool) : List Tx → Bool
  | [] => true
  | t :: r => decide t.inOps.Nodup && t.inOps.all avail &&
      okB (fun o => (avail o && !t.inOps.contains o) || (decide (o.1 = t.id) && decide (o.2 < t.outs.length))) r

theorem okB_sound : ∀ (l : List Tx) (avail : OutPoint → Bool) (P : OutPoint → Prop),
    (∀ o, avail o = true → P o) → okB avail l = true → BlockOK P l := by
  intro l
  induction l with
  | nil => intro _ _ _ _; trivial
  | cons t r ih =>
    intro avail P hP h
    simp only [okB, Bool.and_eq_true, decide_eq_true_eq, List.all_eq_true] at h
    refine ⟨h.1.1, fun o ho => hP o (h.1.2 o ho), ih _ _ ?_ h.2⟩
    intro o ho
    simp only [Bool.or_eq_true, Bool.and_eq_true, Bool.not_eq_true', decide_eq_true_eq] at ho
    rcases ho with ⟨h1, h2⟩ | h3
    · refine Or.inl ⟨hP o h1, ?_⟩
      intro hm
      simp [hm] at h2
    · exact Or.inr h3

/-- a body is valid in `s` when it passes the executable input-availability check against the confirmed set of `s`, no
    block is connected above the initial confirmed set, its ids are not ids of initial coins and pairwise different -/
theorem blockValid_of (s : State) (txs : List Tx) (hok : okB (fun o => (s.utxo.get? o).isSome) txs = true)
    (hu : s.undo = []) (h0 : ∀ t ∈ txs, ∀ v, uX.get? (t.id, v) = none)
    (hp : txs.Pairwise (fun a b => a.id ≠ b.id)) : BlockValid uX s txs := by
  refine ⟨okB_sound txs _ _ (fun _ h => h) hok, ?_, hp⟩
  intro t ht
  rintro (⟨v, c, h⟩ | ⟨e, he, _⟩)
  · rw [h0 t ht v] at h; cases h
  · rw [hu] at he; cases he

theorem validX : ValidRun KX uX (genesis {} uX 0) opsX := by
  have g := univX.genesis
  refine ⟨trivial, trivial, trivial, trivial, trivial, ?_, trivial, trivial, ?_, trivial, trivial, trivial, trivial,
    trivial, trivial, trivial, trivial, trivial, trivial, trivial, trivial⟩
  · show BlockValid uX (sAt 5) [tD]
    refine blockValid_of _ _ (by decide) (by decide) ?_ (by decide)
    intro t ht
    exact g t (hWX (.block 6 [tD] 0) (by simp [opsX]) t ht)
  · show BlockValid uX (sAt 8) [tF, tJ]
    refine blockValid_of _ _ (by decide) (by decide) ?_ (by decide)
    intro t ht
    exact g t (hWX (.block 6 [tF, tJ] 0) (by simp [opsX]) t ht)

theorem pkgsX : ∀ pk ∈ pksX, pkgOK KX (run KX (genesis {} uX 0) opsX) pk = true := by
  intro pk h
  simp only [pksX, List.mem_cons, List.not_mem_nil, or_false] at h
  subst h
  decide

theorem cleanX : (run KX (genesis {} uX 0) opsX).sortDirty = false := by decide

theorem wrapX : (run KX (genesis {} uX 0) opsX).rankWrap = false := by decide

theorem nowrapX : (run KX (genesis {} uX 0) opsX).sortDirty = false →
    (run KX (genesis {} uX 0) opsX).rankWrap = false := fun _ => wrapX

/-! ### what the history does (all by kernel evaluation of the model) -/

-- `sAt 20` is the final state
example : sAt 20 = run KX (genesis {} uX 0) opsX := rfl
-- before the first block the pool holds D ← E and F ← J; the block [D] removes D and clears E's MemInputs flag
example : (sAt 5).pool.map (·.1) = [15, 12, 11, 10] := by decide
example : (sAt 6).pool.map (·.1) = [11, 15, 12] ∧ (sAt 6).utxo.get? (10, 0) = some ⟨90, 6, false⟩ ∧
    (sAt 6).utxo.get? (2, 0) = none ∧ (sAt 6).undo.length = 1 ∧ (sAt 6).sortDirty = true := by decide
example : ((sAt 5).pool.get? 11).map (·.mem) = some [true] ∧ ((sAt 6).pool.get? 11).map (·.mem) = some [] := by decide
-- the undo puts D back (and its output is gone from the confirmed set again), E is flagged again
example : (sAt 7).pool.map (·.1) = [11, 10, 15, 12] ∧ (sAt 7).utxo.get? (10, 0) = none ∧
    (sAt 7).utxo.get? (2, 0) = some ⟨100, 1, false⟩ ∧ (sAt 7).undo = [] ∧
    ((sAt 7).pool.get? 11).map (·.mem) = some [true] := by decide
-- the rebuild, then the second block removes F and J from the pool and from the (non-dirty) list
example : (sAt 8).sorted = [12, 10, 11, 15] ∧ (sAt 8).sortDirty = false := by decide
example : (sAt 9).pool.map (·.1) = [11, 10] ∧ (sAt 9).sorted = [10, 11] ∧ (sAt 9).sortDirty = false ∧
    (sAt 9).utxo.get? (12, 0) = some ⟨40, 6, false⟩ ∧ (sAt 9).utxo.get? (12, 1) = none ∧
    (sAt 9).utxo.get? (15, 0) = some ⟨25, 6, false⟩ := by decide
-- A ← B ← C and G are inserted incrementally (children below their parents although B pays most)
example : (sAt 14).pool.map (·.1) = [13, 9, 8, 7, 11, 10] ∧ (sAt 14).sorted = [13, 10, 11, 7, 8, 9] ∧
    (sAt 14).sortDirty = false := by decide
-- expiry of D takes its pooled child E along
example : ((sAt 14).pool.get? 10).map (hasNoChildren KX (sAt 14)) = some false := by decide
example : (sAt 15).pool.map (·.1) = [13, 9, 8, 7] ∧ (sAt 15).sorted = [13, 7, 8, 9] := by decide
-- the eviction of G is not the silent no-op; evicting the parent A instead would be refused
example : (evict KX (sAt 16) [13]).isSome = true ∧ evict KX (sAt 16) [7] = none := by decide
example : (sAt 17).pool.map (·.1) = [9, 8, 7] ∧ (sAt 17).sortDirty = true := by decide
-- the final state: pool, the incrementally maintained list, the flags of the package members
example : (sAt 20).pool.map (·.1) = [14, 9, 8, 7] := by decide
example : (sAt 20).pool.map (fun p => (p.2.fee, p.2.mem)) = [(10, []), (5, [true, true]), (40, [true]), (1, [])] := by
  decide
example : (sAt 20).sorted = [14, 7, 8, 9] ∧ getSorted KX (sAt 20) = [14, 7, 8, 9] := by decide
example : (sAt 20).rej = [] ∧ (sAt 20).weightTotal = 1600 := by decide
-- the package A, B, C (46 / 1200) beats H (10 / 400) and is listed first: the merge differs from the sorted list
example : pkgOK KX (sAt 20) pkX = true := by decide
example : ((sAt 20).pool.get? 14).map (fun t => (takePkgs t pksX []).2) = some [7, 8, 9] := by decide
example : sortedRBF KX (sAt 20) pksX = [7, 8, 9, 14] := by decide
example : sortedRBF KX (sAt 20) [] = [14, 7, 8, 9] := by decide
example : (recsOf (sAt 20) (sortedRBF KX (sAt 20) pksX)).map (·.tx.id) = [7, 8, 9, 14] := by decide

end GocoinV.Props.C12Ex
