/-
  Proofs.C15SegwitInv — SegwitDecode then SegwitEncode: an accepted address is the (lower-cased) encoding of
  the decoded version and program.
-/
import GocoinV.Proofs.C15Segwit
import GocoinV.Proofs.C15Bech32Inv
namespace GocoinV.Bech32
open GocoinV.Addr (asciiLower)

/-- 5 → 8 without padding, then 8 → 5 with padding, gives back the 5-bit string (the padding rules of
    SegwitDecode — fewer than 5 left-over bits, all zero — are exactly what makes this direction lossless) -/
theorem convertBits_58_inv (d w : Bytes) (hd : ∀ x ∈ d, x.toNat < 2 ^ 5)
    (h : convertBits 8 d 5 false = some w) : convertBits 5 w 8 true = some d := by
  rw [convertBits_58] at h
  obtain ⟨hI, hb, hl⟩ := st58_spec d hd
  rw [VN_zero_eq_Vr] at hI
  generalize st58 d = s at *
  split at h; · simp at h
  rename_i hc
  simp only [Option.some.injEq] at h
  have hb5 : s.bits < 5 := by omega
  have hz : ((s.val <<< UInt32.ofNat (8 - s.bits)) &&& 255) = 0 := by
    apply Classical.byContradiction; intro hne; exact hc (Or.inl hne)
  generalize hN : Vr 5 d.reverse = vN at *
  have hz' : (vN * 2 ^ (8 - s.bits)) % 256 = 0 := by
    have := congrArg UInt32.toNat hz
    rw [UInt32.toNat_and, shl_toNat _ _ (by omega), hI.val] at this
    have e : (255 : UInt32).toNat = 2 ^ 8 - 1 := by decide
    rw [e, Nat.and_two_pow_sub_one_eq_mod] at this
    have h1 : (vN % 2 ^ 32 * 2 ^ (8 - s.bits)) % 2 ^ 32 = (vN * 2 ^ (8 - s.bits)) % 2 ^ 32 := by
      rw [Nat.mul_mod, Nat.mod_mod, ← Nat.mul_mod]
    rw [h1, Nat.mod_mod_of_dvd _ (Nat.pow_dvd_pow 2 (by omega))] at this
    simpa using this
  have hdig := hI.dig
  rw [h] at hdig hl
  have hval : vN = Vr 8 w.reverse * 2 ^ s.bits := by
    rw [hdig]
    have hb' : s.bits = 0 ∨ s.bits = 1 ∨ s.bits = 2 ∨ s.bits = 3 ∨ s.bits = 4 := by omega
    rcases hb' with e | e | e | e | e <;> rw [e] at hz' ⊢ <;> simp at hz' ⊢ <;> omega
  obtain ⟨d', hd'⟩ := convertBits_85_total w
  obtain ⟨hlt', p', hp', hl', hv'⟩ := convertBits_85_spec w d' hd'
  have hp : p' = s.bits := by omega
  have hlen : d'.length = d.length := by omega
  rw [hp, ← hval, ← hN] at hv'
  have := Vr_inj 5 d'.reverse d.reverse (by simpa using hlen)
    (fun x hx => hlt' x (by simpa using hx)) (fun x hx => hd x (by simpa using hx)) hv'
  have e : d' = d := by simpa using this
  rw [hd', e]

theorem decode_data_lt (s hrp data : Bytes) (m : Bool) (h : decode s = some (hrp, data, m)) :
    ∀ x ∈ data, x.toNat ≤ 31 := by
  have he := encode_decode s hrp data m h
  obtain ⟨_, _, _, _, hD, _⟩ := encode_some he
  exact dataFold_lt _ _ _ hD

/-- SegwitDecode → SegwitEncode: every accepted address is the lower-cased output of `SegwitEncode` on the
    decoded version and program (so two accepted strings with the same version and program differ at most
    in case). -/
theorem segwit_encode_decode (hrp s prog : Bytes) (v : Nat)
    (h : segwitDecode hrp s = .ok (v, prog)) : segwitEncode hrp v prog = some (s.map asciiLower) := by
  unfold segwitDecode at h
  split at h; · simp at h
  rename_i hrpA data m hdec
  split at h; · simp at h
  rename_i d0 rest
  split at h; · simp at h
  split at h; · simp at h
  rename_i hh
  split at h; · simp at h
  rename_i hv
  split at h; · simp at h
  rename_i h0
  split at h; · simp at h
  rename_i hm
  split at h; · simp at h
  rename_i w hw
  split at h; · simp at h
  split at h; · simp at h
  rename_i hl
  split at h; · simp at h
  rename_i hl0
  simp only [Except.ok.injEq, Prod.mk.injEq] at h
  obtain ⟨rfl, rfl⟩ := h
  have hhrp : hrp = hrpA := by simpa using hh
  subst hhrp
  have hlt := decode_data_lt s hrp _ m hdec
  have hrest : ∀ x ∈ rest, x.toNat < 2 ^ 5 := fun x hx => by
    have := hlt x (by simp [hx]); omega
  have hconv := convertBits_58_inv rest w hrest hw
  have henc := encode_decode s hrp _ m hdec
  have d0z : d0.toNat = 0 ↔ d0 = 0 := by
    constructor
    · intro e; exact UInt8.toNat_inj.mp (by simpa using e)
    · intro e; simp [e]
  have hd0 : UInt8.ofNat d0.toNat = d0 := by simp
  have hmv : decide (d0.toNat > 0) = m := by
    cases m with
    | true =>
      have : d0 ≠ 0 := fun e => h0 ⟨e, rfl⟩
      have : d0.toNat ≠ 0 := fun e => this (d0z.mp e)
      simp; omega
    | false =>
      have : d0 = 0 := by
        apply Classical.byContradiction; intro e; exact hm ⟨e, by simp⟩
      simp [this]
  unfold segwitEncode
  have c1 : ¬ (d0.toNat > 16) := hv
  have c2 : ¬ (d0.toNat = 0 ∧ w.length ≠ 20 ∧ w.length ≠ 32) := by
    intro hc; exact hl0 ⟨d0z.mp hc.1, hc.2⟩
  rw [if_neg c1, if_neg c2, if_neg hl, hconv]
  simp only [hd0, hmv]
  exact henc

end GocoinV.Bech32
