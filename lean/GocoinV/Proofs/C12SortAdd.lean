/-
  Proofs.C12SortAdd — AddToSort (and with it OneTxToSend.Add) keeps the invariant of the non-dirty sorted list.
  Core Lean only.
-/
import GocoinV.Proofs.C12SortIns
import GocoinV.Proofs.C12SortDel
namespace GocoinV.Mempool

/-! ### positions -/

theorem insertPos_le (s : State) (t : T2S) : ∀ (l : List Nat) (n : Nat), insertPos s t n l ≤ l.length := by
  intro l
  induction l with
  | nil => intro n; simp [insertPos]
  | cons x r ih =>
    intro n
    cases n with
    | zero =>
      unfold insertPos
      split
      · split
        · simp
        · have := ih 0; simp only [List.length_cons]; omega
      · have := ih 0; simp only [List.length_cons]; omega
    | succ n =>
      unfold insertPos
      have := ih n; simp only [List.length_cons]; omega

theorem insertPos_ge (s : State) (t : T2S) : ∀ (l : List Nat) (n : Nat), n ≤ l.length → n ≤ insertPos s t n l := by
  intro l
  induction l with
  | nil => intro n h; simp at h; subst h; simp [insertPos]
  | cons x r ih =>
    intro n h
    cases n with
    | zero => exact Nat.zero_le _
    | succ n =>
      unfold insertPos
      simp only [List.length_cons] at h
      have := ih n (by omega)
      omega

theorem posOf_split (b : Nat) : ∀ (l : List Nat) (k i : Nat), posOf b l k = some i →
    ∃ l1 l2, l = l1 ++ b :: l2 ∧ i = k + l1.length := by
  intro l
  induction l with
  | nil => intro k i h; simp [posOf] at h
  | cons x r ih =>
    intro k i h
    unfold posOf at h
    split at h
    · rename_i e
      simp only [Option.some.injEq] at h
      exact ⟨[], r, by rw [e]; rfl, by simp [h]⟩
    · obtain ⟨l1, l2, h1, h2⟩ := ih (k + 1) i h
      exact ⟨x :: l1, l2, by rw [h1]; rfl, by simp only [List.length_cons]; omega⟩

theorem posOf_of_mem (b : Nat) : ∀ (l : List Nat) (k : Nat), b ∈ l → ∃ i, posOf b l k = some i := by
  intro l
  induction l with
  | nil => intro k h; simp at h
  | cons x r ih =>
    intro k h
    unfold posOf
    split
    · exact ⟨k, rfl⟩
    · rename_i hne
      rcases List.mem_cons.mp h with e | h
      · exact absurd e.symm hne
      · exact ih (k + 1) h

/-- one step of findWorstParent -/
def wpStep (s : State) (acc : Option Nat) (p : Nat) : Option Nat :=
  match acc with
  | none => some p
  | some w => if rankOf s p > rankOf s w then some p else some w

theorem worstParent_eq (K : Keys) (s : State) (t : T2S) : worstParent K s t = (memParents K t).foldl (wpStep s) none := rfl

/-- findWorstParent returns a flagged parent of maximal SortRank -/
theorem worstParent_fold (s : State) : ∀ (l : List Nat) (acc : Option Nat),
    (l.foldl (wpStep s) acc = none → acc = none ∧ l = []) ∧
    (∀ w, l.foldl (wpStep s) acc = some w → (w ∈ l ∨ acc = some w) ∧ (∀ p ∈ l, rankOf s p ≤ rankOf s w) ∧
       ∀ a, acc = some a → rankOf s a ≤ rankOf s w) := by
  intro l
  induction l with
  | nil =>
    intro acc
    refine ⟨fun h => ⟨h, rfl⟩, ?_⟩
    intro w h
    simp only [List.foldl_nil] at h
    exact ⟨Or.inr h, by simp, by intro a ha; rw [h] at ha; cases ha; exact Nat.le_refl _⟩
  | cons x r ih =>
    intro acc
    simp only [List.foldl_cons]
    have hstep : ∃ y, wpStep s acc x = some y ∧ (y = x ∨ acc = some y) ∧ rankOf s x ≤ rankOf s y ∧
        ∀ a, acc = some a → rankOf s a ≤ rankOf s y := by
      cases acc with
      | none => exact ⟨x, rfl, Or.inl rfl, Nat.le_refl _, by intro a ha; cases ha⟩
      | some a =>
        unfold wpStep
        dsimp only
        by_cases hgt : rankOf s x > rankOf s a
        · rw [if_pos hgt]
          exact ⟨x, rfl, Or.inl rfl, Nat.le_refl _, by intro a' ha'; cases ha'; omega⟩
        · rw [if_neg hgt]
          exact ⟨a, rfl, Or.inr rfl, by omega, by intro a' ha'; cases ha'; exact Nat.le_refl _⟩
    obtain ⟨y, hy, hy1, hy2, hy3⟩ := hstep
    rw [hy]
    obtain ⟨i1, i2⟩ := ih (some y)
    refine ⟨fun h => by have := (i1 h).1; simp at this, ?_⟩
    intro w hw
    obtain ⟨h1, h2, h3⟩ := i2 w hw
    have hyw := h3 y rfl
    refine ⟨?_, ?_, ?_⟩
    · rcases h1 with h1 | h1
      · exact Or.inl (List.mem_cons_of_mem _ h1)
      · cases h1
        rcases hy1 with e | e
        · rw [e]; exact Or.inl List.mem_cons_self
        · exact Or.inr e
    · intro p hp
      rcases List.mem_cons.mp hp with rfl | hp
      · omega
      · exact h2 p hp
    · intro a ha
      have := hy3 a ha
      omega

theorem worstParent_spec (K : Keys) (s : State) (t : T2S) :
    (worstParent K s t = none ∧ memParents K t = []) ∨
    ∃ w, worstParent K s t = some w ∧ w ∈ memParents K t ∧ ∀ p ∈ memParents K t, rankOf s p ≤ rankOf s w := by
  obtain ⟨i1, i2⟩ := worstParent_fold s (memParents K t) none
  rw [worstParent_eq]
  cases hres : (memParents K t).foldl (wpStep s) none with
  | none => exact Or.inl ⟨rfl, (i1 hres).2⟩
  | some w =>
    obtain ⟨h1, h2, _⟩ := i2 w hres
    refine Or.inr ⟨w, rfl, ?_, h2⟩
    rcases h1 with h1 | h1
    · exact h1
    · cases h1

/-! ### fixIndex leaves everything but the ranks alone -/

theorem reindexAll_wrap (s : State) (h : (reindexAll s).rankWrap = false) : s.rankWrap = false := by
  unfold reindexAll at h
  cases hw : s.rankWrap with
  | false => rfl
  | true => simp [hw] at h

theorem reindexDown_wrap (s : State) (rb : Nat) (below : List Nat) (h : (reindexDown s rb below).rankWrap = false) :
    s.rankWrap = false := by
  unfold reindexDown at h
  dsimp only at h
  split at h
  · cases hw : s.rankWrap with
    | false => rfl
    | true => simp [hw] at h
  · exact reindexAll_wrap s h

theorem fixIndex_wrap (s : State) (b : Nat) (bt wr : Option Nat) (below : List Nat)
    (h : (fixIndex s b bt wr below).rankWrap = false) : s.rankWrap = false := by
  cases hw : s.rankWrap with
  | false => rfl
  | true =>
    exfalso
    cases bt <;> cases wr <;> simp only [fixIndex] at h
    · simp [hw] at h
    · split at h
      · simp [hw] at h
      · split at h
        · have := reindexAll_wrap _ h
          simp [hw] at this
        · simp [hw] at h
    · simp [hw] at h
    · split at h
      · simp [hw] at h
      · have := reindexDown_wrap _ _ _ h
        simp [hw] at this

theorem reindexDown_dirty (s : State) (rb : Nat) (below : List Nat) :
    (reindexDown s rb below).sortDirty = s.sortDirty := by
  unfold reindexDown
  dsimp only
  split <;> rfl

theorem fixIndex_dirty (s : State) (b : Nat) (bt wr : Option Nat) (below : List Nat) :
    (fixIndex s b bt wr below).sortDirty = s.sortDirty := by
  cases bt <;> cases wr <;> simp only [fixIndex]
  · split
    · rfl
    · split <;> rfl
  · split
    · rfl
    · exact reindexDown_dirty s _ _

/-! ### AddToSort -/

/-- what AddToSort needs of the state it is called in (the new record is already in the map) -/
structure AddPre (K : Keys) (s1 : State) (b : Nat) : Prop where
  asc : (s1.sorted.map (rankOf s1)).Pairwise (· < ·)
  bnd : ∀ x ∈ s1.sorted, rankOf s1 x < U64
  sync : ∀ x, x ∈ s1.sorted ↔ (x ≠ b ∧ (s1.pool.get? x).isSome = true)
  pf : s1.sorted.Pairwise (NoLaterParent K s1)
  irr : ∀ x tx, s1.pool.get? x = some tx → x ∉ memParents K tx

theorem nodup_of_asc (f : Nat → Nat) : ∀ (l : List Nat), (l.map f).Pairwise (· < ·) → l.Nodup := by
  intro l
  induction l with
  | nil => intro _; exact List.nodup_nil
  | cons x r ih =>
    intro h
    simp only [List.map_cons, List.pairwise_cons] at h
    refine List.nodup_cons.mpr ⟨?_, ih h.2⟩
    intro hx
    have := h.1 (f x) (List.mem_map.mpr ⟨x, hx, rfl⟩)
    omega

/-- where AddToSort starts walking down: below the worst parent -/
def insStart (K : Keys) (s : State) (t : T2S) : Nat :=
  match worstParent K s t with
  | none => 0
  | some w => match posOf w s.sorted 0 with
    | some i => i + 1
    | none => 0

def insJ (K : Keys) (s : State) (t : T2S) : Nat := insertPos s t (insStart K s t) s.sorted

def insState (s : State) (b j : Nat) : State :=
  { s with sorted := s.sorted.take j ++ b :: s.sorted.drop j, ranks := s.ranks.del b }

theorem addToSort_main (K : Keys) (s : State) (b : Nat) (t : T2S) (h1 : ¬ s.sortDirty = true) (h2 : ¬ s.sortDisabled = true)
    (h3 : ¬ s.sorted.isEmpty = true) (h4 : ¬ (!((memParents K t).all fun p => s.pool.has p)) = true) :
    addToSort K s b t = fixIndex (insState s b (insJ K s t)) b (s.sorted.take (insJ K s t)).getLast?
      (s.sorted.drop (insJ K s t)).head? (b :: s.sorted.drop (insJ K s t)) := by
  unfold addToSort
  rw [if_neg h1, if_neg h2, if_neg h3, if_neg h4]
  rfl

theorem addToSort_sort (K : Keys) (s1 : State) (b : Nat) (t : T2S)
    (hrec : s1.pool.get? b = some t)
    (hpre : s1.sortDirty = false → s1.rankWrap = false → AddPre K s1 b)
    (hpar : ∀ p ∈ memParents K t, p ≠ b ∧ (s1.pool.get? p).isSome = true)
    (hnc : ∀ c tc, s1.pool.get? c = some tc → b ∉ memParents K tc) :
    SortInv K (addToSort K s1 b t) := by
  intro hd hw
  by_cases h1 : s1.sortDirty = true
  · unfold addToSort at hd; rw [if_pos h1] at hd; rw [h1] at hd; cases hd
  have hd1 : s1.sortDirty = false := by simpa using h1
  by_cases h2 : s1.sortDisabled = true
  · unfold addToSort at hd; rw [if_neg h1, if_pos h2] at hd; cases hd
  by_cases h3 : s1.sorted.isEmpty = true
  · unfold addToSort at hw ⊢
    rw [if_neg h1, if_neg h2, if_pos h3] at hw ⊢
    have P := hpre hd1 hw
    have hemp : s1.sorted = [] := by simpa using h3
    refine ⟨?_, ?_, ?_, ?_, P.irr⟩
    · simp
    · intro x hx
      simp only [List.mem_singleton] at hx
      subst hx
      show G (s1.ranks.set x SORT_START) x < U64
      rw [G_set_self]; unfold SORT_START U64; omega
    · intro x
      simp only [List.mem_singleton]
      constructor
      · intro e; rw [e, hrec]; rfl
      · intro hx
        apply Classical.byContradiction
        intro hne
        have := (P.sync x).mpr ⟨hne, hx⟩
        rw [hemp] at this; cases this
    · simp
  by_cases h4 : (!((memParents K t).all fun p => s1.pool.has p)) = true
  · exfalso
    simp only [Bool.not_eq_true', List.all_eq_false] at h4
    obtain ⟨p, hp, hh⟩ := h4
    exact hh (hpar p hp).2
  rw [addToSort_main K s1 b t h1 h2 h3 h4] at hd hw ⊢
  generalize hj : insJ K s1 t = j at hd hw ⊢
  generalize hs' : insState s1 b j = s' at hd hw ⊢
  have hstart : insStart K s1 t = insStart K s1 t := rfl
  have hw1 : s1.rankWrap = false := by
    have := fixIndex_wrap _ _ _ _ _ hw
    rw [← hs'] at this; exact this
  have P := hpre hd1 hw1
  have hbl : b ∉ s1.sorted := fun h => ((P.sync b).mp h).1 rfl
  have hndl : s1.sorted.Nodup := nodup_of_asc _ _ P.asc
  have htd : s1.sorted.take j ++ s1.sorted.drop j = s1.sorted := List.take_append_drop j s1.sorted
  have hbpre : b ∉ s1.sorted.take j := fun h => hbl (List.mem_of_mem_take h)
  have hbpost : b ∉ s1.sorted.drop j := fun h => hbl (List.mem_of_mem_drop h)
  have hnd : (s1.sorted.take j ++ b :: s1.sorted.drop j).Nodup := by
    have h0 : (s1.sorted.take j ++ s1.sorted.drop j).Nodup := by rw [htd]; exact hndl
    rw [List.nodup_append] at h0 ⊢
    refine ⟨h0.1, List.nodup_cons.mpr ⟨hbpost, h0.2.1⟩, ?_⟩
    intro x hx y hy
    rcases List.mem_cons.mp hy with rfl | hy
    · intro e; rw [e] at hx; exact hbpre hx
    · exact h0.2.2 x hx y hy
  have hranks : s'.ranks = s1.ranks.del b := by rw [← hs']; rfl
  have hsorted : s'.sorted = s1.sorted.take j ++ b :: s1.sorted.drop j := by rw [← hs']; rfl
  have hmapl : (s1.sorted.take j ++ s1.sorted.drop j).map (G s'.ranks) = s1.sorted.map (rankOf s1) := by
    rw [htd, hranks, map_G_del _ _ _ hbl]; rfl
  have F := fixIndex_asc s' b (s1.sorted.take j) (s1.sorted.drop j) hsorted (by rw [hranks]; exact G_del_self _ _) hnd
    (by rw [hmapl]; exact P.asc)
    (by
      intro x hx
      rw [htd] at hx
      rw [hranks, G_del_other _ _ _ (fun e => by rw [e] at hx; exact hbl hx)]
      exact P.bnd x hx)
    (by rw [htd]; intro e; rw [e] at h3; exact h3 rfl) hw
  obtain ⟨F1, F2, F3⟩ := F
  have SO := fixIndex_sortOnly s' b (s1.sorted.take j).getLast? (s1.sorted.drop j).head? (b :: s1.sorted.drop j)
  have hpool : (fixIndex s' b (s1.sorted.take j).getLast? (s1.sorted.drop j).head? (b :: s1.sorted.drop j)).pool = s1.pool := by
    rw [SO.pool, ← hs']; rfl
  have hmem : ∀ x, x ∈ s1.sorted.take j ++ b :: s1.sorted.drop j ↔ (x ∈ s1.sorted ∨ x = b) := by
    intro x
    rw [List.mem_append, List.mem_cons]
    constructor
    · rintro (h | h | h)
      · exact Or.inl (List.mem_of_mem_take h)
      · exact Or.inr h
      · exact Or.inl (List.mem_of_mem_drop h)
    · rintro (h | h)
      · rw [← htd, List.mem_append] at h
        rcases h with h | h
        · exact Or.inl h
        · exact Or.inr (Or.inr h)
      · exact Or.inr (Or.inl h)
  have hR : NoLaterParent K (fixIndex s' b (s1.sorted.take j).getLast? (s1.sorted.drop j).head? (b :: s1.sorted.drop j)) =
      NoLaterParent K s1 := by
    funext x y; unfold NoLaterParent; rw [hpool]
  refine ⟨?_, ?_, ?_, ?_, ?_⟩
  · rw [F1]; exact F2
  · rw [F1]; exact F3
  · intro x
    rw [F1, hpool, hmem, P.sync x]
    constructor
    · rintro (⟨_, h⟩ | h)
      · exact h
      · rw [h, hrec]; rfl
    · intro h
      by_cases e : x = b
      · exact Or.inr e
      · exact Or.inl ⟨e, h⟩
  · rw [F1, hR]
    have hpf0 : (s1.sorted.take j ++ s1.sorted.drop j).Pairwise (NoLaterParent K s1) := by rw [htd]; exact P.pf
    rw [List.pairwise_append] at hpf0 ⊢
    obtain ⟨p1, p2, p3⟩ := hpf0
    -- no flagged parent of the new record stands below the insertion point
    have below : ∀ y ∈ s1.sorted.drop j, y ∉ memParents K t := by
      intro y hy hyp
      rcases worstParent_spec K s1 t with ⟨_, hnil⟩ | ⟨w, hwp, hwm, hmax⟩
      · rw [hnil] at hyp; cases hyp
      · have hwl : w ∈ s1.sorted := (P.sync w).mpr (hpar w hwm)
        obtain ⟨i, hi⟩ := posOf_of_mem w s1.sorted 0 hwl
        obtain ⟨l1, l2, hl, hi2⟩ := posOf_split w s1.sorted 0 i hi
        have hst : insStart K s1 t = l1.length + 1 := by
          unfold insStart; rw [hwp]; dsimp only; rw [hi]; dsimp only; omega
        have hlen : s1.sorted.length = l1.length + 1 + l2.length := by
          rw [hl]; simp; omega
        have hjge : l1.length + 1 ≤ j := by
          rw [← hj]; unfold insJ; rw [hst]
          exact insertPos_ge s1 t s1.sorted _ (by omega)
        -- y is in l2
        have hy2 : y ∈ l2 := by
          have hd2 : s1.sorted.drop (l1.length + 1) = l2 := by
            rw [hl]
            have : l1 ++ w :: l2 = (l1 ++ [w]) ++ l2 := by simp
            rw [this, List.drop_left' (by simp)]
          have : s1.sorted.drop j = (s1.sorted.drop (l1.length + 1)).drop (j - (l1.length + 1)) := by
            rw [List.drop_drop]; congr 1; omega
          rw [this, hd2] at hy
          exact List.mem_of_mem_drop hy
        have hasc := P.asc
        rw [hl, List.map_append, List.map_cons, List.pairwise_append] at hasc
        have hlt := (List.pairwise_cons.mp hasc.2.1).1 _ (List.mem_map.mpr ⟨y, hy2, rfl⟩)
        have := hmax y hyp
        omega
    refine ⟨p1, ?_, ?_⟩
    · refine List.Pairwise.cons ?_ p2
      intro y hy t' ht'
      rw [hrec] at ht'; cases ht'
      exact below y hy
    · intro x hx y hy
      rcases List.mem_cons.mp hy with rfl | hy
      · intro tx htx; exact hnc x tx htx
      · exact p3 x hx y hy
  · intro x tx hx
    rw [hpool] at hx
    exact P.irr x tx hx

/-- OneTxToSend.Add of a record under a fresh key whose flagged parents are pooled and which is nobody's flagged parent -/
theorem addT2S_sort (K : Keys) (s : State) (t : T2S) (hs : SortInv K s)
    (hfresh : s.pool.get? (K.bidx t.tx.id) = none)
    (hpar : ∀ p ∈ memParents K t, (s.pool.get? p).isSome = true)
    (hnc : ∀ c tc, s.pool.get? c = some tc → K.bidx t.tx.id ∉ memParents K tc) :
    SortInv K (addT2S K s t) := by
  unfold addT2S
  dsimp only
  generalize hs1 : ({ s with spent := t.tx.ins.foldl (fun (m : AList Nat Nat) i => m.set (K.uidx i.prev i.vout) (K.bidx t.tx.id)) s.spent,
                             pool := s.pool.set (K.bidx t.tx.id) t,
                             weightTotal := s.weightTotal + t.tx.weight } : State) = s1
  have hp1 : s1.pool = s.pool.set (K.bidx t.tx.id) t := by rw [← hs1]
  have hget : ∀ x, x ≠ K.bidx t.tx.id → s1.pool.get? x = s.pool.get? x := by
    intro x hx; rw [hp1, AList.get?_set_other _ _ _ _ hx]
  have hself : s1.pool.get? (K.bidx t.tx.id) = some t := by rw [hp1, AList.get?_set_self]
  have hparne : ∀ p ∈ memParents K t, p ≠ K.bidx t.tx.id := by
    intro p hp e
    have := hpar p hp
    rw [e, hfresh] at this; cases this
  have hnoself : K.bidx t.tx.id ∉ memParents K t := fun h => hparne _ h rfl
  apply addToSort_sort K s1 _ t hself
  · intro hd hw
    have P := hs (by rw [← hs1] at hd; exact hd) (by rw [← hs1] at hw; exact hw)
    have e1 : s1.sorted = s.sorted := by rw [← hs1]
    have e2 : rankOf s1 = rankOf s := by funext x; unfold rankOf; rw [← hs1]
    have hmemne : ∀ x ∈ s.sorted, x ≠ K.bidx t.tx.id := by
      intro x hx e
      have := (P.sync x).mp hx
      rw [e, hfresh] at this; cases this
    refine ⟨by rw [e1, e2]; exact P.asc, by rw [e1, e2]; exact P.bnd, ?_, ?_, ?_⟩
    · intro x
      rw [e1, P.sync x]
      constructor
      · intro h
        have hne : x ≠ K.bidx t.tx.id := by intro e; rw [e, hfresh] at h; cases h
        exact ⟨hne, by rw [hget x hne]; exact h⟩
      · rintro ⟨hne, h⟩; rw [hget x hne] at h; exact h
    · rw [e1]
      refine List.Pairwise.imp_of_mem ?_ P.pf
      intro x y hx _ h tx htx
      rw [hget x (hmemne x hx)] at htx
      exact h tx htx
    · intro x tx hx
      by_cases e : x = K.bidx t.tx.id
      · rw [e, hself] at hx; cases hx; rw [e]; exact hnoself
      · rw [hget x e] at hx; exact P.irr x tx hx
  · intro p hp
    refine ⟨hparne p hp, ?_⟩
    rw [hget p (hparne p hp)]; exact hpar p hp
  · intro c tc hc
    by_cases e : c = K.bidx t.tx.id
    · rw [e, hself] at hc; cases hc; exact hnoself
    · rw [hget c e] at hc; exact hnc c tc hc

end GocoinV.Mempool
