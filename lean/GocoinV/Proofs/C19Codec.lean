/-
  Proofs.C19Codec — serialisation round trips of the qdb index files: one 24-byte record, the index log
  (`loadlog`'s parser on what `sync` appends) and the index snapshot (`loaddat`'s parser on what
  `writedatfile` writes, including the bufio.Writer in between).
-/
import GocoinV.Model.Qdb
namespace GocoinV.Proofs.C19
open GocoinV GocoinV.Qdb

variable {eg : Bool}

/-- the record as it comes back from disk: no data in memory -/
def strip (r : Rec) : Rec := { r with data := none }

/-- all fields fit their on-disk width -/
def RecFits (k : Key) (r : Rec) : Prop :=
  k < 2^64 ∧ r.pos < 2^32 ∧ r.len < 2^32 ∧ r.seq < 2^32 ∧ r.flags < 2^32

theorem leVal_le32 (n : Nat) (h : n < 2^32) : leVal (le32 n) = n := by
  unfold le32; rw [leVal_leBytes]; exact Nat.mod_eq_of_lt (by simpa using h)

theorem leVal_le64 (n : Nat) (h : n < 2^64) : leVal (le64 n) = n := by
  unfold le64; rw [leVal_leBytes]; exact Nat.mod_eq_of_lt (by simpa using h)

@[simp] theorem le32_length (n : Nat) : (le32 n).length = 4 := by simp [le32]
@[simp] theorem le64_length (n : Nat) : (le64 n).length = 8 := by simp [le64]
@[simp] theorem encRec_length (k : Key) (r : Rec) : (encRec k r).length = 24 := by simp [encRec]
@[simp] theorem encDel_length (k : Key) : (encDel k).length = 12 := by simp [encDel]

theorem decRec_encRec (k : Key) (r : Rec) (rest : Bytes) (h : RecFits k r) :
    decRec (encRec k r ++ rest) = (k, strip r) := by
  obtain ⟨hk, hp, hl, hs, hf⟩ := h
  have e : encRec k r ++ rest = le64 k ++ (le32 r.pos ++ (le32 r.len ++ (le32 r.seq ++ (le32 r.flags ++ rest)))) := by
    simp [encRec, List.append_assoc]
  rw [e]
  unfold decRec strip
  have t8 : (le64 k ++ (le32 r.pos ++ (le32 r.len ++ (le32 r.seq ++ (le32 r.flags ++ rest))))).take 8 = le64 k :=
    List.take_left' (by simp)
  have d8 : (le64 k ++ (le32 r.pos ++ (le32 r.len ++ (le32 r.seq ++ (le32 r.flags ++ rest))))).drop 8 =
      le32 r.pos ++ (le32 r.len ++ (le32 r.seq ++ (le32 r.flags ++ rest))) := List.drop_left' (by simp)
  have d12 : (le64 k ++ (le32 r.pos ++ (le32 r.len ++ (le32 r.seq ++ (le32 r.flags ++ rest))))).drop 12 =
      le32 r.len ++ (le32 r.seq ++ (le32 r.flags ++ rest)) := by
    rw [← List.append_assoc]; exact List.drop_left' (by simp)
  have d16 : (le64 k ++ (le32 r.pos ++ (le32 r.len ++ (le32 r.seq ++ (le32 r.flags ++ rest))))).drop 16 =
      le32 r.seq ++ (le32 r.flags ++ rest) := by
    rw [← List.append_assoc, ← List.append_assoc]; exact List.drop_left' (by simp)
  have d20 : (le64 k ++ (le32 r.pos ++ (le32 r.len ++ (le32 r.seq ++ (le32 r.flags ++ rest))))).drop 20 =
      le32 r.flags ++ rest := by
    rw [← List.append_assoc, ← List.append_assoc, ← List.append_assoc]; exact List.drop_left' (by simp)
  rw [t8, d8, d12, d16, d20]
  have t4 : ∀ (a : Nat) (x : Bytes), (le32 a ++ x).take 4 = le32 a := fun a x => List.take_left' (by simp)
  simp only [t4, leVal_le32 _ hp, leVal_le32 _ hl, leVal_le32 _ hs, leVal_le32 _ hf, leVal_le64 _ hk]

/-! ### the index log -/

def encEntry : LogEntry → Bytes
  | .put k r => encRec k r
  | .del k => encDel k

/-- an entry `sync` can write: fields fit, and a put never has datpos 0 (0 is the delete marker) -/
def EntryFits : LogEntry → Prop
  | .put k r => RecFits k r ∧ r.pos ≠ 0
  | .del k => k < 2^64

def stripE : LogEntry → LogEntry
  | .put k r => .put k (strip r)
  | .del k => .del k

def encLog (es : List LogEntry) : Bytes := es.flatMap encEntry

theorem encEntry_length_ge (e : LogEntry) : 12 ≤ (encEntry e).length := by
  cases e <;> simp [encEntry]

theorem encLog_length_ge (es : List LogEntry) : es.length ≤ (encLog es).length := by
  induction es with
  | nil => simp [encLog]
  | cons e t ih =>
    have := encEntry_length_ge e
    simp only [encLog, List.flatMap_cons, List.length_append, List.length_cons] at ih ⊢
    omega

theorem parseLog_encLog (es : List LogEntry) (h : ∀ e ∈ es, EntryFits e) (fuel : Nat) (hf : es.length ≤ fuel) :
    parseLog fuel (encLog es) = es.map stripE := by
  induction es generalizing fuel with
  | nil =>
    cases fuel with
    | zero => rfl
    | succ n => simp [parseLog, encLog]
  | cons e t ih =>
    cases fuel with
    | zero => simp at hf
    | succ n =>
      have ht := ih (fun x hx => h x (List.mem_cons_of_mem _ hx)) n (by simpa using hf)
      have he := h e List.mem_cons_self
      have hcons : encLog (e :: t) = encEntry e ++ encLog t := by simp [encLog]
      rw [hcons]
      cases e with
      | put k r =>
        obtain ⟨hfit, hpos⟩ := he
        have hdec := decRec_encRec k r (encLog t) hfit
        obtain ⟨hk, hp, _, _, _⟩ := hfit
        have e1 : encEntry (.put k r) ++ encLog t = le64 k ++ (le32 r.pos ++ (le32 r.len ++ le32 r.seq ++ le32 r.flags ++ encLog t)) := by
          simp [encEntry, encRec, List.append_assoc]
        have t8 : (encEntry (.put k r) ++ encLog t).take 8 = le64 k := by rw [e1]; exact List.take_left' (by simp)
        have t12 : ((encEntry (.put k r) ++ encLog t).drop 8).take 4 = le32 r.pos := by
          rw [e1, List.drop_left' (by simp)]; exact List.take_left' (by simp)
        have hlen : ¬ (encEntry (.put k r) ++ encLog t).length < 12 := by simp [encEntry]; omega
        have hlen2 : ¬ (encEntry (.put k r) ++ encLog t).length < 24 := by simp [encEntry]
        have hd : (encEntry (.put k r) ++ encLog t).drop 24 = encLog t := List.drop_left' (by simp [encEntry])
        unfold parseLog
        simp only [hlen, ↓reduceIte, t8, t12, leVal_le32 _ hp, leVal_le64 _ hk, hpos, ne_eq, not_false_eq_true, hlen2, hd, ht]
        have : (decRec (encEntry (.put k r) ++ encLog t)).2 = strip r := by
          show (decRec (encRec k r ++ encLog t)).2 = strip r
          rw [hdec]
        rw [this]; rfl
      | del k =>
        have hk : k < 2^64 := he
        have e1 : encEntry (.del k) ++ encLog t = le64 k ++ ([0, 0, 0, 0] ++ encLog t) := by
          simp [encEntry, encDel, List.append_assoc]
        have t8 : (encEntry (.del k) ++ encLog t).take 8 = le64 k := by rw [e1]; exact List.take_left' (by simp)
        have t12 : ((encEntry (.del k) ++ encLog t).drop 8).take 4 = [0, 0, 0, 0] := by
          rw [e1, List.drop_left' (by simp)]; rfl
        have hlen : ¬ (encEntry (.del k) ++ encLog t).length < 12 := by simp [encEntry]
        have hd : (encEntry (.del k) ++ encLog t).drop 12 = encLog t := List.drop_left' (by simp [encEntry])
        unfold parseLog
        simp only [hlen, ↓reduceIte, t8, t12, leVal_le64 _ hk, hd, ht]
        have z : leVal [0, 0, 0, 0] = 0 := by decide
        simp [z, stripE]

/-! ### the index snapshot -/

def fini : Bytes := [0x46, 0x49, 0x4e, 0x49]
def ffff : Bytes := [0xff, 0xff, 0xff, 0xff]

def snapBody (recs : List (Key × Rec)) : Bytes := recs.flatMap fun kr => encRec kr.1 kr.2

/-- the complete content of an index snapshot file -/
def snapBytes (ver : Nat) (recs : List (Key × Rec)) : Bytes :=
  le32 ver ++ (snapBody recs ++ (ffff ++ (le32 ver ++ fini)))

@[simp] theorem snapBody_length (recs : List (Key × Rec)) : (snapBody recs).length = 24 * recs.length := by
  induction recs with
  | nil => rfl
  | cons kr t ih => simp only [snapBody, List.flatMap_cons, List.length_append, encRec_length, List.length_cons] at ih ⊢; omega

theorem snapBytes_length (ver : Nat) (recs : List (Key × Rec)) :
    (snapBytes ver recs).length = 16 + 24 * recs.length := by
  simp [snapBytes, fini, ffff]; omega

theorem idxWrites_flatten (recs : List (Key × Rec)) (ver : Nat) :
    (idxWrites recs ver).flatten = snapBytes ver recs := by
  have hb : (recs.flatMap fun kr => [le64 kr.1, le32 kr.2.pos, le32 kr.2.len, le32 kr.2.seq, le32 kr.2.flags]).flatten
      = snapBody recs := by
    induction recs with
    | nil => rfl
    | cons kr t ih =>
      simp only [List.flatMap_cons, List.flatten_append, ih, snapBody]
      simp [encRec, List.append_assoc]
  unfold idxWrites snapBytes
  simp only [List.flatten_append, hb]
  simp [fini, ffff, List.append_assoc]

theorem checkIdxFile_snapBytes (ver : Nat) (recs : List (Key × Rec)) (hv : ver < 2^32) :
    checkIdxFile (some (snapBytes ver recs)) = some (ver, snapBytes ver recs) := by
  have hlen := snapBytes_length ver recs
  have h4 : (snapBytes ver recs).take 4 = le32 ver := List.take_left' (by simp)
  have hF : (snapBytes ver recs).drop ((snapBytes ver recs).length - 4) = fini := by
    have : snapBytes ver recs = (le32 ver ++ snapBody recs ++ ffff ++ le32 ver) ++ fini := by
      simp [snapBytes, List.append_assoc]
    rw [this]
    exact List.drop_left' (by simp [fini, ffff]; omega)
  have hM : ((snapBytes ver recs).drop ((snapBytes ver recs).length - 12)).take 4 = ffff := by
    have : snapBytes ver recs = (le32 ver ++ snapBody recs) ++ (ffff ++ (le32 ver ++ fini)) := by
      simp [snapBytes, List.append_assoc]
    rw [this, List.drop_left' (by simp [fini, ffff]; omega)]
    rfl
  have hS : ((snapBytes ver recs).drop ((snapBytes ver recs).length - 8)).take 4 = le32 ver := by
    have : snapBytes ver recs = (le32 ver ++ snapBody recs ++ ffff) ++ (le32 ver ++ fini) := by
      simp [snapBytes, List.append_assoc]
    rw [this, List.drop_left' (by simp [fini, ffff]; omega)]
    exact List.take_left' (by simp)
  unfold checkIdxFile
  have hl : ¬ (snapBytes ver recs).length < 16 := by omega
  have hfz : leVal ffff = 0xFFFFFFFF := by decide
  simp only [hl, ↓reduceIte, hF, hM, hS, h4, hfz, fini, ne_eq, not_true_eq_false, leVal_le32 _ hv]

theorem snapRecs_snapBody (recs : List (Key × Rec)) (tail : Bytes) (h : ∀ kr ∈ recs, RecFits kr.1 kr.2) :
    snapRecs recs.length (snapBody recs ++ tail) = recs.map fun kr => (kr.1, strip kr.2) := by
  induction recs with
  | nil => rfl
  | cons kr t ih =>
    have e : snapBody (kr :: t) ++ tail = encRec kr.1 kr.2 ++ (snapBody t ++ tail) := by
      simp [snapBody, List.append_assoc]
    rw [e]
    simp only [List.length_cons, snapRecs, List.map_cons]
    rw [decRec_encRec _ _ _ (h kr List.mem_cons_self), List.drop_left' (by simp),
      ih (fun x hx => h x (List.mem_cons_of_mem _ hx))]

theorem snapshotRecs_snapBytes (ver : Nat) (recs : List (Key × Rec)) (h : ∀ kr ∈ recs, RecFits kr.1 kr.2) :
    snapshotRecs (snapBytes ver recs) = recs.map fun kr => (kr.1, strip kr.2) := by
  unfold snapshotRecs
  rw [snapBytes_length]
  have : (16 + 24 * recs.length - 16) / 24 = recs.length := by omega
  rw [this]
  have : (snapBytes ver recs).drop 4 = snapBody recs ++ (ffff ++ (le32 ver ++ fini)) := List.drop_left' (by simp)
  rw [this]
  exact snapRecs_snapBody recs _ h

end GocoinV.Proofs.C19
