/-
  Proofs.C16Main — the session-level refinement theorem of the block store, and its instance with the
  snappy model as codec.
-/
import GocoinV.Proofs.C16NoLoss
import GocoinV.Proofs.C16SnappyRT
namespace GocoinV.BlockDB

/-- one session on a fresh directory, ANY options (retention / backup included): every reply satisfies the
    retention-aware claim of the durable-map specification -/
theorem session_refinesR (env : Env) (ok : EnvOK env) (o : Opts) (ops : List Op)
    (hops : ∀ op ∈ ops, op.isReopen = false ∧ op.sizeOK) :
    AllHold (specRunR env init {} (.reopen o :: ops)) (run env init (.reopen o :: ops)).2 := by
  have h0 := reopen_fresh_ref env o
  have h1 := run_ref env ok ops (reopen env {} o).1 { isOpen := true, m := [] } h0 hops
  unfold run specRunR
  exact ⟨trivial, h1⟩

/-- one session on a fresh directory, retention off: every reply satisfies the (unconditional) claim -/
theorem session_refines (env : Env) (ok : EnvOK env) (o : Opts) (hk : o.keep = 0) (ops : List Op)
    (hops : ∀ op ∈ ops, op.isReopen = false ∧ op.sizeOK) :
    AllHold (specRun env init {} (.reopen o :: ops)) (run env init (.reopen o :: ops)).2 := by
  rw [← specRunR_eq_specRun env (.reopen o :: ops) init {} init_noloss]
  · exact session_refinesR env ok o ops hops
  · intro op hop
    simp only [List.mem_cons] at hop
    rcases hop with e | hop
    · subst e; exact hk
    · exact keep0_of_not_reopen op (hops op hop).1

/-- the codec the store really uses: the snappy model (`oracle_c16` runs the store model with exactly this) -/
def snappyEnv (hash : Bytes → Bytes) (adv : Bool) : Env :=
  { enc := Snappy.encode
    dec := fun b => match Snappy.decode b with | .ok d => some d | .error _ => none
    hash := hash
    advInvalid := adv }

theorem putUvarint_ne (x : Nat) : Snappy.putUvarint x ≠ [] := by
  unfold Snappy.putUvarint Snappy.putUvarintAux
  split <;> simp

theorem snappyEnv_ok (hash : Bytes → Bytes) (adv : Bool) : EnvOK (snappyEnv hash adv) := by
  constructor
  · intro x hx
    show (match Snappy.decode (Snappy.encode x) with | .ok d => some d | .error _ => none) = some x
    rw [Snappy.snappy_roundtrip x hx]
  · intro x
    show Snappy.encode x ≠ []
    unfold Snappy.encode
    intro h
    exact putUvarint_ne _ (List.append_eq_nil_iff.mp h).1

end GocoinV.BlockDB
