/-
  Proofs.C12Sort — completeness of GetSortedMempoolSlow (every pooled record is listed exactly once).
  Helper lemmas for Props/C12 `sorted_complete`.  Core Lean only.
-/
import GocoinV.Model.Mempool
namespace GocoinV.Mempool

abbrev Ent := Nat × T2S
def keysOf (l : List Ent) : List Nat := l.map (·.1)

theorem keysOf_append (a b : List Ent) : keysOf (a ++ b) = keysOf a ++ keysOf b := by simp [keysOf]

/-- listed, or still lacking a flagged parent -/
def Good (K : Keys) (res : List Ent) (d : Ent) : Prop := d.1 ∈ keysOf res ∨ missingParents K res d.2 = true

/-- number of deferred entries not yet listed -/
def pend (res : List Ent) : List Ent → Nat
  | [] => 0
  | d :: r => (if d.1 ∈ keysOf res then 0 else 1) + pend res r

theorem pend_mono (res res' : List Ent) (h : ∀ k ∈ keysOf res, k ∈ keysOf res') : ∀ D, pend res' D ≤ pend res D := by
  intro D
  induction D with
  | nil => exact Nat.le_refl _
  | cons d r ih =>
    simp only [pend]
    by_cases e : d.1 ∈ keysOf res
    · simp only [e, h _ e, if_true]; omega
    · by_cases e' : d.1 ∈ keysOf res'
      · simp only [e, e', if_true, if_false]; omega
      · simp only [e, e', if_false]; omega

theorem pend_lt (res : List Ent) (d : Ent) (hd : d.1 ∉ keysOf res) : ∀ D, d ∈ D → pend (res ++ [d]) D < pend res D := by
  intro D
  induction D with
  | nil => intro h; simp at h
  | cons e r ih =>
    intro hm
    have mono := pend_mono res (res ++ [d]) (fun k hk => by rw [keysOf_append]; exact List.mem_append_left _ hk) r
    simp only [pend]
    rcases List.mem_cons.mp hm with h | h
    · subst h
      have : d.1 ∈ keysOf (res ++ [d]) := by rw [keysOf_append]; simp [keysOf]
      simp only [this, hd, if_true, if_false]; omega
    · have := ih h
      by_cases e1 : e.1 ∈ keysOf res
      · have e2 : e.1 ∈ keysOf (res ++ [d]) := by rw [keysOf_append]; exact List.mem_append_left _ e1
        simp only [e1, e2, if_true]; omega
      · by_cases e2 : e.1 ∈ keysOf (res ++ [d])
        · simp only [e1, e2, if_true, if_false]; omega
        · simp only [e1, e2, if_false]; omega

theorem pend_le_length (res : List Ent) : ∀ D, pend res D ≤ D.length := by
  intro D
  induction D with
  | nil => exact Nat.le_refl _
  | cons d r ih => simp only [pend, List.length_cons]; split <;> omega

theorem missing_iff (K : Keys) (res : List Ent) (t : T2S) :
    missingParents K res t = true ↔ ∃ p ∈ memParents K t, p ∉ keysOf res := by
  unfold missingParents keysOf
  rw [List.any_eq_true]
  constructor
  · rintro ⟨p, hp, h⟩; exact ⟨p, hp, by simpa using h⟩
  · rintro ⟨p, hp, h⟩; exact ⟨p, hp, by simpa using h⟩

theorem missing_mono (K : Keys) (res res' : List Ent) (t : T2S) (h : ∀ k ∈ keysOf res, k ∈ keysOf res')
    (hm : missingParents K res' t = true) : missingParents K res t = true := by
  rw [missing_iff] at hm ⊢
  obtain ⟨p, hp, hn⟩ := hm
  exact ⟨p, hp, fun hk => hn (h p hk)⟩

theorem missing_new (K : Keys) (res : List Ent) (x : Ent) (t : T2S) (h1 : missingParents K res t = true)
    (h2 : ¬ missingParents K (res ++ [x]) t = true) : x.1 ∈ memParents K t := by
  rw [missing_iff] at h1 h2
  obtain ⟨p, hp, hn⟩ := h1
  have : p ∈ keysOf (res ++ [x]) := by
    apply Classical.byContradiction
    intro hc
    exact h2 ⟨p, hp, hc⟩
  rw [keysOf_append] at this
  rcases List.mem_append.mp this with e | e
  · exact absurd e hn
  · simp [keysOf] at e; rw [← e]; exact hp

/-- the retry step inside append_txs, named -/
def retryStep (K : Keys) (fuel : Nat) (x : Ent) (st : List Ent × List Ent) (d : Ent) : List Ent × List Ent :=
  if (st.1.map (·.1)).contains d.1 then st
  else if (memParents K d.2).contains x.1 && !missingParents K st.1 d.2 then appendTxs K fuel st d
  else st

theorem appendTxs_succ (K : Keys) (fuel : Nat) (res D : List Ent) (x : Ent) :
    appendTxs K (fuel + 1) (res, D) x = D.foldl (retryStep K fuel x) (res ++ [x], D) := rfl

/-- what one call of append_txs guarantees -/
structure Post (K : Keys) (D res : List Ent) (x : Ent) (st' : List Ent × List Ent) : Prop where
  snd : st'.2 = D
  grow : ∀ k ∈ keysOf (res ++ [x]), k ∈ keysOf st'.1
  good : ∀ d ∈ D, Good K res d → Good K st'.1 d
  nodup : (keysOf st'.1).Nodup
  sub : ∀ k ∈ keysOf st'.1, k ∈ keysOf res ∨ k = x.1 ∨ k ∈ keysOf D

/-- loop invariant of the retry fold (over the remaining deferred entries `l`) -/
structure RInv (K : Keys) (n : Nat) (D res : List Ent) (x : Ent) (st : List Ent × List Ent) (l : List Ent) : Prop where
  snd : st.2 = D
  grow : ∀ k ∈ keysOf (res ++ [x]), k ∈ keysOf st.1
  fuel : pend st.1 D ≤ n
  nodup : (keysOf st.1).Nodup
  sub : ∀ k ∈ keysOf st.1, k ∈ keysOf res ∨ k = x.1 ∨ k ∈ keysOf D
  good : ∀ d ∈ D, Good K res d → Good K st.1 d ∨ (d ∈ l ∧ x.1 ∈ memParents K d.2)

theorem retry_fold (K : Keys) (n : Nat) (D res : List Ent) (x : Ent)
    (ih : ∀ (res0 : List Ent) (d : Ent), pend (res0 ++ [d]) D < n → d.1 ∉ keysOf res0 → (keysOf res0).Nodup →
      Post K D res0 d (appendTxs K n (res0, D) d)) :
    ∀ (l : List Ent) (st : List Ent × List Ent), (∀ d ∈ l, d ∈ D) → RInv K n D res x st l →
    RInv K n D res x (l.foldl (retryStep K n x) st) [] := by
  intro l
  induction l with
  | nil => intro st _ h; exact h
  | cons d r ihl =>
    intro st hl h
    simp only [List.foldl_cons]
    apply ihl _ (fun e he => hl e (List.mem_cons_of_mem _ he))
    have hdD : d ∈ D := hl d List.mem_cons_self
    unfold retryStep
    split
    · rename_i hc
      have hc' : d.1 ∈ keysOf st.1 := by simpa [keysOf] using hc
      refine ⟨h.snd, h.grow, h.fuel, h.nodup, h.sub, ?_⟩
      intro e he hg
      rcases h.good e he hg with g | ⟨g1, g2⟩
      · exact Or.inl g
      · rcases List.mem_cons.mp g1 with e1 | e1
        · subst e1; exact Or.inl (Or.inl hc')
        · exact Or.inr ⟨e1, g2⟩
    · rename_i hc
      have hc' : d.1 ∉ keysOf st.1 := by simpa [keysOf] using hc
      split
      · -- recursive call
        have hst : st = (st.1, D) := by rw [← h.snd]
        have lt : pend (st.1 ++ [d]) D < n := Nat.lt_of_lt_of_le (pend_lt st.1 d hc' D hdD) h.fuel
        have p := ih st.1 d lt hc' h.nodup
        rw [← hst] at p
        have up : ∀ k ∈ keysOf st.1, k ∈ keysOf (appendTxs K n st d).1 :=
          fun k hk => p.grow k (by rw [keysOf_append]; exact List.mem_append_left _ hk)
        refine ⟨p.snd, fun k hk => up k (h.grow k hk), ?_, p.nodup, ?_, ?_⟩
        · exact Nat.le_trans (pend_mono _ _ up D) h.fuel
        · intro k hk
          rcases p.sub k hk with e | e | e
          · exact h.sub k e
          · right; right; rw [e]; exact List.mem_map.mpr ⟨d, hdD, rfl⟩
          · exact Or.inr (Or.inr e)
        · intro e he hg
          rcases h.good e he hg with g | ⟨g1, g2⟩
          · exact Or.inl (p.good e he g)
          · rcases List.mem_cons.mp g1 with e1 | e1
            · subst e1
              exact Or.inl (Or.inl (p.grow _ (by rw [keysOf_append]; simp [keysOf])))
            · exact Or.inr ⟨e1, g2⟩
      · rename_i hcond
        refine ⟨h.snd, h.grow, h.fuel, h.nodup, h.sub, ?_⟩
        intro e he hg
        rcases h.good e he hg with g | ⟨g1, g2⟩
        · exact Or.inl g
        · rcases List.mem_cons.mp g1 with e1 | e1
          · subst e1
            left; right
            have hx : (memParents K e.2).contains x.1 = true := by simpa using g2
            cases hm : missingParents K st.1 e.2 with
            | true => rfl
            | false => simp [hm] at hcond; exact absurd g2 hcond
          · exact Or.inr ⟨e1, g2⟩

theorem appendTxs_post (K : Keys) : ∀ (fuel : Nat) (D res : List Ent) (x : Ent),
    pend (res ++ [x]) D < fuel → x.1 ∉ keysOf res → (keysOf res).Nodup →
    Post K D res x (appendTxs K fuel (res, D) x) := by
  intro fuel
  induction fuel with
  | zero => intro D res x h; omega
  | succ n ih =>
    intro D res x hf hx hn
    rw [appendTxs_succ]
    have init : RInv K n D res x (res ++ [x], D) D := by
      refine ⟨rfl, fun k hk => hk, by show pend (res ++ [x]) D ≤ n; omega, ?_, ?_, ?_⟩
      · rw [keysOf_append]
        exact List.nodup_append.mpr ⟨hn, by simp [keysOf], fun a ha b hb e => by
          simp [keysOf] at hb; rw [hb] at e; exact hx (e ▸ ha)⟩
      · intro k hk
        rw [keysOf_append] at hk
        rcases List.mem_append.mp hk with e | e
        · exact Or.inl e
        · simp [keysOf] at e; exact Or.inr (Or.inl e)
      · intro d hd hg
        rcases hg with g | g
        · exact Or.inl (Or.inl (by rw [keysOf_append]; exact List.mem_append_left _ g))
        · by_cases hm : missingParents K (res ++ [x]) d.2 = true
          · exact Or.inl (Or.inr hm)
          · exact Or.inr ⟨hd, missing_new K res x d.2 g hm⟩
    have fin := retry_fold K n D res x (fun res0 d => ih D res0 d) D _ (fun d hd => hd) init
    refine ⟨fin.snd, fin.grow, ?_, fin.nodup, fin.sub⟩
    intro d hd hg
    rcases fin.good d hd hg with g | ⟨g1, _⟩
    · exact g
    · simp at g1

/-! ### the fee-ordered input is a permutation of the pool -/

theorem insSorted_perm (p : Ent) : ∀ (l : List Ent), (insSorted p l).Perm (p :: l) := by
  intro l
  induction l with
  | nil => exact List.Perm.refl _
  | cons x r ih =>
    simp only [insSorted]
    split
    · exact List.Perm.refl _
    · exact ((List.Perm.cons x ih).trans (List.Perm.swap p x r))

theorem foldl_ins_perm : ∀ (pool acc : List Ent), (pool.foldl (fun acc p => insSorted p acc) acc).Perm (pool ++ acc) := by
  intro pool
  induction pool with
  | nil => intro acc; exact List.Perm.refl _
  | cons p r ih =>
    intro acc
    simp only [List.foldl_cons, List.cons_append]
    exact (ih (insSorted p acc)).trans
      (((insSorted_perm p acc).append_left r).trans List.perm_middle)

theorem feeOrder_perm (s : State) : (feeOrder s).Perm s.pool := by
  unfold feeOrder
  have := foldl_ins_perm s.pool []
  simpa using this

/-! ### the main loop -/

structure MInv (K : Keys) (st : List Ent × List Ent) (done : List Ent) : Prop where
  good : ∀ d ∈ st.2, Good K st.1 d
  dsub : ∀ d ∈ st.2, d ∈ done
  dlen : st.2.length ≤ done.length
  cover : ∀ p ∈ done, p.1 ∈ keysOf st.1 ∨ p ∈ st.2
  nodup : (keysOf st.1).Nodup
  ksub : ∀ k ∈ keysOf st.1, k ∈ keysOf done

theorem main_fold (K : Keys) (fuel : Nat) (F : List Ent) (hF : (keysOf F).Nodup) (hfuel : F.length < fuel) :
    ∀ (rest done : List Ent) (st : List Ent × List Ent), F = done ++ rest → MInv K st done →
    MInv K (rest.foldl (slowStep K fuel) st) F := by
  intro rest
  induction rest with
  | nil => intro done st h m; simp at h; rw [h]; exact m
  | cons p r ih =>
    intro done st hsplit m
    simp only [List.foldl_cons]
    have hsplit' : F = (done ++ [p]) ++ r := by rw [hsplit]; simp
    apply ih (done ++ [p]) _ hsplit'
    have hpd : p.1 ∉ keysOf done := by
      rw [hsplit, keysOf_append] at hF
      have := (List.nodup_append.mp hF).2.2
      intro hin
      exact this p.1 hin p.1 (by simp [keysOf]) rfl
    have hps : p.1 ∉ keysOf st.1 := fun h => hpd (m.ksub _ h)
    have hlen : done.length < F.length := by rw [hsplit]; simp
    have kd : ∀ k ∈ keysOf done, k ∈ keysOf (done ++ [p]) :=
      fun k hk => by rw [keysOf_append]; exact List.mem_append_left _ hk
    unfold slowStep
    split
    · rename_i hm
      refine ⟨?_, ?_, ?_, ?_, m.nodup, fun k hk => kd k (m.ksub k hk)⟩
      · intro d hd
        rcases List.mem_append.mp hd with e | e
        · exact m.good d e
        · simp at e; rw [e]; exact Or.inr hm
      · intro d hd
        rcases List.mem_append.mp hd with e | e
        · exact List.mem_append_left _ (m.dsub d e)
        · exact List.mem_append_right _ e
      · simp only [List.length_append, List.length_singleton]; have := m.dlen; omega
      · intro q hq
        rcases List.mem_append.mp hq with e | e
        · rcases m.cover q e with c | c
          · exact Or.inl c
          · exact Or.inr (List.mem_append_left _ c)
        · exact Or.inr (List.mem_append_right _ e)
    · have lt : pend (st.1 ++ [p]) st.2 < fuel := by
        have := pend_le_length (st.1 ++ [p]) st.2
        have := m.dlen
        omega
      have post := appendTxs_post K fuel st.2 st.1 p lt hps m.nodup
      have up : ∀ k ∈ keysOf st.1, k ∈ keysOf (appendTxs K fuel st p).1 :=
        fun k hk => post.grow k (by rw [keysOf_append]; exact List.mem_append_left _ hk)
      refine ⟨?_, ?_, ?_, ?_, post.nodup, ?_⟩
      · intro d hd
        have hd' : d ∈ st.2 := by rw [← post.snd]; exact hd
        exact post.good d hd' (m.good d hd')
      · intro d hd
        have hd' : d ∈ st.2 := by rw [← post.snd]; exact hd
        exact List.mem_append_left _ (m.dsub d hd')
      · have e : (appendTxs K fuel st p).2.length = st.2.length := by rw [post.snd]
        rw [e]; simp only [List.length_append, List.length_singleton]; have := m.dlen; omega
      · intro q hq
        rcases List.mem_append.mp hq with e | e
        · rcases m.cover q e with c | c
          · exact Or.inl (up _ c)
          · exact Or.inr (by rw [post.snd]; exact c)
        · simp at e; rw [e]
          exact Or.inl (post.grow _ (by rw [keysOf_append]; simp [keysOf]))
      · intro k hk
        rcases post.sub k hk with e | e | e
        · exact kd k (m.ksub k e)
        · rw [e, keysOf_append]; simp [keysOf]
        · obtain ⟨d, hd, rfl⟩ := List.mem_map.mp e
          exact kd _ (List.mem_map.mpr ⟨d, m.dsub d hd, rfl⟩)

theorem all_listed (K : Keys) (F res deferred : List Ent) (rank : Ent → Nat)
    (hcov : ∀ p ∈ F, p.1 ∈ keysOf res ∨ p ∈ deferred) (hgood : ∀ d ∈ deferred, Good K res d)
    (hpar : ∀ p ∈ F, ∀ k ∈ memParents K p.2, ∃ q ∈ F, q.1 = k ∧ rank q < rank p) :
    ∀ p ∈ F, p.1 ∈ keysOf res := by
  have main : ∀ n, ∀ p ∈ F, rank p < n → p.1 ∈ keysOf res := by
    intro n
    induction n with
    | zero => intro p _ h; omega
    | succ n ih =>
      intro p hp hr
      rcases hcov p hp with c | c
      · exact c
      · rcases hgood p c with g | g
        · exact g
        · rw [missing_iff] at g
          obtain ⟨k, hk, hn⟩ := g
          obtain ⟨q, hq, e, hrk⟩ := hpar p hp k hk
          exact absurd (e ▸ ih q hq (by omega)) hn
  intro p hp
  exact main (rank p + 1) p hp (Nat.lt_succ_self _)

/-- GetSortedMempoolSlow lists every pooled record exactly once -/
theorem sortedSlow_complete (K : Keys) (s : State) (rank : Nat → Nat) (hn : (s.pool.map Prod.fst).Nodup)
    (hpar : ∀ b t, (b, t) ∈ s.pool → ∀ k ∈ memParents K t, (∃ t', (k, t') ∈ s.pool) ∧ rank k < rank b) :
    (sortedSlow K s).Nodup ∧ ∀ b, b ∈ sortedSlow K s ↔ b ∈ s.pool.map Prod.fst := by
  have perm := feeOrder_perm s
  have hF : (keysOf (feeOrder s)).Nodup := (perm.map Prod.fst).nodup_iff.mpr hn
  have hlen : (feeOrder s).length < s.pool.length + 1 := by rw [perm.length_eq]; omega
  have m := main_fold K (s.pool.length + 1) (feeOrder s) hF hlen (feeOrder s) [] ([], []) (by simp)
    ⟨by simp, by simp, by simp, by simp, by simp [keysOf], by simp [keysOf]⟩
  have e : sortedSlow K s = keysOf ((feeOrder s).foldl (slowStep K (s.pool.length + 1)) ([], [])).1 := rfl
  rw [e]
  refine ⟨m.nodup, fun b => ⟨fun hb => ?_, fun hb => ?_⟩⟩
  · exact (perm.map Prod.fst).mem_iff.mp (m.ksub b hb)
  · obtain ⟨p, hp, rfl⟩ := List.mem_map.mp hb
    have hpF : p ∈ feeOrder s := perm.mem_iff.mpr hp
    apply all_listed K (feeOrder s) _ _ (fun q => rank q.1) m.cover m.good _ p hpF
    intro q hq k hk
    obtain ⟨⟨t', ht'⟩, hr⟩ := hpar q.1 q.2 (perm.mem_iff.mp hq) k hk
    exact ⟨(k, t'), perm.mem_iff.mpr ht', rfl, hr⟩

end GocoinV.Mempool
