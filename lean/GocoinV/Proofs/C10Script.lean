/-
  Proofs.C10Script — CompressScript / DecompressScript round trip and shape of the compressed form.
-/
import GocoinV.Model.ScriptCompress
namespace GocoinV.ScriptCompress

theorem at_take (s : Bytes) (n i : Nat) (h : i < n) : at' (s.take n) i = at' s i := by
  simp [at', List.getD, h]

theorem at_drop (s : Bytes) (n i : Nat) : at' (s.drop n) i = at' s (n + i) := by
  simp [at', List.getD, List.getElem?_drop]

theorem eq_of_len1 (l : Bytes) (h : l.length = 1) : l = [at' l 0] := by
  match l, h with
  | [a], _ => rfl

theorem eq_of_len2 (l : Bytes) (h : l.length = 2) : l = [at' l 0, at' l 1] := by
  match l, h with
  | [a, b], _ => rfl

theorem eq_of_len3 (l : Bytes) (h : l.length = 3) : l = [at' l 0, at' l 1, at' l 2] := by
  match l, h with
  | [a, b, c], _ => rfl

theorem cons_at_tail (l : Bytes) (h : 0 < l.length) : at' l 0 :: l.drop 1 = l := by
  match l, h with
  | a :: t, _ => rfl

/-- the three-way split used by every special form -/
theorem split3 (s : Bytes) (a b : Nat) : s = s.take a ++ ((s.drop a).take b ++ s.drop (a + b)) := by
  rw [← List.drop_drop, List.take_append_drop, List.take_append_drop]

theorem copyN_exact (n : Nat) (l : Bytes) (h : l.length = n) : copyN n l = l := by
  unfold copyN; subst h; simp

theorem and_one_cases (b : UInt8) : b &&& 1 = 0 ∨ b &&& 1 = 1 := by
  have h : (b &&& 1).toNat = b.toNat % 2 := by
    rw [UInt8.toNat_and]; exact Nat.and_one_is_mod _
  rcases Nat.mod_two_eq_zero_or_one b.toNat with h0 | h1
  · left; apply UInt8.toNat_inj.mp; rw [h, h0]; rfl
  · right; apply UInt8.toNat_inj.mp; rw [h, h1]; rfl


/-- the one fact about secp256k1 the round trip needs: expanding the compressed form of a key that
    `valid65` accepted gives that key back (for the real code: X, Y canonical and on the curve ⇒
    `SetXO` recomputes the same Y; this is C08/C03's subject) -/
def KeyOps.Sound (K : KeyOps) : Prop :=
  ∀ pk : Bytes, pk.length = 65 → at' pk 0 = 4 → K.valid65 pk = true →
    K.expand33 (((4 ||| (at' pk 64 &&& 1)) - 2) :: (pk.drop 1).take 32) = pk

theorem p2kh_form (s : Bytes) (h : isP2KH s = true) :
    s.length = 25 ∧ s = [0x76, 0xa9, 0x14] ++ ((s.drop 3).take 20 ++ [0x88, 0xac]) := by
  simp only [isP2KH, Bool.and_eq_true, beq_iff_eq] at h
  obtain ⟨⟨⟨⟨⟨hl, h0⟩, h1⟩, h2⟩, h23⟩, h24⟩ := h
  refine ⟨hl, ?_⟩
  have ht : s.take 3 = [0x76, 0xa9, 0x14] := by
    rw [eq_of_len3 (s.take 3) (by simp; omega), at_take _ _ _ (by omega), at_take _ _ _ (by omega),
      at_take _ _ _ (by omega), h0, h1, h2]
  have hd : s.drop 23 = [0x88, 0xac] := by
    rw [eq_of_len2 (s.drop 23) (by simp; omega), at_drop, at_drop, h23, h24]
  have := split3 s 3 20
  rw [ht, hd] at this
  exact this

theorem p2sh_form (s : Bytes) (h : isP2SH s = true) :
    s.length = 23 ∧ s = [0xa9, 0x14] ++ ((s.drop 2).take 20 ++ [0x87]) := by
  simp only [isP2SH, Bool.and_eq_true, beq_iff_eq] at h
  obtain ⟨⟨⟨hl, h0⟩, h1⟩, h22⟩ := h
  refine ⟨hl, ?_⟩
  have ht : s.take 2 = [0xa9, 0x14] := by
    rw [eq_of_len2 (s.take 2) (by simp; omega), at_take _ _ _ (by omega), at_take _ _ _ (by omega), h0, h1]
  have hd : s.drop 22 = [0x87] := by
    rw [eq_of_len1 (s.drop 22) (by simp; omega), at_drop, h22]
  have := split3 s 2 20
  rw [ht, hd] at this
  exact this

/-- `s = [push] ++ key ++ [0xac]` for a script of length `n+2` whose first byte is `push` and last `0xac` -/
theorem pk_form (s : Bytes) (n : Nat) (push : UInt8) (hl : s.length = n + 2) (h0 : at' s 0 = push)
    (hlast : at' s (n + 1) = 0xac) : s = [push] ++ ((s.drop 1).take n ++ [0xac]) := by
  have ht : s.take 1 = [push] := by
    rw [eq_of_len1 (s.take 1) (by simp; omega), at_take _ _ _ (by omega), h0]
  have hd : s.drop (1 + n) = [0xac] := by
    rw [eq_of_len1 (s.drop (1 + n)) (by simp; omega), at_drop]
    have : 1 + n + 0 = n + 1 := by omega
    rw [this, hlast]
  have := split3 s 1 n
  rw [ht, hd] at this
  exact this


theorem isP2PK_cases (K : KeyOps) (s pk : Bytes) (h : isP2PK K s = some pk) :
    (s.length = 35 ∧ at' s 0 = 33 ∧ at' s 34 = 0xac ∧ (at' s 1 = 2 ∨ at' s 1 = 3) ∧ pk = (s.drop 1).take 33) ∨
    (s.length = 67 ∧ at' s 0 = 65 ∧ at' s 66 = 0xac ∧ at' s 1 = 4 ∧ K.valid65 pk = true ∧ pk = (s.drop 1).take 65) := by
  unfold isP2PK at h
  split at h
  · rename_i hc
    simp only [Bool.and_eq_true, Bool.or_eq_true, beq_iff_eq] at hc
    obtain ⟨⟨⟨hl, h0⟩, h34⟩, h1⟩ := hc
    left
    injection h with h
    exact ⟨hl, h0, h34, h1, h.symm⟩
  · split at h
    · rename_i hc
      simp only [Bool.and_eq_true, beq_iff_eq] at hc
      obtain ⟨⟨⟨hl, h0⟩, h66⟩, h1⟩ := hc
      split at h
      · rename_i hv
        injection h with h
        right
        exact ⟨hl, h0, h66, h1, h ▸ hv, h.symm⟩
      · simp at h
    · simp at h

theorem decompress_compress (K : KeyOps) (hK : K.Sound) (s c : Bytes)
    (h : compress K s = some c) : decompress K c = .ok s := by
  unfold compress at h
  split at h
  · -- P2KH
    rename_i hk
    obtain ⟨hl, hform⟩ := p2kh_form s hk
    injection h with h; subst h
    have hlen : ((s.drop 3).take 20).length = 20 := by simp; omega
    simp only [decompress, beq_self_eq_true, ↓reduceIte, List.length_cons, hlen]
    rw [List.take_of_length_le (by omega)]
    simp only [Nat.lt_irrefl, ↓reduceIte]
    rw [DRes.ok.injEq]
    simpa using hform.symm
  · split at h
    · -- P2SH
      rename_i _ hk
      obtain ⟨hl, hform⟩ := p2sh_form s hk
      injection h with h; subst h
      have hlen : ((s.drop 2).take 20).length = 20 := by simp; omega
      have h01 : ((1 : UInt8) == 0) = false := by decide
      simp only [decompress, h01, Bool.false_eq_true, beq_self_eq_true, ↓reduceIte,
        copyN_exact 20 _ hlen]
      rw [DRes.ok.injEq]
      simpa using hform.symm
    · split at h
      · rename_i _ _ pk hpk
        injection h with h; subst h
        rcases isP2PK_cases K s pk hpk with ⟨hl, h0, h34, h1, rfl⟩ | ⟨hl, h0, h66, h1, hv, rfl⟩
        · -- compressed key
          have hform := pk_form s 33 33 hl h0 h34
          have hklen : ((s.drop 1).take 33).length = 33 := by simp; omega
          have hk0 : at' ((s.drop 1).take 33) 0 = at' s 1 := by
            rw [at_take _ _ _ (by omega), at_drop]
          have hdata : at' s 1 :: (((s.drop 1).take 33).drop 1).take 32 = (s.drop 1).take 33 := by
            rw [List.take_of_length_le (by simp; omega), ← hk0]
            exact cons_at_tail _ (by omega)
          rw [hk0]
          rcases h1 with h1 | h1
          all_goals
            rw [h1] at hdata ⊢
            simp only [show ((2 : UInt8) == 4) = false by decide, show ((3 : UInt8) == 4) = false by decide,
              Bool.false_eq_true, ↓reduceIte, decompress,
              show ((2 : UInt8) == 0) = false by decide, show ((2 : UInt8) == 1) = false by decide,
              show ((3 : UInt8) == 0) = false by decide, show ((3 : UInt8) == 1) = false by decide,
              show ((3 : UInt8) == 2) = false by decide,
              beq_self_eq_true, Bool.or_true, Bool.true_or]
            rw [hdata, copyN_exact 33 _ hklen, DRes.ok.injEq]
            simpa using hform.symm
        · -- uncompressed key
          have hform := pk_form s 65 65 hl h0 h66
          have hklen : ((s.drop 1).take 65).length = 65 := by simp; omega
          have hk0 : at' ((s.drop 1).take 65) 0 = 4 := by
            rw [at_take _ _ _ (by omega), at_drop, h1]
          have hsound := hK _ hklen hk0 hv
          have hxlen : ((((s.drop 1).take 65).drop 1).take 32).length = 32 := by simp; omega
          rw [hk0]
          simp only [beq_self_eq_true, ↓reduceIte]
          generalize hb : at' ((s.drop 1).take 65) 64 &&& 1 = b at *
          have hb01 : b = 0 ∨ b = 1 := by rw [← hb]; exact and_one_cases _
          rcases hb01 with rfl | rfl
          all_goals
            simp only [decompress, show ((4 : UInt8) ||| 0) = 4 by decide, show ((4 : UInt8) ||| 1) = 5 by decide,
              show ((4 : UInt8) == 0) = false by decide, show ((4 : UInt8) == 1) = false by decide,
              show ((4 : UInt8) == 2) = false by decide, show ((4 : UInt8) == 3) = false by decide,
              show ((5 : UInt8) == 0) = false by decide, show ((5 : UInt8) == 1) = false by decide,
              show ((5 : UInt8) == 2) = false by decide, show ((5 : UInt8) == 3) = false by decide,
              show ((5 : UInt8) == 4) = false by decide,
              Bool.false_eq_true, ↓reduceIte, beq_self_eq_true, Bool.or_true, Bool.true_or, Bool.or_false,
              copyN_exact 32 _ hxlen] at hsound ⊢
            rw [hsound, DRes.ok.injEq]
            simpa using hform.symm
      · simp at h


/-- a compressed script starts with a type byte `t < 6` and is exactly `ComprScrLen[t]` bytes long -/
theorem compress_shape (K : KeyOps) (s c : Bytes) (h : compress K s = some c) :
    ∃ t tl, c = t :: tl ∧ t.toNat < 6 ∧ c.length = comprScrLen.getD t.toNat 0 := by
  unfold compress at h
  split at h
  · rename_i hk
    obtain ⟨hl, _⟩ := p2kh_form s hk
    injection h with h; subst h
    exact ⟨0, _, rfl, by decide, by simp [comprScrLen]; omega⟩
  · split at h
    · rename_i _ hk
      obtain ⟨hl, _⟩ := p2sh_form s hk
      injection h with h; subst h
      exact ⟨1, _, rfl, by decide, by simp [comprScrLen]; omega⟩
    · split at h
      · rename_i _ _ pk hpk
        injection h with h; subst h
        rcases isP2PK_cases K s pk hpk with ⟨hl, h0, h34, h1, rfl⟩ | ⟨hl, h0, h66, h1, hv, rfl⟩
        · have hk0 : at' ((s.drop 1).take 33) 0 = at' s 1 := by
            rw [at_take _ _ _ (by omega), at_drop]
          rw [hk0]
          rcases h1 with h1 | h1
          all_goals
            rw [h1]
            simp only [show ((2 : UInt8) == 4) = false by decide, show ((3 : UInt8) == 4) = false by decide,
              Bool.false_eq_true, ↓reduceIte]
            refine ⟨_, _, rfl, by decide, ?_⟩
            simp [comprScrLen]; omega
        · have hk0 : at' ((s.drop 1).take 65) 0 = 4 := by
            rw [at_take _ _ _ (by omega), at_drop, h1]
          rw [hk0]
          simp only [beq_self_eq_true, ↓reduceIte]
          generalize hb : at' ((s.drop 1).take 65) 64 &&& 1 = b
          have hb01 : b = 0 ∨ b = 1 := by rw [← hb]; exact and_one_cases _
          rcases hb01 with rfl | rfl
          all_goals
            refine ⟨_, _, rfl, by decide, ?_⟩
            simp [comprScrLen]; omega
      · simp at h

end GocoinV.ScriptCompress
