/-
  Proofs.C15Reuse — one BtcAddr object over time (Model/AddrObj.lean): calls change only the two caches,
  OutScript ignores earlier calls, and under the callers' re-use idiom (caches reset when a field is assigned)
  String()/OutScript() are those of a new address for the destination last pointed to.
-/
import GocoinV.Model.AddrObj
import GocoinV.Proofs.C15Addr
import GocoinV.Proofs.C15Base58b
namespace GocoinV.Addr
open GocoinV

/-- the fields that say WHICH destination the object denotes -/
def Obj.core (o : Obj) : Option (Bytes × Nat × Bytes) × UInt8 × Bytes := (o.seg, o.ver, o.h160)

theorem Obj.string_core (H : Hashes) (o : Obj) : (o.string H).2.core = o.core := by
  unfold Obj.string Obj.core
  split
  · rfl
  · split <;> rfl

theorem Obj.string_of_enc_ne (H : Hashes) (o : Obj) (h : o.enc ≠ []) : (o.string H).1 = o.enc := by
  unfold Obj.string
  rw [if_pos h]

theorem Obj.dest_of_core {o o' : Obj} (h : o.core = o'.core) : o.dest = o'.dest := by
  simp only [Obj.core, Prod.mk.injEq] at h
  obtain ⟨h1, h2, h3⟩ := h
  unfold Obj.dest
  rw [h1, h2, h3]

theorem Obj.apply_core_call (H : Hashes) (o : Obj) (op : Op) (h : op.isCall = true) :
    (o.apply H op).core = o.core := by
  cases op <;> simp only [Op.isCall, Bool.false_eq_true] at h
  · exact Obj.string_core H o
  · rfl

theorem Obj.apply_core_assign (H : Hashes) (o o' : Obj) (op : Op) (h : op.isCall = false)
    (hc : o.core = o'.core) : (o.apply H op).core = (o'.apply H op).core := by
  simp only [Obj.core, Prod.mk.injEq] at hc
  obtain ⟨h1, h2, h3⟩ := hc
  cases op <;> simp only [Op.isCall, Bool.true_eq_false] at h <;>
    simp only [Obj.apply, Obj.core, h1, h2, h3]

theorem Obj.exec_core_filter (H : Hashes) (ops : List Op) :
    ∀ o o' : Obj, o.core = o'.core →
      (Obj.exec H ops o).core = (Obj.exec H (ops.filter (fun op => !op.isCall)) o').core := by
  induction ops with
  | nil => intro o o' h; exact h
  | cons op ops ih =>
    intro o o' h
    cases hc : op.isCall with
    | true =>
      simp only [List.filter, hc, Bool.not_true, Obj.exec]
      exact ih _ _ ((Obj.apply_core_call H o op hc).trans h)
    | false =>
      simp only [List.filter, hc, Bool.not_false, Obj.exec]
      exact ih _ _ (Obj.apply_core_assign H o o' op hc h)

theorem Obj.exec_append (H : Hashes) (a b : List Op) : ∀ o : Obj,
    Obj.exec H (a ++ b) o = Obj.exec H b (Obj.exec H a o) := by
  induction a with
  | nil => intro o; rfl
  | cons x a ih => intro o; simp only [List.cons_append, Obj.exec]; exact ih _

theorem copy4_of_length {c : Bytes} (h : c.length = 4) : copy4 c = c := by
  unfold copy4
  rw [List.take_of_length_le (by omega)]
  simp [h]

/-- `String()` on a coherent object: returns what a new object would, and leaves the object coherent -/
theorem Obj.string_coherent (H : Hashes) (hH : ∀ x, (H.sha2sum x).length = 32) (o : Obj)
    (hc : o.Coherent H) : (o.string H).1 = o.fresh H ∧ (o.string H).2.Coherent H := by
  obtain ⟨he, hk⟩ := hc
  have h4 : ((H.sha2sum (o.ver :: o.h160)).take 4).length = 4 := by
    rw [List.length_take, hH]; rfl
  unfold Obj.string
  by_cases hne : o.enc ≠ []
  · rw [if_pos hne]
    rcases he with he | he
    · exact absurd he hne
    · exact ⟨he, Or.inr he, hk⟩
  · rw [if_neg hne]
    cases hs : o.seg with
    | some t =>
      obtain ⟨hrp, v, p⟩ := t
      have hd : o.dest = .segwit hrp v p := by simp only [Obj.dest, hs]
      have hfo : o.fresh H = (Bech32.segwitEncode hrp v p).getD [] := by
        simp only [Obj.fresh, hd, Addr.toString]
      simp only
      refine ⟨hfo.symm, Or.inr ?_, hk⟩
      simp only [Obj.fresh, Obj.dest, Addr.toString]
    | none =>
      have hd : o.dest = .b58 o.ver o.h160 none := by simp only [Obj.dest, hs]
      have hfo : o.fresh H = Base58.encode ((o.ver :: o.h160) ++ (H.sha2sum (o.ver :: o.h160)).take 4) := by
        simp only [Obj.fresh, hd, Addr.toString, Option.getD_some]
      rcases hk with hk | hk <;> rw [hk] <;> simp only [copy4_of_length h4]
      · refine ⟨hfo.symm, Or.inr ?_, Or.inr rfl⟩
        simp only [Obj.fresh, Obj.dest, Addr.toString, Option.getD_some]
      · refine ⟨hfo.symm, Or.inr ?_, Or.inr rfl⟩
        simp only [Obj.fresh, Obj.dest, Addr.toString, Option.getD_some]

/-- every step of the re-use idiom keeps the object coherent -/
theorem Obj.reuse_step_coherent (H : Hashes) (hH : ∀ x, (H.sha2sum x).length = 32) (s : Reuse) (o : Obj)
    (hc : o.Coherent H) : (Obj.exec H s.ops o).Coherent H := by
  cases s with
  | point d =>
    cases d with
    | segwit hrp v p => exact ⟨Or.inl rfl, hc.2⟩
    | legacy ver h => exact ⟨Or.inl rfl, Or.inl rfl⟩
  | dropSegwit => exact ⟨Or.inl rfl, hc.2⟩
  | string => exact (Obj.string_coherent H hH o hc).2
  | outScript => exact hc

/-- the object after a history written in the callers' idiom -/
def Obj.reuse (H : Hashes) (steps : List Reuse) (o : Obj) : Obj := Obj.exec H (steps.flatMap Reuse.ops) o

theorem Obj.reuse_cons (H : Hashes) (s : Reuse) (steps : List Reuse) (o : Obj) :
    Obj.reuse H (s :: steps) o = Obj.reuse H steps (Obj.exec H s.ops o) := by
  simp only [Obj.reuse, List.flatMap_cons, Obj.exec_append]

theorem Obj.reuse_append (H : Hashes) (a b : List Reuse) (o : Obj) :
    Obj.reuse H (a ++ b) o = Obj.reuse H b (Obj.reuse H a o) := by
  simp only [Obj.reuse, List.flatMap_append, Obj.exec_append]

theorem Obj.reuse_coherent (H : Hashes) (hH : ∀ x, (H.sha2sum x).length = 32) (steps : List Reuse) :
    ∀ o : Obj, o.Coherent H → (Obj.reuse H steps o).Coherent H := by
  induction steps with
  | nil => intro o h; exact h
  | cons s steps ih =>
    intro o h
    rw [Obj.reuse_cons]
    exact ih _ (Obj.reuse_step_coherent H hH s o h)

theorem Obj.reuse_calls_core (H : Hashes) (cs : List Reuse) (hcs : ∀ s ∈ cs, s.isCall = true) :
    ∀ o : Obj, (Obj.reuse H cs o).core = o.core := by
  induction cs with
  | nil => intro o; rfl
  | cons s cs ih =>
    intro o
    rw [Obj.reuse_cons, ih (fun x hx => hcs x (List.mem_cons_of_mem _ hx))]
    have := hcs s List.mem_cons_self
    cases s <;> simp only [Reuse.isCall, Bool.false_eq_true] at this
    · exact Obj.string_core H o
    · rfl

theorem Obj.point_dest (H : Hashes) (d : Dest) (o : Obj) : (Obj.exec H (Reuse.point d).ops o).dest = d.addr := by
  cases d <;> rfl

/-- after ANY idiom history that ends with "point to d, then any calls", the next String()/OutScript() are those
    of a new address for d -/
theorem Obj.reuse_point_then_calls (H : Hashes) (hH : ∀ x, (H.sha2sum x).length = 32) (o : Obj)
    (hc : o.Coherent H) (pre : List Reuse) (d : Dest) (cs : List Reuse) (hcs : ∀ s ∈ cs, s.isCall = true) :
    let o' := Obj.reuse H (pre ++ Reuse.point d :: cs) o
    (o'.string H).1 = (Addr.toString H d.addr).getD [] ∧ o'.outScript = Addr.outScript d.addr ∧
      o'.Coherent H := by
  intro o'
  have hco : o'.Coherent H := Obj.reuse_coherent H hH _ o hc
  have hd : o'.dest = d.addr := by
    show (Obj.reuse H (pre ++ Reuse.point d :: cs) o).dest = d.addr
    rw [Obj.reuse_append, Obj.reuse_cons, Obj.dest_of_core (Obj.reuse_calls_core H cs hcs _), Obj.point_dest]
  refine ⟨?_, ?_, hco⟩
  · rw [(Obj.string_coherent H hH o' hco).1, Obj.fresh, hd]
  · rw [Obj.outScript, hd]

/-- a Base58Check address as `NewAddrFromString` leaves it (Version, Hash160, Checksum = the string's last four
    payload bytes, Enc58str = the string) is coherent -/
theorem Obj.parsed_b58_coherent (H : Hashes) (hs : Bytes) (hlen : 4 ≤ hs.length) (hp : ¬ segwitPrefix hs)
    (a : Addr) (dec : Bytes) (hd : Base58.decode hs = some dec) (h : fromString H hs = .ok a) :
    Obj.Coherent H ⟨none, hs, some (dec.drop 21), dec.headD 0, (dec.drop 1).take 20⟩ := by
  obtain ⟨dec', hd', hl, hck, he⟩ := (b58check_accept_iff H hs hlen hp a).mp h
  rw [hd] at hd'
  cases hd'
  have h21 : dec.headD 0 :: (dec.drop 1).take 20 = dec.take 21 := by
    cases dec with
    | nil => simp at hl
    | cons x t => simp
  refine ⟨Or.inr ?_, Or.inr ?_⟩
  · simp only [Obj.fresh, Obj.dest, Addr.toString, Option.getD_some, h21, hck, List.take_append_drop]
    exact (Base58.encode_decode hs dec hd).symm
  · simp only [h21, hck]

end GocoinV.Addr
