/-
  Proofs.C08_Wnaf — `ecmult_wnaf` (Model.Group.wnafAux / wnaf): for every window w ≥ 2 and every integer a with
  |a| ≤ 2^L (L < 600) the digit list represents a (Σ dᵢ·2^i = a), every digit is 0 or odd with |d| < 2^(w−1),
  and the list has at most L+1 entries — so for |a| ≤ 2^128 the fixed 129-slot array is never overrun.
-/
import GocoinV.Model.Group
import Mathlib.Logic.Function.Iterate
import Mathlib.Tactic.Ring
import Mathlib.Tactic.Linarith
import Mathlib.Tactic.Positivity

namespace GocoinV.C08

/-- Σ dᵢ·2^i, least significant digit first -/
def valD : List Int → Int
  | [] => 0
  | d :: r => d + 2 * valD r

theorem valD_append (l m : List Int) : valD (l ++ m) = valD l + 2 ^ l.length * valD m := by
  induction l with
  | nil => simp [valD]
  | cons d t ih => simp only [List.cons_append, valD, ih, List.length_cons, pow_succ]; ring

theorem valD_replicate (k : Nat) : valD (List.replicate k 0) = 0 := by
  induction k with
  | zero => rfl
  | succ n ih => simp [List.replicate_succ, valD, ih]

/-- a wNAF digit: zero, or odd and strictly inside (−2^(w−1), 2^(w−1)) -/
def Dig (w : Nat) (d : Int) : Prop := d = 0 ∨ (d % 2 = 1 ∧ -(2 : Int) ^ (w - 1) < d ∧ d < 2 ^ (w - 1))

/-- one round of the zero-stripping loop (`for X.is_even { zeroes++; X.rsh(1) }`) with a done flag -/
def stripStep (s : Int × Nat × Bool) : Int × Nat × Bool :=
  if s.2.2 then s else if s.1 % 2 = 0 then (s.1 >>> 1, s.2.1 + 1, false) else (s.1, s.2.1, true)

theorem shr1 (x : Int) : x >>> 1 = x / 2 := by
  rw [Int.shiftRight_eq_div_pow]; rfl

theorem strip_iter (x : Int) (z : Nat) : ∀ n : Nat,
    ((stripStep^[n] (x, z, false)).2.2 = true ∧ ∃ k, (stripStep^[n] (x, z, false)).2.1 = z + k ∧
        x = (stripStep^[n] (x, z, false)).1 * 2 ^ k ∧ (stripStep^[n] (x, z, false)).1 % 2 = 1) ∨
    ((stripStep^[n] (x, z, false)).2.2 = false ∧ (stripStep^[n] (x, z, false)).2.1 = z + n ∧
        x = (stripStep^[n] (x, z, false)).1 * 2 ^ n) := by
  intro n
  induction n with
  | zero => right; simp
  | succ m ih =>
    rw [Function.iterate_succ_apply']
    generalize stripStep^[m] (x, z, false) = r at ih
    obtain ⟨r1, r2, r3⟩ := r
    simp only at ih
    rcases ih with ⟨hf, k, hk1, hk2, hk3⟩ | ⟨hf, hc, hx⟩
    · left
      subst hf
      simp only [stripStep, if_true]
      exact ⟨trivial, k, hk1, hk2, hk3⟩
    · subst hf
      by_cases he : r1 % 2 = 0
      · right
        simp only [stripStep, Bool.false_eq_true, if_false, he, if_true]
        refine ⟨trivial, by omega, ?_⟩
        rw [hx, shr1, pow_succ]
        have : r1 = r1 / 2 * 2 := by omega
        conv_lhs => rw [this]
        ring
      · left
        simp only [stripStep, Bool.false_eq_true, if_false, he]
        exact ⟨trivial, m, hc, hx, by omega⟩

theorem pow_pos_int (n : Nat) : (0 : Int) < 2 ^ n := by positivity

/-- 2^600: the zero-stripping loop of the model looks at no more than 600 bits -/
def Q600 : Int := 2 ^ 600

theorem Q600_pos : 0 < Q600 := pow_pos_int 600

/-- the stripping loop as written in the model, for 0 < |x| < 2^600 -/
theorem strip_spec (x : Int) (z : Nat) (hx0 : x ≠ 0) (hlo : -Q600 < x) (hhi : x < Q600) :
    ∃ k x', (List.range 600).foldl (fun (s : Int × Nat × Bool) (_ : Nat) =>
        if s.2.2 then s else if s.1 % 2 = 0 then (s.1 >>> 1, s.2.1 + 1, false) else (s.1, s.2.1, true)) (x, z, false)
        = (x', z + k, true) ∧ x = x' * 2 ^ k ∧ x' % 2 = 1 := by
  have hfold := List.foldl_const stripStep (x, z, false) (List.range 600)
  rw [List.length_range] at hfold
  have hfold' : (List.range 600).foldl (fun (s : Int × Nat × Bool) (_ : Nat) =>
        if s.2.2 then s else if s.1 % 2 = 0 then (s.1 >>> 1, s.2.1 + 1, false) else (s.1, s.2.1, true)) (x, z, false)
        = stripStep^[600] (x, z, false) := hfold
  rw [hfold']
  have h := strip_iter x z 600
  generalize stripStep^[600] (x, z, false) = r at h
  obtain ⟨r1, r2, r3⟩ := r
  simp only at h
  rcases h with ⟨hf, k, hk1, hk2, hk3⟩ | ⟨_, _, hx⟩
  · exact ⟨k, r1, by rw [hf, hk1], hk2, hk3⟩
  · exfalso
    have hp := Q600_pos
    change x = r1 * Q600 at hx
    rcases lt_trichotomy r1 0 with h0 | h0 | h0
    · have : r1 * Q600 ≤ -1 * Q600 := mul_le_mul_of_nonneg_right (by omega) hp.le
      linarith
    · rw [h0, zero_mul] at hx; exact hx0 hx
    · have : 1 * Q600 ≤ r1 * Q600 := mul_le_mul_of_nonneg_right (by omega) hp.le
      linarith

/-! ### arithmetic of one emitted digit -/

/-- the digit chosen from the odd x': x' = 2M·xnew + d with d odd, −M < d < M (M = 2^(w−1) ≥ 2) -/
theorem digit_choice (x' M : Int) (hM : 2 ≤ M) (hMe : M % 2 = 0) (hodd : x' % 2 = 1) :
    let word := x' % (2 * M)
    (word / M % 2 ≠ 0 → x' = 2 * M * (x' / (2 * M) + 1) + (word - 2 * M) ∧ (word - 2 * M) % 2 = 1 ∧
        -M < word - 2 * M ∧ word - 2 * M < M) ∧
    (¬ word / M % 2 ≠ 0 → x' = 2 * M * (x' / (2 * M)) + word ∧ word % 2 = 1 ∧ -M < word ∧ word < M) := by
  intro word
  have h2M : (0 : Int) < 2 * M := by omega
  have hw0 : 0 ≤ word := Int.emod_nonneg _ (by omega)
  have hw1 : word < 2 * M := Int.emod_lt_of_pos _ h2M
  have hdiv : 2 * M * (x' / (2 * M)) + word = x' := Int.mul_ediv_add_emod x' (2 * M)
  have hwodd : word % 2 = 1 := by
    have : (x' % (2 * M)) % 2 = x' % 2 := Int.emod_emod_of_dvd x' ⟨M, rfl⟩
    rw [← hodd, ← this]
  by_cases hlt : word < M
  · have hq : word / M = 0 := Int.ediv_eq_zero_of_lt hw0 hlt
    refine ⟨fun h => absurd (by rw [hq]; rfl) h, fun _ => ⟨hdiv.symm, hwodd, by omega, hlt⟩⟩
  · have hq : word / M = 1 ∧ word % M = word - M :=
      (Int.ediv_emod_unique (by omega : (0 : Int) < M)).2 ⟨by ring, by omega, by omega⟩
    refine ⟨fun _ => ⟨by linarith [hdiv], by omega, by omega, by omega⟩,
      fun h => absurd (by rw [hq.1]; decide) h⟩

/-- invariant (B): 2·|value so far| < 2^(position of the next digit) -/
theorem B_step (v d T M : Int) (hT : 0 < T) (hv1 : -T < 2 * v) (hv2 : 2 * v < T) (hd1 : -M < d) (hd2 : d < M) :
    -(T * (2 * M)) < 2 * (v + T * d) ∧ 2 * (v + T * d) < T * (2 * M) := by
  have h1 : T * d ≤ T * (M - 1) := mul_le_mul_of_nonneg_left (by omega) hT.le
  have h2 : T * (-(M - 1)) ≤ T * d := mul_le_mul_of_nonneg_left (by omega) hT.le
  constructor <;> nlinarith

/-- the position T of a non-zero digit satisfies T < 2·|a| -/
theorem C_step (a v x' T A : Int) (hT : 0 < T) (hA : v + x' * T = a) (hv1 : -T < 2 * v) (hv2 : 2 * v < T)
    (hx : x' ≠ 0) (ha1 : -A ≤ a) (ha2 : a ≤ A) : T < 2 * A := by
  rcases lt_trichotomy x' 0 with h0 | h0 | h0
  · have : x' * T ≤ -1 * T := mul_le_mul_of_nonneg_right (by omega) hT.le
    linarith
  · exact absurd h0 hx
  · have : 1 * T ≤ x' * T := mul_le_mul_of_nonneg_right (by omega) hT.le
    linarith

/-- the remaining number at least halves: x' = 2M·xnew + d, |d| < M, M ≥ 2 ⟹ 2·|xnew| ≤ |x'| -/
theorem D_step (x' xnew d M F : Int) (hM : 2 ≤ M) (h : x' = 2 * M * xnew + d) (hd1 : -M < d) (hd2 : d < M)
    (hx1 : -(2 * F) < x') (hx2 : x' < 2 * F) (hF : 0 < F) : -F < xnew ∧ xnew < F := by
  rcases lt_trichotomy xnew 0 with h0 | h0 | h0
  · have : (M - 2) * (-(2 * xnew) - 1) ≥ 0 := mul_nonneg (by omega) (by omega)
    constructor <;> nlinarith
  · omega
  · have : (M - 2) * (2 * xnew - 1) ≥ 0 := mul_nonneg (by omega) (by omega)
    constructor <;> nlinarith

/-- stripping zeros does not enlarge the number -/
theorem strip_bound (x x' P F : Int) (hP : 1 ≤ P) (h : x = x' * P) (h1 : -F < x) (h2 : x < F) : -F < x' ∧ x' < F := by
  rcases lt_trichotomy x' 0 with h0 | h0 | h0
  · have : x' * P ≤ x' * 1 := mul_le_mul_of_nonpos_left hP h0.le
    constructor <;> nlinarith
  · constructor <;> nlinarith
  · have : x' * 1 ≤ x' * P := mul_le_mul_of_nonneg_left hP h0.le
    constructor <;> nlinarith

theorem two_pow_even (n : Nat) (h : 1 ≤ n) : (2 : Int) ^ n % 2 = 0 := by
  obtain ⟨m, rfl⟩ : ∃ m, n = m + 1 := ⟨n - 1, by omega⟩
  rw [pow_succ]; omega

theorem two_le_pow (n : Nat) (h : 1 ≤ n) : (2 : Int) ≤ 2 ^ n := by
  obtain ⟨m, rfl⟩ : ∃ m, n = m + 1 := ⟨n - 1, by omega⟩
  have := pow_pos_int m
  rw [pow_succ]; omega

/-- the loop invariant of `ecmult_wnaf`, by induction on the fuel -/
theorem wnafAux_spec (w : Nat) (hw : 2 ≤ w) (a : Int) (L : Nat) (ha1 : -(2 : Int) ^ L ≤ a) (ha2 : a ≤ 2 ^ L) :
    ∀ (fuel : Nat) (x : Int) (zeroes : Nat) (acc : List Int),
      valD acc + x * 2 ^ (acc.length + zeroes) = a →
      -(2 : Int) ^ (acc.length + zeroes) < 2 * valD acc → 2 * valD acc < 2 ^ (acc.length + zeroes) →
      (∀ d ∈ acc, Dig w d) →
      -(2 : Int) ^ fuel < x → x < 2 ^ fuel → -Q600 < x → x < Q600 → acc.length ≤ L + 1 →
      valD (wnafAux w fuel x zeroes acc) = a ∧ (∀ d ∈ wnafAux w fuel x zeroes acc, Dig w d) ∧
        (wnafAux w fuel x zeroes acc).length ≤ L + 1 := by
  intro fuel
  induction fuel with
  | zero =>
    intro x zeroes acc hA _ _ hD hx1 hx2 _ _ hlen
    have hx : x = 0 := by simp only [pow_zero] at hx1 hx2; omega
    unfold wnafAux
    subst hx
    rw [zero_mul, add_zero] at hA
    exact ⟨hA, hD, hlen⟩
  | succ f ih =>
    intro x zeroes acc hA hB1 hB2 hD hx1 hx2 hy1 hy2 hlen
    unfold wnafAux
    by_cases hx0 : x = 0
    · simp only [hx0, if_true]
      subst hx0
      rw [zero_mul, add_zero] at hA
      exact ⟨hA, hD, hlen⟩
    · simp only [hx0, if_false]
      obtain ⟨k, x', hstrip, hxk, hodd⟩ := strip_spec x zeroes hx0 hy1 hy2
      rw [hstrip]
      simp only []
      -- names
      have hMw : (2 : Int) ^ w = 2 * 2 ^ (w - 1) := by
        obtain ⟨m, rfl⟩ : ∃ m, w = m + 1 := ⟨w - 1, by omega⟩
        rw [pow_succ]; simp; ring
      have hM2 := two_le_pow (w - 1) (by omega)
      have hMe := two_pow_even (w - 1) (by omega)
      have hsh : x' >>> w = x' / (2 * 2 ^ (w - 1)) := by
        rw [Int.shiftRight_eq_div_pow, Nat.cast_pow, Nat.cast_ofNat, hMw]
      rw [hsh, hMw]
      have hdc := digit_choice x' (2 ^ (w - 1)) hM2 hMe hodd
      simp only [] at hdc
      -- the padded accumulator
      have hT := pow_pos_int (acc.length + zeroes + k)
      have hPk : (1 : Int) ≤ 2 ^ k := by have := pow_pos_int k; omega
      have hlen' : (acc ++ List.replicate (zeroes + k) 0).length = acc.length + zeroes + k := by
        simp [Nat.add_assoc]
      have hval' : valD (acc ++ List.replicate (zeroes + k) 0) = valD acc := by
        rw [valD_append, valD_replicate, mul_zero, add_zero]
      have hA' : valD acc + x' * 2 ^ (acc.length + zeroes + k) = a := by
        rw [← hA, hxk, pow_add]; ring
      have hTle : (2 : Int) ^ (acc.length + zeroes) ≤ 2 ^ (acc.length + zeroes + k) := by
        exact pow_le_pow_right₀ (by norm_num) (Nat.le_add_right _ _)
      have hx'0 : x' ≠ 0 := by rintro rfl; simp at hodd
      have hpos : (2 : Int) ^ (acc.length + zeroes + k) < 2 * 2 ^ L :=
        C_step a (valD acc) x' _ _ hT hA' (by linarith) (by linarith) hx'0 ha1 ha2
      have hposL : acc.length + zeroes + k ≤ L := by
        have : (2 : Int) ^ (acc.length + zeroes + k) < 2 ^ (L + 1) := by rw [pow_succ]; linarith
        have := (pow_lt_pow_iff_right₀ (by norm_num : (1 : Int) < 2)).1 this
        omega
      obtain ⟨hxs1, hxs2⟩ := strip_bound x x' (2 ^ k) (2 ^ (f + 1)) hPk hxk hx1 hx2
      obtain ⟨hys1, hys2⟩ := strip_bound x x' (2 ^ k) Q600 hPk hxk hy1 hy2
      have hDpad : ∀ d ∈ acc ++ List.replicate (zeroes + k) 0, Dig w d := by
        intro d hd
        rcases List.mem_append.1 hd with h | h
        · exact hD d h
        · exact Or.inl (List.eq_of_mem_replicate h)
      -- both branches share the same continuation argument
      have cont : ∀ (xnew d : Int), x' = 2 * 2 ^ (w - 1) * xnew + d → d % 2 = 1 → -(2 : Int) ^ (w - 1) < d →
          d < 2 ^ (w - 1) →
          valD (wnafAux w f xnew (w - 1) (acc ++ List.replicate (zeroes + k) 0 ++ [d])) = a ∧
          (∀ e ∈ wnafAux w f xnew (w - 1) (acc ++ List.replicate (zeroes + k) 0 ++ [d]), Dig w e) ∧
          (wnafAux w f xnew (w - 1) (acc ++ List.replicate (zeroes + k) 0 ++ [d])).length ≤ L + 1 := by
        intro xnew d hxd hdo hd1 hd2
        have hlen2 : (acc ++ List.replicate (zeroes + k) 0 ++ [d]).length + (w - 1) = acc.length + zeroes + k + w := by
          rw [List.length_append, hlen']; simp; omega
        have hval2 : valD (acc ++ List.replicate (zeroes + k) 0 ++ [d]) = valD acc + 2 ^ (acc.length + zeroes + k) * d := by
          rw [valD_append, hval', hlen']; simp [valD]
        have hpw : (2 : Int) ^ (acc.length + zeroes + k + w) = 2 ^ (acc.length + zeroes + k) * (2 * 2 ^ (w - 1)) := by
          rw [pow_add, hMw]
        obtain ⟨hb1, hb2⟩ := B_step (valD acc) d (2 ^ (acc.length + zeroes + k)) (2 ^ (w - 1)) hT
          (by linarith) (by linarith) hd1 hd2
        obtain ⟨hn1, hn2⟩ := D_step x' xnew d (2 ^ (w - 1)) (2 ^ f) hM2 hxd hd1 hd2
          (by rw [pow_succ] at hxs1; linarith) (by rw [pow_succ] at hxs2; linarith) (pow_pos_int f)
        obtain ⟨hm1, hm2⟩ := D_step x' xnew d (2 ^ (w - 1)) Q600 hM2 hxd hd1 hd2
          (by linarith [Q600_pos]) (by linarith [Q600_pos]) Q600_pos
        apply ih xnew (w - 1) (acc ++ List.replicate (zeroes + k) 0 ++ [d])
        · rw [hlen2, hval2, hpw, ← hA', hxd]; ring
        · rw [hlen2, hval2, hpw]; exact hb1
        · rw [hlen2, hval2, hpw]; exact hb2
        · intro e he
          rcases List.mem_append.1 he with h | h
          · exact hDpad e h
          · rw [List.mem_singleton.1 h]; exact Or.inr ⟨hdo, hd1, hd2⟩
        · exact hn1
        · exact hn2
        · exact hm1
        · exact hm2
        · rw [List.length_append, hlen']; simp; omega
      split
      · rename_i hc
        obtain ⟨e1, e2, e3, e4⟩ := hdc.1 hc
        exact cont _ _ e1 e2 e3 e4
      · rename_i hc
        obtain ⟨e1, e2, e3, e4⟩ := hdc.2 hc
        exact cont _ _ e1 e2 e3 e4


theorem pow_lt_Q600 (n : Nat) (h : n < 600) : (2 : Int) ^ n < Q600 :=
  pow_lt_pow_right₀ (by norm_num) h

/-- `ecmult_wnaf` run from the start: for |a| ≤ 2^L (L < 400) the digit list represents a, consists of wNAF digits
    and is at most L+1 long -/
theorem wnafAux_run (a : Int) (w : Nat) (hw : 2 ≤ w) (L : Nat) (hL : L < 400) (ha1 : -(2 : Int) ^ L ≤ a)
    (ha2 : a ≤ 2 ^ L) :
    valD (wnafAux w 400 a 0 []) = a ∧ (∀ d ∈ wnafAux w 400 a 0 [], Dig w d) ∧ (wnafAux w 400 a 0 []).length ≤ L + 1 := by
  have h400 : (2 : Int) ^ L < 2 ^ 400 := pow_lt_pow_right₀ (by norm_num) hL
  have h600 := pow_lt_Q600 L (by omega)
  apply wnafAux_spec w hw a L ha1 ha2 400 a 0 []
  · simp [valD]
  · simp [valD]
  · simp [valD]
  · intro d hd; simp at hd
  · linarith
  · linarith
  · linarith
  · linarith
  · simp

/-- `ecmult_wnaf` as called by `ECmult` (numbers of at most 128 bits, either sign): never overruns the 129-slot
    array, and the digits represent the number -/
theorem wnaf_ok (a : Int) (w : Nat) (hw : 2 ≤ w) (ha1 : -(2 : Int) ^ 128 ≤ a) (ha2 : a ≤ 2 ^ 128) :
    ∃ ds, wnaf a w = some ds ∧ valD ds = a ∧ (∀ d ∈ ds, Dig w d) ∧ ds.length ≤ 129 := by
  obtain ⟨h1, h2, h3⟩ := wnafAux_run a w hw 128 (by decide) ha1 ha2
  refine ⟨wnafAux w 400 a 0 [], ?_, h1, h2, h3⟩
  unfold wnaf
  simp only [h3, if_true]
end GocoinV.C08
