/-
  Proofs.C19Run3 — histories with reopens: the invariants and the value-level refinement along every history of
  cached-sub-language operations and non-volatile LoadData reopens.
-/
import GocoinV.Proofs.C19Reopen2
namespace GocoinV.Proofs.C19
open GocoinV GocoinV.Qdb GocoinV.QdbSpec

variable {eg : Bool}

/-- the abstract map as a function key ↦ value -/
def vals (db : DB) (k : Key) : Option Bytes := mget (absv db) k

theorem vals_eq (db : DB) (k : Key) : vals db k = (ilookup k db.index).map valOf := by
  unfold vals mget
  rw [ilookup_absv, Option.map_map]
  rfl

/-- the in-memory map at the level of values: only Put / PutExt / Del change it -/
def vstep (m : Key → Option Bytes) : Op → Key → Option Bytes
  | .put k v => fun j => if k = j then some v else m j
  | .putExt k v _ => fun j => if k = j then some v else m j
  | .del k => fun j => if k = j then none else m j
  | _ => m

def vrun (m : Key → Option Bytes) (ops : List Op) : Key → Option Bytes := ops.foldl vstep m

/-- operations of the extended sub-language: the cached ones, and Close + NewDBExt(non-volatile, LoadData) -/
def OpOK2 (eg : Bool) : Op → Prop
  | .reopen vol load _ => vol = false ∧ load = true
  | op => OpOK eg op

/-- side conditions, extended to reopen: sizes as for sync, and data-file sequence numbers do not wrap -/
def OpFits2 (db : DB) : Op → Prop
  | .reopen _ _ opts => SizeOK db ∧
      (openIndex { fs := (sync db).fs, volatile := false, opts := opts, eager := db.eager }).maxSeq + 1 < 2^32
  | op => OpFits db op

def RunFits2 : DB → List Op → Prop
  | _, [] => True
  | db, op :: t => OpFits2 db op ∧ RunFits2 (step db op) t

theorem inv3_effs (o : DB) (h : Inv3 o) (e : List (String × Effect)) : Inv3 { o with effs := e } :=
  ⟨⟨h.inv.cached, h.inv.nv, h.inv.wf, h.inv.nodup, h.inv.pnodup, h.inv.pkeys, h.inv.ver, h.inv.verlt, h.inv.dseq,
    h.inv.logst, h.inv.log1, h.inv.log2, h.inv.clean, h.inv.files, h.inv.dflags, h.inv.dat1, h.inv.dat2,
    h.inv.dreads⟩, ⟨h.i2.free, h.i2.other, h.i2.seqs⟩⟩

/-- Close + NewDBExt(non-volatile, LoadData): invariants again, same values -/
theorem reopen_inv3 (db : DB) (h : Inv3 db) (opts : Opts) (hs : SizeOK db)
    (hmax : (openIndex { fs := (sync db).fs, volatile := false, opts := opts, eager := db.eager }).maxSeq + 1 < 2^32) :
    Inv3 (step db (.reopen false true opts)) ∧ ∀ k, vals (step db (.reopen false true opts)) k = vals db k := by
  obtain ⟨sinv, sabs, spe, _⟩ := sync_inv db h.inv hs
  have hclose : (close db).failed = none ∧ (close db).fs = (sync db).fs := by
    unfold close
    rw [if_neg (notFailed h.inv.cached)]
    simp only [h.inv.nv, Bool.false_eq_true, ↓reduceIte, sinv.cached.1]
    exact ⟨trivial, trivial⟩
  obtain ⟨E, hE, hlog⟩ := sinv.logst
  have hse : (sync db).eager = db.eager := (sync_cached db h.inv.cached).eager
  have hce : (close db).eager = db.eager := close_eager db h.inv.cached
  have hR : DirReadable db.eager (sync db).fs := fun kr hkr => ⟨by rw [← hse]; exact sinv.dflags kr hkr, sinv.dreads kr hkr⟩
  have h3 := open_inv3 (sync db).fs opts E hE (by rw [sinv.ver]; exact hlog) (by rw [sinv.ver]; exact sinv.verlt) hR hmax
  obtain ⟨_, o2⟩ := open_of_inv (sync db) sinv spe false opts
  rw [hse] at o2
  have hstep : step db (.reopen false true opts) =
      { openDB (sync db).fs false true opts db.eager with
        effs := (close db).effs ++ (openDB (sync db).fs false true opts db.eager).effs } := by
    show (match (close db).failed with
      | some _ => close db
      | none => { openDB (close db).fs false true opts (close db).eager with
                  effs := (close db).effs ++ (openDB (close db).fs false true opts (close db).eager).effs }) = _
    rw [hclose.1, hclose.2, hce]
  rw [hstep]
  refine ⟨inv3_effs _ h3 _, fun k => ?_⟩
  rw [vals_eq, vals_eq]
  show (ilookup k (openDB (sync db).fs false true opts db.eager).index).map valOf = _
  rw [o2 k, ← vals_eq, ← vals_eq]
  unfold vals
  rw [sabs]

def browseGM (w : List (Key × Nat)) (vs : Option (List Key)) (k : Key) (vf : Bytes × Nat) : Bytes × Nat :=
  if skipB false vs vf.2 k = true then vf else (vf.1, applyBrowsingFlags vf.2 (walkRes w k))

theorem mget_mstep (m : M) (hnd : (Keys m).Nodup) (op : Op) (hr : ∀ a b c, op ≠ .reopen a b c) (j : Key) :
    mget (mstep m op) j = vstep (mget m) op j := by
  unfold mget
  cases op with
  | put k v =>
    simp only [mstep, vstep, ilookup_iset]
    by_cases hk : k = j <;> simp [hk]
  | putExt k v f =>
    simp only [mstep, vstep, ilookup_iset]
    by_cases hk : k = j <;> simp [hk]
  | del k =>
    simp only [mstep, vstep, ilookup_ierase _ _ _ hnd]
    by_cases hk : k = j <;> simp [hk]
  | get k =>
    simp only [mstep, vstep]
    cases hl : ilookup k m with
    | none => rfl
    | some vf =>
      obtain ⟨v, f⟩ := vf
      simp only [ilookup_iset]
      by_cases hk : k = j
      · subst hk; simp [hl]
      · simp [hk]
  | browse w =>
    simp only [mstep, vstep, mbrowseState]
    generalize mvisitSet false m w = vs
    have : (m.map fun (x : Key × (Bytes × Nat)) =>
        match x with
        | (k, v, f) => if skipB false vs f k = true then (k, v, f) else (k, v, applyBrowsingFlags f (walkRes w k))) =
        m.map fun kr => (kr.1, browseGM w vs kr.1 kr.2) := by
      apply List.map_congr_left
      intro x _
      obtain ⟨k, v, f⟩ := x
      simp only [browseGM]
      split <;> rfl
    rw [this, ilookup_mapKV (browseGM w vs) j m]
    cases ilookup j m with
    | none => rfl
    | some vf =>
      simp only [Option.map_some, Option.some.injEq, browseGM]
      split <;> rfl
  | applyFlags k fl =>
    simp only [mstep, vstep]
    cases hl : ilookup k m with
    | none => rfl
    | some vf =>
      obtain ⟨v, f⟩ := vf
      simp only [ilookup_iset]
      by_cases hk : k = j
      · subst hk; simp [hl]
      · simp [hk]
  | defrag f => rfl
  | sync => rfl
  | noSync => rfl
  | reopen a b c => exact absurd rfl (hr a b c)

theorem keys_absv (db : DB) : Keys (absv db) = Keys db.index := by
  simp [Keys, absv, absE, List.map_map]

/-- one step of the extended sub-language: invariants, and the values follow the in-memory map -/
theorem step_inv3' (db : DB) (h : Inv3 db) (op : Op) (ok : OpOK2 db.eager op) (fits : OpFits2 db op) :
    Inv3 (step db op) ∧ ∀ k, vals (step db op) k = vstep (vals db) op k := by
  cases op with
  | reopen vol load opts =>
    obtain ⟨rfl, rfl⟩ := ok
    exact reopen_inv3 db h opts fits.1 fits.2
  | put k v =>
    refine ⟨step_inv3 db h _ ok fits, fun j => ?_⟩
    unfold vals
    rw [(step_cached db (.put k v) h.inv.cached ok).2]
    exact mget_mstep _ (by rw [keys_absv]; exact h.inv.nodup) _ (fun _ _ _ => by simp) j
  | putExt k v f =>
    refine ⟨step_inv3 db h _ ok fits, fun j => ?_⟩
    unfold vals
    rw [(step_cached db (.putExt k v f) h.inv.cached ok).2]
    exact mget_mstep _ (by rw [keys_absv]; exact h.inv.nodup) _ (fun _ _ _ => by simp) j
  | del k =>
    refine ⟨step_inv3 db h _ ok fits, fun j => ?_⟩
    unfold vals
    rw [(step_cached db (.del k) h.inv.cached ok).2]
    exact mget_mstep _ (by rw [keys_absv]; exact h.inv.nodup) _ (fun _ _ _ => by simp) j
  | get k =>
    refine ⟨step_inv3 db h _ ok fits, fun j => ?_⟩
    unfold vals
    rw [(step_cached db (.get k) h.inv.cached ok).2]
    exact mget_mstep _ (by rw [keys_absv]; exact h.inv.nodup) _ (fun _ _ _ => by simp) j
  | browse w =>
    refine ⟨step_inv3 db h _ ok fits, fun j => ?_⟩
    unfold vals
    rw [(step_cached db (.browse w) h.inv.cached ok).2]
    exact mget_mstep _ (by rw [keys_absv]; exact h.inv.nodup) _ (fun _ _ _ => by simp) j
  | applyFlags k fl =>
    refine ⟨step_inv3 db h _ ok fits, fun j => ?_⟩
    unfold vals
    rw [(step_cached db (.applyFlags k fl) h.inv.cached ok).2]
    exact mget_mstep _ (by rw [keys_absv]; exact h.inv.nodup) _ (fun _ _ _ => by simp) j
  | defrag f =>
    refine ⟨step_inv3 db h _ ok fits, fun j => ?_⟩
    unfold vals
    rw [(step_cached db (.defrag f) h.inv.cached ok).2]
    rfl
  | sync =>
    refine ⟨step_inv3 db h _ ok fits, fun j => ?_⟩
    unfold vals
    rw [(step_cached db (.sync) h.inv.cached ok).2]
    rfl
  | noSync =>
    refine ⟨step_inv3 db h _ ok fits, fun j => ?_⟩
    unfold vals
    rw [(step_cached db (.noSync) h.inv.cached ok).2]
    rfl

/-- the ghost field never changes (extended sub-language) -/
theorem step_eager2 (db : DB) (h : Inv3 db) (op : Op) (ok : OpOK2 db.eager op) (fits : OpFits2 db op) :
    (step db op).eager = db.eager := by
  cases op with
  | reopen vol load opts =>
    obtain ⟨rfl, rfl⟩ := ok
    obtain ⟨sinv, _, _, _⟩ := sync_inv db h.inv fits.1
    have hclose : (close db).failed = none := by
      unfold close
      rw [if_neg (notFailed h.inv.cached)]
      simp only [h.inv.nv, Bool.false_eq_true, ↓reduceIte, sinv.cached.1]
    show (match (close db).failed with
      | some _ => close db
      | none => { openDB (close db).fs false true opts (close db).eager with
                  effs := (close db).effs ++ (openDB (close db).fs false true opts (close db).eager).effs }).eager = _
    rw [hclose]
    show (openDB (close db).fs false true opts (close db).eager).eager = _
    rw [openDB_eager, close_eager db h.inv.cached]
  | put k v => exact step_eager db _ h.inv.cached ok
  | putExt k v f => exact step_eager db _ h.inv.cached ok
  | del k => exact step_eager db _ h.inv.cached ok
  | get k => exact step_eager db _ h.inv.cached ok
  | browse w => exact step_eager db _ h.inv.cached ok
  | applyFlags k fl => exact step_eager db _ h.inv.cached ok
  | defrag f => exact step_eager db _ h.inv.cached ok
  | sync => exact step_eager db _ h.inv.cached ok
  | noSync => exact step_eager db _ h.inv.cached ok

theorem run_inv3' (ops : List Op) (db : DB) (h : Inv3 db) (ok : ∀ op ∈ ops, OpOK2 db.eager op) (fits : RunFits2 db ops) :
    Inv3 (run db ops) ∧ ∀ k, vals (run db ops) k = vrun (vals db) ops k := by
  induction ops generalizing db with
  | nil => exact ⟨h, fun _ => rfl⟩
  | cons op t ih =>
    obtain ⟨h1, h2⟩ := step_inv3' db h op (ok op List.mem_cons_self) fits.1
    obtain ⟨h3, h4⟩ := ih (step db op) h1 (fun o ho => by
      rw [step_eager2 db h op (ok op List.mem_cons_self) fits.1]; exact ok o (List.mem_cons_of_mem _ ho)) fits.2
    refine ⟨h3, fun k => ?_⟩
    show vals (run (step db op) t) k = vrun (vstep (vals db) op) t k
    rw [h4 k]
    have : vals (step db op) = vstep (vals db) op := funext h2
    rw [this]

/-! ### Count: association lists with distinct keys and the same key set have the same length -/

theorem length_ierase {α : Type} (k : Key) (l : List (Key × α)) (h : k ∈ Keys l) :
    (ierase k l).length + 1 = l.length := by
  induction l with
  | nil => cases h
  | cons hd t ih =>
    obtain ⟨j, q⟩ := hd
    by_cases hj : j = k
    · simp [ierase, hj]
    · simp only [Keys, List.map_cons, List.mem_cons] at h
      have hk : k ∈ Keys t := by
        rcases h with h | h
        · exact absurd h.symm hj
        · exact h
      simp only [ierase, hj, ↓reduceIte, List.length_cons]
      have := ih hk
      omega

theorem ilookup_isSome_iff {α : Type} (k : Key) (l : List (Key × α)) : (ilookup k l).isSome = true ↔ k ∈ Keys l := by
  induction l with
  | nil => simp [ilookup, Keys]
  | cons hd t ih =>
    obtain ⟨j, q⟩ := hd
    by_cases hj : j = k
    · simp [ilookup, Keys, hj]
    · have hj' : ¬ k = j := fun e => hj e.symm
      simp only [ilookup, hj, ↓reduceIte, Keys, List.map_cons, List.mem_cons, hj', false_or]
      exact ih

theorem length_eq_of_same_keys {α β : Type} (l1 : List (Key × α)) (l2 : List (Key × β))
    (h1 : (Keys l1).Nodup) (h2 : (Keys l2).Nodup)
    (h : ∀ k, (ilookup k l1).isSome = (ilookup k l2).isSome) : l1.length = l2.length := by
  induction l1 generalizing l2 with
  | nil =>
    cases l2 with
    | nil => rfl
    | cons hd t =>
      have := h hd.1
      simp [ilookup] at this
  | cons hd t ih =>
    obtain ⟨k, x⟩ := hd
    simp only [Keys, List.map_cons, List.nodup_cons] at h1
    have hk2 : k ∈ Keys l2 := by
      rw [← ilookup_isSome_iff, ← h k]
      simp [ilookup]
    have hlen := length_ierase k l2 hk2
    have := ih (ierase k l2) h1.2 (nodup_ierase k l2 h2) (by
      intro j
      rw [ilookup_ierase _ _ _ h2]
      by_cases hj : k = j
      · subst hj
        simp only [↓reduceIte, Option.isSome_none]
        have : ¬ (k ∈ Keys t) := h1.1
        cases hl : ilookup k t with
        | none => rfl
        | some y => exact absurd ((ilookup_isSome_iff k t).mp (by simp [hl])) this
      · simp only [hj, ↓reduceIte]
        have := h j
        simp only [ilookup, hj, ↓reduceIte] at this
        exact this)
    simp only [List.length_cons]
    omega

/-- the list-level map follows the value-level map -/
theorem mrun_vals (ops : List Op) (m : M) (hnd : (Keys m).Nodup) :
    (Keys (mrun m ops)).Nodup ∧ ∀ k, mget (mrun m ops) k = vrun (mget m) ops k := by
  induction ops generalizing m with
  | nil => exact ⟨hnd, fun _ => rfl⟩
  | cons op t ih =>
    have hnd' : (Keys (mstep m op)).Nodup := by
      cases op with
      | put k v => exact nodup_iset k _ m hnd
      | putExt k v f => exact nodup_iset k _ m hnd
      | del k => exact nodup_ierase k m hnd
      | get k =>
        simp only [mstep]
        cases ilookup k m with
        | none => exact hnd
        | some vf => exact nodup_iset k _ m hnd
      | browse w =>
        simp only [mstep, mbrowseState]
        generalize mvisitSet false m w = vs
        have : Keys (m.map fun (x : Key × (Bytes × Nat)) =>
            match x with
            | (k, v, f) => if skipB false vs f k = true then (k, v, f) else (k, v, applyBrowsingFlags f (walkRes w k)))
            = Keys m := by
          unfold Keys
          rw [List.map_map]
          apply List.map_congr_left
          intro x _
          obtain ⟨k, v, f⟩ := x
          simp only [Function.comp]
          split <;> rfl
        rw [this]; exact hnd
      | applyFlags k fl =>
        simp only [mstep]
        cases ilookup k m with
        | none => exact hnd
        | some vf => exact nodup_iset k _ m hnd
      | defrag f => exact hnd
      | sync => exact hnd
      | noSync => exact hnd
      | reopen a b c => exact hnd
    obtain ⟨a, b⟩ := ih (mstep m op) hnd'
    refine ⟨a, fun k => ?_⟩
    show mget (mrun (mstep m op) t) k = vrun (vstep (mget m) op) t k
    rw [b k]
    have : mget (mstep m op) = vstep (mget m) op := by
      funext j
      cases op with
      | reopen a b c => rfl
      | put k v => exact mget_mstep m hnd _ (fun _ _ _ => by simp) j
      | putExt k v f => exact mget_mstep m hnd _ (fun _ _ _ => by simp) j
      | del k => exact mget_mstep m hnd _ (fun _ _ _ => by simp) j
      | get k => exact mget_mstep m hnd _ (fun _ _ _ => by simp) j
      | browse w => exact mget_mstep m hnd _ (fun _ _ _ => by simp) j
      | applyFlags k fl => exact mget_mstep m hnd _ (fun _ _ _ => by simp) j
      | defrag f => rfl
      | sync => rfl
      | noSync => rfl
    rw [this]

theorem run_eager2 (ops : List Op) (db : DB) (h : Inv3 db) (ok : ∀ op ∈ ops, OpOK2 db.eager op) (fits : RunFits2 db ops) :
    (run db ops).eager = db.eager := by
  induction ops generalizing db with
  | nil => rfl
  | cons op t ih =>
    obtain ⟨h1, _⟩ := step_inv3' db h op (ok op List.mem_cons_self) fits.1
    have he := step_eager2 db h op (ok op List.mem_cons_self) fits.1
    exact (ih (step db op) h1 (fun o ho => by rw [he]; exact ok o (List.mem_cons_of_mem _ ho)) fits.2).trans he

end GocoinV.Proofs.C19
