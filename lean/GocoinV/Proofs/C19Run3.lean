/-
  Proofs.C19Run3 — histories with reopens: the invariants and the value-level refinement along every history of
  cached-sub-language operations and non-volatile LoadData reopens.
-/
import GocoinV.Proofs.C19Reopen2
namespace GocoinV.Proofs.C19
open GocoinV GocoinV.Qdb GocoinV.QdbSpec

/-- the abstract map as a function key ↦ value -/
def vals (db : DB) (k : Key) : Option Bytes := mget (absv db) k

theorem vals_eq (db : DB) (k : Key) : vals db k = (ilookup k db.index).map valOf := by
  unfold vals mget
  rw [ilookup_absv, Option.map_map]
  rfl

/-- the in-memory map at the level of values: only Put / PutExt / Del change it -/
def vstep (m : Key → Option Bytes) : Op → Key → Option Bytes
  | .put k v => fun j => if k = j then some v else m j
  | .putExt k v _ => fun j => if k = j then some v else m j
  | .del k => fun j => if k = j then none else m j
  | _ => m

def vrun (m : Key → Option Bytes) (ops : List Op) : Key → Option Bytes := ops.foldl vstep m

/-- operations of the extended sub-language: the cached ones, and Close + NewDBExt(non-volatile, LoadData) -/
def OpOK2 : Op → Prop
  | .reopen vol load _ => vol = false ∧ load = true
  | op => OpOK op

/-- side conditions, extended to reopen: sizes as for sync, and data-file sequence numbers do not wrap -/
def OpFits2 (db : DB) : Op → Prop
  | .reopen _ _ opts => SizeOK db ∧
      (openIndex { fs := (sync db).fs, volatile := false, opts := opts }).maxSeq + 1 < 2^32
  | op => OpFits db op

def RunFits2 : DB → List Op → Prop
  | _, [] => True
  | db, op :: t => OpFits2 db op ∧ RunFits2 (step db op) t

theorem inv3_effs (o : DB) (h : Inv3 o) (e : List (String × Effect)) : Inv3 { o with effs := e } :=
  ⟨⟨h.inv.cached, h.inv.nv, h.inv.wf, h.inv.nodup, h.inv.pnodup, h.inv.pkeys, h.inv.ver, h.inv.verlt, h.inv.dseq,
    h.inv.logst, h.inv.log1, h.inv.log2, h.inv.clean, h.inv.files, h.inv.dflags, h.inv.dat1, h.inv.dat2,
    h.inv.dreads⟩, ⟨h.i2.free, h.i2.other, h.i2.seqs⟩⟩

/-- Close + NewDBExt(non-volatile, LoadData): invariants again, same values -/
theorem reopen_inv3 (db : DB) (h : Inv3 db) (opts : Opts) (hs : SizeOK db)
    (hmax : (openIndex { fs := (sync db).fs, volatile := false, opts := opts }).maxSeq + 1 < 2^32) :
    Inv3 (step db (.reopen false true opts)) ∧ ∀ k, vals (step db (.reopen false true opts)) k = vals db k := by
  obtain ⟨sinv, sabs, spe, _⟩ := sync_inv db h.inv hs
  have hclose : (close db).failed = none ∧ (close db).fs = (sync db).fs := by
    unfold close
    rw [if_neg (notFailed h.inv.cached)]
    simp only [h.inv.nv, Bool.false_eq_true, ↓reduceIte, sinv.cached.1]
    exact ⟨trivial, trivial⟩
  obtain ⟨E, hE, hlog⟩ := sinv.logst
  have hR : DirReadable (sync db).fs := fun kr hkr => ⟨sinv.dflags kr hkr, sinv.dreads kr hkr⟩
  have h3 := open_inv3 (sync db).fs opts E hE (by rw [sinv.ver]; exact hlog) (by rw [sinv.ver]; exact sinv.verlt) hR hmax
  obtain ⟨_, o2⟩ := open_of_inv (sync db) sinv spe false opts
  have hstep : step db (.reopen false true opts) =
      { openDB (sync db).fs false true opts with
        effs := (close db).effs ++ (openDB (sync db).fs false true opts).effs } := by
    show (match (close db).failed with
      | some _ => close db
      | none => { openDB (close db).fs false true opts with
                  effs := (close db).effs ++ (openDB (close db).fs false true opts).effs }) = _
    rw [hclose.1, hclose.2]
  rw [hstep]
  refine ⟨inv3_effs _ h3 _, fun k => ?_⟩
  rw [vals_eq, vals_eq]
  show (ilookup k (openDB (sync db).fs false true opts).index).map valOf = _
  rw [o2 k, ← vals_eq, ← vals_eq]
  unfold vals
  rw [sabs]

end GocoinV.Proofs.C19
