/-
  Proofs.C02Tail — `tail_irrelevant` (DESIGN §6 C02 (d)): a script with a decode error never evaluates to true in
  C01's model of gocoin's interpreter (Model/ScriptEval.lean), whatever the stack, flags, signature version and
  oracle instance — so wherever gocoin's `SignatureHash` drops the undecodable tail of a script code (`break`)
  and the original algorithm keeps part of it, the verdict of the caller is already `false`.
  Uses C01's decode lemma `parseOne_of_getOpcode` (Proofs/C01Decode.lean); core only.
-/
import GocoinV.Proofs.C01Decode
namespace GocoinV.Proofs.C02T
open GocoinV GocoinV.Script GocoinV.Proofs.C01

theorem bind_ne_ok {α β : Type} (x : Res α) (f : α → Res β) (h : ∀ a, x = .ok a → ∀ b, f a ≠ .ok b) :
    ∀ b, (x >>= f) ≠ .ok b := by
  intro b
  cases x with
  | ok a => simpa using h a rfl b
  | fail => simp
  | panic => simp
  | need q => simp

/-- the interpreter loop never ends in `ok` on a script rest with a decode error somewhere behind the current
    position (same fuel as the reference parser) -/
theorem evalLoop_bad (c : Ctx) : ∀ (f : Nat) (rest : Bytes) (pos : Nat) (st : St),
    (ScriptSpec.parseAux f rest).2 = true → ∀ s, evalLoop c f rest pos st ≠ .ok s := by
  intro f
  induction f with
  | zero =>
    intro rest pos st h s
    simp only [ScriptSpec.parseAux, Bool.not_eq_true'] at h
    simp [evalLoop, h]
  | succ f ih =>
    intro rest pos st h s
    unfold evalLoop
    by_cases he : rest.isEmpty = true
    · simp [ScriptSpec.parseAux, he] at h
    · simp only [he, Bool.false_eq_true, ↓reduceIte]
      cases hg : getOpcode rest with
      | none => simp
      | some op =>
        obtain ⟨i, hp, _, _, hafter, _, _, _⟩ := parseOne_of_getOpcode hg
        have hb : (ScriptSpec.parseAux f (rest.drop op.n)).2 = true := by
          simp only [ScriptSpec.parseAux, he, Bool.false_eq_true, ↓reduceIte, hp] at h
          rw [← hafter]; exact h
        simp only []
        exact bind_ne_ok _ _ (fun st' _ b => ih (rest.drop op.n) (pos + 1) st' hb b) s

/-- a script with a decode error fails: `evalScript` never returns true on it -/
theorem evalScript_bad (O : Oracles) (tx : TxCtx) (flags : Nat) (p : Bytes) (stack : Stack) (sv : SigVersion)
    (ed : ExecData) (h : (ScriptSpec.parse p).2 = true) : ∀ s, evalScript O tx flags p stack sv ed ≠ .ok s := by
  intro s
  unfold evalScript
  split
  · simp
  · have hl := evalLoop_bad ⟨O, tx, flags, sv, p⟩ p.length p 0
      { stack := stack, ed := { ed with codesepPos := 0xFFFFFFFF } } h
    have hb := bind_ne_ok (evalLoop ⟨O, tx, flags, sv, p⟩ p.length p 0
        { stack := stack, ed := { ed with codesepPos := 0xFFFFFFFF } })
      (fun st => if st.exe.length > 0 then Res.fail else pure st.stack) (fun a ha => absurd ha (hl a)) s
    intro hr
    apply hb
    generalize (evalLoop ⟨O, tx, flags, sv, p⟩ p.length p 0
        { stack := stack, ed := { ed with codesepPos := 0xFFFFFFFF } } >>=
      fun st => if st.exe.length > 0 then Res.fail else pure st.stack) = r at hr ⊢
    cases r <;> simp_all [recoverPanic]

end GocoinV.Proofs.C02T
