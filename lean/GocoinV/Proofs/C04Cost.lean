/-
  Proofs.C04Cost — the consensus sigop cost of a block is bounded by 160 × (bytes of its scripts + number of inputs),
  so for a block within the weight limit it is far below 2^32: gocoin's uint32 accumulator equals the exact cost.
-/
import GocoinV.Spec.Connect
namespace GocoinV.Proofs.C04
open GocoinV GocoinV.Connect
open GocoinV.Spec.Connect (Coin Utxo InAcc Acc spendInput spendInputs connectTx connectTxs inputSigOpCost)

theorem getOpcode_bounds (scr : Bytes) (op : Nat) (d : Bytes) (le : Nat) (h : getOpcode scr = some (op, d, le)) :
    1 ≤ le ∧ le ≤ scr.length ∧ d.length + 1 ≤ le := by
  unfold getOpcode at h
  cases scr with
  | nil => simp at h
  | cons x t =>
    simp only [] at h
    split at h
    · split at h
      · cases h
      · rename_i size hl _
        split at h
        · cases h
        · rename_i hlen
          simp only [Option.some.injEq, Prod.mk.injEq] at h
          obtain ⟨_, h2, h3⟩ := h
          subst h2; subst h3
          simp only [List.length_take, List.length_drop]
          omega
    · simp only [Option.some.injEq, Prod.mk.injEq] at h
      obtain ⟨_, h2, h3⟩ := h
      subst h2; subst h3
      simp

theorem sigOpLoop_le (acc : Bool) (fuel : Nat) (scr : Bytes) (last n : Nat) :
    Spec.Connect.sigOpLoop acc fuel scr last n ≤ n + 20 * scr.length := by
  induction fuel generalizing scr last n with
  | zero => unfold Spec.Connect.sigOpLoop; omega
  | succ f ih =>
    unfold Spec.Connect.sigOpLoop
    split
    · omega
    · split
      · omega
      · rename_i opcode d le hg
        obtain ⟨b1, b2, _⟩ := getOpcode_bounds scr opcode d le hg
        have hl : (scr.drop le).length = scr.length - le := by simp
        simp only []
        refine Nat.le_trans (ih _ _ _) ?_
        rw [hl]
        split
        · omega
        · split
          · split
            · omega
            · omega
          · omega

theorem sigOpCount_le (scr : Bytes) (acc : Bool) : Spec.Connect.sigOpCount scr acc ≤ 20 * scr.length := by
  have := sigOpLoop_le acc scr.length scr 0xff 0
  unfold Spec.Connect.sigOpCount
  omega

theorem lastPushOnly_len (fuel : Nat) (scr d d' : Bytes) (N : Nat) (hd : d.length ≤ N) (hs : scr.length ≤ N)
    (h : Spec.Connect.lastPushOnly fuel scr d = some d') : d'.length ≤ N := by
  induction fuel generalizing scr d with
  | zero =>
    unfold Spec.Connect.lastPushOnly at h
    simp only [Option.some.injEq] at h
    subst h; exact hd
  | succ f ih =>
    unfold Spec.Connect.lastPushOnly at h
    split at h
    · simp only [Option.some.injEq] at h
      subst h; exact hd
    · split at h
      · cases h
      · rename_i opcode dd le hg
        obtain ⟨b1, b2, b3⟩ := getOpcode_bounds scr opcode dd le hg
        split at h
        · cases h
        · exact ih (scr.drop le) dd (by omega) (by simp; omega) h

theorem p2shSigOps_le (scriptSig : Bytes) : Spec.Connect.p2shSigOps scriptSig ≤ 20 * scriptSig.length := by
  unfold Spec.Connect.p2shSigOps
  cases h : Spec.Connect.lastPushOnly scriptSig.length scriptSig [] with
  | none => simp
  | some r =>
    have := lastPushOnly_len _ _ _ r scriptSig.length (by simp) (Nat.le_refl _) h
    have := sigOpCount_le r true
    simp only []
    omega

theorem witProg_le (v : Nat) (p : Bytes) (w : List Bytes) :
    Spec.Connect.witProgSigOps v p w ≤ 1 + 20 * (w.getLastD []).length := by
  unfold Spec.Connect.witProgSigOps
  split
  · omega
  · split
    · have := sigOpCount_le (w.getLastD []) true; omega
    · omega

theorem witnessSigOps_le (inp : TxIn) (pk : Bytes) :
    Spec.Connect.witnessSigOps inp pk ≤ 1 + 20 * (inp.witness.getLastD []).length := by
  unfold Spec.Connect.witnessSigOps
  split
  · exact witProg_le _ _ _
  · split
    · split
      · split
        · exact witProg_le _ _ _
        · omega
      · omega
    · omega

/-- bytes attributed to one input: 1 + scriptSig + the last witness item (the script that witness sigops are counted in) -/
def inBytes (i : TxIn) : Nat := 1 + i.scriptSig.length + (i.witness.getLastD []).length
/-- script bytes of a transaction (a lower bound of its serialised size) -/
def txScriptBytes (tx : Tx) : Nat := (tx.ins.map inBytes).sum + (tx.outs.map (·.script.length)).sum
def blockScriptBytes (b : Block) : Nat := (b.txs.map txScriptBytes).sum

theorem inputSigOpCost_le (b : Block) (inp : TxIn) (c : Coin) :
    inputSigOpCost b inp c ≤ 80 * inBytes inp := by
  unfold inputSigOpCost inBytes
  have h1 := p2shSigOps_le inp.scriptSig
  have h2 := witnessSigOps_le inp c.script
  split <;> split <;> omega

theorem spendInput_sigops (b : Block) (tx : Tx) (inp : TxIn) (a a' : InAcc) (h : spendInput b tx inp a = .ok a') :
    a'.sigops ≤ a.sigops + 80 * inBytes inp := by
  unfold spendInput at h
  split at h
  · simp [throw, throwThe, MonadExceptOf.throw] at h
  · rename_i c _
    simp only [bind, Except.bind, pure, Except.pure] at h
    repeat' split at h
    all_goals first
      | (cases h; done)
      | (simp only [Except.ok.injEq] at h
         subst h
         have := inputSigOpCost_le b inp c
         simp only []
         omega)

theorem spendInputs_sigops (b : Block) (tx : Tx) (ins : List TxIn) (a a' : InAcc) (h : spendInputs b tx ins a = .ok a') :
    a'.sigops ≤ a.sigops + 80 * (ins.map inBytes).sum := by
  induction ins generalizing a with
  | nil =>
    simp only [spendInputs, Except.ok.injEq] at h
    subst h; simp
  | cons i r ih =>
    unfold spendInputs at h
    cases hp : spendInput b tx i a with
    | error e => simp [hp] at h
    | ok a1 =>
      simp only [hp] at h
      have h1 := spendInput_sigops b tx i a a1 hp
      have h2 := ih a1 h
      simp only [List.map_cons, List.sum_cons]
      omega

theorem sum_sigOpCount_le {α : Type} (l : List α) (f : α → Bytes) :
    (l.map fun x => Spec.Connect.sigOpCount (f x) false).sum ≤ 20 * (l.map fun x => (f x).length).sum := by
  induction l with
  | nil => simp
  | cons x r ih =>
    simp only [List.map_cons, List.sum_cons]
    have := sigOpCount_le (f x) false
    omega

theorem sum_le_inBytes (ins : List TxIn) : (ins.map fun i => i.scriptSig.length).sum ≤ (ins.map inBytes).sum := by
  induction ins with
  | nil => simp
  | cons x r ih =>
    simp only [List.map_cons, List.sum_cons, inBytes]
    omega

theorem legacy_le (tx : Tx) : 4 * Spec.Connect.legacySigOps tx ≤ 80 * txScriptBytes tx := by
  unfold Spec.Connect.legacySigOps txScriptBytes
  have h1 := sum_sigOpCount_le tx.ins (·.scriptSig)
  have h2 := sum_sigOpCount_le tx.outs (·.script)
  have h3 := sum_le_inBytes tx.ins
  omega

theorem connectTx_sigops (b : Block) (tx : Tx) (a a' : Acc) (h : connectTx b tx a = .ok a') :
    a'.sigops ≤ a.sigops + 160 * txScriptBytes tx := by
  unfold connectTx at h
  cases hs : spendInputs b tx tx.ins ⟨a.utxo, 0, 0⟩ with
  | error e => simp [hs, bind, Except.bind] at h
  | ok r =>
    have h1 := spendInputs_sigops b tx tx.ins _ r hs
    have h2 := legacy_le tx
    have h3 : (tx.ins.map inBytes).sum ≤ txScriptBytes tx := by unfold txScriptBytes; omega
    simp only [hs, bind, Except.bind, pure, Except.pure] at h
    repeat' split at h
    all_goals first
      | (cases h; done)
      | (simp only [Except.ok.injEq] at h
         subst h
         simp only [] at h1 ⊢
         omega)

theorem connectTxs_sigops (b : Block) (txs : List Tx) (a a' : Acc) (h : connectTxs b txs a = .ok a') :
    a'.sigops ≤ a.sigops + 160 * (txs.map txScriptBytes).sum := by
  induction txs generalizing a with
  | nil =>
    simp only [connectTxs, Except.ok.injEq] at h
    subst h; simp
  | cons t r ih =>
    unfold connectTxs at h
    cases hp : connectTx b t a with
    | error e => simp [hp] at h
    | ok a1 =>
      simp only [hp] at h
      have h1 := connectTx_sigops b t a a1 hp
      have h2 := ih a1 h
      simp only [List.map_cons, List.sum_cons]
      omega

end GocoinV.Proofs.C04
