/-
  Proofs.C20Ptr — the representation invariant `Rep`: the pointer structure kept in `State.heap`
  (node.prev/next/prevInPage/nextInPage, header.freeList, lists[class]) spells exactly the abstract lists
  of Model/Alloc.lean (`glist` per class, `freeList` per page), and its preservation by every transition.
-/
import GocoinV.Proofs.C20Heap
import GocoinV.Proofs.C20Once
namespace GocoinV.Alloc
open GocoinV.Gen.MemClasses
variable {V : Type}

structure Rep (s : State V) : Prop where
  glob : ∀ c, DL (nxG s.heap) (pvG s.heap) (s.heap.C c).lists none (s.K c).glist
  page : ∀ p h, s.pages.get? p = some h →
    DL (nxP s.heap) (pvP s.heap) (s.heap.H p).freeList none (h.freeList.map (Prod.mk p))
  plist : ∀ c, DL (nxH s.heap) (pvH s.heap) (s.heap.C c).first none (s.K c).plist
  last : ∀ c, (s.heap.C c).last = (s.K c).plist.getLast?

theorem init_rep : Rep (init : State V) := by
  refine ⟨?_, ?_, ?_, ?_⟩
  · intro c; simp [init, State.K, DL, Heap.C]
  · intro p h hp; simp [init] at hp
  · intro c; simp [init, State.K, DL, Heap.C]
  · intro c; simp [init, State.K, Heap.C]

/-- transitions that leave the heap, the global lists and the per-page lists alone (pages may disappear) -/
theorem Rep.transfer {s s' : State V} (r : Rep s) (hh : s'.heap = s.heap)
    (hg : ∀ c, (s'.K c).glist = (s.K c).glist)
    (hp : ∀ p h', s'.pages.get? p = some h' → ∃ h, s.pages.get? p = some h ∧ h'.freeList = h.freeList)
    (hpl : ∀ c, (s'.K c).plist = (s.K c).plist := by intro _; rfl) :
    Rep s' := by
  refine ⟨?_, ?_, ?_, ?_⟩
  · intro c; rw [hh, hg]; exact r.glob c
  · intro p h' hp'
    obtain ⟨h, h1, h2⟩ := hp p h' hp'
    rw [hh, h2]; exact r.page p h h1
  · intro c; rw [hh, hpl]; exact r.plist c
  · intro c; rw [hh, hpl]; exact r.last c

/-! ### list helpers -/

theorem mk_erase (p : Nat) (l : List Nat) (i : Nat) :
    (l.map (Prod.mk p)).erase (p, i) = (l.erase i).map (Prod.mk p) := by
  induction l with
  | nil => rfl
  | cons x xs ih =>
    by_cases e : x = i
    · subst e; simp
    · have : ((p, x) == (p, i)) = false := by simp [e]
      simp [List.erase_cons, this, e, ih]

theorem mem_mk {p : Nat} {l : List Nat} {a : Slot} (h : a ∈ l.map (Prod.mk p)) : a.1 = p ∧ a.2 ∈ l := by
  simp only [List.mem_map] at h
  obtain ⟨j, hj, e⟩ := h
  subst e; exact ⟨rfl, hj⟩

theorem nodup_mk (p : Nat) {l : List Nat} (h : l.Nodup) : (l.map (Prod.mk p)).Nodup := by
  induction l with
  | nil => simp
  | cons x xs ih =>
    have := List.nodup_cons.1 h
    simp only [List.map_cons, List.nodup_cons]
    refine ⟨?_, ih this.2⟩
    intro hm; exact this.1 (by simpa using (mem_mk hm).2)

theorem foldl_erase_eq_filter : ∀ (l Gl : List Slot), Gl.Nodup →
    l.foldl List.erase Gl = Gl.filter (fun a => decide (a ∉ l)) := by
  intro l
  induction l with
  | nil =>
    intro Gl _
    simp only [List.foldl_nil, List.not_mem_nil, not_false_eq_true, decide_true]
    exact (List.filter_eq_self.2 (fun _ _ => rfl)).symm
  | cons x xs ih =>
    intro Gl nd
    simp only [List.foldl_cons]
    rw [ih _ (nd.erase x), nd.erase_eq_filter, List.filter_filter]
    apply List.filter_congr
    intro a _
    by_cases e : a = x <;> by_cases e2 : a ∈ xs <;> simp [e, e2]

/-! ### facts from the structural invariant -/

theorem gl_page {s : State V} (inv : InvG s) {c : Nat} {a : Slot} (h : a ∈ (s.K c).glist) :
    ∃ hp, s.pages.get? a.1 = some hp ∧ hp.cls = c ∧ hp.evac = false ∧ a.2 ∈ hp.freeList :=
  ((inv.classes c).gl_iff a.1 a.2).1 h

theorem gl_disjoint {s : State V} (inv : InvG s) {c c' : Nat} {a : Slot} (h : a ∈ (s.K c).glist)
    (h' : a ∈ (s.K c').glist) : c = c' := by
  obtain ⟨hp, e1, e2, _⟩ := gl_page inv h
  obtain ⟨hp', e1', e2', _⟩ := gl_page inv h'
  rw [e1] at e1'; cases e1'; rw [← e2, ← e2']


theorem pl_disjoint {s : State V} (inv : InvG s) {c c' a : Nat} (h : a ∈ (s.K c).plist)
    (h' : a ∈ (s.K c').plist) : c = c' := by
  obtain ⟨h0, e1, e2⟩ := (inv.classes c).pl_pages a h
  obtain ⟨h0', e1', e2'⟩ := (inv.classes c').pl_pages a h'
  rw [e1] at e1'; cases e1'; rw [← e2, ← e2']

/-! ### pop (Malloc from the free list) -/

theorem rep_pop {s s' : State V} (inv : InvG s) (r : Rep s) {c p i : Nat} {rest : List Slot} {h h' : Page}
    (hgl : (s.K c).glist = (p, i) :: rest) (hp : s.pages.get? p = some h)
    (hheap : s'.heap = hPop s.heap c)
    (hK : ∀ c', (s'.K c').glist = if c = c' then rest else (s.K c').glist)
    (hpages : ∀ q, s'.pages.get? q = if p = q then some h' else s.pages.get? q)
    (hfl : h'.freeList = h.freeList.erase i)
    (hpl : ∀ c', (s'.K c').plist = (s.K c').plist) : Rep s' := by
  have rc := r.glob c
  rw [hgl] at rc
  have hl : (s.heap.C c).lists = some (p, i) := rc.1
  have hpv0 : pvG s.heap (p, i) = none := rc.2.1
  have sp := hPop_spec s.heap c (p, i) hl
  have hmem : (p, i) ∈ (s.K c).glist := by rw [hgl]; simp
  have ndc := (inv.classes c).gl_nodup
  obtain ⟨h0, e0, _, _, hi⟩ := gl_page inv hmem
  simp only at e0 hi
  rw [hp] at e0; cases e0
  have rp := r.page p h hp
  have hmp : (p, i) ∈ h.freeList.map (Prod.mk p) := by simp [hi]
  have ndp := nodup_mk p (inv.pages p h hp).fl_nodup
  refine ⟨?_, ?_, ?_, ?_⟩
  · intro c'
    rw [hheap, hK]
    by_cases e : c = c'
    · subst e
      rw [if_pos rfl, sp.lists, if_pos rfl]
      have R := DL.remove (nx' := nxG (hPop s.heap c)) (pv' := pvG (hPop s.heap c)) (x := (p, i))
        (r.glob c) ndc hmem (by intro q e; cases e)
        (by intro a _ _; rw [sp.nxG, hpv0]; simp)
        (by intro a _ _; rw [sp.pvG, hpv0]; rfl)
      rw [if_pos hl, hgl, List.erase_cons_head] at R
      exact R
    · rw [if_neg e, sp.lists, if_neg e]
      refine DL.congr ?_ (r.glob c')
      intro a ha
      refine ⟨sp.nxG a, ?_⟩
      rw [sp.pvG, if_neg]
      intro hn
      exact e (gl_disjoint inv ((r.glob c).nx_in _ hmem a hn) ha)
  · intro q hq' hq
    rw [hpages] at hq
    rw [hheap]
    by_cases e : p = q
    · subst e
      rw [if_pos rfl] at hq; cases hq
      rw [hfl, ← mk_erase]
      have R := DL.remove (nx' := nxP (hPop s.heap c)) (pv' := pvP (hPop s.heap c)) (x := (p, i))
        rp ndp hmp (by intro q e; cases e)
        (by intro a _ _; rw [sp.nxP]; rfl)
        (by intro a _ _; rw [sp.pvP]; rfl)
      have hiff := rp.pv_none_iff (p, i) hmp
      rw [sp.fl]
      by_cases hh : (s.heap.H p).freeList = some (p, i)
      · rw [if_pos hh] at R
        rw [if_pos ⟨hiff.2 hh, rfl⟩]; exact R
      · rw [if_neg hh] at R
        rw [if_neg (by intro x; exact hh (hiff.1 x.1))]; exact R
    · rw [if_neg e] at hq
      have rq := r.page q hq' hq
      rw [sp.fl, if_neg (by intro x; exact e x.2)]
      refine DL.congr ?_ rq
      intro a ha
      have ha1 := (mem_mk ha).1
      constructor
      · rw [sp.nxP, if_neg]
        intro hn
        have := (mem_mk (rp.pv_in _ hmp a hn)).1
        exact e (by rw [← this, ha1])
      · rw [sp.pvP, if_neg]
        intro hn
        have := (mem_mk (rp.nx_in _ hmp a hn)).1
        exact e (by rw [← this, ha1])
  · intro c'
    rw [hheap, hpl, sp.first]
    exact DL.congr (fun a _ => ⟨sp.hnx a, sp.hpv a⟩) (r.plist c')
  · intro c'
    rw [hheap, hpl, sp.last]; exact r.last c'

/-! ### push (Free) -/

theorem rep_push {s s' : State V} (inv : InvG s) (r : Rep s) {p i : Nat} {h h' : Page}
    (hp : s.pages.get? p = some h) (hni : i ∉ h.freeList)
    (hheap : s'.heap = hPush s.heap h.cls (p, i))
    (hK : ∀ c', (s'.K c').glist = if h.cls = c' then (p, i) :: (s.K h.cls).glist else (s.K c').glist)
    (hpages : ∀ q, s'.pages.get? q = if p = q then some h' else s.pages.get? q)
    (hfl : h'.freeList = i :: h.freeList)
    (hpl : ∀ c', (s'.K c').plist = (s.K c').plist) : Rep s' := by
  have sp := hPush_spec s.heap h.cls (p, i)
  have hnot : ∀ c', (p, i) ∉ (s.K c').glist := by
    intro c' hm
    obtain ⟨h0, e0, _, _, hi⟩ := gl_page inv hm
    simp only at e0 hi
    rw [hp] at e0; cases e0; exact hni hi
  have rp := r.page p h hp
  refine ⟨?_, ?_, ?_, ?_⟩
  · intro c'
    rw [hheap, hK]
    by_cases e : h.cls = c'
    · subst e
      rw [if_pos rfl, sp.lists, if_pos rfl]
      have hd := (r.glob h.cls).head
      refine DL.push (r.glob h.cls) (inv.classes h.cls).gl_nodup ?_ ?_ ?_ ?_
      · rw [sp.nxG, if_pos rfl]
      · rw [sp.pvG, if_neg, if_pos rfl]
        intro hn; rw [hd] at hn
        exact hnot h.cls (List.mem_of_mem_head? hn)
      · intro y hy; rw [sp.pvG, if_pos hy]
      · intro a ha
        have hne : a ≠ (p, i) := by intro e; subst e; exact hnot _ ha
        refine ⟨by rw [sp.nxG, if_neg hne], ?_⟩
        intro hn; rw [sp.pvG, if_neg hn, if_neg hne]
    · rw [if_neg e, sp.lists, if_neg e]
      refine DL.congr ?_ (r.glob c')
      intro a ha
      have hne : a ≠ (p, i) := by intro e; subst e; exact hnot _ ha
      refine ⟨by rw [sp.nxG, if_neg hne], ?_⟩
      rw [sp.pvG, if_neg, if_neg hne]
      intro hn
      have := (r.glob h.cls).head; rw [hn] at this
      exact e (gl_disjoint inv (List.mem_of_mem_head? this.symm) ha)
  · intro q hq' hq
    rw [hpages] at hq
    rw [hheap]
    by_cases e : p = q
    · subst e
      rw [if_pos rfl] at hq; cases hq
      rw [hfl, sp.fl, if_pos rfl, List.map_cons]
      have hd := rp.head
      have hnm : (p, i) ∉ h.freeList.map (Prod.mk p) := by
        intro hm; exact hni (by simpa using (mem_mk hm).2)
      refine DL.push rp (nodup_mk p (inv.pages p h hp).fl_nodup) ?_ ?_ ?_ ?_
      · rw [sp.nxP, if_pos rfl]
      · rw [sp.pvP, if_neg, if_pos rfl]
        intro hn; rw [hd] at hn
        exact hnm (List.mem_of_mem_head? hn)
      · intro y hy; rw [sp.pvP]; rw [if_pos hy]
      · intro a ha
        have hne : a ≠ (p, i) := by intro e; subst e; exact hnm ha
        refine ⟨by rw [sp.nxP, if_neg hne], ?_⟩
        intro hn; rw [sp.pvP, if_neg hn, if_neg hne]
    · rw [if_neg e] at hq
      have rq := r.page q hq' hq
      rw [sp.fl, if_neg e]
      refine DL.congr ?_ rq
      intro a ha
      have ha1 := (mem_mk ha).1
      have hne : a ≠ (p, i) := by intro x; subst x; exact e ha1
      refine ⟨by rw [sp.nxP, if_neg hne], ?_⟩
      rw [sp.pvP, if_neg, if_neg hne]
      intro hn
      have := rp.head; rw [hn] at this
      have := (mem_mk (List.mem_of_mem_head? this.symm)).1
      exact e (by rw [← this, ha1])
  · intro c'
    rw [hheap, hpl, sp.first]
    exact DL.congr (fun a _ => ⟨sp.hnx a, sp.hpv a⟩) (r.plist c')
  · intro c'
    rw [hheap, hpl, sp.last]; exact r.last c'

/-! ### purge (defragClass removes an evacuated page's free slots from the global list) -/

theorem hPurgeWalk_none (c f : Nat) (g : Heap) : hPurgeWalk c f none g = g := by
  cases f <;> rfl

theorem purgeWalk_spec (c : Nat) : ∀ (l : List Slot) (f : Nat) (st pp : Option Slot) (g : Heap) (Gl : List Slot),
    DL (nxP g) (pvP g) st pp l → l.length ≤ f → DL (nxG g) (pvG g) (g.C c).lists none Gl → Gl.Nodup →
    (∀ x, x ∈ l → x ∈ Gl) → l.Nodup →
    DL (nxG (hPurgeWalk c f st g)) (pvG (hPurgeWalk c f st g)) ((hPurgeWalk c f st g).C c).lists none
      (l.foldl List.erase Gl) ∧
    (∀ a, nxP (hPurgeWalk c f st g) a = nxP g a ∧ pvP (hPurgeWalk c f st g) a = pvP g a) ∧
    (∀ q, (hPurgeWalk c f st g).H q = g.H q) ∧
    (∀ d, d ≠ c → ((hPurgeWalk c f st g).C d).lists = (g.C d).lists) ∧
    (∀ d, ((hPurgeWalk c f st g).C d).first = (g.C d).first ∧ ((hPurgeWalk c f st g).C d).last = (g.C d).last) ∧
    (∀ a, a ∉ Gl → nxG (hPurgeWalk c f st g) a = nxG g a ∧ pvG (hPurgeWalk c f st g) a = pvG g a) := by
  intro l
  induction l with
  | nil =>
    intro f st pp g Gl hd _ hG _ _ _
    have : st = none := hd
    subst this
    rw [hPurgeWalk_none]
    exact ⟨hG, fun _ => ⟨rfl, rfl⟩, fun _ => rfl, fun _ _ => rfl, fun _ => ⟨rfl, rfl⟩, fun _ _ => ⟨rfl, rfl⟩⟩
  | cons x xs ih =>
    intro f st pp g Gl hd hlen hG nd hsub ndl
    obtain ⟨h1, _, h3⟩ := hd
    subst h1
    cases f with
    | zero => simp at hlen
    | succ f =>
    have sp := hUnlinkG_spec g c x
    have e : hPurgeWalk c (f + 1) (some x) g = hPurgeWalk c f (nxP g x) (hUnlinkG g c x) := rfl
    rw [e]
    have hxG : x ∈ Gl := hsub x (by simp)
    have ndc := List.nodup_cons.1 ndl
    have dlp : DL (nxP (hUnlinkG g c x)) (pvP (hUnlinkG g c x)) (nxP g x) (some x) xs :=
      DL.congr (fun a _ => ⟨sp.nxP a, sp.pvP a⟩) h3
    have R := DL.remove (nx' := nxG (hUnlinkG g c x)) (pv' := pvG (hUnlinkG g c x)) (x := x)
      hG nd hxG (by intro q e; cases e) (fun a _ _ => sp.nxG a) (fun a _ _ => sp.pvG a)
    have hiff := hG.pv_none_iff x hxG
    have R' : DL (nxG (hUnlinkG g c x)) (pvG (hUnlinkG g c x)) ((hUnlinkG g c x).C c).lists none (Gl.erase x) := by
      rw [sp.lists]
      by_cases hh : (g.C c).lists = some x
      · rw [if_pos hh] at R
        rw [if_pos ⟨hiff.2 hh, rfl⟩]; exact R
      · rw [if_neg hh] at R
        rw [if_neg (by intro y; exact hh (hiff.1 y.1))]; exact R
    have hsub' : ∀ y, y ∈ xs → y ∈ Gl.erase x := by
      intro y hy
      have hyx : y ≠ x := by intro e; subst e; exact ndc.1 hy
      exact (List.mem_erase_of_ne hyx).2 (hsub y (List.mem_cons_of_mem _ hy))
    obtain ⟨i1, i2, i3, i4, i5, i6⟩ := ih f (nxP g x) (some x) (hUnlinkG g c x) (Gl.erase x) dlp
      (by simpa using hlen) R' (nd.erase x) hsub' ndc.2
    refine ⟨by simpa [List.foldl_cons] using i1, ?_, ?_, ?_, ?_, ?_⟩
    · intro a; rw [(i2 a).1, (i2 a).2, sp.nxP, sp.pvP]; exact ⟨rfl, rfl⟩
    · intro q; rw [i3, sp.hdr]
    · intro d hdc; rw [i4 d hdc, sp.lists, if_neg (by intro y; exact hdc y.2.symm)]
    · intro d; rw [(i5 d).1, (i5 d).2, sp.first, sp.last]; exact ⟨rfl, rfl⟩
    · intro a ha
      have ha' : a ∉ Gl.erase x := fun hm => ha (List.mem_of_mem_erase hm)
      rw [(i6 a ha').1, (i6 a ha').2, sp.nxG, sp.pvG]
      constructor
      · rw [if_neg]; intro hn; exact ha (hG.pv_in x hxG a hn)
      · rw [if_neg]; intro hn; exact ha (hG.nx_in x hxG a hn)

theorem rep_purge {s s' : State V} (inv : InvG s) (r : Rep s) {c pg : Nat} {h h' : Page}
    (hp : s.pages.get? pg = some h) (hcl : h.cls = c) (hev : h.evac = false)
    (hheap : s'.heap = hPurge s.heap c pg h.brk)
    (hK : ∀ c', (s'.K c').glist =
      if c = c' then (s.K c).glist.filter (fun (q, _) => q ≠ pg) else (s.K c').glist)
    (hpages : ∀ q, s'.pages.get? q = if pg = q then some h' else s.pages.get? q)
    (hfl : h'.freeList = [])
    (hpl : ∀ c', (s'.K c').plist = (s.K c').plist) : Rep s' := by
  have okp := inv.pages pg h hp
  have rp := r.page pg h hp
  have hlen : (h.freeList.map (Prod.mk pg)).length ≤ h.brk := by
    rw [List.length_map]; exact nodup_bound h.brk h.freeList okp.fl_nodup okp.fl_lt
  have hsub : ∀ x, x ∈ h.freeList.map (Prod.mk pg) → x ∈ (s.K c).glist := by
    intro x hx
    obtain ⟨x1, x2⟩ := mem_mk hx
    have : x = (pg, x.2) := by rw [← x1]
    rw [this]
    exact ((inv.classes c).gl_iff pg x.2).2 ⟨h, hp, hcl, hev, x2⟩
  obtain ⟨i1, i2, i3, i4, i5, i6⟩ := purgeWalk_spec c _ h.brk (s.heap.H pg).freeList none s.heap (s.K c).glist
    rp hlen (r.glob c) (inv.classes c).gl_nodup hsub (nodup_mk pg okp.fl_nodup)
  have hfilter : (h.freeList.map (Prod.mk pg)).foldl List.erase (s.K c).glist =
      (s.K c).glist.filter (fun (q, _) => q ≠ pg) := by
    rw [foldl_erase_eq_filter _ _ (inv.classes c).gl_nodup]
    apply List.filter_congr
    intro a ha
    obtain ⟨h0, e0, _, _, hi⟩ := gl_page inv ha
    by_cases e : a.1 = pg
    · have : a ∈ h.freeList.map (Prod.mk pg) := by
        rw [e, hp] at e0; cases e0
        simp only [List.mem_map]; exact ⟨a.2, hi, by rw [← e]⟩
      simp [this, e]
    · have : a ∉ h.freeList.map (Prod.mk pg) := fun hm => e (mem_mk hm).1
      simp [this, e]
  refine ⟨?_, ?_, ?_, ?_⟩
  · intro c'
    rw [hheap, hK]
    by_cases e : c = c'
    · subst e
      rw [if_pos rfl, ← hfilter]
      exact i1
    · rw [if_neg e]
      have : ((hPurge s.heap c pg h.brk).C c').lists = (s.heap.C c').lists := i4 c' (fun x => e x.symm)
      rw [this]
      refine DL.congr ?_ (r.glob c')
      intro a ha
      exact i6 a (fun hm => e (gl_disjoint inv hm ha))
  · intro q hq' hq
    rw [hpages] at hq
    rw [hheap]
    by_cases e : pg = q
    · subst e
      rw [if_pos rfl] at hq; cases hq
      rw [hfl]
      show ((hPurge s.heap c pg h.brk).H pg).freeList = none
      simp only [hPurge, Heap.H_setH, if_true]
    · rw [if_neg e] at hq
      have : ((hPurge s.heap c pg h.brk).H q).freeList = (s.heap.H q).freeList := by
        simp only [hPurge, Heap.H_setH, if_neg e, i3]
      rw [this]
      exact DL.congr (fun a _ => i2 a) (r.page q hq' hq)
  · intro c'
    have e1 : ((hPurge s.heap c pg h.brk).C c').first = (s.heap.C c').first := (i5 c').1
    rw [hheap, hpl, e1]
    refine DL.congr ?_ (r.plist c')
    intro a _
    have : (hPurge s.heap c pg h.brk).H a = if pg = a then { s.heap.H a with freeList := none } else s.heap.H a := by
      simp only [hPurge, Heap.H_setH, i3]; split
      · next e => subst e; rfl
      · rfl
    simp only [nxH, pvH, this]; split <;> exact ⟨rfl, rfl⟩
  · intro c'
    have e1 : ((hPurge s.heap c pg h.brk).C c').last = (s.heap.C c').last := (i5 c').2
    rw [hheap, hpl, e1]; exact r.last c'

/-! ### the transitions of the model -/

theorem newPage_rep {s : State V} (inv : InvG s) (r : Rep s) (c : Nat) : Rep (newPage s c) := by
  have sp := hLinkPage_spec s.heap c s.nextPage
  have hN : ∀ a, nxG (hLinkPage s.heap c s.nextPage) a = nxG s.heap a ∧
      pvG (hLinkPage s.heap c s.nextPage) a = pvG s.heap a ∧
      nxP (hLinkPage s.heap c s.nextPage) a = nxP s.heap a ∧ pvP (hLinkPage s.heap c s.nextPage) a = pvP s.heap a := by
    intro a; simp only [nxG, pvG, nxP, pvP, sp.node, and_self]
  refine ⟨?_, ?_, ?_, ?_⟩
  · intro c'
    have hg : ((newPage s c).K c').glist = (s.K c').glist := by
      rw [newPage_K]; split
      · next e => subst e; rfl
      · rfl
    rw [hg]
    show DL (nxG (hLinkPage s.heap c s.nextPage)) (pvG (hLinkPage s.heap c s.nextPage))
      ((hLinkPage s.heap c s.nextPage).C c').lists none _
    rw [sp.lists]
    exact DL.congr (fun a _ => ⟨(hN a).1, (hN a).2.1⟩) (r.glob c')
  · intro q hq' hq
    rw [newPage_pages] at hq
    show DL (nxP (hLinkPage s.heap c s.nextPage)) (pvP (hLinkPage s.heap c s.nextPage))
      ((hLinkPage s.heap c s.nextPage).H q).freeList none _
    rw [sp.fl]
    split at hq
    · next e =>
      cases hq; subst e
      rw [if_pos rfl]; rfl
    · next e =>
      rw [if_neg (fun x => e x.symm)]
      exact DL.congr (fun a _ => ⟨(hN a).2.2.1, (hN a).2.2.2⟩) (r.page q hq' hq)
  all_goals
    have fresh : ∀ c' q, q ∈ (s.K c').plist → q ≠ s.nextPage := by
      intro c' q hq e; subst e
      obtain ⟨h0, a, _⟩ := (inv.classes c').pl_pages _ hq
      have := (inv.pages _ h0 a).lt_next; omega
    have hlastmem : ∀ z, (s.heap.C c).last = some z → z ∈ (s.K c).plist := by
      intro z hz; rw [r.last c] at hz; exact List.mem_of_getLast? hz
  · intro c'
    show DL (nxH (hLinkPage s.heap c s.nextPage)) (pvH (hLinkPage s.heap c s.nextPage))
      ((hLinkPage s.heap c s.nextPage).C c').first none ((newPage s c).K c').plist
    rw [newPage_K, sp.first]
    split
    · next e =>
      subst e
      have hd := (r.plist c).head
      have A := DL.append (nx' := nxH (hLinkPage s.heap c s.nextPage)) (pv' := pvH (hLinkPage s.heap c s.nextPage))
        (x := s.nextPage) (r.plist c) (fun hm => fresh c _ hm rfl) (inv.classes c).pl_nodup
        (by rw [sp.hnx, if_neg (fun hz => fresh c _ (hlastmem _ hz) rfl), if_pos rfl])
        (by rw [sp.hpv, if_pos rfl, r.last c]; cases (s.K c).plist.getLast? <;> rfl)
        (by intro z hz; rw [sp.hnx, if_pos (by rw [r.last c]; exact hz)])
        (by
          intro a ha
          have hne := fresh c a ha
          refine ⟨by rw [sp.hpv, if_neg hne], ?_⟩
          intro hl
          rw [sp.hnx, if_neg (by rw [r.last c]; exact hl), if_neg hne])
      have : (if (s.heap.C c).first.isNone = true then some s.nextPage else (s.heap.C c).first) =
          (if (s.K c).plist = [] then some s.nextPage else (s.heap.C c).first) := by
        rw [hd]; cases (s.K c).plist <;> simp
      rw [this]; exact A
    · next e =>
      refine DL.congr ?_ (r.plist c')
      intro a ha
      have hne := fresh c' a ha
      constructor
      · rw [sp.hnx, if_neg, if_neg hne]
        intro hz; exact e (pl_disjoint inv (hlastmem _ hz) ha)
      · rw [sp.hpv, if_neg hne]
  · intro c'
    show ((hLinkPage s.heap c s.nextPage).C c').last = ((newPage s c).K c').plist.getLast?
    rw [newPage_K, sp.last]
    split
    · next e => subst e; simp
    · exact r.last c'

theorem allocSlot_rep {s s' : State V} (inv : InvG s) (r : Rep s) {c p i : Nat}
    (hr : allocSlot s c = .ok (s', p, i)) : Rep s' := by
  unfold allocSlot at hr
  simp only [] at hr
  split at hr
  · next p0 hcur =>
    split at hr
    · cases hr
    · next h hp =>
      cases hr
      refine r.transfer rfl ?_ ?_ ?_
      · intro c'
        show ((State.K _ c').glist) = _
        simp only [State.K, KMap.get?_set]; split
        · next e => subst e; rfl
        · rfl
      · intro q h' hq
        simp only [KMap.get?_set] at hq
        split at hq
        · next e => subst e; cases hq; exact ⟨h, hp, rfl⟩
        · exact ⟨h', hq, rfl⟩
      · intro c'
        show ((State.K _ c').plist) = _
        simp only [State.K, KMap.get?_set]; split
        · next e => subst e; rfl
        · rfl
  · split at hr
    · cases hr
    · next p0 i0 rest hgl =>
      split at hr
      · cases hr
      · next h hp =>
        cases hr
        refine rep_pop inv r (c := c) (p := p) (i := i) (rest := rest) (h := h)
          (h' := { h with freeList := h.freeList.erase i, used := h.used + 1, free := h.free - 1 })
          hgl hp rfl ?_ ?_ rfl ?_
        · intro c'
          simp only [State.K, KMap.get?_set]; split
          · next e => subst e; rfl
          · rfl
        · intro q
          simp only [KMap.get?_set]
        · intro c'
          simp only [State.K, KMap.get?_set]; split
          · next e => subst e; rfl
          · rfl

theorem allocLive_rep {s s' : State V} {c size cap : Nat} {val : Option V} {a : Addr}
    (inv : InvG s) (r : Rep s) (hc : c < nClasses) (hcap : 0 < capOf c)
    (hr : allocLive s c size cap val = .ok (s', a)) : Rep s' := by
  unfold allocLive at hr
  simp only [] at hr
  generalize hs1 : (if (s.K c).glist.isEmpty && (s.K c).cur.isNone then newPage s c else s) = s1 at hr
  have inv1 : InvG s1 ∧ Rep s1 := by
    subst hs1; split
    · exact ⟨newPage_invG inv hc hcap, newPage_rep inv r c⟩
    · exact ⟨inv, r⟩
  cases ha : allocSlot s1 c with
  | error e => simp [ha] at hr
  | ok t =>
    obtain ⟨s2, p, i⟩ := t
    simp only [ha] at hr
    cases hr
    have r2 := allocSlot_rep inv1.1 inv1.2 ha
    exact r2.transfer rfl (fun _ => rfl) (fun q h' hq => ⟨h', hq, rfl⟩)

theorem malloc_rep {s s' : State V} {size : Nat} {a : Addr} (inv : InvG s) (r : Rep s)
    (hr : malloc s size = .ok (s', a)) : Rep s' := by
  unfold malloc at hr
  simp only [] at hr
  split at hr
  · cases hr
    exact r.transfer rfl (fun _ => rfl) (fun q h' hq => ⟨h', hq, rfl⟩)
  · next hsm =>
    have hsm' : size + sliceHdrLen ≤ maxShared := by omega
    obtain ⟨hc, _⟩ := classOf_spec _ hsm'
    have hcap := (table_facts.2 _ hc)
    have inv0 : InvG ({ s with allocs := s.allocs + 1 } : State V) :=
      ⟨fun p h hp => (inv.pages p h hp).transfer (fun hx => hx) (Nat.le_refl _) (fun _ => Iff.rfl),
       fun c => (inv.classes c).transfer rfl (fun _ _ _ => Iff.rfl),
       fun b l hl => (inv.live b l hl).transfer rfl (fun p i _ h hp => ⟨h, hp, Nat.le_refl _, rfl⟩) (fun _ _ => rfl),
       inv.privs⟩
    have r0 : Rep ({ s with allocs := s.allocs + 1 } : State V) :=
      r.transfer rfl (fun _ => rfl) (fun q h' hq => ⟨h', hq, rfl⟩)
    exact allocLive_rep inv0 r0 hc (by have := hcap; omega) hr


theorem free_rep {s s' : State V} {a : Addr} (inv : Inv s) (r : Rep s) (hr : free s a = .ok s') : Rep s' := by
  unfold free at hr
  split at hr
  · cases hr
  · next hlive =>
    have hl : s.isLive a := by
      simp only [State.isLive]; cases hq : s.live.get? a <;> simp_all
    simp only [] at hr
    cases hm : s.mem.get? a with
    | none => simp [hm] at hr
    | some m =>
    simp only [hm] at hr
    split at hr
    · cases a with
      | sh p i => cases hr
      | pv id =>
        simp only [] at hr; cases hr
        exact r.transfer rfl (fun _ => rfl) (fun q h' hq => ⟨h', hq, rfl⟩)
    · cases a with
      | pv id => cases hr
      | sh p i =>
        simp only [] at hr
        cases hp : s.pages.get? p with
        | none => simp [hp] at hr
        | some h =>
        simp only [hp] at hr
        split at hr
        · cases hr
          have hev := inv.noEvac p h hp
          have hlt := live_lt_brk inv.g hp hl
          have hni : i ∉ h.freeList := fun hm => (((inv.g.pages p h hp).ne hev).1 i hlt).1 hm hl
          refine rep_push inv.g r (p := p) (i := i) (h := h)
            (h' := { h with used := h.used - 1, free := h.free + 1, freeList := i :: h.freeList }) hp hni ?_ ?_ ?_ rfl ?_
          · simp only [freeSlot, hev]; rfl
          · intro c'
            simp only [freeSlot, hev, Bool.false_eq_true, if_false, State.K, KMap.get?_set]; split
            · next e => subst e; rfl
            · rfl
          · intro q
            simp only [freeSlot, hev, Bool.false_eq_true, if_false, KMap.get?_set]
          · intro c'
            simp only [freeSlot, hev, Bool.false_eq_true, if_false, State.K, KMap.get?_set]; split
            · next e => subst e; rfl
            · rfl
        · cases hr

theorem write_rep {s s' : State V} {a : Addr} {v : V} (r : Rep s) (hr : write s a v = .ok s') : Rep s' := by
  unfold write at hr
  split at hr
  · cases hr
    exact r.transfer rfl (fun _ => rfl) (fun q h' hq => ⟨h', hq, rfl⟩)
  · cases hr

theorem beginEvac_rep {s s' : State V} {c pg : Nat} (inv : InvG s) (r : Rep s)
    (hr : beginEvac s c pg = .ok s') : Rep s' := by
  unfold beginEvac at hr
  cases hp : s.pages.get? pg with
  | none => simp [hp] at hr
  | some h =>
  simp only [hp] at hr
  split at hr
  · cases hr
  · next hcond =>
    simp only [not_or, Decidable.not_not, Bool.not_eq_true] at hcond
    obtain ⟨hcl, hev⟩ := hcond
    cases hr
    refine rep_purge inv r (c := c) (pg := pg) (h := h)
      (h' := { h with evac := true, saved := h.freeList, freeList := [], scan := 0 }) hp hcl hev rfl ?_ ?_ rfl ?_
    · intro c'
      simp only [State.K, KMap.get?_set]; split
      · next e => subst e; rfl
      · rfl
    · intro q
      simp only [KMap.get?_set]
    · intro c'
      simp only [State.K, KMap.get?_set]; split
      · next e => subst e; rfl
      · rfl

theorem endEvac_rep {s s' : State V} {c pg : Nat} (inv : InvG s) (r : Rep s) (hr : endEvac s c pg = .ok s') : Rep s' := by
  unfold endEvac at hr
  cases hp : s.pages.get? pg with
  | none => simp [hp] at hr
  | some h =>
  simp only [hp] at hr
  split at hr
  · cases hr
  · next hcond =>
    simp only [Bool.or_eq_true, bne_iff_ne, ne_eq, Bool.not_eq_true', decide_eq_true_eq, not_or, Decidable.not_not,
      Bool.not_eq_false] at hcond
    obtain ⟨⟨_, _⟩, hcl⟩ := hcond
    have hs := Except.ok.inj hr
    have e1 : s'.heap = hUnlinkPage s.heap c pg := by rw [← hs]
    have e2 : ∀ c', (s'.K c').glist = (s.K c').glist := by
      intro c'; rw [← hs]
      simp only [State.K, KMap.get?_set]; split
      · next e => subst e; rfl
      · rfl
    have e3 : ∀ q, s'.pages.get? q = (s.pages.del pg).get? q := by intro q; rw [← hs]
    have e4 : ∀ c', (s'.K c').plist = if c = c' then (s.K c).plist.erase pg else (s.K c').plist := by
      intro c'; rw [← hs]
      simp only [State.K, KMap.get?_set]; split
      · next e => subst e; rfl
      · rfl
    clear hs hr
    have sp := hUnlinkPage_spec s.heap c pg
    refine ⟨?_, ?_, ?_, ?_⟩
    · intro c'
      rw [e2, e1, sp.lists]
      refine DL.congr ?_ (r.glob c')
      intro a _; simp only [nxG, pvG, sp.node, and_self]
    · intro q hq' hq
      rw [e3] at hq
      simp only [KMap.get?_del] at hq
      split at hq
      · cases hq
      · rw [e1, sp.fl]
        refine DL.congr ?_ (r.page q hq' hq)
        intro a _; simp only [nxP, pvP, sp.node, and_self]
    all_goals
      have hin : pg ∈ (s.K c).plist := by rw [← hcl]; exact (inv.pages pg h hp).in_plist
      have ndp := (inv.classes c).pl_nodup
    · intro c'
      rw [e4, e1, sp.first]
      by_cases e : c = c'
      · subst e
        rw [if_pos rfl]
        have R := DL.remove (nx' := nxH (hUnlinkPage s.heap c pg)) (pv' := pvH (hUnlinkPage s.heap c pg)) (x := pg)
          (r.plist c) ndp hin (by intro q e; cases e) (fun a _ _ => sp.hnx a) (fun a _ _ => sp.hpv a)
        have hiff := (r.plist c).pv_none_iff pg hin
        by_cases hh : (s.heap.C c).first = some pg
        · rw [if_pos hh] at R
          rw [if_pos ⟨hiff.2 hh, rfl⟩]; exact R
        · rw [if_neg hh] at R
          rw [if_neg (by intro x; exact hh (hiff.1 x.1))]; exact R
      · rw [if_neg e, if_neg (by intro x; exact e x.2)]
        refine DL.congr ?_ (r.plist c')
        intro a ha
        constructor
        · rw [sp.hnx, if_neg]
          intro hn; exact e (pl_disjoint inv ((r.plist c).pv_in pg hin a hn) ha)
        · rw [sp.hpv, if_neg]
          intro hn; exact e (pl_disjoint inv ((r.plist c).nx_in pg hin a hn) ha)
    · intro c'
      rw [e4, e1, sp.last]
      by_cases e : c = c'
      · subst e
        rw [if_pos rfl, (r.plist c).getLast_erase ndp pg hin, r.last c]
        by_cases hh : nxH s.heap pg = none
        · rw [if_pos hh, if_pos ⟨hh, rfl⟩]; rfl
        · rw [if_neg hh, if_neg (by intro x; exact hh x.1)]
      · rw [if_neg e, if_neg (by intro x; exact e x.2)]; exact r.last c'

theorem moveNext_rep {s s' : State V} {c pg : Nat} (inv : InvG s) (r : Rep s) (hc : c < nClasses)
    (hcls : ∀ h, s.pages.get? pg = some h → h.evac = true → h.cls = c)
    (hr : moveNext s c pg = .ok s') : Rep s' := by
  unfold moveNext at hr
  cases hp : s.pages.get? pg with
  | none => simp [hp] at hr
  | some h =>
  simp only [hp] at hr
  split at hr
  · cases hr
  · next hcond =>
    simp only [Bool.or_eq_true, Bool.not_eq_true', decide_eq_true_eq, not_or, Bool.not_eq_false] at hcond
    obtain ⟨hev, hscan⟩ := hcond
    split at hr
    · cases hr
      refine r.transfer rfl (fun _ => rfl) ?_
      intro q h' hq
      simp only [KMap.get?_set] at hq
      split at hq
      · next e => subst e; cases hq; exact ⟨h, hp, rfl⟩
      · exact ⟨h', hq, rfl⟩
    · split at hr
      · next m l hm hl =>
        obtain ⟨m', hm', _, hlen, _, hsz, h6⟩ := inv.live _ l hl
        rw [hm] at hm'; cases hm'
        obtain ⟨h0, g1, _, g3⟩ := h6
        rw [hp] at g1; cases g1
        have hcl := hcls h hp hev
        have hcap := (table_facts.2 _ hc).1
        cases ha : allocLive s c m.len m.cap m.val with
        | error e => simp [ha] at hr
        | ok t =>
          obtain ⟨s1, new⟩ := t
          simp only [ha] at hr
          have r1 := allocLive_rep inv r hc hcap ha
          obtain ⟨_, _, _, _, _, _, _, _, _, _, keep, _⟩ :=
            allocLive_invG inv hc hcap (by rw [hlen]; exact hsz) (by rw [← hcl]; exact g3) ha
          have hp1 : s1.pages.get? pg = some h := keep pg h hp hev
          simp only [hp1] at hr
          cases hr
          refine r1.transfer ?_ ?_ ?_ ?_
          · simp only [freeSlot, hev, if_true]
          · intro c'
            simp only [freeSlot, hev, if_true, State.K, KMap.get?_set]; split
            · next e => subst e; rfl
            · rfl
          · intro q h' hq
            simp only [freeSlot, hev, if_true, KMap.get?_set] at hq
            split at hq
            · next e => subst e; cases hq; exact ⟨h, hp1, rfl⟩
            · exact ⟨h', hq, rfl⟩
          · intro c'
            simp only [freeSlot, hev, if_true, State.K, KMap.get?_set]; split
            · next e => subst e; rfl
            · rfl
      · cases hr


/-! ### defragmentation passes -/

theorem moveNext_dinv' {t t' : State V} {c pg : Nat} {E : List Nat} (hc : c < nClasses)
    (dt : DInv t c (pg :: E)) (ht : moveNext t c pg = .ok t') : DInv t' c (pg :: E) := by
  obtain ⟨j1, j2, j3, j4, j5, _⟩ := moveNext_invG dt.g hc (fun h0 a b => (dt.evac pg h0 a b).2) ht
  refine ⟨j1, by rw [j2, j3]; exact dt.allocs, ?_⟩
  intro q hq a b
  rcases j5 q hq a b with e | e
  · subst e
    obtain ⟨h0, h0', x1, x2, _, _, _, x6, x7, _⟩ := j4
    rw [a] at x2; cases x2
    exact ⟨by simp, by rw [x7]; exact (dt.evac q h0 x1 x6).2⟩
  · exact dt.evac q hq e b

theorem evacPage_rep {s s' : State V} {c pg : Nat} {rest : List Nat} (hc : c < nClasses)
    (d : DInv s c (pg :: rest)) (r : Rep s) (hr : evacPage s c pg = .ok s') : Rep s' := by
  unfold evacPage at hr
  cases hp : s.pages.get? pg with
  | none => simp [hp] at hr
  | some h =>
  simp only [hp] at hr
  cases hi : iter (fun s => moveNext s c pg) h.brk s with
  | error e => simp [hi] at hr
  | ok s1 =>
  simp only [hi] at hr
  have d1 : DInv s1 c (pg :: rest) ∧ Rep s1 := by
    refine iter_inv (fun s => DInv s c (pg :: rest) ∧ Rep s) _ ?_ h.brk s s1 ⟨d, r⟩ hi
    intro t t' ⟨dt, rt⟩ ht
    exact ⟨moveNext_dinv' hc dt ht,
      moveNext_rep dt.g rt hc (fun h0 a b => (dt.evac pg h0 a b).2) ht⟩
  exact endEvac_rep d1.1.g d1.2 hr

theorem defragClass_rep {s s' : State V} {c : Nat} {ev : List Nat} (hc : c < nClasses) (inv : Inv s)
    (r : Rep s) (hr : defragClass s c ev = .ok s') : Rep s' := by
  unfold defragClass at hr
  simp only [] at hr
  split at hr
  · split at hr
    · cases hr; exact r
    · cases hr
  · split at hr
    · split at hr
      · cases hr; exact r
      · cases hr
    · split at hr
      · cases hr
      · cases h1 : foldE (fun s pg => beginEvac s c pg) s ev with
        | error e => simp [h1] at hr
        | ok s1 =>
          simp only [h1] at hr
          have p1 : DInv s1 c ev ∧ Rep s1 := by
            have := foldE_inv (fun (t : State V) (l : List Nat) => ((∀ x, x ∈ l → x ∈ ev) ∧ DInv t c ev) ∧ Rep t)
              (fun s pg => beginEvac s c pg) ?_ ev s s1
              ⟨⟨fun _ hx => hx, ⟨inv.g, inv.allocs, fun q hq a b => by rw [inv.noEvac q hq a] at b; cases b⟩⟩, r⟩ h1
            exact ⟨this.1.2, this.2⟩
            intro t pg rest t' ⟨⟨hsub, dt⟩, rt⟩ ht
            obtain ⟨j1, j2, j3, _, j5, _⟩ := beginEvac_invG dt.g ht
            refine ⟨⟨fun x hx => hsub x (List.mem_cons_of_mem _ hx), j1, by rw [j3, j2]; exact dt.allocs, ?_⟩,
              beginEvac_rep dt.g rt ht⟩
            intro q hq a b
            rcases j5 q hq a b with ⟨e1, e2⟩ | e
            · exact ⟨by rw [e1]; exact hsub pg (by simp), e2⟩
            · exact dt.evac q hq e b
          have p2 := foldE_inv (fun (t : State V) (l : List Nat) => DInv t c l ∧ Rep t)
            (fun s pg => evacPage s c pg)
            (fun t pg rest t' dt ht => ⟨evacPage_dinv hc dt.1 ht, evacPage_rep hc dt.1 dt.2 ht⟩) ev s1 s' p1 hr
          exact p2.2

theorem defragAll_rep {s s' : State V} {ch : List (Nat × List Nat)} (inv : Inv s) (r : Rep s)
    (hr : defragAll s ch = .ok s') : Rep s' := by
  unfold defragAll at hr
  have r0 : Rep ({ s with relog := [] } : State V) :=
    r.transfer rfl (fun _ => rfl) (fun q h' hq => ⟨h', hq, rfl⟩)
  have := foldE_inv (fun (t : State V) (l : List Nat) => (∀ x, x ∈ l → x < nClasses) ∧ Inv t ∧ Rep t) _ ?_
    (List.range nClasses) _ s' ⟨fun x hx => List.mem_range.1 hx, relogClear_inv inv, r0⟩ hr
  exact this.2.2
  intro t c rest t' ⟨hsub, it, rt⟩ ht
  refine ⟨fun x hx => hsub x (List.mem_cons_of_mem _ hx), ?_⟩
  split at ht
  · exact ⟨defragClass_inv (hsub c (by simp)) it ht, defragClass_rep (hsub c (by simp)) it rt ht⟩
  · split at ht
    · cases ht; exact ⟨it, rt⟩
    · cases ht

/-! ### traces -/

theorem step_rep {s s' : State V} {op : Op V} (inv : Inv s) (r : Rep s) (hr : step s op = .ok s') : Rep s' := by
  cases op with
  | malloc size =>
    simp only [step] at hr
    cases hm : malloc s size with
    | error e => simp [hm] at hr
    | ok t => obtain ⟨s2, a⟩ := t; simp only [hm] at hr; cases hr; exact malloc_rep inv.g r hm
  | free a => exact free_rep inv r hr
  | write a v => exact write_rep r hr
  | defrag ch => exact defragAll_rep inv r hr

end GocoinV.Alloc
