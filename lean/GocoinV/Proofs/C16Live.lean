/-
  Proofs.C16Live — nothing stays queued for ever: every index record that is not yet on disk has its own entry in
  the write queue (same key, same record identity), and `writeAll` (Idle / Close / the BlockAdd thresholds) empties
  the queue — so after a flush every record of the index is written. Holds for ALL histories, restarts included.
-/
import GocoinV.Proofs.C16Refine
namespace GocoinV.BlockDB

def Live (s : State) : Prop :=
  ∀ k r, AL.get s.index k = some r → r.ipos = none → ∃ b ∈ s.queue, b.idx = k ∧ b.seq = r.seq

/-- the index record of one key is replaced by one with the same `ipos` / `seq`; the queue is unchanged -/
theorem live_update (s s' : State) (h : Live s) (k : Key) (r0 r' : Rec) (hr : AL.get s.index k = some r0)
    (hidx : ∀ k', AL.get s'.index k' = if k = k' then some r' else AL.get s.index k')
    (hq : s'.queue = s.queue) (g1 : r'.ipos = r0.ipos) (g2 : r'.seq = r0.seq) : Live s' := by
  intro k' r hri hn
  rw [hidx] at hri
  rw [hq]
  split at hri
  · rename_i e; subst e
    simp only [Option.some.injEq] at hri; subst hri
    rw [g2]; exact h k r0 hr (by rw [← g1]; exact hn)
  · exact h k' r hri hn

theorem live_same (s s' : State) (h : Live s) (hi : s'.index = s.index) (hq : s'.queue = s.queue) : Live s' := by
  intro k r hri hn; rw [hi] at hri; rw [hq]; exact h k r hri hn

theorem setBlockFlag_live (s : State) (h : Live s) (k : Key) (r0 : Rec) (fl : Nat) (hr : AL.get s.index k = some r0) :
    Live (setBlockFlag s k r0 fl) := by
  obtain ⟨i0, _, i2, _⟩ := setBlockFlag_fields s k r0 fl
  exact live_update s _ h k r0 _ hr i0 i2 rfl rfl

theorem blockTrusted_live (s : State) (h : Live s) (hash : Bytes) : Live (blockTrusted s hash) := by
  unfold blockTrusted
  simp only
  split
  · exact h
  · rename_i r0 hr0
    split
    · exact h
    · exact setBlockFlag_live s h _ r0 _ hr0

theorem blockInvalid_live (s : State) (h : Live s) (hash : Bytes) : Live (blockInvalid s hash).1 := by
  unfold blockInvalid
  simp only
  split
  · exact h
  · rename_i r0 hr0
    split
    · exact h
    · split
      · intro k r hri hn
        simp only [AL.get_del] at hri
        split at hri
        · cases hri
        · exact h k r hri hn
      · exact setBlockFlag_live s h _ r0 _ hr0

theorem addToCache_live (s : State) (h : Live s) (k : Key) (d : Bytes) : Live (addToCache s k d) := by
  obtain ⟨g1, g2, _⟩ := addToCache_fields s k d
  exact live_same s _ h g1 g2

theorem blockGet_live (env : Env) (s : State) (h : Live s) (hash : Bytes) : Live (blockGet env s hash).1 := by
  unfold blockGet
  simp only
  split
  · exact h
  · rename_i r0 hr0
    split
    · exact live_same s _ h rfl rfl
    · split
      · exact h
      · split
        · exact h
        · split
          · exact h
          · split
            · exact h
            · rename_i file _ _
              generalize decodeStored env r0 (List.take r0.blen (List.drop r0.fpos file)) = ble
              obtain ⟨bl, err⟩ := ble
              simp only
              have h1 : Live { s with index := AL.set s.index (keyOf hash) (if r0.olen = 0 then ({ r0 with olen := bl.length } : Rec) else r0) } :=
                live_update s _ h (keyOf hash) r0 (if r0.olen = 0 then ({ r0 with olen := bl.length } : Rec) else r0) hr0
                  (fun k' => by simp only [AL.get_set]) rfl (by split <;> rfl) (by split <;> rfl)
              have h2 := addToCache_live _ h1 (keyOf hash) bl
              split <;> exact h2

theorem blockLength_live (env : Env) (s : State) (h : Live s) (hash : Bytes) (d : Bool) : Live (blockLength env s hash d).1 := by
  unfold blockLength
  simp only
  split
  · exact h
  · split
    · exact h
    · split
      · exact h
      · have := blockGet_live env s h hash
        generalize blockGet env s hash = res at this ⊢
        obtain ⟨s', out⟩ := res
        cases out <;> exact this

/-- `writeOne` takes exactly one entry off the queue and keeps `Live` -/
theorem writeOne_live (env : Env) (s s' : State) (h : Live s) (hw : writeOne env s = some s') :
    Live s' ∧ s'.queue.length + 1 = s.queue.length := by
  unfold writeOne at hw
  split at hw
  · cases hw
  · rename_i b q hq
    simp only at hw
    split at hw
    · rename_i hnone
      cases hw
      refine ⟨?_, by simp [hq]⟩
      intro k r hri hn
      obtain ⟨b', hb', e1, e2⟩ := h k r hri hn
      rw [hq] at hb'
      simp only [List.mem_cons] at hb'
      rcases hb' with hb' | hb'
      · rw [hb'] at e1; rw [← e1, hnone] at hri; cases hri
      · exact ⟨b', hb', e1, e2⟩
    · rename_i r0 hr0
      split at hw
      · rename_i hc
        cases hw
        refine ⟨?_, by simp [hq]⟩
        intro k r hri hn
        obtain ⟨b', hb', e1, e2⟩ := h k r hri hn
        rw [hq] at hb'
        simp only [List.mem_cons] at hb'
        rcases hb' with hb' | hb'
        · rw [hb'] at e1 e2
          rw [← e1, hr0] at hri; simp only [Option.some.injEq] at hri; subst hri
          rcases hc with hc | hc
          · exact absurd e2.symm hc
          · rw [hn] at hc; simp at hc
        · exact ⟨b', hb', e1, e2⟩
      · simp only [Option.some.injEq] at hw
        subst hw
        obtain ⟨_, m2, m3, _, _⟩ := maybeRoll_facts { s with queue := q, datToWrite := s.datToWrite - b.data.length }
          (if s.opts.compress = true then env.enc b.data else b.data).length
        unfold writeRecord
        simp only [m2, m3]
        refine ⟨?_, by simp [hq]⟩
        intro k r hri hn
        simp only [AL.get_set] at hri
        split at hri
        · simp only [Option.some.injEq] at hri; subst hri; simp at hn
        · rename_i hne
          obtain ⟨b', hb', e1, e2⟩ := h k r hri hn
          rw [hq] at hb'
          simp only [List.mem_cons] at hb'
          rcases hb' with hb' | hb'
          · rw [hb'] at e1; exact absurd e1 hne
          · exact ⟨b', hb', e1, e2⟩

theorem writeOne_none (env : Env) (s : State) (hw : writeOne env s = none) : s.queue = [] := by
  unfold writeOne at hw
  split at hw
  · assumption
  · simp only at hw
    split at hw
    · cases hw
    · split at hw <;> cases hw

theorem writeAll_live (env : Env) : ∀ (f : Nat) (s : State), Live s → s.queue.length ≤ f →
    Live (writeAll env f s) ∧ (writeAll env f s).queue = [] := by
  intro f
  induction f with
  | zero =>
    intro s h hl
    unfold writeAll
    exact ⟨h, List.eq_nil_of_length_eq_zero (by omega)⟩
  | succ f ih =>
    intro s h hl
    unfold writeAll
    split
    · rename_i hw; exact ⟨h, writeOne_none env s hw⟩
    · rename_i s' hw
      obtain ⟨a, b⟩ := writeOne_live env s s' h hw
      exact ih s' a (by omega)

/-- after `writeAll` every record of the index is on disk -/
theorem flush_all_written (env : Env) (s : State) (h : Live s) :
    Live (flush env s) ∧ ∀ k r, AL.get (flush env s).index k = some r → r.ipos.isSome = true := by
  obtain ⟨a, b⟩ := writeAll_live env s.queue.length s h (Nat.le_refl _)
  refine ⟨a, ?_⟩
  intro k r hri
  cases hn : r.ipos with
  | some p => rfl
  | none =>
    obtain ⟨b', hb', _⟩ := a k r hri hn
    rw [b] at hb'; cases hb'

theorem blockAdd_live (env : Env) (s : State) (h : Live s) (hash : Bytes) (ht tx : Nat) (tr : Bool) (raw : Bytes) :
    Live (blockAdd env s hash ht tx tr raw) := by
  unfold blockAdd
  simp only
  split
  · have key : Live { (addToCache { s with index := AL.set s.index (keyOf hash) { ipos := none, trusted := tr, olen := raw.length, seq := s.nextSeq } } (keyOf hash) raw) with
        datToWrite := (addToCache { s with index := AL.set s.index (keyOf hash) { ipos := none, trusted := tr, olen := raw.length, seq := s.nextSeq } } (keyOf hash) raw).datToWrite + raw.length,
        nextSeq := (addToCache { s with index := AL.set s.index (keyOf hash) { ipos := none, trusted := tr, olen := raw.length, seq := s.nextSeq } } (keyOf hash) raw).nextSeq + 1,
        queue := (addToCache { s with index := AL.set s.index (keyOf hash) { ipos := none, trusted := tr, olen := raw.length, seq := s.nextSeq } } (keyOf hash) raw).queue ++
          [{ data := raw, idx := keyOf hash, height := ht, txcount := tx % 2^32,
             seq := (addToCache { s with index := AL.set s.index (keyOf hash) { ipos := none, trusted := tr, olen := raw.length, seq := s.nextSeq } } (keyOf hash) raw).nextSeq }] } := by
      obtain ⟨g1, g2, _, _, _, g6, _⟩ := addToCache_fields { s with index := AL.set s.index (keyOf hash) { ipos := none, trusted := tr, olen := raw.length, seq := s.nextSeq } } (keyOf hash) raw
      intro k r hri hn
      simp only [g1, AL.get_set] at hri
      simp only [g2, g6, List.mem_append, List.mem_singleton]
      split at hri
      · rename_i e; subst e
        simp only [Option.some.injEq] at hri; subst hri
        exact ⟨_, .inr rfl, rfl, rfl⟩
      · obtain ⟨b', hb', e1, e2⟩ := h k r hri hn
        exact ⟨b', .inl hb', e1, e2⟩
    split
    · exact (flush_all_written env _ key).1
    · exact key
  · rename_i r0 hr0
    split
    · split
      · exact live_update s _ h (keyOf hash) r0 { r0 with trusted := true } hr0 (fun k' => by simp only [AL.get_set]) rfl rfl rfl
      · exact blockTrusted_live s h hash
    · exact h

/-- LoadBlockIndex only makes records that are on disk -/
theorem loadLoop_written (env : Env) : ∀ (f : Nat) (file : Bytes) (a : LoadAcc),
    (∀ k r, AL.get a.index k = some r → r.ipos.isSome = true) →
    ∀ k r, AL.get (loadLoop env f file a).index k = some r → r.ipos.isSome = true := by
  intro f
  induction f with
  | zero => intro file a ha; exact ha
  | succ f ih =>
    intro file a ha
    unfold loadLoop
    split
    · exact ha
    · apply ih
      intro k r hri
      unfold loadRecord at hri
      simp only at hri
      split at hri
      · split at hri
        · simp only [(bumpInvalid_fields a _ _).1] at hri; exact ha k r hri
        · rw [(bumpInvalid_fields a _ _).1] at hri; exact ha k r hri
      · simp only [AL.get_set] at hri
        split at hri
        · simp only [Option.some.injEq] at hri; subst hri; rfl
        · exact ha k r hri

theorem reopen_live (env : Env) (fs : FS) (o : Opts) : Live (reopen env fs o).1 := by
  intro k r hri hn
  have : r.ipos.isSome = true := by
    unfold reopen at hri
    simp only at hri
    exact loadLoop_written env _ _ {} (by intro k r h; simp [AL.get] at h) k r hri
  rw [hn] at this; cases this

theorem step_live (env : Env) (s : State) (op : Op) (h : Live s) : Live (step env s op).1 := by
  unfold step
  cases op with
  | reopen o => simp only; split; exact h; exact reopen_live env s.fs o
  | add hash ht tx tr raw =>
    simp only; split; exact h; split; exact h; exact blockAdd_live env s h hash ht tx tr raw
  | get hash => simp only; split; exact h; exact blockGet_live env s h hash
  | length hash d => simp only; split; exact h; exact blockLength_live env s h hash d
  | trusted hash => simp only; split; exact h; exact blockTrusted_live s h hash
  | invalid hash => simp only; split; exact h; exact blockInvalid_live s h hash
  | idle => simp only; split; exact h; exact (flush_all_written env s h).1
  | close =>
    simp only; split; exact h
    exact live_same _ _ (flush_all_written env s h).1 rfl rfl

theorem run_live (env : Env) : ∀ (ops : List Op) (s : State), Live s → Live (run env s ops).1 := by
  intro ops
  induction ops with
  | nil => intro s h; exact h
  | cons op ops ih => intro s h; unfold run; exact ih _ (step_live env s op h)

theorem init_live : Live init := by
  intro k r h; simp [init, AL.get] at h

end GocoinV.BlockDB
